/-
C04 / C12: derivation of the internal parameters from x and the tuning factors
(src/gourdon/pi_gourdon.cpp 44-62, src/deleglise-rivat/pi_deleglise_rivat.cpp 73-78, src/util.cpp).

L1: the two float products `(int64_t)(x13 * alpha_y)` and `(int64_t)(y * alpha_z)` are ARBITRARY integers
`v`, `w` (theorems quantify over them); only the integer clamps are modelled.
L2 (driver): the same clamps fed with the products computed in binary64 (IEEE multiplication and
conversion are exact operations, reproduced by Lean's `Float`); the alpha values themselves (libm `log`)
arrive from the implementation as bit patterns.
-/
import PcModel.Formulas
namespace Pc

/-- `y = max(min(max(v, x13 + 1), sqrtx - 1), 1)` with v = (int64_t)(x13 * alpha_y) -/
def clampY (x13 sqrtx v : Int) : Int := max (min (max v (x13 + 1)) (sqrtx - 1)) 1

/-- `z = max(min(max(w, y), sqrtx - 1), 1)` with w = (int64_t)(y * alpha_z) -/
def clampZ (sqrtx y w : Int) : Int := max (min (max w y) (sqrtx - 1)) 1

/-- Gourdon's (y, z) for arbitrary float products: `w` may depend on `y` -/
def gourdonYZ (x : Nat) (v : Int) (w : Int → Int) : Int × Int :=
  let x13 : Int := irootN 3 x
  let sq : Int := isqrtN x
  let y := clampY x13 sq v
  (y, clampZ sq y (w y))

/-- `truncate3(n) = (int64_t)(n * 1000) / 1000.0` on the level of thousandths -/
def truncate3Milli (milli : Int) : Int := milli

/-- `in_between(1, alpha, x16)` on doubles, for the exact-rational reading (thousandths) -/
def clampAlphaMilli (alphaMilli x16 : Int) : Int := inBetween 1000 alphaMilli (x16 * 1000)

end Pc
