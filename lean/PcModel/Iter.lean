/-
C18 (WP iter): L2 model of the iterator / API layer of the bundled primesieve — everything ABOVE the sieving core.

Modelled C++ (pinned tree, /repo/lib/primesieve):
  include/primesieve/pmath.hpp:111-147    checkedAdd / checkedSub / inBetween        -> `checkedAdd` `checkedSub` `inBetween`
  include/primesieve/pmath.hpp:180-188    maxPrimeGap (float inside)                  -> `Floats.gap` (PARAMETER)
  src/IteratorHelper.cpp:25-33            getNextDist                                 -> `getNextDist`
  src/IteratorHelper.cpp:35-49            getPrevDist                                 -> `getPrevDist`
  src/IteratorHelper.cpp:55-87            IteratorHelper::updateNext                  -> `updateNext`
  src/IteratorHelper.cpp:89-106           IteratorHelper::updatePrev                  -> `updatePrev`
  include/primesieve/IteratorHelper.hpp   IteratorData {stop, dist, include_start_number, primeGenerator}  -> `Data`
  src/iterator.cpp:44-52, 93-116          iterator(start, stop_hint), jump_to, clear  -> `init`, `jumpTo`, `clear`
  src/iterator.cpp:123-156                generate_next_primes (`while (true)`)       -> `genNext`
  src/iterator.cpp:158-189                generate_prev_primes (`do … while (!size_)`)-> `genPrev`
  include/primesieve/iterator.hpp:127-147 next_prime / prev_prime (inline)            -> `nextPrime`, `prevPrime`
  src/PrimeGenerator.cpp:41-119,127-152   smallPrimes / primePi tables, getStartIdx / getStopIdx            -> `smallPart`
  src/PrimeGenerator.cpp:155-253          initPrevPrimes (leading 0 when start <= 2) / initNextPrimes / initErat -> `pgPrimes`, `fillPrev`
  src/PrimeGenerator.cpp:300-331, PrimeGenerator_default.hpp:34-83  fillNextPrimes: batches, empty batch = exhausted,
                                          `throw primesieve_error("cannot generate primes > 2^64")`       -> `fillNext`
  src/nthPrime.cpp                        nthPrime / negativeNthPrime                 -> `nthPrime`
  src/ParallelSieve.cpp:63-156            idealNumThreads / getThreadDistance / align / sieve (interval splitting) -> `parIntervals`
  src/PrimeSieve.cpp:24-34, 252-264, 290-313  smallPrimes (k-tuplets table) / processSmallPrimes / sieve  -> `processSmallPrimes`, `sieveCount`
  include/primesieve/StorePrimes.hpp:57-99, 102-160  store_primes / store_n_primes    -> `storePrimes`, `storeNPrimes`
  /repo/src/generate_primes.cpp           generate_primes_<T>(max) / generate_n_primes_<T>(n)               -> `pcGeneratePrimes`, `pcGenerateNPrimes`

What is abstract (PARAMETERS; every theorem quantifies over all of them):
  * `Floats`: the four float-derived integers `(uint64_t) sqrt(start)`, `(uint64_t) log(max(10, stop))`,
    `(uint64_t)(sqrt(stop) * 2)`, `maxPrimeGap(n)`.
  * the sieving core (`Erat*`, `PreSieve`, bit extraction): `Env.primes a b` = what a `PrimeGenerator(a, b)` delivers in
    total, `Env.firstK a b k` = its first `k` entries; contract `GenSpec` (PcProofs/Iter.lean): `primes a b` lists exactly
    the primes of `[a, b]` increasing. `pgPrimes core` models PrimeGenerator's OWN table path around a core that is only
    asked for `[max(start, 721), stop]`.
  * batch sizes of `fillNextPrimes` (depend on the vector capacity left by earlier calls, the sieve segment size and the
    bit layout): `Env.batch t` = size of the `t`-th fill, any function (values `< 1` are treated as 1).
uint64 arithmetic is exact: `% 2^64` where the C++ wraps, saturation where it uses checkedAdd / checkedSub.
`memory_ == nullptr` is not a separate state: `new IteratorData(start_)` creates exactly what `jump_to` resets an existing
object to (`stop = start_`, `dist = 0`, `include_start_number = true`, no generator), so `Data` is always present.
After a `primesieve_error` the history ends (`Err.ps`); what the object does afterwards is not modelled.
Core Lean only (linked into the driver).
-/
import PcModel.Basic
namespace Pc.It

/-- `std::numeric_limits<uint64_t>::max()` -/
def umax : Nat := 18446744073709551615
def two64 : Nat := 18446744073709551616

/-- pmath.hpp:111 `checkedAdd`: returns 2^64-1 if `x + y >= 2^64-1` -/
def checkedAdd (x y : Nat) : Nat := if x ≥ umax - y then umax else x + y
/-- pmath.hpp:120 `checkedSub`: returns 0 if `x - y < 0` -/
def checkedSub (x y : Nat) : Nat := if x > y then x - y else 0
/-- pmath.hpp:128 `inBetween(min, x, max)` -/
def inBetween (mn x mx : Nat) : Nat := if x < mn then mn else if x > mx then mx else x

/-- the float-derived integers of IteratorHelper.cpp / pmath.hpp -/
structure Floats where
  /-- `(uint64_t) std::sqrt(start)` (getNextDist) -/
  sqrtN : Nat → Nat
  /-- `(uint64_t) std::log(std::max(10.0, (double) stop))` (getPrevDist) -/
  logP : Nat → Nat
  /-- `(uint64_t) (std::sqrt(stop) * 2)` (getPrevDist) -/
  sqrt2 : Nat → Nat
  /-- `maxPrimeGap(n)` = `(uint64_t) (log(max(8, n))^2)` -/
  gap : Nat → Nat

/-- `PrimeGenerator::maxCachedPrime()` = `smallPrimes.back()` -/
def maxCached : Nat := 719

/-- IteratorHelper.cpp:25-33 -/
def getNextDist (f : Floats) (start dist : Nat) : Nat :=
  let minDist := max (f.sqrtN start) maxCached
  inBetween minDist ((dist * 4) % two64) (2 ^ 60)

/-- IteratorHelper.cpp:35-49 (`MIN_CACHE_ITERATOR / 8 = 524288`, `MAX_CACHE_ITERATOR / 8 = 2^27`, `tinyDist = 719 * 4`) -/
def getPrevDist (f : Floats) (stop dist : Nat) : Nat :=
  let logx := f.logP stop
  let minDist := (524288 * logx) % two64
  let maxDist := (134217728 * logx) % two64
  let tinyDist := maxCached * 4
  let defaultDist := f.sqrt2 stop
  let minDist := inBetween tinyDist ((dist * 4) % two64) minDist
  inBetween minDist defaultDist maxDist

/-- a live `PrimeGenerator` used by `generate_next_primes`: the primes `< pos` of `[start, stop]` were delivered -/
structure Gen where
  stop : Nat
  pos : Nat
deriving Repr, DecidableEq

/-- `IteratorData` -/
structure Data where
  stop : Nat
  dist : Nat
  incl : Bool
  gen : Option Gen
deriving Repr, DecidableEq

/-- `primesieve::iterator` (`size_ = buf.length`, `primes_[0 .. size_) = buf`) -/
structure St where
  i : Nat
  start : Nat
  hint : Nat
  buf : List Nat
  mem : Data
  /-- number of non-empty `fillNextPrimes` batches so far (index into the batch-size oracle; not a C++ field) -/
  tick : Nat
deriving Repr, DecidableEq

def St.size (s : St) : Nat := s.buf.length

inductive Err where
  /-- `primesieve_error("cannot generate primes > 2^64")` -/
  | ps
  /-- a read `primes_[k]` outside `[0, size_)` / `primes.front()` of an empty vector -/
  | oob
  /-- a loop that would not terminate (fuel of the model exhausted) -/
  | hang
deriving Repr, DecidableEq

/-- the sieving core + the batching of `fillNextPrimes` + the floats -/
structure Env where
  fl : Floats
  /-- everything a `PrimeGenerator(a, b)` delivers (without the leading 0 of initPrevPrimes) -/
  primes : Nat → Nat → List Nat
  /-- its first `k` entries -/
  firstK : Nat → Nat → Nat → List Nat
  /-- size of the `t`-th non-empty batch of `fillNextPrimes` -/
  batch : Nat → Nat

/-- `iterator(start, stop_hint)` (iterator.cpp:44) + the `IteratorData(start_)` created on first use -/
def init (start hint : Nat) : St := ⟨0, start, hint, [], ⟨start, 0, true, none⟩, 0⟩

/-- `jump_to(start, stop_hint)` (iterator.cpp:93) -/
def jumpTo (s : St) (start hint : Nat) : St := { init start hint with tick := s.tick }

/-- `clear()` = `jump_to(0)` -/
def clear (s : St) : St := jumpTo s 0 umax

/-- IteratorHelper::updateNext: returns the new `start_` and the new IteratorData -/
def updateNext (f : Floats) (hint : Nat) (d : Data) : Nat × Data :=
  let start := if d.incl then d.stop else checkedAdd d.stop 1
  let dist := getNextDist f start d.dist
  let stop := if hint ≥ start ∧ hint < umax then checkedAdd hint (f.gap hint) else checkedAdd start dist
  (start, { d with stop := stop, dist := dist, incl := false })

/-- IteratorHelper::updatePrev -/
def updatePrev (f : Floats) (start hint : Nat) (d : Data) : Nat × Data :=
  let stop := if d.incl then start else checkedSub start 1
  let dist := getPrevDist f stop d.dist
  let start := checkedSub stop dist
  let start := if hint ≥ start ∧ hint ≤ stop then checkedSub hint (f.gap hint) else start
  (start, { d with stop := stop, dist := dist, incl := false })

/-- `PrimeGenerator::fillNextPrimes`: the next batch (non-empty unless the generator is exhausted);
    exhausted with `stop_ = 2^64-1` throws -/
def fillNext (e : Env) (g : Gen) (t : Nat) : Except Err (List Nat × Gen) :=
  let b := e.firstK g.pos g.stop (max 1 (e.batch t))
  match b.getLast? with
  | none => if g.stop ≥ umax then .error .ps else .ok ([], g)
  | some l => .ok (b, { g with pos := l + 1 })

/-- `PrimeGenerator::fillPrevPrimes`: the whole window, with the leading 0 of initPrevPrimes when `start <= 2` -/
def fillPrev (e : Env) (start stop : Nat) : List Nat :=
  (if start ≤ 2 then [0] else []) ++ e.primes start stop

/-- iterator.cpp:133-137 `if (!iterData.primeGenerator) { updateNext(…); newPrimeGenerator(start_, iterData.stop); }`:
    the state and the generator the next `fillNextPrimes` works with -/
def pickGen (e : Env) (s : St) : St × Gen :=
  match s.mem.gen with
  | some g => (s, g)
  | none =>
    let u := updateNext e.fl s.hint s.mem
    ({ s with start := u.1, mem := u.2 }, ⟨u.2.stop, u.1⟩)

/-- iterator.cpp:123 `generate_next_primes()` -/
def genNext (e : Env) : Nat → St → Except Err St
  | 0, _ => .error .hang
  | fuel + 1, s =>
    let s1 := (pickGen e s).1
    match fillNext e (pickGen e s).2 s1.tick with
    | .error err => .error err
    | .ok (b, g') =>
      if b.isEmpty then
        genNext e fuel { s1 with buf := [], i := 0, mem := { s1.mem with gen := none } }
      else
        .ok { s1 with buf := b, i := 0, tick := s1.tick + 1, mem := { s1.mem with gen := some g' } }

/-- the `do … while (!size_)` loop of `generate_prev_primes()` -/
def genPrevLoop (e : Env) : Nat → St → Except Err St
  | 0, _ => .error .hang
  | fuel + 1, s =>
    let (st, d) := updatePrev e.fl s.start s.hint s.mem
    let b := fillPrev e st d.stop
    let s' := { s with start := st, mem := d, buf := b, i := b.length }
    if b.isEmpty then genPrevLoop e fuel s' else .ok s'

/-- iterator.cpp:158 `generate_prev_primes()` -/
def genPrev (e : Env) (fuel : Nat) (s : St) : Except Err St :=
  match s.mem.gen with
  | some _ =>
    match s.buf with
    | [] => .error .oob
    | p :: _ => genPrevLoop e fuel { s with start := p, mem := { s.mem with gen := none } }
  | none => genPrevLoop e fuel s

/-- enough fuel for every loop: at most two iterations per position inside `[0, 2^64)` (PcProofs/IterRefine.lean) -/
def bigFuel : Nat := 2 * two64 + 4

/-- iterator.hpp:127 `next_prime()` -/
def nextPrime (e : Env) (s : St) : Except Err (Nat × St) :=
  let i := s.i + 1
  if i ≥ s.size then
    match genNext e bigFuel { s with i := i } with
    | .error err => .error err
    | .ok s' => match s'.buf[s'.i]? with
      | none => .error .oob
      | some p => .ok (p, s')
  else match s.buf[i]? with
    | none => .error .oob
    | some p => .ok (p, { s with i := i })

/-- iterator.hpp:141 `prev_prime()` -/
def prevPrime (e : Env) (s : St) : Except Err (Nat × St) :=
  let r := if s.i = 0 then genPrev e bigFuel s else .ok s
  match r with
  | .error err => .error err
  | .ok s' =>
    if s'.i = 0 then .error .oob else
    match s'.buf[s'.i - 1]? with
    | none => .error .oob
    | some p => .ok (p, { s' with i := s'.i - 1 })

/-- one operation of a history -/
inductive Op where
  | next | prev
  | jump (start hint : Nat)
deriving Repr, DecidableEq

/-- run a history; the outputs of `next`/`prev` so far and the error that ended it (if any) -/
def run (e : Env) : St → List Op → List Nat × Option Err
  | _, [] => ([], none)
  | s, .jump a h :: ops => run e (jumpTo s a h) ops
  | s, .next :: ops =>
    match nextPrime e s with
    | .error err => ([], some err)
    | .ok (p, s') => let (o, r) := run e s' ops; (p :: o, r)
  | s, .prev :: ops =>
    match prevPrime e s with
    | .error err => ([], some err)
    | .ok (p, s') => let (o, r) := run e s' ops; (p :: o, r)

/-! ## PrimeGenerator's own table path -/

/-- PrimeGenerator.cpp:41 `smallPrimes` (first 128 primes) -/
def smallPrimes : List Nat :=
  [2, 3, 5, 7, 11, 13, 17, 19, 23, 29, 31, 37, 41, 43, 47, 53, 59, 61, 67, 71, 73, 79, 83, 89, 97, 101, 103, 107, 109, 113,
   127, 131, 137, 139, 149, 151, 157, 163, 167, 173, 179, 181, 191, 193, 197, 199, 211, 223, 227, 229, 233, 239, 241, 251,
   257, 263, 269, 271, 277, 281, 283, 293, 307, 311, 313, 317, 331, 337, 347, 349, 353, 359, 367, 373, 379, 383, 389, 397,
   401, 409, 419, 421, 431, 433, 439, 443, 449, 457, 461, 463, 467, 479, 487, 491, 499, 503, 509, 521, 523, 541, 547, 557,
   563, 569, 571, 577, 587, 593, 599, 601, 607, 613, 617, 619, 631, 641, 643, 647, 653, 659, 661, 673, 677, 683, 691, 701,
   709, 719]

/-- PrimeGenerator.cpp:60 `primePi[n]` for `n < 720`: number of table entries `<= n` -/
def primePi (n : Nat) : Nat := (smallPrimes.filter (· ≤ n)).length

/-- `getStartIdx()` -/
def startIdx (start : Nat) : Nat := if start > 1 then primePi (start - 1) else 0
/-- `getStopIdx()` -/
def stopIdx (stop : Nat) : Nat := if stop < maxCached then primePi stop else smallPrimes.length

/-- `std::copy(smallPrimes.begin() + a, smallPrimes.begin() + b, …)` of initNextPrimes / initPrevPrimes (`start <= 719`) -/
def smallPart (start stop : Nat) : List Nat :=
  if start ≤ maxCached then (smallPrimes.take (stopIdx stop)).drop (startIdx start) else []

/-- `initErat()`: the core is asked for `[max(start, 721), stop]` when that is non-empty and below 2^64-1 -/
def pgPrimes (core : Nat → Nat → List Nat) (start stop : Nat) : List Nat :=
  let startErat := max (maxCached + 2) start
  smallPart start stop ++ (if startErat ≤ stop ∧ startErat < umax then core startErat stop else [])

/-! ## nthPrime.cpp -/

def maxN : Nat := 425656284035217743

/-- the float-derived quantities of nthPrime.cpp -/
structure NthFloats where
  /-- `primePiApprox(start)` -/
  piApprox : Nat → Nat
  /-- `nthPrimeApprox(n)` -/
  nthApprox : Nat → Nat
  /-- `avgPrimeGap(n)` -/
  avgGap : Nat → Nat
  /-- `isqrt(n)` -/
  isq : Nat → Nat

inductive NErr where
  | tooLarge      -- "n must be <= max_n"
  | absTooLarge   -- "abs(n) must be < start" / "<= max_n"
  | below2        -- "nth prime < 2 is impossible"
  | iter (e : Err)
deriving Repr, DecidableEq

/-- `for (…) prime = iter.next_prime();` (`k` calls) -/
def nextK (e : Env) : Nat → St → Nat → Except NErr Nat
  | 0, _, last => .ok last
  | k + 1, s, _ => match nextPrime e s with
    | .error err => .error (.iter err)
    | .ok (p, s') => nextK e k s' p

/-- `for (…) { prime = iter.prev_prime(); if (prime == 0) throw … }` (`k` calls) -/
def prevK (e : Env) : Nat → St → Nat → Except NErr Nat
  | 0, _, last => .ok last
  | k + 1, s, _ => match prevPrime e s with
    | .error err => .error (.iter err)
    | .ok (p, s') => if p = 0 then .error .below2 else prevK e k s' p

/-- `PrimeSieve::nthPrime(n, start)` for `n >= 0` (nthPrime.cpp:53-118); `cnt a b` = `countPrimes(a, b)` -/
def nthPrimePos (e : Env) (nf : NthFloats) (cnt : Nat → Nat → Nat) (n0 start0 : Nat) : Except NErr Nat :=
  let n := if n0 = 0 then 1 else n0
  if n > maxN then .error .tooLarge else
  let nApprox := min (checkedAdd (nf.piApprox start0) n) maxN
  let primeApprox := max (nf.nthApprox nApprox) start0
  let (start, primeApprox, countApprox) :=
    if primeApprox - start0 > nf.isq primeApprox / 10 then
      let st := checkedAdd start0 1
      let pa := max st primeApprox
      (pa, pa, cnt st pa)
    else (start0, primeApprox, 0)
  if countApprox < n then
    let start := checkedAdd start 1
    let dist := ((n - countApprox) * nf.avgGap primeApprox) % two64
    nextK e (n - countApprox) (init start (checkedAdd start dist)) 0
  else
    let dist := ((countApprox - n) * nf.avgGap primeApprox) % two64
    prevK e (countApprox - n + 1) (init start (checkedSub start dist)) 0

/-- `PrimeSieve::negativeNthPrime(n, start)`, `n = -m`, `m > 0` (nthPrime.cpp:120-187) -/
def nthPrimeNeg (e : Env) (nf : NthFloats) (cnt : Nat → Nat → Nat) (m start0 : Nat) : Except NErr Nat :=
  if m ≥ start0 then .error .absTooLarge else
  if m > maxN then .error .absTooLarge else
  let nApprox := min (checkedSub (nf.piApprox start0) m) maxN
  let primeApprox := min (nf.nthApprox nApprox) start0
  let (start, countApprox) :=
    if start0 - primeApprox > nf.isq start0 / 10 then
      let st := checkedSub start0 1
      let pa := min primeApprox st
      (pa, cnt pa st)
    else (start0, 0)
  if countApprox ≥ m then
    let dist := ((countApprox - m) * nf.avgGap start) % two64
    nextK e (countApprox - m + 1) (init start (checkedAdd start dist)) 0
  else
    let start := checkedSub start 1
    let dist := ((m - countApprox) * nf.avgGap start) % two64
    prevK e (m - countApprox) (init start (checkedSub start dist)) 0

/-- `PrimeSieve::nthPrime(int64_t n, uint64_t start)` -/
def nthPrime (e : Env) (nf : NthFloats) (cnt : Nat → Nat → Nat) (n : Int) (start : Nat) : Except NErr Nat :=
  if n < 0 then nthPrimeNeg e nf cnt n.natAbs start else nthPrimePos e nf cnt n.toNat start

/-! ## PrimeSieve.cpp: small primes, ParallelSieve.cpp: interval splitting -/

/-- PrimeSieve.cpp:24 `smallPrimes`: (first, last, index) -/
def smallTuplets : List (Nat × Nat × Nat) :=
  [(2, 2, 0), (3, 3, 0), (5, 5, 0), (3, 5, 1), (5, 7, 1), (5, 11, 2), (5, 13, 3), (5, 17, 4)]

/-- `processSmallPrimes()` with flag `COUNT_PRIMES << idx` only: increments of `counts_[idx]` -/
def processSmallPrimes (idx start stop : Nat) : Nat :=
  (smallTuplets.filter (fun p => p.1 ≥ start && p.2.1 ≤ stop && p.2.2 == idx)).length

/-- `PrimeSieve::sieve()` counting primes (PrimeSieve.cpp:290-313); `core a b` = what `CountPrintPrimes` counts for
    `[a, b]`, `b >= 7` (the primes `>= 7` of the interval) -/
def sieveCount (core : Nat → Nat → Nat) (start stop : Nat) : Nat :=
  if start > stop then 0 else
  (if start ≤ 5 then processSmallPrimes 0 start stop else 0) + (if stop ≥ 7 then core start stop else 0)

/-- `ParallelSieve::idealNumThreads()`; `isq = isqrt(stop_)` -/
def idealNumThreads (isq start stop numThreads : Nat) : Nat :=
  if start > stop then 1 else
  let threshold := max (isq / 5) 10000000
  inBetween 1 ((stop - start) / threshold) numThreads

/-- `ParallelSieve::getThreadDistance(threads)` (ParallelSieve.cpp:77-98) -/
def getThreadDistance (isq dist threads : Nat) : Nat :=
  let balanced := (isq * 200) % two64
  let unbalanced := dist / threads
  let fastest := min balanced unbalanced
  let iters := dist / fastest
  let iters := (iters / threads) * threads
  let iters := max iters threads
  let threadDist := (dist - 1) / iters + 1
  let threadDist := max threadDist 10000000
  (threadDist + (30 - threadDist % 30)) % two64

/-- `ParallelSieve::align(n)` -/
def align (stop n : Nat) : Nat :=
  let n32 := checkedAdd n 32
  if n32 ≥ stop then stop else n32 - n % 30

/-- the interval `[start, stop]` of task iteration `i` (ParallelSieve.cpp:132-138) -/
def threadInterval (start stop threadDist i : Nat) : Nat × Nat :=
  let s := (start + threadDist * i) % two64
  let e := align stop (checkedAdd s threadDist)
  let s := if s > start then (align stop s + 1) % two64 else s
  (s, e)

/-- the intervals `ParallelSieve::sieve()` hands to `PrimeSieve::sieve(start, stop)` (in order of `i`) -/
def parIntervals (isq start stop numThreads : Nat) : List (Nat × Nat) :=
  if start > stop then [] else
  let threads := idealNumThreads isq start stop numThreads
  if threads = 1 then [(start, stop)] else
  let dist := stop - start
  let threadDist := getThreadDistance isq dist threads
  let iters := (dist - 1) / threadDist + 1
  (List.range iters).map (threadInterval start stop threadDist)

/-- `count_primes(start, stop)` with `numThreads` threads: `counts_ += …` over all intervals -/
def parCount (cnt : Nat → Nat → Nat) (isq start stop numThreads : Nat) : Nat :=
  ((parIntervals isq start stop numThreads).map (fun p => cnt p.1 p.2)).sum

/-! ## StorePrimes.hpp -/

def maxPrime64 : Nat := 18446744073709551557

inductive SErr where
  /-- "… is too narrow for generating primes up to …" -/
  | narrow
  | iter (e : Err)
deriving Repr, DecidableEq

/-- StorePrimes.hpp:84 `for (; it.primes_[it.size_ - 1] <= limit; it.generate_next_primes()) primes.insert(…)` -/
def storeLoop1 (e : Env) (limit : Nat) : Nat → St → List Nat → Except SErr (St × List Nat)
  | 0, _, _ => .error (.iter .hang)
  | fuel + 1, s, acc =>
    match s.buf.getLast? with
    | none => .error (.iter .oob)
    | some l =>
      if l ≤ limit then
        match genNext e bigFuel s with
        | .error err => .error (.iter err)
        | .ok s' => storeLoop1 e limit fuel s' (acc ++ s.buf)
      else .ok (s, acc)

/-- StorePrimes.hpp:86 `for (i = 0; it.primes_[i] <= limit; i++) primes.push_back(it.primes_[i])` -/
def storeLoop2 (limit : Nat) (buf : List Nat) : Nat → List Nat → Except SErr (List Nat)
  | i, acc =>
    if h : i < buf.length then
      if buf[i] ≤ limit then storeLoop2 limit buf (i + 1) (acc ++ [buf[i]]) else .ok acc
    else .error (.iter .oob)
termination_by i _ => buf.length - i

/-- `store_primes(start, stop, primes)` appended to an empty vector of a type with maximum `vmax` -/
def storePrimes (e : Env) (vmax start stop : Nat) : Except SErr (List Nat) :=
  if start > stop then .ok [] else
  if start > maxPrime64 then .ok [] else
  if stop > vmax then .error .narrow else
  match genNext e bigFuel (init start stop) with
  | .error err => .error (.iter err)
  | .ok s0 =>
    let limit := min stop (maxPrime64 - 1)
    match storeLoop1 e limit (limit + 2) s0 [] with
    | .error err => .error err
    | .ok (s, acc) =>
      match storeLoop2 limit s.buf 0 acc with
      | .error err => .error err
      | .ok acc => .ok (if stop ≥ maxPrime64 then acc ++ [maxPrime64] else acc)

/-- the `while (n >= it.size_)` loop of `store_n_primes` -/
def storeNLoop (e : Env) (vmax : Nat) : Nat → Nat → St → List Nat → Except SErr (List Nat)
  | 0, _, _, _ => .error (.iter .hang)
  | fuel + 1, n, s, acc =>
    if n ≥ s.size then
      match s.buf.getLast? with
      | none => .error (.iter .oob)
      | some l =>
        if l > vmax then .error .narrow else
        let acc := acc ++ s.buf
        let n := n - s.size
        if n = 0 then .ok acc else
        match genNext e bigFuel s with
        | .error err => .error (.iter err)
        | .ok s' => storeNLoop e vmax fuel n s' acc
    else
      match s.buf[n - 1]? with
      | none => .error (.iter .oob)
      | some l => if l > vmax then .error .narrow else .ok (acc ++ s.buf.take n)

/-- `store_n_primes(n, start, primes)`; `nthHint` = `(uint64_t)(n * (logn + loglogn))` (only a stop hint) -/
def storeNPrimes (e : Env) (vmax n start nthHint : Nat) : Except SErr (List Nat) :=
  if n = 0 then .ok [] else
  let stop := (start + nthHint) % two64
  match genNext e bigFuel (init start stop) with
  | .error err => .error (.iter err)
  | .ok s0 => storeNLoop e vmax (n + 1) n s0 []

/-- /repo/src/generate_primes.cpp `generate_primes_<T>(max)`: 1-indexed, `primes[0] = 0` -/
def pcGeneratePrimes (e : Env) (vmax max : Nat) : Except SErr (List Nat) :=
  match storePrimes e vmax 0 max with
  | .error err => .error err
  | .ok l => .ok (0 :: l)

/-- /repo/src/generate_primes.cpp `generate_n_primes_<T>(n)` -/
def pcGenerateNPrimes (e : Env) (vmax n nthHint : Nat) : Except SErr (List Nat) :=
  match storeNPrimes e vmax n 0 nthHint with
  | .error err => .error err
  | .ok l => .ok (0 :: l)

end Pc.It
