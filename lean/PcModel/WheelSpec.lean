/-
Defining formulas of the modulo-30 wheel used by `Sieve::cross_off` / `Sieve::cross_off_count`
(DESIGN.md 5.5 "Wheel step table").  Core Lean only.  The generated obligations of
`PcGen/WheelObl.lean` state that the tables extracted from src/Sieve.cpp equal these.

A sieving prime `q = 30·P + ρ` with `ρ = residues[g]`; its current multiple is `q·u` with
`u ≡ wheelW j (mod 30)`.  Wheel index `8·g + j`.
-/
namespace Pc.WheelSpec

/-- the 8 residues coprime to 30 = the numbers represented by the 8 bits of a sieve byte -/
def residues : List Nat := [1, 7, 11, 13, 17, 19, 23, 29]

/-- `w_j` with `w_8 := 31` for the wrap-around step -/
def wheelW (j : Nat) : Nat := (residues ++ [31]).getD j 0

/-- position of residue `r` in the wheel (8 when `r` is not coprime to 30) -/
def bitOf (r : Nat) : Nat := residues.idxOf r

/-- residue class `ρ` of group `g` -/
def rho (g : Nat) : Nat := residues.getD g 0

/-- the entry `(bit, k, c, next)` of case `8·g + j` -/
def expectedEntry (g j : Nat) : Nat × Nat × Nat × Nat :=
  (bitOf ((rho g * wheelW j) % 30),
   wheelW (j + 1) - wheelW j,
   rho g * wheelW (j + 1) / 30 - rho g * wheelW j / 30,
   8 * g + (j + 1) % 8)

def expectedTab : List (Nat × Nat × Nat × Nat) :=
  (List.range 64).map fun i => expectedEntry (i / 8) (i % 8)

/-- statement `j` of the unrolled loop of group `g`: `sieve[m + prime·(w_j − 1) + ⌊ρ·w_j/30⌋] &= ~(1 << bit)` -/
def expectedFastEntry (g j : Nat) : Nat × Nat × Nat :=
  (wheelW j - 1, rho g * wheelW j / 30, bitOf ((rho g * wheelW j) % 30))

/-- `(maxK, maxC, stepK, stepC)`: the bound offset is the offset of the last statement,
    one round advances by `prime·30 + ρ` -/
def expectedFastHead : List (Nat × Nat × Nat × Nat) :=
  (List.range 8).map fun g => (wheelW 7 - 1, rho g * wheelW 7 / 30, 30, rho g)

def expectedFastBody : List (List (Nat × Nat × Nat)) :=
  (List.range 8).map fun g => (List.range 8).map (expectedFastEntry g)

/-- least `f` with `q + f` coprime to 30 (searching `f = 0..6`) -/
def nextCoprimeDist (q : Nat) : Nat :=
  ((List.range 7).find? fun f => bitOf ((q + f) % 30) < 8).getD 0

/-- `wheel_init[q]` for `q = quotient % 30`: distance to the next factor coprime to 30 and its position -/
def expectedInit : List (Nat × Nat) :=
  (List.range 30).map fun q => (nextCoprimeDist q, bitOf ((q + nextCoprimeDist q) % 30))

/-- `wheel_offsets[r]` -/
def expectedOffsets : List Nat :=
  (List.range 30).map fun r => if bitOf r < 8 then 8 * bitOf r else 0

end Pc.WheelSpec
