/-
Shared helpers of the executable models (core Lean only).
-/
namespace Pc

/-- C++ integer types that occur in the modelled code. -/
structure ITy where
  bits : Nat
  signed : Bool
deriving Repr, DecidableEq

def ITy.i64 : ITy := ⟨64, true⟩
def ITy.u64 : ITy := ⟨64, false⟩
def ITy.i128 : ITy := ⟨128, true⟩
def ITy.u128 : ITy := ⟨128, false⟩

/-- `numeric_limits<T>::max()` -/
def ITy.maxVal (t : ITy) : Nat := if t.signed then 2 ^ (t.bits - 1) - 1 else 2 ^ t.bits - 1

/-- `numeric_limits<T>::min()` as an integer -/
def ITy.minVal (t : ITy) : Int := if t.signed then -(2 ^ (t.bits - 1) : Int) else 0

def ITy.inRange (t : ITy) (v : Int) : Bool := t.minVal ≤ v && v ≤ (t.maxVal : Int)

def ITy.ofName : String → Option ITy
  | "i64" => some .i64 | "u64" => some .u64 | "i128" => some .i128 | "u128" => some .u128
  | _ => none

/-- what the checked models report instead of a value -/
inductive Trap where
  | overflow | shift | div0 | divq | narrow | oob | uninit | assert (site : Nat)
deriving Repr, DecidableEq

/-- decimal integer of the line protocol (never the code under test) -/
def parseInt? (s : String) : Option Int :=
  if s.startsWith "-" then (s.drop 1).toNat?.map (fun n => -(n : Int)) else s.toNat?.map (fun n => (n : Int))

def hexVal (c : Char) : Option Nat :=
  if '0' ≤ c ∧ c ≤ '9' then some (c.toNat - '0'.toNat)
  else if 'a' ≤ c ∧ c ≤ 'f' then some (c.toNat - 'a'.toNat + 10)
  else if 'A' ≤ c ∧ c ≤ 'F' then some (c.toNat - 'A'.toNat + 10)
  else none

/-- strings travel hex-encoded, "-" is the empty string; result: list of bytes -/
def unhexBytes (h : String) : Option (List Nat) :=
  if h == "-" then some [] else
  let rec go : List Char → List Nat → Option (List Nat)
    | [], acc => some acc.reverse
    | [_], _ => none
    | a :: b :: rest, acc => do
        let x ← hexVal a
        let y ← hexVal b
        go rest ((16 * x + y) :: acc)
  go h.toList []

def hexBytes (bs : List Nat) : String :=
  if bs.isEmpty then "-" else
  let d := "0123456789abcdef".toList
  String.ofList (bs.flatMap fun b => [d.getD (b / 16) '0', d.getD (b % 16) '0'])

end Pc
