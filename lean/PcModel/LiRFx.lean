/-
C19 — fixed-point interval evaluation (core Lean, natural numbers scaled by `S = 2^192`) of the series of
PcModel/LiR.lean. This is what the driver executes: exact rational arithmetic on `L^k / k!` would carry
thousands of bits, the enclosures below round every step outwards instead.

* `gramFx`    : enclosure of `Σ_{k=1}^{K} L^k / (k · k! · z_k)` for `L ∈ [aLo, aHi] / S`, any positive
                rational factors `z_k = zn k / zd k` (zeta table: R; all 1: the series of li), and of the
                remainder after `K` terms (`gram_tail_bound`). Soundness w.r.t. `Rseries` / `Eseries` is
                proved in PcProofs/LiRFx.lean (`gramFx_sound`).
* `logFx`     : enclosure of `log (n / d)` from `log v = e · log 2 + 2 · atanh ((m - 1) / (m + 1))`,
                `v = 2^e · m`, `1 ≤ m < 2`, atanh by its power series with an explicit geometric tail.
                That this series IS the real logarithm is classical analysis and not formalised here; the
                driver cross-checks every value against libm's `logl` (harness) within one ulp.
-/
import PcModel.LiR

namespace Pc.LiR.Fx

def P : Nat := 192
def S : Nat := 2 ^ P

/-- ceiling division (`b > 0`) -/
def cdiv (a b : Nat) : Nat := (a + b - 1) / b

/-! ## Gram-type series (generic scale `s`; the driver uses `s = S`) -/

structure GramAcc where
  tLo : Nat     -- ≤ s · L^k / k!
  tHi : Nat     -- ≥ s · L^k / k!
  sLo : Nat     -- ≤ s · Σ_{j ≤ k} L^j / (j · j! · z_j)
  sHi : Nat     -- ≥ the same

/-- `K` terms of the series on `[aLo, aHi] / s` -/
def gramFx (s : Nat) (zn zd : Nat → Nat) (aLo aHi : Nat) : Nat → GramAcc
  | 0 => ⟨s, s, 0, 0⟩
  | K + 1 =>
    let a := gramFx s zn zd aLo aHi K
    let k := K + 1
    let tLo := a.tLo * aLo / (s * k)
    let tHi := cdiv (a.tHi * aHi) (s * k)
    ⟨tLo, tHi, a.sLo + tLo * zd k / (k * zn k), a.sHi + cdiv (tHi * zd k) (k * zn k)⟩

/-- number of terms used for an argument `≤ aHi / s`: `4 ⌈L⌉ + 60` (then `2 L ≤ K + 2` and the remainder is
    below `2^-190`) -/
def gramTerms (s aHi : Nat) : Nat := 4 * cdiv aHi s + 60

/-- bound (scaled by `s`) of `Σ_{k > K} L^k / (k · k! · z_k)` when `2 L ≤ K + 2` and all `z_k ≥ 1`:
    twice the next power term -/
def gramTail (s : Nat) (a : GramAcc) (aHi K : Nat) : Nat := 2 * cdiv (a.tHi * aHi) (s * (K + 1))

/-- `(lo, hi)` with `lo / s ≤ Σ_{k=1}^{N} L^k / (k · k! · z_k) ≤ hi / s` for all `N ≥ gramTerms s aHi` -/
def gramEnc (s : Nat) (zn zd : Nat → Nat) (aLo aHi : Nat) : Nat × Nat :=
  let K := gramTerms s aHi
  let a := gramFx s zn zd aLo aHi K
  (a.sLo, a.sHi + gramTail s a aHi K)

/-- numerator / denominator of `zetaFactor k` -/
def zetaN (k : Nat) : Nat := if k + 1 < Gen.zetaNum.size then Gen.zetaNum.getD (k + 1) 0 else 1
def zetaD (k : Nat) : Nat := if k + 1 < Gen.zetaNum.size then Gen.zetaDen else 1

/-- enclosure (scale `s`) of `R_N(L) = 1 + Σ …` for `L ∈ [aLo, aHi] / s`, all `N ≥ gramTerms s aHi` -/
def rEncS (s aLo aHi : Nat) : Nat × Nat :=
  let e := gramEnc s zetaN zetaD aLo aHi
  (s + e.1, s + e.2)

/-- enclosure (scale `s`) of `Σ_{k ≥ 1} L^k / (k · k!)` -/
def eEncS (s aLo aHi : Nat) : Nat × Nat := gramEnc s (fun _ => 1) (fun _ => 1) aLo aHi

def rEnc (aLo aHi : Nat) : Nat × Nat := rEncS S aLo aHi
def eEnc (aLo aHi : Nat) : Nat × Nat := eEncS S aLo aHi

/-! ## logarithm -/

/-- `J` terms of `Σ_j z^(2j+1) / (2j+1)` for `z ∈ [zLo, zHi] / S`, from term `j` on:
    `(pLo, pHi)` enclose `z^(2j+1)`, `(z2Lo, z2Hi)` enclose `z^2` -/
def atanhLoop (z2Lo z2Hi : Nat) : Nat → Nat → Nat → Nat → Nat → Nat → Nat × Nat × Nat
  | 0, _, _, pHi, lo, hi => (lo, hi, pHi)
  | fuel + 1, j, pLo, pHi, lo, hi =>
    atanhLoop z2Lo z2Hi fuel (j + 1) (pLo * z2Lo / S) (cdiv (pHi * z2Hi) S)
      (lo + pLo / (2 * j + 1)) (hi + cdiv pHi (2 * j + 1))

def atanhTerms : Nat := 72

/-- enclosure of `atanh z`, `0 ≤ z ≤ 1/3`: 72 terms, remainder `≤ z^145 / (1 - z^2) ≤ 2 z^145 < 2^-228` -/
def atanhFx (zLo zHi : Nat) : Nat × Nat :=
  let r := atanhLoop (zLo * zLo / S) (cdiv (zHi * zHi) S) atanhTerms 0 zLo zHi 0 0
  (r.1, r.2.1 + 2 * r.2.2)

/-- `log 2 = 2 atanh (1/3)` -/
def ln2Fx : Nat × Nat :=
  let a := atanhFx (S / 3) (cdiv S 3)
  (2 * a.1, 2 * a.2)

/-- `e` with `2^e · d ≤ n < 2^(e+1) · d` for `n ≥ d > 0` -/
def binExp (n d : Nat) : Nat :=
  let e0 := Nat.log2 n - Nat.log2 d
  if 2 ^ e0 * d ≤ n then e0 else e0 - 1

/-- enclosure of `log (n / d)` for `n ≥ d > 0` -/
def logGe1 (n d : Nat) : Nat × Nat :=
  let e := binExp n d
  let den := 2 ^ e * d
  -- z = (m - 1) / (m + 1) with m = n / den ∈ [1, 2)
  let zLo := S * (n - den) / (n + den)
  let zHi := cdiv (S * (n - den)) (n + den)
  let a := atanhFx zLo zHi
  (e * ln2Fx.1 + 2 * a.1, e * ln2Fx.2 + 2 * a.2)

/-- enclosure (integers scaled by `S`) of `log (n / d)`, `n, d > 0` -/
def logFx (n d : Nat) : Int × Int :=
  if d ≤ n then
    let r := logGe1 n d
    ((r.1 : Int), (r.2 : Int))
  else
    let r := logGe1 d n
    (-(r.2 : Int), -(r.1 : Int))

/-! ## Li and R at an integer argument, and the acceptance test -/

/-- constants with one unit of their last digit on either side, scaled by `S` -/
def constEnc (num den : Nat) : Nat × Nat := (S * (num - 1) / den, cdiv (S * (num + 1)) den)

/-- enclosure of the Gram series value `R(x)` for an integer `x ≥ 1` -/
def rAt (x : Nat) : Nat × Nat :=
  let l := logGe1 x 1
  rEnc l.1 l.2

/-- enclosure of `Li(x) = li(x) - li(2)` as the code defines it (0 for `x ≤ 2`), `li(x) = γ + log log x +
    Σ_{k≥1} (log x)^k / (k · k!)` -/
def liAt (x : Nat) : Int × Int :=
  if x ≤ 2 then (0, 0) else
  let l := logGe1 x 1
  let llLo := (logFx l.1 S).1
  let llHi := (logFx l.2 S).2
  let e := eEnc l.1 l.2
  let g := constEnc Gen.gammaNum Gen.gammaDen
  let c := constEnc Gen.li2Num Gen.li2Den
  ((g.1 : Int) + llLo + (e.1 : Int) - (c.2 : Int), (g.2 : Int) + llHi + (e.2 : Int) - (c.1 : Int))

/-- documented relative slack `2^-slackBits` per float width -/
def slackBits : Prec → Nat
  | .dbl => 46 | .ld => 54 | .f128 => 100

/-- is the integer `r = trunc(v')` for some `v'` within relative `2^-σ` of the enclosure `[lo, hi] / S`? -/
def accepts (σ : Nat) (lo hi : Int) (r : Int) : Bool :=
  decide (r * (S : Int) * 2 ^ σ ≤ hi * 2 ^ σ + hi.natAbs) &&
  decide (lo * 2 ^ σ - lo.natAbs < (r + 1) * (S : Int) * 2 ^ σ)

/-- the widened integer enclosure `[⌊lo (1 - 2^-σ)⌋, ⌊hi (1 + 2^-σ)⌋]` (for reports) -/
def widened (σ : Nat) (lo hi : Int) : Int × Int :=
  ((lo * 2 ^ σ - lo.natAbs) / ((S : Int) * 2 ^ σ), (hi * 2 ^ σ + hi.natAbs) / ((S : Int) * 2 ^ σ))

end Pc.LiR.Fx
