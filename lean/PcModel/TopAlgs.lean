/-
WP top (C02, C01): L2 models of the functions that COMPOSE the partial formulas

* `pi_deleglise_rivat_64/128`   src/deleglise-rivat/pi_deleglise_rivat.cpp:39-55 (`S2`), 66-96, 105-139
* `pi_gourdon_64/128`           src/gourdon/pi_gourdon.cpp:37-91, 100-159
* `pi(int64_t)`, `pi_noprint`, `pi(int128_t)`, `pi_cache`   src/api.cpp:55-71, 74-86, 88-103, 122-134

Core Lean only (linked into `pcdrv`).  Every term is computed by the model of its REAL control flow:
`P2` / `B` = `P2L.p2OpenMP` / `bOpenMP` (PcModel/P2Loop.lean), `S1` / `Phi0` / `Sigma` / `S2_trivial` = `s1OpenMP` / `phi0OpenMP` /
`sigma` / `s2Trivial` (LeafLoops.lean), `S2_easy` = `Easy.s2EasyLibdivide` (EasyLoops.lean; the library is built from
S2_easy_libdivide.cpp), `S2_hard` / `D` = `Hard.s2HardOpenMP` / `dOpenMP` (HardLoops.lean), `AC` = `Easy.acEntry .libdivide`
(EasyAC.lean), the parameter derivation = `drL2` / `gourdonL2` (ParamsL2.lean, checked arithmetic).

What is a PARAMETER here:
* everything a run does not determine: the float outcomes (`DFloats` / `GFloats`), the recorded history of every
  parallel region (`P2L.Run`, the `omp for` distributions, the LoadBalancerS2 histories, AC's segment list) — `DrRun`, `GRun`;
* the tables the callees build (`Tables`): `t : NT` (prime vector / PiTable / nth_prime of S1, S2_trivial, S2_easy, Sigma, Phi0, AC),
  `it` (primesieve::iterator of P2 / B), `hardEnv y z` / `dEnv y z` (what S2_hard_default / D_default allocate), the `Sieve` object;
* the NESTED calls `pi_noprint(n, threads)` (`pi_noprint(y)` of Deleglise-Rivat / Meissel / Legendre, `pi_noprint(x / prime, 1)`
  inside `P2_thread` / `B_thread`) are the function `pi`; the theorems only assume it below the argument (`∀ n < x, pi n = π n`),
  and `piApi_eq_pi` (PcProps/C01Top.lean) closes the recursion.
* `s2_approx` / `d_approx` only steer the status output and the load balancer's time estimates (a recorded history is
  accepted for every value of them): not modelled.  Additions of the results are exact integers (overflow of `sum` not modelled).
-/
import PcModel.ParamsL2
import PcModel.P2Loop
import PcModel.LeafLoops
import PcModel.EasyLoops
import PcModel.EasyAC
import PcModel.HardLoops
import PcModel.PiTable
import PcGen.ApiConst
import PcModel.Api

namespace Pc.Top
open Pc.LB

/-- the failures of the composed functions = the failures of the parts, tagged (never a default) -/
inductive TErr where
  | params (e : PErr)
  | leaf (e : LErr)
  | easy (e : Easy.EErr)
  | hard (e : Hard.Err)
  | p2 (e : P2L.Err)
deriving Repr, DecidableEq

def TErr.toString : TErr → String
  | .params e => e.show
  | .leaf e => "ERR:model-leaf-" ++ e.toString
  | .easy e => "ERR:model-easy-" ++ e.toString
  | .hard e => "ERR:model-hard-" ++ reprStr e
  | .p2 e => "ERR:model-p2-" ++ reprStr e

abbrev TM := Except TErr

def liftP {α} (r : Except PErr α) : TM α := match r with | .ok v => .ok v | .error e => .error (.params e)
def liftL {α} (r : Except LErr α) : TM α := match r with | .ok v => .ok v | .error e => .error (.leaf e)
def liftE {α} (r : Except Easy.EErr α) : TM α := match r with | .ok v => .ok v | .error e => .error (.easy e)
def liftH {α} (r : Except Hard.Err α) : TM α := match r with | .ok v => .ok v | .error e => .error (.hard e)
def liftP2 {α} (r : Except P2L.Err α) : TM α := match r with | .ok v => .ok v | .error e => .error (.p2 e)

/-- the objects the callees construct (parameters; each has its own model and contract) -/
structure Tables (σ : Type) where
  /-- `generate_primes(y)`, `PiTable pi(…)`, `nth_prime`, `phi_tiny` of S1 / S2_trivial / S2_easy / Sigma / Phi0 / AC -/
  t : NT
  /-- `primesieve::iterator` of P2_thread / B_thread -/
  it : P2L.Iter
  /-- the constants of the load balancers (generated: `Pc.LB.genConsts`) -/
  lc : Consts
  /-- `class Sieve` -/
  S : Hard.SieveOps σ
  /-- tables of `S2_hard_default` + `S2_hard_OpenMP` for `(y, z)`: FactorTable(y), primes / PiTable up to `min(y, z / isqrt(y))` -/
  hardEnv : Nat → Nat → Hard.Env
  /-- tables of `D_default` + `D_OpenMP` for `(y, z)`: FactorTableD(y, z), primes / PiTable up to `y` -/
  dEnv : Nat → Nat → Hard.Env

/-- operand type `T` of the 64-bit / 128-bit instantiation -/
def widthTy (wide : Bool) : ITy := if wide then .i128 else .i64

/-! ### Deleglise-Rivat -/

/-- everything one execution of `pi_deleglise_rivat_*` does not determine -/
structure DrRun where
  /-- `get_max_x(alpha)`, `iroot<3>(x) * alpha`, `pow(z, 1/3.7)` -/
  fo : DFloats
  /-- the parallel region of `P2_OpenMP` -/
  p2 : P2L.Run
  /-- distribution of the `omp for` of `S1_OpenMP` -/
  s1 : List (List Nat)
  /-- which thread fetched which `b` in `S2_easy_OpenMP` -/
  easy : List (List Nat)
  /-- the recorded LoadBalancerS2 history of `S2_hard_OpenMP` -/
  hard : List S2.Ev

/-- the file-local `S2(x, y, z, c, s2_approx, threads, is_print)` (pi_deleglise_rivat.cpp:39-55):
    `s2_trivial + s2_easy + s2_hard` (`s2_hard_approx` only steers) -/
def drS2 {σ : Type} (T : Tables σ) (wide : Bool) (x y z c team : Nat) (isPrint : Bool) (r : DrRun) : TM Int := do
  let s2Trivial ← liftL (s2Trivial T.t (widthTy wide) x y z c)
  let s2Easy ← liftE (Easy.s2EasyLibdivide T.t x y z c r.easy)
  let s2Hard ← liftH (Hard.s2HardOpenMP T.S (T.hardEnv y z) T.lc x y z c team isPrint r.hard)
  pure (s2Trivial + s2Easy + s2Hard)

/-- `pi_deleglise_rivat_64(x, threads, is_print)` (`wide = false`, any int64 `x`) /
    `pi_deleglise_rivat_128(x, threads, is_print)` (`wide = true`, any int128 `x`) -/
def piDeleglieRivat {σ : Type} (T : Tables σ) (pi : Nat → Nat) (wide : Bool) (x : Int) (threads : Int) (isPrint : Bool)
    (r : DrRun) : TM Int :=
  if x < 2 then .ok 0 else do
  let x := x.toNat
  -- alpha, limit check (128), y = (int64_t)(x13 * alpha), z = x / y, c = get_c(y); S2_hard's team size
  let o ← liftP (drL2 wide x threads r.fo)
  let y := o.y.toNat
  let z := o.z.toNat
  let piY := pi y                                  -- int64_t pi_y = pi_noprint(y, threads)
  let c := o.c
  let p2 ← liftP2 (P2L.p2OpenMP T.lc T.it pi x y piY r.p2)
  let s1 ← liftL (s1OpenMP T.t (widthTy wide) x y c r.s1)
  let s2 ← drS2 T wide x y z c o.thr.toNat isPrint r
  let phi := s1 + s2
  let sum := phi + (piY : Int) - 1 - p2
  pure sum

/-! ### Gourdon -/

structure GRun where
  fo : GFloats
  /-- distribution of the `omp for` of `Phi0_OpenMP` -/
  phi0 : List (List Nat)
  /-- AC: which thread fetched which `b` of the C1 loop, and the segments `[low, high)` LoadBalancerAC handed out -/
  acC1 : List (List Nat)
  acSegs : List (Nat × Nat)
  /-- the parallel region of `B_OpenMP` -/
  b : P2L.Run
  /-- the recorded LoadBalancerS2 history of `D_OpenMP` -/
  d : List S2.Ev

/-- `pi_gourdon_64(x, threads, is_print)` / `pi_gourdon_128(x, threads, is_print)`:
    `sigma`, `phi0`, `ac`, `b`, (`d_approx` only steers), `d`, `sum = ac - b + d + phi0 + sigma` -/
def piGourdon {σ : Type} (T : Tables σ) (pi : Nat → Nat) (wide : Bool) (x : Int) (threads : Int) (isPrint : Bool)
    (r : GRun) : TM Int :=
  if x < 2 then .ok 0 else do
  let x := x.toNat
  let o ← liftP (gourdonL2 wide x threads r.fo)
  let y := o.y.toNat
  let z := o.z.toNat
  let k := o.k
  let w := widthTy wide
  let sigma ← liftL (sigma T.t w x y)
  let phi0 ← liftL (phi0OpenMP T.t w x y z k r.phi0)
  let ac ← liftE (Easy.acEntry .libdivide T.t w x y z k r.acC1 r.acSegs)
  let b ← liftP2 (P2L.bOpenMP T.lc T.it pi x y r.b)
  let d ← liftH (Hard.dOpenMP T.S (T.dEnv y z) T.lc x y z k o.thrD.toNat isPrint r.d)
  let sum := ac - b + d + phi0 + sigma
  pure sum

/-! ### api.cpp -/

/-- the run-dependent part of the two simple routes: `P2`'s region inside `pi_meissel` -/
structure ApiRun where
  meissel : P2L.Run
  gourdon : GRun

open PcGen.ApiConst in
/-- `pi_cache(x, is_print)` (api.cpp:88-103): `x < 2 → 0`, else `PiTable::pi_cache(x)` (the table dumped from the binary) -/
def piCacheTop (x : Int) : Int := if x < cacheZeroBelow then 0 else piCacheLookup PcGen.piCache x.toNat

open PcGen.ApiConst in
/-- `pi(int64_t x, int threads)` (api.cpp:55-71) and `pi_noprint(int64_t x, int threads)` (74-86): the same dispatcher.
    `phi` = `phi(x, a, threads)` of phi.cpp (C07) inside `pi_legendre` / `pi_meissel`. -/
def piApi64 {σ : Type} (T : Tables σ) (phi : Nat → Nat → Nat) (pi : Nat → Nat) (x : Int) (threads : Int) (isPrint : Bool)
    (r : ApiRun) : TM Int :=
  if x ≤ maxCached then .ok (piCacheTop x)
  else if x ≤ legendreMax then .ok (P2L.piLegendre phi pi x.toNat)
  else if x ≤ meisselMax then liftP2 (P2L.piMeissel T.lc T.it phi pi x.toNat r.meissel)
  else piGourdon T pi false x threads isPrint r.gourdon

/-- `pi(int128_t x, int threads)` (api.cpp:122-134) -/
def piApi128 {σ : Type} (T : Tables σ) (phi : Nat → Nat → Nat) (pi : Nat → Nat) (x : Int) (threads : Int) (isPrint : Bool)
    (r : ApiRun) : TM Int :=
  if x < 0 then .ok 0
  else if x ≤ PiApi.int64Max then piApi64 T phi pi x threads isPrint r
  else piGourdon T pi true x threads isPrint r.gourdon

/-- `pi_deleglise_rivat(int128_t x, int threads)` (api.cpp:136-148) -/
def piDrApi128 {σ : Type} (T : Tables σ) (pi : Nat → Nat) (x : Int) (threads : Int) (isPrint : Bool) (r : DrRun) : TM Int :=
  if x < 0 then .ok 0
  else if x ≤ PiApi.int64Max then piDeleglieRivat T pi false x threads isPrint r
  else piDeleglieRivat T pi true x threads isPrint r

/-- `pi_gourdon(int128_t x, int threads)` (api.cpp:150-162) -/
def piGourdonApi128 {σ : Type} (T : Tables σ) (pi : Nat → Nat) (x : Int) (threads : Int) (isPrint : Bool) (r : GRun) : TM Int :=
  if x < 0 then .ok 0
  else if x ≤ PiApi.int64Max then piGourdon T pi false x threads isPrint r
  else piGourdon T pi true x threads isPrint r

end Pc.Top
