/-
Defining formulas of the tables of the bundled primesieve's sieving core (lib/primesieve), C18 core half.
Core Lean only.  The generated obligations `PcGen/PsWheelObl.lean` / `PcGen/PsPreSieveObl.lean` state that the
tables extracted from the C++ sources equal these.

Layout of the sieve array: bit `i` of byte `k` of a segment with lower bound `L` (`30 ∣ L`) stands for the number
`L + 30·k + B_i`, `B = {7, 11, 13, 17, 19, 23, 29, 31}`; so the byte of `n` is `(n − L − 7) / 30 = (n − L + 23) / 30 − 1`.

A sieving prime `q = 30·P + ρ` (`P = sievingPrime`, `ρ = q % 30`) belongs to group `g` with `ρ = groupRho g`
(order 7, 11, 13, 17, 19, 23, 29, 1); its current multiple is `q·u` with `u ≡ w_j (mod M)`, `w` = the numbers coprime to
the wheel modulus `M` (30 for EratSmall / EratMedium, 210 for EratBig) in `[1, M]`; wheel index `SIZE·g + j`.
-/
namespace Pc.PsWheelSpec

/-- the numbers represented by the 8 bits of a sieve byte -/
def bitVals : List Nat := [7, 11, 13, 17, 19, 23, 29, 31]

/-- residue `q % 30` of the sieving primes of group `g` -/
def groupRho : List Nat := [7, 11, 13, 17, 19, 23, 29, 1]

def rho (g : Nat) : Nat := groupRho.getD g 0

/-- the factors coprime to `M` in `[1, M]` -/
def wheelRes (M : Nat) : List Nat := (List.range M).filter fun r => Nat.gcd r M == 1

/-- `w_j`, with `w_SIZE := M + 1` for the wrap-around step -/
def wheelW (M j : Nat) : Nat := (wheelRes M ++ [M + 1]).getD j 0

/-- bit index of a number coprime to 30 (8 when it is not) -/
def bitOf (n : Nat) : Nat := bitVals.idxOf (if n % 30 == 1 then 31 else n % 30)

/-- byte index + 1 of `n` in a segment with lower bound 0 -/
def byteP1 (n : Nat) : Nat := (n + 23) / 30

/-- entry `(bit, k, c, next)` of wheel index `size·g + j` -/
def expectedEntry (M size g j : Nat) : Nat × Nat × Nat × Nat :=
  (bitOf (rho g * wheelW M j),
   wheelW M (j + 1) - wheelW M j,
   byteP1 (rho g * wheelW M (j + 1)) - byteP1 (rho g * wheelW M j),
   size * g + (j + 1) % size)

def expected30 : List (Nat × Nat × Nat × Nat) :=
  (List.range 64).map fun i => expectedEntry 30 8 (i / 8) (i % 8)

def expected210 : List (Nat × Nat × Nat × Nat) :=
  (List.range 384).map fun i => expectedEntry 210 48 (i / 48) (i % 48)

/-- statement `j` of the unrolled loop of group `g`:
    `sieve[i + sievingPrime·(w_j − 1) + (byteP1(ρ·w_j) − byteP1(ρ))] &= BIT<bit>` -/
def expectedFastEntry (g j : Nat) : Nat × Nat × Nat :=
  (wheelW 30 j - 1, byteP1 (rho g * wheelW 30 j) - byteP1 (rho g), bitOf (rho g * wheelW 30 j))

def expectedFastHead : List (Nat × Nat × Nat × Nat) :=
  (List.range 8).map fun g => ((expectedFastEntry g 7).1, (expectedFastEntry g 7).2.1, 30, rho g)

def expectedFastBody : List (List (Nat × Nat × Nat)) :=
  (List.range 8).map fun g => (List.range 8).map (expectedFastEntry g)

/-- least `f < 11` with `q + f` coprime to `M` -/
def nextCoprimeDist (M q : Nat) : Nat :=
  ((List.range 11).find? fun f => Nat.gcd (q + f) M == 1).getD 0

/-- `wheel<M>Init[q]`: distance to the next factor coprime to `M` and its wheel position -/
def expectedInit (M : Nat) : List (Nat × Nat) :=
  (List.range M).map fun q => (nextCoprimeDist M q, (wheelRes M).idxOf ((q + nextCoprimeDist M q) % M))

def expectedOffsetsPattern : List (Option Nat) :=
  (List.range 30).map fun r => if Nat.gcd r 30 == 1 then some (groupRho.idxOf r) else none

def expectedBitValues : List Nat :=
  ((List.range 64).map fun i => 30 * (i / 8) + bitVals.getD (i % 8) 0) ++ [0]

/-- the De Bruijn hash of `Erat::nextPrime` for `bits = 1 << i` -/
def bruijnHash (i : Nat) : Nat :=
  let b := 2 ^ i
  (((b ^^^ (b - 1)) * 0x3F08A4C6ACB9DBD) % 2 ^ 64) >>> 58

/-- the byte with exactly the bits `i` for which `keep B_i` -/
def maskOf (keep : Nat → Bool) : Nat :=
  (List.range 8).foldl (fun acc i => if keep (bitVals.getD i 0) then acc + 2 ^ i else acc) 0

def expectedUnsetSmaller : List Nat := (List.range 37).map fun r => maskOf fun v => r ≤ v
def expectedUnsetLarger : List Nat := (List.range 37).map fun r => maskOf fun v => v ≤ r

/-- trial division by 2 … 27 (primality test for `n < 28² = 784`; only used on table-sized numbers) -/
def isPrimeTD (n : Nat) : Bool := 2 ≤ n && (List.range 26).all fun d => n ≤ d + 2 || n % (d + 2) != 0

def expectedPrimeBits : List Nat := (List.range 8).map fun k => maskOf fun v => isPrimeTD (30 * k + v)

def expectedSmallPrimes : List Nat := (List.range 720).filter isPrimeTD

/-- running count of primes: `[π(0), π(1), …]` -/
def piScan : List Nat → Nat → List Nat
  | [], _ => []
  | n :: ns, acc => (if isPrimeTD n then acc + 1 else acc) :: piScan ns (if isPrimeTD n then acc + 1 else acc)

def expectedPrimePi : List Nat := piScan (List.range 720) 0

def expectedPreSievePrimes : List Nat := (List.range 164).filter fun n => 7 ≤ n && isPrimeTD n

/-- insertion sort (structural) -/
def insertNat (x : Nat) : List Nat → List Nat
  | [] => [x]
  | y :: ys => if x ≤ y then x :: y :: ys else y :: insertNat x ys

def isort : List Nat → List Nat
  | [] => []
  | x :: xs => insertNat x (isort xs)

/-- byte `j` of a pre-sieve buffer for the primes `ps`: bit `i` is set iff `30·j + B_i` is divisible by none of them -/
def preByte (ps : List Nat) (j : Nat) : Nat :=
  maskOf fun v => ps.all fun p => (30 * j + v) % p != 0

/-- `Σ_{j < n} f j · 256^j`, computed from the top byte down -/
def encodeLE (f : Nat → Nat) : Nat → Nat → Nat
  | 0, acc => acc
  | n + 1, acc => encodeLE f n (acc * 256 + f n)

/-- a whole buffer of `len` bytes as one little-endian number -/
def preBufNat (ps : List Nat) (len : Nat) : Nat := encodeLE (preByte ps) len 0

/-- the `p`-byte pattern `R` repeated `len / p` times (`p ∣ len`): `R · (256^len − 1) / (256^p − 1)` -/
def repNat (R p len : Nat) : Nat := R * ((256 ^ len - 1) / (256 ^ p - 1))

/-- a whole buffer of `len = ∏ ps` bytes, computed with big-number arithmetic: the AND over `p ∈ ps` of the periodic
    single-prime buffers (byte `j` of the single-prime buffer depends only on `j mod p`) -/
def preBufPeriodic (ps : List Nat) (len : Nat) : Nat :=
  ps.foldl (fun acc p => acc &&& repNat (preBufNat [p] p) p len) (256 ^ len - 1)

/-- byte `j` of a little-endian number -/
def byteOfNat (N j : Nat) : Nat := (N >>> (8 * j)) % 256

end Pc.PsWheelSpec
