/-
C10 — happens-before model of one OpenMP parallel region (DESIGN.md 6.10), core Lean only.

An *execution* of a region is a list of events: the order of the list is the order in which the
events took place (an arbitrary interleaving of an arbitrary number of threads).  Nothing here
knows C++: what is modelled is the logic "which pairs of accesses are ordered by which
synchronisation", the region schemas of primecount and their side conditions.  The tie to the
sources is `translator/extract_omp.py` (→ `PcGen/OmpRegions.lean`, `PcGen/OmpObl.lean`).
-/
namespace Pc.HB

/-- abstract memory locations: a scalar object, or element `k` of array-like object `arr` -/
inductive Loc where
  | var (v : Nat)
  | elem (arr : Nat) (k : Nat)
deriving DecidableEq, Repr

/-- what one event does -/
inductive Kind where
  | read (l : Loc)            -- plain load
  | write (l : Loc)           -- plain store
  | acq (m : Nat)             -- omp_set_lock(m) returned
  | rel (m : Nat)             -- omp_unset_lock(m)
  | rmw (l : Loc)             -- atomic read-modify-write (`RelaxedAtomic::operator++`)
  | barArrive (b : Nat)       -- the thread reaches barrier `b`
  | barLeave (b : Nat)        -- the thread continues after barrier `b`
  | fork                      -- the master creates the team
  | join                      -- the master continues after the region
  | redCombine (l : Loc)      -- the runtime adds one private reduction copy into the original variable
deriving DecidableEq, Repr

structure Event where
  tid : Nat
  kind : Kind
deriving DecidableEq, Repr

abbrev Exec := List Event

/-- the location an event accesses (synchronisation events access none) -/
def Kind.loc? : Kind → Option Loc
  | .read l | .write l | .rmw l | .redCombine l => some l
  | _ => none

def Kind.isWrite : Kind → Bool
  | .write _ | .rmw _ | .redCombine _ => true
  | _ => false

/-- accesses that can never race *with each other*: atomic operations, and the reduction combine
    (the OpenMP runtime serialises the combines of one reduction variable; trusted) -/
def Kind.isAtomic : Kind → Bool
  | .rmw _ | .redCombine _ => true
  | _ => false

/-- synchronises-with between an earlier event `a` and a later event `b` of the list.
    `rmwSync = false` is the C++ reading of `memory_order_relaxed` (an atomic RMW orders nothing
    else); `rmwSync = true` adds the edges "RMWs of one location are totally ordered". The DRF
    theorems are proved for `false`, the stronger statement (`Race` is antitone in the edge set).
    `fork → every later event` and `every earlier event → join` are the closures under program
    order of the textbook edges fork → first event of a thread, last event of a thread → join. -/
def sw (rmwSync : Bool) (a b : Event) : Prop :=
  a.kind = .fork ∨ b.kind = .join ∨
  (∃ m, a.kind = .rel m ∧ b.kind = .acq m) ∨
  (∃ n, a.kind = .barArrive n ∧ b.kind = .barLeave n) ∨
  (rmwSync = true ∧ ∃ l, (a.kind = .rmw l ∨ a.kind = .redCombine l) ∧ (b.kind = .rmw l ∨ b.kind = .redCombine l))

/-- one edge: program order or synchronisation, always from an earlier to a later position -/
def Edge (rmwSync : Bool) (tr : Exec) (i j : Nat) : Prop :=
  i < j ∧ ∃ a b, tr[i]? = some a ∧ tr[j]? = some b ∧ (a.tid = b.tid ∨ sw rmwSync a b)

/-- happens-before = transitive closure of the edges -/
inductive HB (rmwSync : Bool) (tr : Exec) : Nat → Nat → Prop where
  | step {i j} : Edge rmwSync tr i j → HB rmwSync tr i j
  | trans {i j k} : HB rmwSync tr i j → HB rmwSync tr j k → HB rmwSync tr i k

/-- two accesses conflict: different threads, same location, at least one writes, not both atomic -/
def Conflict (a b : Event) : Prop :=
  a.tid ≠ b.tid ∧ ∃ l, a.kind.loc? = some l ∧ b.kind.loc? = some l ∧
    (a.kind.isWrite = true ∨ b.kind.isWrite = true) ∧ ¬ (a.kind.isAtomic = true ∧ b.kind.isAtomic = true)

/-- a data race: two conflicting accesses not ordered by happens-before
    (edges only go forward in the list, so for `i < j` only `HB i j` is possible) -/
def Race (rmwSync : Bool) (tr : Exec) : Prop :=
  ∃ i j a b, i < j ∧ tr[i]? = some a ∧ tr[j]? = some b ∧ Conflict a b ∧ ¬ HB rmwSync tr i j

/-! ### Well-formed executions of one region

`f` = position of the fork, `j` = position of the join.  Before the fork and after the join only
the master (thread 0) runs: these are the sequential parts of the enclosing function (initialising
the shared objects, reading the results).  The body `(f, j)` is an arbitrary interleaving. -/
structure RegionWF (tr : Exec) (f j : Nat) : Prop where
  fork_at : tr[f]? = some (Event.mk 0 .fork)
  join_at : tr[j]? = some (Event.mk 0 .join)
  f_lt_j : f < j
  pre_master : ∀ (i : Nat) (e : Event), i < f → tr[i]? = some e → e.tid = 0
  post_master : ∀ (i : Nat) (e : Event), j < i → tr[i]? = some e → e.tid = 0
  /-- lock semantics (mutual exclusion): between two acquisitions of a lock the first owner released it -/
  mutex : ∀ (m i0 j0 s t : Nat), i0 < j0 → tr[i0]? = some (Event.mk s (.acq m)) → tr[j0]? = some (Event.mk t (.acq m)) →
    ∃ i1, i0 < i1 ∧ i1 < j0 ∧ tr[i1]? = some (Event.mk s (.rel m))
  /-- barrier semantics: nobody leaves barrier `b` before every thread that takes part in the body arrived -/
  barrier : ∀ (b jl t : Nat), tr[jl]? = some (Event.mk t (.barLeave b)) →
    ∀ (i : Nat) (e : Event), f < i → i < j → tr[i]? = some e → ∃ ia : Nat, ia < jl ∧ tr[ia]? = some (Event.mk e.tid (.barArrive b))

/-- position `i` of thread `s` lies inside a critical section of lock `m` -/
def InCS (tr : Exec) (m s i : Nat) : Prop :=
  ∃ i0, i0 < i ∧ tr[i0]? = some (Event.mk s (.acq m)) ∧ ∀ k, i0 < k → k < i → tr[k]? ≠ some (Event.mk s (.rel m))

/-- thread `s` has not reached barrier `b` before position `i` -/
def Phase1 (tr : Exec) (b s i : Nat) : Prop := ∀ k, k < i → tr[k]? ≠ some (Event.mk s (.barArrive b))

/-- thread `t` has left barrier `b` before position `i` -/
def Phase2 (tr : Exec) (b t i : Nat) : Prop := ∃ k, k < i ∧ tr[k]? = some (Event.mk t (.barLeave b))

/-- protections that need no synchronisation -/
inductive Simple where
  | ro                 -- only plain reads in the body
  | own (t : Nat)      -- only thread `t` touches it in the body
deriving DecidableEq, Repr

def Simple.ok (p : Simple) (l : Loc) (e : Event) : Prop :=
  match p with
  | .ro => e.kind = .read l
  | .own t => e.tid = t

/-- how one location is protected inside the body of a region -/
inductive Prot where
  | ro
  | own (t : Nat)
  | lock (m : Nat)                         -- every access holds lock `m`
  | atomic                                 -- only atomic RMWs
  | red                                    -- only touched by the reduction combine
  | phased (b : Nat) (p1 p2 : Simple)      -- `p1` before barrier `b`, `p2` after it
deriving DecidableEq, Repr

/-- every access of the body to location `l` obeys protection `p` -/
def Respects (tr : Exec) (f j : Nat) (l : Loc) (p : Prot) : Prop :=
  ∀ (i : Nat) (e : Event), f < i → i < j → tr[i]? = some e → e.kind.loc? = some l →
    match p with
    | .ro => e.kind = .read l
    | .own t => e.tid = t
    | .lock m => InCS tr m e.tid i
    | .atomic => e.kind = .rmw l
    | .red => e.kind = .redCombine l
    | .phased b p1 p2 => (Phase1 tr b e.tid i ∧ p1.ok l e) ∨ (Phase2 tr b e.tid i ∧ p2.ok l e)

/-! ### Region schemas (DESIGN.md 6.10) = which protections a region of that shape may use -/
inductive Schema where
  | disp      -- S-disp: dispenser loop; shared mutable state only under one lock (+ reduction of the result)
  | red       -- S-red: parallel for + reduction; shared data read-only
  | atom      -- S-atom: atomic loop counter + reduction (+ master-only status object)
  | atomDisp  -- S-atom followed by S-disp inside one region (AC: C1 loop, then dispenser loop)
  | twoPhase  -- S-2ph: two loops over disjoint thread-indexed ranges separated by a barrier
  | disj      -- S-disj: one loop writing pairwise disjoint index ranges
  | master    -- S-master: object touched by the master thread only
deriving DecidableEq, Repr

def Schema.allows : Schema → Prot → Bool
  | .disp, .ro | .disp, .own _ | .disp, .lock _ | .disp, .red => true
  | .red, .ro | .red, .own _ | .red, .red => true
  | .atom, .ro | .atom, .own _ | .atom, .atomic | .atom, .red => true
  | .atomDisp, .ro | .atomDisp, .own _ | .atomDisp, .atomic | .atomDisp, .red | .atomDisp, .lock _ => true
  | .twoPhase, .ro | .twoPhase, .own _ | .twoPhase, .phased _ _ _ => true
  | .disj, .ro | .disj, .own _ => true
  | .master, .own 0 => true
  | _, _ => false

/-- an execution of schema `S`: well formed, and every location has a protection `S` allows -/
structure IsExecOf (S : Schema) (tr : Exec) (f j : Nat) : Prop where
  wf : RegionWF tr f j
  side : ∀ l, ∃ p, S.allows p = true ∧ Respects tr f j l p

/-! ### Index ranges (arithmetic side conditions of S-disj / S-2ph) -/

/-- C++ `ceil_div(a, b)` for non-negative operands -/
def ceilDiv (a b : Nat) : Nat := (a + b - 1) / b

/-- `PiTable::init`: words `[low/240, ceil_div(high,240))` handled by loop iteration `t`;
    `c` = `cache_limit`, `d` = `thread_dist`, `limit` as in the code (PiTable.cpp:127-160) -/
def piLow (c d t : Nat) : Nat := c + d * t
def piHigh (c d limit t : Nat) : Nat := min (piLow c d t + d) limit
def piWordLo (c d t : Nat) : Nat := piLow c d t / 240
def piWordHi (c d limit t : Nat) : Nat := ceilDiv (piHigh c d limit t) 240

/-- `thread_dist += 240 - thread_dist % 240` (PiTable.cpp:133) and the FactorTable analogue -/
def alignUp (d p : Nat) : Nat := d + (p - d % p)

/-- `BaseFactorTable::to_index` over an arbitrary table `ci` (`coprime_indexes_`, values ≥ -1) -/
def toIndex (ci : Nat → Int) (n : Nat) : Int := 480 * (n / 2310 : Nat) + ci (n % 2310)

/-- FactorTable / FactorTableD constructor, loop iteration `t`: numbers `[low, high]` -/
def ftLow (d t : Nat) : Nat := max 13 (d * t + 1)
def ftHigh (d y t : Nat) : Nat := min (d * t + d) y

/-! ### LockGuard (include/OmpLock.hpp:72-93) -/

/-- `LockGuard` takes the lock iff `lock.threads_ > 1` -/
def lockGuardLocks (initThreads : Nat) : Bool := decide (initThreads > 1)

/-! ### Vocabulary of the generated access summary (`PcGen/OmpRegions.lean`) -/

/-- protection the translator found for a variable that is declared outside a region and written inside -/
inductive ProtTag where
  | lock | atomic | reduction | privateCopy | threadIndexed | master | unprotected
deriving DecidableEq, Repr

/-- the protection (in the sense of `Prot`) a tag stands for -/
def ProtTag.allowedBy (S : Schema) : ProtTag → Bool
  | .lock => S.allows (.lock 0)
  | .atomic => S.allows .atomic
  | .reduction => S.allows .red
  | .privateCopy => S.allows (.own 0)
  | .threadIndexed => S.allows (.own 0) && (S = .disj || S = .twoPhase)
  | .master => S.allows (.own 0)
  | .unprotected => false

structure VarRec where
  name : String
  type : String
  prot : ProtTag
  /-- how it is written, e.g. "call get_work", "operator++", "+=" -/
  how : String
deriving DecidableEq, Repr

structure RegionRec where
  file : String
  function : String
  line : Nat
  directive : String
  clauses : List String
  schema : Schema
  written : List VarRec
  /-- nested `omp for` / `omp master` directives: (directive, clauses) -/
  nested : List (String × List String)
  /-- LoadBalancer methods called in the body: (class, method) -/
  lbCalls : List (String × String)
  /-- `num_threads(e)` is tied to the thread count the lock was initialised with -/
  teamTiedToLock : Bool
deriving DecidableEq, Repr

structure MethodRec where
  name : String
  isPublic : Bool
  isConst : Bool
  startsWithLockGuard : Bool
deriving DecidableEq, Repr

structure LockClassRec where
  cls : String
  file : String
  methods : List MethodRec
  /-- the constructor initialises the lock with the thread count `get_threads()`/the region uses -/
  lockInit : String
deriving DecidableEq, Repr

/-- schemas for which `schema_drf` is proved (PcProps/C10.lean) -/
def provedSchemas : List Schema := [.disp, .red, .atom, .atomDisp, .twoPhase, .disj, .master]

def RegionRec.ok (r : RegionRec) : Bool :=
  provedSchemas.contains r.schema && r.written.all (fun v => v.prot.allowedBy r.schema) &&
  (r.lbCalls.isEmpty || r.teamTiedToLock)

def LockClassRec.ok (c : LockClassRec) : Bool :=
  c.methods.all (fun m => !m.isPublic || m.isConst || m.startsWithLockGuard)

end Pc.HB
