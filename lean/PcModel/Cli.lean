/-
L2 model of the command-line glue of the `primecount` program: `parseOption`, `parseOptions`,
`CmdOptions::setMainOption`, `CmdOptions::optionStatus`, `Option::to<T>` (src/app/CmdOptions.cpp, CmdOptions.hpp) and
`main` with its `switch` (src/app/main.cpp), plus the parameter derivations of the ten formula wrappers of main.cpp.
Core Lean only, executable (driver ops in PcModel/Drv/Cli.lean).

Tie to the sources: translator/extract_cli.py regenerates PcGen/CliOptData.lean (every key of `optionMap` with its
OptionID and IsParam kind, the `enum OptionID`, the `case` lists of both switches, the normalised statements of the
functions mirrored here) and PcGen/CliOptObl.lean proves by `decide`/`rfl` that they equal `modelledOptTable`,
`modelledOptionIds`, `modelledParseSwitch`, `modelledMainSwitch` below and the recorded texts.

Parameters (not modelled, quantified over by every theorem):
* `stod : Bytes → Option AlphaArg` — `std::stod(val)` followed by the float tests of `set_alpha*`: `none` = stod throws
  (`invalid_argument` / `out_of_range`, turned into "invalid option" by `Option::to`), `some a` = the two float-derived
  quantities the setters use (`!(alpha >= 1.0)`, `(int64_t)(min(alpha, 1e15) * 1000)`);
* `hw : ApiHw` — `omp_get_max_threads()` and primesieve's maximum;
* `alg : CliAlg` — the library functions called by main's switch, under the configuration the options left behind
  (`none` = the call throws).

argv[0] is not part of the model: `argv : List Bytes` are `argv[1] … argv[argc-1]` (C strings: no NUL byte, which the
model does not need to assume).
-/
import PcModel.Calc
import PcModel.ApiState

namespace Pc.Cli
open Pc.Calc

/-! ### the option table -/

/-- `enum IsParam` -/
inductive IsParam where
  | noParam | required | optional
deriving Repr, DecidableEq

def IsParam.cname : IsParam → String
  | .noParam => "NO_PARAM" | .required => "REQUIRED_PARAM" | .optional => "OPTIONAL_PARAM"

/-- `enum OptionID` (CmdOptions.hpp), same order -/
inductive OptId where
  | alpha | alphaY | alphaZ | default | delegliseRivat | delegliseRivat64 | delegliseRivat128
  | gourdon | gourdon64 | gourdon128 | help | legendre | lehmer | lmo | lmo1 | lmo2 | lmo3 | lmo4 | lmo5
  | meissel | nthPrime | number | primesieve | li | liInv | r | rInverse | phi | p2 | s1 | s2Easy | s2Hard
  | s2Trivial | ac | b | d | phi0 | sigma | status | test | time | threads | version
deriving Repr, DecidableEq

def OptId.cname : OptId → String
  | .alpha => "OPTION_ALPHA" | .alphaY => "OPTION_ALPHA_Y" | .alphaZ => "OPTION_ALPHA_Z" | .default => "OPTION_DEFAULT"
  | .delegliseRivat => "OPTION_DELEGLISE_RIVAT" | .delegliseRivat64 => "OPTION_DELEGLISE_RIVAT_64"
  | .delegliseRivat128 => "OPTION_DELEGLISE_RIVAT_128" | .gourdon => "OPTION_GOURDON" | .gourdon64 => "OPTION_GOURDON_64"
  | .gourdon128 => "OPTION_GOURDON_128" | .help => "OPTION_HELP" | .legendre => "OPTION_LEGENDRE"
  | .lehmer => "OPTION_LEHMER" | .lmo => "OPTION_LMO" | .lmo1 => "OPTION_LMO1" | .lmo2 => "OPTION_LMO2"
  | .lmo3 => "OPTION_LMO3" | .lmo4 => "OPTION_LMO4" | .lmo5 => "OPTION_LMO5" | .meissel => "OPTION_MEISSEL"
  | .nthPrime => "OPTION_NTHPRIME" | .number => "OPTION_NUMBER" | .primesieve => "OPTION_PRIMESIEVE" | .li => "OPTION_LI"
  | .liInv => "OPTION_LIINV" | .r => "OPTION_R" | .rInverse => "OPTION_R_INVERSE" | .phi => "OPTION_PHI" | .p2 => "OPTION_P2"
  | .s1 => "OPTION_S1" | .s2Easy => "OPTION_S2_EASY" | .s2Hard => "OPTION_S2_HARD" | .s2Trivial => "OPTION_S2_TRIVIAL"
  | .ac => "OPTION_AC" | .b => "OPTION_B" | .d => "OPTION_D" | .phi0 => "OPTION_PHI0" | .sigma => "OPTION_SIGMA"
  | .status => "OPTION_STATUS" | .test => "OPTION_TEST" | .time => "OPTION_TIME" | .threads => "OPTION_THREADS"
  | .version => "OPTION_VERSION"

/-- the enumerators in declaration order -/
def OptId.all : List OptId :=
  [.alpha, .alphaY, .alphaZ, .default, .delegliseRivat, .delegliseRivat64, .delegliseRivat128, .gourdon, .gourdon64,
   .gourdon128, .help, .legendre, .lehmer, .lmo, .lmo1, .lmo2, .lmo3, .lmo4, .lmo5, .meissel, .nthPrime, .number,
   .primesieve, .li, .liInv, .r, .rInverse, .phi, .p2, .s1, .s2Easy, .s2Hard, .s2Trivial, .ac, .b, .d, .phi0, .sigma,
   .status, .test, .time, .threads, .version]

/-- `optionMap` of `parseOptions` (CmdOptions.cpp:205–263), in source order; `std::map` = lookup by exact key -/
def optTable : List (String × OptId × IsParam) := [
  ("-a", .alpha, .required), ("--alpha", .alpha, .required), ("--alpha-y", .alphaY, .required),
  ("--alpha-z", .alphaZ, .required), ("-d", .delegliseRivat, .noParam), ("--deleglise-rivat", .delegliseRivat, .noParam),
  ("--deleglise-rivat-64", .delegliseRivat64, .noParam), ("--deleglise-rivat-128", .delegliseRivat128, .noParam),
  ("-g", .gourdon, .noParam), ("--gourdon", .gourdon, .noParam), ("--gourdon-64", .gourdon64, .noParam),
  ("--gourdon-128", .gourdon128, .noParam), ("-h", .help, .noParam), ("--help", .help, .noParam),
  ("-l", .legendre, .noParam), ("--legendre", .legendre, .noParam), ("--lehmer", .lehmer, .noParam),
  ("--lmo", .lmo, .noParam), ("--lmo1", .lmo1, .noParam), ("--lmo2", .lmo2, .noParam), ("--lmo3", .lmo3, .noParam),
  ("--lmo4", .lmo4, .noParam), ("--lmo5", .lmo5, .noParam), ("-m", .meissel, .noParam), ("--meissel", .meissel, .noParam),
  ("-n", .nthPrime, .noParam), ("--nth-prime", .nthPrime, .noParam), ("--number", .number, .required),
  ("-p", .primesieve, .noParam), ("--primesieve", .primesieve, .noParam), ("--Li", .li, .noParam),
  ("--Li-inverse", .liInv, .noParam), ("-R", .r, .noParam), ("--RiemannR", .r, .noParam),
  ("--RiemannR-inverse", .rInverse, .noParam), ("--phi", .phi, .noParam), ("--P2", .p2, .noParam), ("--S1", .s1, .noParam),
  ("--S2-easy", .s2Easy, .noParam), ("--S2-hard", .s2Hard, .noParam), ("--S2-trivial", .s2Trivial, .noParam),
  ("--AC", .ac, .noParam), ("-B", .b, .noParam), ("--B", .b, .noParam), ("-D", .d, .noParam), ("--D", .d, .noParam),
  ("--Phi0", .phi0, .noParam), ("--Sigma", .sigma, .noParam), ("-s", .status, .optional), ("--status", .status, .optional),
  ("--test", .test, .noParam), ("--time", .time, .noParam), ("-t", .threads, .required), ("--threads", .threads, .required),
  ("-v", .version, .noParam), ("--version", .version, .noParam)]

/-- what the translator must find: (key, OptionID, IsParam) -/
def modelledOptTable : List (String × String × String) := optTable.map fun e => (e.1, e.2.1.cname, e.2.2.cname)
def modelledOptionIds : List String := OptId.all.map OptId.cname

/-- `optionMap.count(s)` / `optionMap.at(s)` over any table -/
def lookupIn (tbl : List (String × OptId × IsParam)) (s : Bytes) : Option (OptId × IsParam) :=
  match tbl with
  | [] => none
  | (k, v) :: r => if ofStr k == s then some v else lookupIn r s

def lookup (s : Bytes) : Option (OptId × IsParam) := lookupIn optTable s

/-! ### parseOption -/

/-- the ways the program ends with "primecount: <message>" on stderr and exit status 1 -/
inductive CliErr where
  /-- "unrecognized option ''" (empty argv string) -/
  | emptyArg
  /-- "unrecognized option '…'" -/
  | unrecognized
  /-- "missing value for option '…'" -/
  | missingValue
  /-- "invalid option '…=…'" (`Option::to<T>`: `to_maxint` or `std::stod` threw) -/
  | invalidOption
  /-- "incompatible options: … …" (second main option) -/
  | incompatible
  /-- "option --phi requires 2 numbers" -/
  | phiNeeds2
  /-- "missing x number" -/
  | missingX
  /-- "x must be < 2^63" / "x must be >= -2^63" (`to_int64`) -/
  | toInt64
  /-- an exception of the called library function (or `std::out_of_range` of `optionMap.at`) -/
  | lib
deriving Repr, DecidableEq

/-- `struct Option` plus the id `optionMap.at(opt.opt).first` -/
structure Item where
  str : Bytes
  opt : Bytes
  val : Bytes
  id : OptId
deriving Repr, DecidableEq

/-- `s.find(c)` / `s.find_first_of(set)`: the part before the first byte satisfying `p`, and the part from it on -/
def splitAtFirst (p : Nat → Bool) : Bytes → Option (Bytes × Bytes)
  | [] => none
  | c :: cs => if p c then some ([], c :: cs) else
      match splitAtFirst p cs with
      | none => none
      | some (a, b) => some (c :: a, b)

/-- second half of the `isOption(opt.str)` branch: `opt.opt`/`opt.val` are known, look the key up
    (`full` = the message prints the full string; irrelevant for the outcome) -/
def finishKeyed (tbl : List (String × OptId × IsParam)) (str o val : Bytes) (rest : List Bytes) :
    Except CliErr (Item × List Bytes) :=
  match lookupIn tbl o with
  | none => .error .unrecognized                       -- !optionMap.count(opt.opt)
  | some (id, kind) =>
    -- Prevent '--option='
    if val.isEmpty && kind == .required then .error .missingValue
    else .ok (⟨str, o, val, id⟩, rest)

/-- `parseOption(argc, argv, i, optionMap)` (CmdOptions.cpp:80–185): `str = argv[i]`, `rest = argv[i+1 …]`; returns
    the option and the arguments that remain after it (`i` advanced past a consumed value) -/
def parseOptionIn (tbl : List (String × OptId × IsParam)) (str : Bytes) (rest : List Bytes) :
    Except CliErr (Item × List Bytes) :=
  if str.isEmpty then .error .emptyArg else
  match lookupIn tbl str with
  | some (id, kind) =>
    -- --opt or -o (but not --opt=N)
    match kind with
    | .required =>
      -- i += 1; if (i < argc) opt.val = argv[i]; if (opt.val.empty() || isOption(opt.val)) throw
      match rest with
      | [] => .error .missingValue
      | v :: rest' => if v.isEmpty || isOption v then .error .missingValue else .ok (⟨str, str, v, id⟩, rest')
    | .optional =>
      -- i + 1 < argc && !argv[i+1].empty() && !isOption(argv[i+1])
      match rest with
      | v :: rest' => if !v.isEmpty && !isOption v then .ok (⟨str, str, v, id⟩, rest') else .ok (⟨str, str, [], id⟩, rest)
      | [] => .ok (⟨str, str, [], id⟩, rest)
    | .noParam => .ok (⟨str, str, [], id⟩, rest)
  | none =>
    if isOption str then
      match splitAtFirst (· == 61) str with
      | some (o, v) =>
        -- --opt=N : opt = substr(0, pos), val = substr(pos + 1)
        finishKeyed tbl str o (v.drop 1) rest
      | none =>
        -- --opt[N] : split at the first decimal digit
        match splitAtFirst isDigit str with
        | none => finishKeyed tbl str str [] rest
        | some (o, v) => finishKeyed tbl str o v rest
    else
      -- a number or an integer arithmetic expression
      if !str.any isDigit then .error .unrecognized
      else if str.head? == some 45 then .error .unrecognized
      else
        -- optionMap.at("--number").first in parseOptions
        match lookupIn tbl (ofStr "--number") with
        | some (id, _) => .ok (⟨str, ofStr "--number", str, id⟩, rest)
        | none => .error .lib

def parseOption (str : Bytes) (rest : List Bytes) : Except CliErr (Item × List Bytes) := parseOptionIn optTable str rest

/-! ### parseOptions -/

/-- `(int) v` for a 128-bit `v` (`Option::to<int>`): modular narrowing (GCC/Clang; defined so since C++20) -/
def wrapInt32 (v : Int) : Int := (v + 2 ^ 31) % 2 ^ 32 - 2 ^ 31

/-- `CmdOptions` (only the fields that are read) + the `numbers` vector + the library's global settings -/
structure PState where
  σ : ApiState := ApiState.init
  /-- `optionStr`: empty = no main option yet -/
  optionStr : Bytes := []
  /-- `option = OPTION_DEFAULT` -/
  option : OptId := .default
  time : Bool := false
  numbers : List Int := []
deriving Repr, DecidableEq

/-- ways `parseOptions` does not return: `help(code)`, `version()`, `test()` call `std::exit` -/
inductive Early where
  | help (code : Nat) | version | test
deriving Repr, DecidableEq

inductive Step where
  | cont (s : PState)
  | exit (e : Early)
  | err (e : CliErr)
deriving Repr, DecidableEq

/-- the `switch (optionID)` of `parseOptions` (CmdOptions.cpp:272–285) with `setMainOption` and `optionStatus` inlined -/
def applyItem (hw : ApiHw) (stod : Bytes → Option AlphaArg) (s : PState) (it : Item) : Step :=
  match it.id with
  | .alpha => match stod it.val with
    | none => .err .invalidOption
    | some a => .cont { s with σ := setAlpha s.σ a }
  | .alphaY => match stod it.val with
    | none => .err .invalidOption
    | some a => .cont { s with σ := setAlphaY s.σ a }
  | .alphaZ => match stod it.val with
    | none => .err .invalidOption
    | some a => .cont { s with σ := setAlphaZ s.σ a }
  | .number => match toMaxint it.val with
    | .error _ => .err .invalidOption
    | .ok v => .cont { s with numbers := s.numbers ++ [v] }
  | .threads => match toMaxint it.val with
    | .error _ => .err .invalidOption
    | .ok v => .cont { s with σ := setThreads hw s.σ (wrapInt32 v) }
  | .help => .exit (.help 0)
  | .status =>
    -- set_print(true); time = true; if (!opt.val.empty()) set_status_precision(opt.to<int>())
    if it.val.isEmpty then .cont { s with σ := setPrint s.σ true, time := true }
    else match toMaxint it.val with
      | .error _ => .err .invalidOption
      | .ok v => .cont { s with σ := setStatusPrecision (setPrint s.σ true) (wrapInt32 v), time := true }
  | .time => .cont { s with time := true }
  | .test => .exit .test
  | .version => .exit .version
  | id =>
    -- default: opts.setMainOption(optionID, opt.str) — multiple main options are not allowed
    if !s.optionStr.isEmpty then .err .incompatible
    else .cont { s with optionStr := it.str, option := id }

inductive ParseResult where
  | ok (s : PState)
  | exit (e : Early)
  | err (e : CliErr)
deriving Repr, DecidableEq

/-- the statements after the loop (CmdOptions.cpp:288–300) -/
structure CmdOpts where
  σ : ApiState
  option : OptId
  x : Int
  /-- `opts.a` (initialised to -1) -/
  a : Int
  time : Bool
deriving Repr, DecidableEq

def finishParse (s : PState) : Except CliErr CmdOpts :=
  if s.option == .phi && s.numbers.length < 2 then .error .phiNeeds2
  else match s.numbers with
    | [] => .error .missingX
    | x :: r => .ok ⟨s.σ, s.option, x, if s.option == .phi then r.headD (-1) else -1, s.time⟩

/-- the `for (int i = 1; i < argc; i++)` loop; fuel = number of remaining arguments (every iteration consumes one
    or two) -/
def parseLoopIn (tbl : List (String × OptId × IsParam)) (hw : ApiHw) (stod : Bytes → Option AlphaArg) :
    Nat → PState → List Bytes → ParseResult
  | _, s, [] => .ok s
  | 0, _, _ :: _ => .err .lib
  | fuel + 1, s, str :: rest =>
    match parseOptionIn tbl str rest with
    | .error e => .err e
    | .ok (it, rest') =>
      match applyItem hw stod s it with
      | .err e => .err e
      | .exit e => .exit e
      | .cont s' => parseLoopIn tbl hw stod fuel s' rest'

def parseLoop (hw : ApiHw) (stod : Bytes → Option AlphaArg) (s : PState) (argv : List Bytes) : ParseResult :=
  parseLoopIn optTable hw stod argv.length s argv

inductive Parsed where
  | ok (o : CmdOpts)
  | exit (e : Early)
  | err (e : CliErr)
deriving Repr, DecidableEq

/-- `parseOptions(argc, argv)`: a fresh process (σ₀ = `ApiState.init`, default `CmdOptions`) -/
def parseOptions (hw : ApiHw) (stod : Bytes → Option AlphaArg) (argv : List Bytes) : Parsed :=
  if argv.isEmpty then .exit (.help 1) else        -- argc <= 1
  match parseLoop hw stod {} argv with
  | .err e => .err e
  | .exit e => .exit e
  | .ok s => match finishParse s with
    | .error e => .err e
    | .ok o => .ok o

/-! ### main -/

/-- one `case` of main's switch: `res = fn(<x or to_int64(x)>[, to_int64(a)][, threads])` -/
structure Dispatch where
  fn : String
  /-- `to_int64(x)` -/
  narrow : Bool
  /-- `, to_int64(a)` (only `phi`) -/
  second : Bool
  threads : Bool
  /-- a wrapper defined in main.cpp that calls `set_print_variables(true)` when `is_print()` (after its `x < 1` and
      limit tests) -/
  formula : Bool
deriving Repr, DecidableEq

/-- main's `switch (opts.option)` (main.cpp:362–430) in source order; the two `_128` cases are inside
    `#ifdef HAVE_INT128_T` (assumed defined) -/
def mainSwitch : List (OptId × Dispatch) := [
  (.default, ⟨"pi", false, false, true, false⟩),
  (.delegliseRivat, ⟨"pi_deleglise_rivat", false, false, true, false⟩),
  (.delegliseRivat64, ⟨"pi_deleglise_rivat_64", true, false, true, false⟩),
  (.gourdon, ⟨"pi_gourdon", false, false, true, false⟩),
  (.gourdon64, ⟨"pi_gourdon_64", true, false, true, false⟩),
  (.legendre, ⟨"pi_legendre", true, false, true, false⟩),
  (.lehmer, ⟨"pi_lehmer", true, false, true, false⟩),
  (.lmo, ⟨"pi_lmo_parallel", true, false, true, false⟩),
  (.lmo1, ⟨"pi_lmo1", true, false, false, false⟩),
  (.lmo2, ⟨"pi_lmo2", true, false, false, false⟩),
  (.lmo3, ⟨"pi_lmo3", true, false, false, false⟩),
  (.lmo4, ⟨"pi_lmo4", true, false, false, false⟩),
  (.lmo5, ⟨"pi_lmo5", true, false, false, false⟩),
  (.meissel, ⟨"pi_meissel", true, false, true, false⟩),
  (.primesieve, ⟨"pi_primesieve", true, false, false, false⟩),
  (.li, ⟨"Li", false, false, false, false⟩),
  (.liInv, ⟨"Li_inverse", false, false, false, false⟩),
  (.r, ⟨"RiemannR", false, false, false, false⟩),
  (.rInverse, ⟨"RiemannR_inverse", false, false, false, false⟩),
  (.nthPrime, ⟨"nth_prime", true, false, true, false⟩),
  (.phi, ⟨"phi", true, true, true, false⟩),
  (.p2, ⟨"P2", false, false, true, true⟩),
  (.s1, ⟨"S1", false, false, true, true⟩),
  (.s2Easy, ⟨"S2_easy", false, false, true, true⟩),
  (.s2Hard, ⟨"S2_hard", false, false, true, true⟩),
  (.s2Trivial, ⟨"S2_trivial", false, false, true, true⟩),
  (.ac, ⟨"AC", false, false, true, true⟩),
  (.b, ⟨"B", false, false, true, true⟩),
  (.d, ⟨"D", false, false, true, true⟩),
  (.phi0, ⟨"Phi0", false, false, true, true⟩),
  (.sigma, ⟨"Sigma", false, false, true, true⟩),
  (.delegliseRivat128, ⟨"pi_deleglise_rivat_128", false, false, true, false⟩),
  (.gourdon128, ⟨"pi_gourdon_128", false, false, true, false⟩)]

/-- the right-hand side of `res = …` as normalised source text -/
def Dispatch.text (d : Dispatch) : String :=
  d.fn ++ " ( " ++ (if d.narrow then "to_int64 ( x )" else "x") ++ (if d.second then " , to_int64 ( a )" else "") ++
    (if d.threads then " , threads" else "") ++ " )"

def modelledMainSwitch : List (String × String) := mainSwitch.map fun e => (e.1.cname, e.2.text)

/-- the `case` labels of the switch in `parseOptions` with their statements (normalised source text); everything else
    goes to `default: opts.setMainOption(optionID, opt.str)` -/
def modelledParseSwitch : List (String × String) := [
  ("OPTION_ALPHA", "set_alpha ( opt . to < double > ( ) ) ;"),
  ("OPTION_ALPHA_Y", "set_alpha_y ( opt . to < double > ( ) ) ;"),
  ("OPTION_ALPHA_Z", "set_alpha_z ( opt . to < double > ( ) ) ;"),
  ("OPTION_NUMBER", "numbers . push_back ( opt . to < maxint_t > ( ) ) ;"),
  ("OPTION_THREADS", "set_num_threads ( opt . to < int > ( ) ) ;"),
  ("OPTION_HELP", "help ( 0 ) ;"),
  ("OPTION_STATUS", "opts . optionStatus ( opt ) ;"),
  ("OPTION_TIME", "opts . time = true ;"),
  ("OPTION_TEST", "test ( ) ;"),
  ("OPTION_VERSION", "version ( ) ;"),
  ("default", "opts . setMainOption ( optionID , opt . str ) ;")]

def dispatchOf (id : OptId) : Option Dispatch :=
  match mainSwitch.find? (fun e => e.1 == id) with
  | some e => some e.2
  | none => none

/-- the call main makes -/
structure CliCall where
  fn : String
  x : Int
  a : Option Int
  /-- is `threads = get_num_threads()` passed? (its value is part of the configuration) -/
  threads : Bool
deriving Repr, DecidableEq

/-- the library functions under a configuration: `none` = throws -/
abbrev CliAlg := ApiConfig → CliCall → Option Int

/-- what appears on stdout, in order -/
inductive OutItem where
  | helpMenu | versionInfo | testRun
  /-- whatever the library prints in print mode (`-s`): headers, variables, "Status: n%", partial results and — for a
      formula option — the line `<name> = <value>` -/
  | statusOutput
  | blank
  /-- `std::cout << res << std::endl` -/
  | result (v : Int)
  /-- `print_seconds` -/
  | seconds
deriving Repr, DecidableEq

structure CliRun where
  exit : Nat
  stdout : List OutItem
  /-- message class on stderr -/
  err : Option CliErr
  /-- the call that was made (none: no library function was called) -/
  call : Option CliCall := none
deriving Repr, DecidableEq

/-- arguments of the selected `case`: `to_int64` is evaluated left to right before the call -/
def mainCall (o : CmdOpts) : Except CliErr (Option (CliCall × Dispatch)) :=
  match dispatchOf o.option with
  | none => .ok none                                   -- no `case`, no `default`: `res` stays 0
  | some d =>
    if d.narrow then
      match cliToInt64 o.x with
      | .error _ => .error .toInt64
      | .ok x =>
        if d.second then
          match cliToInt64 o.a with
          | .error _ => .error .toInt64
          | .ok a => .ok (some (⟨d.fn, x, some a, d.threads⟩, d))
        else .ok (some (⟨d.fn, x, none, d.threads⟩, d))
    else .ok (some (⟨d.fn, o.x, none, d.threads⟩, d))

/-- the tail of main: `if (is_print_combined_result()) { if (is_print()) endl; cout << res; if (opts.time) print_seconds }` -/
def printResult (σ : ApiState) (time : Bool) (res : Int) : List OutItem :=
  (if σ.print then [.statusOutput] else []) ++
  (if isPrintCombinedResult σ then
     (if σ.print then [.blank] else []) ++ [.result res] ++ (if time then [.seconds] else [])
   else [])

/-- `main(argc, argv)`; `test()` runs the self tests and exits (status not modelled: reported as 0) -/
def cliMain (hw : ApiHw) (stod : Bytes → Option AlphaArg) (alg : CliAlg) (argv : List Bytes) : CliRun :=
  match parseOptions hw stod argv with
  | .err e => ⟨1, [], some e, none⟩
  | .exit (.help c) => ⟨c, [.helpMenu], none, none⟩
  | .exit .version => ⟨0, [.versionInfo], none, none⟩
  | .exit .test => ⟨0, [.testRun], none, none⟩
  | .ok o =>
    match mainCall o with
    | .error e => ⟨1, [], some e, none⟩
    | .ok none => ⟨0, printResult o.σ o.time 0, none, none⟩
    | .ok (some (call, d)) =>
      match alg (o.σ.config hw) call with
      | none => ⟨1, if o.σ.print then [.statusOutput] else [], some .lib, some call⟩
      | some res =>
        -- the formula wrappers: `if (x < 1) return 0; … if (is_print()) set_print_variables(true);`
        let σ' := if d.formula && o.σ.print && decide (1 ≤ call.x) then setPrintVariables o.σ true else o.σ
        ⟨0, printResult σ' o.time res, none, some call⟩

/-! ### the formula wrappers of main.cpp (`AC B D Phi0 Sigma` / `P2 S1 S2_trivial S2_easy S2_hard`)

Only the parameter derivation: `v` = trunc of the double `x13 * alpha_y`, `w y` = trunc of `y * alpha_z`; both casts
`(int64_t)` are assumed in range here (PcModel/ParamsL2.lean models their failure) -/

/-- `y`, `z` of the Gourdon wrappers (main.cpp:66–82 and the four copies) -/
def wrapGourdonYZ (x13 sqrtx v : Int) (w : Int → Int) : Int × Int :=
  let y := max v (x13 + 1)
  let y := min y (sqrtx - 1)
  let y := max y 1
  let z := max (w y) y
  let z := min z (sqrtx - 1)
  let z := max z 1
  (y, z)

/-- `y`, `z` of the Deleglise-Rivat wrappers: `y = (int64_t)(iroot<3>(x) * alpha); z = (int64_t)(x / y)` -/
def wrapDrYZ (x v : Int) : Int × Int := (v, Int.tdiv x v)

end Pc.Cli
