/-
C18 (WP iter): the EXECUTABLE instance of the parameters of PcModel/Iter.lean that `pcdrv` runs.

* floats: recomputed with Lean's binary64 `Float` (`UInt64.toFloat` = `(double) uint64`, `Float.sqrt`, `Float.log` are the
  same libm calls as the C++ on this machine; the `it w` stream compares the resulting window bounds exactly).
* sieving core: `winCore a b` = primes of `[a, b]` by the PROVED segmented window sieve `windowListWith wheelBase`
  (PcProofs/OracleWindow.lean: `windowListWith_spec`, `wheelBase_complete`) — no primecount, no primesieve.
  Above `sieveCap` (10^14; the window sieve needs `√b` steps per window) `mrCore`: a deterministic Miller–Rabin test with
  the bases 2 … 37 on every candidate (compositeness verdicts are proofs; "prime" verdicts rest on the literature result that
  the first 12 primes are a deterministic base set below 3.3·10^24).
* PrimeGenerator's table path `pgPrimes` wraps the core (the core is never asked below 721).
* `firstK`: the first `k` entries of `[a, b]` found chunk by chunk (so a window `[a, 2^64-1]` never has to be materialised).
* a window that would have to be materialised but is too wide for the model yields the marker `poison` (≥ 2^64): the driver
  answers `ERR:model-bound` for such an op.
-/
import PcModel.Iter
import PcModel.Oracle
namespace Pc.It

/-! ### floats -/

def u64F (n : Nat) : Float := (UInt64.ofNat n).toFloat
def fU64 (f : Float) : Nat := f.toUInt64.toNat

def fmax (a b : Float) : Float := if a < b then b else a

def execFloats : Floats where
  sqrtN start := fU64 (Float.sqrt (u64F start))
  logP stop := fU64 (Float.log (fmax 10.0 (u64F stop)))
  sqrt2 stop := fU64 (Float.sqrt (u64F stop) * 2)
  gap n := let l := Float.log (fmax 8.0 (u64F n)); fU64 (l * l)

/-- nthPrime.cpp:30 `avgPrimeGap(n)` -/
def avgPrimeGapF (n : Nat) : Nat := fU64 (Float.log (fmax 8.0 (u64F n)) + 2)

/-! ### Miller–Rabin (numbers above `sieveCap`) -/

/-- `a^e mod n` by repeated squaring (fuel = number of bits of `e`) -/
def powMod (n : Nat) : Nat → Nat → Nat → Nat → Nat
  | 0, _, _, acc => acc
  | fuel + 1, a, e, acc =>
    if e = 0 then acc else
    powMod n fuel (a * a % n) (e / 2) (if e % 2 = 1 then acc * a % n else acc)

/-- `n - 1 = d * 2^r`, `d` odd -/
def splitPow2 : Nat → Nat → Nat → Nat × Nat
  | 0, d, r => (d, r)
  | fuel + 1, d, r => if d % 2 = 0 ∧ d ≠ 0 then splitPow2 fuel (d / 2) (r + 1) else (d, r)

/-- does `x, x², x⁴, …` (`r` entries) contain `n - 1`? -/
def hitsMinusOne (n : Nat) : Nat → Nat → Bool
  | 0, _ => false
  | r + 1, x => x == n - 1 || hitsMinusOne n r (x * x % n)

/-- `true` = `a` is NOT a witness of compositeness of the odd `n > 2` -/
def mrPass (n d r a : Nat) : Bool :=
  let a := a % n
  if a = 0 then true else
  let x := powMod n 70 a d 1
  x == 1 || hitsMinusOne n r x

def mrBases : List Nat := [2, 3, 5, 7, 11, 13, 17, 19, 23, 29, 31, 37]

def isPrimeMR (n : Nat) : Bool :=
  if n < 2 then false else
  if mrBases.contains n then true else
  if mrBases.any (fun p => n % p == 0) then false else
  let (d, r) := splitPow2 70 (n - 1) 0
  mrBases.all (mrPass n d r)

/-! ### cores -/

def poison : Nat := two64 + 7
def sieveCap : Nat := 100000000000000
/-- widest window the model materialises -/
def wideCap : Nat := 40000000

/-- primes of `[a, b]` by the proved window sieve (`(a-1, b]`; for `a = 0` that is `(0, b]`) -/
def winCore (a b : Nat) : List Nat := if a ≤ b then windowListWith wheelBase (a - 1) b else []

/-- primes of `[a, b]` by testing every candidate -/
def mrCore (a b : Nat) : List Nat := ((List.range (b + 1 - a)).map (a + ·)).filter isPrimeMR

/-- the core the driver uses for a window that has to be listed completely -/
def execCore (a b : Nat) : List Nat :=
  if a > b then [] else
  if b ≤ sieveCap then (if b - a > wideCap then [poison] else winCore a b)
  else (if b - a > 2000000 then [poison] else mrCore a b)

/-- first `k` entries of `P pos stop`, chunk by chunk -/
def firstKChunks (P : Nat → Nat → List Nat) (w : Nat) : Nat → Nat → Nat → Nat → List Nat
  | 0, _, _, _ => []
  | fuel + 1, pos, stop, k =>
    if k = 0 ∨ pos > stop then [] else
    let hi := min stop (pos + w)
    let c := P pos hi
    if c.length ≥ k then c.take k else c ++ firstKChunks P w fuel (hi + 1) stop (k - c.length)

def chunkWidth (pos : Nat) : Nat := if pos ≥ sieveCap then 8191 else max 131071 (Nat.sqrt pos)

def execFirstK (a b k : Nat) : List Nat :=
  let w := chunkWidth a
  firstKChunks (pgPrimes execCore) w ((b - a) / (w + 1) + 2) a b k

/-- the environment `pcdrv` runs: `sizes` = the batch sizes observed on the real iterator (1024 when exhausted) -/
def execEnv (sizes : Array Nat) : Env where
  fl := execFloats
  primes := pgPrimes execCore
  firstK := execFirstK
  batch t := sizes.getD t 1024

/-- number of primes in `[a, b]`, window by window (2^22 wide) with the proved window sieve -/
def countChunks : Nat → Nat → Nat → Nat → Nat
  | 0, _, _, acc => acc
  | fuel + 1, a, b, acc =>
    if a > b then acc else
    let hi := min b (a + 4194303)
    countChunks fuel (hi + 1) b (acc + windowPrimesWith wheelBase (a - 1) hi)

def execCount (a b : Nat) : Nat := if a > b then 0 else countChunks ((b - a) / 4194304 + 2) a b 0

/-- what `CountPrintPrimes` counts: the primes `>= 7` of `[a, b]` -/
def execCountCore (a b : Nat) : Nat := execCount (max a 7) b

end Pc.It
