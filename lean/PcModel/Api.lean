/-
C01 — L2 model of the public entry points of `pi(x)`: src/api.cpp:38-134 (C++ integer and string API),
src/util.cpp:62-127 (`to_string(uint128_t/int128_t)`, `to_maxint`), src/api_c.cpp:22-72 (C API) and the
default path of src/app/main.cpp (`primecount <digits>`).

The algorithms behind the size dispatcher are PARAMETERS (`Routes`): the theorems of PcProps/C01.lean say
that whenever every route returns π on the range where the dispatcher uses it, every entry point returns π.
The thresholds come from the generated module `PcGen.ApiConst`.
-/
import PcModel.Basic
import PcGen.ApiConst
namespace Pc.PiApi
open PcGen.ApiConst

/-- what the entry points throw: `primecount_error` (the calculator's own `calculator::error` is converted by `to_maxint` since repair F7: pi(string) documents primecount_error) -/
inductive ApiErr where
  | pcError | calcError
deriving Repr, DecidableEq

/-- the algorithms the dispatcher chooses between (each takes the non-negative argument it is called with) -/
structure Routes where
  /-- `PiTable::pi_cache(x)`, called for `2 ≤ x ≤ max_cached()` -/
  cache : Nat → Nat
  /-- `pi_legendre(x, threads)`, called for `max_cached() < x ≤ 1e5` -/
  legendre : Nat → Nat
  /-- `pi_meissel(x, threads)`, called for `1e5 < x ≤ 1e8` -/
  meissel : Nat → Nat
  /-- `pi_gourdon_64(x, threads)`, called for `1e8 < x ≤ INT64_MAX` -/
  gourdon64 : Nat → Nat
  /-- `pi_gourdon_128(x, threads)`, called for `x > INT64_MAX`; throws `primecount_error` above its limit -/
  gourdon128 : Nat → Except ApiErr Nat

def int64Max : Nat := 2 ^ 63 - 1
def int128Max : Nat := 2 ^ 127 - 1

/-- `pi_cache(int64_t x, bool)` of api.cpp:90-105 -/
def piCacheApi (r : Routes) (x : Int) : Int :=
  if x < cacheZeroBelow then 0 else r.cache x.toNat

/-- `int64_t pi(int64_t x, int threads)` of api.cpp:55-71 (`x` any int64 value) -/
def piApi64 (r : Routes) (x : Int) : Int :=
  if x ≤ maxCached then piCacheApi r x
  else if x ≤ legendreMax then r.legendre x.toNat
  else if x ≤ meisselMax then r.meissel x.toNat
  else r.gourdon64 x.toNat

/-- `int128_t pi(int128_t x, int threads)` of api.cpp:122-134 (`x` any int128 value) -/
def piApi128 (r : Routes) (x : Int) : Except ApiErr Int :=
  if x < 0 then .ok 0
  else if x ≤ int64Max then .ok (piApi64 r x)
  else (r.gourdon128 x.toNat).map Int.ofNat

/-! ### decimal rendering and parsing (util.cpp) -/

/-- `'0' + d` -/
def digitChar (d : Nat) : Char := "0123456789".toList.getD d '0'

/-- the loop `while (n > 0) { str += '0' + n % 10; n /= 10; }` (least significant digit first) -/
def digitsRev : Nat → Nat → List Char
  | 0, _ => []
  | fuel + 1, n => if n = 0 then [] else digitChar (n % 10) :: digitsRev fuel (n / 10)

/-- `to_string(uint128_t n)` as a list of characters (fuel 40 > 39 digits of 2^128) -/
def toCharsU128 (n : Nat) : List Char :=
  let d := digitsRev 40 n
  if d.isEmpty then ['0'] else d.reverse

def toStringU128 (n : Nat) : String := String.ofList (toCharsU128 n)

/-- `to_string(int128_t n)` -/
def toCharsI128 (v : Int) : List Char :=
  if v ≥ 0 then toCharsU128 v.toNat else '-' :: toCharsU128 (-v).toNat

def toStringI128 (v : Int) : String := String.ofList (toCharsI128 v)

def isDigit (c : Char) : Bool := '0' ≤ c && c ≤ '9'

/-- `calculator::parseDecimal` on a string of digits: `value = value * 10 + d` -/
def parseDecL (l : List Char) : Nat := l.foldl (fun v c => v * 10 + (c.toNat - 48)) 0

def parseDec (s : String) : Nat := parseDecL s.toList

/-- `std::string::operator<` (lexicographic on the character codes, a proper prefix is smaller) -/
def lexLt : List Char → List Char → Bool
  | _, [] => false
  | [], _ :: _ => true
  | a :: as, b :: bs => if a.toNat < b.toNat then true else if b.toNat < a.toNat then false else lexLt as bs

/-- `to_string(numeric_limits<maxint_t>::max())` -/
def maxIntChars : List Char := toCharsU128 int128Max

/-- what `calculator::eval<maxint_t>` does with a string that consists of digits only
    (empty string: "value expected" syntax error) -/
def calcDigits (expr : List Char) : Except ApiErr Int :=
  if expr.isEmpty then .error .calcError else .ok (parseDecL expr)

/-- `to_maxint(expr)` of util.cpp:102-127. `ev` is the calculator (modelled elsewhere, C13); the range
    check in front of it only concerns strings made of digits. -/
def toMaxint (ev : List Char → Except ApiErr Int) (expr : List Char) : Except ApiErr Int :=
  if expr.all isDigit then
    let n := expr.dropWhile (· == '0')
    if !n.isEmpty && (n.length > maxIntChars.length || (n.length == maxIntChars.length && lexLt maxIntChars n))
    then .error .pcError
    else ev expr
  else ev expr

/-- `to_maxint` on a string of digits (the calculator then just reads the number) -/
def toMaxintDigits (expr : List Char) : Except ApiErr Int := toMaxint calcDigits expr

/-- `std::string pi(const std::string& x, int threads)` of api.cpp:43-48 -/
def piStr (r : Routes) (ev : List Char → Except ApiErr Int) (expr : List Char) : Except ApiErr (List Char) := do
  let n ← toMaxint ev expr
  let res ← piApi128 r n
  pure (toCharsI128 res)

/-! ### C API and command line -/

/-- `primecount_pi(int64_t x)`: the 64-bit routes do not throw in this model, so no `-1` branch is reached -/
def cPi (r : Routes) (x : Int) : Int := piApi64 r x

/-- `primecount_pi_str(x, res, len)` for non-null pointers: (return value, buffer contents) -/
def cPiStr (r : Routes) (ev : List Char → Except ApiErr Int) (expr : List Char) (len : Nat) : Int × List Char :=
  match piStr r ev expr with
  | .ok s => if len < s.length + 1 then (-1, []) else (s.length, s)
  | .error _ => (-1, [])

/-- `primecount <expr>` without options: (exit status, stdout). Only for arguments that `parseOption`
    classifies as a number (contains a digit, does not start with `-`). -/
def cliDefault (r : Routes) (ev : List Char → Except ApiErr Int) (expr : List Char) : Nat × List Char :=
  match (toMaxint ev expr >>= piApi128 r) with
  | .ok v => (0, toCharsI128 v ++ ['\n'])
  | .error _ => (1, [])

/-- routes that answer from a table of `π` values (used by the driver with the proved `piTableArr`) -/
def tableRoutes (tbl : Array Nat) : Routes :=
  let f := fun x => tbl.getD x 0
  { cache := f, legendre := f, meissel := f, gourdon64 := f, gourdon128 := fun _ => .error .pcError }

end Pc.PiApi
