/-
C17 (lookup-table half), L2 executable models (core Lean only):

* `piCacheLookup`      `PiTable::pi_cache(x)`                       include/PiTable.hpp
* `PiTable`            constructor, `init`, `init_bits`, `init_count`, `operator[]`   src/PiTable.cpp
* `SegPi`              `SegmentedPiTable::init / operator[]`        src/gourdon/SegmentedPiTable.cpp
* `FactorTable(D)`     `to_index / to_number / next_multiple`, the sieve loops, thread split
                       include/BaseFactorTable.hpp, FactorTable.hpp (REPAIRED: F3), FactorTableD.hpp
* `generatePi/Lpf/Moebius/Mpf`                                     src/generate_primes.cpp
* `Bit`                `BinaryIndexedTree`                          include/BinaryIndexedTree.hpp

The bundled primesieve is NOT modelled here: every function that iterates over primes takes the prime
generator as a parameter `gen lo hi` = the primes `p` with `lo ≤ p < hi`, increasing (what
`primesieve::iterator it(lo, ·); while ((p = it.next_prime()) < hi)` yields; discharged by C18).
`SegmentedPiTable::init` calls `pi_noprint(low - 1)`: parameter `piNoprint` (discharged by C01).

Memory that `Vector::resize` leaves uninitialised is modelled as `none`; reading it is an error of the model.
-/
import PcModel.BitSieve240
import PcModel.Roots
import PcGen.TablesData
namespace Pc

/-- the primes in `[lo, hi)`, increasing: parameter standing for primesieve -/
abbrev PrimeGen := Nat → Nat → List Nat

/-! ### BitSieve240 table access (generated data) -/

def setBitTbl (r : Nat) : Nat := PcGen.setBit.getD r 0
def unsetLargerTbl (r : Nat) : Nat := PcGen.unsetLarger.getD r 0
def piTinyTbl (x : Nat) : Nat := PcGen.piTiny.getD x 0

/-- `count + popcnt64(bits & unset_larger_[x % 240])` -/
def wordLookup (w : Nat × Nat) (x : Nat) : Nat := w.1 + popcount64 (w.2 &&& unsetLargerTbl (x % 240))

/-- `PiTable::pi_cache(x)` over a table `cache` of (count, bits) words (`x < 240 * cache.size`) -/
def piCacheLookup (cache : Array (Nat × Nat)) (x : Nat) : Nat :=
  if x < PcGen.piTiny.size then piTinyTbl x
  else wordLookup (cache.getD (x / 240) (0, 0)) x

/-! ### PiTable -/

/-- a word of `pi_`: `none` = memory never written -/
abbrev PiWords := Array (Option (Nat × Nat))

structure PiTable where
  maxX : Nat
  words : PiWords
  /-- `counts_` (one slot per thread; `none` = never written) -/
  counts : Array (Option Nat)
deriving Repr

def piCacheLimit : Nat := PcGen.piCache.size * 240
def piThreadThreshold : Nat := 10000000

/-- `init`: number of threads actually used and `thread_dist` (a multiple of 240) -/
def piThreadParams (limit : Nat) (threads : Int) : Nat × Nat :=
  let dist := limit - piCacheLimit
  let thr := (idealNumThreads dist threads piThreadThreshold).toNat
  let td := max piThreadThreshold (dist / thr)
  (thr, td + (240 - td % 240))

/-- `[low, high)` of thread `t` -/
def piThreadRange (limit td t : Nat) : Nat × Nat :=
  let low := piCacheLimit + td * t
  (low, min (low + td) limit)

/-- `std::fill_n(&pi_[i], j - i, pi_t{0, 0})` -/
def fillWords (ws : PiWords) (i j : Nat) : PiWords :=
  (List.range (j - i)).foldl (fun a k => a.setIfInBounds (i + k) (some (0, 0))) ws

/-- `pi_[idx].bits |= mask` (a read-modify-write: stays `none` on uninitialised memory) -/
def orBits (ws : PiWords) (idx mask : Nat) : PiWords :=
  ws.modify idx (fun w => w.map fun (c, b) => (c, b ||| mask))

/-- `PiTable::init_bits(low, high, thread_num)`; returns the words and the number of primes found -/
def piInitBits (gen : PrimeGen) (ws : PiWords) (low high : Nat) : PiWords × Nat :=
  let ws := fillWords ws (low / 240) (ceilDiv high 240)
  let ps := gen (max low 7) high
  (ps.foldl (fun a p => orBits a (p / 240) (setBitTbl (p % 240))) ws, ps.length)

/-- the loop of `init_count`: `pi_[i].count = count; count += popcnt64(pi_[i].bits)` for `i0 ≤ i < i0 + n` -/
def countLoop (ws : PiWords) (i0 : Nat) : Nat → Nat → PiWords
  | 0, _ => ws
  | n + 1, count =>
    match ws.getD i0 none with
    | some (_, b) => countLoop (ws.setIfInBounds i0 (some (count, b))) (i0 + 1) n (count + popcount64 b)
    | none => countLoop ws (i0 + 1) n count   -- uninitialised read; stays `none`

/-- `PrimePi[low - 1]` as `init_count` computes it: last cache word + the counts of the threads before `t`
    (`none` when one of those `counts_` slots was never written) -/
def piThreadBase (counts : Array (Option Nat)) (t : Nat) : Option Nat :=
  let last := PcGen.piCache.getD (PcGen.piCache.size - 1) (0, 0)
  (List.range t).foldl (fun acc i => do
      let a ← acc
      let c ← counts.getD i none
      pure (a + c)) (some (last.1 + popcount64 last.2))

def piInitCount (ws : PiWords) (counts : Array (Option Nat)) (low high t : Nat) : PiWords :=
  match piThreadBase counts t with
  | some base => countLoop ws (low / 240) (ceilDiv high 240 - low / 240) base
  | none => ws

/-- body of the first `omp for` of `init` for thread `t` -/
def piBitsStep (gen : PrimeGen) (limit td : Nat) (acc : PiWords × Array (Option Nat)) (t : Nat) :
    PiWords × Array (Option Nat) :=
  let r := piThreadRange limit td t
  if r.1 < r.2 then
    let wc := piInitBits gen acc.1 r.1 r.2
    (wc.1, acc.2.setIfInBounds t (some wc.2))
  else acc

/-- body of the second `omp for` of `init` for thread `t` (`counts` = `counts_` after the barrier) -/
def piCountStep (limit td : Nat) (counts : Array (Option Nat)) (w : PiWords) (t : Nat) : PiWords :=
  let r := piThreadRange limit td t
  if r.1 < r.2 then piInitCount w counts r.1 r.2 t else w

/-- `PiTable::init(limit, cache_limit, threads)`: first all `init_bits` (threads in index order; the
    ranges are disjoint, `piTable_ranges_disjoint`), the implicit barrier, then all `init_count`. -/
def piInit (gen : PrimeGen) (ws : PiWords) (limit : Nat) (threads : Int) : PiWords × Array (Option Nat) :=
  let p := piThreadParams limit threads
  let s1 := (List.range p.1).foldl (piBitsStep gen limit p.2) (ws, Array.replicate p.1 none)
  ((List.range p.1).foldl (piCountStep limit p.2 s1.2) s1.1, s1.2)

/-- `PiTable::PiTable(max_x, threads)` -/
def PiTable.new (gen : PrimeGen) (maxX : Nat) (threads : Int) : PiTable :=
  let limit := maxX + 1
  let size := ceilDiv limit 240
  let n := min PcGen.piCache.size size
  let ws0 : PiWords := Array.ofFn (n := size) fun i =>
    if i.val < n then some (PcGen.piCache.getD i.val (0, 0)) else none
  if limit > piCacheLimit then
    let r := piInit gen ws0 limit threads
    ⟨maxX, r.1, r.2⟩
  else ⟨maxX, ws0, #[]⟩

/-- `PiTable::operator[](x)`; `none` when `x > max_x` (ASSERT) or the word was never written -/
def PiTable.get (t : PiTable) (x : Nat) : Option Nat :=
  if x > t.maxX then none
  else if x < PcGen.piTiny.size then some (piTinyTbl x)
  else (t.words.getD (x / 240) none).map fun w => wordLookup w x

/-! ### SegmentedPiTable -/

structure SegPi where
  low : Nat := 0
  high : Nat := 0
  words : Array (Nat × Nat) := #[]
deriving Repr

/-- `SegmentedPiTable::operator[](x)`; `none` when an ASSERT (`low_ ≤ x < high_`) is violated -/
def SegPi.get (s : SegPi) (x : Nat) : Option Nat :=
  if x < s.low ∨ s.high ≤ x then none
  else if x < PcGen.piTiny.size then some (piTinyTbl x)
  else some (wordLookup (s.words.getD ((x - s.low) / 240) (0, 0)) (x - s.low))

/-- `init_bits()` on zeroed words -/
def segInitBits (gen : PrimeGen) (low high : Nat) (ws : Array (Nat × Nat)) : Array (Nat × Nat) :=
  let lo := max low 7
  if lo ≥ high then ws else
  (gen lo high).foldl (fun a p =>
      let q := p - low
      a.modify (q / 240) fun (c, b) => (c, b ||| setBitTbl (q % 240))) ws

/-- `init_count(pi_low)` -/
def segCountLoop (ws : Array (Nat × Nat)) (i : Nat) : Nat → Nat → Array (Nat × Nat)
  | 0, _ => ws
  | n + 1, piLow =>
    let b := (ws.getD i (0, 0)).2
    segCountLoop (ws.setIfInBounds i (piLow, b)) (i + 1) n (piLow + popcount64 b)

/-- `SegmentedPiTable::init(low, high)`; `none` when an ASSERT (`low < high`, `low % 240 == 0`) is violated.
    `piNoprint` stands for `pi_noprint(·, 1)`. -/
def SegPi.init (piNoprint : Nat → Nat) (gen : PrimeGen) (s : SegPi) (low high : Nat) : Option SegPi :=
  if ¬ (low < high) ∨ low % 240 ≠ 0 then none else
  let piLow? : Option Nat :=
    if low ≤ 5 then some (piTinyTbl 5)
    else if low = s.high then s.get (low - 1)
    else some (piNoprint (low - 1))
  piLow?.map fun piLow =>
    let size := ceilDiv (high - low) 240
    let ws := Array.replicate size (0, 0)
    let ws := segInitBits gen low high ws
    ⟨low, high, segCountLoop ws 0 size piLow⟩

/-- a whole history of `init(low, high)` calls (`none` as soon as one violates an ASSERT) -/
def SegPi.run (piNoprint : Nat → Nat) (gen : PrimeGen) : List (Nat × Nat) → SegPi → Option SegPi
  | [], s => some s
  | (lo, hi) :: rest, s => (s.init piNoprint gen lo hi).bind (SegPi.run piNoprint gen rest)

/-! ### BaseFactorTable -/

def coprimeTbl (i : Nat) : Nat := PcGen.coprime.getD i 0
def coprimeIndexTbl (r : Nat) : Int := PcGen.coprimeIndexes.getD r 0

/-- `to_index(number)` (`number > 0`) -/
def ftToIndex (n : Nat) : Int := 480 * (n / 2310 : Nat) + coprimeIndexTbl (n % 2310)

/-- `to_number(index)` -/
def ftToNumber (i : Nat) : Nat := 2310 * (i / 480) + coprimeTbl (i % 480)

/-- `first_coprime()` = `to_number(1)` = 13 -/
def ftFirstCoprime : Nat := ftToNumber 1

/-- `next_multiple(prime, low, &index)`: returns `(multiple, index')`.
    `fuel` bounds the `for (; multiple < low; i++)` loop. -/
def ftNextMultiple (prime low index : Nat) : Nat × Nat :=
  let quotient := ceilDiv low prime
  let i := max (index : Int) (ftToIndex quotient) |>.toNat
  let rec go : Nat → Nat → Nat → Nat × Nat
    | 0, i, m => (m, i)
    | fuel + 1, i, m => if m < low then go fuel (i + 1) (prime * ftToNumber i) else (m, i)
  go (low + 2) i 0

/-- a FactorTable entry array: `none` = never written -/
abbrev FtArr := Array (Option Nat)

/-- `std::fill_n(&factor_[low_idx], size, T_MAX)` -/
def ftFill (a : FtArr) (lowIdx size tmax : Nat) : FtArr :=
  (List.range size).foldl (fun a k => a.setIfInBounds (lowIdx + k) (some tmax)) a

/-- the loop `for (; multiple <= high; multiple = prime * to_number(i++))` with body `f` -/
def ftMultLoop (prime high : Nat) (f : FtArr → Nat → FtArr) : Nat → Nat → Nat → FtArr → FtArr
  | 0, _, _, a => a
  | fuel + 1, multiple, i, a =>
    if multiple ≤ high then ftMultLoop prime high f fuel (prime * ftToNumber i) (i + 1) (f a multiple) else a

/-- body of the first loop: lpf on first touch, parity toggle afterwards (`(T) prime` truncates to `tbits`) -/
def ftMark (tmax : Nat) (prime : Nat) (a : FtArr) (multiple : Nat) : FtArr :=
  a.modify (ftToIndex multiple).toNat fun e => e.map fun v =>
    if v = tmax then prime % (tmax + 1) else if v ≠ 0 then v ^^^ 1 else v

/-- body of the square / "> y" loops: `factor_[to_index(multiple)] = 0` -/
def ftZero (a : FtArr) (multiple : Nat) : FtArr := a.setIfInBounds (ftToIndex multiple).toNat (some 0)

/-- both inner loops for one prime: mark its multiples `prime * q` (`q ≥ 13` coprime), then, if
    `prime ≤ sqrt`, zero the multiples of its square -/
def ftPrimeStep (tmax low high sqrtLim : Nat) (a : FtArr) (prime : Nat) : FtArr :=
  let mi := ftNextMultiple prime low 1
  let a := ftMultLoop prime high (ftMark tmax prime) (high + 1) mi.1 mi.2 a
  if prime ≤ sqrtLim then
    let mj := ftNextMultiple (prime * prime) low 0
    ftMultLoop (prime * prime) high ftZero (high + 1) mj.1 mj.2 a
  else a

/-- the `while (true)` loop over the primes `13 ≤ prime`, `prime * 13 ≤ high` of one thread -/
def ftSieveThread (gen : PrimeGen) (tmax low high sqrtLim : Nat) (a : FtArr) : FtArr :=
  (gen ftFirstCoprime (high / ftFirstCoprime + 1)).foldl (ftPrimeStep tmax low high sqrtLim) a

/-- `FactorTable::max()` = `(T_MAX - 1)^2 - 1` -/
def ftMax (tmax : Nat) : Nat := (tmax - 1) * (tmax - 1) - 1

/-- thread count and `thread_distance` (a multiple of 2310) -/
def ftThreadParams (y : Nat) (threads : Int) : Nat × Nat :=
  let thr := (idealNumThreads y threads 10000000).toNat
  let td := ceilDiv y thr
  (thr, td + (PcGen.coprimeIndexes.size - td % PcGen.coprimeIndexes.size))

/-- `[low, high]` of thread `t` -/
def ftThreadRange (y td t : Nat) : Nat × Nat :=
  (max ftFirstCoprime (td * t + 1), min (td * t + td) y)

/-- body of the `omp parallel for` of the (repaired) FactorTable constructor for thread `t` -/
def ftThreadStep (gen : PrimeGen) (tmax y td sqrty : Nat) (a : FtArr) (t : Nat) : FtArr :=
  let r := ftThreadRange y td t
  if r.1 ≤ r.2 then
    let lowIdx := (ftToIndex r.1).toNat
    let a := ftFill a lowIdx ((ftToIndex r.2).toNat + 1 - lowIdx) tmax
    if ftFirstCoprime * ftFirstCoprime ≤ r.2 then ftSieveThread gen tmax r.1 r.2 sqrty a else a
  else a

/-- `FactorTable<T>::FactorTable(y, threads)` with the F3 repair (the `fill_n` precedes the `min_m` test,
    as in FactorTableD). `tmax = numeric_limits<T>::max()`. `none` = `primecount_error` thrown. -/
def factorTableNew (gen : PrimeGen) (tmax : Nat) (y : Int) (threads : Int) : Option FtArr :=
  if y > ftMax tmax then none else
  let y := (max 1 y).toNat
  let a0 : FtArr := (Array.replicate ((ftToIndex y).toNat + 1) none).setIfInBounds 0 (some (tmax ^^^ 1))
  let p := ftThreadParams y threads
  some ((List.range p.1).foldl (ftThreadStep gen tmax y p.2 (Nat.sqrt y)) a0)

/-- the un-repaired constructor of the pinned tree (fill inside the `min_m <= high` test): used only by
    the witness search of F3, never by a theorem -/
def factorTableNewPinned (gen : PrimeGen) (tmax : Nat) (y : Int) (threads : Int) : Option FtArr :=
  if y > ftMax tmax then none else
  let y := (max 1 y).toNat
  let a0 : FtArr := (Array.replicate ((ftToIndex y).toNat + 1) none).setIfInBounds 0 (some (tmax ^^^ 1))
  let sqrty := Nat.sqrt y
  let (thr, td) := ftThreadParams y threads
  some <| (List.range thr).foldl (fun a t =>
      let (low, high) := ftThreadRange y td t
      if low ≤ high ∧ ftFirstCoprime * ftFirstCoprime ≤ high then
        let lowIdx := (ftToIndex low).toNat
        let a := ftFill a lowIdx ((ftToIndex high).toNat + 1 - lowIdx) tmax
        ftSieveThread gen tmax low high sqrty a
      else a) a0

/-- one prime `> y` of the second phase: `factor_[to_index(prime * q)] = 0` for every coprime `q ≥ 1` -/
def ftdZeroStep (low high : Nat) (a : FtArr) (prime : Nat) : FtArr :=
  let mi := ftNextMultiple prime low 0
  ftMultLoop prime high ftZero (high + 1) mi.1 mi.2 a

/-- second phase of FactorTableD: primes in `[start, high]` (`start = max(13, y + 1)`) zero all their
    multiples (including themselves) -/
def ftdZeroThread (gen : PrimeGen) (start low high : Nat) (a : FtArr) : FtArr :=
  if start ≤ high then (gen start (high + 1)).foldl (ftdZeroStep low high) a else a

/-- body of the `omp parallel for` of the FactorTableD constructor for thread `t` -/
def ftdThreadStep (gen : PrimeGen) (tmax z td sqrtz start : Nat) (a : FtArr) (t : Nat) : FtArr :=
  let r := ftThreadRange z td t
  if r.1 ≤ r.2 then
    let lowIdx := (ftToIndex r.1).toNat
    let a := ftFill a lowIdx ((ftToIndex r.2).toNat + 1 - lowIdx) tmax
    let a := if ftFirstCoprime * ftFirstCoprime ≤ r.2 then ftSieveThread gen tmax r.1 r.2 sqrtz a else a
    ftdZeroThread gen start r.1 r.2 a
  else a

/-- `FactorTableD<T>::FactorTableD(y, z, threads)` -/
def factorTableDNew (gen : PrimeGen) (tmax : Nat) (y z : Int) (threads : Int) : Option FtArr :=
  if z > ftMax tmax then none else
  let z := (max 1 z).toNat
  let a0 : FtArr := (Array.replicate ((ftToIndex z).toNat + 1) none).setIfInBounds 0 (some (tmax ^^^ 1))
  let p := ftThreadParams z threads
  some ((List.range p.1).foldl
    (ftdThreadStep gen tmax z p.2 (Nat.sqrt z) (max (ftFirstCoprime : Int) (y + 1)).toNat) a0)

/-! ### generate_pi / generate_lpf / generate_moebius / generate_mpf (plain sieves, `max ≥ 0`) -/

/-- `for (j = start; j < size; j += step) a[j] = f a[j]` -/
def strideLoop {α} (f : α → α) (size step : Nat) : Nat → Nat → Array α → Array α
  | 0, _, a => a
  | fuel + 1, j, a => if j < size then strideLoop f size step fuel (j + step) (a.modify j f) else a

/-- `generate_pi(max)` -/
def generatePi (mx : Nat) : Array Nat :=
  let size := mx + 1
  let sq := Nat.sqrt mx
  let sieve : Array Bool := Array.replicate size true
  let sieve := (List.range (sq + 1 - 2)).foldl (fun s k =>
      let i := k + 2
      if s.getD i false then strideLoop (fun _ => false) size i size (i * i) s else s) sieve
  let rec go : Nat → Nat → Nat → Array Nat → Array Nat
    | 0, _, _, acc => acc
    | fuel + 1, i, pix, acc =>
      let pix' := if sieve.getD i false then pix + 1 else pix
      go fuel (i + 1) pix' (acc.setIfInBounds i pix')
  go (size - 2) 2 0 (Array.replicate size 0)

def int32Max : Nat := 2147483647

/-- `generate_lpf(max)` -/
def generateLpf (mx : Nat) : Array Nat :=
  let size := mx + 1
  let sq := Nat.sqrt mx
  let a : Array Nat := Array.replicate size 1
  let a := if size > 1 then a.setIfInBounds 1 int32Max else a
  let a := (List.range (sq + 1 - 2)).foldl (fun a k =>
      let i := k + 2
      if a.getD i 0 == 1 then strideLoop (fun v => if v == 1 then i else v) size i size (i * i) a else a) a
  (List.range (size - 2)).foldl (fun a k =>
      let i := k + 2
      if a.getD i 0 == 1 then a.setIfInBounds i i else a) a

/-- `generate_moebius(max)` (the intermediate products stay within int32 because a product of distinct
    primes dividing `j` is at most `j`) -/
def generateMoebius (mx : Nat) : Array Int :=
  let size := mx + 1
  let sq := Nat.sqrt mx
  let mu : Array Int := Array.replicate size 1
  let mu := (List.range (sq + 1 - 2)).foldl (fun mu k =>
      let i : Nat := k + 2
      if mu.getD i 0 == 1 then
        let mu := strideLoop (fun v => v * (-(i : Int))) size i size i mu
        strideLoop (fun _ => (0 : Int)) size (i * i) size (i * i) mu
      else mu) mu
  (List.range (size - 2)).foldl (fun mu k =>
      let i : Nat := k + 2
      let v := mu.getD i 0
      let v' : Int := if v == (i : Int) then 1 else if v == -(i : Int) then -1 else if v < 0 then 1 else if v > 0 then -1 else v
      mu.setIfInBounds i v') mu

/-- `generate_mpf(max)` -/
def generateMpf (mx : Nat) : Array Nat :=
  let size := mx + 1
  (List.range (mx + 1 - 2)).foldl (fun a k =>
      let i := k + 2
      if a.getD i 0 == 1 then strideLoop (fun _ => i) size i size i a else a) (Array.replicate size 1)

/-! ### BinaryIndexedTree -/

structure Bit where
  size : Nat := 0
  tree : Array Int := #[]
deriving Repr

/-- inner loop of `init`: `for (j = i; k >>= 1; j &= j - 1) tree_[i] += tree_[j - 1]` -/
def bitInitInner (tree : Array Int) (i : Nat) : Nat → Nat → Nat → Array Int
  | 0, _, _ => tree
  | fuel + 1, k, j =>
    let k := k / 2
    if k = 0 then tree else
    bitInitInner (tree.modify i (· + tree.getD (j - 1) 0)) i fuel k (j &&& (j - 1))

/-- `BinaryIndexedTree::init(sieve)`; `sieve` as 0/1 values -/
def Bit.init (sieve : Array Nat) : Bit :=
  let size := sieve.size / 2
  let tree := (List.range size).foldl (fun (tree : Array Int) i =>
      let tree := tree.setIfInBounds i (sieve.getD (i * 2) 0 : Nat)
      -- (i + 1) & ~i = lowest zero bit of i = lowest set bit of i + 1
      let k := (i + 1) &&& ((2 ^ 64 - 1) ^^^ i)
      bitInitInner tree i 64 k i) (Array.replicate size (0 : Int))
  ⟨size, tree⟩

/-- `update(pos)`; `none` when the first access is out of bounds -/
def Bit.update (b : Bit) (pos : Nat) : Option Bit :=
  let p := pos / 2
  if p ≥ b.size then none else
  let rec go : Nat → Nat → Array Int → Array Int
    | 0, _, t => t
    | fuel + 1, p, t =>
      let t := t.modify p (· - 1)
      let p := p ||| (p + 1)
      if p < b.size then go fuel p t else t
  some { b with tree := go 64 p b.tree }

/-- `count(low, high)`; `none` when out of bounds -/
def Bit.count (b : Bit) (low high : Nat) : Option Int :=
  if high < low then none else
  let pos := (high - low) / 2
  if pos ≥ b.size then none else
  let rec go : Nat → Nat → Int → Int
    | 0, _, s => s
    | fuel + 1, pos, s =>
      let pos := pos &&& (pos - 1)
      if pos ≠ 0 then go fuel pos (s + b.tree.getD (pos - 1) 0) else s
  some (go 64 (pos + 1) (b.tree.getD pos 0))

end Pc
