import PcModel.Driver
def main : IO Unit := Pc.driverMain
