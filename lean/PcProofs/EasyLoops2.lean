/-
C08 (wp-easy), part 2: one iteration `b` of `S2_easy_OpenMP`, the parallel region, and the entry points.

* `easyKernel_eq`, `easyLeaves_eq`   (clustered part, sparse part) of level `b`, and their sum `easyB x y z b`;
* `reduceE_perm`                      the `reduction(+: sum)` over ANY distribution of the iterations;
* `s2EasyOpenMP_eq_NT`, `s2EasyOpenMP_eq`    S2_easy.cpp = `NT.S2easy` (general `z`) = `Spec.S2_easy` (`z = x / y`);
* `s2EasyLibdivide_eq_NT`, `s2EasyLibdivide_eq`  the same for S2_easy_libdivide.cpp (64/128 dispatch per `b`).
-/
import PcProofs.EasyLoops

namespace Pc.Easy
open Nat Finset Classical
open scoped Nat.Prime

variable {t : NT}

theorem localTy_max (k : Kern) : ITy.i64.maxVal ≤ k.localTy.maxVal := by
  unfold Kern.localTy
  split_ifs
  · decide
  · exact le_rfl

/-- the easy leaves of level `b` (`q = p b`): prime indices `i` with `max(q, z/q) < p i ≤ min(x/q², y)`, each worth
    `π(x / (q · p i)) - b + 2` -/
noncomputable def easyB (x y z b : ℕ) : ℤ :=
  ∑ i ∈ Ioc (π (inBetweenN (Spec.p b) (z / Spec.p b) y)) (π (min (x / Spec.p b / Spec.p b) y)), val (x / Spec.p b) b i

/-- clustered part + sparse part = all easy leaves of the level, as soon as the clustered loop is either empty or starts
    above the sparse bound -/
theorem parts_sum {f : ℕ → ℤ} {ms mc mt : ℕ} (h : ms ≤ mc ∨ mt ≤ mc) :
    ∑ i ∈ Ioc mc mt, f i + ∑ i ∈ Ioc ms (min mt mc), f i = ∑ i ∈ Ioc ms mt, f i := by
  by_cases h1 : mt ≤ mc
  · rw [Finset.Ioc_eq_empty (by omega), min_eq_left h1]; simp
  · have h2 : ms ≤ mc := by omega
    rw [min_eq_right (by omega), add_comm, Finset.sum_Ioc_consecutive _ h2 (by omega)]

/-- **one level**: `S2_easy_64` / `S2_easy_128` / the loop body of S2_easy.cpp for `prime = p b`, `xp`:
    * `hcube`  `prime² ≤ xp` (true for `b ≤ π ⌊x^(1/3)⌋`),
    * `hread`  every `xp / q'` looked up by the sparse loop is inside `PiTable pi(y)`,
    * `hs`     `⌊√xp⌋` fits `int64_t`. -/
theorem easyKernel_eq (k : Kern) (hv : t.Valid) {y z b xp : ℕ} (hy : y ≤ t.bound) (hy63 : y ≤ ITy.i64.maxVal)
    (hb1 : 1 ≤ b) (hby : b ≤ π y) (hcube : Spec.p b * Spec.p b ≤ xp) (hs : Nat.sqrt xp ≤ ITy.i64.maxVal)
    (hread : ∀ q', z / Spec.p b < q' → q' ≤ y → xp / q' ≤ y) :
    easyKernel k t (π y + 1) y z b (Spec.p b) xp
      = .ok (∑ i ∈ Ioc (π (inBetweenN (Spec.p b) (Nat.sqrt xp) y)) (π (min (xp / Spec.p b) y)), val xp b i,
             ∑ i ∈ Ioc (π (inBetweenN (Spec.p b) (z / Spec.p b) y))
               (min (π (min (xp / Spec.p b) y)) (π (inBetweenN (Spec.p b) (Nat.sqrt xp) y))), val xp b i) := by
  have hq2 := Spec.two_le_p b
  have hqy : Spec.p b ≤ y := (Spec.p_le_iff hb1).2 hby
  have hqs : Spec.p b ≤ Nat.sqrt xp := Nat.le_sqrt.2 hcube
  have h63 : ITy.i64.maxVal = 2 ^ 63 - 1 := by decide
  have hy63' : y ≤ 2 ^ 63 := by omega
  set mt := min (xp / Spec.p b) y with hmt
  set mc := inBetweenN (Spec.p b) (Nat.sqrt xp) y with hmc
  set ms := inBetweenN (Spec.p b) (z / Spec.p b) y with hms
  have hmty : mt ≤ y := min_le_right _ _
  have hmcy : mc ≤ y := by rw [hmc, inBetweenN_eq hqy]; exact min_le_right _ _
  have hmsy : ms ≤ y := by rw [hms, inBetweenN_eq hqy]; exact min_le_right _ _
  -- `b ≤ π(xp / p i)` for every index the loops visit
  have hlow : ∀ i, 1 ≤ i → i ≤ π mt → b ≤ π (xp / Spec.p i) := by
    intro i hi1 hi
    have h1 : Spec.p i ≤ mt := (Spec.p_le_iff hi1).2 hi
    have h2 : Spec.p i ≤ xp / Spec.p b := le_trans h1 (min_le_left _ _)
    have h3 : Spec.p i * Spec.p b ≤ xp := (Nat.le_div_iff_mul_le (Spec.p_pos b)).1 h2
    have h4 : Spec.p b ≤ xp / Spec.p i := by
      rw [Nat.le_div_iff_mul_le (Spec.p_pos i), mul_comm]; exact h3
    have := Spec.pi_mono h4
    rwa [Spec.pi_p hb1] at this
  -- the sparse loop's reads
  have hsp : ∀ l, l ≤ π mt → ∀ i, π ms < i → i ≤ l → xp / Spec.p i ≤ y ∧ b ≤ π (xp / Spec.p i) := by
    intro l hl i hi1 hi2
    have hi0 : 1 ≤ i := by omega
    refine ⟨?_, hlow i hi0 (by omega)⟩
    have h1 : ms < Spec.p i := (Spec.lt_p_iff hi0).2 hi1
    have h2 : Spec.p i ≤ y := le_trans ((Spec.p_le_iff hi0).2 (le_trans hi2 hl)) hmty
    apply hread _ _ h2
    rw [hms, inBetweenN_eq hqy] at h1
    rcases le_total (max (Spec.p b) (z / Spec.p b)) y with h | h
    · rw [min_eq_left h] at h1; exact lt_of_le_of_lt (le_max_right _ _) h1
    · rw [min_eq_right h] at h1; omega
  unfold easyKernel
  rw [divE_ok (by omega), EM_bind_ok, isqrtN_eq, narrowE_ok (le_trans hs (localTy_max k)), EM_bind_ok,
    divE_ok (by omega), EM_bind_ok]
  simp only []
  rw [← hmt, ← hmc, ← hms, piGet_ok hv hmty (le_trans hmty hy), EM_bind_ok, piGet_ok hv hmcy (le_trans hmcy hy),
    EM_bind_ok, piGet_ok hv hmsy (le_trans hmsy hy), EM_bind_ok]
  by_cases hA : π mt ≤ π mc
  · rw [clustered_skip _ _ _ _ _ _ _ _ _ hA, EM_bind_ok]
    simp only []
    rw [sparse_eq k hv hy hy63' (π mt) 0 (Spec.pi_mono hmty) (hsp _ le_rfl), EM_bind_ok,
      Finset.Ioc_eq_empty_of_le hA, min_eq_left hA]
    simp
  · -- the clustered loop runs: `min_clustered = ⌊√xp⌋ < y`
    have hlt : π mc < π mt := by omega
    have hmcs : mc = Nat.sqrt xp := by
      rw [hmc, inBetweenN_eq hqy, max_eq_right hqs]
      apply min_eq_left
      by_contra hcon
      push Not at hcon
      rw [hmc, inBetweenN_eq hqy, max_eq_right hqs, min_eq_right hcon.le] at hlt
      have := Spec.pi_mono hmty
      omega
    rw [hmcs] at hlt ⊢
    rw [clustered_eq k hv hy hy63' (π mt) 0 hlt.le (Spec.pi_mono hmty) hlow, EM_bind_ok]
    simp only []
    rw [sparse_eq k hv hy hy63' (π (Nat.sqrt xp)) 0 (le_trans hlt.le (Spec.pi_mono hmty)) (hsp _ hlt.le), EM_bind_ok,
      min_eq_right hlt.le]
    simp

/-- `z ≤ x / y` makes the sparse bound lie at or below the clustered bound whenever the clustered loop can run -/
theorem sparse_le_clustered {x y z b : ℕ} (hb1 : 1 ≤ b) (hby : b ≤ π y)
    (hcube : Spec.p b * Spec.p b ≤ x / Spec.p b) (hz : z ≤ x / y) :
    π (inBetweenN (Spec.p b) (z / Spec.p b) y) ≤ π (inBetweenN (Spec.p b) (Nat.sqrt (x / Spec.p b)) y) ∨
    π (min (x / Spec.p b / Spec.p b) y) ≤ π (inBetweenN (Spec.p b) (Nat.sqrt (x / Spec.p b)) y) := by
  have hqy : Spec.p b ≤ y := (Spec.p_le_iff hb1).2 hby
  have hq0 := Spec.p_pos b
  have hy0 : 0 < y := lt_of_lt_of_le hq0 hqy
  set xp := x / Spec.p b with hxp
  have hqs : Spec.p b ≤ Nat.sqrt xp := Nat.le_sqrt.2 hcube
  rw [inBetweenN_eq hqy, inBetweenN_eq hqy, max_eq_right hqs]
  by_cases hsy : y ≤ Nat.sqrt xp
  · right
    rw [min_eq_right hsy]
    exact Spec.pi_mono (min_le_right _ _)
  · left
    push Not at hsy
    apply Spec.pi_mono
    rw [min_eq_left hsy.le]
    apply le_trans (min_le_left _ _)
    apply max_le hqs
    -- z / q ≤ x / y / q = xp / y ≤ √xp
    have h1 : z / Spec.p b ≤ xp / y := by
      calc z / Spec.p b ≤ x / y / Spec.p b := Nat.div_le_div_right hz
        _ = xp / y := by rw [hxp, Nat.div_div_eq_div_mul, Nat.div_div_eq_div_mul, mul_comm]
    apply le_trans h1
    apply Nat.le_of_lt_succ
    rw [Nat.div_lt_iff_lt_mul hy0]
    calc xp < (Nat.sqrt xp + 1) * (Nat.sqrt xp + 1) := Nat.lt_succ_sqrt xp
      _ ≤ (Nat.sqrt xp + 1) * y := Nat.mul_le_mul_left _ hsy

/-- the sparse loop's `pi[·]` reads are in bounds when `x / (z + 1) ≤ y` -/
theorem sparse_reads {x y z q : ℕ} (hq : 0 < q) (hoob : x / (z + 1) ≤ y) :
    ∀ q', z / q < q' → q' ≤ y → x / q / q' ≤ y := by
  intro q' h1 _
  have h2 : z < q' * q := (Nat.div_lt_iff_lt_mul hq).1 h1
  rw [Nat.div_div_eq_div_mul]
  apply le_trans _ hoob
  apply Nat.div_le_div_left _ (by omega)
  rw [mul_comm]; omega

/-- **one iteration of the parallel loop** (S2_easy.cpp:68-107): `clustered + sparse = easyB x y z b` -/
theorem easyLeaves_eq (k : Kern) (hv : t.Valid) {x y z b : ℕ} (hy : y ≤ t.bound) (hy63 : y ≤ ITy.i64.maxVal)
    (hx : x < 2 ^ 127) (hb1 : 1 ≤ b) (hby : b ≤ π y) (hcube : Spec.p b * Spec.p b * Spec.p b ≤ x)
    (hoob : x / (z + 1) ≤ y) (hz : z ≤ x / y) :
    ∃ sc ss : ℤ, easyLeaves k t (π y + 1) x y z b = .ok (sc, ss) ∧ sc + ss = easyB x y z b := by
  have hq2 := Spec.two_le_p b
  have hq0 := Spec.p_pos b
  have hcube' : Spec.p b * Spec.p b ≤ x / Spec.p b := (Nat.le_div_iff_mul_le hq0).2 hcube
  have hs : Nat.sqrt (x / Spec.p b) ≤ ITy.i64.maxVal := by
    have h63 : ITy.i64.maxVal = 2 ^ 63 - 1 := by decide
    have h1 : x / Spec.p b < 2 ^ 63 * 2 ^ 63 := by
      have : x / Spec.p b ≤ x / 2 := Nat.div_le_div_left hq2 (by omega)
      omega
    have := Nat.sqrt_lt.2 h1
    omega
  refine ⟨_, _, ?_, parts_sum (sparse_le_clustered hb1 hby hcube' hz)⟩
  unfold easyLeaves
  rw [primesGet_ok hv hb1 (by omega) (le_trans hby (Spec.pi_mono hy)), EM_bind_ok, divE_ok (by omega), EM_bind_ok]
  exact easyKernel_eq k hv hy hy63 hb1 hby hcube' hs (sparse_reads hq0 hoob)

/-! ### the parallel region -/

theorem foldlM_add_eq {body : ℕ → ℤ → EM ℤ} {v : ℕ → ℤ} :
    ∀ (its : List ℕ) (acc : ℤ), (∀ b ∈ its, ∀ s, body b s = .ok (s + v b)) →
      its.foldlM (fun acc b => body b acc) acc = .ok (acc + (its.map v).sum) := by
  intro its
  induction its with
  | nil => intro acc _; simp
  | cons b bs ih =>
    intro acc h
    rw [List.foldlM_cons, h b (List.mem_cons_self ..) acc, EM_bind_ok,
      ih _ (fun b' hb' => h b' (List.mem_cons_of_mem _ hb')), List.map_cons, List.sum_cons]
    congr 1; ring

theorem threadRun_eq {body : ℕ → ℤ → EM ℤ} {v : ℕ → ℤ} (its : List ℕ)
    (h : ∀ b ∈ its, ∀ s, body b s = .ok (s + v b)) : threadRun body its = .ok ((its.map v).sum) := by
  unfold threadRun
  rw [foldlM_add_eq its 0 h, zero_add]

theorem reduceE_eq {body : ℕ → ℤ → EM ℤ} {v : ℕ → ℤ} :
    ∀ (sched : List (List ℕ)) (init : ℤ), (∀ b ∈ sched.flatten, ∀ s, body b s = .ok (s + v b)) →
      reduceE init body sched = .ok (init + (sched.flatten.map v).sum) := by
  intro sched
  induction sched with
  | nil => intro init _; simp [reduceE]
  | cons its rest ih =>
    intro init h
    have h1 : ∀ b ∈ its, ∀ s, body b s = .ok (s + v b) :=
      fun b hb => h b (by rw [List.flatten_cons]; exact List.mem_append_left _ hb)
    have h2 : ∀ b ∈ rest.flatten, ∀ s, body b s = .ok (s + v b) :=
      fun b hb => h b (by rw [List.flatten_cons]; exact List.mem_append_right _ hb)
    have := ih (init + (its.map v).sum) h2
    unfold reduceE at this ⊢
    rw [List.foldlM_cons, threadRun_eq its h1, EM_bind_ok, EM_pure, EM_bind_ok, this, List.flatten_cons,
      List.map_append, List.sum_append]
    congr 1; ring

/-- **thread independence**: for EVERY distribution of the iterations `lo … hi` (whichever thread fetched which `b`
    from the atomic counter) the region computes `init + Σ_{lo ≤ b ≤ hi} v b` -/
theorem reduceE_perm {body : ℕ → ℤ → EM ℤ} {v : ℕ → ℤ} {c a : ℕ} {sched : List (List ℕ)}
    (hs : IsSchedule (c + 1) a sched) (init : ℤ)
    (h : ∀ b, c < b → b ≤ a → ∀ s, body b s = .ok (s + v b)) :
    reduceE init body sched = .ok (init + ∑ b ∈ Ioc c a, v b) := by
  rw [reduceE_eq sched init, (hs.map v).sum_eq, sum_range'_eq]
  intro b hb s
  have := (hs.mem_iff).1 hb
  rw [List.mem_range'_1] at this
  exact h b (by omega) (by omega) s

/-! ### the defining sum -/

/-- the executable defining sum `NT.S2easy` is the sum of the per-level sums -/
theorem NT_S2easy_eq_sum (hv : t.Valid) {x y z c : ℕ} (hy : y ≤ t.bound) (hc3 : irootN 3 x ≤ y)
    (hoob : x / (z + 1) ≤ y) :
    t.S2easy x y z c = ∑ b ∈ Ioc (max c (π (Nat.sqrt y))) (π (irootN 3 x)), easyB x y z b := by
  have hc3B : irootN 3 x ≤ t.bound := le_trans hc3 hy
  have hsy : Nat.sqrt y ≤ t.bound := le_trans (Nat.sqrt_le_self y) hy
  unfold NT.S2easy
  simp only [isqrtN_eq]
  rw [hv.piOf_eq _ hsy, hv.piOf_eq _ hc3B]
  set b0 := max c (π (Nat.sqrt y)) with hb0
  rw [sumInt_map_range_sub b0 (π (irootN 3 x)) (fun b =>
    sumInt ((t.primesIn (min (max (t.p b) (z / t.p b)) y) (min (x / (t.p b * t.p b)) y)).map
      fun l => (t.piOf (x / (t.p b * l)) : ℤ) - b + 2))]
  apply Finset.sum_congr rfl
  intro b hb
  rw [mem_Ioc] at hb
  have hb1 : 1 ≤ b := by omega
  have hby : b ≤ π y := le_trans hb.2 (Spec.pi_mono hc3)
  have hbB : b ≤ π t.bound := le_trans hb.2 (Spec.pi_mono hc3B)
  have hqy : Spec.p b ≤ y := (Spec.p_le_iff hb1).2 hby
  have hq0 := Spec.p_pos b
  simp only [hv.p_eq b hb1 hbB]
  rw [NT.sum_primesIn hv (le_trans (min_le_right _ _) hy)]
  unfold easyB
  rw [inBetweenN_eq hqy, Nat.div_div_eq_div_mul]
  apply Finset.sum_congr rfl
  intro i hi
  rw [mem_Ioc] at hi
  have hi1 : 1 ≤ i := by omega
  unfold val
  rw [Nat.div_div_eq_div_mul]
  have h1 : min (max (Spec.p b) (z / Spec.p b)) y < Spec.p i := (Spec.lt_p_iff hi1).2 hi.1
  have h2 : Spec.p i ≤ y := le_trans ((Spec.p_le_iff hi1).2 hi.2) (min_le_right _ _)
  have h3 : z / Spec.p b < Spec.p i := by
    rcases le_total (max (Spec.p b) (z / Spec.p b)) y with h | h
    · rw [min_eq_left h] at h1; exact lt_of_le_of_lt (le_max_right _ _) h1
    · rw [min_eq_right h] at h1; omega
  have h4 := sparse_reads hq0 hoob _ h3 h2
  rw [Nat.div_div_eq_div_mul] at h4
  rw [hv.piOf_eq _ (le_trans h4 hy)]

/-! ### the entry points -/

theorem cube_le_of_le_iroot3 {x b : ℕ} (hb1 : 1 ≤ b) (hb : b ≤ π (irootN 3 x)) :
    Spec.p b * Spec.p b * Spec.p b ≤ x := by
  have h1 : Spec.p b ≤ irootN 3 x := (Spec.p_le_iff hb1).2 hb
  calc Spec.p b * Spec.p b * Spec.p b = Spec.p b ^ 3 := by ring
    _ ≤ irootN 3 x ^ 3 := Nat.pow_le_pow_left h1 3
    _ ≤ x := (irootN_spec 3 x (by omega)).1

/-- **S2_easy.cpp**: `S2_easy_OpenMP = NT.S2easy x y z c` for every `z` with `x / (z + 1) ≤ y` (reads in bounds) and
    `z ≤ x / y` (the clustered loop only meets easy leaves), every distribution of the iterations -/
theorem s2EasyOpenMP_eq_NT (hv : t.Valid) {w : ITy} {x y z c : ℕ} (hy : y ≤ t.bound)
    (hy63 : y ≤ ITy.i64.maxVal) (hx : x < 2 ^ 127) (hc3 : irootN 3 x ≤ y) (hoob : x / (z + 1) ≤ y) (hz : z ≤ x / y)
    {sched : List (List ℕ)} (hs : IsSchedule (max c (π (Nat.sqrt y)) + 1) (π (irootN 3 x)) sched) :
    s2EasyOpenMP t w x y z c sched = .ok (t.S2easy x y z c) := by
  unfold s2EasyOpenMP
  rw [hv.piOf_eq y hy, isqrtN_eq, piGet_ok hv (Nat.sqrt_le_self y) (le_trans (Nat.sqrt_le_self y) hy), EM_bind_ok,
    piGet_ok hv hc3 (le_trans hc3 hy), EM_bind_ok,
    reduceE_perm hs 0 (v := fun b => easyB x y z b), NT_S2easy_eq_sum hv hy hc3 hoob, zero_add]
  intro b hb1 hb2 s
  have hb1' : 1 ≤ b := by omega
  have hby : b ≤ π y := le_trans hb2 (Spec.pi_mono hc3)
  obtain ⟨sc, ss, h1, h2⟩ := easyLeaves_eq (plainKern w) hv hy hy63 hx hb1' hby (cube_le_of_le_iroot3 hb1' hb2) hoob hz
  rw [h1, EM_bind_ok]
  simp only [EM_pure]
  rw [h2]

theorem div_succ_le {x y : ℕ} (hy : 1 ≤ y) : x / (x / y + 1) ≤ y := by
  apply Nat.le_of_lt_succ
  rw [Nat.div_lt_iff_lt_mul (Nat.succ_pos _)]
  calc x < y * (x / y + 1) := Nat.lt_mul_div_succ x (by omega)
    _ ≤ (y + 1) * (x / y + 1) := Nat.mul_le_mul_right _ (by omega)

/-- **S2_easy.cpp = the Deleglise-Rivat easy leaves** (`z = x / y`) -/
theorem s2EasyOpenMP_eq (hv : t.Valid) {w : ITy} {x y c : ℕ} (hy1 : 1 ≤ y) (hy : y ≤ t.bound)
    (hy63 : y ≤ ITy.i64.maxVal) (hx : x < 2 ^ 127) (hc3 : irootN 3 x ≤ y)
    {sched : List (List ℕ)} (hs : IsSchedule (max c (π (Nat.sqrt y)) + 1) (π (irootN 3 x)) sched) :
    s2EasyOpenMP t w x y (x / y) c sched = .ok (Spec.S2_easy x y c) := by
  rw [s2EasyOpenMP_eq_NT hv hy hy63 hx hc3 (div_succ_le hy1) le_rfl hs, NT.S2easy_eq hv hy1 hy hc3]

/-- one iteration of S2_easy_libdivide.cpp: whichever kernel the dispatch picks, the same value -/
theorem easyLeavesLd_eq (hv : t.Valid) {x y z b : ℕ} (hy : y ≤ t.bound) (hy63 : y ≤ ITy.i64.maxVal)
    (hx : x < 2 ^ 127) (hb1 : 1 ≤ b) (hby : b ≤ π y) (hcube : Spec.p b * Spec.p b * Spec.p b ≤ x)
    (hoob : x / (z + 1) ≤ y) (hz : z ≤ x / y) :
    ∃ sc ss : ℤ, easyLeavesLd t (π y + 1) x y z b = .ok (sc, ss) ∧ sc + ss = easyB x y z b := by
  have hq2 := Spec.two_le_p b
  have e : ∀ k, easyLeaves k t (π y + 1) x y z b = easyKernel k t (π y + 1) y z b (Spec.p b) (x / Spec.p b) := by
    intro k
    unfold easyLeaves
    rw [primesGet_ok hv hb1 (by omega) (le_trans hby (Spec.pi_mono hy)), EM_bind_ok, divE_ok (by omega), EM_bind_ok]
  unfold easyLeavesLd
  rw [primesGet_ok hv hb1 (by omega) (le_trans hby (Spec.pi_mono hy)), EM_bind_ok, divE_ok (by omega), EM_bind_ok]
  split_ifs
  · rw [← e]; exact easyLeaves_eq .ld64 hv hy hy63 hx hb1 hby hcube hoob hz
  · rw [← e]; exact easyLeaves_eq .ld128 hv hy hy63 hx hb1 hby hcube hoob hz

/-- the `lprimes[i] = primes[i]` loop never builds a branchfree divider from a number `< 2` -/
theorem lprimes_ok (hv : t.Valid) {y : ℕ} (hy : y ≤ t.bound) :
    (List.range (π y + 1 - 1)).any (fun i => decide (t.p (i + 1) < 2)) = false := by
  rw [List.any_eq_false]
  intro i hi
  rw [List.mem_range] at hi
  rw [hv.p_eq (i + 1) (by omega) (le_trans (by omega) (Spec.pi_mono hy))]
  have := Spec.two_le_p (i + 1)
  simp only [decide_eq_true_eq]; omega

/-- **S2_easy_libdivide.cpp** (what libprimecount is built from in the pinned configuration) -/
theorem s2EasyLibdivide_eq_NT (hv : t.Valid) {x y z c : ℕ} (hy : y ≤ t.bound)
    (hy63 : y ≤ ITy.i64.maxVal) (hx : x < 2 ^ 127) (hc3 : irootN 3 x ≤ y) (hoob : x / (z + 1) ≤ y) (hz : z ≤ x / y)
    {sched : List (List ℕ)} (hs : IsSchedule (max c (π (Nat.sqrt y)) + 1) (π (irootN 3 x)) sched) :
    s2EasyLibdivide t x y z c sched = .ok (t.S2easy x y z c) := by
  unfold s2EasyLibdivide
  rw [hv.piOf_eq y hy]
  simp only []
  rw [lprimes_ok hv hy]
  simp only [Bool.false_eq_true, ↓reduceIte]
  rw [isqrtN_eq, piGet_ok hv (Nat.sqrt_le_self y) (le_trans (Nat.sqrt_le_self y) hy)]
  simp only [EM_bind_ok]
  rw [piGet_ok hv hc3 (le_trans hc3 hy), EM_bind_ok,
    reduceE_perm hs 0 (v := fun b => easyB x y z b), NT_S2easy_eq_sum hv hy hc3 hoob, zero_add]
  intro b hb1 hb2 s
  have hb1' : 1 ≤ b := by omega
  have hby : b ≤ π y := le_trans hb2 (Spec.pi_mono hc3)
  obtain ⟨sc, ss, h1, h2⟩ := easyLeavesLd_eq hv hy hy63 hx hb1' hby (cube_le_of_le_iroot3 hb1' hb2) hoob hz
  rw [h1]
  simp only [EM_bind_ok]
  rw [h2]
  rfl

theorem s2EasyLibdivide_eq (hv : t.Valid) {x y c : ℕ} (hy1 : 1 ≤ y) (hy : y ≤ t.bound)
    (hy63 : y ≤ ITy.i64.maxVal) (hx : x < 2 ^ 127) (hc3 : irootN 3 x ≤ y)
    {sched : List (List ℕ)} (hs : IsSchedule (max c (π (Nat.sqrt y)) + 1) (π (irootN 3 x)) sched) :
    s2EasyLibdivide t x y (x / y) c sched = .ok (Spec.S2_easy x y c) := by
  rw [s2EasyLibdivide_eq_NT hv hy hy63 hx hc3 (div_succ_le hy1) le_rfl hs, NT.S2easy_eq hv hy1 hy hc3]

end Pc.Easy
