/-
C08 (wp-ac2), A + C part 8: the hypotheses of `acEntry_eq` from the parameter domain of `pi_gourdon` and a table that covers it.
-/
import PcProofs.EasyAC7
import PcProofs.FormulasMain

namespace Pc.Easy
open Nat Finset Classical
open scoped Nat.Prime

variable {t : NT}

/-- `GParams` for `x⋆ = get_x_star_gourdon(x, y)` (model `xStar`) on `x^(1/3) < y ≤ z ≤ √x`, `k ≤ π ⌊x^(1/4)⌋` -/
theorem gparams_xStar {x y z k : ℕ} (hy : irootN 3 x < y) (hy2 : y * y ≤ x) (hyz : y ≤ z) (hz : z * z ≤ x)
    (hk : k ≤ π (irootN 4 x)) : Spec.GParams x y z k (xStar x y) (irootN 3 x) := by
  obtain ⟨c1, c2⟩ := irootN_spec 3 x (by omega)
  obtain ⟨r1, r2⟩ := irootN_spec 4 x (by omega)
  have g := Spec.GParams.of_xstar c1 c2 r1 r2 hy hy2 hyz hz hk
  rwa [← xStar_eq g.y_pos] at g

/-- the table sizes of `AC` (`PiTable pi(max(z, isqrt(x / x⋆)))`, primes up to `max(isqrt(x / x⋆), y)`, segments below `⌊√x⌋`) are
    covered by a table reaching `z` and `⌊√x⌋` -/
theorem acBounds_of (hv : t.Valid) {w : ITy} {x y z xs : ℕ} (hx : x < 2 ^ 127) (hxw : x ≤ w.maxVal)
    (hxy63 : x / y ≤ ITy.i64.maxVal) (hs : Nat.sqrt x ≤ t.bound) (hzb : z ≤ t.bound) (h63 : t.bound ≤ ITy.i64.maxVal) :
    ACBounds t w x y z xs (Nat.sqrt (x / xs)) := by
  have h1 : Nat.sqrt (x / xs) ≤ t.bound := le_trans (Nat.sqrt_le_sqrt (Nat.div_le_self _ _)) hs
  exact ⟨hv, hx, hxw, hxy63, le_rfl, le_trans (max_le hzb h1) h63, max_le hzb h1, le_trans hs (Nat.le_succ _)⟩

/-- the C1 loop bounds of the model (`t.piOf`) are the spec's -/
theorem c1Lo_eq (hv : t.Valid) {x y z k xs : ℕ} (g : Spec.GParams x y z k xs (irootN 3 x)) (hzb : z ≤ t.bound) :
    c1Lo t x z k = max k (π (irootN 3 (x / z))) + 1 := by
  unfold c1Lo
  have hxzy : x / z < y ^ 3 := lt_of_le_of_lt (Nat.div_le_self _ _) g.hy3
  rw [hv.piOf_eq _ (le_trans (iroot3_lt hxzy).le (le_trans g.hyz hzb))]

theorem c1Hi_eq (hv : t.Valid) {z : ℕ} (hzb : z ≤ t.bound) : c1Hi t z = π (Nat.sqrt z) := by
  unfold c1Hi
  rw [isqrtN_eq, hv.piOf_eq _ (le_trans (Nat.sqrt_le_self z) hzb)]

end Pc.Easy
