/-
C06 (WP nth): the k-th `next_prime()` / `prev_prime()` of a `primesieve::iterator` (model `Pc.It`, PcModel/Iter.lean) that is
only moved in ONE direction — what `nth_prime` does — from the refill-loop lemmas of WP iter (`genNext_spec`,
`genPrevLoop_spec` / `genPrev_none`): the missing invariant over `i_` inside the buffer.

* `FwdInv s m`  : everything below `m` was delivered; the rest of the buffer (`primes_[i_+1 ..]`) holds exactly the primes of
                  `[m, nn)` and the next refill continues at `nn` (`FwdReady s nn`).
  `nextPrime_step`: under `FwdInv s m` (any hint, any float outcome, any batching, `GenSpec` core), if a prime in `[m, 2^64-1]`
                  exists, `next_prime()` returns THE SMALLEST PRIME `≥ m` and re-establishes the invariant at that prime + 1.
* `BwdInv s t`  : `primes_[0 .. i_)` holds exactly the primes of `(prevTop, t]` still to deliver, the next refill continues at `prevTop`.
  `prevPrime_step`: if a prime `≤ t` exists, `prev_prime()` returns THE LARGEST PRIME `≤ t`, invariant at that prime - 1.
-/
import PcProofs.IterRefine2

namespace Pc.It
open Nat

/-- `q` is the smallest prime `≥ m` -/
def IsNextP (m q : ℕ) : Prop := q.Prime ∧ m ≤ q ∧ ∀ x, m ≤ x → x < q → ¬ x.Prime
/-- `p` is the largest prime `≤ t` -/
def IsPrevP (t p : ℕ) : Prop := p.Prime ∧ p ≤ t ∧ ∀ x, x.Prime → x ≤ t → x ≤ p

/-- `l` lists exactly the primes of `[m, nn)`, strictly increasing -/
def Rest (l : List ℕ) (m nn : ℕ) : Prop := l.Pairwise (· < ·) ∧ ∀ x, x ∈ l ↔ x.Prime ∧ m ≤ x ∧ x < nn

/-- invariant of a forward-only run -/
def FwdInv (s : St) (m : ℕ) : Prop :=
  s.hint ≤ umax ∧ s.start ≤ umax ∧ ∃ nn, FwdReady s nn ∧ m ≤ nn ∧ Rest (s.buf.drop (s.i + 1)) m nn

theorem fwdInv_init (start hint : ℕ) (hs : start ≤ umax) (hh : hint ≤ umax) : FwdInv (init start hint) start := by
  refine ⟨hh, hs, start, fwdReady_init start hint hs, le_refl _, ?_⟩
  show Rest ([].drop 1) start start
  refine ⟨by simp, fun x => ?_⟩
  simp only [List.drop_nil, List.not_mem_nil, false_iff]
  omega

theorem nextPrime_step (e : Env) (he : GenSpec e) (s : St) (m : ℕ) (h : FwdInv s m)
    (hex : ∃ p, p.Prime ∧ m ≤ p ∧ p ≤ umax) :
    ∃ q s', nextPrime e s = .ok (q, s') ∧ IsNextP m q ∧ FwdInv s' (q + 1) := by
  obtain ⟨hh, hst, nn, hready, hmn, hsorted, hmem⟩ := h
  unfold nextPrime
  simp only []
  by_cases hi : s.i + 1 ≥ s.size
  · -- refill
    rw [if_pos hi]
    have hnil : s.buf.drop (s.i + 1) = [] := List.drop_eq_nil_of_le hi
    rw [hnil] at hmem
    obtain ⟨p, hp, hmp, hpu⟩ := hex
    have hnp : nn ≤ p := by
      by_contra hc
      have := (hmem p).2 ⟨hp, hmp, by omega⟩
      simp at this
    have hready' : FwdReady { s with i := s.i + 1 } nn := hready
    obtain ⟨s', hs', hd⟩ := (genNext_spec e he bigFuel { s with i := s.i + 1 } nn hready' (by omega) hh hst
      (fwdFuel_le_big _ _)).1 ⟨p, hp, hnp, hpu⟩
    rw [hs']
    obtain ⟨q, rest, hbuf⟩ := List.exists_cons_of_ne_nil hd.ne
    obtain ⟨L, hL⟩ : ∃ L, s'.buf.getLast? = some L := by
      rw [hbuf]; exact ⟨_, List.getLast?_eq_some_getLast (List.cons_ne_nil q rest)⟩
    obtain ⟨hP, hLstop, hgen⟩ := hd.covers L hL
    have hq0 : s'.buf[s'.i]? = some q := by rw [hd.i0, hbuf]; rfl
    simp only [hq0]
    have hqmem : q ∈ s'.buf := by rw [hbuf]; exact List.mem_cons_self
    obtain ⟨hqp, hnq, hqL⟩ := (hP.2 q).1 hqmem
    have hsorted' : (q :: rest).Pairwise (· < ·) := by rw [← hbuf]; exact hP.1
    have hqlt : ∀ y ∈ rest, q < y := (List.pairwise_cons.1 hsorted').1
    refine ⟨q, s', rfl, ⟨hqp, by omega, fun x hmx hxq hx => ?_⟩, ?_⟩
    · by_cases hxn : x < nn
      · have := (hmem x).2 ⟨hx, hmx, hxn⟩
        simp at this
      · have hxm : x ∈ s'.buf := (hP.2 x).2 ⟨hx, by omega, by omega⟩
        rw [hbuf] at hxm
        rcases List.mem_cons.1 hxm with h1 | h1
        · omega
        · have := hqlt x h1; omega
    · refine ⟨by rw [hd.hint]; exact hh, hd.start_le, L + 1,
        ⟨hd.stop_le, Or.inr ⟨_, hgen, rfl, rfl, hd.incl, by show L + 1 ≤ s'.mem.stop + 1; omega⟩⟩, by omega, ?_⟩
      have hdrop : s'.buf.drop (s'.i + 1) = rest := by rw [hd.i0, hbuf]; rfl
      rw [hdrop]
      refine ⟨(List.pairwise_cons.1 hsorted').2, fun x => ⟨fun hx => ?_, fun hx => ?_⟩⟩
      · have hxm : x ∈ s'.buf := by rw [hbuf]; exact List.mem_cons_of_mem _ hx
        obtain ⟨h1, h2, h3⟩ := (hP.2 x).1 hxm
        have := hqlt x hx
        exact ⟨h1, by omega, by omega⟩
      · obtain ⟨h1, h2, h3⟩ := hx
        have hxm : x ∈ s'.buf := (hP.2 x).2 ⟨h1, by omega, by omega⟩
        rw [hbuf] at hxm
        rcases List.mem_cons.1 hxm with h4 | h4
        · omega
        · exact h4
  · -- inside the buffer
    rw [if_neg hi]
    have hlt : s.i + 1 < s.buf.length := by unfold St.size at hi; omega
    have hcons : s.buf.drop (s.i + 1) = s.buf[s.i + 1] :: s.buf.drop (s.i + 1 + 1) := List.drop_eq_getElem_cons hlt
    rw [List.getElem?_eq_getElem hlt]
    simp only []
    generalize hq : s.buf[s.i + 1] = q at hcons
    rw [hcons] at hsorted hmem
    have hqlt : ∀ y ∈ s.buf.drop (s.i + 1 + 1), q < y := (List.pairwise_cons.1 hsorted).1
    obtain ⟨hqp, hmq, hqn⟩ := (hmem q).1 List.mem_cons_self
    refine ⟨q, { s with i := s.i + 1 }, rfl, ⟨hqp, hmq, fun x hmx hxq hx => ?_⟩, ?_⟩
    · have hxm := (hmem x).2 ⟨hx, hmx, by omega⟩
      rcases List.mem_cons.1 hxm with h1 | h1
      · omega
      · have := hqlt x h1; omega
    · refine ⟨hh, hst, nn, hready, by omega, ?_⟩
      show Rest (s.buf.drop (s.i + 1 + 1)) (q + 1) nn
      refine ⟨(List.pairwise_cons.1 hsorted).2, fun x => ⟨fun hx => ?_, fun hx => ?_⟩⟩
      · obtain ⟨h1, h2, h3⟩ := (hmem x).1 (List.mem_cons_of_mem _ hx)
        have := hqlt x hx
        exact ⟨h1, by omega, h3⟩
      · obtain ⟨h1, h2, h3⟩ := hx
        have hxm := (hmem x).2 ⟨h1, by omega, h3⟩
        rcases List.mem_cons.1 hxm with h4 | h4
        · omega
        · exact h4

/-! ### backwards -/

/-- invariant of a backward-only run: `primes_[0 .. i_)` are the entries still to deliver, all `≤ t`; every prime `≤ t` is
    among them or at most `prevTop s` (where the next refill continues) -/
def BwdInv (s : St) (t : ℕ) : Prop :=
  s.mem.gen = none ∧ s.start ≤ umax ∧ prevTop s ≤ t ∧ s.i ≤ s.buf.length ∧ s.buf.Pairwise (· < ·) ∧
  (∀ x ∈ s.buf.take s.i, x ≤ t) ∧
  (∀ x ∈ s.buf, x.Prime ∨ (x = 0 ∧ prevTop s < 2)) ∧
  (∀ x ∈ s.buf, prevTop s < x ∨ x = 0) ∧
  (∀ x, x.Prime → x ≤ t → x ∈ s.buf.take s.i ∨ x ≤ prevTop s)

theorem bwdInv_init (start hint : ℕ) (hs : start ≤ umax) : BwdInv (init start hint) start := by
  refine ⟨rfl, hs, le_refl _, le_refl _, List.Pairwise.nil, ?_, ?_, ?_, ?_⟩
  · intro x hx; simp [init] at hx
  · intro x hx; simp [init] at hx
  · intro x hx; simp [init] at hx
  · intro x _ hx; right; exact hx

/-- `prev_prime()` when `i_ ≠ 0` -/
theorem prevPrime_inbuf (e : Env) (s : St) (t : ℕ) (h : BwdInv s t) (hi : s.i ≠ 0) (hex : ∃ r, r.Prime ∧ r ≤ t) :
    ∃ p s', prevPrime e s = .ok (p, s') ∧ IsPrevP t p ∧ BwdInv s' (p - 1) := by
  obtain ⟨hgen, hst, htop, hile, hsorted, hle, hprime, habove, hall⟩ := h
  obtain ⟨j, hj⟩ : ∃ j, s.i = j + 1 := ⟨s.i - 1, by omega⟩
  have hjlt : j < s.buf.length := by omega
  unfold prevPrime
  simp only [if_neg hi]
  have hj' : s.i - 1 = j := by omega
  rw [hj', List.getElem?_eq_getElem hjlt]
  simp only []
  have htake : s.buf.take s.i = s.buf.take j ++ [s.buf[j]] := by
    rw [hj]; exact List.take_succ_eq_append_getElem hjlt
  generalize hp : s.buf[j] = p at htake
  have hpbuf : p ∈ s.buf := by rw [← hp]; exact List.getElem_mem hjlt
  have hsortedT : (s.buf.take j ++ [p]).Pairwise (· < ·) := by
    rw [← htake]; exact hsorted.sublist (List.take_sublist _ _)
  have hlow : ∀ y ∈ s.buf.take j, y < p := fun y hy =>
    (List.pairwise_append.1 hsortedT).2.2 y hy p List.mem_cons_self
  have hpt : p ≤ t := hle p (by rw [htake]; simp)
  obtain ⟨r, hr, hrt⟩ := hex
  -- every prime ≤ t is ≤ p, provided p ≠ 0
  have hp0 : p ≠ 0 := by
    intro h0
    rcases hall r hr hrt with h1 | h1
    · rw [htake] at h1
      rcases List.mem_append.1 h1 with h2 | h2
      · have := hlow r h2; omega
      · simp at h2; have := hr.two_le; omega
    · rcases hprime p hpbuf with h2 | ⟨_, h2⟩
      · rw [h0] at h2; exact Nat.not_prime_zero h2
      · have := hr.two_le; omega
  have hpp : p.Prime := by
    rcases hprime p hpbuf with h2 | ⟨h2, _⟩
    · exact h2
    · exact absurd h2 hp0
  have htopp : prevTop s < p := by
    rcases habove p hpbuf with h2 | h2
    · exact h2
    · exact absurd h2 hp0
  refine ⟨p, { s with i := s.i - 1 }, by rw [hj'], ⟨hpp, hpt, fun x hx hxt => ?_⟩, ?_⟩
  · rcases hall x hx hxt with h1 | h1
    · rw [htake] at h1
      rcases List.mem_append.1 h1 with h2 | h2
      · have := hlow x h2; omega
      · simp at h2; omega
    · omega
  · have htop' : prevTop { s with i := s.i - 1 } = prevTop s := rfl
    refine ⟨hgen, hst, by rw [htop']; omega, by show s.i - 1 ≤ s.buf.length; omega, hsorted, ?_, ?_, ?_, ?_⟩
    · intro x hx
      have hx' : x ∈ s.buf.take j := by
        have : ({ s with i := s.i - 1 } : St).buf.take ({ s with i := s.i - 1 } : St).i = s.buf.take j := by
          show s.buf.take (s.i - 1) = s.buf.take j; rw [hj']
        rw [this] at hx; exact hx
      have := hlow x hx'; omega
    · intro x hx; rw [htop']; exact hprime x hx
    · intro x hx; rw [htop']; exact habove x hx
    · intro x hx hxp
      rw [htop']
      show x ∈ s.buf.take (s.i - 1) ∨ x ≤ prevTop s
      rw [hj']
      rcases hall x hx (by omega) with h1 | h1
      · rw [htake] at h1
        rcases List.mem_append.1 h1 with h2 | h2
        · exact Or.inl h2
        · simp at h2; omega
      · exact Or.inr h1

theorem prevPrime_step (e : Env) (he : GenSpec e) (s : St) (t : ℕ) (h : BwdInv s t) (hex : ∃ r, r.Prime ∧ r ≤ t) :
    ∃ p s', prevPrime e s = .ok (p, s') ∧ IsPrevP t p ∧ BwdInv s' (p - 1) := by
  by_cases hi : s.i = 0
  · obtain ⟨hgen, hst, htop, hile, hsorted, hle, hprime, habove, hall⟩ := h
    obtain ⟨s', hs', hd⟩ := genPrev_none e he s hgen hst
    have htop_le : prevTop s ≤ s.start := by
      unfold prevTop; split
      · exact le_refl _
      · exact checkedSub_le _ _
    have htop' : prevTop s' = s'.start - 1 := by
      unfold prevTop; rw [hd.incl]; simp only [Bool.false_eq_true, if_false]; exact checkedSub_eq _ _
    have hinv : BwdInv s' t := by
      refine ⟨hd.gen, ?_, ?_, by rw [hd.iend], hd.sorted, ?_, ?_, ?_, ?_⟩
      · have := hd.start_le; have := hd.stop_le; omega
      · rw [htop']; have := hd.start_le; have := hd.stop_le; omega
      · intro x hx
        have hx' : x ∈ s'.buf := List.mem_of_mem_take hx
        rcases (hd.mem x).1 hx' with ⟨_, _, h3⟩ | ⟨h3, _⟩
        · have := hd.stop_le; omega
        · omega
      · intro x hx
        rcases (hd.mem x).1 hx with ⟨h1, _, _⟩ | ⟨h3, h4⟩
        · exact Or.inl h1
        · exact Or.inr ⟨h3, by rw [htop']; omega⟩
      · intro x hx
        rcases (hd.mem x).1 hx with ⟨h1, h2, _⟩ | ⟨h3, _⟩
        · left; rw [htop']; have := h1.two_le; omega
        · exact Or.inr h3
      · intro x hx hxt
        have hxtop : x ≤ prevTop s := by
          rcases hall x hx hxt with h1 | h1
          · rw [hi] at h1; simp at h1
          · exact h1
        have hxs := hd.above x hx hxtop
        by_cases hc : s'.start ≤ x
        · left
          rw [hd.iend, List.take_length]
          exact (hd.mem x).2 (Or.inl ⟨hx, hc, hxs⟩)
        · right; rw [htop']; omega
    have hi' : s'.i ≠ 0 := by
      rw [hd.iend]
      have := List.length_pos_of_ne_nil hd.ne
      omega
    obtain ⟨p, s'', h1, h2, h3⟩ := prevPrime_inbuf e s' t hinv hi' hex
    refine ⟨p, s'', ?_, h2, h3⟩
    rw [← h1]
    unfold prevPrime
    simp only [hi, if_true, hs', if_neg hi']
  · exact prevPrime_inbuf e s t h hi hex

end Pc.It
