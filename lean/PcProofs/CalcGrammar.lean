/-
C13 — assembly: the calculator (any arithmetic `A` with a monotone literal check) returns `v` for a string iff the
string is in the documented language and the bottom-up value of its documented tree is `v`. Instances: the
tree-building run (`calcTree`) IS the documented parse (= the reference parser `refTree`), and the repaired
`to_maxint` returns exactly the in-range exact values.
-/
import PcProofs.CalcGrammarLoop
import PcProofs.CalcGrammarRef
import PcProofs.CalcGrammarEval

namespace Pc.Calc

/-- the shift/reduce calculator with arithmetic `A` = documented grammar + bottom-up evaluation with `A` -/
theorem calcWith_iff_parses {V : Type} {A : Arith V} (hm : LitMono A) (s : Bytes) (v : V) :
    calcWith A s = .ok v ↔ ∃ e, Parses s e ∧ evalA A e = .ok v := by
  unfold calcWith
  constructor
  · intro h
    cases hp : parseExpr A (2 * s.length + 2) [] s with
    | error x => rw [hp] at h; cases h
    | ok q =>
      obtain ⟨v1, st1, r1⟩ := q
      rw [hp] at h
      simp only at h
      obtain ⟨_, a, r1', e, r0, hpa, hr, hev, hr1⟩ := (gl_parse_fwd A _).2.1 [] s v1 st1 r1 hp
      split at h
      · rename_i hemp
        cases h
        refine ⟨e, ⟨a, r1', r0, hpa, hr, ?_⟩, hev⟩
        rw [hr1] at hemp
        simpa using hemp
      · cases h
  · rintro ⟨e, ⟨a, r1, r0, hpa, hr, hend⟩, hev⟩
    rw [(gl_parse_bwd hm _).2.1 [] s a r1 e r0 v (Nat.le_refl _) hpa hr hev, hend]
    rfl

theorem evalA_tree : ∀ e : Expr, evalA tree e = .ok e := by
  intro e
  induction e with
  | lit n => rfl
  | neg e ih => simp only [evalA, ih]; rfl
  | not e ih => simp only [evalA, ih]; rfl
  | bin o a b iha ihb => simp only [evalA, iha, ihb]; rfl

theorem evalA_checked : ∀ e : Expr, evalA checked e = evalChecked e := by
  intro e
  induction e with
  | lit n => rfl
  | neg e ih => simp only [evalA, evalChecked, ih]; cases evalChecked e <;> rfl
  | not e ih => simp only [evalA, evalChecked, ih]; cases evalChecked e <;> rfl
  | bin o a b iha ihb =>
    simp only [evalA, evalChecked, iha, ihb]
    cases evalChecked a <;> cases evalChecked b <;> rfl

theorem litMono_tree : LitMono tree := fun _ _ _ _ => rfl

theorem litMono_checked : LitMono checked := by
  intro m n hmn h
  simp only [checked, decide_eq_true_eq] at h ⊢
  have : (m : Int) ≤ (n : Int) := Int.ofNat_le.2 hmn
  omega

/-- the tree built by the shift/reduce loop is the tree of the documented grammar, and the loop rejects exactly the
    strings outside the documented language -/
theorem calcTree_iff_parses (s : Bytes) (e : Expr) : calcTree s = .ok e ↔ Parses s e := by
  unfold calcTree
  rw [calcWith_iff_parses litMono_tree]
  constructor
  · rintro ⟨e', hp, hev⟩
    rw [evalA_tree] at hev
    cases hev
    exact hp
  · intro hp
    exact ⟨e, hp, evalA_tree e⟩

/-- `calcTree s = refTree s` for ALL byte strings: same tree on success; the loop fails iff the reference parser
    (the documented grammar) rejects. (`calcTree` reports failure as an `Except` error, `refTree` as `none`.) -/
theorem calcTree_eq_refTree (s : Bytes) : (calcTree s).toOption = refTree s := by
  cases hc : calcTree s with
  | ok e =>
    have := (refTree_iff_parses s e).2 ((calcTree_iff_parses s e).1 hc)
    rw [this]; rfl
  | error x =>
    cases hr : refTree s with
    | none => rfl
    | some e =>
      have := (calcTree_iff_parses s e).2 ((refTree_iff_parses s e).1 hr)
      rw [hc] at this
      cases this

/-- the repaired calculator returns `v` iff the documented tree of the string evaluates (checked, bottom-up) to `v` -/
theorem calcChecked_iff (s : Bytes) (v : Int) :
    calcChecked s = .ok v ↔ ∃ e, Parses s e ∧ evalChecked e = .ok v := by
  unfold calcChecked
  rw [calcWith_iff_parses litMono_checked]
  simp only [evalA_checked]

/-- `to_maxint` (repaired) against the documented grammar and the exact semantics -/
theorem toMaxint_iff (s : Bytes) (v : Int) :
    toMaxint s = .ok v ↔
      (tooLarge s = false ∧ ∃ e, Parses s e ∧ evalExact e = some v ∧ InRange e ∧ CodeOk e) := by
  unfold toMaxint toMaxintWith
  cases ht : tooLarge s with
  | true =>
    simp
  | false =>
    simp only [Bool.false_eq_true, if_false, true_and]
    rw [calcChecked_iff]
    constructor
    · rintro ⟨e, hp, hev⟩
      exact ⟨e, hp, (evalChecked_iff e v).1 hev⟩
    · rintro ⟨e, hp, hx⟩
      exact ⟨e, hp, (evalChecked_iff e v).2 hx⟩

/-- what the independent op `toiref` computes is `to_maxint` -/
theorem toMaxint_iff_ref (s : Bytes) (v : Int) :
    toMaxint s = .ok v ↔ (tooLarge s = false ∧ ∃ e, refTree s = some e ∧ evalChecked e = .ok v) := by
  unfold toMaxint toMaxintWith
  cases ht : tooLarge s with
  | true => simp
  | false =>
    simp only [Bool.false_eq_true, if_false, true_and]
    rw [calcChecked_iff]
    constructor
    · rintro ⟨e, hp, hev⟩
      exact ⟨e, (refTree_iff_parses s e).2 hp, hev⟩
    · rintro ⟨e, hp, hev⟩
      exact ⟨e, (refTree_iff_parses s e).1 hp, hev⟩

end Pc.Calc
