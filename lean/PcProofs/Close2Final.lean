/-
WP close2, final composition — the three sub-results put together over `World2` (bit-level PhiCache, PcProofs/Close2PhiWorld.lean):

* `World2.pi_gourdon_s3`               `pi_gourdon_64 / 128` with the domain restriction reduced to `x < 8 ∨ 16 ≤ x`
                                       (`piGourdon_total_to_wide`, PcProofs/Close2TinyTop.lean, Close2SmallTop.lean) and NO cache hypothesis (`nested_s2`);
* `World2.pi_deleglise_rivat_128_s2`   `pi_deleglise_rivat_128` over the world (`piDeleglieRivat128_total_to`, PcProofs/Close2Dr.lean);
* `World2.OKmin` / `ok_of_min`         the world hypotheses when `W.phiNeg` is the function the bit-level `PhiCache::phi<-1>` computes
                                       (`phiNegIdeal`; justified by `World.phi_vector_is_cpp`): configuration range, the ONE float assumption, hints, size.
-/
import PcProofs.Close2PhiWorld
import PcProofs.Close2PhiVec
import PcProofs.Close2SmallTop
import PcProofs.Close2TinyTop
import PcProofs.Close2Dr

namespace Pc.Close
open Nat Pc.Hard Pc.PhiVec Pc.Top Pc.PsCore Pc.LB PcGen.ApiConst Pc.PhiAlgProofs Pc.ClosePhi
open scoped Nat.Prime

namespace World2

/-- what is left of `World.OK` once `phi_vector`'s inner function is the bit-level one: primesieve configuration range (S), the one float
    assumption of the sieving core below `bnd` (F; a theorem for `bnd ≤ 2^50`), iterator stop hints inside `uint64_t` (S), table size (S) -/
structure OKmin (W : World2) (B : ℕ) : Prop where
  phiNeg : W.phiNeg = phiNegIdeal
  kib_lo : 16 ≤ W.kib
  kib_hi : W.kib ≤ 8192
  bnd_le : W.bnd ≤ 2 ^ 64
  float : ∀ a b, b < W.bnd → FloatOk W.l1raw (max 721 a) b W.kib
  hints : ∀ n, W.hn n ≤ It.umax
  size : B ≤ W.N

theorem ok_of_min (W : World2) {B : ℕ} (h : W.OKmin B) : W.toWorld.OK B :=
  W.toWorld.ok_of_ideal B h.phiNeg h.kib_lo h.kib_hi h.bnd_le h.float h.hints h.size

/-- for `bnd ≤ 2^50` the float field is a theorem (`floatOk_window_below_2_50`) -/
theorem okmin_of_bnd50 (W : World2) {B : ℕ} (hneg : W.phiNeg = phiNegIdeal) (kib_lo : 16 ≤ W.kib) (kib_hi : W.kib ≤ 8192)
    (hb : W.bnd ≤ 2 ^ 50) (hints : ∀ n, W.hn n ≤ It.umax) (size : B ≤ W.N) : W.OKmin B :=
  { phiNeg := hneg, kib_lo := kib_lo, kib_hi := kib_hi, bnd_le := le_trans hb (by norm_num),
    float := fun a b hlt => It.floatOk_window_below_2_50 W.l1raw W.kib a b kib_lo kib_hi (lt_of_lt_of_le hlt hb),
    hints := hints, size := size }

/-- `pi_gourdon_64(x)` / `pi_gourdon_128(x)` over the world with the bit-level phi, every `x` of the type except `8 ≤ x ≤ 15` -/
theorem pi_gourdon_s3 (W : World2) {B : ℕ} (h : W.toWorld.OK B) (hB : B < 2 ^ 32) (c : Sieve.Cfg) (f : Sieve.StopFn) (pi : ℕ → ℕ)
    (wide : Bool) (x : ℤ) (hx : InType wide x) (hsmall : x < 8 ∨ 16 ≤ x) (threads : ℤ) (isPrint : Bool) (r : GRun)
    (hphi : ∀ n : ℕ, (n : ℤ) < x → maxCached < n → n ≤ meisselMax → W.PhiRunOK2 n)
    (hrec : W.NestedS2 c f B pi x)
    (hex : 2 ≤ x → GExecC (W.toWorld.tablesS c f wide) B wide x.toNat r) :
    piGourdon (W.toWorld.tablesS c f wide) pi wide x threads isPrint r = .ok (π x.toNat : ℤ) ∨
      piGourdon (W.toWorld.tablesS c f wide) pi wide x threads isPrint r = .error (.hard .badRun) :=
  piGourdon_total_to_wide (W.toWorld.tablesS c f wide) (W.toWorld.tablesS_ok h hB c f wide) (W.toWorld.it_specTo h)
    World.maxPrime64_ge pi wide x hx hsmall threads isPrint r (W.nested_s2 h hB c f pi x hphi hrec) hex

/-- `pi_deleglise_rivat_128(x)` over the world with the bit-level phi, every int128 `x` (accepted by the range check: `DrExec.accept`) -/
theorem pi_deleglise_rivat_128_s2 (W : World2) {B : ℕ} (h : W.toWorld.OK B) (hB : B < 2 ^ 32) (c : Sieve.Cfg) (f : Sieve.StopFn)
    (pi : ℕ → ℕ) (x : ℤ) (hx : x < 2 ^ 127) (threads : ℤ) (isPrint : Bool) (r : DrRun)
    (hphi : ∀ n : ℕ, (n : ℤ) < x → maxCached < n → n ≤ meisselMax → W.PhiRunOK2 n)
    (hrec : W.NestedS2 c f B pi x)
    (hex : 2 ≤ x → DrExec (W.toWorld.tablesS c f true) B true x.toNat r) :
    piDeleglieRivat (W.toWorld.tablesS c f true) pi true x threads isPrint r = .ok (π x.toNat : ℤ) ∨
      piDeleglieRivat (W.toWorld.tablesS c f true) pi true x threads isPrint r = .error (.hard .badRun) :=
  piDeleglieRivat128_total_to (W.toWorld.tablesS c f true) (W.toWorld.tablesS_ok h hB c f true) (W.toWorld.it_specTo h)
    World.maxPrime64_ge pi x hx threads isPrint r (W.nested_s2 h hB c f pi x hphi hrec) hex

end World2
end Pc.Close
