/-
C18 core, second half: the loop of `SievingPrimes::sieveSegment()` that feeds the tiny primes `p`, `p² ≤ segmentHigh`, to the
inner `Erat` (`svpAddLoop`), as a fold over an explicit list.
-/
import PcProofs.PsCore2Tiny
import PcProofs.PsCore2Init

namespace Pc.PsCore

/-- number of loop iterations from `i`: the `k` with `(i + 2k)² ≤ high` -/
def svpCount (high i : ℕ) : ℕ := (Nat.sqrt high + 2 - i) / 2

/-- the values `i, i + 2, …` whose square is `≤ high` -/
def svpCands (high i : ℕ) : List ℕ := List.range' i (svpCount high i) 2

theorem svpCount_of_le {high i : ℕ} (h : i * i ≤ high) : svpCount high i = svpCount high (i + 2) + 1 := by
  have : i ≤ Nat.sqrt high := Nat.le_sqrt.2 h
  unfold svpCount; omega

theorem svpCount_of_gt {high i : ℕ} (h : ¬ i * i ≤ high) : svpCount high i = 0 := by
  have : ¬ i ≤ Nat.sqrt high := fun h' => h (Nat.le_sqrt.1 h')
  unfold svpCount; omega

theorem svpCount_le_fuel (high i : ℕ) : svpCount high i ≤ isqrt high + 2 := by
  unfold svpCount isqrt; omega

theorem svpAddLoop_spec (high : ℕ) (tiny : Array Bool) : ∀ (fuel i : ℕ) (e : Erat), svpCount high i ≤ fuel →
    svpAddLoop high tiny fuel i e =
      (i + 2 * svpCount high i,
       ((svpCands high i).filter (fun p => tiny.getD p false)).foldl Erat.addSievingPrime e)
  | 0, i, e, hf => by
    have h0 : svpCount high i = 0 := by omega
    simp [svpAddLoop, svpCands, h0]
  | fuel + 1, i, e, hf => by
    unfold svpAddLoop
    split
    · next hii =>
      have hc := svpCount_of_le hii
      rw [svpAddLoop_spec high tiny fuel (i + 2) _ (by omega)]
      unfold svpCands
      rw [hc, List.range'_succ, List.filter_cons]
      refine Prod.ext (by simp only; omega) ?_
      split <;> rfl
    · next hii =>
      have h0 := svpCount_of_gt hii
      simp [svpCands, h0]

theorem mem_svpCands {high i p : ℕ} :
    p ∈ svpCands high i ↔ i ≤ p ∧ p % 2 = i % 2 ∧ p * p ≤ high := by
  unfold svpCands svpCount
  rw [List.mem_range', ← Nat.le_sqrt]
  constructor
  · rintro ⟨k, hk, rfl⟩; omega
  · rintro ⟨h1, h2, h3⟩
    exact ⟨(p - i) / 2, by omega, by omega⟩

theorem svpCands_sorted (high i : ℕ) : (svpCands high i).Pairwise (· < ·) := by
  unfold svpCands
  exact List.pairwise_lt_range' 2 (by omega)

theorem svpCands_nodup (high i : ℕ) : (svpCands high i).Nodup :=
  (svpCands_sorted high i).imp (fun h => Nat.ne_of_lt h)

/-- the exit value: first `i' ≥ i` of the parity of `i` with `i'² > high` -/
theorem svp_exit_gt (high i : ℕ) : high < (i + 2 * svpCount high i) * (i + 2 * svpCount high i) := by
  rw [← Nat.sqrt_lt]
  unfold svpCount; omega

theorem svp_exit_min (high i j : ℕ) (hij : i ≤ j) (hpar : j % 2 = i % 2) (hj : high < j * j) :
    i + 2 * svpCount high i ≤ j := by
  rw [← Nat.sqrt_lt] at hj
  unfold svpCount; omega

theorem svp_exit_parity (high i : ℕ) : (i + 2 * svpCount high i) % 2 = i % 2 := by omega

theorem svp_exit_ge (high i : ℕ) : i ≤ i + 2 * svpCount high i := by omega

/-- with the real tiny sieve, the added values are exactly the primes -/
theorem svpCands_filter_tiny (stop high i : ℕ) (h3 : 3 ≤ i) (hodd : i % 2 = 1) (hhs : Nat.sqrt high ≤ Nat.sqrt stop) :
    (svpCands high i).filter (fun p => (tinySieve stop).getD p false) =
      (svpCands high i).filter (fun p => decide (Nat.Prime p)) := by
  apply List.filter_congr
  intro p hp
  obtain ⟨h1, h2, h3'⟩ := mem_svpCands.1 hp
  have hps : p ≤ Nat.sqrt stop := le_trans (Nat.le_sqrt.2 h3') hhs
  have := tinySieve_spec stop p hps (by omega) (by omega)
  by_cases hpp : Nat.Prime p
  · simp [hpp, this.2 hpp]
  · have : ¬ (tinySieve stop).getD p false = true := fun h => hpp (this.1 h)
    simp [hpp, this]

/-- the loop exactly as `SvP.sieveSegment` calls it (fuel `isqrt high + 2`) with the real tiny sieve -/
theorem svpAddLoop_tiny (stop high i : ℕ) (e : Erat) (h3 : 3 ≤ i) (hodd : i % 2 = 1)
    (hhs : Nat.sqrt high ≤ Nat.sqrt stop) :
    svpAddLoop high (tinySieve stop) (isqrt high + 2) i e =
      (i + 2 * svpCount high i,
       ((svpCands high i).filter (fun p => decide (Nat.Prime p))).foldl Erat.addSievingPrime e) := by
  rw [svpAddLoop_spec high _ _ i e (svpCount_le_fuel high i), svpCands_filter_tiny stop high i h3 hodd hhs]

/-- nothing happens when already `i² > high` (in particular when the tiny sieve is empty) -/
theorem svpAddLoop_none (high : ℕ) (tiny : Array Bool) (fuel i : ℕ) (e : Erat) (h : high < i * i) :
    svpAddLoop high tiny fuel i e = (i, e) := by
  have h0 := svpCount_of_gt (high := high) (i := i) (by omega)
  rw [svpAddLoop_spec high tiny fuel i e (by omega)]
  simp [svpCands, h0]

/-! ### `svpInit` -/

theorem svpInit_e (l1raw eratStop kib : ℕ) :
    (svpInit l1raw eratStop kib).e = eratInit l1raw 165 (Nat.sqrt eratStop) kib := rfl

theorem svpInit_tinyIdx (l1raw eratStop kib : ℕ) : (svpInit l1raw eratStop kib).tinyIdx = 165 := rfl

theorem svpInit_low (l1raw eratStop kib : ℕ) :
    (svpInit l1raw eratStop kib).low = (svpInit l1raw eratStop kib).e.segmentLow := rfl

theorem svpInit_sieveIdx (l1raw eratStop kib : ℕ) : (svpInit l1raw eratStop kib).sieveIdx = u64Max := rfl

theorem svpInit_buf (l1raw eratStop kib : ℕ) :
    (svpInit l1raw eratStop kib).buf = #[] ∧ (svpInit l1raw eratStop kib).i = 0 := ⟨rfl, rfl⟩

/-- `√eratStop < 165`: the inner `Erat` stays uninitialised (no segment) -/
theorem svpInit_e_empty (l1raw eratStop kib : ℕ) (h : Nat.sqrt eratStop < 165) :
    (svpInit l1raw eratStop kib).e = {} := by
  rw [svpInit_e]; unfold eratInit
  rw [if_pos (Or.inl h)]

theorem svpInit_facts (l1raw eratStop kib : ℕ) (h : 165 ≤ Nat.sqrt eratStop) (hs : Nat.sqrt eratStop < 2 ^ 64)
    (hk : 16 ≤ kib) (hk2 : kib ≤ 8192) :
    InitFacts 165 (Nat.sqrt eratStop) (svpInit l1raw eratStop kib).e := by
  rw [svpInit_e]; exact eratInit_facts l1raw 165 _ kib (by omega) h hs (by omega) hk hk2

theorem svpInit_segmentLow (l1raw eratStop kib : ℕ) (h : 165 ≤ Nat.sqrt eratStop) (hs : Nat.sqrt eratStop < 2 ^ 64)
    (hk : 16 ≤ kib) (hk2 : kib ≤ 8192) : (svpInit l1raw eratStop kib).e.segmentLow = 150 := by
  rw [(svpInit_facts l1raw eratStop kib h hs hk hk2).low_eq]; rfl

theorem svpInit_tiny (l1raw eratStop kib : ℕ) (hs : Nat.sqrt eratStop < 2 ^ 64) (hk : 16 ≤ kib) (hk2 : kib ≤ 8192) :
    (svpInit l1raw eratStop kib).tiny =
      if 165 * 165 ≤ Nat.sqrt eratStop then tinySieve (Nat.sqrt eratStop) else #[] := by
  show (if 165 * 165 ≤ Nat.sqrt eratStop then tinySieve (eratInit l1raw 165 (Nat.sqrt eratStop) kib).stop else #[]) = _
  split
  · next h =>
    rw [(eratInit_facts l1raw 165 _ kib (by omega) (by omega) hs (by omega) hk hk2).stop_eq]
  · rfl

end Pc.PsCore
