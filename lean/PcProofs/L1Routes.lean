/-
The L1 routes of the dispatcher equal π on their ranges, for EVERY float outcome.
-/
import PcModel.L1Routes
import PcProofs.FormulasMain
import PcProofs.Params
import PcProofs.PiTable
import PcProofs.Oracle
import PcProofs.Api

namespace Pc
open PcGen.ApiConst Pc.PiApi

theorem ntFor_valid (x y : ℕ) : (ntFor x y).Valid := NT.build_valid _

theorem ntFor_covers (x y : ℕ) (hy : 1 ≤ y) : (ntFor x y).Covers x y := by
  have hb : (ntFor x y).bound = max (max (x / max y 1) (isqrtN x)) y + 2 := rfl
  have hm : max y 1 = y := by omega
  refine ⟨?_, ?_, ?_⟩
  · rw [hb, hm]; omega
  · rw [hb, isqrtN_eq]; omega
  · rw [hb]; omega

theorem l1Legendre_eq (x : ℕ) (hx : 2 ≤ x) : l1Legendre x = Nat.primeCounting x := by
  have hs : 1 ≤ isqrtN x := by rw [isqrtN_eq, Nat.le_sqrt]; omega
  exact NT_legendre_total (ntFor_valid x (isqrtN x)) hx (ntFor_covers x (isqrtN x) hs).hs

theorem l1Meissel_eq (x : ℕ) (hx : 1 ≤ x) : l1Meissel x = Nat.primeCounting x := by
  have h3 : 1 ≤ irootN 3 x := by
    obtain ⟨_, h2⟩ := irootN_spec 3 x (by omega)
    by_contra h
    have : irootN 3 x = 0 := by omega
    rw [this] at h2; simp at h2; omega
  have hc := ntFor_covers x (irootN 3 x) h3
  have := NT_meissel_total (ntFor_valid x (irootN 3 x)) hx hc.hs (hc.div_succ h3)
  unfold l1Meissel
  simp only []
  rw [this]
  simp

theorem l1GetK_le (x : ℕ) : l1GetK x ≤ Nat.primeCounting (irootN 4 x) := by
  unfold l1GetK
  simp only []
  split
  · rw [piTD_eq]
  · rename_i h
    have h20 : 20 ≤ irootN 4 x := by omega
    calc 8 = Nat.primeCounting 20 := by decide
      _ ≤ Nat.primeCounting (irootN 4 x) := Nat.monotone_primeCounting h20

/-- Gourdon's route is π(x) for every x ≥ 64 and EVERY value of the two float products -/
theorem l1Gourdon_eq (v : ℤ) (w : ℤ → ℤ) (x : ℕ) (hx : 64 ≤ x) : l1Gourdon v w x = Nat.primeCounting x := by
  have hgap := root_gap x hx
  have hc := clamp_y_z (irootN 3 x) (isqrtN x) v (w (clampY (irootN 3 x) (isqrtN x) v))
    (by exact_mod_cast hgap) (by positivity)
  simp only [] at hc
  obtain ⟨h1, h2, h3, h4, h5⟩ := hc
  set y := clampY (irootN 3 x) (isqrtN x) v with hy
  set z := clampZ (isqrtN x) y (w y) with hz
  have hyN : (y.toNat : ℤ) = y := Int.toNat_of_nonneg (by omega)
  have hzN : (z.toNat : ℤ) = z := Int.toNat_of_nonneg (by omega)
  have e1 : irootN 3 x < y.toNat := by omega
  have e2 : y.toNat < isqrtN x := by omega
  have e3 : y.toNat ≤ z.toNat := by omega
  have e4 : z.toNat < isqrtN x := by omega
  have e5 : 1 ≤ y.toNat := by omega
  rw [isqrtN_eq] at e2 e4
  have sq : Nat.sqrt x * Nat.sqrt x ≤ x := Nat.sqrt_le x
  have hy2 : y.toNat * y.toNat ≤ x := le_trans (Nat.mul_le_mul e2.le e2.le) sq
  have hz2 : z.toNat * z.toNat ≤ x := le_trans (Nat.mul_le_mul e4.le e4.le) sq
  have tot := NT_gourdon_total (ntFor_valid x y.toNat) (ntFor_covers x y.toNat e5) e1 hy2 e3 hz2 (l1GetK_le x)
  unfold l1Gourdon gourdonYZ
  simp only []
  rw [← hy, ← hz, tot]
  simp

theorem l1Routes_cache (fo : FloatOutcomes) : (l1Routes fo).cache = piCacheLookup PcGen.piCache := rfl
theorem l1Routes_legendre (fo : FloatOutcomes) : (l1Routes fo).legendre = l1Legendre := rfl
theorem l1Routes_meissel (fo : FloatOutcomes) : (l1Routes fo).meissel = l1Meissel := rfl
theorem l1Routes_gourdon64 (fo : FloatOutcomes) (x : ℕ) :
    (l1Routes fo).gourdon64 x = l1Gourdon (fo.v x) (fo.w x) x := by
  simp only [l1Routes]
theorem l1Routes_gourdon128 (fo : FloatOutcomes) (x : ℕ) :
    (l1Routes fo).gourdon128 x = if x ≤ fo.limit x then .ok (l1Gourdon (fo.v x) (fo.w x) x) else .error .pcError := by
  simp only [l1Routes]

/-- all five routes of the L1 dispatcher are correct on the ranges `api.cpp` uses them on -/
theorem l1Routes_correct (fo : FloatOutcomes) :
    RouteCorrect (l1Routes fo).cache cacheZeroBelow maxCached ∧
    RouteCorrect (l1Routes fo).legendre (maxCached + 1) legendreMax ∧
    RouteCorrect (l1Routes fo).meissel (legendreMax + 1) meisselMax ∧
    RouteCorrect (l1Routes fo).gourdon64 (meisselMax + 1) int64Max := by
  have c1 : maxCached = 30719 := rfl
  have c2 : legendreMax = 100000 := rfl
  have c3 : meisselMax = 100000000 := rfl
  refine ⟨?_, ?_, ?_, ?_⟩
  · intro x _ hx
    rw [l1Routes_cache]
    exact piCache_correct x (by omega)
  · intro x hlo _
    rw [l1Routes_legendre]
    exact l1Legendre_eq x (by omega)
  · intro x hlo _
    rw [l1Routes_meissel]
    exact l1Meissel_eq x (by omega)
  · intro x hlo _
    rw [l1Routes_gourdon64]
    exact l1Gourdon_eq (fo.v x) (fo.w x) x (by omega)

/-- the 128-bit route: π(x) whenever the (float-derived) range check accepts x -/
theorem l1Routes_correct128 (fo : FloatOutcomes) (maxX : ℕ) (hlim : ∀ x, x ≤ maxX → x ≤ fo.limit x) :
    Route128Correct (l1Routes fo).gourdon128 maxX := by
  intro x hlo hhi
  have c4 : int64Max = 9223372036854775807 := rfl
  rw [l1Routes_gourdon128]
  simp only [hlim x hhi, if_true]
  rw [l1Gourdon_eq (fo.v x) (fo.w x) x (by omega)]

end Pc
