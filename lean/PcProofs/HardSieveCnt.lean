/-
WP hard: the number-theoretic adapter between C17's naive count `Sieve.specCount` (coprime to 30 and to the crossed-off
numbers) and the client-side count `Hard.cnt` (difference of two partial sieve functions `Spec.phi`).

`plist lvl = [p 4, …, p lvl]` are the sieving primes of the wheel slots `4 … lvl`.
-/
import PcProofs.HardSieve
import PcProofs.Sieve.Run

namespace Pc.Hard
open Pc.SimpleAlgs

/-- the sieving primes of the levels `4 … lvl` -/
noncomputable def plist (lvl : ℕ) : List ℕ := (List.range (lvl - 3)).map fun j => Spec.p (4 + j)

theorem plist_length (lvl : ℕ) : (plist lvl).length = lvl - 3 := by
  unfold plist; rw [List.length_map, List.length_range]

theorem mem_plist {lvl q : ℕ} : q ∈ plist lvl ↔ ∃ i, 4 ≤ i ∧ i ≤ lvl ∧ q = Spec.p i := by
  unfold plist
  rw [List.mem_map]
  constructor
  · rintro ⟨j, hj, rfl⟩
    rw [List.mem_range] at hj
    exact ⟨4 + j, by omega, by omega, rfl⟩
  · rintro ⟨i, h1, h2, rfl⟩
    exact ⟨i - 4, by rw [List.mem_range]; omega, by congr 1; omega⟩

theorem plist_succ {lvl : ℕ} (h : 3 ≤ lvl) : plist (lvl + 1) = plist lvl ++ [Spec.p (lvl + 1)] := by
  unfold plist
  have e : lvl + 1 - 3 = (lvl - 3) + 1 := by omega
  rw [e, List.range_succ, List.map_append, List.map_singleton]
  congr 3; omega

theorem plist_take {c K : ℕ} (h : c ≤ K) : (plist K).take (c - 3) = plist c := by
  unfold plist
  rw [← List.map_take, List.take_range]
  congr 2; omega

theorem plist_getD {K j : ℕ} (h : j < K - 3) : (plist K).getD j 0 = Spec.p (4 + j) := by
  unfold plist
  rw [List.getD_eq_getElem?_getD, List.getElem?_map, List.getElem?_range h]
  rfl

theorem plist_eq_nil {lvl : ℕ} (h : lvl ≤ 3) : plist lvl = [] := by
  unfold plist
  have : lvl - 3 = 0 := by omega
  rw [this]; rfl

/-- coprime to 30 = divisible by none of 2, 3, 5 -/
theorem gcd30_iff (m : ℕ) : Nat.gcd m 30 = 1 ↔ ¬ 2 ∣ m ∧ ¬ 3 ∣ m ∧ ¬ 5 ∣ m := by
  have key : ∀ r < 30, (Nat.gcd r 30 = 1 ↔ r % 2 ≠ 0 ∧ r % 3 ≠ 0 ∧ r % 5 ≠ 0) := by decide
  have h1 : Nat.gcd m 30 = Nat.gcd (m % 30) 30 := by
    conv_lhs => rw [← Nat.div_add_mod m 30]
    exact Sieve.gcd_add30 _ _
  rw [h1, key (m % 30) (Nat.mod_lt _ (by norm_num))]
  simp only [Nat.dvd_iff_mod_eq_zero]
  omega

/-- the slots `4 … lvl` hold the primes `p 4 … p lvl`; the wheel covers `p 1, p 2, p 3` -/
theorem unsieved_iff {lvl : ℕ} (h : 3 ≤ lvl) (m : ℕ) :
    Unsieved lvl m ↔ Nat.gcd m 30 = 1 ∧ ∀ q ∈ plist lvl, m % q ≠ 0 := by
  rw [gcd30_iff]
  constructor
  · intro hu
    refine ⟨⟨?_, ?_, ?_⟩, ?_⟩
    · have := hu 1 le_rfl (by omega); rwa [Spec.p_one] at this
    · have := hu 2 (by omega) (by omega); rwa [Spec.p_two] at this
    · have := hu 3 (by omega) (by omega); rwa [Spec.p_three] at this
    · intro q hq
      obtain ⟨i, h1, h2, rfl⟩ := mem_plist.mp hq
      have := hu i (by omega) h2
      rwa [Nat.dvd_iff_mod_eq_zero] at this
  · rintro ⟨⟨a2, a3, a5⟩, hq⟩ i hi1 hi
    rcases Nat.lt_or_ge i 4 with hlt | hge
    · have : i = 1 ∨ i = 2 ∨ i = 3 := by omega
      rcases this with rfl | rfl | rfl
      · rwa [Spec.p_one]
      · rwa [Spec.p_two]
      · rwa [Spec.p_three]
    · have := hq (Spec.p i) (mem_plist.mpr ⟨i, hge, hi, rfl⟩)
      rwa [Nat.dvd_iff_mod_eq_zero]

/-- every sieving prime of a slot is coprime to 30 -/
theorem p_coprime30 {i : ℕ} (h : 4 ≤ i) : Nat.gcd (Spec.p i) 30 = 1 := by
  have hp : (Spec.p i).Prime := Spec.p_prime (by omega)
  have h7 : 7 ≤ Spec.p i := by rw [← Spec.p_four]; exact Spec.p_le_p h
  rw [gcd30_iff]
  refine ⟨?_, ?_, ?_⟩
  · intro hd; have := (Nat.prime_dvd_prime_iff_eq Nat.prime_two hp).mp hd; omega
  · intro hd; have := (Nat.prime_dvd_prime_iff_eq Nat.prime_three hp).mp hd; omega
  · intro hd; have := (Nat.prime_dvd_prime_iff_eq Nat.prime_five hp).mp hd; omega

/-- the predicate `specCount` filters with -/
def sPred (L n : ℕ) (qs : List ℕ) (t : ℕ) : Bool :=
  decide (t < n) && Nat.gcd (L + t) 30 == 1 && qs.all fun q => (L + t) % q != 0

theorem specCount_zero (L n : ℕ) (qs : List ℕ) (b : ℕ) :
    Sieve.specCount L n qs 0 b = ((List.range (b + 1)).filter (sPred L n qs)).length := by
  unfold Sieve.specCount sPred
  simp only [Nat.sub_zero, Nat.zero_add]

theorem specCount_succ (L n : ℕ) (qs : List ℕ) (b : ℕ) :
    Sieve.specCount L n qs 0 (b + 1) = Sieve.specCount L n qs 0 b + if sPred L n qs (b + 1) then 1 else 0 := by
  rw [specCount_zero, specCount_zero, List.range_succ, List.filter_append, List.length_append]
  congr 1
  cases h : sPred L n qs (b + 1) <;> simp [h]

theorem specCount_base (L n : ℕ) (qs : List ℕ) :
    Sieve.specCount L n qs 0 0 = if sPred L n qs 0 then 1 else 0 := by
  rw [specCount_zero]
  cases h : sPred L n qs 0 <;> simp [h]

theorem sPred_iff {lvl : ℕ} (h : 3 ≤ lvl) (L n t : ℕ) :
    sPred L n (plist lvl) t = true ↔ t < n ∧ Unsieved lvl (L + t) := by
  rw [unsieved_iff h]
  unfold sPred
  simp only [Bool.and_eq_true, decide_eq_true_eq, beq_iff_eq, List.all_eq_true, bne_iff_ne, ne_eq, and_assoc]

theorem unsieved_zero_false {lvl : ℕ} (h : 1 ≤ lvl) : ¬ Unsieved lvl 0 := fun hu => hu 1 le_rfl h (dvd_zero _)

/-- **the adapter**: with the primes `p 4 … p lvl` crossed off, the naive count over the offsets `[0, stop]` is the
    number of `m ∈ [L, L + stop]`, `m ≥ 1`, divisible by none of the first `lvl` primes -/
theorem specCount_eq_cnt {lvl : ℕ} (h : 3 ≤ lvl) (L n : ℕ) : ∀ stop, stop < n →
    Sieve.specCount L n (plist lvl) 0 stop = cnt L lvl stop := by
  intro stop
  induction stop with
  | zero =>
    intro hn
    rw [specCount_base]
    unfold cnt
    rw [Nat.add_zero]
    rcases Nat.eq_zero_or_pos L with hL | hL
    · subst hL
      have : ¬ (sPred 0 n (plist lvl) 0 = true) := by
        rw [sPred_iff h]; rintro ⟨_, hu⟩; exact unsieved_zero_false (by omega) hu
      rw [if_neg this, Spec.phi_zero_left]
    · have e : L = (L - 1) + 1 := by omega
      conv_rhs => rw [e, phi_succ, Nat.add_sub_cancel]
      rw [Nat.add_sub_cancel_left, ← e]
      by_cases hu : Unsieved lvl L
      · rw [if_pos hu, if_pos ((sPred_iff h L n 0).mpr ⟨hn, hu⟩)]
      · rw [if_neg hu, if_neg (fun hh => hu ((sPred_iff h L n 0).mp hh).2)]
  | succ b ih =>
    intro hn
    rw [specCount_succ, ih (by omega)]
    unfold cnt
    have hmono : Spec.phi (L - 1) lvl ≤ Spec.phi (L + b) lvl := Spec.phi_mono_left lvl (by omega)
    rw [← Nat.add_assoc, phi_succ]
    by_cases hu : Unsieved lvl (L + b + 1)
    · rw [if_pos hu, if_pos ((sPred_iff h L n (b + 1)).mpr ⟨hn, by rwa [← Nat.add_assoc]⟩)]
      omega
    · rw [if_neg hu, if_neg (fun hh => hu (by have := ((sPred_iff h L n (b + 1)).mp hh).2; rwa [← Nat.add_assoc] at this))]
      omega

/-- offsets beyond the segment contribute nothing -/
theorem specCount_beyond (L n : ℕ) (qs : List ℕ) (hn : 1 ≤ n) : ∀ d,
    Sieve.specCount L n qs 0 (n - 1 + d) = Sieve.specCount L n qs 0 (n - 1) := by
  intro d
  induction d with
  | zero => rfl
  | succ d ih =>
    rw [← Nat.add_assoc, specCount_succ, ih]
    have : ¬ (sPred L n qs (n - 1 + d + 1) = true) := by
      unfold sPred
      have : ¬ (n - 1 + d + 1 < n) := by omega
      simp [this]
    rw [if_neg this, Nat.add_zero]

/-- `get_total_count()` of a segment of `n` numbers inside an array of `segSize ≥ n` numbers -/
theorem specCount_total {lvl : ℕ} (h : 3 ≤ lvl) (L n segSize : ℕ) (hn : 1 ≤ n) (hle : n ≤ segSize) :
    Sieve.specCount L n (plist lvl) 0 (segSize - 1) = cnt L lvl (n - 1) := by
  have e : segSize - 1 = n - 1 + (segSize - n) := by omega
  rw [e, specCount_beyond L n _ hn, specCount_eq_cnt h L n (n - 1) (by omega)]

end Pc.Hard
