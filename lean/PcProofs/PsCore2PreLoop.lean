/-
C18 core, PreSieve part 2: `preKernel` / `preLoop` / `preGroup`.  One group of four periodic buffers leaves in byte `x` of the
sieve array the AND of the four buffer bytes at the absolute position `L/30 + x` (mod the buffer sizes), ANDed into the old
byte for `andOld = true`.  Position invariant `pos_k ≡ L/30 + offset (mod size_k)`, `pos_k ≤ size_k`; a zero-length iteration
wraps the positions that reached the end, after it every position is inside, hence the fuel `2·size + 16`.
-/
import PcProofs.PsCore2Defs

namespace Pc.PsCore
open Pc.PsWheelSpec
open Pc.Sieve (Bytes)

theorem getD_setIfInBounds' (a : Bytes) (i j v : ℕ) :
    (a.setIfInBounds i v).getD j 0 = if i = j ∧ i < a.size then v else a.getD j 0 := by
  rw [Array.getD_eq_getD_getElem?, Array.getD_eq_getD_getElem?, Array.getElem?_setIfInBounds]
  by_cases hij : i = j
  · subst hij
    by_cases hlt : i < a.size
    · simp [hlt]
    · simp [hlt]
  · simp [hij]

theorem getD_ge_size (a : Bytes) (j : ℕ) (h : a.size ≤ j) : a.getD j 0 = 0 := by
  rw [Array.getD_eq_getD_getElem?, Array.getElem?_eq_none h]; rfl

/-- what the kernel writes at byte `off + i` -/
def kval (andOld : Bool) (t0 t1 t2 t3 : Bytes) (p0 p1 p2 p3 off : ℕ) (s : Bytes) (i : ℕ) : ℕ :=
  if andOld then
    (t0.getD (p0 + i) 0 &&& t1.getD (p1 + i) 0 &&& t2.getD (p2 + i) 0 &&& t3.getD (p3 + i) 0) &&& s.getD (off + i) 0
  else t0.getD (p0 + i) 0 &&& t1.getD (p1 + i) 0 &&& t2.getD (p2 + i) 0 &&& t3.getD (p3 + i) 0

theorem preKernel_succ (andOld : Bool) (t0 t1 t2 t3 : Bytes) (p0 p1 p2 p3 off n i : ℕ) (s : Bytes) :
    preKernel andOld t0 t1 t2 t3 p0 p1 p2 p3 off (n + 1) i s =
      preKernel andOld t0 t1 t2 t3 p0 p1 p2 p3 off n (i + 1)
        (s.setIfInBounds (off + i) (kval andOld t0 t1 t2 t3 p0 p1 p2 p3 off s i)) := by
  rw [preKernel]
  unfold kval
  cases andOld <;> rfl

theorem kval_congr (andOld : Bool) (t0 t1 t2 t3 : Bytes) (p0 p1 p2 p3 off : ℕ) (s s' : Bytes) (i : ℕ)
    (h : s'.getD (off + i) 0 = s.getD (off + i) 0) :
    kval andOld t0 t1 t2 t3 p0 p1 p2 p3 off s' i = kval andOld t0 t1 t2 t3 p0 p1 p2 p3 off s i := by
  unfold kval; rw [h]

theorem preKernel_spec (andOld : Bool) (t0 t1 t2 t3 : Bytes) (p0 p1 p2 p3 off : ℕ) : ∀ (n i : ℕ) (s : Bytes),
    (preKernel andOld t0 t1 t2 t3 p0 p1 p2 p3 off n i s).size = s.size ∧
    ∀ x, (preKernel andOld t0 t1 t2 t3 p0 p1 p2 p3 off n i s).getD x 0 =
      if off + i ≤ x ∧ x < off + i + n ∧ x < s.size then kval andOld t0 t1 t2 t3 p0 p1 p2 p3 off s (x - off)
      else s.getD x 0
  | 0, i, s => by
    refine ⟨rfl, fun x => ?_⟩
    rw [preKernel, if_neg (by omega)]
  | n + 1, i, s => by
    rw [preKernel_succ]
    have ih := preKernel_spec andOld t0 t1 t2 t3 p0 p1 p2 p3 off n (i + 1)
      (s.setIfInBounds (off + i) (kval andOld t0 t1 t2 t3 p0 p1 p2 p3 off s i))
    refine ⟨by rw [ih.1, Array.size_setIfInBounds], fun x => ?_⟩
    rw [ih.2 x, Array.size_setIfInBounds]
    by_cases h1 : off + (i + 1) ≤ x ∧ x < off + (i + 1) + n ∧ x < s.size
    · rw [if_pos h1, if_pos (by omega)]
      apply kval_congr
      rw [getD_setIfInBounds', if_neg (by omega)]
    · rw [if_neg h1, getD_setIfInBounds']
      by_cases h2 : off + i = x ∧ off + i < s.size
      · rw [if_pos h2, if_pos (by omega), show x - off = i by omega]
      · rw [if_neg h2, if_neg (by omega)]

/-! ### positions -/

/-- position `p` in buffer `t` belongs to sieve offset `off` (absolute byte `c + off`) -/
def PosInv (t : Bytes) (c off p : ℕ) : Prop := p ≤ t.size ∧ (c + off) % t.size = p % t.size

theorem PosInv.step {t : Bytes} {c off p n : ℕ} (h : PosInv t c off p) (hn : n ≤ t.size - p) :
    PosInv t c (off + n) (if p < t.size then p + n else 0) := by
  obtain ⟨h1, h2⟩ := h
  by_cases hp : p < t.size
  · rw [if_pos hp]
    refine ⟨by omega, ?_⟩
    rw [← Nat.add_assoc, Nat.add_mod, h2, ← Nat.add_mod]
  · rw [if_neg hp]
    have hpe : p = t.size := by omega
    have hn0 : n = 0 := by omega
    subst hn0
    refine ⟨Nat.zero_le _, ?_⟩
    rw [Nat.add_zero, h2, hpe, Nat.mod_self, Nat.zero_mod]

theorem PosInv.get {t : Bytes} {c off p i : ℕ} (h : PosInv t c off p) (hi : i < t.size - p) :
    t.getD (p + i) 0 = t.getD ((c + (off + i)) % t.size) 0 := by
  obtain ⟨_, h2⟩ := h
  have hp : p < t.size := by omega
  have e : (c + (off + i)) % t.size = p + i := by
    rw [← Nat.add_assoc, Nat.add_mod, h2, Nat.mod_eq_of_lt hp, Nat.mod_eq_of_lt (show i < t.size by omega),
      Nat.mod_eq_of_lt (by omega)]
  rw [e]

/-! ### the loop -/

/-- byte of the periodic buffer `t` at absolute position `c + x` -/
def perByte (t : Bytes) (c x : ℕ) : ℕ := t.getD ((c + x) % t.size) 0

/-- the AND of the four buffers at sieve byte `x` -/
def grpVal (t0 t1 t2 t3 : Bytes) (c0 c1 c2 c3 x : ℕ) : ℕ :=
  perByte t0 c0 x &&& perByte t1 c1 x &&& perByte t2 c2 x &&& perByte t3 c3 x

/-- what a group leaves in byte `x` (`s0` = the array before the group) -/
def grpTgt (andOld : Bool) (t0 t1 t2 t3 : Bytes) (c0 c1 c2 c3 : ℕ) (s0 : Bytes) (x : ℕ) : ℕ :=
  if andOld then grpVal t0 t1 t2 t3 c0 c1 c2 c3 x &&& s0.getD x 0 else grpVal t0 t1 t2 t3 c0 c1 c2 c3 x

theorem kval_eq_tgt (andOld : Bool) (t0 t1 t2 t3 : Bytes) (c0 c1 c2 c3 p0 p1 p2 p3 off : ℕ) (s s0 : Bytes) (i : ℕ)
    (h0 : PosInv t0 c0 off p0) (h1 : PosInv t1 c1 off p1) (h2 : PosInv t2 c2 off p2) (h3 : PosInv t3 c3 off p3)
    (i0 : i < t0.size - p0) (i1 : i < t1.size - p1) (i2 : i < t2.size - p2) (i3 : i < t3.size - p3)
    (hs : s.getD (off + i) 0 = s0.getD (off + i) 0) :
    kval andOld t0 t1 t2 t3 p0 p1 p2 p3 off s i = grpTgt andOld t0 t1 t2 t3 c0 c1 c2 c3 s0 (off + i) := by
  unfold kval grpTgt grpVal perByte
  rw [h0.get i0, h1.get i1, h2.get i2, h3.get i3, hs]

/-- the termination measure: two per remaining byte, one more while a position sits at the end of its buffer -/
def preMeasure (a0 a1 a2 a3 size off p0 p1 p2 p3 : ℕ) : ℕ :=
  2 * (size - off) + (if p0 = a0 ∨ p1 = a1 ∨ p2 = a2 ∨ p3 = a3 then 1 else 0)

theorem ite01_le (c : Prop) [Decidable c] : (if c then 1 else 0) ≤ 1 := by
  by_cases h : c
  · rw [if_pos h]
  · rw [if_neg h]; exact Nat.zero_le _

theorem nx_ne (p a : ℕ) (z : 0 < a) : (if p < a then p + 0 else 0) ≠ a := by
  split <;> omega

theorem preMeasure_step (a0 a1 a2 a3 size off p0 p1 p2 p3 n fuel : ℕ)
    (z0 : 0 < a0) (z1 : 0 < a1) (z2 : 0 < a2) (z3 : 0 < a3)
    (l0 : p0 ≤ a0) (l1 : p1 ≤ a1) (l2 : p2 ≤ a2) (l3 : p3 ≤ a3) (hoff : off < size)
    (hn : min (min (min (min (size - off) (a0 - p0)) (a1 - p1)) (a2 - p2)) (a3 - p3) = n)
    (h : preMeasure a0 a1 a2 a3 size off p0 p1 p2 p3 ≤ fuel + 1) :
    preMeasure a0 a1 a2 a3 size (off + n) (if p0 < a0 then p0 + n else 0) (if p1 < a1 then p1 + n else 0)
      (if p2 < a2 then p2 + n else 0) (if p3 < a3 then p3 + n else 0) ≤ fuel := by
  unfold preMeasure at h ⊢
  by_cases hz : n = 0
  · subst hz
    have hflag : p0 = a0 ∨ p1 = a1 ∨ p2 = a2 ∨ p3 = a3 := by
      simp only [Nat.min_eq_zero_iff] at hn
      rcases hn with (((e | e) | e) | e) | e
      · omega
      · left; omega
      · right; left; omega
      · right; right; left; omega
      · right; right; right; omega
    rw [if_pos hflag] at h
    have hnf : ¬ ((if p0 < a0 then p0 + 0 else 0) = a0 ∨ (if p1 < a1 then p1 + 0 else 0) = a1 ∨
        (if p2 < a2 then p2 + 0 else 0) = a2 ∨ (if p3 < a3 then p3 + 0 else 0) = a3) := by
      rintro (e | e | e | e)
      · exact nx_ne _ _ z0 e
      · exact nx_ne _ _ z1 e
      · exact nx_ne _ _ z2 e
      · exact nx_ne _ _ z3 e
    rw [if_neg hnf]
    clear hnf hn hflag
    omega
  · have hle : n ≤ size - off := by
      rw [← hn]
      exact le_trans (le_trans (le_trans (Nat.min_le_left _ _) (Nat.min_le_left _ _)) (Nat.min_le_left _ _))
        (Nat.min_le_left _ _)
    generalize hfl : (if (if p0 < a0 then p0 + n else 0) = a0 ∨ (if p1 < a1 then p1 + n else 0) = a1 ∨
        (if p2 < a2 then p2 + n else 0) = a2 ∨ (if p3 < a3 then p3 + n else 0) = a3 then 1 else 0) = fl
    have : fl ≤ 1 := by rw [← hfl]; exact ite01_le _
    have h' : 2 * (size - off) ≤ fuel + 1 := le_trans (Nat.le_add_right _ _) h
    clear hfl hn h
    omega

theorem preLoop_spec (andOld : Bool) (t0 t1 t2 t3 : Bytes) (c0 c1 c2 c3 : ℕ)
    (z0 : 0 < t0.size) (z1 : 0 < t1.size) (z2 : 0 < t2.size) (z3 : 0 < t3.size) (s0 : Bytes) :
    ∀ (fuel off p0 p1 p2 p3 : ℕ) (s : Bytes), s.size = s0.size →
      PosInv t0 c0 off p0 → PosInv t1 c1 off p1 → PosInv t2 c2 off p2 → PosInv t3 c3 off p3 →
      (∀ x, x < off → x < s0.size → s.getD x 0 = grpTgt andOld t0 t1 t2 t3 c0 c1 c2 c3 s0 x) →
      (∀ x, off ≤ x → s.getD x 0 = s0.getD x 0) →
      preMeasure t0.size t1.size t2.size t3.size s0.size off p0 p1 p2 p3 ≤ fuel →
      (preLoop andOld t0 t1 t2 t3 fuel off p0 p1 p2 p3 s).size = s0.size ∧
      ∀ x, x < s0.size → (preLoop andOld t0 t1 t2 t3 fuel off p0 p1 p2 p3 s).getD x 0 =
        grpTgt andOld t0 t1 t2 t3 c0 c1 c2 c3 s0 x
  | 0, off, p0, p1, p2, p3, s, hsz, _, _, _, _, hdone, _, hfuel => by
    rw [preLoop]
    unfold preMeasure at hfuel
    exact ⟨hsz, fun x hx => hdone x (by omega) hx⟩
  | fuel + 1, off, p0, p1, p2, p3, s, hsz, h0, h1, h2, h3, hdone, hrest, hfuel => by
    rw [preLoop]
    by_cases hoff : off < s.size
    · rw [if_pos hoff]
      simp only []
      generalize hn : min (min (min (min (s.size - off) (t0.size - p0)) (t1.size - p1)) (t2.size - p2)) (t3.size - p3) = n
      have n0 : n ≤ t0.size - p0 := by omega
      have n1 : n ≤ t1.size - p1 := by omega
      have n2 : n ≤ t2.size - p2 := by omega
      have n3 : n ≤ t3.size - p3 := by omega
      have ns : n ≤ s.size - off := by omega
      have ks := preKernel_spec andOld t0 t1 t2 t3 p0 p1 p2 p3 off n 0 s
      apply preLoop_spec andOld t0 t1 t2 t3 c0 c1 c2 c3 z0 z1 z2 z3 s0 fuel (off + n)
      · rw [ks.1, hsz]
      · exact h0.step n0
      · exact h1.step n1
      · exact h2.step n2
      · exact h3.step n3
      · intro x hx hxs
        rw [ks.2 x]
        by_cases hin : off + 0 ≤ x ∧ x < off + 0 + n ∧ x < s.size
        · rw [if_pos hin]
          have := kval_eq_tgt andOld t0 t1 t2 t3 c0 c1 c2 c3 p0 p1 p2 p3 off s s0 (x - off) h0 h1 h2 h3
            (by omega) (by omega) (by omega) (by omega) (hrest _ (by omega))
          rw [this, show off + (x - off) = x by omega]
        · rw [if_neg hin]
          exact hdone x (by omega) hxs
      · intro x hx
        rw [ks.2 x, if_neg (by omega)]
        exact hrest x (by omega)
      · exact preMeasure_step _ _ _ _ _ _ _ _ _ _ n fuel z0 z1 z2 z3 h0.1 h1.1 h2.1 h3.1 (by omega) (by rw [← hsz]; exact hn) hfuel
    · rw [if_neg hoff]
      exact ⟨hsz, fun x hx => hdone x (by omega) hx⟩

/-- `(segmentLow % (size * 30)) / 30` is the position of the absolute byte `segmentLow / 30` -/
theorem posInv_init (t : Bytes) (L : ℕ) (z : 0 < t.size) : PosInv t (L / 30) 0 ((L % (t.size * 30)) / 30) := by
  rw [Nat.mod_mul_left_div_self]
  exact ⟨le_of_lt (Nat.mod_lt _ z), by rw [Nat.add_zero, Nat.mod_mod]⟩

/-- one group of four non-empty buffers -/
theorem preGroup_spec (tabs : Array Bytes) (andOld : Bool) (i L : ℕ) (s : Bytes)
    (z0 : 0 < (tabs.getD (i + 0) #[]).size) (z1 : 0 < (tabs.getD (i + 1) #[]).size)
    (z2 : 0 < (tabs.getD (i + 2) #[]).size) (z3 : 0 < (tabs.getD (i + 3) #[]).size) :
    (preGroup tabs andOld i L s).size = s.size ∧
    ∀ x, x < s.size → (preGroup tabs andOld i L s).getD x 0 =
      grpTgt andOld (tabs.getD (i + 0) #[]) (tabs.getD (i + 1) #[]) (tabs.getD (i + 2) #[]) (tabs.getD (i + 3) #[])
        (L / 30) (L / 30) (L / 30) (L / 30) s x := by
  unfold preGroup
  simp only []
  apply preLoop_spec andOld _ _ _ _ (L / 30) (L / 30) (L / 30) (L / 30) z0 z1 z2 z3 s (2 * s.size + 16) 0 _ _ _ _ s rfl
    (posInv_init _ L z0) (posInv_init _ L z1) (posInv_init _ L z2) (posInv_init _ L z3)
  · intro x hx; omega
  · intro x _; rfl
  · unfold preMeasure
    split <;> omega

end Pc.PsCore
