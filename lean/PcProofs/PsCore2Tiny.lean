/-
C18 core, second half: `SievingPrimes::tinySieve()` is a correct odd-only sieve of Eratosthenes up to `√stop`.
-/
import PcProofs.PsCore2Defs
import Mathlib.Data.Nat.Prime.Basic
import Mathlib.Data.Nat.Sqrt
import Mathlib.Tactic.Ring

namespace Pc.PsCore

/-! ### array helpers -/

theorem getD_setIfInBounds_false (t : Array Bool) (j m : ℕ) :
    (t.setIfInBounds j false).getD m false = true ↔ m ≠ j ∧ t.getD m false = true := by
  simp only [Array.getD_eq_getD_getElem?, Array.getElem?_setIfInBounds]
  by_cases hjm : j = m
  · subst hjm
    by_cases hj : j < t.size
    · simp [hj]
    · simp [hj]
  · have : m ≠ j := fun h => hjm h.symm
    simp [hjm, this]

theorem getD_replicate_true (n m : ℕ) (h : m < n) : (Array.replicate n true).getD m false = true := by
  simp [Array.getD_eq_getD_getElem?, h]

/-! ### the inner loop -/

theorem tinyInner_size (n i : ℕ) : ∀ fuel j t, (tinyInner n i fuel j t).size = t.size
  | 0, _, _ => rfl
  | fuel + 1, j, t => by
    unfold tinyInner
    split
    · rw [tinyInner_size n i fuel]; simp
    · rfl

/-- the inner loop clears exactly `j, j + 2i, j + 4i, … ≤ n` -/
theorem tinyInner_getD (n i : ℕ) (hi : 0 < i) (m : ℕ) : ∀ fuel j t, n + 1 ≤ j + fuel →
    ((tinyInner n i fuel j t).getD m false = true ↔
      t.getD m false = true ∧ ¬ (m ≤ n ∧ ∃ k, m = j + 2 * i * k))
  | 0, j, t, hf => by
    unfold tinyInner
    constructor
    · intro h; refine ⟨h, ?_⟩
      rintro ⟨h1, k, rfl⟩; omega
    · exact fun h => h.1
  | fuel + 1, j, t, hf => by
    unfold tinyInner
    split
    · next hj =>
      rw [tinyInner_getD n i hi m fuel _ _ (by omega), getD_setIfInBounds_false]
      constructor
      · rintro ⟨⟨h1, h2⟩, h3⟩
        refine ⟨h2, ?_⟩
        rintro ⟨h4, k, hk⟩
        cases k with
        | zero => simp at hk; exact h1 hk
        | succ k => exact h3 ⟨h4, k, by rw [hk]; ring⟩
      · rintro ⟨h1, h2⟩
        refine ⟨⟨?_, h1⟩, ?_⟩
        · rintro rfl; exact h2 ⟨hj, 0, by simp⟩
        · rintro ⟨h4, k, hk⟩
          exact h2 ⟨h4, k + 1, by rw [hk]; ring⟩
    · next hj =>
      constructor
      · intro h; refine ⟨h, ?_⟩
        rintro ⟨h1, k, rfl⟩; omega
      · exact fun h => h.1

/-! ### the outer loop -/

/-- the outer-loop invariant at (odd) `i`: an odd `m ∈ [3, n]` is still marked iff it has no proper divisor in `[2, i)` -/
def TinyInv (n i : ℕ) (t : Array Bool) : Prop :=
  ∀ m, 3 ≤ m → m ≤ n → m % 2 = 1 → (t.getD m false = true ↔ ∀ d, 2 ≤ d → d < i → d ∣ m → d = m)

theorem tinyOuter_size (n : ℕ) : ∀ fuel i t, (tinyOuter n fuel i t).size = t.size
  | 0, _, _ => rfl
  | fuel + 1, i, t => by
    unfold tinyOuter
    split
    · rw [tinyOuter_size n fuel]
      split
      · exact tinyInner_size _ _ _ _ _
      · rfl
    · rfl

/-- odd `m = i·c` with odd `i` and `c ≥ i` is one of `i², i² + 2i, …` -/
theorem odd_mul_form {i c m : ℕ} (hm : m = i * c) (hmo : m % 2 = 1) (hio : i % 2 = 1) (hc : i ≤ c) :
    ∃ k, m = i * i + 2 * i * k := by
  have hco : c % 2 = 1 := by
    rcases Nat.mod_two_eq_zero_or_one c with h | h
    · exfalso
      have : m % 2 = 0 := by rw [hm, Nat.mul_mod, h]; simp
      omega
    · exact h
  refine ⟨(c - i) / 2, ?_⟩
  have h2 : c = i + 2 * ((c - i) / 2) := by omega
  rw [hm]
  conv_lhs => rw [h2]
  ring

theorem tinyInv_step_marked {n i : ℕ} {t : Array Bool} (h3 : 3 ≤ i) (hio : i % 2 = 1) (hinv : TinyInv n i t) :
    TinyInv n (i + 2) (tinyInner n i (n + 1) (i * i) t) := by
  intro m hm3 hmn hmo
  rw [tinyInner_getD n i (by omega) m (n + 1) (i * i) t (by omega), hinv m hm3 hmn hmo]
  constructor
  · rintro ⟨h1, h2⟩ d hd2 hdi hdm
    by_cases hlt : d < i
    · exact h1 d hd2 hlt hdm
    · by_cases hde : d = i
      · subst hde
        obtain ⟨c, hc⟩ := hdm
        by_contra hne
        -- `c` is odd, `c ≠ 1`, and `c` is a divisor of `m`
        by_cases hci : c < d
        · have hc2 : 2 ≤ c := by
            rcases c with _ | _ | c
            · simp at hc; omega
            · simp at hc; exact absurd hc.symm hne
            · omega
          have := h1 c hc2 hci ⟨d, by rw [hc]; ring⟩
          rw [hc] at this
          have h4 : c * 1 < d * c := by
            rw [Nat.mul_comm d c]; exact Nat.mul_lt_mul_of_pos_left (by omega) (by omega)
          omega
        · exact h2 ⟨hmn, odd_mul_form hc hmo hio (by omega)⟩
      · -- `d = i + 1` is even
        have hd : d = i + 1 := by omega
        subst hd
        obtain ⟨c, hc⟩ := hdm
        exfalso
        have : m % 2 = 0 := by
          rw [hc, Nat.mul_mod]
          have : (i + 1) % 2 = 0 := by omega
          rw [this]; simp
        omega
  · intro h
    refine ⟨fun d hd2 hdi hdm => h d hd2 (by omega) hdm, ?_⟩
    rintro ⟨_, k, hk⟩
    have := h i (by omega) (by omega) ⟨i + 2 * k, by rw [hk]; ring⟩
    rw [hk] at this
    have h5 : i * 1 < i * i := Nat.mul_lt_mul_of_pos_left (by omega) (by omega)
    have h6 : 0 ≤ 2 * i * k := Nat.zero_le _
    omega

theorem tinyInv_step_unmarked {n i : ℕ} {t : Array Bool} (h3 : 3 ≤ i) (hio : i % 2 = 1) (hin : i ≤ n)
    (hinv : TinyInv n i t) (hti : ¬ t.getD i false = true) : TinyInv n (i + 2) t := by
  intro m hm3 hmn hmo
  rw [hinv m hm3 hmn hmo]
  -- `i` has a proper divisor `e ∈ [2, i)`
  have hi := hinv i h3 hin hio
  have hex : ∃ e, 2 ≤ e ∧ e < i ∧ e ∣ i := by
    by_contra hno
    apply hti
    rw [hi]
    intro d hd2 hdi hdm
    exact absurd ⟨d, hd2, hdi, hdm⟩ hno
  obtain ⟨e, he2, hei, hedvd⟩ := hex
  constructor
  · intro h d hd2 hdi hdm
    by_cases hlt : d < i
    · exact h d hd2 hlt hdm
    · by_cases hde : d = i
      · subst hde
        have hem := h e he2 hei (dvd_trans hedvd hdm)
        -- `d ∣ m = e < d`
        have := Nat.le_of_dvd (by omega) hdm
        omega
      · have hd : d = i + 1 := by omega
        subst hd
        obtain ⟨c, hc⟩ := hdm
        exfalso
        have : m % 2 = 0 := by
          rw [hc, Nat.mul_mod]
          have : (i + 1) % 2 = 0 := by omega
          rw [this]; simp
        omega
  · intro h d hd2 hdi hdm
    exact h d hd2 (by omega) hdm

/-- the invariant with `i * i > n` is primality -/
theorem tinyInv_final {n i : ℕ} {t : Array Bool} (hi : n < i * i) (hinv : TinyInv n i t)
    (m : ℕ) (hm3 : 3 ≤ m) (hmn : m ≤ n) (hmo : m % 2 = 1) : (t.getD m false = true ↔ Nat.Prime m) := by
  rw [hinv m hm3 hmn hmo]
  constructor
  · intro h
    rw [Nat.prime_def_le_sqrt]
    refine ⟨by omega, ?_⟩
    intro d hd2 hds hdm
    have hdd : d * d ≤ m := Nat.le_sqrt.1 hds
    have hdi : d < i := by
      by_contra hge
      have : i * i ≤ d * d := Nat.mul_le_mul (by omega) (by omega)
      omega
    have := h d hd2 hdi hdm
    subst this
    have : d * 2 < d * d := Nat.mul_lt_mul_of_pos_left (by omega) (by omega)
    omega
  · intro hp d hd2 _ hdm
    rcases (Nat.dvd_prime hp).1 hdm with h | h
    · omega
    · exact h

theorem tinyOuter_spec (n : ℕ) : ∀ fuel i t, n + 1 ≤ i + fuel → 3 ≤ i → i % 2 = 1 → TinyInv n i t →
    ∀ m, 3 ≤ m → m ≤ n → m % 2 = 1 → ((tinyOuter n fuel i t).getD m false = true ↔ Nat.Prime m)
  | 0, i, t, hf, h3, hio, hinv => by
    unfold tinyOuter
    have : n < i * i := by
      have : i * 1 ≤ i * i := Nat.mul_le_mul_left i (by omega)
      omega
    exact tinyInv_final this hinv
  | fuel + 1, i, t, hf, h3, hio, hinv => by
    unfold tinyOuter
    split
    · next hii =>
      have hin : i ≤ n := by
        have : i * 1 ≤ i * i := Nat.mul_le_mul_left i (by omega)
        omega
      refine tinyOuter_spec n fuel (i + 2) _ (by omega) (by omega) (by omega) ?_
      split
      · exact tinyInv_step_marked h3 hio hinv
      · next hti => exact tinyInv_step_unmarked h3 hio hin hinv hti
    · next hii => exact tinyInv_final (by omega) hinv

theorem tinyInv_init (n : ℕ) : TinyInv n 3 (Array.replicate (n + 1) true) := by
  intro m hm3 hmn hmo
  rw [getD_replicate_true _ _ (by omega)]
  simp only [true_iff]
  intro d hd2 hd3 hdm
  have : d = 2 := by omega
  subst this
  omega

/-! ### `tinySieve` -/

theorem tinySieve_size (stop : ℕ) : (tinySieve stop).size = Nat.sqrt stop + 1 := by
  unfold tinySieve isqrt
  simp only [tinyOuter_size, Array.size_replicate]

theorem tinySieve_spec (stop i : ℕ) (hi : i ≤ Nat.sqrt stop) (h3 : 3 ≤ i) (hodd : i % 2 = 1) :
    ((tinySieve stop).getD i false = true ↔ Nat.Prime i) := by
  unfold tinySieve isqrt
  exact tinyOuter_spec (Nat.sqrt stop) (Nat.sqrt stop + 1) 3 _ (by omega) (le_refl _) (by omega)
    (tinyInv_init _) i h3 hi hodd

end Pc.PsCore
