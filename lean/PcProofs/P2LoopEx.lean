/-
WP p2b — witnesses that the hypotheses of the P2/B loop theorems are satisfiable:

* `refIter` : an iterator that meets `IterSpec` with LARGE batches (all primes of `[n, 2n+2]` per batch).
* `listIter`: a literal-table iterator with batches of a chosen size, small enough for kernel evaluation of the
              loop model on concrete inputs.
-/
import PcProofs.P2Loop2
import Mathlib.NumberTheory.Bertrand

namespace Pc.P2L
open Nat Finset
open scoped Nat.Prime

/-- reference iterator: `prev n` = largest prime `≤ n` (0 if none); a batch = all primes of `[n, 2n+2]` -/
def refIter : Iter where
  prev n := Nat.findGreatest Nat.Prime n
  next n := (List.range' n (n + 3)).filter Nat.Prime

theorem le_getLast_of_pairwise : ∀ {l : List ℕ}, l.Pairwise (· < ·) → ∀ L, l.getLast? = some L → ∀ q ∈ l, q ≤ L
  | [], _, _, _, q, hq => by simp at hq
  | [a], _, L, hL, q, hq => by
    simp only [List.getLast?_singleton, Option.some.injEq] at hL
    rw [List.mem_singleton] at hq; omega
  | a :: b :: t, hs, L, hL, q, hq => by
    rw [List.getLast?_cons_cons] at hL
    rw [List.pairwise_cons] at hs
    have ih := le_getLast_of_pairwise hs.2 L hL
    rcases List.mem_cons.1 hq with rfl | hq'
    · have h1 := hs.1 b List.mem_cons_self
      have h2 := ih b List.mem_cons_self
      omega
    · exact ih q hq'

theorem refIter_spec : IterSpec refIter := by
  refine ⟨?_, ?_, ?_, ?_, ?_, ?_⟩
  · intro n; exact Nat.findGreatest_le n
  · intro n h; exact Nat.findGreatest_of_ne_zero rfl h
  · intro n q hq hle; exact Nat.le_findGreatest hle hq
  · intro n
    show (List.range' n (n + 3)).filter Nat.Prime ≠ []
    rw [Ne, List.filter_eq_nil_iff]
    push Not
    rcases Nat.eq_zero_or_pos n with rfl | hn
    · exact ⟨2, by decide, by decide⟩
    · obtain ⟨p, hp, h1, h2⟩ := Nat.exists_prime_lt_and_le_two_mul n (by omega)
      refine ⟨p, ?_, by simpa using hp⟩
      rw [List.mem_range'_1]; omega
  · intro n
    show ((List.range' n (n + 3)).filter Nat.Prime).Pairwise (· < ·)
    exact (List.pairwise_lt_range' (s := n) (n := n + 3)).filter _
  · intro n L hL q
    have hs : ((List.range' n (n + 3)).filter Nat.Prime).Pairwise (· < ·) :=
      (List.pairwise_lt_range' (s := n) (n := n + 3)).filter _
    have hLm : L ∈ (List.range' n (n + 3)).filter Nat.Prime := List.mem_of_getLast? hL
    show q ∈ (List.range' n (n + 3)).filter Nat.Prime ↔ _
    constructor
    · intro hq
      have hle := le_getLast_of_pairwise hs L hL q hq
      rw [List.mem_filter, List.mem_range'_1] at hq
      exact ⟨by simpa using hq.2, hq.1.1, hle⟩
    · rintro ⟨h1, h2, h3⟩
      rw [List.mem_filter, List.mem_range'_1] at hLm ⊢
      exact ⟨⟨h2, by omega⟩, by simpa using h1⟩

/-- the opposite extreme: every batch holds ONE prime -/
def oneIter : Iter where
  prev n := Nat.findGreatest Nat.Prime n
  next n := [Nat.find (Nat.exists_infinite_primes n)]

theorem oneIter_spec : IterSpec oneIter := by
  refine ⟨?_, ?_, ?_, ?_, ?_, ?_⟩
  · intro n; exact Nat.findGreatest_le n
  · intro n h; exact Nat.findGreatest_of_ne_zero rfl h
  · intro n q hq hle; exact Nat.le_findGreatest hle hq
  · intro n; exact List.cons_ne_nil _ _
  · intro n; exact List.pairwise_singleton _ _
  · intro n L hL q
    have hL' : L = Nat.find (Nat.exists_infinite_primes n) := by
      have : [Nat.find (Nat.exists_infinite_primes n)].getLast? = some L := hL
      simpa using this.symm
    have hsp := Nat.find_spec (Nat.exists_infinite_primes n)
    show q ∈ [Nat.find (Nat.exists_infinite_primes n)] ↔ _
    rw [List.mem_singleton, hL']
    constructor
    · rintro rfl; exact ⟨hsp.2, hsp.1, Nat.le_refl _⟩
    · rintro ⟨h1, h2, h3⟩
      have := Nat.find_min' (Nat.exists_infinite_primes n) ⟨h2, h1⟩
      omega

/-- literal-table iterator: `ps` increasing list of primes, batches of `k` -/
def listIter (ps : List ℕ) (k : ℕ) : Iter where
  prev n := ((ps.filter (· ≤ n)).getLast?).getD 0
  next n := (ps.filter (n ≤ ·)).take k

def listPi (ps : List ℕ) (n : ℕ) : ℕ := (ps.filter (· ≤ n)).length

def primes60 : List ℕ := [2, 3, 5, 7, 11, 13, 17, 19, 23, 29, 31, 37, 41, 43, 47, 53, 59]

end Pc.P2L
