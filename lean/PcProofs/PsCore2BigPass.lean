/-
C18 core, EratBig: one pass over a detached bucket list (`bigPass`) — the pure parts of `bigStep`, membership in the bucket
lists after the pass, bits of the sieve array after the pass.
-/
import PcProofs.PsCore2Defs

namespace Pc.PsCore
open Pc.PsWheelSpec
open Pc.Sieve (Bytes clearBit bitAt bitAt_clear)

/-- target bucket list of one visit (does not depend on the sieve array) -/
def bigSeg (log2 : ℕ) (p : SPrime) : ℕ := (bigStep log2 p #[]).1
/-- packed state stored by one visit (does not depend on the sieve array) -/
def bigNew (log2 : ℕ) (p : SPrime) : SPrime := (bigStep log2 p #[]).2.1
/-- the write of one visit -/
def bigClr (p : SPrime) (s : Bytes) : Bytes := s.modify p.mi (clearBit · (Gen.psWheel210.getD p.wi (0, 0, 0, 0)).1)

theorem bigStep_eq (log2 : ℕ) (p : SPrime) (s : Bytes) : bigStep log2 p s = (bigSeg log2 p, bigNew log2 p, bigClr p s) := rfl

def bigPassB (log2 : ℕ) (l : List SPrime) (b : Buckets) : Buckets :=
  l.foldl (fun b p => b.modify (bigSeg log2 p) (·.push (bigNew log2 p))) b
def bigPassS (l : List SPrime) (s : Bytes) : Bytes := l.foldl (fun s p => bigClr p s) s

theorem bigPass_list (log2 : ℕ) : ∀ (l : List SPrime) (b : Buckets) (s : Bytes),
    l.foldl (fun acc p => let r := bigStep log2 p acc.2; (acc.1.modify r.1 (·.push r.2.1), r.2.2)) (b, s) =
      (bigPassB log2 l b, bigPassS l s)
  | [], b, s => rfl
  | p :: l, b, s => by
    rw [List.foldl_cons]
    exact bigPass_list log2 l _ _

theorem bigPass_eq (log2 : ℕ) (l : Array SPrime) (b : Buckets) (s : Bytes) :
    bigPass log2 l b s = (bigPassB log2 l.toList b, bigPassS l.toList s) := by
  unfold bigPass
  rw [← Array.foldl_toList]
  exact bigPass_list log2 l.toList b s

/-! ### bucket lists -/

theorem mem_modify_push (b : Buckets) (i k : ℕ) (x y : SPrime) (hi : i < b.size) :
    y ∈ ((b.modify i (·.push x)).getD k #[]).toList ↔ y ∈ (b.getD k #[]).toList ∨ (i = k ∧ y = x) := by
  rw [Array.getD_eq_getD_getElem?, Array.getD_eq_getD_getElem?, Array.getElem?_modify]
  by_cases h : i = k
  · subst h
    rw [Array.getElem?_eq_getElem hi]
    simp
  · simp [h]

theorem size_bigPassB (log2 : ℕ) : ∀ (l : List SPrime) (b : Buckets), (bigPassB log2 l b).size = b.size
  | [], b => rfl
  | p :: l, b => by
    unfold bigPassB
    rw [List.foldl_cons]
    have := size_bigPassB log2 l (b.modify (bigSeg log2 p) (·.push (bigNew log2 p)))
    unfold bigPassB at this
    rw [this, Array.size_modify]

theorem mem_bigPassB (log2 : ℕ) : ∀ (l : List SPrime) (b : Buckets), (∀ p ∈ l, bigSeg log2 p < b.size) → ∀ k y,
    (y ∈ ((bigPassB log2 l b).getD k #[]).toList ↔
      (y ∈ (b.getD k #[]).toList ∨ ∃ p ∈ l, bigSeg log2 p = k ∧ y = bigNew log2 p))
  | [], b, _, k, y => by simp [bigPassB]
  | p :: l, b, h, k, y => by
    have ih := mem_bigPassB log2 l (b.modify (bigSeg log2 p) (·.push (bigNew log2 p)))
      (by intro p' hp'; rw [Array.size_modify]; exact h p' (List.mem_cons_of_mem _ hp')) k y
    have e : bigPassB log2 (p :: l) b = bigPassB log2 l (b.modify (bigSeg log2 p) (·.push (bigNew log2 p))) := rfl
    rw [e, ih, mem_modify_push b _ k _ y (h p (List.mem_cons_self ..))]
    constructor
    · rintro ((h1 | ⟨h1, h2⟩) | ⟨p', hp', h1, h2⟩)
      · exact Or.inl h1
      · exact Or.inr ⟨p, List.mem_cons_self .., h1, h2⟩
      · exact Or.inr ⟨p', List.mem_cons_of_mem _ hp', h1, h2⟩
    · rintro (h1 | ⟨p', hp', h1, h2⟩)
      · exact Or.inl (Or.inl h1)
      · rcases List.mem_cons.mp hp' with rfl | hp''
        · exact Or.inl (Or.inr ⟨h1, h2⟩)
        · exact Or.inr ⟨p', hp'', h1, h2⟩

/-! ### one visit, in the vocabulary of `BStored` -/

theorem big_step_stored (L log2 : ℕ) (hL : 30 ∣ L) (hlog : log2 ≤ 23) (p : SPrime) (q u : ℕ)
    (h : BStored L log2 p (q, u)) :
    ∃ k, 1 ≤ k ∧ BStored (L + 30 * (2 ^ log2 * bigSeg log2 p)) log2 (bigNew log2 p) (q, u + k) ∧
      (∀ t, u < t → t < u + k → ¬ Nat.Coprime t 210) ∧ (bigNew log2 p).sp = p.sp ∧
      bigSeg log2 p ≤ (2 ^ log2 - 1 + (p.sp * 10 + 10)) >>> log2 := by
  obtain ⟨hq, hq32, hsp, hmi, hpos⟩ := h
  simp only at hq hq32 hsp hpos
  obtain ⟨_, _, hpos2, hk, _, hkle, hcle⟩ := pos_step tabOk_210 hpos (by simpa using hL) L 0 (by simp)
  have hb := big_step q L log2 hL hlog hq32 p u hpos hsp #[]
  simp only at hb
  obtain ⟨hp', hsp', _, hgap⟩ := hb
  set e := Gen.psWheel210.getD p.wi (0, 0, 0, 0) with he
  have hidx : e.2.2.2 < 2 ^ 9 := by
    obtain ⟨g, j, U, hg, hj, _, _, hi, _⟩ := hpos2
    rw [hi]; omega
  have hlt : (p.mi + e.2.1 * p.sp + e.2.2.1) % 2 ^ log2 < 2 ^ 23 :=
    lt_of_lt_of_le (Nat.mod_lt _ (Nat.two_pow_pos log2)) (Nat.pow_le_pow_right (by norm_num) hlog)
  obtain ⟨_, e2, _⟩ := sprime_roundtrip p.sp ((p.mi + e.2.1 * p.sp + e.2.2.1) % 2 ^ log2) e.2.2.2
    (by rw [hsp]; omega) hlt hidx
  have hnew : bigNew log2 p = SPrime.set p.sp ((p.mi + e.2.1 * p.sp + e.2.2.1) % 2 ^ log2) e.2.2.2 := by
    rw [← Nat.and_two_pow_sub_one_eq_mod]; rfl
  refine ⟨e.2.1, hk, ⟨hq, hq32, ?_, ?_, hp'⟩, hgap, ?_, ?_⟩
  · show (bigNew log2 p).sp = q / 30
    exact hsp'
  · rw [hnew, e2]; exact Nat.mod_lt _ (Nat.two_pow_pos log2)
  · show (bigNew log2 p).sp = p.sp
    rw [hsp]; exact hsp'
  · show (p.mi + e.2.1 * p.sp + e.2.2.1) >>> log2 ≤ _
    rw [Nat.shiftRight_eq_div_pow, Nat.shiftRight_eq_div_pow]
    apply Nat.div_le_div_right
    have : e.2.1 * p.sp ≤ 10 * p.sp := Nat.mul_le_mul_right _ hkle
    omega

/-- the pending multiple of a stored prime lies in byte `mi` of its segment -/
theorem stored_range {Lk log2 : ℕ} {p : SPrime} {q u : ℕ} (hLk : 30 ∣ Lk) (h : BStored Lk log2 p (q, u)) :
    Lk + 30 * p.mi + 7 ≤ q * u ∧ q * u < Lk + 30 * p.mi + 37 := by
  obtain ⟨_, _, _, _, g, j, U, _, _, _, _, _, hbyte⟩ := h
  simp only at hbyte
  unfold byteP1 at hbyte
  obtain ⟨c, rfl⟩ := hLk
  rw [show 30 * c / 30 = c by omega] at hbyte
  omega

theorem stored_coprime {Lk log2 : ℕ} {p : SPrime} {q u : ℕ} (h : BStored Lk log2 p (q, u)) : Nat.Coprime u 210 :=
  pos_coprime tabOk_210 h.pos

/-! ### bits -/

theorem bigClr_bits (L log2 : ℕ) (hL : 30 ∣ L) (hlog : log2 ≤ 23) (p : SPrime) (h : ∃ q u, BStored L log2 p (q, u))
    (s : Bytes) (pb : ℕ) :
    bitAt (bigClr p s) pb = true ↔ (bitAt s pb = true ∧ ∀ q u, BStored L log2 p (q, u) → q * u ≠ numOf L pb) := by
  have key : ∀ q u, BStored L log2 p (q, u) → (bitAt (bigClr p s) pb = true ↔ (bitAt s pb = true ∧ q * u ≠ numOf L pb)) := by
    intro q u hst
    have hb := big_step q L log2 hL hlog hst.q_lt p u hst.pos hst.sp s
    simp only at hb
    exact hb.2.2.1 pb
  obtain ⟨q0, u0, h0⟩ := h
  constructor
  · intro hc
    refine ⟨((key q0 u0 h0).mp hc).1, fun q u hst => ((key q u hst).mp hc).2⟩
  · rintro ⟨h1, h2⟩
    exact (key q0 u0 h0).mpr ⟨h1, h2 q0 u0 h0⟩

theorem size_bigPassS : ∀ (l : List SPrime) (s : Bytes), (bigPassS l s).size = s.size
  | [], s => rfl
  | p :: l, s => by
    have e : bigPassS (p :: l) s = bigPassS l (bigClr p s) := rfl
    rw [e, size_bigPassS l]
    unfold bigClr
    rw [Array.size_modify]

theorem bigPassS_bits (L log2 : ℕ) (hL : 30 ∣ L) (hlog : log2 ≤ 23) : ∀ (l : List SPrime) (s : Bytes),
    (∀ p ∈ l, ∃ q u, BStored L log2 p (q, u)) → ∀ pb,
    (bitAt (bigPassS l s) pb = true ↔
      (bitAt s pb = true ∧ ∀ p ∈ l, ∀ q u, BStored L log2 p (q, u) → q * u ≠ numOf L pb))
  | [], s, _, pb => by simp [bigPassS]
  | p :: l, s, h, pb => by
    have e : bigPassS (p :: l) s = bigPassS l (bigClr p s) := rfl
    rw [e, bigPassS_bits L log2 hL hlog l (bigClr p s) (fun p' hp' => h p' (List.mem_cons_of_mem _ hp')) pb,
      bigClr_bits L log2 hL hlog p (h p (List.mem_cons_self ..)) s pb]
    constructor
    · rintro ⟨⟨h1, h2⟩, h3⟩
      refine ⟨h1, ?_⟩
      intro p' hp'
      rcases List.mem_cons.mp hp' with rfl | hp''
      · exact h2
      · exact h3 p' hp''
    · rintro ⟨h1, h2⟩
      exact ⟨⟨h1, h2 p (List.mem_cons_self ..)⟩, fun p' hp' => h2 p' (List.mem_cons_of_mem _ hp')⟩

/-- every byte stays below 256 -/
theorem bigPassS_bytes : ∀ (l : List SPrime) (s : Bytes), (∀ k, s.getD k 0 < 256) → ∀ k, (bigPassS l s).getD k 0 < 256
  | [], _, hs, k => hs k
  | p :: l, s, hs, k => by
    have e : bigPassS (p :: l) s = bigPassS l (bigClr p s) := rfl
    rw [e]
    apply bigPassS_bytes l
    intro k
    unfold bigClr
    rw [Pc.Sieve.getD_modify s p.mi k (fun x => clearBit x (Gen.psWheel210.getD p.wi (0, 0, 0, 0)).1)
      (Pc.Sieve.clearBit_zero _)]
    split
    · exact lt_of_le_of_lt (Pc.Sieve.clearBit_le _ _) (hs k)
    · exact hs k

end Pc.PsCore
