/-
WP hard: the segmented engine shared by `S2_hard_thread` and `D_thread` (`leafFold` / `levelLoop` / `segLoop` of
PcModel/HardLoops.lean) over an abstract counting sieve (`SieveSpec`) and an abstract per-level leaf enumeration `lv`.

`engine_spec`: if in every segment `[lo, hi)` of the chunk every level either breaks (`brk b lo`, monotone in `lo`, and then no
level `≥ b` has a leaf at a position `≥ lo`) or enumerates leaves at non-decreasing positions inside `[lo, hi)` worth
`W b lo hi`, the engine returns `Σ_b W b low limit` — with the invariant "`phi[b] = φ(lo − 1, b − 1)` for every level below the
first level that ever broke", and the sieve used in the disciplined way `SieveSpec` asks for (a level is crossed off in a
segment only if it was crossed off in every earlier segment of the chunk).
-/
import PcProofs.HardSieve
import PcProofs.SimpleAlgsSeg

namespace Pc.Hard
open Nat Finset
open Pc.SimpleAlgs (getD_setIfInBounds)

/-- value of a list of leaves `(position, weight)` of level `b` -/
noncomputable def itemSum (b : ℕ) : List (ℕ × ℤ) → ℤ
  | [] => 0
  | (pos, w) :: rest => w * (Spec.phi pos (b - 1) : ℤ) + itemSum b rest

/-- positions inside `[lo, hi)`, visited in non-decreasing order, the first one `≥ lo + prev` -/
def ItemsOK (lo hi : ℕ) : ℕ → List (ℕ × ℤ) → Prop
  | _, [] => True
  | prev, (pos, _) :: rest => lo + prev ≤ pos ∧ pos < hi ∧ ItemsOK lo hi (pos - lo) rest

theorem cnt_add (L lvl stop : ℕ) :
    (Spec.phi (L - 1) lvl : ℤ) + (cnt L lvl stop : ℤ) = (Spec.phi (L + stop) lvl : ℤ) := by
  unfold cnt
  have : Spec.phi (L - 1) lvl ≤ Spec.phi (L + stop) lvl := Spec.phi_mono_left lvl (by omega)
  omega

variable {σ : Type} {S : SieveOps σ} {Kmax : ℕ}

/-- the leaf loop of one level in one segment -/
theorem leafFold_spec (hS : SieveSpec S Kmax) {lo n lvl K seg : ℕ} (phib : ℤ)
    (hphib : phib = (Spec.phi (lo - 1) lvl : ℤ)) :
    ∀ (items : List (ℕ × ℤ)) (s : σ) (prev : ℕ) (sum : ℤ), hS.Seg s lo n lvl K prev seg → ItemsOK lo (lo + n) prev items →
      ∃ s' prev', leafFold S lo n phib items s sum = .ok (s', sum + itemSum (lvl + 1) items) ∧
        hS.Seg s' lo n lvl K prev' seg := by
  intro items
  induction items with
  | nil =>
    intro s prev sum hseg _
    exact ⟨s, prev, by simp [leafFold, itemSum], hseg⟩
  | cons it rest ih =>
    obtain ⟨pos, w⟩ := it
    intro s prev sum hseg hok
    obtain ⟨h1, h2, h3⟩ := hok
    have hcond : ¬ (pos < lo ∨ n ≤ pos - lo) := by omega
    rw [leafFold, if_neg hcond]
    have hv := hS.count_val s lo n lvl K prev seg (pos - lo) hseg (by omega) (by omega)
    have hs := hS.count_seg s lo n lvl K prev seg (pos - lo) hseg (by omega) (by omega)
    obtain ⟨s', prev', e1, e2⟩ := ih (S.count s (pos - lo)).1 (pos - lo)
      (sum + w * (phib + ((S.count s (pos - lo)).2 : ℤ))) hs h3
    refine ⟨s', prev', ?_, e2⟩
    rw [e1, hv, hphib]
    congr 2
    have := cnt_add lo lvl (pos - lo)
    have e : lo + (pos - lo) = pos := by omega
    rw [e] at this
    simp only [itemSum, Nat.add_sub_cancel]
    rw [← this]; ring

/-- what the level enumeration must deliver for the chunk `[low0, limit)` and the levels `[minB, maxB]` -/
structure LvSpec (lv : ℕ → ℕ → ℕ → Except Err (Option (List (ℕ × ℤ)))) (brk : ℕ → ℕ → Prop) (W : ℕ → ℕ → ℕ → ℤ)
    (minB maxB low0 limit : ℕ) : Prop where
  brk_none : ∀ b lo hi, minB ≤ b → b ≤ maxB → low0 ≤ lo → lo < hi → hi ≤ limit → brk b lo → lv b lo hi = .ok none
  items : ∀ b lo hi, minB ≤ b → b ≤ maxB → low0 ≤ lo → lo < hi → hi ≤ limit → ¬ brk b lo →
    ∃ its, lv b lo hi = .ok (some its) ∧ ItemsOK lo hi 0 its ∧ itemSum b its = W b lo hi
  brk_mono : ∀ b lo lo', minB ≤ b → b ≤ maxB → lo ≤ lo' → brk b lo → brk b lo'
  brk_zero : ∀ b lo, minB ≤ b → b ≤ maxB → brk b lo → ∀ b' lo' hi', b ≤ b' → b' ≤ maxB → lo ≤ lo' → W b' lo' hi' = 0
  W_add : ∀ b lo mid hi, lo ≤ mid → mid ≤ hi → W b lo mid + W b mid hi = W b lo hi
  W_empty : ∀ b lo, W b lo lo = 0

/-- some level `≤ b` (from `minB` on) breaks at `lo`: then level `b` is never reached in a segment starting at or after `lo` -/
def Dead (brk : ℕ → ℕ → Prop) (minB b lo : ℕ) : Prop := ∃ b0, minB ≤ b0 ∧ b0 ≤ b ∧ brk b0 lo

/-- the level loops of ONE segment `[lo, hi)` -/
theorem levelLoop_spec (hS : SieveSpec S Kmax) {lv : ℕ → ℕ → ℕ → Except Err (Option (List (ℕ × ℤ)))} {brk : ℕ → ℕ → Prop}
    {W : ℕ → ℕ → ℕ → ℤ} {minB maxB low0 limit : ℕ} (hL : LvSpec lv brk W minB maxB low0 limit) {prime : ℕ → ℕ}
    (hprime : ∀ b, minB ≤ b → b ≤ maxB → prime b = Spec.p b) (hminB : 1 ≤ minB)
    {lo hi seg E : ℕ} (h0 : low0 ≤ lo) (hlh : lo < hi) (hhl : hi ≤ limit) (hE : E ≤ maxB + 1) :
    ∀ (fuel b : ℕ) (s : σ) (phi : Array ℤ) (sum : ℤ), maxB + 1 ≤ b + fuel → minB ≤ b → b ≤ E →
      hS.Seg s lo (hi - lo) (b - 1) (E - 1) 0 seg → phi.size = maxB + 1 →
      (∀ b', minB ≤ b' → b' < b → phi.getD b' 0 = (Spec.phi (hi - 1) (b' - 1) : ℤ)) →
      (∀ b', b ≤ b' → b' < E → phi.getD b' 0 = (Spec.phi (lo - 1) (b' - 1) : ℤ)) →
      (∀ b', minB ≤ b' → b' < b → ¬ brk b' lo) →
      (∀ b', E ≤ b' → b' ≤ maxB → Dead brk minB b' lo) →
      ∃ s' phi' E' prev', levelLoop S (fun b => lv b lo hi) prime lo (hi - lo) maxB fuel b s phi sum
          = .ok (s', phi', sum + ∑ b' ∈ Icc b maxB, W b' lo hi) ∧
        minB ≤ E' ∧ E' ≤ E ∧ hS.Seg s' lo (hi - lo) (E' - 1) (E - 1) prev' seg ∧ phi'.size = maxB + 1 ∧
        (∀ b', minB ≤ b' → b' < E' → phi'.getD b' 0 = (Spec.phi (hi - 1) (b' - 1) : ℤ)) ∧
        (∀ b', E' ≤ b' → b' ≤ maxB → Dead brk minB b' lo) := by
  intro fuel
  induction fuel with
  | zero =>
    intro b s phi sum hf hb hbE hseg hsz hdone _ _ hdead
    refine ⟨s, phi, b, 0, ?_, hb, hbE, hseg, hsz, hdone, fun b' h1 h2 => by omega⟩
    rw [levelLoop, Finset.Icc_eq_empty (by omega)]; simp
  | succ fuel ih =>
    intro b s phi sum hf hb hbE hseg hsz hdone hpend hlive hdead
    by_cases hbm : b ≤ maxB
    swap
    · refine ⟨s, phi, b, 0, ?_, hb, hbE, hseg, hsz, hdone, fun b' h1 h2 => by omega⟩
      rw [levelLoop, if_neg hbm, Finset.Icc_eq_empty (by omega)]; simp
    rw [levelLoop, if_pos hbm]
    by_cases hbrk : brk b lo
    · -- goto next_segment
      rw [hL.brk_none b lo hi hb hbm h0 hlh hhl hbrk]
      refine ⟨s, phi, b, 0, ?_, hb, hbE, hseg, hsz, hdone, ?_⟩
      · simp only []
        rw [Finset.sum_eq_zero, add_zero]
        intro b' hb'
        rw [mem_Icc] at hb'
        exact hL.brk_zero b lo hb hbm hbrk b' lo hi hb'.1 hb'.2 le_rfl
      · intro b' h1 _
        exact ⟨b, hb, h1, hbrk⟩
    · -- the level is processed
      have hbE' : b < E := by
        by_contra hge
        obtain ⟨b0, g1, g2, g3⟩ := hdead b (by omega) hbm
        rcases Nat.lt_or_ge b0 b with hlt | hge'
        · exact hlive b0 g1 hlt g3
        · have : b0 = b := by omega
          subst this; exact hbrk g3
      obtain ⟨its, hlv, hok, hsum⟩ := hL.items b lo hi hb hbm h0 hlh hhl hbrk
      rw [hlv]
      simp only []
      rw [if_neg (by omega)]
      have hphib := hpend b le_rfl hbE'
      have hlvl : b - 1 + 1 = b := by omega
      have ehi : lo + (hi - lo) = hi := by omega
      obtain ⟨s1, prev1, hfold, hseg1⟩ := leafFold_spec hS (phi.getD b 0) hphib its s 0 sum hseg (by rw [ehi]; exact hok)
      rw [hlvl] at hfold
      rw [hfold]
      simp only []
      have htot := hS.total_val s1 lo (hi - lo) (b - 1) (E - 1) prev1 seg hseg1
      have hcross := hS.cross_seg s1 lo (hi - lo) (b - 1) (E - 1) prev1 seg hseg1 (by omega)
      rw [hlvl] at hcross
      rw [← hprime b hb hbm] at hcross
      have hnewphi : phi.getD b 0 + (S.total s1 : ℤ) = (Spec.phi (hi - 1) (b - 1) : ℤ) := by
        rw [hphib, htot]
        have := cnt_add lo (b - 1) (hi - lo - 1)
        have e : lo + (hi - lo - 1) = hi - 1 := by omega
        rw [e] at this; exact this
      rw [hnewphi]
      have hb1 : b + 1 - 1 = b := by omega
      obtain ⟨s', phi', E', prev', r1, r2, r3, r4, r5, r6, r7⟩ := ih (b + 1) (S.cross s1 (prime b) b)
        (phi.setIfInBounds b (Spec.phi (hi - 1) (b - 1) : ℤ)) (sum + itemSum b its) (by omega) (by omega) (by omega)
        (by rw [hb1]; exact hcross) (by rw [Array.size_setIfInBounds]; exact hsz)
        (fun b' h1 h2 => by
          rw [getD_setIfInBounds]
          by_cases hbb : b = b'
          · subst hbb; rw [if_pos ⟨rfl, by omega⟩]
          · rw [if_neg (fun h => hbb h.1)]; exact hdone b' h1 (by omega))
        (fun b' h1 h2 => by
          rw [getD_setIfInBounds, if_neg (by omega)]; exact hpend b' (by omega) h2)
        (fun b' h1 h2 => by
          rcases Nat.lt_or_ge b' b with hlt | hge
          · exact hlive b' h1 hlt
          · have : b' = b := by omega
            subst this; exact hbrk)
        hdead
      refine ⟨s', phi', E', prev', ?_, r2, r3, r4, r5, r6, r7⟩
      rw [r1]
      congr 2
      have hI : Icc b maxB = insert b (Icc (b + 1) maxB) := by
        ext i; rw [mem_insert, mem_Icc, mem_Icc]; omega
      rw [hI, Finset.sum_insert (by rw [mem_Icc]; omega), hsum]; ring

theorem segLoop_done {lv : ℕ → ℕ → ℕ → Except Err (Option (List (ℕ × ℤ)))} {prime : ℕ → ℕ} {minB maxB limit segSize : ℕ}
    {lo : ℕ} (h : limit ≤ lo) (n : ℕ) (s : σ) (phi : Array ℤ) (sum : ℤ) :
    segLoop S lv prime minB maxB limit segSize n lo s phi sum = .ok sum := by
  cases n with
  | zero => rw [segLoop, if_neg (by omega)]
  | succ n => rw [segLoop, if_neg (by omega)]

/-- the segment loop -/
theorem segLoop_spec (hS : SieveSpec S Kmax) {lv : ℕ → ℕ → ℕ → Except Err (Option (List (ℕ × ℤ)))} {brk : ℕ → ℕ → Prop}
    {W : ℕ → ℕ → ℕ → ℤ} {minB maxB low0 limit : ℕ} (hL : LvSpec lv brk W minB maxB low0 limit) {prime : ℕ → ℕ}
    (hprime : ∀ b, minB ≤ b → b ≤ maxB → prime b = Spec.p b) (hminB : 4 ≤ minB) {segSize : ℕ} (hseg : 1 ≤ segSize) :
    ∀ (fuel lo E : ℕ) (s : σ) (phi : Array ℤ) (sum : ℤ), limit ≤ lo + fuel → low0 ≤ lo → minB ≤ E → E ≤ maxB + 1 →
      hS.Ready s lo (E - 1) segSize → phi.size = maxB + 1 →
      (∀ b', minB ≤ b' → b' < E → phi.getD b' 0 = (Spec.phi (lo - 1) (b' - 1) : ℤ)) →
      (∀ b', E ≤ b' → b' ≤ maxB → Dead brk minB b' lo) →
      segLoop S lv prime minB maxB limit segSize fuel lo s phi sum = .ok (sum + ∑ b ∈ Icc minB maxB, W b lo (max lo limit)) := by
  intro fuel
  induction fuel with
  | zero =>
    intro lo E s phi sum hf _ _ _ _ _ _ _
    rw [segLoop_done (by omega), Finset.sum_eq_zero, add_zero]
    intro b _
    rw [Nat.max_eq_left (by omega)]; exact hL.W_empty b lo
  | succ fuel ih =>
    intro lo E s phi sum hf h0 hE1 hE2 hready hsz hphi hdead
    by_cases hlt : lo < limit
    swap
    · rw [segLoop_done (by omega), Finset.sum_eq_zero, add_zero]
      intro b _
      rw [Nat.max_eq_left (by omega)]; exact hL.W_empty b lo
    rw [segLoop, if_pos hlt]
    set hi := min (lo + segSize) limit with hhi
    have hlh : lo < hi := by rw [hhi, lt_min_iff]; omega
    have hhl : hi ≤ limit := min_le_right _ _
    have hn : hi - lo ≤ segSize := by have := min_le_left (lo + segSize) limit; omega
    have hpre := hS.pre_seg s lo (E - 1) segSize (minB - 1) (hi - lo) hready (by omega) (by omega) (by omega) hn
    have ehi : lo + (hi - lo) = hi := by omega
    rw [ehi] at hpre
    obtain ⟨s', phi', E', prev', r1, r2, r3, r4, r5, r6, r7⟩ := levelLoop_spec hS hL hprime (by omega) h0 hlh hhl hE2
      (maxB + 1 - minB) minB (S.pre s (minB - 1) lo hi) phi sum (by omega) le_rfl hE1 hpre hsz
      (fun b' h1 h2 => by omega) hphi (fun b' h1 h2 => by omega) hdead
    rw [r1]
    simp only []
    rw [Nat.max_eq_right hlt.le]
    by_cases hmore : lo + segSize < limit
    · have hhs : hi = lo + segSize := by rw [hhi, min_eq_left hmore.le]
      have hnn : hi - lo = segSize := by omega
      rw [hnn] at r4
      have hrd := hS.next_ready s' lo (E' - 1) (E - 1) prev' segSize r4
      rw [ih (lo + segSize) E' s' phi' _ (by omega) (by omega) r2 (by omega) hrd r5
        (fun b' h1 h2 => by rw [← hhs]; exact r6 b' h1 h2)
        (fun b' h1 h2 => by
          obtain ⟨b0, g1, g2, g3⟩ := r7 b' h1 h2
          exact ⟨b0, g1, g2, hL.brk_mono b0 lo (lo + segSize) g1 (by omega) (by omega) g3⟩)]
      rw [Nat.max_eq_right (by omega), add_assoc, ← Finset.sum_add_distrib]
      have hW : ∀ b ∈ Icc minB maxB, W b lo hi + W b (lo + segSize) limit = W b lo limit := by
        intro b _
        rw [← hhs]
        exact hL.W_add b lo hi limit hlh.le hhl
      rw [Finset.sum_congr rfl hW]
    · have hhs : hi = limit := by rw [hhi, min_eq_right (by omega)]
      rw [segLoop_done (by omega), hhs]

end Pc.Hard
