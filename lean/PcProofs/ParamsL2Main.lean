/-
C12 (magnitude half), part 4: assembly — under the float envelope every check of `gourdonL2` passes and the result
satisfies `GourdonRange`.
-/
import PcProofs.ParamsL2Eval

namespace Pc

/-! ### x⋆ facts that hold for every `1 ≤ y` -/

theorem xstar_basic (x n r4 : ℕ) (hn : 1 ≤ n) :
    1 ≤ Spec.xstar x n r4 ∧ Spec.xstar x n r4 ≤ n ∧ Spec.xstar x n r4 ≤ max 1 (Nat.sqrt (x / n)) := by
  unfold Spec.xstar
  omega

/-! ### thread-count cast -/

theorem powThreads_cast {z m : ℤ} (hz0 : 0 ≤ z) (hz : z ≤ i64Max) (h : PowThreadsNear z m) : intMin ≤ m ∧ m ≤ intMax := by
  obtain ⟨h0, h1⟩ := h
  refine ⟨le_trans (by unfold intMin; norm_num) h0, ?_⟩
  by_contra hgt
  push Not at hgt
  have hm : (2 : ℤ) ^ 31 ≤ m := by unfold intMax at hgt; omega
  have h2 : ((2 : ℤ) ^ 31) ^ 37 ≤ m ^ 37 := pow_le_pow_left₀ (by norm_num) hm 37
  have hz' : z ≤ 2 ^ 63 := by unfold i64Max at hz; omega
  have h3 : z ^ 10 ≤ ((2 : ℤ) ^ 63) ^ 10 := pow_le_pow_left₀ hz0 hz' 10
  have e1 : ((2 : ℤ) ^ 31) ^ 37 = 2 ^ 1147 := by rw [← pow_mul]
  have e2 : 2 * ((2 : ℤ) ^ 63) ^ 10 = 2 ^ 631 := by rw [← pow_mul, ← pow_succ']
  have : (2 : ℤ) ^ 1147 ≤ 2 ^ 631 := by
    calc (2 : ℤ) ^ 1147 = ((2 : ℤ) ^ 31) ^ 37 := e1.symm
      _ ≤ m ^ 37 := h2
      _ ≤ 2 * z ^ 10 := h1
      _ ≤ 2 * ((2 : ℤ) ^ 63) ^ 10 := by linarith
      _ = 2 ^ 631 := e2
  rw [pow_le_pow_iff_right₀ (by norm_num : (1 : ℤ) < 2)] at this
  omega

/-! ### the common core of both widths -/

/-- Everything except the two width-specific facts (`x / y` fits int64; the 64-bit FactorTableD limit), which the two
    callers establish differently (range check resp. `x < 2^63`). -/
theorem gourdon_core (wide : Bool) (x : ℕ) (threads : ℤ) (ay az : ℚ) (fo : GFloats)
    (hx2 : 2 ≤ x) (hx125 : x < 2 ^ 125) (henv : GourdonEnv x ay az fo)
    (hlim : wide = true → i128Min ≤ fo.maxX ∧ fo.maxX ≤ i128Max ∧ (x : ℤ) ≤ fo.maxX)
    (hxyB : (x : ℤ) / gY x fo.v ≤ i64Max)
    (hft16 : wide = false → gZ x (gY x fo.v) (fo.w (gY x fo.v)) ≤ (factorTableMax 16 : ℤ))
    (hnarrow : wide = false → isqrtN x ≤ 2 ^ 32 - 1) :
    gourdonL2 wide x threads fo = .ok (gOutPure wide x threads fo) ∧
    GourdonRange x threads (gOutPure wide x threads fo) := by
  obtain ⟨hay1, hay, haz1, haz, hvN, hwN, _, hmtN⟩ := henv
  -- magnitudes of the roots
  have hs : isqrtN x < 3 * 2 ^ 61 := isqrt_lt_of_lt (lt_trans hx125 (by norm_num))
  have hr6 : irootN 6 x ≤ 2 ^ 21 := le_of_lt (iroot_lt_of_lt (by norm_num) (lt_trans hx125 (by norm_num)))
  have hc42 : irootN 3 x < 2 ^ 42 := iroot_lt_of_lt (by norm_num) (lt_trans hx125 (by norm_num))
  have hs1 : 1 ≤ isqrtN x := one_le_isqrt x (by omega)
  have hc1 : 1 ≤ irootN 3 x := one_le_iroot x 3 (by norm_num) (by omega)
  have hr41 : 1 ≤ irootN 4 x := one_le_iroot x 4 (by norm_num) (by omega)
  have hsx : isqrtN x ≤ x := by rw [isqrtN_eq]; exact Nat.sqrt_le_self x
  -- v, y
  obtain ⟨hv0, hvq⟩ := v_bounds hay1 hay hvN
  have hv63 : fo.v ≤ i64Max := by
    apply below_i64 hs
    calc (fo.v : ℚ) ≤ (isqrtN x : ℚ) * (1 + relEps) := hvq
      _ ≤ ((isqrtN x : ℚ) + 2 ^ 21) * (1 + relEps) ^ 3 := by
        have he := one_add_relEps_pos
        have h1 : (1 + relEps) ≤ (1 + relEps) ^ 3 := by
          have := one_le_e
          nlinarith [mul_pos he he]
        have h2 : (0 : ℚ) ≤ (isqrtN x : ℚ) := by positivity
        have h3 : (0 : ℚ) ≤ (2 : ℚ) ^ 21 := by positivity
        nlinarith [mul_le_mul_of_nonneg_left h1 h2, mul_nonneg h3 (le_trans he.le h1)]
  obtain ⟨hyle1, hyle2, hy1⟩ := gY_le x fo.v
  set y := gY x fo.v with hyd
  -- w, z
  obtain ⟨hw0, hwq⟩ := w_bounds (by omega) hr6 hay1 hay haz1 haz hvN hwN
  have hw63 : fo.w y ≤ i64Max := below_i64 hs hwq
  set w := fo.w y with hwd
  have hzfacts : y ≤ gZ x y w ∧ 1 ≤ gZ x y w ∧ gZ x y w ≤ max ((isqrtN x : ℤ) - 1) 1 := by
    have hyd' : y = max (min (max fo.v ((irootN 3 x : ℤ) + 1)) ((isqrtN x : ℤ) - 1)) 1 := rfl
    unfold gZ clampZ
    omega
  set z := gZ x y w with hzd
  obtain ⟨hyz, hz1, hzle⟩ := hzfacts
  have hsI : ((isqrtN x : ℕ) : ℤ) < 3 * 2 ^ 61 := by exact_mod_cast hs
  have hs1I : (1 : ℤ) ≤ ((isqrtN x : ℕ) : ℤ) := by exact_mod_cast hs1
  have hy63 : y ≤ i64Max := by unfold i64Max; omega
  have hz63 : z ≤ i64Max := by unfold i64Max; omega
  -- natural-number versions of y, z
  obtain ⟨n, hn⟩ := Int.eq_ofNat_of_zero_le (le_trans zero_le_one hy1)
  obtain ⟨nz, hnz⟩ := Int.eq_ofNat_of_zero_le (le_trans zero_le_one hz1)
  have hn1 : 1 ≤ n := by omega
  have hnz1 : 1 ≤ nz := by omega
  have hnnz : n ≤ nz := by omega
  have hnzs : nz ≤ isqrtN x := by omega
  have hns : n ≤ isqrtN x := le_trans hnnz hnzs
  -- 64 ≤ x: the clamps are non-degenerate
  have hord : 64 ≤ x → (irootN 3 x : ℤ) < y ∧ y < (isqrtN x : ℤ) ∧ z < (isqrtN x : ℤ) := by
    intro h64
    have hgap : ((irootN 3 x : ℕ) : ℤ) + 2 ≤ ((isqrtN x : ℕ) : ℤ) := by exact_mod_cast root_gap x h64
    have := clamp_y_z (irootN 3 x) (isqrtN x) fo.v w hgap (by positivity)
    simp only at this
    exact ⟨this.1, this.2.1, this.2.2.2.1⟩
  have hxn3 : x < 64 ∨ x < n ^ 3 := by
    by_cases h64 : x < 64
    · exact Or.inl h64
    · right
      have h1 := (hord (by omega)).1
      have h2 : irootN 3 x + 1 ≤ n := by omega
      calc x < (irootN 3 x + 1) ^ 3 := lt_c_succ_cube x
        _ ≤ n ^ 3 := Nat.pow_le_pow_left h2 3
  -- x⋆
  have hxsE := xStarL2_ok hn1 (by rw [← hn]; exact hy63) hx125 hxn3
  have hytn : y.toNat = n := by rw [hn]; exact Int.toNat_natCast n
  obtain ⟨hxs1, hxsn, hxssq⟩ := xstar_basic x n (irootN 4 x) hn1
  set xs := Spec.xstar x n (irootN 4 x) with hxsd
  -- quotients
  have hxyE : (x : ℤ) / y = ((x / n : ℕ) : ℤ) := by rw [hn]; exact (Int.natCast_ediv x n).symm
  have hxzE : (x : ℤ) / z = ((x / nz : ℕ) : ℤ) := by rw [hnz]; exact (Int.natCast_ediv x nz).symm
  have hxzxy : x / nz ≤ x / n := Nat.div_le_div_left hnnz hn1
  have hxz1 : 1 ≤ x / nz := by
    rw [Nat.le_div_iff_mul_le hnz1]; omega
  have hxz63 : (x : ℤ) / z ≤ i64Max := by
    rw [hxzE]; rw [hxyE] at hxyB
    exact le_trans (by exact_mod_cast hxzxy) hxyB
  have hmap : ((isqrtN (x / xs) : ℕ) : ℤ) ≤ i64Max := by
    have : isqrtN (x / xs) ≤ isqrtN x := by
      rw [isqrtN_eq, isqrtN_eq]; exact Nat.sqrt_le_sqrt (Nat.div_le_self _ _)
    unfold i64Max; omega
  have hft32 : z ≤ (factorTableMax 32 : ℤ) := by
    have : (factorTableMax 32 : ℤ) = 18446744056529682435 := by unfold factorTableMax; norm_num
    rw [this]; unfold i64Max at hz63; omega
  have hmt := powThreads_cast (by rw [hxzE]; positivity) hxz63 hmtN
  have h0 : ∀ k : ℕ, i64Min ≤ (k : ℤ) := fun k => le_trans i64Min_neg (by positivity)
  have hcI : ((irootN 3 x : ℕ) : ℤ) ≤ i64Max := by
    have : ((irootN 3 x : ℕ) : ℤ) < 2 ^ 42 := by exact_mod_cast hc42
    unfold i64Max; omega
  have hsI' : ((isqrtN x : ℕ) : ℤ) ≤ i64Max := by unfold i64Max; omega
  have heval := gourdonL2_ok wide x threads fo hlim hcI hsI' ⟨le_trans i64Min_neg hv0, hv63⟩
    ⟨le_trans i64Min_neg hw0, hw63⟩ (by rw [hytn]; show xStarL2 x y = _; rw [hn]; exact hxsE)
    ⟨by rw [hxyE]; exact h0 _, hxyB⟩ ⟨by rw [hxzE]; exact h0 _, hxz63⟩ (by rw [hytn]; exact hmap) hft16 hft32 hmt
  refine ⟨heval, ?_⟩
  -- the range predicate
  have hthr : ∀ l t : ℤ, 1 ≤ idealNumThreads l (min threads (fo.mt ((x : ℤ) / z))) t ∧
      idealNumThreads l (min threads (fo.mt ((x : ℤ) / z))) t ≤ max 1 threads := fun l t =>
    ⟨(idealNumThreads_range _ _ _).1, le_trans (idealNumThreads_range _ _ _).2 (max_le_max_left 1 (min_le_left _ _))⟩
  unfold GourdonRange gOutPure
  simp only [← hyd, ← hwd, ← hzd, hytn, ← hxsd]
  refine ⟨by exact_mod_cast hxs1, by rw [hn]; exact_mod_cast hxsn, hy1, hyz, getK_le x, trivial, hsI', le_trans i64Min_neg hv0, hv63,
    le_trans i64Min_neg hw0, hw63, by rw [hxzE]; exact_mod_cast hxz1, by rw [hxzE, hxyE]; exact_mod_cast hxzxy, hxyB, trivial, trivial,
    by positivity, by rw [Int.toNat_natCast]; exact hmap, hft32, ?_, ?_, hmtN.1, hmt.2, (hthr _ _).1, (hthr _ _).2,
    (hthr _ _).1, (hthr _ _).2, ?_, ?_⟩
  · intro h
    cases wide
    · exact hft16 rfl
    · simpa using h
  · intro h
    cases wide
    · -- 64-bit: both y and max_a_prime are at most √x < 2^32
      have hs32 := hnarrow rfl
      have hm : isqrtN (x / xs) ≤ isqrtN x := by
        rw [isqrtN_eq, isqrtN_eq]; exact Nat.sqrt_le_sqrt (Nat.div_le_self _ _)
      rw [Int.toNat_natCast]
      have : ((isqrtN (x / xs) : ℕ) : ℤ) ≤ ((isqrtN x : ℕ) : ℤ) := by exact_mod_cast hm
      have : ((isqrtN x : ℕ) : ℤ) ≤ 2 ^ 32 - 1 := by
        have : ((isqrtN x : ℕ) : ℤ) ≤ ((2 ^ 32 - 1 : ℕ) : ℤ) := by exact_mod_cast hs32
        simpa using this
      constructor <;> omega
    · simp only [if_true, decide_eq_true_eq] at h
      rw [Int.toNat_natCast] at h
      exact ⟨le_trans (le_max_right _ _) h, le_trans (le_max_left _ _) h⟩
  · rw [isqrtN_eq]
    have : ((xs : ℕ) : ℤ) ≤ ((max 1 (Nat.sqrt (x / n)) : ℕ) : ℤ) := by exact_mod_cast hxssq
    rw [Nat.cast_max] at this
    exact_mod_cast this
  · intro h64
    obtain ⟨o1, o2, o3⟩ := hord h64
    have hn3 : x < n ^ 3 := by
      rcases hxn3 with h | h
      · omega
      · exact h
    have hn2 : n * n ≤ x := le_trans (Nat.mul_le_mul hns hns) (s_sq_le x)
    obtain ⟨q1, q2, q3⟩ := Spec.xstar_spec hn3 hn2 hr41 (lt_r4_succ_pow x)
    have q4 := Spec.r4_le_xstar hn3 hn2 (r4_pow_le x)
    rw [← hxsd] at q1 q2 q3 q4
    refine ⟨o1, o2, o3, by exact_mod_cast q4, ?_, by exact_mod_cast q1, ?_⟩
    · rw [isqrtN_eq]; exact_mod_cast q3
    · rw [hn]; exact_mod_cast q2

/-! ### Claim B assembled: `x / y` fits `int64_t` after the range check -/

theorem gY_cases {x : ℕ} (h64 : 64 ≤ x) (v : ℤ) :
    (irootN 3 x : ℤ) + 1 ≤ gY x v ∧ (gY x v = (isqrtN x : ℤ) - 1 ∨ v ≤ gY x v) := by
  have hgap : ((irootN 3 x : ℕ) : ℤ) + 2 ≤ ((isqrtN x : ℕ) : ℤ) := by exact_mod_cast root_gap x h64
  have : (0 : ℤ) ≤ (irootN 3 x : ℤ) := by positivity
  unfold gY clampY
  omega

theorem xy_fits_of_range_check {x : ℕ} {ay : ℚ} {fo : GFloats} (hx2 : 2 ≤ x) (hx125 : x < 2 ^ 125)
    (hay1 : 1 ≤ ay) (hvN : TruncNear ((irootN 3 x : ℚ) * ay) fo.v) (hm : MaxXNear ay fo.maxX)
    (hxm : (x : ℤ) ≤ fo.maxX) : (x : ℤ) / gY x fo.v ≤ i64Max := by
  obtain ⟨_, _, hy1⟩ := gY_le x fo.v
  have hkey : (x : ℤ) < 2 ^ 63 * gY x fo.v := by
    by_cases h63 : x < 2 ^ 63
    · have : (x : ℤ) < 2 ^ 63 := by exact_mod_cast h63
      nlinarith
    · push Not at h63
      have h64 : 64 ≤ x := le_trans (by norm_num) h63
      obtain ⟨hyc, hycase⟩ := gY_cases h64 fo.v
      by_cases h93 : x < 2 ^ 93
      · obtain ⟨n, hn⟩ := Int.eq_ofNat_of_zero_le (le_trans zero_le_one hy1)
        have hcn : irootN 3 x ≤ n := by omega
        have := lt_two63_mul_of_mid h63 h93 hcn
        rw [hn]; exact_mod_cast this
      · push Not at h93
        rcases hycase with hys | hyv
        · -- y = s − 1
          rw [hys]
          have hs : isqrtN x < 3 * 2 ^ 61 := isqrt_lt_of_lt (lt_trans hx125 (by norm_num))
          have hlt := lt_s_succ_sq x
          have hs7 : 7 ≤ isqrtN x := by
            by_contra h
            push Not at h
            have : (isqrtN x + 1) * (isqrtN x + 1) ≤ 7 * 7 := Nat.mul_le_mul (by omega) (by omega)
            omega
          set s := isqrtN x
          have h1 : (s + 1) * (s + 1) ≤ 2 ^ 63 * (s - 1) := by
            calc (s + 1) * (s + 1) ≤ (s + 1) * (3 * 2 ^ 61) := Nat.mul_le_mul_left _ (by omega)
              _ = (3 * (s + 1)) * 2 ^ 61 := by ring
              _ ≤ (4 * (s - 1)) * 2 ^ 61 := Nat.mul_le_mul_right _ (by omega)
              _ = 2 ^ 63 * (s - 1) := by ring
          have h2 : x < 2 ^ 63 * (s - 1) := lt_of_lt_of_le hlt h1
          have h3 : ((s - 1 : ℕ) : ℤ) = (s : ℤ) - 1 := by rw [Nat.cast_sub (by omega)]; simp
          rw [← h3]; exact_mod_cast h2
        · -- y ≥ v
          apply lt_two63_mul_of_env h93 hm hxm (by linarith)
          have : (fo.v : ℚ) ≤ (gY x fo.v : ℚ) := by exact_mod_cast hyv
          linarith [hvN.1]
  have hpos : (0 : ℤ) < gY x fo.v := by omega
  have : (x : ℤ) / gY x fo.v < 2 ^ 63 := Int.ediv_lt_of_lt_mul hpos hkey
  unfold i64Max; omega

/-- `pi_gourdon_128`: the range check accepts ⇒ every check passes and the ranges hold -/
theorem gourdon128_accept (x : ℕ) (threads : ℤ) (ay az : ℚ) (fo : GFloats)
    (hx2 : 2 ≤ x) (hx : x < 2 ^ 127) (henv : GourdonEnv x ay az fo) (hxm : (x : ℤ) ≤ fo.maxX) :
    gourdonL2 true x threads fo = .ok (gOutPure true x threads fo) ∧
    GourdonRange x threads (gOutPure true x threads fo) := by
  have henv' := henv
  obtain ⟨hay1, hay, _, _, hvN, _, hm, _⟩ := henv'
  have hx125 : x < 2 ^ 125 := x_lt_of_range_check (by linarith) hay hm hxm
  have hmlt := maxX_lt_of_env hx (by linarith) hay hm
  apply gourdon_core true x threads ay az fo hx2 hx125 henv
  · intro _
    exact ⟨le_trans (by unfold i128Min; norm_num) hm.1, by unfold i128Max; omega, hxm⟩
  · exact xy_fits_of_range_check hx2 hx125 hay1 hvN hm hxm
  · intro h; exact absurd h (by simp)
  · intro h; exact absurd h (by simp)

/-- `pi_gourdon_128`: the range check rejects ⇒ `primecount_error` -/
theorem gourdon128_reject (x : ℕ) (threads : ℤ) (fo : GFloats) (hx : x < 2 ^ 127) (hm0 : 0 ≤ fo.maxX)
    (hxm : fo.maxX < (x : ℤ)) : gourdonL2 true x threads fo = .error .range := by
  have h2 : fo.maxX ≤ i128Max := by
    have : (x : ℤ) < 2 ^ 127 := by exact_mod_cast hx
    unfold i128Max; omega
  unfold gourdonL2
  simp only [if_true, castI128_ok (le_trans (by unfold i128Min; norm_num) hm0) h2, bind, Except.bind]
  rw [if_pos hxm]
  rfl

/-- `pi_gourdon_64` (no range check): `x < 2^63` ⇒ every check passes and the ranges hold -/
theorem gourdon64_accept (x : ℕ) (threads : ℤ) (ay az : ℚ) (fo : GFloats)
    (hx2 : 2 ≤ x) (hx : x < 2 ^ 63) (henv : GourdonEnv x ay az fo) :
    gourdonL2 false x threads fo = .ok (gOutPure false x threads fo) ∧
    GourdonRange x threads (gOutPure false x threads fo) := by
  have hs : isqrtN x < 3037000500 := isqrt_lt_of_lt (lt_of_lt_of_le hx (by norm_num))
  have hs1 : 1 ≤ isqrtN x := one_le_isqrt x (by omega)
  apply gourdon_core false x threads ay az fo hx2 (lt_trans hx (by norm_num)) henv
  · intro h; exact absurd h (by simp)
  · obtain ⟨_, _, hy1⟩ := gY_le x fo.v
    have h1 : (x : ℤ) / gY x fo.v ≤ (x : ℤ) := Int.ediv_le_self _ (by positivity)
    have h2 : (x : ℤ) < 2 ^ 63 := by exact_mod_cast hx
    unfold i64Max; omega
  · intro _
    have : (factorTableMax 16 : ℤ) = 4294705155 := by unfold factorTableMax; norm_num
    rw [this]
    have hsI : ((isqrtN x : ℕ) : ℤ) < 3037000500 := by exact_mod_cast hs
    have hs1I : (1 : ℤ) ≤ ((isqrtN x : ℕ) : ℤ) := by exact_mod_cast hs1
    unfold gZ clampZ
    omega
  · intro _; omega

end Pc
