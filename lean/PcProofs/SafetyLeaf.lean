/-
WP safety4 (C16 / C12): the width-checked ordinary-leaf recursion (`leafThreadC` of PcModel/SafetyLeaf.lean) returns the value of
`leafThread` whenever `|acc| + absG ≤ sMax`, where `absG x z c a b sq` = the sum of `φ(x/n, c)` over ALL leaves `n = sq·∏ p_i`
below the node `(b, sq)` — every accumulator of every recursion level is a signed partial sum of these terms.
`absG x z c a c 1 ≤ Σ_{n ≤ z} ⌊x/n⌋ ≤ x·k` for `z < 2^k` (the leaves are distinct numbers `≤ z`).
-/
import PcProofs.LeafLoops
import PcProofs.SafetyHardBound
import PcModel.SafetyLeaf

namespace Pc
open Nat Finset Classical
open scoped Nat.Prime

namespace Spec

/-- the absolute majorant of the leaves below the node `(b, sq)` (`ordG` without the signs) -/
noncomputable def absG (x z c a b sq : ℕ) : ℕ :=
  ∑ S ∈ (Ioc b a).powerset.filter (fun S => sq * prodP S ≤ z), phi (x / (sq * prodP S)) c

theorem absG_of_le {x z c a b sq : ℕ} (h : a ≤ b) :
    absG x z c a b sq = if sq ≤ z then phi (x / sq) c else 0 := by
  unfold absG
  rw [Finset.Ioc_eq_empty (by omega), Finset.powerset_empty]
  split_ifs with hz
  · rw [Finset.filter_true_of_mem (by intro S hS; rw [mem_singleton] at hS; subst hS; simpa [prodP_empty] using hz)]
    simp [prodP_empty]
  · rw [Finset.filter_false_of_mem (by intro S hS; rw [mem_singleton] at hS; subst hS; simpa [prodP_empty] using hz)]
    simp

theorem absG_break {x z c a b sq : ℕ} (hsq : sq ≤ z) (h : z < sq * p (b + 1)) :
    absG x z c a b sq = phi (x / sq) c := by
  unfold absG
  have : (Ioc b a).powerset.filter (fun S => sq * prodP S ≤ z) = {∅} := by
    ext S
    rw [mem_filter, mem_powerset, mem_singleton]
    constructor
    · rintro ⟨hS, hle⟩
      by_contra hne
      have := le_prodP_of_mem hS (Finset.nonempty_iff_ne_empty.2 hne)
      have : sq * p (b + 1) ≤ sq * prodP S := Nat.mul_le_mul_left _ this
      omega
    · rintro rfl
      exact ⟨Finset.empty_subset _, by simpa [prodP_empty] using hsq⟩
  rw [this]
  simp [prodP_empty]

theorem absG_step {x z c a b sq : ℕ} (hba : b < a) :
    absG x z c a b sq = absG x z c a (b + 1) sq + absG x z c a (b + 1) (sq * p (b + 1)) := by
  set T := Ioc (b + 1) a with hT
  have hIoc : Ioc b a = insert (b + 1) T := by
    ext i; simp [hT, mem_Ioc]; omega
  have hnot : (b + 1) ∉ T := by simp [hT]
  have hpow : (Ioc b a).powerset = T.powerset ∪ T.powerset.image (insert (b + 1)) := by
    rw [hIoc, Finset.powerset_insert]
  have hdisj : Disjoint (T.powerset.filter (fun S => sq * prodP S ≤ z))
      ((T.powerset.image (insert (b + 1))).filter (fun S => sq * prodP S ≤ z)) := by
    rw [Finset.disjoint_left]
    intro S hS hS'
    simp only [mem_filter, mem_powerset, mem_image] at hS hS'
    obtain ⟨⟨U, _, rfl⟩, _⟩ := hS'
    exact hnot (hS.1 (mem_insert_self _ _))
  unfold absG
  rw [hpow, Finset.filter_union, Finset.sum_union hdisj]
  congr 1
  rw [Finset.filter_image, Finset.sum_image]
  · apply Finset.sum_congr
    · ext S
      simp only [mem_filter, mem_powerset]
      constructor
      · rintro ⟨hS, h⟩
        have : (b + 1) ∉ S := fun hh => hnot (hS hh)
        rw [prodP_insert this] at h
        exact ⟨hS, by rw [Nat.mul_assoc, Nat.mul_comm (p (b + 1))]; exact h⟩
      · rintro ⟨hS, h⟩
        have : (b + 1) ∉ S := fun hh => hnot (hS hh)
        rw [prodP_insert this]
        exact ⟨hS, by rw [Nat.mul_assoc, Nat.mul_comm (p (b + 1))] at h; exact h⟩
    · intro S hS
      simp only [mem_filter, mem_powerset] at hS
      have : (b + 1) ∉ S := fun hh => hnot (hS.1 hh)
      rw [prodP_insert this, show sq * (prodP S * p (b + 1)) = sq * p (b + 1) * prodP S by ring]
  · intro S hS U hU h
    simp only [mem_filter, mem_powerset, coe_filter, Set.mem_setOf_eq] at hS hU
    have h1 : (b + 1) ∉ S := fun hh => hnot (hS.1 hh)
    have h2 : (b + 1) ∉ U := fun hh => hnot (hU.1 hh)
    have := congrArg (fun V => V.erase (b + 1)) h
    simpa [Finset.erase_insert h1, Finset.erase_insert h2] using this

/-- the leaves are DISTINCT numbers `≤ z`: `absG x z c a b 1 ≤ Σ_{n ≤ z} ⌊x/n⌋ ≤ x·k` for `z < 2^k` -/
theorem absG_le_harm (x z c a b : ℕ) : absG x z c a b 1 ≤ ∑ n ∈ Ioc 0 z, x / n := by
  unfold absG
  simp only [Nat.one_mul]
  have hinj : Set.InjOn prodP (((Ioc b a).powerset.filter (fun S => prodP S ≤ z) : Finset (Finset ℕ)) : Set (Finset ℕ)) := by
    intro S hS U hU h
    simp only [coe_filter, mem_powerset, Set.mem_setOf_eq] at hS hU
    exact (prodP_bijOn b a).injOn hS.1 hU.1 h
  refine le_trans (Finset.sum_le_sum (fun S _ => phi_le _ c)) ?_
  rw [← Finset.sum_image (f := fun n => x / n) hinj]
  apply Finset.sum_le_sum_of_subset
  intro n hn
  rw [mem_image] at hn
  obtain ⟨S, hS, rfl⟩ := hn
  rw [mem_filter] at hS
  rw [mem_Ioc]
  exact ⟨prodP_pos S, hS.2⟩

theorem absG_le (x z c a b k : ℕ) (hk : z < 2 ^ k) : absG x z c a b 1 ≤ x * k :=
  le_trans (absG_le_harm x z c a b) (Pc.Hard.harm_le hk)

end Spec

variable {t : NT}

@[simp] theorem LXM_bind_ok {α β : Type} (a : α) (f : α → LXM β) : (Except.ok a >>= f) = f a := rfl
@[simp] theorem LXM_pure {α : Type} (a : α) : (pure a : LXM α) = .ok a := rfl
@[simp] theorem liftLX_ok {α : Type} (a : α) : liftLX (.ok a : LM α) = .ok a := rfl

theorem accS_ok {sMax : ℕ} {a v : ℤ} (h : fitsT sMax (a + v)) : accS sMax a v = .ok (a + v) := by
  unfold accS; rw [if_pos h]

theorem mulS_ok {sMax : ℕ} {mu v : ℤ} (h : fitsT sMax (mu * v)) : mulS sMax mu v = .ok (mu * v) := by
  unfold mulS; rw [if_pos h]

theorem leafThreadC_unfold (sMax : ℕ) (t : NT) (w : ITy) (size x z c : ℕ) (mu : ℤ) (b sq : ℕ) (acc : ℤ) :
    leafThreadC sMax t w size x z c mu b sq acc =
      if b + 1 < size then do
        let next ← liftLX (mulT w sq (t.p (b + 1)))
        if next > z then pure acc
        else do
          let q ← liftLX (divM x next)
          let ph ← liftLX (phiTinyM q c)
          let term ← mulS sMax mu (ph : ℤ)
          let a1 ← accS sMax acc term
          let r ← leafThreadC sMax t w size x z c (-mu) (b + 1) next 0
          let a2 ← accS sMax a1 r
          leafThreadC sMax t w size x z c mu (b + 1) sq a2
      else pure acc := by
  rw [leafThreadC]
  split_ifs <;> rfl

/-- **the checked recursion**: with `A = absG … b sq` and `|acc| + A ≤ sMax`, `MU = ±1`: every `MU * phi_tiny`, every `s1 += …` of
    every recursion level below the node fits, the value is the one of `leafThread`, and it differs from `acc` by at most `A − φ(x/sq, c)` -/
theorem leafThreadC_eq (hv : t.Valid) {w : ITy} {sMax x y z c : ℕ} (hy : y ≤ t.bound) (hc : c ≤ 8)
    (hw : z * y ≤ w.maxVal) :
    ∀ n b, π y - b = n → ∀ (mu : ℤ) (sq : ℕ) (acc : ℤ), (mu = 1 ∨ mu = -1) → 1 ≤ sq → sq ≤ z →
      -(sMax : ℤ) ≤ acc - (Spec.absG x z c (π y) b sq : ℤ) → acc + (Spec.absG x z c (π y) b sq : ℤ) ≤ (sMax : ℤ) →
      ∃ v, leafThreadC sMax t w (π y + 1) x z c mu b sq acc = .ok v ∧
        v = acc - mu * (Spec.ordG x z c (π y) b sq - (Spec.phi (x / sq) c : ℤ)) ∧
        acc - ((Spec.absG x z c (π y) b sq : ℤ) - (Spec.phi (x / sq) c : ℤ)) ≤ v ∧
        v ≤ acc + ((Spec.absG x z c (π y) b sq : ℤ) - (Spec.phi (x / sq) c : ℤ)) := by
  intro n
  induction n with
  | zero =>
    intro b hb mu sq acc _ _ hsq _ _
    refine ⟨acc, ?_, ?_, ?_, ?_⟩
    · rw [leafThreadC_unfold, if_neg (by omega)]; rfl
    · rw [Spec.ordG_of_le (by omega), if_pos hsq]; simp
    · rw [Spec.absG_of_le (by omega), if_pos hsq]; omega
    · rw [Spec.absG_of_le (by omega), if_pos hsq]; omega
  | succ n ih =>
    intro b hb mu sq acc hmu hsq1 hsq hlo hhi
    have hba : b < π y := by omega
    have hpe : t.p (b + 1) = Spec.p (b + 1) := hv.p_eq _ (by omega) (le_trans (by omega) (Spec.pi_mono hy))
    have hpy : Spec.p (b + 1) ≤ y := (Spec.p_le_iff (by omega)).2 (by omega)
    have hp2 := Spec.two_le_p (b + 1)
    have hmul : sq * Spec.p (b + 1) ≤ w.maxVal := le_trans (Nat.mul_le_mul hsq hpy) hw
    rw [leafThreadC_unfold, if_pos (by omega), hpe, mulT_ok hmul, liftLX_ok, LXM_bind_ok]
    by_cases hbrk : sq * Spec.p (b + 1) > z
    · rw [if_pos hbrk]
      refine ⟨acc, rfl, ?_, ?_, ?_⟩
      · rw [Spec.ordG_break hsq hbrk]; simp
      · rw [Spec.absG_break hsq hbrk]; omega
      · rw [Spec.absG_break hsq hbrk]; omega
    · rw [if_neg hbrk]
      have hnext1 : 1 ≤ sq * Spec.p (b + 1) := Nat.mul_pos hsq1 (by omega)
      have hstep := Spec.absG_step (x := x) (z := z) (c := c) (sq := sq) hba
      set A1 := Spec.absG x z c (π y) (b + 1) sq with hA1
      set A2 := Spec.absG x z c (π y) (b + 1) (sq * Spec.p (b + 1)) with hA2
      set ph := Spec.phi (x / (sq * Spec.p (b + 1))) c with hph
      rw [hstep] at hlo hhi
      push_cast at hlo hhi
      -- the node's own term is part of A2; the node `(b+1, sq)`'s own term is part of A1
      obtain ⟨r, hr, hrv, hr1, hr2⟩ := ih (b + 1) (by omega) (-mu) (sq * Spec.p (b + 1)) 0
        (by rcases hmu with h | h <;> simp [h]) hnext1 (by omega) (by rw [← hA2]; omega) (by rw [← hA2]; omega)
      rw [← hA2, ← hph] at hr1 hr2
      have hphA2 : (ph : ℤ) ≤ (A2 : ℤ) := by omega
      have hterm : fitsT sMax (mu * (ph : ℤ)) := by
        unfold fitsT
        rcases hmu with h | h <;> rw [h] <;> omega
      have ha1 : fitsT sMax (acc + mu * (ph : ℤ)) := by
        unfold fitsT
        rcases hmu with h | h <;> rw [h] <;> omega
      have ha2 : fitsT sMax (acc + mu * (ph : ℤ) + r) := by
        unfold fitsT
        rcases hmu with h | h <;> rw [h] <;> omega
      have hbnd1 : -(sMax : ℤ) ≤ acc + mu * (ph : ℤ) + r - (A1 : ℤ) := by
        rcases hmu with h | h <;> rw [h] <;> omega
      have hbnd2 : acc + mu * (ph : ℤ) + r + (A1 : ℤ) ≤ (sMax : ℤ) := by
        rcases hmu with h | h <;> rw [h] <;> omega
      obtain ⟨v, hvq, hvv, hv1, hv2⟩ := ih (b + 1) (by omega) mu sq (acc + mu * (ph : ℤ) + r) hmu hsq1 hsq
        (by rw [← hA1]; exact hbnd1) (by rw [← hA1]; exact hbnd2)
      rw [← hA1] at hv1 hv2
      rw [divM_ok (by omega), liftLX_ok, LXM_bind_ok, phiTinyM_eq hc, liftLX_ok, LXM_bind_ok, ← hph, mulS_ok hterm,
        LXM_bind_ok, accS_ok ha1, LXM_bind_ok, hr, LXM_bind_ok, accS_ok ha2, LXM_bind_ok, hvq]
      refine ⟨v, rfl, ?_, ?_, ?_⟩
      · rw [hvv, hrv, Spec.ordG_step hba]; ring
      · rw [hstep]; push_cast
        rcases hmu with h | h <;> rw [h] at hv1 <;> omega
      · rw [hstep]; push_cast
        rcases hmu with h | h <;> rw [h] at hv2 <;> omega

end Pc

#print axioms Pc.leafThreadC_eq
#print axioms Pc.Spec.absG_le
