/-
WP close, item 4 (part 2): `phi_vector` over BOUNDED tables.  C17's `phiVector_correct` (PcProofs/Sieve/PhiVector.lean) assumes
`primes i = p i` for every `i ≥ 1` and `phiNeg = −φ` everywhere; the real `primes[]` / `pi[]` only reach `max_prime`, and the real
`PhiCache::phi<-1>` (C07 `phiRecAlg_correct`) is only claimed for `x ≥ 1` and levels inside its table.  Here:

* `loop1_congr`             `phi_vector`'s first loop only reads `primes[i − 1]`, `cache.phi<-1>(x / primes[i − 1], i − 2)` for `2 ≤ i ≤ a'`
* `phiVector_length`        `phi_vector(x, a).size() = a + 1` whenever the `pi[x]` it reads is `≤ a`
* `phiVector_correct_bdd`   `phi_vector(x, a)[i] = φ(x, i − 1)` for `1 ≤ i ≤ a ≤ π(P)` from tables that are right up to `P` only and an inner
                            `phi<-1>` that is right for arguments `≥ 1` and levels `b + 2 ≤ π(P)` (`PhiNegSpec`)
-/
import PcProofs.Sieve.PhiVector

namespace Pc.PhiVec
open Pc.Spec Nat
open scoped Nat.Prime

/-- the first loop depends on `primes`, `phiNeg` only through the values it reads -/
theorem loop1_congr (primes primes' : ℕ → ℕ) (sqrtX : ℕ) (phiNeg phiNeg' : ℕ → ℕ → ℤ) (x a' : ℕ)
    (H : ∀ i, 2 ≤ i → i ≤ a' → primes (i - 1) = primes' (i - 1) ∧
      (primes (i - 1) ≤ sqrtX → phiNeg (x / primes (i - 1)) (i - 2) = phiNeg' (x / primes (i - 1)) (i - 2))) :
    ∀ (fuel i : ℕ) (acc : List ℤ), 2 ≤ i →
      loop1 primes sqrtX phiNeg x a' fuel i acc = loop1 primes' sqrtX phiNeg' x a' fuel i acc
  | 0, _, _, _ => rfl
  | fuel + 1, i, acc, hi => by
    by_cases hc : i ≤ a' ∧ primes (i - 1) ≤ sqrtX
    · obtain ⟨e1, e2⟩ := H i hi hc.1
      have hc' : i ≤ a' ∧ primes' (i - 1) ≤ sqrtX := ⟨hc.1, e1 ▸ hc.2⟩
      have l1 : loop1 primes sqrtX phiNeg x a' (fuel + 1) i acc =
          loop1 primes sqrtX phiNeg x a' fuel (i + 1) (acc ++ [acc.getD (i - 1) 0 + phiNeg (x / primes (i - 1)) (i - 2)]) := by
        simp only [loop1, hc, and_self, if_true]
      have l2 : loop1 primes' sqrtX phiNeg' x a' (fuel + 1) i acc =
          loop1 primes' sqrtX phiNeg' x a' fuel (i + 1) (acc ++ [acc.getD (i - 1) 0 + phiNeg' (x / primes' (i - 1)) (i - 2)]) := by
        simp only [loop1, hc', and_self, if_true]
      rw [l1, l2, ← e1, e2 hc.2]
      exact loop1_congr primes primes' sqrtX phiNeg phiNeg' x a' H fuel (i + 1) _ (by omega)
    · have hc' : ¬ (i ≤ a' ∧ primes' (i - 1) ≤ sqrtX) := by
        rintro ⟨h1, h2⟩; exact hc ⟨h1, (H i hi h1).1 ▸ h2⟩
      have l1 : loop1 primes sqrtX phiNeg x a' (fuel + 1) i acc = (i, acc) := by simp only [loop1, hc, if_false]
      have l2 : loop1 primes' sqrtX phiNeg' x a' (fuel + 1) i acc = (i, acc) := by simp only [loop1, hc', if_false]
      rw [l1, l2]

/-! ### the length -/

theorem loop1_len (primes : ℕ → ℕ) (sqrtX : ℕ) (phiNeg : ℕ → ℕ → ℤ) (x a' : ℕ) :
    ∀ (fuel i : ℕ) (acc : List ℤ), acc.length = i →
      (loop1 primes sqrtX phiNeg x a' fuel i acc).2.length = (loop1 primes sqrtX phiNeg x a' fuel i acc).1 ∧
      i ≤ (loop1 primes sqrtX phiNeg x a' fuel i acc).1 ∧ (loop1 primes sqrtX phiNeg x a' fuel i acc).1 ≤ max i (a' + 1)
  | 0, i, acc, hl => ⟨hl, le_refl _, le_max_left _ _⟩
  | fuel + 1, i, acc, hl => by
    by_cases hc : i ≤ a' ∧ primes (i - 1) ≤ sqrtX
    · have l1 : loop1 primes sqrtX phiNeg x a' (fuel + 1) i acc =
          loop1 primes sqrtX phiNeg x a' fuel (i + 1) (acc ++ [acc.getD (i - 1) 0 + phiNeg (x / primes (i - 1)) (i - 2)]) := by
        simp only [loop1, hc, and_self, if_true]
      rw [l1]
      obtain ⟨r1, r2, r3⟩ := loop1_len primes sqrtX phiNeg x a' fuel (i + 1)
        (acc ++ [acc.getD (i - 1) 0 + phiNeg (x / primes (i - 1)) (i - 2)]) (by simp [hl])
      refine ⟨r1, by omega, le_trans r3 ?_⟩
      have := hc.1
      omega
    · have l1 : loop1 primes sqrtX phiNeg x a' (fuel + 1) i acc = (i, acc) := by simp only [loop1, hc, if_false]
      rw [l1]; exact ⟨hl, le_refl _, le_max_left _ _⟩

theorem loop2_len (x a' : ℕ) : ∀ (fuel i : ℕ) (acc : List ℤ), acc.length = i →
      (loop2 x a' fuel i acc).2.length = (loop2 x a' fuel i acc).1 ∧
      i ≤ (loop2 x a' fuel i acc).1 ∧ (loop2 x a' fuel i acc).1 ≤ max i (a' + 1)
  | 0, i, acc, hl => ⟨hl, le_refl _, le_max_left _ _⟩
  | fuel + 1, i, acc, hl => by
    by_cases hc : i ≤ a'
    · have l1 : loop2 x a' (fuel + 1) i acc =
          loop2 x a' fuel (i + 1) (acc ++ [acc.getD (i - 1) 0 - (if x > 0 then 1 else 0)]) := by
        simp only [loop2, hc, if_true]
      rw [l1]
      obtain ⟨r1, r2, r3⟩ := loop2_len x a' fuel (i + 1) (acc ++ [acc.getD (i - 1) 0 - (if x > 0 then 1 else 0)]) (by simp [hl])
      refine ⟨r1, by omega, le_trans r3 ?_⟩
      omega
    · have l1 : loop2 x a' (fuel + 1) i acc = (i, acc) := by simp only [loop2, hc, if_false]
      rw [l1]; exact ⟨hl, le_refl _, le_max_left _ _⟩

theorem loop3_len (x size : ℕ) : ∀ (fuel i : ℕ) (acc : List ℤ), acc.length = i → size ≤ fuel + i →
      (loop3 x size fuel i acc).length = max i size
  | 0, i, acc, hl, h => by simp only [loop3]; omega
  | fuel + 1, i, acc, hl, h => by
    by_cases hc : i < size
    · have e : loop3 x size (fuel + 1) i acc = loop3 x size fuel (i + 1) (acc ++ [if x > 0 then 1 else 0]) := by
        simp only [loop3, hc, if_true]
      rw [e, loop3_len x size fuel (i + 1) _ (by simp [hl]) (by omega)]
      omega
    · have e : loop3 x size (fuel + 1) i acc = acc := by simp only [loop3, hc, if_false]
      rw [e]; omega

/-- **`phi_vector(x, a).size() = a + 1`** as soon as the `pi[x]` that is read (only when `primes[a] > x`) does not exceed `a` -/
theorem phiVector_length (primes : ℕ → ℕ) (piX sqrtX : ℕ) (phiNeg : ℕ → ℕ → ℤ) (x a : ℕ)
    (h : primes a > x → piX ≤ a) : (phiVector primes piX sqrtX phiNeg x a).length = a + 1 := by
  unfold phiVector
  by_cases ha : a + 1 > 1
  · rw [if_pos ha]
    simp only []
    have ha' : (if primes a > x then piX else a) ≤ a := by
      split
      · rename_i hc; exact h hc
      · exact le_refl _
    generalize (if primes a > x then piX else a) = a' at ha'
    obtain ⟨r1, r2, r3⟩ := loop1_len primes sqrtX phiNeg x a' (a + 1) 2 [0, (x : ℤ)] rfl
    obtain ⟨s1, s2, s3⟩ := loop2_len x a' (a + 1) _ _ r1
    rw [loop3_len x (a + 1) (a + 1) _ _ s1 (by omega)]
    omega
  · rw [if_neg ha]
    have : a = 0 := by omega
    subst this; rfl

/-! ### correctness over bounded tables -/

/-- `cache.phi<-1>(y, b) = −φ(y, b)` for the arguments `phi_vector` passes when its `a` is `≤ A`
    (discharged by C07: `phiRecAlg_correct`, which asks for `1 ≤ x` and `a` below the size of the prime table) -/
def PhiNegSpec (phiNeg : ℕ → ℕ → ℤ) (A : ℕ) : Prop := ∀ y b, 1 ≤ y → b + 2 ≤ A → phiNeg y b = -(phi y b : ℤ)

/-- **`phi_vector(x, a)[i] = φ(x, i − 1)` over bounded tables**: `primes[i] = p_i` for `1 ≤ i ≤ π(P)`, `pi[n] = π(n)` for `n ≤ P`,
    inner `phi<-1>` right for levels `b + 2 ≤ π(P)`; for every `x`, every `a ≤ π(P)` and `1 ≤ i ≤ a`. -/
theorem phiVector_correct_bdd (primes piOf : ℕ → ℕ) (phiNeg : ℕ → ℕ → ℤ) (P : ℕ)
    (hprimes : ∀ i, 1 ≤ i → i ≤ π P → primes i = p i) (hpi : ∀ n, n ≤ P → piOf n = π n)
    (hinner : PhiNegSpec phiNeg (π P)) (x a : ℕ) (haP : a ≤ π P) (i : ℕ) (hi1 : 1 ≤ i) (hia : i ≤ a) :
    (phiVector primes (piOf x) (Nat.sqrt x) phiNeg x a).getD i 0 = (phi x (i - 1) : ℤ) := by
  have ha : a + 1 > 1 := by omega
  have hpa : primes a = p a := hprimes a (by omega) haP
  have key : phiVector primes (piOf x) (Nat.sqrt x) phiNeg x a =
      phiVector (fun i => p i) (π x) (Nat.sqrt x) (fun y b => -(phi y b : ℤ)) x a := by
    unfold phiVector
    rw [if_pos ha, if_pos ha]
    simp only []
    have ea : (if primes a > x then piOf x else a) = (if p a > x then π x else a) := by
      rw [hpa]
      by_cases hc : p a > x
      · rw [if_pos hc, if_pos hc]
        have : p a ≤ P := (p_le_iff (by omega)).2 haP
        exact hpi x (by omega)
      · rw [if_neg hc, if_neg hc]
    have ha'a : (if p a > x then π x else a) ≤ a := by
      split
      · rename_i hc
        have := (lt_p_iff (by omega : 1 ≤ a)).1 hc
        omega
      · exact le_refl _
    rw [ea]
    generalize (if p a > x then π x else a) = a' at ha'a
    rw [loop1_congr primes (fun i => p i) (Nat.sqrt x) phiNeg (fun y b => -(phi y b : ℤ)) x a' ?_ (a + 1) 2 _ (le_refl _)]
    intro j hj hja
    have e1 : primes (j - 1) = p (j - 1) := hprimes (j - 1) (by omega) (by omega)
    refine ⟨e1, fun hle => ?_⟩
    rw [e1] at hle ⊢
    apply hinner _ _ _ (by omega)
    have h2 := two_le_p (j - 1)
    have hsq : p (j - 1) * p (j - 1) ≤ x := le_trans (Nat.mul_le_mul hle hle) (Nat.sqrt_le x)
    have : p (j - 1) ≤ x / p (j - 1) := (Nat.le_div_iff_mul_le (by omega)).2 hsq
    omega
  rw [key]
  exact phiVector_correct (fun i => p i) (fun y b => -(phi y b : ℤ)) x (fun _ _ => rfl) (fun _ _ => rfl) a i hi1 hia

end Pc.PhiVec
