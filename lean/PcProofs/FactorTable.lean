/-
Proofs about BaseFactorTable / FactorTable (C17): `to_index` / `to_number` against the generated tables.
-/
import PcProofs.PiTable
import Mathlib.NumberTheory.ArithmeticFunction.Moebius
import Mathlib.Data.Nat.Bitwise
import Mathlib.Data.Nat.Squarefree
import Mathlib.Tactic.NormNum.Prime
import Mathlib.Data.Nat.Count
import Mathlib.Tactic.Ring
import Mathlib.Tactic.Linarith

namespace Pc
open Nat

/-! ### BaseFactorTable: `to_index` / `to_number` -/

/-- coprime to 2·3·5·7·11, as a predicate -/
def C2310 (n : ℕ) : Prop := coprime2310 n = true
instance : DecidablePred C2310 := fun n => inferInstanceAs (Decidable (coprime2310 n = true))

theorem c2310_periodic (n : ℕ) : C2310 (2310 + n) ↔ C2310 n := by
  unfold C2310 coprime2310
  have h2 : (2310 + n) % 2 = n % 2 := by omega
  have h3 : (2310 + n) % 3 = n % 3 := by omega
  have h5 : (2310 + n) % 5 = n % 5 := by omega
  have h7 : (2310 + n) % 7 = n % 7 := by omega
  have h11 : (2310 + n) % 11 = n % 11 := by omega
  rw [h2, h3, h5, h7, h11]

theorem filter_length_count (p : ℕ → Bool) : ∀ N, ((List.range N).filter p).length = Nat.count (fun m => p m = true) N := by
  intro N
  induction N with
  | zero => simp
  | succ N ih =>
    rw [List.range_succ, List.filter_append, List.length_append, ih, Nat.count_succ]
    by_cases h : p N = true <;> simp [h]

/-- the `i`-th element of the increasing list of the `p`-numbers below `N` -/
theorem filter_pos (p : ℕ → Bool) : ∀ N i x, ((List.range N).filter p)[i]? = some x →
    p x = true ∧ x < N ∧ Nat.count (fun m => p m = true) x = i := by
  intro N
  induction N with
  | zero => intro i x h; simp at h
  | succ N ih =>
    intro i x h
    rw [List.range_succ, List.filter_append] at h
    by_cases hi : i < ((List.range N).filter p).length
    · rw [List.getElem?_append_left hi] at h
      obtain ⟨h1, h2, h3⟩ := ih i x h
      exact ⟨h1, by omega, h3⟩
    · rw [List.getElem?_append_right (by omega)] at h
      by_cases hp : p N = true
      · simp only [List.filter_cons, List.filter_nil, hp, if_true] at h
        have hlen := filter_length_count p N
        rcases hk : i - ((List.range N).filter p).length with _ | k
        · rw [hk] at h
          simp only [List.getElem?_cons_zero, Option.some.injEq] at h
          subst h
          exact ⟨hp, by omega, by omega⟩
        · rw [hk] at h; simp at h
      · simp [hp] at h

theorem count2310 : Nat.count C2310 2310 = 480 := by
  have := filter_length_count coprime2310 2310
  have h2 : ((List.range 2310).filter coprime2310).length = 480 := by
    have := PcGen.Obl.coprime_all
    unfold coprimeSpec at this
    rw [← this, Array.length_toList, PcGen.Obl.coprime_size]
  rw [h2] at this
  exact this.symm

theorem count_c2310_add (q m : ℕ) : Nat.count C2310 (2310 * q + m) = 480 * q + Nat.count C2310 m := by
  induction q with
  | zero => simp
  | succ q ih =>
    have e : 2310 * (q + 1) + m = 2310 + (2310 * q + m) := by ring
    rw [e, Nat.count_add]
    have : (fun k => C2310 (2310 + k)) = C2310 := by
      funext k; exact propext (c2310_periodic k)
    simp only [this]
    rw [count2310, ih]; ring


/-- entries of `coprime_`: the `i`-th number coprime to 2310 -/
theorem coprimeTbl_spec (i : ℕ) (hi : i < 480) :
    C2310 (coprimeTbl i) ∧ coprimeTbl i < 2310 ∧ Nat.count C2310 (coprimeTbl i) = i := by
  unfold coprimeTbl
  have hlen : PcGen.coprime.toList.length = 480 := by rw [Array.length_toList, PcGen.Obl.coprime_size]
  have hget : PcGen.coprime.toList[i]? = some (PcGen.coprime.getD i 0) := by
    rw [array_getD_toList, List.getD_eq_getElem?_getD]
    have : i < PcGen.coprime.toList.length := by omega
    rw [List.getElem?_eq_getElem this]; rfl
  rw [PcGen.Obl.coprime_all] at hget
  exact filter_pos coprime2310 2310 i _ hget

theorem idxSteps_get : ∀ (l : List ℤ) (prev : ℤ) (r k : ℕ) (x : ℤ), idxStepsOk prev r l = true → l[k]? = some x →
    x = prev + (Nat.count C2310 (r + k + 1) : ℤ) - (Nat.count C2310 r : ℤ) := by
  intro l
  induction l with
  | nil => intro prev r k x _ h; simp at h
  | cons y ys ih =>
    intro prev r k x hok h
    simp only [idxStepsOk, Bool.and_eq_true, beq_iff_eq] at hok
    obtain ⟨hy, hrest⟩ := hok
    have hsucc : (Nat.count C2310 (r + 1) : ℤ) = Nat.count C2310 r + (if coprime2310 r = true then 1 else 0) := by
      rw [Nat.count_succ]; unfold C2310; split <;> simp [*]
    rcases k with _ | k
    · simp only [List.getElem?_cons_zero, Option.some.injEq] at h
      subst h
      rw [Nat.add_zero, hsucc, hy]; ring
    · simp only [List.getElem?_cons_succ] at h
      have := ih y (r + 1) k x hrest h
      have e : r + 1 + k + 1 = r + (k + 1) + 1 := by ring
      rw [this, hy, hsucc, e]; ring

/-- entries of `coprime_indexes_`: (number of coprime `m ≤ r`) - 1 -/
theorem coprimeIndexTbl_spec (r : ℕ) (hr : r < 2310) :
    coprimeIndexTbl r = (Nat.count C2310 (r + 1) : ℤ) - 1 := by
  unfold coprimeIndexTbl
  have hlen : PcGen.coprimeIndexes.toList.length = 2310 := by rw [Array.length_toList, PcGen.Obl.coprimeIndexes_size]
  have hget : PcGen.coprimeIndexes.toList[r]? = some (PcGen.coprimeIndexes.getD r 0) := by
    rw [array_getD_toList, List.getD_eq_getElem?_getD]
    have : r < PcGen.coprimeIndexes.toList.length := by omega
    rw [List.getElem?_eq_getElem this]; rfl
  have hok := PcGen.Obl.coprimeIndexes_all
  generalize PcGen.coprimeIndexes.getD r 0 = v at *
  generalize PcGen.coprimeIndexes.toList = l at *
  cases l with
  | nil => simp [idxTableOk] at hok
  | cons x xs =>
    simp only [idxTableOk, Bool.and_eq_true, beq_iff_eq] at hok
    obtain ⟨hx, hsteps⟩ := hok
    have hc1 : Nat.count C2310 1 = 0 := by decide
    rcases r with _ | r
    · simp only [List.getElem?_cons_zero, Option.some.injEq] at hget
      rw [← hget, hx, Nat.zero_add, hc1]; rfl
    · simp only [List.getElem?_cons_succ] at hget
      have := idxSteps_get xs x 1 r v hsteps hget
      rw [this, hx, hc1]
      have e : 1 + r + 1 = r + 1 + 1 := by ring
      rw [e]; simp; ring

/-- `to_index(n)` = (number of `m ≤ n` coprime to 2310) - 1 -/
theorem ftToIndex_eq (n : ℕ) : ftToIndex n = (Nat.count C2310 (n + 1) : ℤ) - 1 := by
  unfold ftToIndex
  rw [coprimeIndexTbl_spec _ (Nat.mod_lt _ (by norm_num))]
  have e : n + 1 = 2310 * (n / 2310) + (n % 2310 + 1) := by
    have := Nat.div_add_mod n 2310; omega
  conv_rhs => rw [e, count_c2310_add]
  push_cast; ring

/-- `to_number(i)` is the `i`-th number coprime to 2310 (0-based: `to_number(0) = 1`) -/
theorem ftToNumber_spec (i : ℕ) : C2310 (ftToNumber i) ∧ Nat.count C2310 (ftToNumber i) = i := by
  unfold ftToNumber
  obtain ⟨h1, _, h3⟩ := coprimeTbl_spec (i % 480) (Nat.mod_lt _ (by norm_num))
  constructor
  · have : ∀ q m, C2310 (2310 * q + m) ↔ C2310 m := by
      intro q m
      induction q with
      | zero => simp
      | succ q ih =>
        have e : 2310 * (q + 1) + m = 2310 + (2310 * q + m) := by ring
        rw [e, c2310_periodic, ih]
    exact (this _ _).2 h1
  · rw [count_c2310_add, h3]
    have := Nat.div_add_mod i 480; omega

theorem ftToNumber_strictMono {i j : ℕ} (h : i < j) : ftToNumber i < ftToNumber j := by
  by_contra hc
  have hle : ftToNumber j ≤ ftToNumber i := Nat.le_of_not_lt hc
  have := Nat.count_monotone C2310 hle
  rw [(ftToNumber_spec i).2, (ftToNumber_spec j).2] at this
  omega

theorem ftToIndex_toNumber (i : ℕ) : ftToIndex (ftToNumber i) = i := by
  rw [ftToIndex_eq, Nat.count_succ, if_pos (ftToNumber_spec i).1, (ftToNumber_spec i).2]
  push_cast; ring

theorem ftToNumber_toIndex (n : ℕ) (hn : C2310 n) : ftToNumber (ftToIndex n).toNat = n := by
  have h1 : ftToIndex n = (Nat.count C2310 n : ℤ) := by
    rw [ftToIndex_eq, Nat.count_succ, if_pos hn]; push_cast; ring
  rw [h1, Int.toNat_natCast]
  exact Nat.count_injective (ftToNumber_spec _).1 hn (ftToNumber_spec _).2

theorem ftToNumber_zero : ftToNumber 0 = 1 := by decide +kernel
theorem ftFirstCoprime_eq : ftFirstCoprime = 13 := by decide +kernel

/-! ### what the sieve loops do to the entry of ONE number `m` -/

/-- effect of prime `p` on the entry `v` of the number `m`: first/next prime factor, then the square test -/
def ftStepVal (tmax sq m v p : ℕ) : ℕ :=
  let v1 := if p ∣ m ∧ p < m then (if v = tmax then p % (tmax + 1) else if v ≠ 0 then v ^^^ 1 else v) else v
  if p ≤ sq ∧ p * p ∣ m then 0 else v1

/-- encoding of "least prime factor, parity of the number of prime factors" -/
def encK (tmax : ℕ) : List ℕ → ℕ
  | [] => tmax
  | p0 :: rest => if rest.length % 2 = 0 then p0 else p0 - 1

def ftDivs (m : ℕ) (l : List ℕ) : List ℕ := l.filter (fun p => decide (p ∣ m ∧ p < m))
def ftZeroed (sq m : ℕ) (l : List ℕ) : Bool := l.any (fun p => decide (p ≤ sq ∧ p * p ∣ m))

theorem ftDivs_append (m : ℕ) (a b : List ℕ) : ftDivs m (a ++ b) = ftDivs m a ++ ftDivs m b := by
  unfold ftDivs; rw [List.filter_append]

theorem ftZeroed_append (sq m : ℕ) (a b : List ℕ) : ftZeroed sq m (a ++ b) = (ftZeroed sq m a || ftZeroed sq m b) := by
  unfold ftZeroed; rw [List.any_append]

theorem ftVal_inv (tmax sq m : ℕ) : ∀ (rest done : List ℕ) (v : ℕ),
    (∀ p ∈ done ++ rest, p % 2 = 1 ∧ 3 ≤ p) →
    (∀ p0 l, ftDivs m (done ++ rest) = p0 :: l → p0 + 1 < tmax) →
    (v = if ftZeroed sq m done = true then 0 else encK tmax (ftDivs m done)) →
    rest.foldl (ftStepVal tmax sq m) v
      = if ftZeroed sq m (done ++ rest) = true then 0 else encK tmax (ftDivs m (done ++ rest)) := by
  intro rest
  induction rest with
  | nil => intro done v _ _ hv; simpa using hv
  | cons p rest ih =>
    intro done v hodd hfirst hv
    have hassoc : done ++ p :: rest = (done ++ [p]) ++ rest := by simp
    rw [List.foldl_cons, hassoc]
    rw [hassoc] at hodd hfirst
    apply ih (done ++ [p]) _ hodd hfirst
    -- one step
    have hp := hodd p (by simp)
    rw [ftZeroed_append, ftDivs_append]
    unfold ftStepVal
    simp only
    by_cases hz : ftZeroed sq m done = true
    · -- already zero
      rw [hz] at hv ⊢
      simp only [if_true] at hv
      subst hv
      by_cases hc : p ∣ m ∧ p < m
      · have htm : (0 : ℕ) ≠ tmax := by
          intro h0
          have hmem : p ∈ ftDivs m ((done ++ [p]) ++ rest) := by
            unfold ftDivs; simp [List.mem_filter, hc]
          rcases hd : ftDivs m ((done ++ [p]) ++ rest) with _ | ⟨p0, l⟩
          · rw [hd] at hmem; simp at hmem
          · have := hfirst p0 l hd; omega
        simp [hc, htm]
      · simp [hc]
    · have hz' : ftZeroed sq m done = false := by simpa using hz
      rw [hz'] at hv ⊢
      simp only [Bool.false_eq_true, if_false, Bool.false_or] at hv ⊢
      by_cases hsq : p ≤ sq ∧ p * p ∣ m
      · have : ftZeroed sq m [p] = true := by simp [ftZeroed, hsq]
        rw [if_pos hsq, this]; simp
      · have : ftZeroed sq m [p] = false := by
          simp only [ftZeroed, List.any_cons, List.any_nil, Bool.or_false, decide_eq_false_iff_not]; exact hsq
        rw [if_neg hsq, this]
        simp only [Bool.false_eq_true, if_false]
        by_cases hc : p ∣ m ∧ p < m
        · have hdp : ftDivs m [p] = [p] := by simp [ftDivs, hc]
          rw [if_pos hc, hdp]
          rcases hd : ftDivs m done with _ | ⟨p0, r⟩
          · rw [hd] at hv
            simp only [encK] at hv
            have hlt : p + 1 < tmax := by
              apply hfirst p (ftDivs m rest)
              rw [ftDivs_append, ftDivs_append, hd, hdp]; rfl
            rw [if_pos hv]
            simp only [List.nil_append, encK, List.length_nil, if_true]
            exact Nat.mod_eq_of_lt (by omega)
          · rw [hd] at hv
            have hlt : p0 + 1 < tmax := by
              apply hfirst p0 (r ++ [p] ++ ftDivs m rest)
              rw [ftDivs_append, ftDivs_append, hd, hdp]; simp
            have hp0 : p0 % 2 = 1 ∧ 3 ≤ p0 := by
              apply hodd p0
              have : p0 ∈ ftDivs m done := by rw [hd]; simp
              unfold ftDivs at this
              have := (List.mem_filter.1 this).1
              simp [this]
            simp only [encK] at hv
            simp only [List.cons_append, encK, List.length_append, List.length_cons, List.length_nil]
            by_cases hr : r.length % 2 = 0
            · rw [if_pos hr] at hv
              have hne : ¬ v = tmax := by omega
              have hne0 : v ≠ 0 := by omega
              rw [if_neg hne, if_pos hne0, if_neg (by omega), hv]
              exact Nat.xor_one_of_odd (Nat.odd_iff.2 hp0.1)
            · rw [if_neg hr] at hv
              have hne : ¬ v = tmax := by omega
              have hne0 : v ≠ 0 := by omega
              rw [if_neg hne, if_pos hne0, if_pos (by omega), hv]
              have : Even (p0 - 1) := by rw [Nat.even_iff]; omega
              rw [Nat.xor_one_of_even this]; omega
        · have hdp : ftDivs m [p] = [] := by simp [ftDivs, hc]
          rw [if_neg hc, hdp, List.append_nil]
          exact hv


/-! ### ... and why that is (μ, lpf) -/

open ArithmeticFunction in
/-- the documented content of `factor_[to_index(n)]` -/
noncomputable def ftSpec (tmax n : ℕ) : ℕ :=
  if n = 1 then tmax - 1 else if n.Prime then tmax
  else if ArithmeticFunction.moebius n = 0 then 0
  else if ArithmeticFunction.moebius n = 1 then n.minFac - 1 else n.minFac

theorem c2310_prime_factor_ge {m p : ℕ} (hm : C2310 m) (hp : p.Prime) (hd : p ∣ m) : 13 ≤ p := by
  by_contra hlt
  have hp2 := hp.two_le
  unfold C2310 coprime2310 at hm
  simp only [Bool.and_eq_true, bne_iff_ne, ne_eq] at hm
  obtain ⟨⟨⟨⟨h2, h3⟩, h5⟩, h7⟩, h11⟩ := hm
  have hmod := Nat.mod_eq_zero_of_dvd hd
  have : p = 2 ∨ p = 3 ∨ p = 5 ∨ p = 7 ∨ p = 11 := by
    have hlt' : p < 13 := by omega
    interval_cases p <;> first | omega | (exfalso; revert hp; decide)
  rcases this with rfl | rfl | rfl | rfl | rfl <;> omega

theorem c2310_ge_13 {k : ℕ} (hk : 2 ≤ k) (hc : ∀ p, p.Prime → p ∣ k → 13 ≤ p) : 13 ≤ k := by
  have hp := Nat.minFac_prime (n := k) (by omega)
  have := hc _ hp (Nat.minFac_dvd k)
  have := Nat.minFac_le (n := k) (by omega)
  omega

/-- in a composite number coprime to 2310 every prime factor leaves a cofactor of at least 13 -/
theorem composite_factor_bound {m p : ℕ} (hm : C2310 m) (hnp : ¬ m.Prime) (h2 : 2 ≤ m) (hp : p.Prime) (hd : p ∣ m) :
    p < m ∧ p * 13 ≤ m := by
  obtain ⟨k, rfl⟩ := hd
  have hk2 : 2 ≤ k := by
    rcases k with _ | _ | k
    · omega
    · rw [Nat.mul_one] at hnp; exact absurd hp hnp
    · omega
  have hk13 : 13 ≤ k := c2310_ge_13 hk2 (fun q hq hqk => c2310_prime_factor_ge hm hq (Dvd.dvd.mul_left hqk p))
  have hp2 := hp.two_le
  constructor
  · nlinarith
  · exact Nat.mul_le_mul_left p hk13

theorem ftVal_spec (gen : PrimeGen) (hg : PrimeGenSpec gen) (tmax y high m : ℕ) (hm : C2310 m) (h13 : 13 ≤ m)
    (hmh : m ≤ high) (hhy : high ≤ y) (hy : y ≤ ftMax tmax) (htm : 2 ≤ tmax) :
    (gen 13 (high / 13 + 1)).foldl (ftStepVal tmax (Nat.sqrt y) m) tmax = ftSpec tmax m := by
  obtain ⟨hsorted, hmem⟩ := hg 13 (high / 13 + 1)
  set ps := gen 13 (high / 13 + 1) with hps
  have hmem' : ∀ p, p ∈ ps ↔ (13 ≤ p ∧ p * 13 ≤ high ∧ p.Prime) := by
    intro p; rw [hmem]
    constructor
    · rintro ⟨h1, h2, h3⟩
      refine ⟨h1, ?_, h3⟩
      have : p ≤ high / 13 := by omega
      have := Nat.mul_le_mul_right 13 this
      have := Nat.div_mul_le_self high 13
      omega
    · rintro ⟨h1, h2, h3⟩
      refine ⟨h1, ?_, h3⟩
      have : p ≤ high / 13 := (Nat.le_div_iff_mul_le (by norm_num)).2 h2
      omega
  -- membership in the list of divisors
  have hdivmem : ∀ p, p ∈ ftDivs m ps ↔ (p ∈ ps ∧ p ∣ m ∧ p < m) := by
    intro p; unfold ftDivs; simp [List.mem_filter]
  have hdsorted : (ftDivs m ps).Pairwise (· < ·) := hsorted.filter _
  -- first divisor is small
  have hfirstmin : ∀ p0 l, ftDivs m ps = p0 :: l → p0 = m.minFac ∧ ¬ m.Prime := by
    intro p0 l hd
    have hp0 : p0 ∈ ftDivs m ps := by rw [hd]; simp
    obtain ⟨hp0ps, hp0d, hp0lt⟩ := (hdivmem p0).1 hp0
    have hp0prime := ((hmem' p0).1 hp0ps).2.2
    have hnp : ¬ m.Prime := by
      intro hmp
      rcases (Nat.dvd_prime hmp).1 hp0d with h | h
      · exact absurd (h ▸ hp0prime) Nat.not_prime_one
      · omega
    refine ⟨?_, hnp⟩
    have hmf := Nat.minFac_prime (n := m) (by omega)
    have hmfd := Nat.minFac_dvd m
    obtain ⟨hlt, hb⟩ := composite_factor_bound hm hnp (by omega) hmf hmfd
    have hmfmem : m.minFac ∈ ftDivs m ps :=
      (hdivmem _).2 ⟨(hmem' _).2 ⟨c2310_prime_factor_ge hm hmf hmfd, by omega, hmf⟩, hmfd, hlt⟩
    rw [hd] at hmfmem hdsorted
    rcases List.mem_cons.1 hmfmem with h | h
    · exact h.symm
    · have := (List.pairwise_cons.1 hdsorted).1 _ h
      have := Nat.minFac_le_of_dvd hp0prime.two_le hp0d
      omega
  have hmax : (tmax - 1) * (tmax - 1) - 1 = ftMax tmax := rfl
  have key := ftVal_inv tmax (Nat.sqrt y) m ps [] tmax
    (fun p hp => by
      rw [List.nil_append] at hp
      obtain ⟨h1, _, h3⟩ := (hmem' p).1 hp
      rcases h3.eq_two_or_odd with h | h <;> omega)
    (fun p0 l hd => by
      rw [List.nil_append] at hd
      obtain ⟨rfl, hnp⟩ := hfirstmin p0 l hd
      have hsq := Nat.minFac_sq_le_self (n := m) (by omega) hnp
      rw [Nat.pow_two] at hsq
      have hle : m.minFac * m.minFac ≤ (tmax - 1) * (tmax - 1) - 1 := by rw [hmax]; omega
      by_contra hc
      have hge : tmax - 1 ≤ m.minFac := by omega
      have := Nat.mul_le_mul hge hge
      have : 1 ≤ (tmax - 1) * (tmax - 1) := Nat.mul_pos (by omega) (by omega)
      omega)
    (by simp [ftZeroed, ftDivs, encK])
  rw [List.nil_append] at key
  rw [key]
  -- evaluate both sides
  have hz : ftZeroed (Nat.sqrt y) m ps = true ↔ ¬ Squarefree m := by
    rw [Nat.squarefree_iff_prime_squarefree]
    unfold ftZeroed
    simp only [List.any_eq_true, decide_eq_true_eq, not_forall, Classical.not_not]
    constructor
    · rintro ⟨p, hp, _, hdd⟩
      exact ⟨p, ((hmem' p).1 hp).2.2, hdd⟩
    · rintro ⟨p, hp, hdd⟩
      have h13p := c2310_prime_factor_ge hm hp (Dvd.dvd.trans (Dvd.intro _ rfl) hdd)
      have hle : p * p ≤ m := Nat.le_of_dvd (by omega) hdd
      have : p * 13 ≤ p * p := Nat.mul_le_mul_left p h13p
      exact ⟨p, (hmem' p).2 ⟨h13p, by omega, hp⟩, Nat.le_sqrt.2 (by omega), hdd⟩
  unfold ftSpec
  rw [if_neg (show ¬ m = 1 by omega)]
  by_cases hmp : m.Prime
  · -- primes keep T_MAX
    rw [if_pos hmp]
    have hsqf : Squarefree m := hmp.squarefree
    have hzf : ¬ ftZeroed (Nat.sqrt y) m ps = true := fun h => (hz.1 h) hsqf
    rw [if_neg hzf]
    rcases hd : ftDivs m ps with _ | ⟨p0, l⟩
    · rfl
    · exact absurd hmp (hfirstmin p0 l hd).2
  · rw [if_neg hmp]
    by_cases hsqf : Squarefree m
    · have hzf : ¬ ftZeroed (Nat.sqrt y) m ps = true := fun h => (hz.1 h) hsqf
      rw [if_neg hzf]
      have hmu := ArithmeticFunction.moebius_apply_of_squarefree hsqf
      -- the divisor list is the set of prime factors
      have hset : (ftDivs m ps).toFinset = m.primeFactors := by
        ext p
        rw [List.mem_toFinset, hdivmem, Nat.mem_primeFactors, hmem']
        constructor
        · rintro ⟨⟨_, _, hp⟩, hd, _⟩; exact ⟨hp, hd, by omega⟩
        · rintro ⟨hp, hd, _⟩
          obtain ⟨hlt, hb⟩ := composite_factor_bound hm hmp (by omega) hp hd
          exact ⟨⟨c2310_prime_factor_ge hm hp hd, by omega, hp⟩, hd, hlt⟩
      have hnd : (ftDivs m ps).Nodup := hdsorted.imp (fun h => Nat.ne_of_lt h)
      have hlen : (ftDivs m ps).length = ArithmeticFunction.cardFactors m := by
        rw [← List.toFinset_card_of_nodup hnd, hset,
          ← (ArithmeticFunction.cardDistinctFactors_eq_cardFactors_iff_squarefree (by omega)).2 hsqf,
          ArithmeticFunction.cardDistinctFactors_apply, Nat.primeFactors, List.card_toFinset]
      rcases hd : ftDivs m ps with _ | ⟨p0, l⟩
      · -- a composite number has a prime factor in the list
        exfalso
        have hmf := Nat.minFac_prime (n := m) (by omega)
        have : m.minFac ∈ m.primeFactors := Nat.mem_primeFactors.2 ⟨hmf, Nat.minFac_dvd m, by omega⟩
        rw [← hset, hd] at this
        simp at this
      · obtain ⟨rfl, _⟩ := hfirstmin p0 l hd
        rw [hd] at hlen
        simp only [List.length_cons] at hlen
        simp only [encK]
        rw [hmu, ← hlen]
        by_cases hl : l.length % 2 = 0
        · rw [if_pos hl]
          have hodd : Odd (l.length + 1) := by rw [Nat.odd_iff]; omega
          rw [Odd.neg_one_pow hodd]
          simp
        · rw [if_neg hl]
          have heven : Even (l.length + 1) := by rw [Nat.even_iff]; omega
          rw [Even.neg_one_pow heven]
          simp
    · rw [if_pos (hz.2 hsqf), ArithmeticFunction.moebius_eq_zero_of_not_squarefree hsqf]
      simp


/-! ### more about `to_index` / `to_number` -/

theorem c2310_one : C2310 1 := by decide

theorem c2310_iff (n : ℕ) : C2310 n ↔ (¬ 2 ∣ n ∧ ¬ 3 ∣ n ∧ ¬ 5 ∣ n ∧ ¬ 7 ∣ n ∧ ¬ 11 ∣ n) := by
  unfold C2310 coprime2310
  simp only [Bool.and_eq_true, bne_iff_ne, ne_eq, Nat.dvd_iff_mod_eq_zero]
  tauto

theorem c2310_mul {a b : ℕ} (ha : C2310 a) (hb : C2310 b) : C2310 (a * b) := by
  rw [c2310_iff] at *
  obtain ⟨a2, a3, a5, a7, a11⟩ := ha
  obtain ⟨b2, b3, b5, b7, b11⟩ := hb
  refine ⟨?_, ?_, ?_, ?_, ?_⟩
  · intro h; rcases (Nat.Prime.dvd_mul Nat.prime_two).1 h with h | h <;> contradiction
  · intro h; rcases (Nat.Prime.dvd_mul Nat.prime_three).1 h with h | h <;> contradiction
  · intro h; rcases (Nat.Prime.dvd_mul Nat.prime_five).1 h with h | h <;> contradiction
  · intro h; rcases (Nat.Prime.dvd_mul (by norm_num : Nat.Prime 7)).1 h with h | h <;> contradiction
  · intro h; rcases (Nat.Prime.dvd_mul (by norm_num : Nat.Prime 11)).1 h with h | h <;> contradiction

theorem c2310_of_dvd {a m : ℕ} (hm : C2310 m) (h : a ∣ m) : C2310 a := by
  rw [c2310_iff] at *
  obtain ⟨m2, m3, m5, m7, m11⟩ := hm
  exact ⟨fun h' => m2 (h'.trans h), fun h' => m3 (h'.trans h), fun h' => m5 (h'.trans h),
    fun h' => m7 (h'.trans h), fun h' => m11 (h'.trans h)⟩

theorem c2310_prime {p : ℕ} (hp : p.Prime) (h13 : 13 ≤ p) : C2310 p := by
  rw [c2310_iff]
  refine ⟨?_, ?_, ?_, ?_, ?_⟩ <;> intro h
  · have := (Nat.prime_dvd_prime_iff_eq Nat.prime_two hp).1 h; omega
  · have := (Nat.prime_dvd_prime_iff_eq Nat.prime_three hp).1 h; omega
  · have := (Nat.prime_dvd_prime_iff_eq Nat.prime_five hp).1 h; omega
  · have := (Nat.prime_dvd_prime_iff_eq (by norm_num : Nat.Prime 7) hp).1 h; omega
  · have := (Nat.prime_dvd_prime_iff_eq (by norm_num : Nat.Prime 11) hp).1 h; omega

/-- `to_index` as a natural number (`n ≥ 1`) -/
theorem ftToIndex_toNat (n : ℕ) (hn : 1 ≤ n) : ((ftToIndex n).toNat : ℤ) = ftToIndex n := by
  apply Int.toNat_of_nonneg
  rw [ftToIndex_eq]
  have : 1 ≤ Nat.count C2310 (n + 1) := by
    have h1 : Nat.count C2310 2 ≤ Nat.count C2310 (n + 1) := Nat.count_monotone _ (by omega)
    have h2 : Nat.count C2310 2 = 1 := by decide
    omega
  omega

theorem ftToIndex_nat (n : ℕ) (hn : 1 ≤ n) : (ftToIndex n).toNat + 1 = Nat.count C2310 (n + 1) := by
  have := ftToIndex_toNat n hn
  have h2 := ftToIndex_eq n
  omega

/-- `to_number(to_index(n))` is the closest coprime number `≤ n` -/
theorem ftToNumber_toIndex_le (n : ℕ) (hn : 1 ≤ n) : ftToNumber (ftToIndex n).toNat ≤ n := by
  by_contra hc
  have h1 : n + 1 ≤ ftToNumber (ftToIndex n).toNat := by omega
  have h2 := Nat.count_monotone C2310 h1
  rw [(ftToNumber_spec _).2] at h2
  have := ftToIndex_nat n hn
  omega

theorem lt_ftToNumber_succ_toIndex (n : ℕ) (hn : 1 ≤ n) : n < ftToNumber ((ftToIndex n).toNat + 1) := by
  by_contra hc
  have h1 : ftToNumber ((ftToIndex n).toNat + 1) + 1 ≤ n + 1 := by omega
  have h2 := Nat.count_monotone C2310 h1
  rw [Nat.count_succ, if_pos (ftToNumber_spec _).1, (ftToNumber_spec _).2] at h2
  have := ftToIndex_nat n hn
  omega

/-- index comparison = number comparison (for a coprime lower bound) -/
theorem ftToIndex_le_iff (lo : ℕ) (hlo : C2310 lo) (I : ℕ) : (ftToIndex lo).toNat ≤ I ↔ lo ≤ ftToNumber I := by
  have e : ftToNumber (ftToIndex lo).toNat = lo := ftToNumber_toIndex lo hlo
  constructor
  · intro h
    rcases Nat.eq_or_lt_of_le h with h' | h'
    · rw [← h', e]
    · have := ftToNumber_strictMono h'; omega
  · intro h
    by_contra hc
    have := ftToNumber_strictMono (Nat.lt_of_not_le hc)
    omega

theorem le_ftToIndex_iff (hi : ℕ) (h1 : 1 ≤ hi) (I : ℕ) : I ≤ (ftToIndex hi).toNat ↔ ftToNumber I ≤ hi := by
  constructor
  · intro h
    have h2 := ftToNumber_toIndex_le hi h1
    rcases Nat.eq_or_lt_of_le h with h' | h'
    · rw [h']; exact h2
    · have := ftToNumber_strictMono h'; omega
  · intro h
    by_contra hc
    have hlt : (ftToIndex hi).toNat + 1 ≤ I := by omega
    have h3 := lt_ftToNumber_succ_toIndex hi h1
    rcases Nat.eq_or_lt_of_le hlt with h' | h'
    · rw [← h'] at h; omega
    · have := ftToNumber_strictMono h'; omega

theorem ftToIndex_toNumber_nat (i : ℕ) : (ftToIndex (ftToNumber i)).toNat = i := by
  rw [ftToIndex_toNumber]; simp

theorem ftToNumber_one : ftToNumber 1 = 13 := by decide +kernel

theorem ftToNumber_ge_13 {i : ℕ} (hi : 1 ≤ i) : 13 ≤ ftToNumber i := by
  rcases Nat.eq_or_lt_of_le hi with h | h
  · rw [← h, ftToNumber_one]
  · have := ftToNumber_strictMono h; rw [ftToNumber_one] at this; omega

theorem ftToNumber_pos (i : ℕ) : 1 ≤ ftToNumber i := by
  rcases Nat.eq_zero_or_pos i with h | h
  · rw [h, ftToNumber_zero]
  · have := ftToNumber_ge_13 h; omega

theorem ftToNumber_ge_self (i : ℕ) : i + 1 ≤ ftToNumber i := by
  induction i with
  | zero => rw [ftToNumber_zero]
  | succ i ih => have := ftToNumber_strictMono (show i < i + 1 by omega); omega


attribute [local irreducible] ftToNumber ftToIndex

/-! ### the sieve loops on the array -/

/-- an index matches a coprime number -/
theorem toIndex_eq_iff {x I : ℕ} (hx : C2310 x) : (ftToIndex x).toNat = I ↔ x = ftToNumber I := by
  constructor
  · intro h; rw [← h, ftToNumber_toIndex x hx]
  · intro h; rw [h, ftToIndex_toNumber_nat]

open Classical in
theorem ftMultLoop_get (prime high : ℕ) (hp : 1 ≤ prime) (hpc : C2310 prime) (f : FtArr → ℕ → FtArr)
    (h : Option ℕ → Option ℕ) (I : ℕ)
    (hf : ∀ a mult, (f a mult)[I]? = if (ftToIndex mult).toNat = I then (a[I]?).map h else a[I]?) :
    ∀ fuel idx (a : FtArr), high + 1 ≤ fuel + prime * ftToNumber idx →
      (ftMultLoop prime high f fuel (prime * ftToNumber idx) (idx + 1) a)[I]?
        = if (∃ j, idx ≤ j ∧ prime * ftToNumber j ≤ high ∧ prime * ftToNumber j = ftToNumber I)
          then (a[I]?).map h else a[I]? := by
  intro fuel
  induction fuel with
  | zero =>
    intro idx a hfuel
    rw [if_neg]
    · rfl
    · rintro ⟨j, hj, hle, _⟩
      have : ftToNumber idx ≤ ftToNumber j := by
        rcases Nat.eq_or_lt_of_le hj with h' | h'
        · rw [h']
        · exact le_of_lt (ftToNumber_strictMono h')
      have := Nat.mul_le_mul_left prime this
      omega
  | succ fuel ih =>
    intro idx a hfuel
    unfold ftMultLoop
    by_cases hle : prime * ftToNumber idx ≤ high
    · rw [if_pos hle]
      have hstep : prime * ftToNumber idx + 1 ≤ prime * ftToNumber (idx + 1) := by
        have h1 := ftToNumber_strictMono (show idx < idx + 1 by omega)
        have := Nat.mul_le_mul_left prime (show ftToNumber idx + 1 ≤ ftToNumber (idx + 1) by omega)
        rw [Nat.mul_add, Nat.mul_one] at this
        omega
      rw [ih (idx + 1) _ (by omega), hf]
      have hcop : C2310 (prime * ftToNumber idx) := c2310_mul hpc (ftToNumber_spec idx).1
      by_cases hm : prime * ftToNumber idx = ftToNumber I
      · have hnot : ¬ ∃ j, idx + 1 ≤ j ∧ prime * ftToNumber j ≤ high ∧ prime * ftToNumber j = ftToNumber I := by
          rintro ⟨j, hj, _, he⟩
          have h1 := ftToNumber_strictMono (show idx < j by omega)
          have := Nat.mul_lt_mul_of_pos_left h1 (show 0 < prime by omega)
          omega
        rw [if_neg hnot, if_pos ((toIndex_eq_iff hcop).2 hm), if_pos ⟨idx, le_rfl, hle, hm⟩]
      · rw [if_neg (fun hc => hm ((toIndex_eq_iff hcop).1 hc))]
        by_cases hex : ∃ j, idx + 1 ≤ j ∧ prime * ftToNumber j ≤ high ∧ prime * ftToNumber j = ftToNumber I
        · obtain ⟨j, hj, h1, h2⟩ := hex
          rw [if_pos ⟨j, hj, h1, h2⟩, if_pos ⟨j, by omega, h1, h2⟩]
        · rw [if_neg hex, if_neg]
          rintro ⟨j, hj, h1, h2⟩
          rcases Nat.eq_or_lt_of_le hj with h' | h'
          · rw [← h'] at h2; exact hm h2
          · exact hex ⟨j, by omega, h1, h2⟩
    · rw [if_neg hle, if_neg]
      rintro ⟨j, hj, hle', _⟩
      have : ftToNumber idx ≤ ftToNumber j := by
        rcases Nat.eq_or_lt_of_le hj with h' | h'
        · rw [h']
        · exact le_of_lt (ftToNumber_strictMono h')
      have := Nat.mul_le_mul_left prime this
      omega

theorem ftMultLoop_size (prime high : ℕ) (f : FtArr → ℕ → FtArr) (hf : ∀ a mult, (f a mult).size = a.size) :
    ∀ fuel mult i (a : FtArr), (ftMultLoop prime high f fuel mult i a).size = a.size := by
  intro fuel
  induction fuel with
  | zero => intro mult i a; rfl
  | succ fuel ih =>
    intro mult i a
    unfold ftMultLoop
    split
    · rw [ih, hf]
    · rfl


theorem nextMultiple_go_spec (prime low : ℕ) (hp : 1 ≤ prime) : ∀ fuel i, low ≤ fuel + prime * ftToNumber i →
    ∃ j, i ≤ j ∧ ftNextMultiple.go prime low fuel (i + 1) (prime * ftToNumber i) = (prime * ftToNumber j, j + 1)
      ∧ low ≤ prime * ftToNumber j ∧ ∀ j', i ≤ j' → j' < j → prime * ftToNumber j' < low := by
  intro fuel
  induction fuel with
  | zero =>
    intro i h
    exact ⟨i, le_rfl, rfl, by omega, fun j' h1 h2 => by omega⟩
  | succ fuel ih =>
    intro i h
    unfold ftNextMultiple.go
    by_cases hlt : prime * ftToNumber i < low
    · rw [if_pos hlt]
      have hstep : prime * ftToNumber i + 1 ≤ prime * ftToNumber (i + 1) := by
        have h1 := ftToNumber_strictMono (show i < i + 1 by omega)
        have := Nat.mul_le_mul_left prime (show ftToNumber i + 1 ≤ ftToNumber (i + 1) by omega)
        rw [Nat.mul_add, Nat.mul_one] at this
        omega
      obtain ⟨j, hj, heq, hlow, hbefore⟩ := ih (i + 1) (by omega)
      refine ⟨j, by omega, heq, hlow, ?_⟩
      intro j' h1 h2
      rcases Nat.eq_or_lt_of_le h1 with h' | h'
      · rw [← h']; exact hlt
      · exact hbefore j' (by omega) h2
    · rw [if_neg hlt]
      exact ⟨i, le_rfl, rfl, by omega, fun j' h1 h2 => by omega⟩

theorem ceilDiv_pred (low prime : ℕ) (hp : 1 ≤ prime) (hlow : 1 ≤ low) :
    ceilDiv low prime = (low - 1) / prime + 1 := by
  unfold ceilDiv
  have : low + prime - 1 = (low - 1) + prime := by omega
  rw [this, Nat.add_div_right _ (show 0 < prime by omega)]

/-- `next_multiple(prime, low, &index)`: the first multiple `prime * to_number(j)`, `j ≥ index`, that is `≥ low` -/
theorem ftNextMultiple_spec (prime low index : ℕ) (hp : 1 ≤ prime) (hlow : 1 ≤ low) :
    ∃ j, index ≤ j ∧ ftNextMultiple prime low index = (prime * ftToNumber j, j + 1)
      ∧ low ≤ prime * ftToNumber j ∧ ∀ j', index ≤ j' → j' < j → prime * ftToNumber j' < low := by
  unfold ftNextMultiple
  simp only
  have hq0e := ceilDiv_pred low prime hp hlow
  generalize ceilDiv low prime = q0 at *
  have hdiv := Nat.mul_div_le (low - 1) prime
  generalize (low - 1) / prime = d at *
  have hq1 : 1 ≤ q0 := by omega
  have hq0' : prime * (q0 - 1) < low := by
    have e : q0 - 1 = d := by omega
    rw [e]; omega
  have hi0idx : index ≤ (max (index : ℤ) (ftToIndex q0)).toNat := by
    have := le_max_left (index : ℤ) (ftToIndex q0); omega
  have hi0 : ((max (index : ℤ) (ftToIndex q0)).toNat : ℤ) = max (index : ℤ) (ftToIndex q0) :=
    Int.toNat_of_nonneg (le_trans (Int.natCast_nonneg index) (le_max_left _ _))
  generalize (max (index : ℤ) (ftToIndex q0)).toNat = i0 at *
  -- first iteration of the loop: multiple = 0 < low
  unfold ftNextMultiple.go
  rw [if_pos (by omega)]
  obtain ⟨j, hj, heq, hlowj, hbefore⟩ := nextMultiple_go_spec prime low hp (low + 1) i0 (by omega)
  refine ⟨j, by omega, heq, hlowj, ?_⟩
  intro j' h1 h2
  by_cases h3 : i0 ≤ j'
  · exact hbefore j' h3 h2
  · -- below the start index: to_number(j') < quotient
    have hj'lt : j' < i0 := by omega
    have hidx : (j' : ℤ) < ftToIndex q0 := by
      have := hi0
      rcases max_cases (index : ℤ) (ftToIndex q0) with ⟨hm, _⟩ | ⟨hm, _⟩
      · rw [hm] at this; omega
      · rw [hm] at this; omega
    have hnat : j' < (ftToIndex q0).toNat := by omega
    have h4 := ftToNumber_strictMono hnat
    have h5 := ftToNumber_toIndex_le q0 hq1
    have : ftToNumber j' ≤ q0 - 1 := by omega
    have := Nat.mul_le_mul_left prime this
    omega


/-- what `ftMark` does to an entry -/
def markFn (tmax prime : ℕ) (e : Option ℕ) : Option ℕ :=
  e.map fun v => if v = tmax then prime % (tmax + 1) else if v ≠ 0 then v ^^^ 1 else v

theorem ftMark_get (tmax prime : ℕ) (a : FtArr) (mult I : ℕ) :
    (ftMark tmax prime a mult)[I]? = if (ftToIndex mult).toNat = I then (a[I]?).map (markFn tmax prime) else a[I]? := by
  unfold ftMark
  rw [Array.getElem?_modify]
  rfl

theorem ftZero_get (a : FtArr) (mult I : ℕ) :
    (ftZero a mult)[I]? = if (ftToIndex mult).toNat = I then (a[I]?).map (fun _ => some 0) else a[I]? := by
  unfold ftZero
  rw [Array.getElem?_setIfInBounds]
  by_cases h : (ftToIndex mult).toNat = I
  · rw [if_pos h, if_pos h, h]
    by_cases hs : I < a.size
    · rw [if_pos hs, Array.getElem?_eq_getElem hs]; rfl
    · rw [if_neg hs, Array.getElem?_eq_none (Nat.le_of_not_lt hs)]; rfl
  · rw [if_neg h, if_neg h]

open Classical in
/-- one pass `for (; multiple <= high; multiple = prime * to_number(i++))` started by `next_multiple(q, low, &index)`:
    entry `I` is hit iff its number `m = to_number(I)` lies in `[low, high]` and is `q * to_number(j)` with `j ≥ index` -/
theorem ftPass_get (q low high index : ℕ) (hq : 1 ≤ q) (hqc : C2310 q) (hlow : 1 ≤ low)
    (f : FtArr → ℕ → FtArr) (h : Option ℕ → Option ℕ) (I : ℕ)
    (hf : ∀ a mult, (f a mult)[I]? = if (ftToIndex mult).toNat = I then (a[I]?).map h else a[I]?) (a : FtArr) :
    (ftMultLoop q high f (high + 1) (ftNextMultiple q low index).1 (ftNextMultiple q low index).2 a)[I]?
      = if (low ≤ ftToNumber I ∧ ftToNumber I ≤ high ∧ ∃ j, index ≤ j ∧ ftToNumber I = q * ftToNumber j)
        then (a[I]?).map h else a[I]? := by
  obtain ⟨j1, hj1, heq, hlowj, hbefore⟩ := ftNextMultiple_spec q low index hq hlow
  rw [heq]
  simp only
  rw [ftMultLoop_get q high hq hqc f h I hf (high + 1) j1 a (by omega)]
  have hiff : (∃ j, j1 ≤ j ∧ q * ftToNumber j ≤ high ∧ q * ftToNumber j = ftToNumber I) ↔
      (low ≤ ftToNumber I ∧ ftToNumber I ≤ high ∧ ∃ j, index ≤ j ∧ ftToNumber I = q * ftToNumber j) := by
    constructor
    · rintro ⟨j, hj, hle, he⟩
      refine ⟨?_, by omega, j, by omega, he.symm⟩
      have : ftToNumber j1 ≤ ftToNumber j := by
        rcases Nat.eq_or_lt_of_le hj with h' | h'
        · rw [h']
        · exact le_of_lt (ftToNumber_strictMono h')
      have := Nat.mul_le_mul_left q this
      omega
    · rintro ⟨h1, h2, j, hj, he⟩
      refine ⟨j, ?_, by omega, he.symm⟩
      by_contra hc
      have := hbefore j hj (by omega)
      omega
  by_cases hc : ∃ j, j1 ≤ j ∧ q * ftToNumber j ≤ high ∧ q * ftToNumber j = ftToNumber I
  · rw [if_pos hc, if_pos (hiff.1 hc)]
  · rw [if_neg hc, if_neg (fun h' => hc (hiff.2 h'))]

/-- cofactors: `m = q * to_number(j)` with `j ≥ 1` iff `q ∣ m`, `q < m` (for coprime `m`) -/
theorem exists_cofactor_one {m q : ℕ} (hm : C2310 m) (hq : 1 ≤ q) :
    (∃ j, 1 ≤ j ∧ m = q * ftToNumber j) ↔ (q ∣ m ∧ q < m) := by
  constructor
  · rintro ⟨j, hj, he⟩
    have h13 := ftToNumber_ge_13 hj
    have : q * 1 < q * ftToNumber j := Nat.mul_lt_mul_of_pos_left (by omega) (by omega)
    exact ⟨Dvd.intro _ he.symm, by omega⟩
  · rintro ⟨⟨k, hk'⟩, hlt⟩
    subst hk'
    have hk : C2310 k := c2310_of_dvd hm (Dvd.intro_left _ rfl)
    refine ⟨(ftToIndex k).toNat, ?_, by rw [ftToNumber_toIndex k hk]⟩
    by_contra hc
    have h0 : (ftToIndex k).toNat = 0 := by omega
    have := ftToNumber_toIndex k hk
    rw [h0, ftToNumber_zero] at this
    subst this
    omega

theorem exists_cofactor_zero {m q : ℕ} (hm : C2310 m) :
    (∃ j, 0 ≤ j ∧ m = q * ftToNumber j) ↔ q ∣ m := by
  constructor
  · rintro ⟨j, _, he⟩; exact Dvd.intro _ he.symm
  · rintro ⟨k, hk'⟩
    subst hk'
    have hk : C2310 k := c2310_of_dvd hm (Dvd.intro_left _ rfl)
    exact ⟨(ftToIndex k).toNat, Nat.zero_le _, by rw [ftToNumber_toIndex k hk]⟩

theorem ftPrimeStep_outside (tmax low high sq prime : ℕ) (hp13 : 13 ≤ prime) (hpp : prime.Prime) (hlow : 1 ≤ low)
    (a : FtArr) (I : ℕ) (hr : ¬ (low ≤ ftToNumber I ∧ ftToNumber I ≤ high)) :
    (ftPrimeStep tmax low high sq a prime)[I]? = a[I]? := by
  have hpc : C2310 prime := c2310_prime hpp hp13
  unfold ftPrimeStep
  simp only
  have pass1 := ftPass_get prime low high 1 (by omega) hpc hlow (ftMark tmax prime) (markFn tmax prime) I
    (fun a mult => ftMark_get tmax prime a mult I) a
  split
  · rw [ftPass_get (prime * prime) low high 0 (Nat.mul_pos (by omega) (by omega)) (c2310_mul hpc hpc) hlow
      ftZero (fun _ => some 0) I (fun a mult => ftZero_get a mult I), if_neg (fun h => hr ⟨h.1, h.2.1⟩),
      pass1, if_neg (fun h => hr ⟨h.1, h.2.1⟩)]
  · rw [pass1, if_neg (fun h => hr ⟨h.1, h.2.1⟩)]

theorem ftPrimeStep_inside (tmax low high sq prime : ℕ) (hp13 : 13 ≤ prime) (hpp : prime.Prime) (hlow : 1 ≤ low)
    (a : FtArr) (I v : ℕ) (hr : low ≤ ftToNumber I ∧ ftToNumber I ≤ high) (ha : a[I]? = some (some v)) :
    (ftPrimeStep tmax low high sq a prime)[I]? = some (some (ftStepVal tmax sq (ftToNumber I) v prime)) := by
  have hpc : C2310 prime := c2310_prime hpp hp13
  have hmc : C2310 (ftToNumber I) := (ftToNumber_spec I).1
  -- first pass
  have p1 : (ftMultLoop prime high (ftMark tmax prime) (high + 1) (ftNextMultiple prime low 1).1
        (ftNextMultiple prime low 1).2 a)[I]?
      = some (some (if prime ∣ ftToNumber I ∧ prime < ftToNumber I
          then (if v = tmax then prime % (tmax + 1) else if v ≠ 0 then v ^^^ 1 else v) else v)) := by
    rw [ftPass_get prime low high 1 (by omega) hpc hlow (ftMark tmax prime) (markFn tmax prime) I
      (fun a mult => ftMark_get tmax prime a mult I) a, exists_cofactor_one hmc (by omega), ha]
    by_cases h1 : prime ∣ ftToNumber I ∧ prime < ftToNumber I
    · rw [if_pos ⟨hr.1, hr.2, h1⟩, if_pos h1]; rfl
    · rw [if_neg (fun h => h1 h.2.2), if_neg h1]
  unfold ftPrimeStep ftStepVal
  simp only
  by_cases hsq : prime ≤ sq
  · rw [if_pos hsq, ftPass_get (prime * prime) low high 0 (Nat.mul_pos (by omega) (by omega)) (c2310_mul hpc hpc) hlow
      ftZero (fun _ => some 0) I (fun a mult => ftZero_get a mult I), exists_cofactor_zero hmc, p1]
    by_cases h2 : prime * prime ∣ ftToNumber I
    · rw [if_pos ⟨hr.1, hr.2, h2⟩, if_pos (show prime ≤ sq ∧ prime * prime ∣ ftToNumber I from ⟨hsq, h2⟩)]; rfl
    · rw [if_neg (fun h => h2 h.2.2), if_neg (show ¬ (prime ≤ sq ∧ prime * prime ∣ ftToNumber I) from fun h => h2 h.2)]
  · rw [if_neg hsq, p1, if_neg (show ¬ (prime ≤ sq ∧ prime * prime ∣ ftToNumber I) from fun h => hsq h.1)]

theorem ftPrimeStep_size (tmax low high sq prime : ℕ) (a : FtArr) : (ftPrimeStep tmax low high sq a prime).size = a.size := by
  unfold ftPrimeStep
  simp only
  split
  · rw [ftMultLoop_size _ _ _ (fun a m => by simp [ftZero]), ftMultLoop_size _ _ _ (fun a m => by simp [ftMark])]
  · rw [ftMultLoop_size _ _ _ (fun a m => by simp [ftMark])]

/-- the whole `while (true)` loop of one thread, seen at entry `I` -/
theorem ftSieveThread_get (tmax low high sq : ℕ) (hlow : 1 ≤ low) (I : ℕ) :
    ∀ (ps : List ℕ) (a : FtArr), (∀ p ∈ ps, 13 ≤ p ∧ p.Prime) →
    ((ps.foldl (ftPrimeStep tmax low high sq) a).size = a.size) ∧
    (¬ (low ≤ ftToNumber I ∧ ftToNumber I ≤ high) → (ps.foldl (ftPrimeStep tmax low high sq) a)[I]? = a[I]?) ∧
    (low ≤ ftToNumber I ∧ ftToNumber I ≤ high → ∀ v, a[I]? = some (some v) →
      (ps.foldl (ftPrimeStep tmax low high sq) a)[I]? = some (some (ps.foldl (ftStepVal tmax sq (ftToNumber I)) v))) := by
  intro ps
  induction ps with
  | nil => intro a _; exact ⟨rfl, fun _ => rfl, fun _ v hv => hv⟩
  | cons p ps ih =>
    intro a hps
    have hp := hps p (by simp)
    obtain ⟨ih1, ih2, ih3⟩ := ih (ftPrimeStep tmax low high sq a p) (fun q hq => hps q (by simp [hq]))
    simp only [List.foldl_cons]
    refine ⟨by rw [ih1, ftPrimeStep_size], ?_, ?_⟩
    · intro hr
      rw [ih2 hr, ftPrimeStep_outside tmax low high sq p hp.1 hp.2 hlow a I hr]
    · intro hr v hv
      exact ih3 hr _ (ftPrimeStep_inside tmax low high sq p hp.1 hp.2 hlow a I v hr hv)

end Pc
