/-
WP safety4 (C16 / C12): the absolute majorant of the hard leaves of `S2_hard` and `D`, additive over windows, `≤ x·k`;
the LoadBalancerS2 accumulation `sum_ += thread.sum` in ANY order of arrival and the return conversions.
-/
import PcProofs.SafetyHardBound
import PcProofs.SafetyHardThread
import PcProofs.HardDSpec

namespace Pc.Hard
open Nat Finset
open scoped Nat.Prime ArithmeticFunction.Moebius

local notation "p" => Spec.p
local notation "φ" => Spec.phi

/-! ### a family of levels -/

/-- `Σ_{b ∈ B}` of the windowed absolute level sums -/
noncomputable def absF (x : ℕ) (B : Finset ℕ) (I : ℕ → Finset ℕ) (g : ℕ → ℕ → ℕ) (w : LB.Chunk) : ℤ :=
  ∑ b ∈ B, (absL x (p b) (b - 1) (I b) (g b) w.1 w.2 : ℤ)

theorem absF_nonneg (x : ℕ) (B : Finset ℕ) (I : ℕ → Finset ℕ) (g : ℕ → ℕ → ℕ) (w : LB.Chunk) : 0 ≤ absF x B I g w :=
  Finset.sum_nonneg (fun _ _ => Int.natCast_nonneg _)

theorem absF_additive (x : ℕ) (B : Finset ℕ) (I : ℕ → Finset ℕ) (g : ℕ → ℕ → ℕ) : LB.Additive (absF x B I g) := by
  intro a b d h1 h2
  unfold absF
  rw [← Finset.sum_add_distrib]
  refine Finset.sum_congr rfl (fun i _ => ?_)
  rw [← Nat.cast_add, absL_add x (p i) (i - 1) (I i) (g i) h1 h2]

theorem absF_le {x N k : ℕ} {B : Finset ℕ} {I : ℕ → Finset ℕ} {g : ℕ → ℕ → ℕ}
    (hB : ∀ b ∈ B, 1 ≤ b) (hg : ∀ b ∈ B, Set.InjOn (g b) (I b))
    (hlpf : ∀ b ∈ B, ∀ i ∈ I b, p b < (g b i).minFac)
    (hN : ∀ b ∈ B, ∀ i ∈ I b, p b * g b i ≤ N) (hk : N < 2 ^ k) (w : LB.Chunk) :
    absF x B I g w ≤ ((x * k : ℕ) : ℤ) := by
  unfold absF
  rw [← Nat.cast_sum, Int.ofNat_le]
  refine le_trans (Finset.sum_le_sum (fun b _ => absL_le x (p b) (b - 1) (I b) (g b) w.1 w.2)) ?_
  exact le_trans (leaf_pairs_le_harm x N B I g hB hg hlpf hN) (harm_le hk)

/-! ### S2_hard -/

noncomputable def s2I (y z b : ℕ) : Finset ℕ :=
  if b ≤ π (Nat.sqrt y) then (Ioc (y / p b) y).filter (Good (p b)) else (Ioc b (π y)).filter (fun j => p b * p j ≤ z)

noncomputable def s2g (y b : ℕ) : ℕ → ℕ := if b ≤ π (Nat.sqrt y) then id else p

theorem abs_WS2_le (x y z b lo hi : ℕ) :
    |WS2 x y z b lo hi| ≤ (absL x (p b) (b - 1) (s2I y z b) (s2g y b) lo hi : ℤ) := by
  unfold WS2 s2I s2g
  split_ifs
  · unfold W1
    rw [abs_neg]
    exact abs_signed_le_absL x (p b) (b - 1) _ id (fun m => μ m) (fun _ => ArithmeticFunction.abs_moebius_le_one) lo hi
  · unfold W2
    have := abs_signed_le_absL x (p b) (b - 1) ((Ioc b (π y)).filter (fun j => p b * p j ≤ z)) p (fun _ => 1)
      (fun _ => by simp) lo hi
    simpa using this

/-- the absolute majorant of the hard leaves of S2_hard in a window -/
noncomputable def absHardF (x y z c : ℕ) : LB.Chunk → ℤ := absF x (Ioc c (π y)) (s2I y z) (s2g y)

theorem abs_hardF_le (x y z c : ℕ) (w : LB.Chunk) : |hardF x y z c w| ≤ absHardF x y z c w := by
  unfold hardF absHardF absF
  exact le_trans (Finset.abs_sum_le_sum_abs _ _) (Finset.sum_le_sum (fun b _ => abs_WS2_le x y z b w.1 w.2))

theorem p_injOn_Ioc (b B : ℕ) (J : Finset ℕ) (hJ : ∀ j ∈ J, b < j) : Set.InjOn p (J : Set ℕ) := by
  intro i hi j hj h
  have hi1 : 1 ≤ i := by have := hJ i hi; omega
  have hj1 : 1 ≤ j := by have := hJ j hj; omega
  rcases Nat.lt_trichotomy i j with h' | h' | h'
  · have := Spec.p_lt_p hi1 h'; omega
  · exact h'
  · have := Spec.p_lt_p hj1 h'; omega

/-- `absHardF ≤ x·k` as soon as `max(z, y²) < 2^k` -/
theorem absHardF_le {x y z c k : ℕ} (hk : max z (y * y) < 2 ^ k) (w : LB.Chunk) :
    absHardF x y z c w ≤ ((x * k : ℕ) : ℤ) := by
  unfold absHardF
  refine absF_le (N := max z (y * y)) (fun b hb => by rw [mem_Ioc] at hb; omega) ?_ ?_ ?_ hk w
  · intro b hb
    unfold s2g s2I
    split_ifs
    · exact Set.injOn_id _
    · exact p_injOn_Ioc b (π y) _ (fun j hj => by rw [mem_filter, mem_Ioc] at hj; exact hj.1.1)
  · intro b hb i hi
    unfold s2I at hi
    unfold s2g
    split_ifs at hi ⊢
    · rw [mem_filter] at hi; exact hi.2.2
    · rw [mem_filter, mem_Ioc] at hi
      rw [mem_Ioc] at hb
      rw [(Spec.p_prime (by omega : 1 ≤ i)).minFac_eq]
      exact Spec.p_lt_p (by omega) hi.1.1
  · intro b hb i hi
    unfold s2I at hi
    unfold s2g
    rw [mem_Ioc] at hb
    split_ifs at hi ⊢
    · rw [mem_filter, mem_Ioc] at hi
      have : p b ≤ y := (Spec.p_le_iff (by omega)).2 hb.2
      exact le_trans (Nat.mul_le_mul this hi.1.2) (le_max_right _ _)
    · rw [mem_filter] at hi
      exact le_trans hi.2 (le_max_left _ _)

/-! ### D -/

noncomputable def dI (x y z b : ℕ) : Finset ℕ :=
  if b ≤ π (Nat.sqrt z) then (Ioc (z / p b) z).filter (fun m => GoodD (p b) y m ∧ m ≤ x / (p b * p b * p b))
  else (Ioc b (π y)).filter (fun j => p j ≤ x / (p b * p b * p b))

noncomputable def dg (z b : ℕ) : ℕ → ℕ := if b ≤ π (Nat.sqrt z) then id else p

theorem abs_WSD_le (x y z b lo hi : ℕ) :
    |WSD x y z b lo hi| ≤ (absL x (p b) (b - 1) (dI x y z b) (dg z b) lo hi : ℤ) := by
  unfold WSD dI dg
  split_ifs
  · unfold WD1
    rw [abs_neg]
    exact abs_signed_le_absL x (p b) (b - 1) _ id (fun m => μ m) (fun _ => ArithmeticFunction.abs_moebius_le_one) lo hi
  · unfold WD2
    have := abs_signed_le_absL x (p b) (b - 1) ((Ioc b (π y)).filter (fun j => p j ≤ x / (p b * p b * p b))) p (fun _ => 1)
      (fun _ => by simp) lo hi
    simpa using this

/-- the absolute majorant of the D-leaves in a window -/
noncomputable def absDF (x y z k xs : ℕ) : LB.Chunk → ℤ := absF x (Ioc k (π xs)) (dI x y z) (dg z)

theorem abs_dF_le (x y z k xs : ℕ) (w : LB.Chunk) : |dF x y z k xs w| ≤ absDF x y z k xs w := by
  unfold dF absDF absF
  exact le_trans (Finset.abs_sum_le_sum_abs _ _) (Finset.sum_le_sum (fun b _ => abs_WSD_le x y z b w.1 w.2))

/-- `absDF ≤ x·k'` as soon as `y·z < 2^k'` (`x⋆ ≤ y ≤ z`) -/
theorem absDF_le {x y z k xs k' : ℕ} (hxs : xs ≤ y) (hyz : y ≤ z) (hk : y * z < 2 ^ k') (w : LB.Chunk) :
    absDF x y z k xs w ≤ ((x * k' : ℕ) : ℤ) := by
  unfold absDF
  refine absF_le (N := y * z) (fun b hb => by rw [mem_Ioc] at hb; omega) ?_ ?_ ?_ hk w
  · intro b hb
    unfold dg dI
    split_ifs
    · exact Set.injOn_id _
    · exact p_injOn_Ioc b (π y) _ (fun j hj => by rw [mem_filter, mem_Ioc] at hj; exact hj.1.1)
  · intro b hb i hi
    unfold dI at hi
    unfold dg
    split_ifs at hi ⊢
    · rw [mem_filter] at hi; exact hi.2.1.2.1
    · rw [mem_filter, mem_Ioc] at hi
      rw [mem_Ioc] at hb
      rw [(Spec.p_prime (by omega : 1 ≤ i)).minFac_eq]
      exact Spec.p_lt_p (by omega) hi.1.1
  · intro b hb i hi
    unfold dI at hi
    unfold dg
    rw [mem_Ioc] at hb
    have hpb : p b ≤ y := le_trans ((Spec.p_le_iff (by omega)).2 hb.2) hxs
    split_ifs at hi ⊢
    · rw [mem_filter, mem_Ioc] at hi
      exact Nat.mul_le_mul hpb hi.1.2
    · rw [mem_filter, mem_Ioc] at hi
      have : p i ≤ y := (Spec.p_le_iff (by omega)).2 hi.1.2
      exact Nat.mul_le_mul hpb (le_trans this hyz)

/-! ### LoadBalancerS2: `sum_ += thread.sum` in any order -/

theorem lbSumC_ok (aMax : ℕ) : ∀ (vs : List ℤ) (acc : ℤ), |acc| + (vs.map (fun v => |v|)).sum ≤ (aMax : ℤ) →
    lbSumC aMax vs acc = .ok (acc + vs.sum) := by
  intro vs
  induction vs with
  | nil => intro acc _; simp [lbSumC]
  | cons v vs ih =>
    intro acc h
    simp only [List.map_cons, List.sum_cons] at h
    have h1 := abs_add_le acc v
    have h2 : 0 ≤ (vs.map (fun v => |v|)).sum := List.sum_nonneg (by
      intro a ha; rw [List.mem_map] at ha; obtain ⟨b, _, rfl⟩ := ha; exact abs_nonneg b)
    have hfit : fitsS aMax (acc + v) := by
      unfold fitsS
      have := abs_le.1 (le_trans h1 (by omega : |acc| + |v| ≤ (aMax : ℤ)))
      omega
    rw [lbSumC, if_pos hfit, ih (acc + v) (by omega), List.sum_cons, add_assoc]

theorem sumF_eq_map_sum (f : LB.Chunk → ℤ) : ∀ cs : List LB.Chunk, LB.sumF f cs = (cs.map f).sum
  | [] => rfl
  | c :: cs => by simp [LB.sumF, sumF_eq_map_sum f cs]

theorem additive_diag {f : LB.Chunk → ℤ} (hf : LB.Additive f) (b : ℕ) : f (b, b) = 0 := by
  have := hf b b b le_rfl le_rfl
  omega

/-- **the parallel region's accumulation, any order of arrival**: the chunks of a chain `cs` covering `[a, b)` are reported in
    an arbitrary order (`order` a permutation); `F` additive with additive majorant `A`, `A (a, b) ≤ aMax`, and the total fits
    the signed `T`: every `sum_ += thread.sum` and the final conversion are value-preserving, and the result is `F (a, b)` -/
theorem lbTotalC_ok {F A : LB.Chunk → ℤ} (hF : LB.Additive F) (hA : LB.Additive A) (hFA : ∀ w, |F w| ≤ A w)
    {a b : ℕ} {cs order : List LB.Chunk} (hch : LB.Chain a b cs) (hperm : order.Perm cs) {aMax sMax : ℕ}
    (haM : A (a, b) ≤ (aMax : ℤ)) (hret : fitsS sMax (F (a, b))) :
    lbTotalC aMax sMax (order.map F) = .ok (F (a, b)) := by
  have hsumF : (order.map F).sum = F (a, b) := by
    rw [(hperm.map F).sum_eq, ← sumF_eq_map_sum, LB.Chain.sum_additive hF hch, additive_diag hF, sub_zero]
  have hsumA : (order.map A).sum = A (a, b) := by
    rw [(hperm.map A).sum_eq, ← sumF_eq_map_sum, LB.Chain.sum_additive hA hch, additive_diag hA, sub_zero]
  have hle : ((order.map F).map (fun v => |v|)).sum ≤ (order.map A).sum := by
    rw [List.map_map]
    apply List.sum_le_sum
    intro w _
    exact hFA w
  unfold lbTotalC
  rw [lbSumC_ok aMax (order.map F) 0 (by rw [abs_zero, zero_add]; omega), zero_add, hsumF]
  simp only []
  unfold retS
  rw [if_pos hret]

end Pc.Hard

#print axioms Pc.Hard.absHardF_le
#print axioms Pc.Hard.absDF_le
#print axioms Pc.Hard.lbTotalC_ok
