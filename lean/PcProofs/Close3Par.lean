/-
C18 (WP close3, item 4): `ParallelSieve::sieve()` at `stop = 2^64 - 1` (ParallelSieve.cpp:132-138; PcModel/Iter.lean `threadInterval`).

`start = align(start) + 1` (ParallelSieve.cpp:136) is an UNCHECKED `+ 1`: when `align` returns `stop_ = 2^64-1` the sum wraps to 0 and the task
sieves `[0, 2^64-1]`.  `align(n) = stop_` iff `n + 32 ≥ stop_`, and an inner task start is `n = start_ + threadDist·i ≤ stop_ - 1`, so the wrap
happens iff the LAST task starts within 32 of `stop_`, i.e. iff `(dist - 1) % threadDist < 32`.

* `threadInterval_contiguous_gap`, `threadInterval_le_gap`, `tiles_prefix_gap`, `tiles_sum_gap`, **`parCount_total_of_gap`**: the tiling theorem of WP iter2
  for EVERY `stop ≤ 2^64-1` under `32 ≤ (dist - 1) % threadDist` (last task longer than 32) — for `stop < 2^64-1` WP iter2's `parCount_total` needs no such
  hypothesis (there `stop + 1` does not wrap and the empty task `[stop+1, stop]` is harmless).
* `threadDist_gap`: with `isqrt(2^64-1) = 4294967295` (so `threshold = 858993459`, `balanced = 858993459000`) and `2 ≤ threads ≤ 27709467`,
  `threads·threshold ≤ dist ≤ 2^64-1`: `32 ≤ (dist-1) % threadDist`.  Reason: `threadDist = td0 + d`, `td0 = ⌈dist/iters⌉ ≥ threshold`, `d = 30 - td0 % 30 ∈ [1, 30]`;
  a last task of length `≤ 32` forces `threadDist ≤ (d + 1)·iters + 31`, and `iters ≤ max(2^64/balanced, threads) ≤ 27709467`.  For `d ≤ 29`: `30·27709467 + 31 < threshold`;
  for `d = 30`: `td0` is a multiple of 30 `≥ 858993459`, so `td0 ≥ 858993480`, `threadDist ≥ 858993510 > 31·27709467 + 31 = 858993508`.  SHARP: 27709468 threads wrap.
* **`parCount_total_umax`**: `parCount cnt 4294967295 a (2^64-1) t = cnt a (2^64-1)` for every `1 ≤ t ≤ 27709467`.
* **`parCount_umax_wrap_witness`**: the bound is needed and SHARP: at `start = 18422941821390992413`, `stop = 2^64-1`, `numThreads = 27709468`
  the model's last task is `(0, 2^64-1)`, the one before already ends at `2^64-1`, and the count is `cnt start stop + cnt 0 stop`.
-/
import PcProofs.IterPar2

namespace Pc.It
open Nat

/-! ### the tiling for `stop ≤ 2^64-1` when no inner task start is within 32 of `stop` -/

theorem align_lt_of_gap (b n : ℕ) (h : n + 32 < b) (hb : b ≤ umax) : align b n < b := by
  have e2 : checkedAdd n 32 = n + 32 := checkedAdd_exact _ _ (by omega)
  unfold align; simp only []
  rw [e2, if_neg (by omega)]; omega

/-- consecutive tasks are contiguous, for `stop ≤ 2^64-1`, when the next task starts more than 32 below `stop` -/
theorem threadInterval_contiguous_gap (a b td i : ℕ) (htd : 1 ≤ td) (hb : b ≤ umax) (hi : a + td * (i + 1) + 32 < b) :
    (threadInterval a b td (i + 1)).1 = (threadInterval a b td i).2 + 1 := by
  have h1 : (a + td * (i + 1)) % two64 = a + td * (i + 1) := Nat.mod_eq_of_lt (by unfold two64; unfold umax at hb; omega)
  have hpos : a + td * (i + 1) > a := by
    have : td * (i + 1) ≥ 1 := Nat.mul_pos htd (by omega)
    omega
  have hal := align_lt_of_gap b (a + td * (i + 1)) hi hb
  rw [threadInterval_snd a b td i (by omega)]
  unfold threadInterval
  simp only []
  rw [h1, if_pos hpos]
  exact Nat.mod_eq_of_lt (by unfold two64; unfold umax at hb; omega)

theorem threadInterval_le_gap (a b td i : ℕ) (hb : b ≤ umax) (hi : a + td * (i + 1) + 32 < b) :
    (threadInterval a b td i).1 ≤ (threadInterval a b td i).2 + 1 := by
  have hmul : td * (i + 1) = td * i + td := Nat.mul_succ td i
  rw [threadInterval_snd a b td i (by omega)]
  have h0 : (a + td * i) % two64 = a + td * i := Nat.mod_eq_of_lt (by unfold two64; unfold umax at hb; omega)
  have hge := align_ge b (a + td * (i + 1)) (by omega) hb
  unfold threadInterval; simp only []
  rw [h0]
  by_cases hs : a + td * i > a
  · rw [if_pos hs]
    have hmono := align_mono b (a + td * i) (a + td * (i + 1)) (by omega) hb
    have hal := align_lt_of_gap b (a + td * (i + 1)) hi hb
    rw [Nat.mod_eq_of_lt (by unfold two64; unfold umax at hb; omega)]
    omega
  · rw [if_neg hs]; omega

theorem tiles_prefix_gap (cnt : ℕ → ℕ → ℕ) (h : CntAdd cnt) (a b td q : ℕ) (htd : 1 ≤ td) (hab : a ≤ b) (hb : b ≤ umax)
    (hq : td * q + 32 < b - a) : ∀ k, k ≤ q →
      ((List.range k).map (fun i => cnt (threadInterval a b td i).1 (threadInterval a b td i).2)).sum
        + cnt (threadInterval a b td k).1 b = cnt a b := by
  intro k
  induction k with
  | zero =>
    intro _
    rw [threadInterval_first a b td (by omega)]
    simp
  | succ k ih =>
    intro hk
    have hmul : td * (k + 1) ≤ td * q := Nat.mul_le_mul_left td hk
    have hi : a + td * (k + 1) + 32 < b := by omega
    have hc := threadInterval_contiguous_gap a b td k htd hb hi
    have hle := threadInterval_le_gap a b td k hb hi
    have hsnd : (threadInterval a b td k).2 ≤ b := by
      rw [threadInterval_snd a b td k (by omega)]; exact align_le' _ _
    rw [List.range_succ, List.map_append, List.sum_append, hc]
    simp only [List.map_cons, List.map_nil, List.sum_cons, List.sum_nil, Nat.add_zero]
    rw [Nat.add_assoc, h.split _ _ _ hle hsnd]
    exact ih (by omega)

theorem tiles_sum_gap (cnt : ℕ → ℕ → ℕ) (h : CntAdd cnt) (a b td q : ℕ) (htd : 1 ≤ td) (hab : a ≤ b) (hb : b ≤ umax)
    (hq : td * q + 32 < b - a) (hl : b ≤ a + td * (q + 1) + 32) :
    ((List.range (q + 1)).map (fun i => cnt (threadInterval a b td i).1 (threadInterval a b td i).2)).sum = cnt a b := by
  have hlast := threadInterval_last a b td q hb (by omega) hl
  rw [List.range_succ, List.map_append, List.sum_append]
  simp only [List.map_cons, List.map_nil, List.sum_cons, List.sum_nil, Nat.add_zero]
  rw [hlast]
  exact tiles_prefix_gap cnt h a b td q htd hab hb hq q (Nat.le_refl q)

/-- **the tiling theorem for every `stop ≤ 2^64-1`**: if the multi-thread path is taken, the last task must be longer than 32 -/
theorem parCount_total_of_gap (cnt : ℕ → ℕ → ℕ) (h : CntAdd cnt) (isq a b t : ℕ) (hab : a ≤ b) (hb : b ≤ umax)
    (hgap : idealNumThreads isq a b t ≠ 1 →
      32 ≤ (b - a - 1) % getThreadDistance isq (b - a) (idealNumThreads isq a b t)) :
    parCount cnt isq a b t = cnt a b := by
  unfold parCount parIntervals
  rw [if_neg (by omega)]
  simp only []
  by_cases h1 : idealNumThreads isq a b t = 1
  · rw [if_pos h1]; simp
  · rw [if_neg h1]
    have hd := (getThreadDistance_bounds isq (b - a) (idealNumThreads isq a b t) h1 (by omega)).1
    have hg := hgap h1
    generalize getThreadDistance isq (b - a) (idealNumThreads isq a b t) = td at hd hg
    have hok := iters_ok a b td (by omega) hab
    have hdm := Nat.div_add_mod (b - a - 1) td
    rw [List.map_map]
    exact tiles_sum_gap cnt h a b td _ (by omega) hab hb (by omega) hok.2

/-! ### `getThreadDistance` at `stop = 2^64-1`: the last task is longer than 32 for every realistic thread count -/

/-- core of the argument, for an abstract iteration count `N` and lower bound `F` of the quotient -/
theorem lastTask_gap (dist N F : ℕ) (hN1 : 1 ≤ N) (hN : N ≤ 27709467) (hF : 858993459 ≤ F) (hNF : N * F ≤ dist) (hd1 : 1 ≤ dist) :
    32 ≤ (dist - 1) % (max ((dist - 1) / N + 1) 10000000 + (30 - max ((dist - 1) / N + 1) 10000000 % 30)) := by
  have h1 : dist - 1 < N * ((dist - 1) / N + 1) := Nat.lt_mul_div_succ _ (by omega)
  have h2 : N * ((dist - 1) / N) ≤ dist - 1 := Nat.mul_div_le _ _
  generalize hq0 : (dist - 1) / N = q0 at h1 h2
  have h3 : N * (q0 + 1) = N * q0 + N := by ring
  -- F ≤ td0
  have hF0 : F ≤ q0 + 1 := by
    have : N * F ≤ N * (q0 + 1) := by omega
    exact Nat.le_of_mul_le_mul_left this (by omega)
  have hM : max (q0 + 1) 10000000 = q0 + 1 := Nat.max_eq_left (by omega)
  rw [hM]
  have hmod := Nat.mod_lt (q0 + 1) (by norm_num : 30 > 0)
  generalize htd : q0 + 1 + (30 - (q0 + 1) % 30) = td
  by_contra hc
  have hr : (dist - 1) % td < 32 := by omega
  have hdm := Nat.div_add_mod (dist - 1) td
  generalize (dist - 1) / td = q at hdm
  generalize (dist - 1) % td = r at hdm hr
  have htd1 : q0 + 2 ≤ td := by omega
  have e3 : N * (q0 + 2) ≤ N * td := Nat.mul_le_mul_left N htd1
  have e4 : N * (q0 + 2) = N * q0 + 2 * N := by ring
  have hqN : q < N := by
    have : td * q < td * N := by
      have : td * N = N * td := Nat.mul_comm _ _
      omega
    exact Nat.lt_of_mul_lt_mul_left this
  have e5 : td * (q + 1) ≤ td * N := Nat.mul_le_mul_left td hqN
  have e6 : td * (q + 1) = td * q + td := by ring
  have e7 : td * N = N * td := Nat.mul_comm _ _
  -- the alignment step is 30 (td0 a multiple of 30) or at most 29
  by_cases h30 : (q0 + 1) % 30 = 0
  · have htd2 : td = q0 + 31 := by omega
    have e1 : N * td = N * q0 + 31 * N := by rw [htd2]; ring
    omega
  · have htd2 : td ≤ q0 + 30 := by omega
    have e1 : N * td ≤ N * (q0 + 30) := Nat.mul_le_mul_left N htd2
    have e2 : N * (q0 + 30) = N * q0 + 30 * N := by ring
    omega

/-- the thread distance of the multi-thread path at `stop = 2^64-1` (`isqrt = 4294967295`): last task longer than 32 for `threads ≤ 27709467` -/
theorem threadDist_gap (dist t : ℕ) (hd : dist ≤ umax) (ht2 : 2 ≤ t) (ht : t ≤ 27709467) (htd : t * 858993459 ≤ dist) :
    32 ≤ (dist - 1) % getThreadDistance 4294967295 dist t := by
  rw [getThreadDistance_eq_raw 4294967295 dist t (by omega) hd]
  unfold threadDistRaw
  simp only []
  have hbal : 4294967295 * 200 % two64 = 858993459000 := by unfold two64; norm_num
  rw [hbal]
  -- u = dist / t ≥ threshold
  have hu : 858993459 ≤ dist / t := by
    rw [Nat.le_div_iff_mul_le (by omega)]; rw [Nat.mul_comm]; exact htd
  have hut : t * (dist / t) ≤ dist := Nat.mul_div_le _ _
  have hut2 : dist < t * (dist / t + 1) := Nat.lt_mul_div_succ _ (by omega)
  generalize hF : min 858993459000 (dist / t) = F
  have hF1 : 858993459 ≤ F := by omega
  have hF2 : F ≤ dist / t := by omega
  have hFpos : 0 < F := by omega
  -- dist / F ≤ 27709467
  have hk : dist / F ≤ 27709467 := by
    rcases Nat.le_total 858993459000 (dist / t) with hle | hle
    · have : F = 858993459000 := by omega
      rw [this]
      have : dist / 858993459000 ≤ umax / 858993459000 := Nat.div_le_div_right hd
      have e : umax / 858993459000 = 21474836 := by unfold umax; norm_num
      omega
    · have : F = dist / t := by omega
      rw [this]
      -- dist / (dist / t) ≤ t since the remainder is below t < dist / t
      have : dist / (dist / t) < t + 1 := by
        rw [Nat.div_lt_iff_lt_mul (by omega)]
        have e : (t + 1) * (dist / t) = t * (dist / t) + dist / t := by ring
        have e' : t * (dist / t + 1) = t * (dist / t) + t := by ring
        omega
      omega
  have hkF : dist / F * F ≤ dist := Nat.div_mul_le_self _ _
  have hk0 : dist / F / t * t ≤ dist / F := Nat.div_mul_le_self _ _
  generalize hN : max (dist / F / t * t) t = N
  have hN1 : 1 ≤ N := by omega
  have hNle : N ≤ 27709467 := by omega
  have hNF : N * F ≤ dist := by
    rcases Nat.le_total (dist / F / t * t) t with hle | hle
    · have : N = t := by omega
      rw [this]
      calc t * F ≤ t * (dist / t) := Nat.mul_le_mul_left t hF2
        _ ≤ dist := hut
    · have : N = dist / F / t * t := by omega
      rw [this]
      calc dist / F / t * t * F ≤ dist / F * F := Nat.mul_le_mul_right F hk0
        _ ≤ dist := hkF
  exact lastTask_gap dist N F hN1 hNle hF1 hNF (by omega)

/-- `idealNumThreads` at `isqrt = 4294967295`: either 1, or `2 ≤ threads ≤ numThreads` with `threads · 858993459 ≤ dist` -/
theorem idealNumThreads_umax (a b t : ℕ) (hab : a ≤ b) (ht1 : 1 ≤ t) (h1 : idealNumThreads 4294967295 a b t ≠ 1) :
    2 ≤ idealNumThreads 4294967295 a b t ∧ idealNumThreads 4294967295 a b t ≤ t ∧
      idealNumThreads 4294967295 a b t * 858993459 ≤ b - a := by
  unfold idealNumThreads at h1 ⊢
  rw [if_neg (by omega)] at h1 ⊢
  simp only [] at h1 ⊢
  have hthr : max (4294967295 / 5) 10000000 = 858993459 := by decide
  rw [hthr] at h1 ⊢
  have hdm : (b - a) / 858993459 * 858993459 ≤ b - a := Nat.div_mul_le_self _ _
  generalize (b - a) / 858993459 = x at h1 hdm ⊢
  unfold inBetween at h1 ⊢
  by_cases hx1 : x < 1
  · rw [if_pos hx1] at h1; exact absurd rfl h1
  · rw [if_neg hx1] at h1 ⊢
    by_cases hx2 : x > t
    · rw [if_pos hx2] at h1 ⊢
      refine ⟨by omega, le_refl _, ?_⟩
      calc t * 858993459 ≤ x * 858993459 := Nat.mul_le_mul_right _ (by omega)
        _ ≤ b - a := hdm
    · rw [if_neg hx2] at h1 ⊢
      exact ⟨by omega, by omega, hdm⟩

/-- **`ParallelSieve::sieve()` at `stop = 2^64-1`**: the per-task counts add up to the count of `[start, 2^64-1]` for every additive count and every
    thread count `1 ≤ numThreads ≤ 27709467` (`isqrt(2^64-1) = 4294967295`: `Nat.sqrt umax`, see `sqrt_umax`) -/
theorem parCount_total_umax (cnt : ℕ → ℕ → ℕ) (h : CntAdd cnt) (a t : ℕ) (ha : a ≤ umax) (ht1 : 1 ≤ t) (ht : t ≤ 27709467) :
    parCount cnt 4294967295 a umax t = cnt a umax := by
  refine parCount_total_of_gap cnt h 4294967295 a umax t ha (le_refl _) (fun h1 => ?_)
  obtain ⟨h2, h3, h4⟩ := idealNumThreads_umax a umax t ha ht1 h1
  exact threadDist_gap (umax - a) _ (by omega) h2 (by omega) h4

theorem sqrt_umax : Nat.sqrt umax = 4294967295 := by
  unfold umax
  symm
  rw [Nat.eq_sqrt]; constructor <;> decide

/-- every `stop ≤ 2^64-1` (`isq` arbitrary below the top, `= isqrt` at the top) -/
theorem parCount_total_all (cnt : ℕ → ℕ → ℕ) (h : CntAdd cnt) (isq a b t : ℕ) (hb : b ≤ umax) (ht1 : 1 ≤ t) (ht : t ≤ 27709467)
    (hisq : b = umax → isq = 4294967295) : parCount cnt isq a b t = cnt a b := by
  by_cases hab : a ≤ b
  · rcases Nat.lt_or_ge b umax with hlt | hge
    · exact parCount_total cnt h isq a b t hab hlt
    · have hbe : b = umax := by omega
      rw [hisq hbe, hbe]
      exact parCount_total_umax cnt h a t (by omega) ht1 ht
  · rw [parCount_empty cnt isq a b t (by omega), h.empty a b (by omega)]

/-! ### the bound on the thread count is needed: the wrap in the model -/

/-- at `start = 18422941821390992413`, `stop = 2^64-1`, 27 709 468 threads: `threadDist = 858993510`, 27 709 468 tasks, the last one starts
    31 below `stop`; `align(start) + 1` wraps: the last task is `[0, 2^64-1]` and the one before already ends at `2^64-1` -/
theorem parCount_umax_wrap_witness :
    idealNumThreads 4294967295 18422941821390992413 umax 27709468 = 27709468 ∧
    getThreadDistance 4294967295 (umax - 18422941821390992413) 27709468 = 858993510 ∧
    (umax - 18422941821390992413 - 1) / 858993510 + 1 = 27709468 ∧
    threadInterval 18422941821390992413 umax 858993510 27709466 = (18446744072850558093, umax) ∧
    threadInterval 18422941821390992413 umax 858993510 27709467 = (0, umax) := by
  refine ⟨by decide +kernel, by decide +kernel, by decide +kernel, by decide +kernel, by decide +kernel⟩

/-- … hence the model's count there is the count of `[start, 2^64-1]` PLUS the count of `[0, 2^64-1]`, for every additive count -/
theorem parCount_umax_wrap (cnt : ℕ → ℕ → ℕ) (h : CntAdd cnt) :
    parCount cnt 4294967295 18422941821390992413 umax 27709468 = cnt 18422941821390992413 umax + cnt 0 umax := by
  obtain ⟨w1, w2, w3, w4, w5⟩ := parCount_umax_wrap_witness
  unfold parCount parIntervals
  rw [if_neg (by unfold umax; omega)]
  simp only []
  rw [w1, if_neg (by omega), w2, w3, List.map_map]
  have hpre := tiles_prefix_gap cnt h 18422941821390992413 umax 858993510 27709466 (by omega) (by unfold umax; omega) (le_refl _)
    (by unfold umax; omega) 27709466 (le_refl _)
  rw [w4] at hpre
  show ((List.range (27709467 + 1)).map _).sum = _
  rw [List.range_succ, List.map_append, List.sum_append]
  simp only [List.map_cons, List.map_nil, List.sum_cons, List.sum_nil, Nat.add_zero, Function.comp]
  rw [w5]
  show ((List.range (27709466 + 1)).map _).sum + _ = _
  rw [List.range_succ, List.map_append, List.sum_append]
  simp only [List.map_cons, List.map_nil, List.sum_cons, List.sum_nil, Nat.add_zero]
  have hpre' : (List.map ((fun p : ℕ × ℕ => cnt p.1 p.2) ∘ threadInterval 18422941821390992413 umax 858993510)
      (List.range 27709466)).sum + cnt 18446744072850558093 umax = cnt 18422941821390992413 umax := hpre
  rw [Function.comp_apply, w4]
  show _ + cnt 18446744072850558093 umax + _ = _
  rw [hpre']

/-- for the prime count this is NOT the number of primes of `[start, 2^64-1]` -/
theorem parCount_umax_wrap_primes :
    parCount primeCnt 4294967295 18422941821390992413 umax 27709468 ≠ primeCnt 18422941821390992413 umax := by
  rw [parCount_umax_wrap primeCnt primeCnt_add]
  have h2 := primeCnt_add.split 0 2 umax (by omega) (by unfold umax; omega)
  have h3 : primeCnt 0 2 = 1 := by decide
  omega

end Pc.It
