/-
C13 — COMPLETENESS of the repaired `int128_t` arithmetic of `PcModel/Calc.lean` and the exact
characterisation of the bottom-up checked evaluator `evalChecked`.

`PcProofs/CalcArith.lean` proves soundness (`binC_sound`). Here: whenever the exact result of an operator
application is defined, representable and the side conditions `stepOk` hold, the repaired `calculate`
returns it — EXCEPT in two situations where the repaired code is stricter than `InRange`/`stepOk`:

* `a << b` with `a < 0` is rejected (`-1 << 1` has the representable exact value `-2`);
* `MIN % -1` is rejected (exact value `0`), because the guard `a = MIN ∧ b = -1` is shared with `/`.

Both are captured by `codeOk` (one application) / `CodeOk` (whole tree), and both gaps are exhibited by
concrete examples at the end of the file.
-/
import PcProofs.CalcArith

namespace Pc.Calc

/-- extra condition, on the exact operand values, under which the repaired `calculate` accepts an
    application that `stepOk` and representability of the result already allow: the repaired `shiftLeft`
    rejects a negative left operand, and the repaired `%` rejects `MIN % -1` (exact value `0`) -/
def codeOk : Op → Int → Int → Prop
  | .shl, a, _ => 0 ≤ a
  | .mod, a, b => ¬(a = MIN ∧ b = -1)
  | _, _, _ => True

/-- `CodeOk e`: every operator application inside `e` satisfies `codeOk` on the exact operand values -/
def CodeOk : Expr → Prop
  | .lit _ => True
  | .neg e => CodeOk e
  | .not e => CodeOk e
  | .bin op a b => CodeOk a ∧ CodeOk b ∧
      ∃ x y, evalExact a = some x ∧ evalExact b = some y ∧ codeOk op x y

theorem chk_of_inR {v : Int} (h : inR v = true) : chk v = .ok v := by
  unfold chk; rw [if_pos h]

/-- the repaired square-and-multiply loop succeeds with `res * x^n` when all the products it forms
    (exactly `powProducts`) are representable -/
theorem powLoop_complete : ∀ (f : Nat) (res x : Int) (n : Nat), n < 2 ^ f →
    (∀ p ∈ powProducts f res x n, inR p = true) → powLoop mulC f res x n = .ok (res * x ^ n) := by
  intro f
  induction f with
  | zero =>
    intro res x n hn _
    have : n = 0 := by omega
    subst this
    simp [powLoop]
  | succ f ih =>
    intro res x n hn hp
    rw [powLoop]
    rw [powProducts] at hp
    by_cases hn0 : n = 0
    · subst hn0; simp
    · simp only [hn0, if_false] at hp ⊢
      have hn2 : n / 2 < 2 ^ f := by
        rw [pow_succ] at hn; omega
      by_cases hodd : n % 2 = 1
      · simp only [hodd, if_true] at hp ⊢
        have h1 : mulC res x = .ok (res * x) := chk_of_inR (hp _ (by simp))
        rw [h1]
        simp only
        by_cases hh : n / 2 = 0
        · simp only [hh, if_true]
          rw [pow_split x n, hodd, hh]; simp
        · simp only [hh, if_false] at hp ⊢
          have h2 : mulC x x = .ok (x * x) := chk_of_inR (hp _ (by simp))
          rw [h2]
          simp only
          rw [ih (res * x) (x * x) (n / 2) hn2 (fun p hp' => hp p (by simp [hp']))]
          congr 1
          rw [pow_split x n, hodd]; ring
      · have heven : n % 2 = 0 := by omega
        simp only [hodd, if_false] at hp ⊢
        have hh : n / 2 ≠ 0 := by omega
        simp only [hh, if_false] at hp ⊢
        have h2 : mulC x x = .ok (x * x) := chk_of_inR (hp _ (by simp))
        rw [h2]
        simp only
        rw [ih res (x * x) (n / 2) hn2 (fun p hp' => hp p (by simp [hp']))]
        congr 1
        rw [pow_split x n, heven]; ring

theorem powC_complete {x n : Int} (hn : inR n = true) (h0 : 0 ≤ n)
    (hp : ∀ p ∈ powProducts 128 1 x n.toNat, inR p = true) : powC x n = .ok (x ^ n.toNat) := by
  unfold powC
  rw [if_neg (by omega)]
  rw [inR_iff, MIN_val, MAX_val] at hn
  have hlt : n.toNat < 2 ^ 128 := by omega
  rw [powLoop_complete 128 1 x n.toNat hlt hp, one_mul]

theorem tdiv_MIN_neg_one : Int.tdiv MIN (-1) = 2 ^ 127 := by
  rw [MIN_val]; decide

/-- the repaired arithmetic is COMPLETE: when the exact result is defined and representable and the side
    conditions hold, `calculate` returns it — provided `codeOk` holds (non-negative left operand of `<<`,
    not `MIN % -1`); without `codeOk` the statement is false, see `shl_gap` and `mod_gap` -/
theorem binC_complete {o : Op} {a b v : Int} (ha : inR a = true) (hb : inR b = true)
    (hx : binExact o a b = some v) (hv : inR v = true) (hs : stepOk o a b) (hc : codeOk o a b) :
    binC o a b = .ok v := by
  cases o with
  | bor => simp only [binExact, Option.some.injEq] at hx; subst hx; rfl
  | band => simp only [binExact, Option.some.injEq] at hx; subst hx; rfl
  | shl =>
    obtain ⟨h0, h1⟩ := hs
    have hc' : 0 ≤ a := hc
    simp only [binExact] at hx
    rw [if_neg (by omega)] at hx
    simp only [Option.some.injEq] at hx
    subst hx
    simp only [binC]
    rw [if_neg (by omega)]
    exact chk_of_inR hv
  | shr =>
    obtain ⟨h0, h1⟩ := hs
    simp only [binExact] at hx
    rw [if_neg (by omega)] at hx
    simp only [Option.some.injEq] at hx
    subst hx
    simp only [binC]
    rw [if_neg (by omega)]
  | add => simp only [binExact, Option.some.injEq] at hx; subst hx; exact chk_of_inR hv
  | sub => simp only [binExact, Option.some.injEq] at hx; subst hx; exact chk_of_inR hv
  | mul => simp only [binExact, Option.some.injEq] at hx; subst hx; exact chk_of_inR hv
  | div =>
    simp only [binExact] at hx
    by_cases hb0 : b = 0
    · rw [if_pos hb0] at hx; cases hx
    · rw [if_neg hb0] at hx
      simp only [Option.some.injEq] at hx
      subst hx
      have hmin : ¬(a = MIN ∧ b = -1) := by
        rintro ⟨rfl, rfl⟩
        rw [tdiv_MIN_neg_one, inR_iff, MAX_val] at hv
        omega
      simp only [binC]
      rw [if_neg hb0, if_neg hmin]
  | mod =>
    have hmin : ¬(a = MIN ∧ b = -1) := hc
    simp only [binExact] at hx
    by_cases hb0 : b = 0
    · rw [if_pos hb0] at hx; cases hx
    · rw [if_neg hb0] at hx
      simp only [Option.some.injEq] at hx
      subst hx
      simp only [binC]
      rw [if_neg hb0, if_neg hmin]
  | pow =>
    obtain ⟨h0, hp⟩ := hs
    simp only [binExact] at hx
    rw [if_neg (by omega)] at hx
    simp only [Option.some.injEq] at hx
    subst hx
    simp only [binC]
    exact powC_complete hb h0 hp
  | exp =>
    obtain ⟨h0, hp⟩ := hs
    simp only [binExact] at hx
    rw [if_neg (by omega)] at hx
    simp only [Option.some.injEq] at hx
    subst hx
    simp only [binC]
    rw [powC_complete hb h0 hp]
    exact chk_of_inR hv

/-- a value returned by the repaired `calculate` was computed from operands satisfying `codeOk` -/
theorem binC_codeOk {o : Op} {a b v : Int} (h : binC o a b = .ok v) : codeOk o a b := by
  cases o with
  | shl =>
    simp only [binC] at h
    split at h
    · cases h
    · rename_i hc
      show 0 ≤ a
      omega
  | mod =>
    simp only [binC] at h
    split at h
    · cases h
    · split at h
      · cases h
      · rename_i hmin; exact hmin
  | bor => trivial
  | band => trivial
  | shr => trivial
  | add => trivial
  | sub => trivial
  | mul => trivial
  | div => trivial
  | pow => trivial
  | exp => trivial

/-- exact characterisation of one step of the repaired `calculate` on representable operands -/
theorem binC_iff {o : Op} {a b v : Int} (ha : inR a = true) (hb : inR b = true) :
    binC o a b = .ok v ↔
      (binExact o a b = some v ∧ inR v = true ∧ stepOk o a b ∧ codeOk o a b) := by
  constructor
  · intro h
    obtain ⟨h1, h2, h3⟩ := binC_sound ha hb h
    exact ⟨h1, h2, h3, binC_codeOk h⟩
  · rintro ⟨h1, h2, h3, h4⟩
    exact binC_complete ha hb h1 h2 h3 h4

/-- soundness of the bottom-up checked evaluation (with the representability of the result, needed for
    the induction) -/
theorem evalChecked_sound : ∀ (e : Expr) (v : Int), evalChecked e = .ok v →
    evalExact e = some v ∧ InRange e ∧ CodeOk e ∧ inR v = true := by
  intro e
  induction e with
  | lit n =>
    intro v h
    simp only [evalChecked] at h
    by_cases hn : checked.litOk n = true
    · rw [if_pos hn] at h
      cases h
      have hn' : (n : Int) ≤ MAX := of_decide_eq_true hn
      have hR : inR (n : Int) = true := by
        rw [inR_iff]; refine ⟨?_, hn'⟩
        rw [MIN_val]; omega
      exact ⟨rfl, hR, trivial, hR⟩
    · rw [if_neg hn] at h; cases h
  | neg e ih =>
    intro v h
    simp only [evalChecked] at h
    cases he : evalChecked e with
    | error err => rw [he] at h; cases h
    | ok x =>
      rw [he] at h
      simp only [checked] at h
      obtain ⟨hv, hR⟩ := chk_ok h
      obtain ⟨i1, i2, i3, _⟩ := ih x he
      have hval : evalExact (.neg e) = some v := by
        simp only [evalExact, i1]; rw [hv]; congr 1; omega
      have hRv : inR v = true := by rw [hv]; exact hR
      exact ⟨hval, ⟨i2, v, hval, hRv⟩, i3, hRv⟩
  | not e ih =>
    intro v h
    simp only [evalChecked] at h
    cases he : evalChecked e with
    | error err => rw [he] at h; cases h
    | ok x =>
      rw [he] at h
      cases h
      obtain ⟨i1, i2, i3, i4⟩ := ih x he
      have hval : evalExact (.not e) = some (lnot x) := by
        simp only [evalExact, i1]
      exact ⟨hval, ⟨i2, _, hval, lnot_inR i4⟩, i3, lnot_inR i4⟩
  | bin op a b iha ihb =>
    intro v h
    simp only [evalChecked] at h
    cases hea : evalChecked a with
    | error err => rw [hea] at h; cases h
    | ok x =>
      rw [hea] at h
      simp only at h
      cases heb : evalChecked b with
      | error err => rw [heb] at h; cases h
      | ok y =>
        rw [heb] at h
        simp only at h
        obtain ⟨a1, a2, a3, a4⟩ := iha x hea
        obtain ⟨b1, b2, b3, b4⟩ := ihb y heb
        obtain ⟨s1, s2, s3⟩ := binC_sound a4 b4 h
        have hval : evalExact (.bin op a b) = some v := by
          simp only [evalExact, a1, b1]; exact s1
        exact ⟨hval, ⟨a2, b2, x, y, v, a1, b1, s1, s2, s3⟩,
          ⟨a3, b3, x, y, a1, b1, binC_codeOk h⟩, s2⟩

/-- an `InRange` tree has a representable exact value -/
theorem InRange_inR : ∀ (e : Expr) (v : Int), evalExact e = some v → InRange e → inR v = true := by
  intro e
  cases e with
  | lit n =>
    intro v h hr
    simp only [evalExact, Option.some.injEq] at h
    subst h; exact hr
  | neg e =>
    intro v h hr
    obtain ⟨_, w, hw, hR⟩ := hr
    rw [h] at hw; cases hw; exact hR
  | not e =>
    intro v h hr
    obtain ⟨_, w, hw, hR⟩ := hr
    rw [h] at hw; cases hw; exact hR
  | bin op a b =>
    intro v h hr
    obtain ⟨_, _, x, y, w, hx, hy, hw, hR, _⟩ := hr
    simp only [evalExact, hx, hy] at h
    rw [h] at hw; cases hw; exact hR

/-- completeness of the bottom-up checked evaluation -/
theorem evalChecked_complete : ∀ (e : Expr) (v : Int), evalExact e = some v → InRange e → CodeOk e →
    evalChecked e = .ok v := by
  intro e
  induction e with
  | lit n =>
    intro v h hr _
    simp only [evalExact, Option.some.injEq] at h
    subst h
    have hr' : inR (n : Int) = true := hr
    rw [inR_iff] at hr'
    have hn : checked.litOk n = true := decide_eq_true hr'.2
    simp only [evalChecked]
    rw [if_pos hn]
  | neg e ih =>
    intro v h hr hc
    obtain ⟨hre, w, hw, hR⟩ := hr
    rw [h] at hw; cases hw
    cases hx : evalExact e with
    | none => simp only [evalExact, hx] at h; cases h
    | some x =>
      simp only [evalExact, hx, Option.some.injEq] at h
      subst h
      simp only [evalChecked]
      rw [ih x hx hre hc]
      simp only [checked]
      have : (0 : Int) - x = -x := by omega
      rw [this]
      exact chk_of_inR hR
  | not e ih =>
    intro v h hr hc
    obtain ⟨hre, _⟩ := hr
    cases hx : evalExact e with
    | none => simp only [evalExact, hx] at h; cases h
    | some x =>
      simp only [evalExact, hx, Option.some.injEq] at h
      subst h
      simp only [evalChecked]
      rw [ih x hx hre hc]
  | bin op a b iha ihb =>
    intro v h hr hc
    obtain ⟨hra, hrb, x, y, w, hx, hy, hw, hR, hs⟩ := hr
    obtain ⟨hca, hcb, x', y', hx', hy', hco⟩ := hc
    rw [hx] at hx'; cases hx'
    rw [hy] at hy'; cases hy'
    simp only [evalExact, hx, hy] at h
    rw [h] at hw; cases hw
    simp only [evalChecked]
    rw [iha x hx hra hca, ihb y hy hrb hcb]
    simp only
    exact binC_complete (InRange_inR a x hx hra) (InRange_inR b y hy hrb) h hR hs hco

/-- bottom-up checked evaluation succeeds with `v` exactly when the tree is `InRange` with exact value
    `v` AND no application is one of the two cases that the repaired code rejects although the exact
    value is representable (`CodeOk`: negative left operand of `<<`, `MIN % -1`) -/
theorem evalChecked_iff (e : Expr) (v : Int) :
    evalChecked e = .ok v ↔ (evalExact e = some v ∧ InRange e ∧ CodeOk e) := by
  constructor
  · intro h
    obtain ⟨h1, h2, h3, _⟩ := evalChecked_sound e v h
    exact ⟨h1, h2, h3⟩
  · rintro ⟨h1, h2, h3⟩
    exact evalChecked_complete e v h1 h2 h3

/-- on trees without the two rejected shapes, `evalChecked` is exactly `InRange` + exact value -/
theorem evalChecked_iff_of_CodeOk (e : Expr) (v : Int) (hc : CodeOk e) :
    evalChecked e = .ok v ↔ (evalExact e = some v ∧ InRange e) := by
  rw [evalChecked_iff]
  exact ⟨fun h => ⟨h.1, h.2.1⟩, fun h => ⟨h.1, h.2, hc⟩⟩

/-! ### the two gaps between `InRange` and the repaired code, concretely -/

/-- GAP 1 (`-1 << 1`): the tree is `InRange` with exact value `-2`, but the repaired `shiftLeft` rejects
    the negative left operand -/
theorem shl_gap :
    evalExact (.bin .shl (.neg (.lit 1)) (.lit 1)) = some (-2) ∧
    InRange (.bin .shl (.neg (.lit 1)) (.lit 1)) ∧
    evalChecked (.bin .shl (.neg (.lit 1)) (.lit 1)) = .error .overflow := by
  refine ⟨by decide, ?_, by decide⟩
  have h1 : InRange (.lit 1) := by show inR ((1 : Nat) : Int) = true; decide
  refine ⟨⟨h1, -1, by decide, by decide⟩, h1, -1, 1, -2, by decide, by decide, by decide,
    by decide, ?_⟩
  show (0 : Int) ≤ 1 ∧ (1 : Int) < 128
  omega

/-- the tree of `(-170141183460469231731687303715884105727 - 1) % -1`, i.e. `MIN % -1` -/
def minModNegOne : Expr :=
  .bin .mod (.bin .sub (.neg (.lit 170141183460469231731687303715884105727)) (.lit 1)) (.neg (.lit 1))

/-- GAP 2 (`MIN % -1`): the tree is `InRange` with exact value `0`, but the repaired `%` shares the
    `MIN / -1` guard with `/` and reports an overflow -/
theorem mod_gap :
    evalExact minModNegOne = some 0 ∧ InRange minModNegOne ∧
    evalChecked minModNegOne = .error .overflow := by
  refine ⟨by decide, ?_, by decide⟩
  have h1 : InRange (.lit 1) := by show inR ((1 : Nat) : Int) = true; decide
  have hM : InRange (.lit 170141183460469231731687303715884105727) := by
    show inR ((170141183460469231731687303715884105727 : Nat) : Int) = true; decide
  refine ⟨⟨⟨hM, _, rfl, by decide⟩, h1, _, _, _, rfl, rfl, rfl, by decide, trivial⟩,
    ⟨h1, _, rfl, by decide⟩, _, _, _, rfl, rfl, rfl, by decide, trivial⟩

end Pc.Calc
