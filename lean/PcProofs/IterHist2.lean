/-
C18 (WP iter2): what the abstract cursor yields on runs of `next_prime()` / `prev_prime()` (corollaries of the whole-history
refinement `run_eq_absRun`, PcProofs/IterHist.lean).
-/
import PcProofs.IterHist

namespace Pc.It
open Nat

/-! ### runs of `next_prime()` -/

/-- `l` = consecutive primes upwards: each entry is the smallest prime at or above the position left by its predecessor -/
def ChainUp : ℕ → List ℕ → Prop
  | _, [] => True
  | h, p :: rest => IsNext h p ∧ p ≤ umax ∧ ChainUp (p + 1) rest

theorem absNext_eq_none {c : Cur} (h : absNext c = none) : ∀ p, p.Prime → c.hi ≤ p → ¬ p ≤ umax := by
  classical
  intro p hp h1 h2
  unfold absNext at h
  rw [dif_pos ⟨p, hp, h1, h2⟩] at h
  exact absurd h (by simp)

/-- `k` abstract `next` steps: a chain of consecutive primes; either all `k` values, or `primesieve_error` after every prime
    of `[hi, 2^64)` was returned -/
theorem absRun_next (k : ℕ) : ∀ c : Cur,
    ChainUp c.hi (absRun c (List.replicate k .next)).1 ∧
    (((absRun c (List.replicate k .next)).2 = none ∧ (absRun c (List.replicate k .next)).1.length = k) ∨
     ((absRun c (List.replicate k .next)).2 = some .ps ∧ (absRun c (List.replicate k .next)).1.length < k ∧
        ∀ q, q.Prime → c.hi ≤ q → q ≤ umax → q ∈ (absRun c (List.replicate k .next)).1)) := by
  induction k with
  | zero => intro c; exact ⟨trivial, Or.inl ⟨rfl, rfl⟩⟩
  | succ k ih =>
    intro c
    rw [List.replicate_succ]
    simp only [absRun]
    rcases hn : absNext c with _ | p
    · refine ⟨trivial, Or.inr ⟨rfl, by simp, fun q hq h1 h2 => ?_⟩⟩
      exact absurd h2 (absNext_eq_none hn q hq h1)
    · obtain ⟨hnx, hpu⟩ := absNext_spec hn
      obtain ⟨hch, hres⟩ := ih (Cur.at p)
      simp only []
      refine ⟨⟨hnx, hpu, hch⟩, ?_⟩
      rcases hres with ⟨h1, h2⟩ | ⟨h1, h2, h3⟩
      · exact Or.inl ⟨h1, by simp [h2]⟩
      · refine Or.inr ⟨h1, by simp only [List.length_cons]; omega, fun q hq hle hqu => ?_⟩
        rcases Nat.eq_or_lt_of_le (hnx.2.2 q hq hle) with heq | hlt
        · rw [← heq]; exact List.mem_cons_self
        · exact List.mem_cons_of_mem _ (h3 q hq hlt hqu)

/-- a chain from `h` lists exactly the primes of `[h, its last entry]`, strictly increasing -/
theorem ChainUp.primesIn : ∀ (l : List ℕ) (h : ℕ), ChainUp h l → ∀ L, l.getLast? = some L → PrimesIn l h L
  | [], _, _, L, hL => by simp at hL
  | [p], h, hc, L, hL => by
    have : p = L := by simpa using hL
    subst this
    refine ⟨List.pairwise_singleton _ _, fun q => ?_⟩
    rw [List.mem_singleton]
    constructor
    · rintro rfl; exact ⟨hc.1.1, hc.1.2.1, le_refl _⟩
    · rintro ⟨h1, h2, h3⟩; exact le_antisymm h3 (hc.1.2.2 q h1 h2)
  | p :: p2 :: rest, h, hc, L, hL => by
    rw [List.getLast?_cons_cons] at hL
    have ih := ChainUp.primesIn (p2 :: rest) (p + 1) hc.2.2 L hL
    have hpL : p + 1 ≤ L := ((ih.2 L).1 (List.mem_of_getLast? hL)).2.1
    refine ⟨List.pairwise_cons.2 ⟨fun x hx => ?_, ih.1⟩, fun q => ?_⟩
    · have := ((ih.2 x).1 hx).2.1; omega
    · rw [List.mem_cons, ih.2 q]
      constructor
      · rintro (rfl | ⟨h1, h2, h3⟩)
        · exact ⟨hc.1.1, hc.1.2.1, by omega⟩
        · exact ⟨h1, by have := hc.1.2.1; omega, h3⟩
      · rintro ⟨h1, h2, h3⟩
        rcases Nat.eq_or_lt_of_le (hc.1.2.2 q h1 h2) with heq | hlt
        · exact Or.inl heq.symm
        · exact Or.inr ⟨h1, hlt, h3⟩

/-! ### runs of `prev_prime()` -/

/-- the values of `k` consecutive `prev_prime()` calls when the first one returns `v`: each is the largest prime below its
    predecessor, 0 when there is none (and then 0 forever: `Nat.findGreatest Nat.Prime (0 - 1) = 0`) -/
def prevSeq : ℕ → ℕ → List ℕ
  | _, 0 => []
  | v, k + 1 => v :: prevSeq (Nat.findGreatest Nat.Prime (v - 1)) k

theorem absRun_prev (k : ℕ) : ∀ c : Cur, absRun c (List.replicate k .prev) = (prevSeq (absPrev c) k, none) := by
  induction k with
  | zero => intro c; rfl
  | succ k ih =>
    intro c
    rw [List.replicate_succ]
    simp only [absRun, ih]
    rfl

theorem prevSeq_length (k : ℕ) : ∀ v, (prevSeq v k).length = k := by
  induction k with
  | zero => intro v; rfl
  | succ k ih => intro v; simp [prevSeq, ih]

theorem prevSeq_zero (k : ℕ) : prevSeq 0 k = List.replicate k 0 := by
  induction k with
  | zero => rfl
  | succ k ih =>
    have : Nat.findGreatest Nat.Prime (0 - 1) = 0 := by decide
    rw [prevSeq, this, ih, List.replicate_succ]

/-- entries of `prevSeq v k` (for `v` prime or 0): every non-zero entry is a prime `≤ v`, and every prime `q ≤ v` that is
    `≥` some non-zero entry… stated as: the entries are `v`, then the primes below `v` downwards without gaps -/
theorem prevSeq_spec (k : ℕ) : ∀ v, (v = 0 ∨ v.Prime) →
    (prevSeq v k).Pairwise (fun a b => b < a ∨ (a = 0 ∧ b = 0)) ∧
    (∀ q ∈ prevSeq v k, q = 0 ∨ (q.Prime ∧ q ≤ v)) ∧
    (∀ q, q.Prime → q ≤ v → ∀ x ∈ prevSeq v k, x ≤ q → q ∈ prevSeq v k) := by
  induction k with
  | zero => intro v _; exact ⟨List.Pairwise.nil, fun q hq => by simp [prevSeq] at hq, fun q _ _ x hx => by simp [prevSeq] at hx⟩
  | succ k ih =>
    intro v hv
    have hw : Nat.findGreatest Nat.Prime (v - 1) = 0 ∨ (Nat.findGreatest Nat.Prime (v - 1)).Prime := by
      by_cases h0 : Nat.findGreatest Nat.Prime (v - 1) = 0
      · exact Or.inl h0
      · exact Or.inr (Nat.findGreatest_of_ne_zero rfl h0)
    have hwle : Nat.findGreatest Nat.Prime (v - 1) ≤ v - 1 := Nat.findGreatest_le _
    obtain ⟨ih1, ih2, ih3⟩ := ih _ hw
    rw [prevSeq]
    refine ⟨List.pairwise_cons.2 ⟨fun x hx => ?_, ih1⟩, fun q hq => ?_, fun q hq hqv x hx hxq => ?_⟩
    · rcases ih2 x hx with h0 | ⟨_, hle⟩
      · rcases hv with hv0 | hvp
        · exact Or.inr ⟨hv0, h0⟩
        · left; have := hvp.two_le; omega
      · left
        have : 1 ≤ v := by
          by_contra hc
          have : v = 0 := by omega
          subst this
          have := (ih2 x hx)
          have e1 : Nat.findGreatest Nat.Prime (0 - 1) = 0 := by decide
          rw [e1] at hle
          rcases this with h | ⟨h, _⟩
          · subst h; exact absurd ‹Nat.Prime 0› (by decide)
          · have := h.two_le; omega
        omega
    · rcases List.mem_cons.1 hq with rfl | hq'
      · rcases hv with h | h
        · exact Or.inl h
        · exact Or.inr ⟨h, le_refl _⟩
      · rcases ih2 q hq' with h | ⟨h1, h2⟩
        · exact Or.inl h
        · exact Or.inr ⟨h1, by omega⟩
    · rcases Nat.eq_or_lt_of_le hqv with heq | hlt
      · rw [heq]; exact List.mem_cons_self
      · have hqw : q ≤ Nat.findGreatest Nat.Prime (v - 1) := Nat.le_findGreatest (by omega) hq
        rcases List.mem_cons.1 hx with rfl | hx'
        · omega
        · exact List.mem_cons_of_mem _ (ih3 q hq hqw x hx' hxq)

end Pc.It
