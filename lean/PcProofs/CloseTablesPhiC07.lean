/-
WP close, item 4 (part 7): the hypothesis `PhiNegSpec` of the closed table instances (the `PhiCache::phi<-1>` that `phi_vector` calls) is the
conclusion of C07's `phiRecAlg_correct` — for EVERY cache content that agrees with the spec where it can be consulted and every cache state
`mac = max_a_cached_` (so the state that evolves between the calls of one `phi_vector` does not matter).
-/
import PcProofs.CloseTablesPhi
import PcProofs.PhiAlg

namespace Pc.Close
open Pc.PhiVec Pc.PhiAlgProofs

/-- **C07 ⇒ `PhiNegSpec`**: the L2 model of `PhiCache::phi<-1>(y, b)` over an environment meeting C07's `EnvOK E A` -/
theorem phiNegSpec_of_phiRecAlg (E : PhiEnv) (A : ℕ) (hE : EnvOK E A) (mac : ℕ) (hm : mac ≤ E.cache.maxA) :
    PhiNegSpec (fun y b => (phiRecAlg E (b + 1) (-1) y b mac).1) A :=
  fun y b hy hb => by
    show (phiRecAlg E (b + 1) (-1) y b mac).1 = _
    rw [(phiRecAlg_correct hE (b + 1) (-1) y b mac (Nat.lt_succ_self _) (by omega) hy hm).1, neg_one_mul]

end Pc.Close
