/-
C18 core: reading the primes out of the sieve words (`Erat::nextPrime` + `bitValues`, the `bits &= bits - 1` scan of
`PrimeGenerator::fillNextPrimes` / `SievingPrimes::fill` / `CountPrintPrimes::printPrimes`): the numbers produced from a
segment are exactly the numbers of its set bits, in strictly increasing order.
-/
import PcProofs.PsCoreCarry
import PcProofs.Sieve.Bits

namespace Pc.PsCore
open Pc.PsWheelSpec
open Pc.Sieve (Bytes bitAt word64 word64_testBit)

theorem filterMap_ite {α β : Type} (c : α → Bool) (f : α → β) (l : List α) :
    l.filterMap (fun i => if c i then some (f i) else none) = (l.filter c).map f := by
  induction l with
  | nil => rfl
  | cons a l ih =>
    by_cases h : c a
    · simp [List.filterMap_cons, h, ih]
    · simp [List.filterMap_cons, h, ih]

theorem bitValues_eq : ∀ i < 64, Gen.psBitValues.getD i 0 = 30 * (i / 8) + bitVals.getD (i % 8) 0 := by
  rw [Gen.psBitValues_ok]; decide +kernel

theorem numOf_word (L w t : ℕ) (ht : t < 64) :
    numOf L (64 * w + t) = L + 240 * w + Gen.psBitValues.getD t 0 := by
  unfold numOf
  rw [bitValues_eq t ht, show (64 * w + t) / 8 = 8 * w + t / 8 by omega, show (64 * w + t) % 8 = t % 8 by omega]
  omega

theorem bitVals_step : ∀ a < 8, ∀ b < 8, a < b → bitVals.getD a 0 < bitVals.getD b 0 := by decide

/-- the bit scan order is the order of the numbers -/
theorem numOf_strictMono (L p p' : ℕ) (h : p < p') : numOf L p < numOf L p' := by
  unfold numOf
  have h8 : p % 8 < 8 := Nat.mod_lt _ (by decide)
  have h8' : p' % 8 < 8 := Nat.mod_lt _ (by decide)
  have r1 := bitVals_range _ h8
  have r2 := bitVals_range _ h8'
  by_cases hb : p / 8 = p' / 8
  · have : p % 8 < p' % 8 := by omega
    have := bitVals_step _ h8 _ h8' this
    rw [hb]; omega
  · have : p / 8 < p' / 8 := by
      have := Nat.div_le_div_right (c := 8) (Nat.le_of_lt h)
      omega
    omega

/-- **one 64-bit word**: the primes read from word `w` of a segment with low `L` are the numbers of its set bits,
    in the order of the bit positions -/
theorem wordPrimes_spec (s : Bytes) (hs : ∀ i, s.getD i 0 < 256) (L w : ℕ) :
    wordPrimes (word64 s w) (L + 240 * w) =
      ((List.range 64).filter fun t => bitAt s (64 * w + t)).map fun t => numOf L (64 * w + t) := by
  unfold wordPrimes
  rw [filterMap_ite]
  have hf : (List.range 64).filter (fun i => (word64 s w).testBit i) =
      (List.range 64).filter (fun t => bitAt s (64 * w + t)) := by
    apply List.filter_congr
    intro t ht
    rw [word64_testBit s hs w t (List.mem_range.mp ht)]
  rw [hf]
  apply List.map_congr_left
  intro t ht
  have ht64 : t < 64 := List.mem_range.mp (List.mem_filter.mp ht).1
  rw [numOf_word L w t ht64]

/-- the numbers read from one word are strictly increasing and are exactly the numbers of the set bits of that word -/
theorem wordPrimes_sorted_mem (s : Bytes) (hs : ∀ i, s.getD i 0 < 256) (L w : ℕ) :
    (wordPrimes (word64 s w) (L + 240 * w)).Pairwise (· < ·) ∧
    ∀ n, n ∈ wordPrimes (word64 s w) (L + 240 * w) ↔ ∃ t < 64, bitAt s (64 * w + t) = true ∧ n = numOf L (64 * w + t) := by
  rw [wordPrimes_spec s hs L w]
  constructor
  · rw [List.pairwise_map]
    refine List.Pairwise.imp ?_ (List.Pairwise.filter _ List.pairwise_lt_range)
    intro a b hab
    exact numOf_strictMono L _ _ (by omega)
  · intro n
    simp only [List.mem_map, List.mem_filter, List.mem_range]
    constructor
    · rintro ⟨t, ⟨h1, h2⟩, rfl⟩; exact ⟨t, h1, h2, rfl⟩
    · rintro ⟨t, h1, h2, rfl⟩; exact ⟨t, ⟨h1, h2⟩, rfl⟩

/-- **a whole segment**: the list read from the words `w0, w0+1, …` (as `sievePrimes` does, 8 bytes and 240 numbers per
    step) contains exactly the numbers of the set bits from word `w0` on, and is strictly increasing -/
theorem sievePrimes_spec (s : Bytes) (hs : ∀ i, s.getD i 0 < 256) (L : ℕ) :
    ∀ (fuel w0 : ℕ), (s.size + 7) / 8 - w0 ≤ fuel →
      (sievePrimes s fuel (8 * w0) (L + 240 * w0)).Pairwise (· < ·) ∧
      (∀ n, n ∈ sievePrimes s fuel (8 * w0) (L + 240 * w0) ↔
        ∃ p, 64 * w0 ≤ p ∧ bitAt s p = true ∧ n = numOf L p) := by
  intro fuel
  induction fuel with
  | zero =>
    intro w0 h
    refine ⟨by simp [sievePrimes], ?_⟩
    intro n
    simp only [sievePrimes, List.not_mem_nil, false_iff]
    rintro ⟨p, hp, hb, _⟩
    have : bitAt s p = false := Pc.Sieve.bitAt_false_of_ge s p (by omega)
    rw [this] at hb; exact Bool.false_ne_true hb
  | succ fuel ih =>
    intro w0 h
    unfold sievePrimes
    by_cases hlt : 8 * w0 < s.size
    · simp only [hlt, if_true]
      have e1 : 8 * w0 / 8 = w0 := by omega
      have e2 : 8 * w0 + 8 = 8 * (w0 + 1) := by ring
      have e3 : L + 240 * w0 + 240 = L + 240 * (w0 + 1) := by ring
      rw [e1, e2, e3]
      obtain ⟨hs1, hm1⟩ := wordPrimes_sorted_mem s hs L w0
      obtain ⟨hs2, hm2⟩ := ih (w0 + 1) (by omega)
      constructor
      · rw [List.pairwise_append]
        refine ⟨hs1, hs2, ?_⟩
        intro a ha b hb
        obtain ⟨t, ht, _, rfl⟩ := (hm1 a).mp ha
        obtain ⟨p, hp, _, rfl⟩ := (hm2 b).mp hb
        exact numOf_strictMono L _ _ (by omega)
      · intro n
        rw [List.mem_append, hm1, hm2]
        constructor
        · rintro (⟨t, ht, hb, rfl⟩ | ⟨p, hp, hb, rfl⟩)
          · exact ⟨64 * w0 + t, by omega, hb, rfl⟩
          · exact ⟨p, by omega, hb, rfl⟩
        · rintro ⟨p, hp, hb, rfl⟩
          by_cases hw : p < 64 * w0 + 64
          · left; exact ⟨p - 64 * w0, by omega, by rw [show 64 * w0 + (p - 64 * w0) = p by omega]; exact hb,
              by rw [show 64 * w0 + (p - 64 * w0) = p by omega]⟩
          · right; exact ⟨p, by omega, hb, rfl⟩
    · simp only [hlt, if_false]
      refine ⟨List.Pairwise.nil, ?_⟩
      intro n
      simp only [List.not_mem_nil, false_iff]
      rintro ⟨p, hp, hb, _⟩
      have : bitAt s p = false := Pc.Sieve.bitAt_false_of_ge s p (by omega)
      rw [this] at hb; exact Bool.false_ne_true hb

end Pc.PsCore
