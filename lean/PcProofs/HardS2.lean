/-
WP hard: `S2_hard_thread` (S2_hard.cpp:55-180) — the level enumerations `s2Level1` / `s2Level2` meet `LvSpec`, hence by
`segLoop_spec` the chunk function returns the hard special leaves located in the chunk window.

`W1 x y b lo hi`  : leaves `(p_b, m)`, `y/p_b < m ≤ y`, `μ m ≠ 0`, `p_b < lpf m`, with position `x/(p_b m) ∈ [lo, hi)` (levels `b ≤ π√y`)
`W2 x y z b lo hi`: leaves `(p_b, p_j)`, `b < j ≤ π y`, `p_b p_j ≤ z`, position in `[lo, hi)` (levels `b > π√y`)
-/
import PcProofs.HardLeaves
import PcProofs.FactorTableCtor

namespace Pc.Hard
open Nat Finset
open scoped Nat.Prime ArithmeticFunction.Moebius

local notation "p" => Spec.p
local notation "φ" => Spec.phi

/-- the tables are what the real constructors build for the prime bound `P` -/
structure EnvOK (e : Env) (P : ℕ) : Prop where
  primes_zero : e.primes 0 = 0
  primesSize : e.primesSize = π P + 1
  primes_eq : ∀ i, 1 ≤ i → i ≤ π P → e.primes i = p i
  piMax : e.piMax = P
  pi_eq : ∀ n, n ≤ P → e.pi n = π n
  phiVec_size : ∀ low a, (e.phiVec low a).size = a + 1
  phiVec_eq : ∀ low a i, a ≤ π P → 1 ≤ i → i ≤ a → (e.phiVec low a).getD i 0 = (φ low (i - 1) : ℤ)

/-- `factor_[]` is the FactorTable for the bound `Y` with entry type maximum `tmax` (C17 `factorTable_correct`) -/
structure FactorOK (e : Env) (tmax Y : ℕ) : Prop where
  size : e.factorSize = toIndex (max 1 Y) + 1
  val : ∀ n, C2310 n → n ≤ Y → e.factor (toIndex n) = ftSpec tmax n
  odd : tmax % 2 = 1
  big : Nat.sqrt Y + 1 < tmax

/-! ### the windowed leaf sums -/

/-- a leaf `m` of a level with prime `q`: square-free with all prime factors `> q` -/
def Good (q m : ℕ) : Prop := μ m ≠ 0 ∧ q < m.minFac

instance (q m : ℕ) : Decidable (Good q m) := by unfold Good; exact inferInstance

noncomputable def W1 (x y b lo hi : ℕ) : ℤ :=
  - ∑ m ∈ (Ioc (y / p b) y).filter (Good (p b)),
      if lo ≤ x / (p b * m) ∧ x / (p b * m) < hi then μ m * (φ (x / (p b * m)) (b - 1) : ℤ) else 0

noncomputable def W2 (x y z b lo hi : ℕ) : ℤ :=
  ∑ j ∈ (Ioc b (π y)).filter (fun j => p b * p j ≤ z),
      if lo ≤ x / (p b * p j) ∧ x / (p b * p j) < hi then (φ (x / (p b * p j)) (b - 1) : ℤ) else 0

noncomputable def WS2 (x y z b lo hi : ℕ) : ℤ :=
  if b ≤ π (Nat.sqrt y) then W1 x y b lo hi else W2 x y z b lo hi

theorem ite_window_add (v lo mid hi : ℕ) (a : ℤ) (h1 : lo ≤ mid) (h2 : mid ≤ hi) :
    (if lo ≤ v ∧ v < mid then a else 0) + (if mid ≤ v ∧ v < hi then a else 0) = if lo ≤ v ∧ v < hi then a else 0 := by
  by_cases ha : lo ≤ v ∧ v < mid
  · rw [if_pos ha, if_neg (by omega), if_pos ⟨ha.1, by omega⟩, add_zero]
  · by_cases hb : mid ≤ v ∧ v < hi
    · rw [if_neg ha, if_pos hb, if_pos ⟨by omega, hb.2⟩, zero_add]
    · rw [if_neg ha, if_neg hb, if_neg (by omega), add_zero]

theorem WS2_add (x y z b lo mid hi : ℕ) (h1 : lo ≤ mid) (h2 : mid ≤ hi) :
    WS2 x y z b lo mid + WS2 x y z b mid hi = WS2 x y z b lo hi := by
  unfold WS2
  split_ifs
  · unfold W1
    rw [← neg_add, ← Finset.sum_add_distrib]
    congr 1
    exact Finset.sum_congr rfl (fun m _ => ite_window_add _ _ _ _ _ h1 h2)
  · unfold W2
    rw [← Finset.sum_add_distrib]
    exact Finset.sum_congr rfl (fun m _ => ite_window_add _ _ _ _ _ h1 h2)

theorem WS2_empty (x y z b lo : ℕ) : WS2 x y z b lo lo = 0 := by
  unfold WS2 W1 W2
  split_ifs
  · rw [Finset.sum_eq_zero, neg_zero]
    intro m _; rw [if_neg (by omega)]
  · apply Finset.sum_eq_zero
    intro m _; rw [if_neg (by omega)]

/-! ### the `goto next_segment` tests -/

/-- upper end of the leaf range of level `b` for positions `≥ lo` (`max_m` resp. the argument of `pi[…]` for `l`) -/
noncomputable def cap (x y z b lo : ℕ) : ℕ :=
  if b ≤ π (Nat.sqrt y) then min (x / p b / max lo 1) y else min (min (x / p b / max lo 1) y) (z / p b)

/-- `prime >= max_m` (first loop) resp. `prime >= primes[l]` (second loop) -/
def brk (x y z b lo : ℕ) : Prop :=
  if b ≤ π (Nat.sqrt y) then p b ≥ cap x y z b lo else π (cap x y z b lo) ≤ b

theorem div_max_anti (x q : ℕ) {lo lo' : ℕ} (h : lo ≤ lo') : x / q / max lo' 1 ≤ x / q / max lo 1 :=
  Nat.div_le_div_left (by omega) (by omega)

theorem cap_anti_lo (x y z b : ℕ) {lo lo' : ℕ} (h : lo ≤ lo') : cap x y z b lo' ≤ cap x y z b lo := by
  unfold cap
  have := div_max_anti x (p b) h
  split_ifs <;> omega

theorem brk_mono_lo (x y z b : ℕ) {lo lo' : ℕ} (h : lo ≤ lo') (hb : brk x y z b lo) : brk x y z b lo' := by
  unfold brk at *
  have := cap_anti_lo x y z b h
  split_ifs at * with h1
  · omega
  · exact le_trans (Spec.pi_mono this) hb

/-- the cap of a later level is smaller -/
theorem cap_anti_b (x y z : ℕ) {b b' : ℕ} (hbb : b ≤ b') (lo : ℕ) : cap x y z b' lo ≤ cap x y z b lo := by
  unfold cap
  have hp : p b ≤ p b' := Spec.p_le_p hbb
  have h1 : x / p b' / max lo 1 ≤ x / p b / max lo 1 :=
    Nat.div_le_div_right (Nat.div_le_div_left hp (Spec.p_pos b))
  have h2 : z / p b' ≤ z / p b := Nat.div_le_div_left hp (Spec.p_pos b)
  split_ifs with g1 g2 g2 <;> omega

/-- a leaf of level `b'` at a position `≥ lo'` exhibits a number `q` with `p b' < q ≤ cap b' lo'`, prime when the level is
    beyond `π√y`; a level that breaks at `lo ≤ lo'`, `b ≤ b'` leaves no room for it -/
theorem no_room {x y z b b' lo lo' q : ℕ} (hbb : b ≤ b') (hll : lo ≤ lo') (hbrk : brk x y z b lo)
    (hq1 : p b' < q) (hq2 : q ≤ cap x y z b' lo') (hq3 : π (Nat.sqrt y) < b' → q.Prime) : False := by
  have hc : q ≤ cap x y z b lo := le_trans hq2 (le_trans (cap_anti_lo x y z b' hll) (cap_anti_b x y z hbb lo))
  have hp : p b ≤ p b' := Spec.p_le_p hbb
  unfold brk at hbrk
  split_ifs at hbrk with h1
  · omega
  · have hqp := hq3 (by omega)
    have h2 : π q ≤ b := le_trans (Spec.pi_mono hc) hbrk
    have h3 : b' < π q := (Spec.lt_pi_iff_p_lt (by omega) hqp).2 hq1
    omega

/-! ### arithmetic of the window bounds -/

theorem le_div_div_iff (x q m l : ℕ) (hq : 0 < q) (hm : 0 < m) (hl : 0 < l) : m ≤ x / q / l ↔ l ≤ x / (q * m) := by
  rw [Nat.div_div_eq_div_mul, Nat.le_div_iff_mul_le (Nat.mul_pos hq hl), Nat.le_div_iff_mul_le (Nat.mul_pos hq hm)]
  have : m * (q * l) = l * (q * m) := by ring
  rw [this]

theorem div_div_lt_iff (x q m h : ℕ) (hm : 0 < m) (hh : 0 < h) : x / q / h < m ↔ x / (q * m) < h := by
  rw [← Nat.div_div_eq_div_mul, Nat.div_lt_iff_lt_mul hh, Nat.div_lt_iff_lt_mul hm, Nat.mul_comm]

/-- `lo ≤ v` and `max lo 1 ≤ v` agree on positive `v` -/
theorem max_one_le_iff (lo v : ℕ) (hv : 1 ≤ v) : max lo 1 ≤ v ↔ lo ≤ v := by omega

/-- a leaf position is positive: `q * m ≤ y * y ≤ x` -/
theorem pos_of_leaf {x y q m : ℕ} (hyx : y * y ≤ x) (hq : q ≤ y) (hm : m ≤ y) (hq0 : 0 < q) (hm0 : 0 < m) :
    1 ≤ x / (q * m) :=
  (Nat.le_div_iff_mul_le (Nat.mul_pos hq0 hm0)).2 (by have := Nat.mul_le_mul hq hm; omega)

theorem good_pos {q m : ℕ} (h : Good q m) : 0 < m := by
  rcases Nat.eq_zero_or_pos m with h0 | h0
  · subst h0; exact absurd (by simp) h.1
  · exact h0

theorem good_lt {q m : ℕ} (h : Good q m) : q < m := lt_of_lt_of_le h.2 (Nat.minFac_le (good_pos h))

theorem good_c2310 {q m : ℕ} (hq : 11 ≤ q) (h : Good q m) : C2310 m := by
  rw [c2310_iff]
  have key : ∀ r, r.Prime → r ≤ 11 → ¬ r ∣ m := by
    intro r hr hr11 hd
    have := Nat.minFac_le_of_dvd hr.two_le hd
    have := h.2
    omega
  exact ⟨key 2 (by norm_num) (by norm_num), key 3 (by norm_num) (by norm_num), key 5 (by norm_num) (by norm_num),
    key 7 (by norm_num) (by norm_num), key 11 (by norm_num) (by norm_num)⟩

/-- a broken level kills every later level at every later position -/
theorem WS2_zero_of_brk {x y z b b' lo lo' : ℕ} (hyx : y * y ≤ x) (hbb : b ≤ b') (hb' : b' ≤ π y) (hb1 : 1 ≤ b')
    (hll : lo ≤ lo') (hbrk : brk x y z b lo) (hi' : ℕ) : WS2 x y z b' lo' hi' = 0 := by
  have hqy : p b' ≤ y := (Spec.p_le_iff hb1).2 hb'
  have hq0 := Spec.p_pos b'
  unfold WS2
  split_ifs with hs
  · unfold W1
    rw [Finset.sum_eq_zero, neg_zero]
    intro m hm
    rw [mem_filter, mem_Ioc] at hm
    obtain ⟨⟨_, hmy⟩, hg⟩ := hm
    split_ifs with hw
    · exfalso
      have hm0 := good_pos hg
      have h1 := pos_of_leaf hyx hqy hmy hq0 hm0
      refine no_room hbb hll hbrk (good_lt hg) ?_ (fun h => absurd hs (by omega))
      unfold cap
      rw [if_pos hs, le_min_iff]
      exact ⟨(le_div_div_iff x _ m _ hq0 hm0 (by omega)).2 ((max_one_le_iff _ _ h1).2 hw.1), hmy⟩
    · rfl
  · unfold W2
    apply Finset.sum_eq_zero
    intro j hj
    rw [mem_filter, mem_Ioc] at hj
    obtain ⟨⟨hbj, hjy⟩, hz⟩ := hj
    split_ifs with hw
    · exfalso
      have hj1 : 1 ≤ j := by omega
      have hpj0 := Spec.p_pos j
      have hpjy : p j ≤ y := (Spec.p_le_iff hj1).2 hjy
      have h1 := pos_of_leaf hyx hqy hpjy hq0 hpj0
      refine no_room hbb hll hbrk (Spec.p_lt_p hb1 hbj) ?_ (fun _ => Spec.p_prime hj1)
      unfold cap
      rw [if_neg hs, le_min_iff, le_min_iff]
      refine ⟨⟨(le_div_div_iff x _ _ _ hq0 hpj0 (by omega)).2 ((max_one_le_iff _ _ h1).2 hw.1), hpjy⟩, ?_⟩
      rw [Nat.le_div_iff_mul_le hq0, Nat.mul_comm]; exact hz
    · rfl

/-! ### the FactorTable test -/

theorem prime_odd_of_three_le {q : ℕ} (hq : q.Prime) (h3 : 3 ≤ q) : q % 2 = 1 := by
  rcases hq.eq_two_or_odd with h | h <;> omega

/-- `prime < factor_[to_index(m)]` means `μ(m) ≠ 0 ∧ prime < lpf(m)`, and then `factor.mu` is `μ(m)` -/
theorem factor_test {e : Env} {tmax Y : ℕ} (hF : FactorOK e tmax Y) {q m : ℕ} (hq : q.Prime) (hq3 : 3 ≤ q)
    (hqY : q ≤ Nat.sqrt Y) (hm : C2310 m) (hqm : q < m) (hmY : m ≤ Y) :
    (q < e.factor (toIndex m) ↔ Good q m) ∧ (Good q m → e.mu (toIndex m) = μ m) := by
  have hqodd := prime_odd_of_three_le hq hq3
  have hbig := hF.big
  have hodd := hF.odd
  have hm1 : m ≠ 1 := by omega
  unfold Env.mu Good
  rw [hF.val m hm hmY]
  unfold ftSpec
  rw [if_neg hm1]
  by_cases hmp : m.Prime
  · rw [if_pos hmp, ArithmeticFunction.moebius_apply_prime hmp, hmp.minFac_eq]
    refine ⟨⟨fun _ => ⟨by norm_num, hqm⟩, fun _ => by omega⟩, fun _ => by rw [if_pos hodd]⟩
  · rw [if_neg hmp]
    have hmf := Nat.minFac_prime hm1
    have hmf13 : 13 ≤ m.minFac := c2310_prime_factor_ge hm hmf (Nat.minFac_dvd m)
    have hmfodd := prime_odd_of_three_le hmf (by omega)
    rcases ArithmeticFunction.moebius_eq_or m with h0 | h1 | hn
    · rw [if_pos h0, h0]
      exact ⟨⟨fun h => absurd h (by omega), fun h => absurd rfl h.1⟩, fun h => absurd rfl h.1⟩
    · rw [if_neg (by rw [h1]; norm_num), if_pos h1, h1]
      refine ⟨⟨fun h => ⟨by norm_num, by omega⟩, fun h => by have := h.2; omega⟩, fun _ => ?_⟩
      rw [if_neg (by omega)]
    · rw [if_neg (by rw [hn]; norm_num), if_neg (by rw [hn]; norm_num), hn]
      refine ⟨⟨fun h => ⟨by norm_num, h⟩, fun h => h.2⟩, fun _ => ?_⟩
      rw [if_pos hmfodd]

end Pc.Hard
