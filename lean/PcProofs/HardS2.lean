/-
WP hard: `S2_hard_thread` (S2_hard.cpp:55-180) — the level enumerations `s2Level1` / `s2Level2` meet `LvSpec`, hence by
`segLoop_spec` the chunk function returns the hard special leaves located in the chunk window.

`W1 x y b lo hi`  : leaves `(p_b, m)`, `y/p_b < m ≤ y`, `μ m ≠ 0`, `p_b < lpf m`, with position `x/(p_b m) ∈ [lo, hi)` (levels `b ≤ π√y`)
`W2 x y z b lo hi`: leaves `(p_b, p_j)`, `b < j ≤ π y`, `p_b p_j ≤ z`, position in `[lo, hi)` (levels `b > π√y`)
-/
import PcProofs.HardLeaves
import PcProofs.FactorTableCtor

namespace Pc.Hard
open Nat Finset
open scoped Nat.Prime ArithmeticFunction.Moebius

local notation "p" => Spec.p
local notation "φ" => Spec.phi

/-- the tables are what the real constructors build for the prime bound `P` -/
structure EnvOK (e : Env) (P : ℕ) : Prop where
  primes_zero : e.primes 0 = 0
  primesSize : e.primesSize = π P + 1
  primes_eq : ∀ i, 1 ≤ i → i ≤ π P → e.primes i = p i
  piMax : e.piMax = P
  pi_eq : ∀ n, n ≤ P → e.pi n = π n
  phiVec_size : ∀ low a, (e.phiVec low a).size = a + 1
  phiVec_eq : ∀ low a i, a ≤ π P → 1 ≤ i → i ≤ a → (e.phiVec low a).getD i 0 = (φ low (i - 1) : ℤ)

/-- `factor_[]` is the FactorTable for the bound `Y` with entry type maximum `tmax` (C17 `factorTable_correct`) -/
structure FactorOK (e : Env) (tmax Y : ℕ) : Prop where
  size : e.factorSize = toIndex (max 1 Y) + 1
  val : ∀ n, C2310 n → n ≤ Y → e.factor (toIndex n) = ftSpec tmax n
  odd : tmax % 2 = 1
  big : Nat.sqrt Y + 1 < tmax

/-! ### the windowed leaf sums -/

/-- a leaf `m` of a level with prime `q`: square-free with all prime factors `> q` -/
def Good (q m : ℕ) : Prop := μ m ≠ 0 ∧ q < m.minFac

instance (q m : ℕ) : Decidable (Good q m) := by unfold Good; exact inferInstance

noncomputable def W1 (x y b lo hi : ℕ) : ℤ :=
  - ∑ m ∈ (Ioc (y / p b) y).filter (Good (p b)),
      if lo ≤ x / (p b * m) ∧ x / (p b * m) < hi then μ m * (φ (x / (p b * m)) (b - 1) : ℤ) else 0

noncomputable def W2 (x y z b lo hi : ℕ) : ℤ :=
  ∑ j ∈ (Ioc b (π y)).filter (fun j => p b * p j ≤ z),
      if lo ≤ x / (p b * p j) ∧ x / (p b * p j) < hi then (φ (x / (p b * p j)) (b - 1) : ℤ) else 0

noncomputable def WS2 (x y z b lo hi : ℕ) : ℤ :=
  if b ≤ π (Nat.sqrt y) then W1 x y b lo hi else W2 x y z b lo hi

theorem ite_window_add (v lo mid hi : ℕ) (a : ℤ) (h1 : lo ≤ mid) (h2 : mid ≤ hi) :
    (if lo ≤ v ∧ v < mid then a else 0) + (if mid ≤ v ∧ v < hi then a else 0) = if lo ≤ v ∧ v < hi then a else 0 := by
  by_cases ha : lo ≤ v ∧ v < mid
  · rw [if_pos ha, if_neg (by omega), if_pos ⟨ha.1, by omega⟩, add_zero]
  · by_cases hb : mid ≤ v ∧ v < hi
    · rw [if_neg ha, if_pos hb, if_pos ⟨by omega, hb.2⟩, zero_add]
    · rw [if_neg ha, if_neg hb, if_neg (by omega), add_zero]

theorem WS2_add (x y z b lo mid hi : ℕ) (h1 : lo ≤ mid) (h2 : mid ≤ hi) :
    WS2 x y z b lo mid + WS2 x y z b mid hi = WS2 x y z b lo hi := by
  unfold WS2
  split_ifs
  · unfold W1
    rw [← neg_add, ← Finset.sum_add_distrib]
    congr 1
    exact Finset.sum_congr rfl (fun m _ => ite_window_add _ _ _ _ _ h1 h2)
  · unfold W2
    rw [← Finset.sum_add_distrib]
    exact Finset.sum_congr rfl (fun m _ => ite_window_add _ _ _ _ _ h1 h2)

theorem WS2_empty (x y z b lo : ℕ) : WS2 x y z b lo lo = 0 := by
  unfold WS2 W1 W2
  split_ifs
  · rw [Finset.sum_eq_zero, neg_zero]
    intro m _; rw [if_neg (by omega)]
  · apply Finset.sum_eq_zero
    intro m _; rw [if_neg (by omega)]

/-! ### the `goto next_segment` tests -/

/-- upper end of the leaf range of level `b` for positions `≥ lo` (`max_m` resp. the argument of `pi[…]` for `l`) -/
noncomputable def cap (x y z b lo : ℕ) : ℕ :=
  if b ≤ π (Nat.sqrt y) then min (x / p b / max lo 1) y else min (min (x / p b / max lo 1) y) (z / p b)

/-- `prime >= max_m` (first loop) resp. `prime >= primes[l]` (second loop) -/
def brk (x y z b lo : ℕ) : Prop :=
  if b ≤ π (Nat.sqrt y) then p b ≥ cap x y z b lo else π (cap x y z b lo) ≤ b

theorem div_max_anti (x q : ℕ) {lo lo' : ℕ} (h : lo ≤ lo') : x / q / max lo' 1 ≤ x / q / max lo 1 :=
  Nat.div_le_div_left (by omega) (by omega)

theorem cap_anti_lo (x y z b : ℕ) {lo lo' : ℕ} (h : lo ≤ lo') : cap x y z b lo' ≤ cap x y z b lo := by
  unfold cap
  have := div_max_anti x (p b) h
  split_ifs <;> omega

theorem brk_mono_lo (x y z b : ℕ) {lo lo' : ℕ} (h : lo ≤ lo') (hb : brk x y z b lo) : brk x y z b lo' := by
  unfold brk at *
  have := cap_anti_lo x y z b h
  split_ifs at * with h1
  · omega
  · exact le_trans (Spec.pi_mono this) hb

/-- the cap of a later level is smaller -/
theorem cap_anti_b (x y z : ℕ) {b b' : ℕ} (hbb : b ≤ b') (lo : ℕ) : cap x y z b' lo ≤ cap x y z b lo := by
  unfold cap
  have hp : p b ≤ p b' := Spec.p_le_p hbb
  have h1 : x / p b' / max lo 1 ≤ x / p b / max lo 1 :=
    Nat.div_le_div_right (Nat.div_le_div_left hp (Spec.p_pos b))
  have h2 : z / p b' ≤ z / p b := Nat.div_le_div_left hp (Spec.p_pos b)
  split_ifs with g1 g2 g2 <;> omega

/-- a leaf of level `b'` at a position `≥ lo'` exhibits a number `q` with `p b' < q ≤ cap b' lo'`, prime when the level is
    beyond `π√y`; a level that breaks at `lo ≤ lo'`, `b ≤ b'` leaves no room for it -/
theorem no_room {x y z b b' lo lo' q : ℕ} (hbb : b ≤ b') (hll : lo ≤ lo') (hbrk : brk x y z b lo)
    (hq1 : p b' < q) (hq2 : q ≤ cap x y z b' lo') (hq3 : π (Nat.sqrt y) < b' → q.Prime) : False := by
  have hc : q ≤ cap x y z b lo := le_trans hq2 (le_trans (cap_anti_lo x y z b' hll) (cap_anti_b x y z hbb lo))
  have hp : p b ≤ p b' := Spec.p_le_p hbb
  unfold brk at hbrk
  split_ifs at hbrk with h1
  · omega
  · have hqp := hq3 (by omega)
    have h2 : π q ≤ b := le_trans (Spec.pi_mono hc) hbrk
    have h3 : b' < π q := (Spec.lt_pi_iff_p_lt (by omega) hqp).2 hq1
    omega

/-! ### arithmetic of the window bounds -/

theorem le_div_div_iff (x q m l : ℕ) (hq : 0 < q) (hm : 0 < m) (hl : 0 < l) : m ≤ x / q / l ↔ l ≤ x / (q * m) := by
  rw [Nat.div_div_eq_div_mul, Nat.le_div_iff_mul_le (Nat.mul_pos hq hl), Nat.le_div_iff_mul_le (Nat.mul_pos hq hm)]
  have : m * (q * l) = l * (q * m) := by ring
  rw [this]

theorem div_div_lt_iff (x q m h : ℕ) (hm : 0 < m) (hh : 0 < h) : x / q / h < m ↔ x / (q * m) < h := by
  rw [← Nat.div_div_eq_div_mul, Nat.div_lt_iff_lt_mul hh, Nat.div_lt_iff_lt_mul hm, Nat.mul_comm]

/-- `lo ≤ v` and `max lo 1 ≤ v` agree on positive `v` -/
theorem max_one_le_iff (lo v : ℕ) (hv : 1 ≤ v) : max lo 1 ≤ v ↔ lo ≤ v := by omega

/-- a leaf position is positive: `q * m ≤ y * y ≤ x` -/
theorem pos_of_leaf {x y q m : ℕ} (hyx : y * y ≤ x) (hq : q ≤ y) (hm : m ≤ y) (hq0 : 0 < q) (hm0 : 0 < m) :
    1 ≤ x / (q * m) :=
  (Nat.le_div_iff_mul_le (Nat.mul_pos hq0 hm0)).2 (by have := Nat.mul_le_mul hq hm; omega)

theorem good_pos {q m : ℕ} (h : Good q m) : 0 < m := by
  rcases Nat.eq_zero_or_pos m with h0 | h0
  · subst h0; exact absurd (by simp) h.1
  · exact h0

theorem good_lt {q m : ℕ} (h : Good q m) : q < m := lt_of_lt_of_le h.2 (Nat.minFac_le (good_pos h))

theorem good_c2310 {q m : ℕ} (hq : 11 ≤ q) (h : Good q m) : C2310 m := by
  rw [c2310_iff]
  have key : ∀ r, r.Prime → r ≤ 11 → ¬ r ∣ m := by
    intro r hr hr11 hd
    have := Nat.minFac_le_of_dvd hr.two_le hd
    have := h.2
    omega
  exact ⟨key 2 (by norm_num) (by norm_num), key 3 (by norm_num) (by norm_num), key 5 (by norm_num) (by norm_num),
    key 7 (by norm_num) (by norm_num), key 11 (by norm_num) (by norm_num)⟩

/-- a broken level kills every later level at every later position -/
theorem WS2_zero_of_brk {x y z b b' lo lo' : ℕ} (hyx : y * y ≤ x) (hbb : b ≤ b') (hb' : b' ≤ π y) (hb1 : 1 ≤ b')
    (hll : lo ≤ lo') (hbrk : brk x y z b lo) (hi' : ℕ) : WS2 x y z b' lo' hi' = 0 := by
  have hqy : p b' ≤ y := (Spec.p_le_iff hb1).2 hb'
  have hq0 := Spec.p_pos b'
  unfold WS2
  split_ifs with hs
  · unfold W1
    rw [Finset.sum_eq_zero, neg_zero]
    intro m hm
    rw [mem_filter, mem_Ioc] at hm
    obtain ⟨⟨_, hmy⟩, hg⟩ := hm
    split_ifs with hw
    · exfalso
      have hm0 := good_pos hg
      have h1 := pos_of_leaf hyx hqy hmy hq0 hm0
      refine no_room hbb hll hbrk (good_lt hg) ?_ (fun h => absurd hs (by omega))
      unfold cap
      rw [if_pos hs, le_min_iff]
      exact ⟨(le_div_div_iff x _ m _ hq0 hm0 (by omega)).2 ((max_one_le_iff _ _ h1).2 hw.1), hmy⟩
    · rfl
  · unfold W2
    apply Finset.sum_eq_zero
    intro j hj
    rw [mem_filter, mem_Ioc] at hj
    obtain ⟨⟨hbj, hjy⟩, hz⟩ := hj
    split_ifs with hw
    · exfalso
      have hj1 : 1 ≤ j := by omega
      have hpj0 := Spec.p_pos j
      have hpjy : p j ≤ y := (Spec.p_le_iff hj1).2 hjy
      have h1 := pos_of_leaf hyx hqy hpjy hq0 hpj0
      refine no_room hbb hll hbrk (Spec.p_lt_p hb1 hbj) ?_ (fun _ => Spec.p_prime hj1)
      unfold cap
      rw [if_neg hs, le_min_iff, le_min_iff]
      refine ⟨⟨(le_div_div_iff x _ _ _ hq0 hpj0 (by omega)).2 ((max_one_le_iff _ _ h1).2 hw.1), hpjy⟩, ?_⟩
      rw [Nat.le_div_iff_mul_le hq0, Nat.mul_comm]; exact hz
    · rfl

/-! ### the FactorTable test -/

theorem prime_odd_of_three_le {q : ℕ} (hq : q.Prime) (h3 : 3 ≤ q) : q % 2 = 1 := by
  rcases hq.eq_two_or_odd with h | h <;> omega

/-- `prime < factor_[to_index(m)]` means `μ(m) ≠ 0 ∧ prime < lpf(m)`, and then `factor.mu` is `μ(m)` -/
theorem factor_test {e : Env} {tmax Y : ℕ} (hF : FactorOK e tmax Y) {q m : ℕ} (hq : q.Prime) (hq3 : 3 ≤ q)
    (hqY : q ≤ Nat.sqrt Y) (hm : C2310 m) (hqm : q < m) (hmY : m ≤ Y) :
    (q < e.factor (toIndex m) ↔ Good q m) ∧ (Good q m → e.mu (toIndex m) = μ m) := by
  have hqodd := prime_odd_of_three_le hq hq3
  have hbig := hF.big
  have hodd := hF.odd
  have hm1 : m ≠ 1 := by omega
  unfold Env.mu Good
  rw [hF.val m hm hmY]
  unfold ftSpec
  rw [if_neg hm1]
  by_cases hmp : m.Prime
  · rw [if_pos hmp, ArithmeticFunction.moebius_apply_prime hmp, hmp.minFac_eq]
    refine ⟨⟨fun _ => ⟨by norm_num, hqm⟩, fun _ => by omega⟩, fun _ => by rw [if_pos hodd]⟩
  · rw [if_neg hmp]
    have hmf := Nat.minFac_prime hm1
    have hmf13 : 13 ≤ m.minFac := c2310_prime_factor_ge hm hmf (Nat.minFac_dvd m)
    have hmfodd := prime_odd_of_three_le hmf (by omega)
    rcases ArithmeticFunction.moebius_eq_or m with h0 | h1 | hn
    · rw [if_pos h0, h0]
      exact ⟨⟨fun h => absurd h (by omega), fun h => absurd rfl h.1⟩, fun h => absurd rfl h.1⟩
    · rw [if_neg (by rw [h1]; norm_num), if_pos h1, h1]
      refine ⟨⟨fun h => ⟨by norm_num, by omega⟩, fun h => by have := h.2; omega⟩, fun _ => ?_⟩
      rw [if_neg (by omega)]
    · rw [if_neg (by rw [hn]; norm_num), if_neg (by rw [hn]; norm_num), hn]
      refine ⟨⟨fun h => ⟨by norm_num, h⟩, fun h => h.2⟩, fun _ => ?_⟩
      rw [if_pos hmfodd]

/-! ### the two level enumerations of S2_hard_thread -/

attribute [local irreducible] ftToNumber ftToIndex

theorem toIndex_mono {a b : ℕ} (ha : 1 ≤ a) (hab : a ≤ b) : toIndex a ≤ toIndex b :=
  (le_toIndex_iff b (by omega) _).2 (le_trans (ftToNumber_toIndex_le a ha) hab)

/-- first loop (S2_hard.cpp:101-131): a level `b ≤ π√y` that does not break -/
theorem s2Level1_items {e : Env} {P tmax x y z b lo hi : ℕ} (hE : EnvOK e P) (hF : FactorOK e tmax y)
    (hyx : y * y ≤ x) (hb5 : 5 ≤ b) (hbP : b ≤ π P) (hbs : b ≤ π (Nat.sqrt y)) (hlh : lo < hi)
    (hnb : ¬ brk x y z b lo) :
    ∃ its, s2Level1 e x y lo hi b = .ok (some its) ∧ ItemsOK lo hi 0 its ∧ itemSum b its = W1 x y b lo hi := by
  have hb1 : 1 ≤ b := by omega
  have hpb : e.primes b = p b := hE.primes_eq b hb1 hbP
  have hq0 : 0 < p b := Spec.p_pos b
  have hqp : (p b).Prime := Spec.p_prime hb1
  have hqs : p b ≤ Nat.sqrt y := (Spec.p_le_iff hb1).2 hbs
  have hqq : p b * p b ≤ y := Nat.le_sqrt.1 hqs
  have hqy : p b ≤ y := le_trans hqs (Nat.sqrt_le_self y)
  have hq11 : 11 ≤ p b := by
    have : p 5 ≤ p b := Spec.p_le_p hb5
    have e5 : p 5 = 11 := Spec.p_five
    omega
  have hyq : p b ≤ y / p b := (Nat.le_div_iff_mul_le hq0).2 hqq
  unfold brk at hnb
  rw [if_pos hbs] at hnb
  unfold cap at hnb
  rw [if_pos hbs] at hnb
  unfold s2Level1
  rw [hpb, hE.primesSize, if_neg (by omega), if_neg (by omega), if_neg hnb]
  set maxM := min (x / p b / max lo 1) y with hmaxM
  set minM := max (min (x / p b / hi) y) (y / p b) with hminM
  have hminM1 : 1 ≤ minM := by rw [hminM]; omega
  have hmaxy : maxM ≤ y := min_le_right _ _
  have hmax1 : 1 ≤ maxM := by omega
  rw [if_neg (by omega), if_neg]
  swap
  · rw [hF.size]
    have : toIndex maxM ≤ toIndex (max 1 y) := toIndex_mono hmax1 (by omega)
    omega
  refine ⟨_, rfl, ?_, ?_⟩
  · -- positions
    apply leafItems1_ok
    intro I hI1 hI2
    have hIle : toIndex minM ≤ toIndex maxM := by
      by_contra hc
      have : toIndex maxM - toIndex minM = 0 := by omega
      omega
    have g1 : minM < ftToNumber I := (toIndex_lt_iff minM hminM1 I).1 hI1
    have g2 : ftToNumber I ≤ maxM := (le_toIndex_iff maxM hmax1 I).1 (by omega)
    have hm0 : 0 < ftToNumber I := by omega
    have g3 : ftToNumber I ≤ x / p b / max lo 1 := le_trans g2 (min_le_left _ _)
    have g4 : max lo 1 ≤ x / (p b * ftToNumber I) := (le_div_div_iff x _ _ _ hq0 hm0 (by omega)).1 g3
    have g5 : x / p b / hi < ftToNumber I := by
      have : min (x / p b / hi) y < ftToNumber I := lt_of_le_of_lt (le_max_left _ _) g1
      omega
    have g6 := (div_div_lt_iff x (p b) _ hi hm0 (by omega)).1 g5
    rw [Nat.div_div_eq_div_mul]
    exact ⟨by omega, g6⟩
  · -- value
    rw [leafItems1_sum e (p b) (x / p b) b minM maxM hminM1 (Good (p b)) (fun m => μ m)
      (fun m hm h1 h2 => factor_test hF hqp (by omega) hqs hm (by omega) (by omega))]
    unfold W1
    congr 1
    rw [← Finset.sum_filter, Finset.filter_filter]
    apply Finset.sum_congr
    · ext m
      simp only [mem_filter, mem_Ioc]
      constructor
      · rintro ⟨⟨h1, h2⟩, _, hg⟩
        have hm0 := good_pos hg
        have g3 : m ≤ x / p b / max lo 1 := le_trans h2 (min_le_left _ _)
        have g4 := (le_div_div_iff x _ _ _ hq0 hm0 (by omega)).1 g3
        have g5 : x / p b / hi < m := by
          have : min (x / p b / hi) y < m := lt_of_le_of_lt (le_max_left _ _) h1
          omega
        have g6 := (div_div_lt_iff x (p b) _ hi hm0 (by omega)).1 g5
        exact ⟨⟨lt_of_le_of_lt (le_max_right _ _) h1, by omega⟩, hg, by omega, g6⟩
      · rintro ⟨⟨h1, h2⟩, hg, h3, h4⟩
        have hm0 := good_pos hg
        have hpos := pos_of_leaf hyx hqy h2 hq0 hm0
        have g5 := (div_div_lt_iff x (p b) _ hi hm0 (by omega)).2 h4
        have g3 := (le_div_div_iff x _ m (max lo 1) hq0 hm0 (by omega)).2 ((max_one_le_iff _ _ hpos).2 h3)
        refine ⟨⟨?_, ?_⟩, good_c2310 hq11 hg, hg⟩
        · rw [hminM, max_lt_iff]; exact ⟨lt_of_le_of_lt (min_le_left _ _) g5, h1⟩
        · rw [hmaxM, le_min_iff]; exact ⟨g3, h2⟩
    · intro m _
      rw [Nat.div_div_eq_div_mul]

/-- second loop (S2_hard.cpp:137-160): a level `b > π√y` that does not break -/
theorem s2Level2_items {e : Env} {P x y z b lo hi : ℕ} (hE : EnvOK e P) (hP : P = min y (z / Nat.sqrt y)) (hy : 1 ≤ y)
    (hzx : z ≤ x) (hb1 : 1 ≤ b) (hbP : b ≤ π P) (hbs : ¬ b ≤ π (Nat.sqrt y)) (hlh : lo < hi) (hnb : ¬ brk x y z b lo) :
    ∃ its, s2Level2 e x y z lo hi b = .ok (some its) ∧ ItemsOK lo hi 0 its ∧ itemSum b its = W2 x y z b lo hi := by
  have hpb : e.primes b = p b := hE.primes_eq b hb1 hbP
  have hq0 : 0 < p b := Spec.p_pos b
  have hqs : Nat.sqrt y < p b := (Spec.lt_p_iff hb1).2 (by omega)
  have hs0 : 0 < Nat.sqrt y := Nat.sqrt_pos.2 hy
  unfold brk at hnb
  rw [if_neg hbs] at hnb
  unfold cap at hnb
  rw [if_neg hbs] at hnb
  unfold s2Level2
  rw [hpb, hE.primesSize, hE.piMax, if_neg (by omega), if_neg (by omega)]
  set a := min (min (x / p b / max lo 1) y) (z / p b) with ha
  have haP : a ≤ P := by
    rw [hP, le_min_iff]
    refine ⟨le_trans (min_le_left _ _) (min_le_right _ _), le_trans (min_le_right _ _) ?_⟩
    exact Nat.div_le_div_left hqs.le hs0
  rw [if_neg (by omega), hE.pi_eq a haP, if_neg (by have := Spec.pi_mono haP; omega)]
  have hl1 : 1 ≤ π a := by omega
  have hpl : e.primes (π a) = p (π a) := hE.primes_eq _ hl1 (Spec.pi_mono haP)
  rw [hpl, if_neg (by have := Spec.p_lt_p hb1 (show b < π a by omega); omega)]
  have hprimes : ∀ i, 1 ≤ i → i ≤ π a → e.primes i = p i :=
    fun i h1 h2 => hE.primes_eq i h1 (le_trans h2 (Spec.pi_mono haP))
  set minHard := max (min (x / p b / hi) y) (p b) with hmh
  -- membership in the visited index range
  have hmem : ∀ i, (π minHard < i ∧ i ≤ π a) ↔
      (b < i ∧ i ≤ π y) ∧ p b * p i ≤ z ∧ lo ≤ x / (p b * p i) ∧ x / (p b * p i) < hi := by
    intro i
    constructor
    · rintro ⟨h1, h2⟩
      have hi1 : 1 ≤ i := by omega
      have hpi0 := Spec.p_pos i
      have g1 : minHard < p i := (Spec.lt_p_iff hi1).2 h1
      have g2 : p i ≤ a := (Spec.p_le_iff hi1).2 h2
      have g3 : p i ≤ x / p b / max lo 1 := le_trans g2 (le_trans (min_le_left _ _) (min_le_left _ _))
      have g4 : p i ≤ y := le_trans g2 (le_trans (min_le_left _ _) (min_le_right _ _))
      have g5 : p i ≤ z / p b := le_trans g2 (min_le_right _ _)
      have g6 := (le_div_div_iff x _ _ _ hq0 hpi0 (by omega)).1 g3
      have g7 : x / p b / hi < p i := by
        have : min (x / p b / hi) y < p i := lt_of_le_of_lt (le_max_left _ _) g1
        omega
      have g8 := (div_div_lt_iff x (p b) _ hi hpi0 (by omega)).1 g7
      have g9 : p b < p i := lt_of_le_of_lt (le_max_right _ _) g1
      refine ⟨⟨(Spec.p_lt_p_iff hb1 hi1).1 g9, (Spec.p_le_iff hi1).1 g4⟩, ?_, by omega, g8⟩
      have := (Nat.le_div_iff_mul_le hq0).1 g5
      rw [Nat.mul_comm]; exact this
    · rintro ⟨⟨h1, h2⟩, h3, h4, h5⟩
      have hi1 : 1 ≤ i := by omega
      have hpi0 := Spec.p_pos i
      have g4 : p i ≤ y := (Spec.p_le_iff hi1).2 h2
      have g9 : p b < p i := Spec.p_lt_p hb1 h1
      have hpos : 1 ≤ x / (p b * p i) :=
        (Nat.le_div_iff_mul_le (Nat.mul_pos hq0 hpi0)).2 (by omega)
      have g3 := (le_div_div_iff x _ (p i) (max lo 1) hq0 hpi0 (by omega)).2 ((max_one_le_iff _ _ hpos).2 h4)
      have g7 := (div_div_lt_iff x (p b) _ hi hpi0 (by omega)).2 h5
      have g5 : p i ≤ z / p b := (Nat.le_div_iff_mul_le hq0).2 (by rw [Nat.mul_comm]; exact h3)
      refine ⟨(Spec.lt_p_iff hi1).1 ?_, (Spec.p_le_iff hi1).1 ?_⟩
      · rw [hmh, max_lt_iff]; exact ⟨lt_of_le_of_lt (min_le_left _ _) g7, g9⟩
      · rw [ha, le_min_iff, le_min_iff]; exact ⟨⟨g3, g4⟩, g5⟩
  refine ⟨_, rfl, ?_, ?_⟩
  · apply leafItems2_ok _ _ _ _ _ _ _ hprimes
    intro i h1 h2
    have := (hmem i).1 ⟨h1, h2⟩
    rw [Nat.div_div_eq_div_mul]
    exact ⟨by omega, this.2.2.2⟩
  · rw [leafItems2_sum e _ b minHard _ hprimes]
    unfold W2
    rw [← Finset.sum_filter, Finset.filter_filter]
    apply Finset.sum_congr
    · ext i
      simp only [mem_filter, mem_Ioc]
      exact hmem i
    · intro i _
      rw [Nat.div_div_eq_div_mul]

end Pc.Hard
