/-
WP close, item 3 — a CONCRETE, fully discharged call of the L2 model of phi.cpp: `phi(10000, 25)` (`25 = π(√10000)`, the call
`pi_legendre(10000)` makes) on the real `phi_tiny` tables, the real `pi_cache` table as `PiTable(100)`, the real small branch of
`pix_upper`, an explicit prime vector, a reversed reduction order, caches disabled, and a `pi_noprint` that answers 0 everywhere
(it is never called).  Every hypothesis of `phiReal_eq` is PROVED for it and the model is evaluated by the kernel.
-/
import PcProofs.ClosePhiApi

namespace Pc.ClosePhi
open Nat Pc.Spec Pc.PhiAlgProofs
open scoped Nat.Prime

/-- `generate_n_primes(25)` -/
def exPrimes : List ℕ := [0, 2, 3, 5, 7, 11, 13, 17, 19, 23, 29, 31, 37, 41, 43, 47, 53, 59, 61, 67, 71, 73, 79, 83, 89, 97]

def exRealTop : PhiTop :=
  { pixUpper := pixUpperReal (fun _ => 0), piFn := fun _ => 0, prime := fun i => exPrimes.getD i 0,
    piTab := piCacheLookup PcGen.piCache, tiny := Pc.Gen.PhiTiny.tables.phiTiny }

def exNoCache : PhiCacheL1 × ℕ := (⟨0, 0, fun _ _ => 0⟩, 0)

theorem exPrimes_check : ∀ i, 1 ≤ i → i ≤ 25 →
    isPrimeSR (exPrimes.getD i 0) = true ∧ piCacheLookup PcGen.piCache (exPrimes.getD i 0) = i := by
  decide +kernel

theorem exPrimes_ok (i : ℕ) (h1 : 1 ≤ i) (h2 : i ≤ 25) : exPrimes.getD i 0 = p i := by
  obtain ⟨hp, hc⟩ := exPrimes_check i h1 h2
  have hq : (exPrimes.getD i 0).Prime := (isPrimeSR_iff _).1 hp
  have hlt : exPrimes.getD i 0 < 30720 := by
    have : ∀ i, i ≤ 25 → exPrimes.getD i 0 < 30720 := by decide +kernel
    exact this i h2
  have hpi : π (exPrimes.getD i 0) = i := by rw [← piCache_correct _ hlt]; exact hc
  have := Spec.p_pi_of_prime hq
  rw [hpi] at this
  exact this.symm

theorem sqrt_10000 : Nat.sqrt 10000 = 100 := Nat.sqrt_eq 100

theorem pi_100 : π 100 = 25 := by
  rw [← piCache_correct 100 (by norm_num)]; decide +kernel

theorem exRealTop_callOK : CallOK exRealTop 10000 25 where
  pixUpperX := Or.inl (by
    show π 10000 ≤ pixUpperReal (fun _ => 0) 10000
    rw [pixUpperReal_small _ (by norm_num)])
  pixUpperSqrt := by
    show 25 ≤ pixUpperReal (fun _ => 0) (Nat.sqrt 10000)
    rw [sqrt_10000, pixUpperReal_small _ (by norm_num), pi_100]
  prime0 := rfl
  prime := exPrimes_ok
  piTab := fun v hv => by
    rw [sqrt_10000] at hv
    exact piCache_correct v (by omega)
  tiny := fun y a ha => Pc.PhiTinyProofs.phiTiny_correct Pc.PhiTinyProofs.tables_ok ha y

theorem ex_callRunOK : CallRunOK exRealTop (List.range' 9 (25 - 8)).reverse (fun _ => exNoCache) 10000 25 where
  top := exRealTop_callOK
  order := List.reverse_perm _
  cache := fun _ _ _ => cacheOK_noCache _ (by decide)

/-- the kernel runs the model of `phi_OpenMP(10000, 25)`: main path, 17 loop indices, recursion through `phi<SIGN>` -/
theorem ex_eval : phiReal (fun _ _ => exRealTop) (fun _ a => (List.range' 9 (a - 8)).reverse) (fun _ _ _ => exNoCache) 10000 25
    = 1205 := by decide +kernel

theorem ex_guard : phiGuards exRealTop 10000 25 = .main := by decide +kernel

end Pc.ClosePhi
