/-
C18 core, second half: `Wheel::addSievingPrime` for EVERY segment low below 2^64 — `prime * quotient` may wrap around 2^64 near the top
of the range; the check `multiple < segmentLow` of the C++ code catches exactly that case.  Bound of the stored `multipleIndex`
(`ASSERT(segment < buckets_.size())` of `EratBig::storeSievingPrime`).
-/
import PcProofs.PsCore2NT

namespace Pc.PsCore
open Pc.PsWheelSpec

/-- `wheelAdd_spec` with the weaker hypothesis "`prime * quotient` does not wrap" -/
theorem wheelAdd_spec2 (w : WheelCfg) (K : ℕ) (tab) (ht : TabOk w.modulo w.size K tab) (hi : InitOk w.modulo w.size w.init)
    (hM : 30 ∣ w.modulo) (hM0 : 0 < w.modulo)
    (stop q L : ℕ) (hq7 : 7 ≤ q) (hq32 : q < 2 ^ 32) (hq : Nat.gcd q 30 = 1) (hL : 30 ∣ L) (hquot0 : q * max q ((L + 6) / q + 1) < 2 ^ 64)
    (hstop : stop < 2 ^ 64) :
    let quot := max q ((L + 6) / q + 1)
    let u0 := firstFactor w.init w.modulo quot
    (q * u0 ≤ stop → ∃ mi wi, wheelAdd w stop q L = some (mi, wi) ∧ Pos w.modulo w.size (q / 30) q L mi wi u0) ∧
    (stop < q * u0 → wheelAdd w stop q L = none) := by
  intro quot u0
  have hquot : q * quot < 2 ^ 64 := hquot0
  have hlow : L + 6 < q * quot := by
    have h1 : (L + 6) / q + 1 ≤ quot := by simp only [quot]; omega
    have h2 : L + 6 < q * ((L + 6) / q + 1) := Nat.lt_mul_div_succ (L + 6) (by omega)
    exact lt_of_lt_of_le h2 (Nat.mul_le_mul_left q h1)
  have hu0 : q * u0 = q * quot + q * (w.init.getD (quot % w.modulo) (0, 0)).1 := by
    simp only [u0, firstFactor, Nat.mul_add]
  obtain ⟨hc1, _, hjs, hw, hwlt⟩ := hi.ok (quot % w.modulo) (Nat.mod_lt _ hM0)
  set e := w.init.getD (quot % w.modulo) (0, 0) with he
  have hquot' : q * max q ((L + 6) / q + 1) < 2 ^ 64 := hquot
  have he' : e = w.init.getD (max q ((L + 6) / q + 1) % w.modulo) (0, 0) := he
  constructor
  · intro hle
    obtain ⟨g, hg, hoff, hqg⟩ := wheelOffset_eq w.size q hq
    refine ⟨(q * u0 - (L + 6)) / 30, w.size * g + e.2, ?_, ?_⟩
    · unfold wheelAdd
      simp only [U64, Nat.mod_eq_of_lt hquot', ← he']
      have c1 : ¬ (q * quot > stop ∨ q * quot < L + 6) := by omega
      have c2 : ¬ (q * e.1 > stop - q * quot) := by omega
      simp only [quot] at c1 c2 hu0
      simp only [Bool.or_eq_true, decide_eq_true_eq, c1, c2, if_false, hoff, hu0]
    · -- the abstract state
      have hcop : Nat.Coprime u0 w.modulo := (firstFactor_spec hi hM0 quot).2.1
      have hmod : u0 % w.modulo = wheelW w.modulo e.2 := by
        have e1 : u0 % w.modulo = (quot % w.modulo + e.1) % w.modulo := by
          simp only [u0, firstFactor, ← he]
          rw [Nat.add_mod, Nat.add_mod (quot % w.modulo) e.1, Nat.mod_mod]
        by_cases hz : (quot % w.modulo + e.1) % w.modulo = 0
        · rw [if_pos hz] at hw; omega
        · rw [if_neg hz] at hw; omega
      refine ⟨g, e.2, u0 / w.modulo, hg, hjs, hqg, ?_, rfl, ?_⟩
      · rw [← hmod]; exact (Nat.div_add_mod u0 w.modulo).symm
      · -- byte index: `q·u0` is coprime to 30, so `q·u0 % 30 ≠ 6`
        have h30 : Nat.Coprime (q * u0) 30 :=
          Nat.Coprime.mul_left hq (Nat.Coprime.coprime_dvd_right hM hcop)
        have h2 : Nat.Coprime (q * u0) 2 := Nat.Coprime.coprime_dvd_right (by norm_num) h30
        have hodd : (q * u0) % 2 = 1 := by
          have := Nat.Coprime.gcd_eq_one h2
          rcases Nat.mod_two_eq_zero_or_one (q * u0) with h | h
          · exfalso
            have : 2 ∣ Nat.gcd (q * u0) 2 := Nat.dvd_gcd (Nat.dvd_of_mod_eq_zero h) (dvd_refl 2)
            omega
          · exact h
        obtain ⟨c, rfl⟩ := hL
        unfold byteP1
        have hge : 30 * c + 6 < q * u0 := by omega
        omega
  · intro hgt
    unfold wheelAdd
    simp only [U64, Nat.mod_eq_of_lt hquot', ← he']
    by_cases c1 : q * max q ((L + 6) / q + 1) > stop ∨ q * max q ((L + 6) / q + 1) < L + 6
    · simp only [Bool.or_eq_true, decide_eq_true_eq, c1, if_true]
    · have c2 : q * e.1 > stop - q * max q ((L + 6) / q + 1) := by
        have : q * u0 = q * max q ((L + 6) / q + 1) + q * e.1 := hu0
        omega
      simp only [Bool.or_eq_true, decide_eq_true_eq, c1, if_false, c2, if_true]


/-- `prime * quotient ≥ 2^64` (possible only for `quotient = ⌊(L+6)/q⌋ + 1`): the wrapped product is `< segmentLow`, the prime is dropped -/
theorem wheelAdd_wrap (w : WheelCfg) (stop q L : ℕ) (hq1 : 1 ≤ q) (hq32 : q < 2 ^ 32) (hL64 : L + 6 < 2 ^ 64)
    (hw : 2 ^ 64 ≤ q * max q ((L + 6) / q + 1)) : wheelAdd w stop q L = none := by
  have hqq : q * q < 2 ^ 64 := by
    calc q * q < 2 ^ 32 * 2 ^ 32 := Nat.mul_lt_mul'' hq32 hq32
      _ = 2 ^ 64 := by norm_num
  have hmax : max q ((L + 6) / q + 1) = (L + 6) / q + 1 := by
    by_contra h
    have : max q ((L + 6) / q + 1) = q := by omega
    rw [this] at hw; omega
  have hle : q * ((L + 6) / q + 1) ≤ L + 6 + q := by
    rw [Nat.mul_add, Nat.mul_one]
    have := Nat.mul_div_le (L + 6) q
    omega
  rw [hmax] at hw
  have hmod : q * ((L + 6) / q + 1) % 2 ^ 64 < L + 6 := by
    have : q * ((L + 6) / q + 1) % 2 ^ 64 = q * ((L + 6) / q + 1) - 2 ^ 64 := by
      rw [Nat.mod_eq_sub_mod hw, Nat.mod_eq_of_lt (by omega)]
    omega
  unfold wheelAdd
  simp only [U64, hmax]
  have c1 : q * ((L + 6) / q + 1) % 2 ^ 64 > stop ∨ q * ((L + 6) / q + 1) % 2 ^ 64 < L + 6 := Or.inr hmod
  simp only [Bool.or_eq_true, decide_eq_true_eq, c1, if_true]

/-- **`Wheel::addSievingPrime`, every case** -/
theorem wheelAdd_total (w : WheelCfg) (K : ℕ) (tab) (ht : TabOk w.modulo w.size K tab) (hi : InitOk w.modulo w.size w.init)
    (hM : 30 ∣ w.modulo) (hM0 : 0 < w.modulo)
    (stop q L : ℕ) (hq7 : 7 ≤ q) (hq32 : q < 2 ^ 32) (hq : Nat.gcd q 30 = 1) (hL : 30 ∣ L) (hL64 : L + 6 < 2 ^ 64)
    (hstop : stop < 2 ^ 64) :
    let u0 := firstFactor w.init w.modulo (max q ((L + 6) / q + 1))
    (q * u0 ≤ stop → ∃ mi wi, wheelAdd w stop q L = some (mi, wi) ∧ Pos w.modulo w.size (q / 30) q L mi wi u0) ∧
    (stop < q * u0 → wheelAdd w stop q L = none) := by
  intro u0
  by_cases hw : q * max q ((L + 6) / q + 1) < 2 ^ 64
  · exact wheelAdd_spec2 w K tab ht hi hM hM0 stop q L hq7 hq32 hq hL hw hstop
  · have hnone := wheelAdd_wrap w stop q L (by omega) hq32 hL64 (by omega)
    have hge : max q ((L + 6) / q + 1) ≤ u0 := (firstFactor_spec hi hM0 _).1
    have : 2 ^ 64 ≤ q * u0 := le_trans (by omega) (Nat.mul_le_mul_left q hge)
    exact ⟨fun h => by omega, fun _ => hnone⟩

theorem init210_dist_le : ∀ r < 210, ((expectedInit 210).getD r (0, 0)).1 ≤ 9 := by decide +kernel

/-- bound of the `multipleIndex` handed to `storeSievingPrime` when the prime is added while `q² ≤ segmentHigh`
    (`H ≤ L + 30 n + 36`): `multipleIndex ≤ n − 1 + (10·⌊q/30⌋ + 10)`, so `segment ≤ maxSegmentIndex` in `EratBig::storeSievingPrime` -/
theorem first_mi_bound (q L n mi wi : ℕ) (hq : 1 ≤ q) (hL : 30 ∣ L) (hn : 1 ≤ n) (hqq : q * q ≤ L + 30 * n + 36)
    (hpos : Pos 210 48 (q / 30) q L mi wi (firstFactor Gen.psWheel210Init 210 (max q ((L + 6) / q + 1)))) :
    mi ≤ n - 1 + (q / 30 * 10 + 10) := by
  obtain ⟨g, j, U, _, _, _, _, _, hbyte⟩ := hpos
  have hd : (Gen.psWheel210Init.getD (max q ((L + 6) / q + 1) % 210) (0, 0)).1 ≤ 9 := by
    rw [Gen.psWheel210Init_ok]; exact init210_dist_le _ (Nat.mod_lt _ (by norm_num))
  unfold firstFactor at hbyte
  set f := (Gen.psWheel210Init.getD (max q ((L + 6) / q + 1) % 210) (0, 0)).1 with hf
  obtain ⟨c, rfl⟩ := hL
  unfold byteP1 at hbyte
  rw [show 30 * c / 30 = c by omega] at hbyte
  have hdm := Nat.div_add_mod q 30
  have hr : q % 30 < 30 := Nat.mod_lt _ (by norm_num)
  by_cases hcase : q ≤ (30 * c + 6) / q + 1
  · have hm : max q ((30 * c + 6) / q + 1) = (30 * c + 6) / q + 1 := by omega
    rw [hm] at hbyte
    have h1 : q * ((30 * c + 6) / q + 1 + f) ≤ 30 * c + 6 + q + 9 * q := by
      have := Nat.mul_div_le (30 * c + 6) q
      have : q * f ≤ q * 9 := Nat.mul_le_mul_left q hd
      rw [Nat.mul_add, Nat.mul_add, Nat.mul_one]; omega
    omega
  · have hm : max q ((30 * c + 6) / q + 1) = q := by omega
    rw [hm] at hbyte
    have h1 : q * (q + f) ≤ 30 * c + 30 * n + 36 + 9 * q := by
      have : q * f ≤ q * 9 := Nat.mul_le_mul_left q hd
      rw [Nat.mul_add]; omega
    omega

end Pc.PsCore
