/-
WP close3, item 2 (gourdon): `pi_gourdon_64/128(x)` for `9 ≤ x ≤ 15` and the closed statement for every `2 ≤ x < 16`.
For `9 ≤ x < 16`: `x^(1/3) = 2`, `⌊√x⌋ = 3`, so the clamps of pi_gourdon.cpp give `y = z = 2` whatever the floats (`gY_two`, `gZ_two`), `k = 0`, `x⋆ = 2`.
Sigma = 1 (`sigma_eq_NT` applies: `x^(1/3) = 2 ≤ y`; `NT.Sigma` evaluated from `NT.Valid`: the prime loop of `Sigma456` is empty),
Phi0 = φ(x, 0) − φ(x/2, 0) = x − ⌊x/2⌋ (`phi0OpenMP_eq`), AC = 0 (`acEntry_two`), B = π(x/3) (`bOpenMP_eq_sharp`), D = 0 or `badRun` (`dThread_eq_noleaf`);
`0 − π(x/3) + 0 + (x − ⌊x/2⌋) + 1 = π(x)` for the seven arguments.
-/
import PcProofs.Close3YTwoAC

namespace Pc.Top
open Nat Finset Pc.LB Pc.Hard PcGen.ApiConst
open scoped Nat.Prime

/-- the clamps for `9 ≤ x < 16`: `y = 2`, whatever `v` -/
theorem gY_two {x : ℕ} (h9 : 9 ≤ x) (h : x < 16) (v : ℤ) : gY x v = 2 := by
  unfold gY clampY
  rw [isqrtN_eq, sqrt_three h9 h, iroot3_two (by omega) (by omega)]
  have e1 : ((2 : ℕ) : ℤ) = 2 := rfl
  have e2 : ((3 : ℕ) : ℤ) = 3 := rfl
  rw [e1, e2]
  omega

/-- … and `z = 2`, whatever `w` -/
theorem gZ_two {x : ℕ} (h9 : 9 ≤ x) (h : x < 16) (w : ℤ) : gZ x 2 w = 2 := by
  unfold gZ clampZ
  rw [isqrtN_eq, sqrt_three h9 h]
  have e2 : ((3 : ℕ) : ℤ) = 3 := rfl
  rw [e2]
  omega

theorem pi_three : π 3 = 2 := pi_vals_le4.2.2.2.1
theorem pi_two : π 2 = 1 := pi_vals_le4.2.2.1

/-- `Σ = 1` on the parameters `y = 2`, `9 ≤ x < 16` -/
theorem NT_Sigma_two {t : NT} (hv : t.Valid) (hb : 3 ≤ t.bound) {x : ℕ} (h9 : 9 ≤ x) (h : x < 16) : t.Sigma x 2 = 1 := by
  have hp2 : t.piOf 2 = 1 := by rw [hv.piOf_eq 2 (by omega), pi_two]
  have hp3 : t.piOf 3 = 2 := by rw [hv.piOf_eq 3 (by omega), pi_three]
  unfold NT.Sigma NT.primesIn
  simp only [xStar_two h9 h, iroot3_two (show 8 ≤ x by omega) (show x < 27 by omega), isqrtN_eq,
    sqrt_half_two (show 8 ≤ x by omega) (show x < 18 by omega), sqrt_three h9 h, hp2, hp3, Nat.sub_self, List.range_zero, List.map_nil,
    List.filter_nil]
  decide

/-- `Φ0(x, 2, 2, 0) = φ(x, 0) − φ(x/2, 0) = x − ⌊x/2⌋` -/
theorem Phi0_two (x : ℕ) : Spec.Phi0 x 2 2 0 = (x : ℤ) - ((x / 2 : ℕ) : ℤ) := by
  unfold Spec.Phi0 Spec.ord
  rw [pi_two]
  have hI : Finset.Ioc 0 1 = {1} := by decide
  have hP : ({1} : Finset ℕ).powerset = {∅, {1}} := by decide
  have e : ({∅, {1}} : Finset (Finset ℕ)).filter (fun S => Spec.prodP S ≤ 2) = {∅, {1}} := by
    apply Finset.filter_true_of_mem
    intro S hS
    rw [Finset.mem_insert, Finset.mem_singleton] at hS
    rcases hS with rfl | rfl
    · unfold Spec.prodP; simp
    · unfold Spec.prodP; rw [Finset.prod_singleton, Spec.p_one]
  rw [hI, hP, e, Finset.sum_pair (by decide)]
  unfold Spec.prodP
  rw [Finset.prod_empty, Finset.prod_singleton, Spec.p_one, Nat.div_one, Spec.phi_zero, Spec.phi_zero, Finset.card_empty,
    Finset.card_singleton]
  ring

theorem pi_vals_9_15 : π 5 = 3 ∧ π 9 = 4 ∧ π 10 = 4 ∧ π 11 = 5 ∧ π 12 = 5 ∧ π 13 = 6 ∧ π 14 = 6 ∧ π 15 = 6 := by decide

/-- the sum of the five terms on the parameters `y = z = 2` is π(x) -/
theorem ytwo_identity {x : ℕ} (h9 : 9 ≤ x) (h : x < 16) :
    (0 : ℤ) - Spec.B x 2 + 0 + Spec.Phi0 x 2 2 0 + 1 = (π x : ℤ) := by
  obtain ⟨p5, p9, p10, p11, p12, p13, p14, p15⟩ := pi_vals_9_15
  obtain ⟨_, _, _, p3, p4⟩ := pi_vals_le4
  rw [Phi0_two]
  unfold Spec.B
  rw [sqrt_three h9 h]
  have e : (Finset.Ioc 2 3).filter Nat.Prime = {3} := by decide
  rw [e, Finset.sum_singleton]
  interval_cases x
  · rw [show 9 / 3 = 3 by norm_num, p3, p9]; norm_num
  · rw [show 10 / 3 = 3 by norm_num, p3, p10]; norm_num
  · rw [show 11 / 3 = 3 by norm_num, p3, p11]; norm_num
  · rw [show 12 / 3 = 4 by norm_num, p4, p12]; norm_num
  · rw [show 13 / 3 = 4 by norm_num, p4, p13]; norm_num
  · rw [show 14 / 3 = 4 by norm_num, p4, p14]; norm_num
  · rw [show 15 / 3 = 5 by norm_num, p5, p15]; norm_num

/-- **`pi_gourdon_64/128(x)` for `9 ≤ x < 16`** (degenerate clamps `y = z = 2`, `k = 0`) from `TablesOK` and `GExecC` alone -/
theorem piGourdon_ytwo {σ : Type} (T : Tables σ) {B : ℕ} (hT : TablesOK T B) (pi : ℕ → ℕ) (wide : Bool) (n : ℕ)
    (h9 : 9 ≤ n) (h16 : n < 16) (threads : ℤ) (isPrint : Bool) (r : GRun)
    (hpi : ∀ m : ℕ, m < n → pi m = π m) (hex : GExecC T B wide n r) :
    piGourdon T pi wide (n : ℤ) threads isPrint r = .ok (π n : ℤ) ∨
      piGourdon T pi wide (n : ℤ) threads isPrint r = .error (.hard .badRun) := by
  have hY : gY n r.fo.v = 2 := gY_two h9 h16 _
  have hK : getK n = 0 := getK_tiny (by omega) h16
  have hZ : gZ n 2 (r.fo.w 2) = 2 := gZ_two h9 h16 _
  have h2n : (2 : ℤ).toNat = 2 := by decide
  have hB2 : 2 ≤ B := by have := hex.yB; rwa [hY, h2n] at this
  have hbound : 3 ≤ T.t.bound := by
    have := hex.reach.hs
    rwa [sqrt_three h9 h16] at this
  have h63 : ITy.i64.maxVal = 2 ^ 63 - 1 := by decide
  have hac := hex.adm.ac
  rw [hY, hZ, h2n, hK] at hac
  obtain ⟨l, hl, hlast, hsegs⟩ := hac.chain
  have hphi0 := hex.adm.phi0
  have hb := hex.adm.b
  rw [hY, h2n] at hphi0 hb
  rw [hK] at hphi0
  have hw4 : 2 * 2 ≤ (widthTy wide).maxVal := by cases wide <;> decide
  have hsig : sigma T.t (widthTy wide) n 2 = .ok 1 := by
    rw [sigma_eq_NT hT.valid (by norm_num) (by rw [iroot3_two (by omega) (by omega)]) (by omega) hw4
      (le_trans (Nat.div_le_self _ _) (by rw [h63]; omega))
      (le_trans (le_trans (Nat.sqrt_le_self _) (Nat.div_le_self _ _)) (by rw [h63]; omega)), NT_Sigma_two hT.valid hbound h9 h16]
  have e2 : ((2 : ℕ) : ℤ) = 2 := rfl
  exact piGourdon_degen T hT pi wide n threads isPrint r (by omega) h16 hpi hex.adm.env hex.accept 2 (by norm_num) (by norm_num)
    (by rw [hY]; rfl) (by rw [e2]; exact hZ) hphi0 hb hB2 (by omega) 1 hsig
    (Easy.acEntry_two .libdivide hT.valid (by omega) (widthTy wide) h9 h16 hac.sched l hl hlast hsegs) (ytwo_identity h9 h16)

/-- **`pi_gourdon_64/128(x)` for EVERY `2 ≤ x < 16`** (all the arguments on which the clamps degenerate to `y ≤ x^(1/3)`): from `TablesOK T B` and the
    closed execution structure `GExecC` alone the result is π(x), or `badRun` for a recorded D history that is not a run of the dispenser -/
theorem piGourdon_tiny_lt16 {σ : Type} (T : Tables σ) {B : ℕ} (hT : TablesOK T B) (pi : ℕ → ℕ) (wide : Bool) (n : ℕ)
    (h2 : 2 ≤ n) (h16 : n < 16) (threads : ℤ) (isPrint : Bool) (r : GRun)
    (hpi : ∀ m : ℕ, m < n → pi m = π m) (hex : GExecC T B wide n r) :
    piGourdon T pi wide (n : ℤ) threads isPrint r = .ok (π n : ℤ) ∨
      piGourdon T pi wide (n : ℤ) threads isPrint r = .error (.hard .badRun) := by
  by_cases h8 : n < 8
  · exact piGourdon_tiny_lt8 T hT pi wide n h2 h8 threads isPrint r hpi hex
  · by_cases h9 : 9 ≤ n
    · exact piGourdon_ytwo T hT pi wide n h9 h16 threads isPrint r hpi hex
    · obtain rfl : n = 8 := by omega
      exact piGourdon_eight T hT pi wide threads isPrint r hpi hex

end Pc.Top

#print axioms Pc.Top.piGourdon_ytwo
#print axioms Pc.Top.piGourdon_tiny_lt16
