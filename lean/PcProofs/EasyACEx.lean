/-
wp-easy: two concrete primes used by the non-vacuity examples of PcProps/C08EasyAC.lean.
-/
import PcProofs.EasyAC2
namespace Pc.Easy
open Pc.Spec

theorem p10 : p 10 = 29 := by
  have : Nat.primeCounting 29 = 10 := by decide
  rw [← this]; exact p_pi_of_prime (by norm_num)

theorem p11 : p 11 = 31 := by
  have : Nat.primeCounting 31 = 11 := by decide
  rw [← this]; exact p_pi_of_prime (by norm_num)

theorem p7 : p 7 = 17 := by
  have : Nat.primeCounting 17 = 7 := by decide
  rw [← this]; exact p_pi_of_prime (by norm_num)

end Pc.Easy
