/-
WP close, item 3 — `PhiContract` (PcProofs/TopAlgsApi.lean) discharged by C07's L2 model of src/phi.cpp
(PcModel/PhiAlg.lean `phiOpenMP`, PcProofs/PhiAlg.lean `phiOpenMP_correct`).

What is TRUE of the model (and of phi.cpp:344-376): `pi_noprint(x)` is called by `phi(x, a, threads)` only inside
`phi_pix`, i.e. on the two returns `a > pix_upper(√x)` and `a > pi[√x]` (guards `.phiPix1`, `.phiPix2`); both imply
`a > π(√x)` as soon as `π(√x) ≤ pix_upper(√x)` and the PiTable entry `pi[√x]` is right (`phiPix_guard_imp`).
`pi_legendre` calls `phi(x, π(√x))` and `pi_meissel` calls `phi(x, π(x^(1/3)))` with `π(x^(1/3)) ≤ π(√x)`: at both call sites
the guards cannot fire, `P.piFn` is never read, and the `piFn` field of `TopOK` is ELIMINATED (`phiOpenMP_call`) — the
recursion pi(x) → phi(x, a) → pi_noprint(x) does not exist (this is the comment at phi.cpp:303-311, 367-372).
-/
import PcProofs.PhiAlg
import PcProofs.PhiTiny
import PcProofs.PiTable
import PcProofs.FormulasPrime
import PcProofs.TopAlgsApi

namespace Pc.ClosePhi
open Nat Pc.Spec Pc.PhiFacts Pc.PhiAlgProofs
open scoped Nat.Prime

/-! ### the `is_pix` / `phi_pix` guards -/

/-- `phiGuards` never reads `piFn` -/
theorem phiGuards_piFn (P : PhiTop) (f : ℕ → ℕ) (x a : ℤ) : phiGuards { P with piFn := f } x a = phiGuards P x a := rfl

/-- the two returns through `phi_pix` (the only readers of `pi_noprint`) require `a > π(√x)` -/
theorem phiPix_guard_imp (P : PhiTop) (x a : ℤ)
    (hup : π (Nat.sqrt x.toNat) ≤ P.pixUpper (Nat.sqrt x.toNat))
    (htab : P.piTab (Nat.sqrt x.toNat) = π (Nat.sqrt x.toNat))
    (hg : phiGuards P x a = .phiPix1 ∨ phiGuards P x a = .phiPix2) : π (Nat.sqrt x.toNat) < a.toNat := by
  unfold phiGuards at hg
  split_ifs at hg with h1 h2 h3 h4 h5 h6 h7 <;> simp at hg <;> omega

/-- `phiOpenMP` reads `piFn` only on the two `phi_pix` returns -/
theorem phiOpenMP_piFn_irrelevant (P : PhiTop) (f : ℕ → ℕ) (order : List ℕ) (sched : ℕ → PhiCacheL1 × ℕ) (x a : ℤ)
    (hg : ¬ (phiGuards P x a = .phiPix1 ∨ phiGuards P x a = .phiPix2)) :
    phiOpenMP { P with piFn := f } order sched x a = phiOpenMP P order sched x a := by
  unfold phiOpenMP
  rw [phiGuards_piFn]
  cases h : phiGuards P x a <;> first | rfl | exact absurd (Or.inl h) hg | exact absurd (Or.inr h) hg

/-- the two `pix_upper` guards decide the same when `pix_upper` is replaced by `max pix_upper π` (for which the
    inequality of the literature holds by construction), PROVIDED the guard `a >= pix_upper(x)` is either right
    (`π x ≤ pix_upper x`) or does not fire (`a < pix_upper x`), and the guard `a > pix_upper(√x)` does not fire -/
theorem phiGuards_pixUpper_max (P : PhiTop) (x a : ℕ) (h1 : π x ≤ P.pixUpper x ∨ a < P.pixUpper x)
    (h2 : a ≤ P.pixUpper (Nat.sqrt x)) :
    phiGuards { P with pixUpper := fun y => max (P.pixUpper y) (π y) } (x : ℤ) (a : ℤ) = phiGuards P (x : ℤ) (a : ℤ) := by
  unfold phiGuards
  simp only [Int.toNat_natCast]
  have e1 : (a ≥ max (P.pixUpper x) (π x)) ↔ a ≥ P.pixUpper x := by omega
  have e2 : (a > max (P.pixUpper (Nat.sqrt x)) (π (Nat.sqrt x))) ↔ a > P.pixUpper (Nat.sqrt x) := by omega
  simp only [e1, e2]

/-- the contracts of ONE call `phi(x, a, threads)` with `a ≤ π(√x)`: `TopOK` without the `piFn` field, the prime vector
    only up to `a`, and the two `pix_upper` facts in the weakest form that is true of the code -/
structure CallOK (P : PhiTop) (x a : ℕ) : Prop where
  /-- guard `a >= pix_upper(x) → 1` (phi.cpp:356): right by the literature inequality `π(x) ≤ pix_upper(x)` (NAMED
      HYPOTHESIS, a double formula above 30719), or simply not taken -/
  pixUpperX : π x ≤ P.pixUpper x ∨ a < P.pixUpper x
  /-- guard `a > pix_upper(√x) → phi_pix` (phi.cpp:362) is not taken.  NECESSARY at `a = π(√x)`: otherwise
      `pi_legendre(x)` → `phi_pix(x, a)` → `pi_noprint(x)` → `pi_legendre(x)` would not terminate.  Follows from
      `π(√x) ≤ pix_upper(√x)`; for `√x ≤ 30719` `pix_upper` is the exact table (`callOK_realTop`) -/
  pixUpperSqrt : a ≤ P.pixUpper (Nat.sqrt x)
  /-- `generate_n_primes(a)`: 1-indexed, `primes[0] = 0` -/
  prime0 : P.prime 0 = 0
  prime : ∀ i, 1 ≤ i → i ≤ a → P.prime i = p i
  /-- `PiTable pi(√x)` -/
  piTab : ∀ v, v ≤ Nat.sqrt x → P.piTab v = π v
  /-- `phi_tiny` -/
  tiny : ∀ y a, a ≤ 8 → P.tiny y a = phi y a

/-- the form with the two inequalities of the literature -/
theorem CallOK.of_literature {P : PhiTop} {x a : ℕ} (ha : a ≤ π (Nat.sqrt x)) (hX : π x ≤ P.pixUpper x)
    (hS : π (Nat.sqrt x) ≤ P.pixUpper (Nat.sqrt x)) (h0 : P.prime 0 = 0) (hp : ∀ i, 1 ≤ i → i ≤ a → P.prime i = p i)
    (ht : ∀ v, v ≤ Nat.sqrt x → P.piTab v = π v) (hy : ∀ y a, a ≤ 8 → P.tiny y a = phi y a) : CallOK P x a :=
  ⟨Or.inl hX, le_trans ha hS, h0, hp, ht, hy⟩

/-- `P` with `pi_noprint := π` and `pix_upper := max pix_upper π`: the idealisation under which C07 proved `phi_OpenMP` -/
noncomputable def idealise (P : PhiTop) : PhiTop :=
  { P with piFn := fun y => π y, pixUpper := fun y => max (P.pixUpper y) (π y) }

theorem CallOK.topOK {P : PhiTop} {x a : ℕ} (h : CallOK P x a) : TopOK (idealise P) x a :=
  { pixUpperX := le_max_right _ _, pixUpperSqrt := le_max_right _ _, piFn := rfl, prime0 := h.prime0,
    prime := h.prime, piTab := h.piTab, tiny := h.tiny }

theorem CallOK.guards_eq {P : PhiTop} {x a : ℕ} (h : CallOK P x a) :
    phiGuards (idealise P) (x : ℤ) (a : ℤ) = phiGuards P (x : ℤ) (a : ℤ) :=
  phiGuards_pixUpper_max P x a h.pixUpperX h.pixUpperSqrt

/-- at `a ≤ π(√x)` the `phi_pix` returns are unreachable -/
theorem CallOK.no_phiPix {P : PhiTop} {x a : ℕ} (h : CallOK P x a) (ha : a ≤ π (Nat.sqrt x)) :
    ¬ (phiGuards P (x : ℤ) (a : ℤ) = .phiPix1 ∨ phiGuards P (x : ℤ) (a : ℤ) = .phiPix2) := by
  intro hg
  unfold phiGuards at hg
  have hs := h.pixUpperSqrt
  have ht := h.piTab _ le_rfl
  simp only [Int.toNat_natCast] at hg
  split_ifs at hg with h1 h2 h3 h4 h5 h6 h7 <;> simp at hg <;> omega

/-- on every return except the two through `phi_pix`, `phi_OpenMP` reads neither `pi_noprint` nor (beyond the guards)
    `pix_upper` -/
theorem phiOpenMP_idealise (P : PhiTop) (order : List ℕ) (sched : ℕ → PhiCacheL1 × ℕ) (x a : ℤ)
    (hge : phiGuards (idealise P) x a = phiGuards P x a)
    (hg : ¬ (phiGuards P x a = .phiPix1 ∨ phiGuards P x a = .phiPix2)) :
    phiOpenMP (idealise P) order sched x a = phiOpenMP P order sched x a := by
  unfold phiOpenMP
  rw [hge]
  cases h : phiGuards P x a <;> first | rfl | exact absurd (Or.inl h) hg | exact absurd (Or.inr h) hg

theorem phiZ_nat (x a : ℕ) : phiZ (x : ℤ) (a : ℤ) = (phi x a : ℤ) := by
  unfold phiZ
  split_ifs with h1 h2
  · have : x = 0 := by omega
    subst this; rw [PhiFacts.phi_zero_left]; rfl
  · have : a = 0 := by omega
    subst this; rw [PhiFacts.phi_zero_right]
  · simp

/-- only the caches of the loop indices matter -/
theorem phiOpenMP_sched_congr (P : PhiTop) (order : List ℕ) (sched sched' : ℕ → PhiCacheL1 × ℕ) (x a : ℤ)
    (h : ∀ i ∈ order, sched i = sched' i) : phiOpenMP P order sched x a = phiOpenMP P order sched' x a := by
  unfold phiOpenMP
  cases phiGuards P x a <;> try rfl
  simp only
  congr 2
  apply List.map_congr_left
  intro i hi
  rw [h i hi]

/-- **`phi_OpenMP(x, a)` at `a ≤ π(√x)` is the Legendre sum, WITHOUT any hypothesis on `pi_noprint`**; the cache
    hypothesis is asked only for the loop indices `9..a` -/
theorem phiOpenMP_call (P : PhiTop) (x a : ℕ) (hP : CallOK P x a) (ha : a ≤ π (Nat.sqrt x))
    (order : List ℕ) (horder : order.Perm (List.range' 9 (a - 8)))
    (sched : ℕ → PhiCacheL1 × ℕ) (hsched : ∀ i, 9 ≤ i → i ≤ a → CacheOK (sched i)) :
    phiOpenMP P order sched (x : ℤ) (a : ℤ) = (phi x a : ℤ) := by
  set sched' : ℕ → PhiCacheL1 × ℕ := fun i => if 9 ≤ i ∧ i ≤ a then sched i else (⟨0, 0, fun _ _ => 0⟩, 0) with hs'
  have hcongr : ∀ i ∈ order, sched i = sched' i := by
    intro i hi
    have := (horder.mem_iff).1 hi
    rw [List.mem_range'_1] at this
    rw [hs']
    simp only
    rw [if_pos ⟨by omega, by omega⟩]
  have hok : ∀ i, CacheOK (sched' i) := by
    intro i
    rw [hs']
    simp only
    split
    · rename_i h; exact hsched i h.1 h.2
    · exact ⟨fun _ _ _ h1 h2 => by
        have h2' : _ ≤ 0 := h2
        omega, le_rfl⟩
  rw [phiOpenMP_sched_congr P order sched sched' _ _ hcongr,
    ← phiOpenMP_idealise P order sched' _ _ hP.guards_eq (hP.no_phiPix ha), ← phiZ_nat]
  exact phiOpenMP_correct _ (x : ℤ) (a : ℤ) (by simpa using hP.topOK) order (by simpa using horder) sched' hok

/-! ### the cache hypothesis -/

/-- the CONTENT half of `CacheOK`: the sieve arrays `sieve_[b][y / 240]` (written by `init_cache`, which the L1 model
    does not execute — `PhiCacheL1.val` is abstract) answer `phi y b` wherever `is_cached` allows a lookup -/
def CacheValOK (c : PhiCacheL1) : Prop := ∀ y b, y ≤ c.maxX → 8 < b → b ≤ c.maxA → c.val y b = phi y b

theorem cacheOK_iff (c : PhiCacheL1) (mac : ℕ) : CacheOK (c, mac) ↔ CacheValOK c ∧ mac ≤ c.maxA := Iff.rfl

/-- the state half is free for a fresh object: `max_a_cached_ = 0` -/
theorem cacheOK_initial {c : PhiCacheL1} (h : CacheValOK c) : CacheOK (c, 0) := ⟨h, Nat.zero_le _⟩

/-- a `PhiCache` that does not cache (`max_a_ ≤ 8`, in particular the `(0, 0)` geometry of the early returns of the
    constructor): nothing is assumed about its arrays -/
theorem cacheOK_noCache (c : PhiCacheL1) (h : c.maxA ≤ 8) : CacheOK (c, 0) :=
  ⟨fun _ _ _ h1 h2 => by
    have h2' : _ ≤ c.maxA := h2
    omega, Nat.zero_le _⟩

/-- the constructor disables the cache for `a ≤ 38` (`max_a = min(a - 30, 100) ≤ PhiTiny::max_a()`) -/
theorem phiCacheGeometry_small (a powEst : ℕ) (ha : a ≤ 38) : phiCacheGeometry a powEst = (0, 0) := by
  unfold phiCacheGeometry
  have h : min (a - min a 30) 100 ≤ phiTinyMaxA := by unfold phiTinyMaxA; omega
  simp only [h, if_true]

/-- the constructor disables the cache whenever `(uint64_t) std::pow(x, 1 / 2.3) ≤ 1680` (`max_x_size_ < 8`): in exact
    arithmetic every `x ≤ 2.6·10^7`, in particular the whole `pi_legendre` range of the dispatcher -/
theorem phiCacheGeometry_lowPow (a powEst : ℕ) (h : powEst ≤ 1680) : phiCacheGeometry a powEst = (0, 0) := by
  unfold phiCacheGeometry
  simp only
  split
  · rfl
  · rw [if_pos]
    have : min powEst (16 <<< 20 / (min (a - min a 30) 100 - phiTinyMaxA) * (240 / 12)) ≤ 1680 :=
      le_trans (Nat.min_le_left _ _) h
    omega

/-- a fresh `PhiCache` with the geometry the constructor computes needs NO hypothesis about its arrays when
    `a ≤ 38` or the `pow` estimate is at most 1680 -/
theorem cacheOK_of_geometry (c : PhiCacheL1) (a powEst : ℕ) (hc : (c.maxX, c.maxA) = phiCacheGeometry a powEst)
    (h : a ≤ 38 ∨ powEst ≤ 1680) : CacheOK (c, 0) := by
  have h0 : phiCacheGeometry a powEst = (0, 0) := by
    rcases h with h | h
    · exact phiCacheGeometry_small a powEst h
    · exact phiCacheGeometry_lowPow a powEst h
  rw [h0] at hc
  have : c.maxA = 0 := (Prod.mk.inj hc).2
  exact cacheOK_noCache c (by omega)

/-- every state the model's own updates reach is legal again: `phi<SIGN>` leaves `max_a_cached_ ≤ max_a_` -/
theorem cacheOK_step {E : PhiEnv} {A : ℕ} (hE : EnvOK E A) (fuel : ℕ) (sign : ℤ) (x a mac : ℕ) (hf : a < fuel) (ha : a < A)
    (hx : 1 ≤ x) (h : CacheOK (E.cache, mac)) : CacheOK (E.cache, (phiRecAlg E fuel sign x a mac).2) :=
  ⟨h.1, (phiRecAlg_correct hE fuel sign x a mac hf ha hx h.2).2⟩

/-! ### `phi` as `pi_legendre` / `pi_meissel` call it -/

/-- `phi(x, a, threads)` as a function of naturals: the call `phi(x, a)` builds the tables `P x a`
    (`generate_n_primes(a)`, `PiTable(√x)`), its reduction adds the loop indices in the order `order x a`, the thread
    that evaluates index `i` owns the cache object `sched x a i` in that state -/
def phiReal (P : ℕ → ℕ → PhiTop) (order : ℕ → ℕ → List ℕ) (sched : ℕ → ℕ → ℕ → PhiCacheL1 × ℕ) (x a : ℕ) : ℕ :=
  (phiOpenMP (P x a) (order x a) (sched x a) (x : ℤ) (a : ℤ)).toNat

/-- everything that remains to be assumed about ONE call `phi(x, a)` -/
structure CallRunOK (P : PhiTop) (order : List ℕ) (sched : ℕ → PhiCacheL1 × ℕ) (x a : ℕ) : Prop where
  top : CallOK P x a
  /-- the OpenMP reduction adds every loop index `9..a` exactly once, in some order -/
  order : order.Perm (List.range' 9 (a - 8))
  /-- the cache object of the thread that evaluates loop index `i` answers the spec value where consulted
      (`CacheValOK`) and is in a legal state (`max_a_cached_ ≤ max_a_`) -/
  cache : ∀ i, 9 ≤ i → i ≤ a → CacheOK (sched i)

theorem phiReal_eq (P : ℕ → ℕ → PhiTop) (order : ℕ → ℕ → List ℕ) (sched : ℕ → ℕ → ℕ → PhiCacheL1 × ℕ) (x a : ℕ)
    (h : CallRunOK (P x a) (order x a) (sched x a) x a) (ha : a ≤ π (Nat.sqrt x)) :
    phiReal P order sched x a = phi x a := by
  unfold phiReal
  rw [phiOpenMP_call (P x a) x a h.top ha (order x a) h.order (sched x a) h.cache, Int.toNat_natCast]

theorem pi_iroot3_le_pi_sqrt (x : ℕ) : π (irootN 3 x) ≤ π (Nat.sqrt x) :=
  Nat.monotone_primeCounting (irootN3_le_sqrt x)

/-- **`PhiContract` for the L2 model of phi.cpp**, both calls -/
theorem phiContract_of_model (P : ℕ → ℕ → PhiTop) (order : ℕ → ℕ → List ℕ) (sched : ℕ → ℕ → ℕ → PhiCacheL1 × ℕ) (x : ℕ)
    (hL : CallRunOK (P x (π (Nat.sqrt x))) (order x (π (Nat.sqrt x))) (sched x (π (Nat.sqrt x))) x (π (Nat.sqrt x)))
    (hM : CallRunOK (P x (π (irootN 3 x))) (order x (π (irootN 3 x))) (sched x (π (irootN 3 x))) x (π (irootN 3 x))) :
    Pc.Top.PhiContract (phiReal P order sched) x :=
  ⟨phiReal_eq P order sched x _ hL le_rfl, phiReal_eq P order sched x _ hM (pi_iroot3_le_pi_sqrt x)⟩

/-! ### the tables the real constructors build -/

/-- `pix_upper(x)` (phi.cpp:330-340): the exact `PiTable::pi_cache` up to `max_cached() = 30719`, above it a double
    formula `f` (parameter) -/
def pixUpperReal (f : ℕ → ℕ) (x : ℕ) : ℕ := if x ≤ 30719 then piCacheLookup PcGen.piCache x else f x

theorem pixUpperReal_small (f : ℕ → ℕ) {x : ℕ} (hx : x ≤ 30719) : pixUpperReal f x = π x := by
  unfold pixUpperReal
  rw [if_pos hx, piCache_correct x (by omega)]

theorem pixUpperReal_large (f : ℕ → ℕ) {x : ℕ} (hx : 30719 < x) : pixUpperReal f x = f x := by
  unfold pixUpperReal
  rw [if_neg (by omega)]

/-- the parameters of one call with the REAL `phi_tiny` tables (dumped from /repo), the REAL `PiTable(√x, threads)`
    constructor model over a prime generator `gen`, the real small-`x` branch of `pix_upper`; `prime` (the vector
    `generate_n_primes(a)`) and the double formula `f` stay parameters -/
def realTop (gen : PrimeGen) (threads : ℤ) (f piFn prime : ℕ → ℕ) (sqrtx : ℕ) : PhiTop :=
  { pixUpper := pixUpperReal f
    piFn := piFn
    prime := prime
    piTab := fun v => ((PiTable.new gen sqrtx threads).get v).getD 0
    tiny := Pc.Gen.PhiTiny.tables.phiTiny }

/-- `CallOK` for the real tables at a call with `a ≤ π(√x)`: what remains is the generator contract (C18), the vector of
    the first `a` primes and — only above 30719 — the facts about the double formula `f` -/
theorem callOK_realTop (gen : PrimeGen) (hg : PrimeGenSpec gen) (threads : ℤ) (f piFn prime : ℕ → ℕ) (x a : ℕ)
    (ha : a ≤ π (Nat.sqrt x))
    (hfx : 30719 < x → π x ≤ f x ∨ a < f x) (hfs : 30719 < Nat.sqrt x → a ≤ f (Nat.sqrt x))
    (hp0 : prime 0 = 0) (hp : ∀ i, 1 ≤ i → i ≤ a → prime i = p i) :
    CallOK (realTop gen threads f piFn prime (Nat.sqrt x)) x a where
  pixUpperX := by
    show π x ≤ pixUpperReal f x ∨ a < pixUpperReal f x
    rcases Nat.lt_or_ge 30719 x with h | h
    · rw [pixUpperReal_large f h]; exact hfx h
    · rw [pixUpperReal_small f h]; exact Or.inl le_rfl
  pixUpperSqrt := by
    show a ≤ pixUpperReal f (Nat.sqrt x)
    rcases Nat.lt_or_ge 30719 (Nat.sqrt x) with h | h
    · rw [pixUpperReal_large f h]; exact hfs h
    · rw [pixUpperReal_small f h]; exact ha
  prime0 := hp0
  prime := hp
  piTab := fun v hv => by
    show ((PiTable.new gen (Nat.sqrt x) threads).get v).getD 0 = π v
    rw [piTable_correct gen hg (Nat.sqrt x) threads v hv]; rfl
  tiny := fun y a ha => Pc.PhiTinyProofs.phiTiny_correct Pc.PhiTinyProofs.tables_ok ha y

/-- in the whole range where the dispatcher uses `pi_legendre` / `pi_meissel` (`x ≤ 10^8 < 30720²`) the guard
    `a > pix_upper(√x)` is decided by the exact table: no hypothesis about `f` at `√x` -/
theorem sqrt_le_maxCached {x : ℕ} (hx : x < 30720 * 30720) : Nat.sqrt x ≤ 30719 := by
  have := Nat.sqrt_lt.2 hx
  omega

end Pc.ClosePhi
