/-
WP close3, item 2 (gourdon): the AC model for `9 ≤ x ≤ 15`, where the clamps give `y = z = 2`, `k = 0`, `x⋆ = 2`, `x^(1/3) = 2`, `⌊√x⌋ = 3`,
`max_a_prime = ⌊√(x/2)⌋ = 2`, `PiTable pi(2)`, `primes = {2}`.
C1: `[c1Lo, c1Hi] = [1, 0]` empty.  A: `min_a = π(2) + 1 = 2 > max_a ≤ 1` in every segment.  C2: `min_c2 = π(min(x/high/2, 2)) + 1`, `max_c2 ≤ 1`: the loop
runs (`b = 1`, prime 2) exactly in the segments ending at `high = 3` for `x = 9, 10, 11`; there `max_m = min_m = 2`, both inner loops of `C2` are empty
(`i = π(max_m) = π(min_m) = π(min_clustered) = 1`), the kernel returns `(0, 0)` without a single `segmentedPi` read.
-/
import PcProofs.Close3Eight

namespace Pc.Easy
open Nat Finset Pc.LB
open scoped Nat.Prime

theorem sumRange_single (f : ℕ → EM ℤ) (lo : ℕ) : sumRange f lo lo = (do let v ← f lo; pure (0 + v)) := by
  unfold sumRange
  have : lo + 1 - lo = 1 := by omega
  rw [this]
  show ([lo].foldlM _ 0) = _
  rw [List.foldlM_cons]
  simp

theorem inBetweenN_self (a x : ℕ) : inBetweenN a x a = a := by
  unfold inBetweenN
  split_ifs <;> omega

/-- the body of `C2` at `b = 1` (prime 2), `y = 2`, when `x / 4 ∈ {2, 3}`, `xlow ≥ 4`, `xhigh ≤ 3`: `max_m = min_m = 2`, no leaf -/
theorem acC2Kernel_two (k : Kern) {t : NT} (hp2 : t.piOf 2 = 1) {low high xlow xhigh x : ℕ} (hx8 : 8 ≤ x) (hx16 : x < 16)
    (hxl : 4 ≤ xlow) (hxh : xhigh / 2 ≤ 1) :
    acC2Kernel k t 2 2 low high xlow xhigh (x / 2) 2 1 2 = .ok (0, 0) := by
  have e1 : min (xlow / 2) (min (x / 2 / 2) 2) = 2 := by omega
  have e2 : min (max (xhigh / 2) (max (x / 2 / (2 * 2)) 2)) 2 = 2 := by omega
  have hu : isqrtN (x / 2) ≤ ITy.u64.maxVal := by
    have : ITy.u64.maxVal = 2 ^ 64 - 1 := by decide
    rw [isqrtN_eq, this]
    exact le_trans (Nat.sqrt_le_self _) (by omega)
  unfold acC2Kernel
  rw [divE_ok two_ne_zero, EM_bind_ok, divE_ok two_ne_zero, EM_bind_ok, divE_ok two_ne_zero, EM_bind_ok, mulE_ok (by decide), EM_bind_ok,
    divE_ok (by norm_num), EM_bind_ok]
  simp only []
  rw [e1, e2]
  unfold piGet
  rw [if_pos le_rfl, EM_bind_ok, EM_bind_ok, narrowE_ok hu, EM_bind_ok, inBetweenN_self, if_pos le_rfl, EM_bind_ok, hp2]
  rw [c2Clustered, if_neg (by omega), EM_pure, EM_bind_ok]
  simp only [c2Sparse]
  rfl

/-- one segment `[low, high)`, `high ≤ 3`, of AC for `8 ≤ x < 16` on `(y, k, x⋆) = (2, 0, 2)`, `x^(1/3) = 2`, `pi` / `primes` reaching 2: `(Σ C2, Σ A) = (0, 0)` -/
theorem acSegment_two (f : ACFile) {t : NT} (hp0 : t.piOf 0 = 0) (hp1 : t.piOf 1 = 0) (hp2 : t.piOf 2 = 1) (hq : t.p 1 = 2)
    (w : ITy) (p : ACPre) (hpx : p.x13 = 2) (hm : p.maxPi = 2) (hsz : p.size = 2) (hr : p.piRoot3xy = 0) (hsq : p.piSqrtz = 0)
    {x low high : ℕ} (hx8 : 8 ≤ x) (hx16 : x < 16) (hlh : low < high) (hh : high ≤ 3) :
    acSegment f t w p x 2 0 2 low high = .ok (0, 0) := by
  have hl : max low 1 ≠ 0 := by omega
  have hh0 : high ≠ 0 := by omega
  have hpi : ∀ n, n ≤ 2 → t.piOf n ≤ 1 := by
    intro n hn
    interval_cases n <;> omega
  have hpi0 : ∀ n, n ≤ 1 → t.piOf n = 0 := by
    intro n hn
    interval_cases n <;> assumption
  have hsl : isqrtN low ≤ 1 := by
    rw [isqrtN_eq]
    exact Nat.le_of_lt_succ (Nat.sqrt_lt.2 (by omega))
  unfold acSegment
  rw [divE_ok hl, EM_bind_ok, divE_ok hh0, EM_bind_ok]
  generalize x / max low 1 = xlow
  generalize x / high = xhigh
  unfold piGet
  rw [hm, if_pos (by omega), EM_bind_ok, divE_ok two_ne_zero, EM_bind_ok, if_pos (min_le_right _ _), EM_bind_ok, divE_ok hh0,
    EM_bind_ok, hpx]
  have e1 : max 2 (min (xhigh / high) 2) = 2 := by omega
  rw [e1, if_pos le_rfl, EM_bind_ok]
  simp only []
  rw [if_pos (min_le_right _ _), EM_bind_ok, EM_bind_ok, hr, hsq, hpi0 _ hsl, hp2]
  simp only [max_self, Nat.zero_max]
  rw [sumRange_empty' _ (show t.piOf (min (isqrtN xlow) 2) < 1 + 1 from Nat.lt_succ_of_le (hpi _ (min_le_right _ _)))]
  by_cases hc : t.piOf (min (isqrtN xlow) 2) < t.piOf (min (xhigh / 2) 2) + 1
  · rw [sumRange_empty' _ hc]
    rfl
  · -- `min_c2 = max_c2 = 1`
    have hmax := hpi (min (isqrtN xlow) 2) (min_le_right _ _)
    have hv2 : t.piOf (min (xhigh / 2) 2) = 0 := by omega
    have hmc : t.piOf (min (isqrtN xlow) 2) = 1 := by omega
    have hxh : xhigh / 2 ≤ 1 := by
      by_contra h
      rw [min_eq_right (by omega), hp2] at hv2
      omega
    have hxl : 4 ≤ xlow := by
      by_contra h
      have : isqrtN xlow ≤ 1 := by
        rw [isqrtN_eq]
        exact Nat.le_of_lt_succ (Nat.sqrt_lt.2 (by omega))
      rw [min_eq_left (by omega), hpi0 _ this] at hmc
      omega
    rw [hv2, hmc, sumRange_single]
    unfold primesGet
    rw [hsz, if_pos (by norm_num), hq, EM_bind_ok, divE_ok two_ne_zero, EM_bind_ok, acC2Kernel_two _ hp2 hx8 hx16 hxl hxh]
    rfl

end Pc.Easy

namespace Pc.Top
open Nat Finset Pc.LB

theorem iroot3_two {x : ℕ} (h8 : 8 ≤ x) (h : x < 27) : irootN 3 x = 2 := irootN_eq_of (by norm_num) (by omega) (by omega)
theorem sqrt_three {x : ℕ} (h9 : 9 ≤ x) (h : x < 16) : Nat.sqrt x = 3 := (Nat.eq_sqrt.2 ⟨by omega, by omega⟩).symm
theorem sqrt_half_two {x : ℕ} (h8 : 8 ≤ x) (h : x < 18) : Nat.sqrt (x / 2) = 2 := sqrt_tiny_hi (by omega) (by omega)
theorem sqrt_two : Nat.sqrt 2 = 1 := sqrt_tiny_lo (by norm_num) (by norm_num)

/-- `x⋆ = 2` for `9 ≤ x < 16`, `y = 2` -/
theorem xStar_two {x : ℕ} (h9 : 9 ≤ x) (h : x < 16) : xStar x 2 = 2 := by
  unfold xStar
  simp only [show max 2 1 = 2 from rfl, isqrtN_eq, sqrt_half_two (by omega : 8 ≤ x) (by omega), iroot4_tiny (by omega : 1 ≤ x) h]
  unfold ceilDiv
  omega

end Pc.Top

namespace Pc.Easy
open Nat Finset Pc.LB
open scoped Nat.Prime

/-- `AC_OpenMP`'s preamble for `9 ≤ x < 16`, `(y, z) = (2, 2)`, `max_a_prime = 2` -/
theorem acPre_two {t : NT} (hv : t.Valid) (hb : 2 ≤ t.bound) {x : ℕ} (h9 : 9 ≤ x) (h16 : x < 16) :
    acPre t x 2 2 2 = .ok (acPreVal x 2 2 2) := by
  have h63 : x / 2 ≤ ITy.i64.maxVal := by
    have : ITy.i64.maxVal = 2 ^ 63 - 1 := by decide
    rw [this]; omega
  have hM : (2 : ℕ) ≤ max 2 2 := le_max_left _ _
  have hMb : max 2 2 ≤ t.bound := by omega
  have r1 : Nat.sqrt 2 ≤ max 2 2 := by rw [Pc.Top.sqrt_two]; decide
  have r2 : irootN 3 (x / 2) ≤ max 2 2 := by rw [Pc.Top.iroot3_tiny (by omega) (by omega)]; decide
  unfold acPre
  rw [divE_ok (by omega), EM_bind_ok, narrowE_ok h63, EM_bind_ok, EM_bind_ok, narrowE_ok h63, EM_bind_ok]
  simp only []
  rw [hv.piOf_eq _ hMb, piGet_ok hv hM (le_trans hM hMb), EM_bind_ok, isqrtN_eq 2,
    piGet_ok hv r1 (le_trans r1 hMb), EM_bind_ok, piGet_ok hv r2 (le_trans r2 hMb), EM_bind_ok,
    EM_bind_ok]
  unfold acPreVal
  rfl

/-- **the AC model for `9 ≤ x < 16`, `(y, z, k) = (2, 2, 0)` returns 0** for every distribution of the (empty) C1 loop and every chain of segments
    `0 < … < ⌊√x⌋ = 3` in any order; the C2 loop runs `b = 1` in the segment ending at 3 for `x = 9, 10, 11` and finds no leaf -/
theorem acEntry_two (f : ACFile) {t : NT} (hv : t.Valid) (hb : 2 ≤ t.bound) (w : ITy) {x : ℕ} (h9 : 9 ≤ x) (h16 : x < 16)
    {c1sched : List (List ℕ)} (hs : IsSchedule (c1Lo t x 2 0) (c1Hi t 2) c1sched)
    (l : List ℕ) (hl : (0 :: l).Pairwise (· < ·)) (hlast : (0 :: l).getLast (List.cons_ne_nil _ _) = Nat.sqrt x)
    {segs : List (ℕ × ℕ)} (hsegs : segs.Perm (chainPairs (0 :: l))) :
    acEntry f t w x 2 2 0 c1sched segs = .ok 0 := by
  obtain ⟨q0, q1, q2, _, _⟩ := Pc.Top.pi_vals_le4
  have hp0 : t.piOf 0 = 0 := by rw [hv.piOf_eq 0 (by omega), q0]
  have hp1 : t.piOf 1 = 0 := by rw [hv.piOf_eq 1 (by omega), q1]
  have hp2 : t.piOf 2 = 1 := by rw [hv.piOf_eq 2 (by omega), q2]
  have hq : t.p 1 = 2 := Pc.Top.valid_p_one hv hb
  have h63 : ITy.i64.maxVal = 2 ^ 63 - 1 := by decide
  have hs' : IsSchedule (0 + 1) 0 c1sched := by
    have e1 : c1Lo t x 2 0 = 0 + 1 := by
      unfold c1Lo
      rw [Pc.Top.iroot3_tiny (by omega) (by omega), hp1]
      rfl
    have e2 : c1Hi t 2 = 0 := by
      unfold c1Hi
      rw [isqrtN_eq, Pc.Top.sqrt_two, hp1]
    rwa [e1, e2] at hs
  unfold acEntry
  simp only []
  rw [Pc.Top.xStar_two h9 h16, divE_ok two_ne_zero, EM_bind_ok, isqrtN_eq, Pc.Top.sqrt_half_two (by omega) (by omega),
    narrowE_ok (by rw [h63]; norm_num), EM_bind_ok]
  unfold acOpenMP
  rw [acPre_two hv hb h9 h16, EM_bind_ok]
  simp only [acPreVal]
  rw [reduceE_perm hs' 0 (v := fun _ => 0) (fun b h1 h2 s => by omega), EM_bind_ok]
  have hmem : ∀ lh ∈ segs, lh.1 < lh.2 ∧ lh.2 ≤ 3 := by
    intro lh hlh
    obtain ⟨h1, h2⟩ := mem_chainPairs _ hl lh (hsegs.mem_iff.1 hlh)
    have h3 := le_getLast_of_mem hl (List.cons_ne_nil _ _) h2
    rw [hlast, Pc.Top.sqrt_three h9 h16] at h3
    exact ⟨h1, h3⟩
  refine (foldlM_segs_eq (vv := fun _ => ((0 : ℤ), (0 : ℤ))) segs _ (fun lh hlh => ?_)).trans ?_
  · obtain ⟨m1, m2⟩ := hmem lh hlh
    refine acSegment_two f hp0 hp1 hp2 hq w _ (Pc.Top.iroot3_two (by omega) (by omega)) (show max 2 2 = 2 from rfl) ?_ ?_ ?_ (by omega) h16 m1 m2
    · show π (max 2 2) + 1 = 2
      rw [show max 2 2 = 2 from rfl, q2]
    · show π (irootN 3 (x / 2)) = 0
      rw [Pc.Top.iroot3_tiny (by omega) (by omega), q1]
    · show π (Nat.sqrt 2) = 0
      rw [Pc.Top.sqrt_two, q1]
  · simp

end Pc.Easy

#print axioms Pc.Easy.acSegment_two
#print axioms Pc.Easy.acEntry_two
