/-
WP cli2 — the formula wrappers of main.cpp (PcModel/CliWrap.lean) derive exactly the parameters of the library's own
derivation `gourdonL2 true` / `drL2 true` (PcModel/ParamsL2.lean; `true` = with the `x > get_max_x` range check, which the
wrappers perform for every x).
-/
import PcModel.CliWrap

namespace Pc.Cli
open Pc

theorem throw_eq {ε α} (e : ε) : (throw e : Except ε α) = .error e := rfl

theorem gourdonL2_prefix (x : Nat) (t : Int) (fo : GFloats) (g : GOut) (h : gourdonL2 true x t fo = .ok g) :
    ∃ limit, castI128 fo.maxX = .ok limit ∧ ¬ ((x : Int) > limit) ∧
      narrowI64 (irootN 3 x) = .ok g.x13 ∧ narrowI64 (isqrtN x) = .ok g.sqrtx ∧ castI64 fo.v = .ok g.v ∧
      g.y = max (min (max g.v (g.x13 + 1)) (g.sqrtx - 1)) 1 ∧ castI64 (fo.w g.y) = .ok g.w ∧
      g.z = max (min (max g.w g.y) (g.sqrtx - 1)) 1 ∧ g.k = getK x := by
  unfold gourdonL2 at h
  simp only [bind, Except.bind, if_true, pure, Except.pure, throw_eq, not_true_eq_false, false_and, if_false] at h
  cases hl : castI128 fo.maxX with
  | error e => simp only [hl] at h; cases h
  | ok limit =>
    simp only [hl] at h
    by_cases hx : (x : Int) > limit
    · simp only [hx, if_true] at h; cases h
    · simp only [hx, if_false] at h
      cases h13 : narrowI64 (irootN 3 x) with
      | error e => simp only [h13] at h; cases h
      | ok x13 =>
        simp only [h13] at h
        cases hsq : narrowI64 (isqrtN x) with
        | error e => simp only [hsq] at h; cases h
        | ok sqrtx =>
          simp only [hsq] at h
          cases hv : castI64 fo.v with
          | error e => simp only [hv] at h; cases h
          | ok v =>
            simp only [hv] at h
            cases hw : castI64 (fo.w (max (min (max v (x13 + 1)) (sqrtx - 1)) 1)) with
            | error e => simp only [hw] at h; cases h
            | ok w =>
              simp only [hw] at h
              split at h
              · cases h
              · split at h
                · cases h
                · split at h
                  · cases h
                  · split at h
                    · cases h
                    · split at h
                      · cases h
                      · split at h
                        · cases h
                        · cases h
                          exact ⟨limit, rfl, hx, rfl, rfl, rfl, rfl, hw, rfl, rfl⟩

theorem drL2_prefix (x : Nat) (t : Int) (fo : DFloats) (d : DOut) (h : drL2 true x t fo = .ok d) :
    ∃ limit, castI128 fo.maxX = .ok limit ∧ ¬ ((x : Int) > limit) ∧
      narrowI64 (irootN 3 x) = .ok d.x13 ∧ castI64 fo.v = .ok d.y ∧ d.y ≠ 0 ∧
      narrowI64 (Int.tdiv x d.y) = .ok d.z ∧ d.c = getCI d.y := by
  unfold drL2 at h
  simp only [bind, Except.bind, if_true, pure, Except.pure, throw_eq, not_true_eq_false, false_and, if_false] at h
  cases hl : castI128 fo.maxX with
  | error e => simp only [hl] at h; cases h
  | ok limit =>
    simp only [hl] at h
    by_cases hx : (x : Int) > limit
    · simp only [hx, if_true] at h; cases h
    · simp only [hx, if_false] at h
      cases h13 : narrowI64 (irootN 3 x) with
      | error e => simp only [h13] at h; cases h
      | ok x13 =>
        simp only [h13] at h
        cases hv : castI64 fo.v with
        | error e => simp only [hv] at h; cases h
        | ok y =>
          simp only [hv] at h
          by_cases hy : y = 0
          · simp only [hy, if_true] at h; cases h
          · simp only [hy, if_false] at h
            cases hz : narrowI64 (Int.tdiv x y) with
            | error e => simp only [hz] at h; cases h
            | ok z =>
              simp only [hz] at h
              split at h
              · cases h
              · split at h
                · cases h
                · cases h
                  exact ⟨limit, rfl, hx, rfl, rfl, hy, hz, rfl⟩

/-- **Gourdon wrappers.** Whenever the library's derivation `gourdonL2 true` succeeds for `x ≥ 1` with the float values
    `fo`, the wrapper calls the library function with exactly its `y` (and `z`, `k` for AC, D, Phi0). -/
theorem wrapGourdon_eq (fn : String) (usesZ : Bool) (x : Int) (hx : 1 ≤ x) (t : Int) (fo : GFloats) (g : GOut)
    (h : gourdonL2 true x.toNat t fo = .ok g) :
    wrapGourdon fn usesZ x fo = .ok (some ⟨fn, x, g.y, if usesZ then some g.z else none,
      if usesZ then some g.k else none, decide (x > i64Max)⟩) := by
  obtain ⟨limit, h1, h2, h3, h4, h5, h6, h7, h8, h9⟩ := gourdonL2_prefix _ t fo g h
  have hx' : ¬ x < 1 := by omega
  unfold wrapGourdon wrapGY
  simp only [hx', if_false, bind, Except.bind, pure, Except.pure, h1, h2, h3, h4, h5, ← h6, h7, ← h8, ← h9]
  cases usesZ <;> rfl

/-- a failure of a Gourdon wrapper is the same failure of the library's derivation -/
theorem wrapGourdon_error (fn : String) (usesZ : Bool) (x : Int) (t : Int) (fo : GFloats) (e : PErr)
    (h : wrapGourdon fn usesZ x fo = .error e) : 1 ≤ x ∧ gourdonL2 true x.toNat t fo = .error e := by
  unfold wrapGourdon wrapGY at h
  by_cases hx : x < 1
  · simp only [hx, if_true, pure, Except.pure] at h; cases h
  refine ⟨by omega, ?_⟩
  unfold gourdonL2
  simp only [hx, if_false, bind, Except.bind, pure, Except.pure, throw_eq, if_true] at h ⊢
  cases hl : castI128 fo.maxX with
  | error e' => simp only [hl] at h ⊢; cases h; rfl
  | ok limit =>
    simp only [hl] at h ⊢
    by_cases hxl : ((x.toNat : Nat) : Int) > limit
    · simp only [hxl, if_true] at h ⊢; cases h; rfl
    · simp only [hxl, if_false] at h ⊢
      cases h13 : narrowI64 (irootN 3 x.toNat) with
      | error e' => simp only [h13] at h ⊢; cases h; rfl
      | ok x13 =>
        simp only [h13] at h ⊢
        cases hsq : narrowI64 (isqrtN x.toNat) with
        | error e' => simp only [hsq] at h ⊢; cases h; rfl
        | ok sqrtx =>
          simp only [hsq] at h ⊢
          cases hv : castI64 fo.v with
          | error e' => simp only [hv] at h ⊢; cases h; rfl
          | ok v =>
            simp only [hv] at h ⊢
            cases usesZ with
            | false => simp only [Bool.false_eq_true, if_false] at h; cases h
            | true =>
              simp only [if_true] at h
              cases hw : castI64 (fo.w (max (min (max v (x13 + 1)) (sqrtx - 1)) 1)) with
              | error e' => simp only [hw] at h ⊢; cases h; rfl
              | ok w => simp only [hw] at h; cases h

/-- **Deleglise-Rivat wrappers.** Whenever the library's derivation `drL2 true` succeeds for `x ≥ 1`, the wrapper calls
    the library function with exactly its `y` (and `z`, `c`). -/
theorem wrapDr_eq (fn : String) (usesZ usesC : Bool) (x : Int) (hx : 1 ≤ x) (t : Int) (fo : DFloats) (d : DOut)
    (h : drL2 true x.toNat t fo = .ok d) :
    wrapDr fn usesZ usesC x fo = .ok (some ⟨fn, x, d.y, if usesZ then some d.z else none,
      if usesZ || usesC then some d.c else none, decide (x > i64Max)⟩) := by
  obtain ⟨limit, h1, h2, h3, h4, h5, h6, h7⟩ := drL2_prefix _ t fo d h
  have hx' : ¬ x < 1 := by omega
  have hcast : ((x.toNat : Nat) : Int) = x := Int.toNat_of_nonneg (by omega)
  rw [hcast] at h2 h6
  unfold wrapDr
  simp only [hx', if_false, bind, Except.bind, pure, Except.pure, h1, h2, h3, h4, h5, h6, ← h7]
  cases usesZ <;> cases usesC <;> rfl

/-- a failure of a Deleglise-Rivat wrapper is the same failure of the library's derivation -/
theorem wrapDr_error (fn : String) (usesZ usesC : Bool) (x : Int) (t : Int) (fo : DFloats) (e : PErr)
    (h : wrapDr fn usesZ usesC x fo = .error e) : 1 ≤ x ∧ drL2 true x.toNat t fo = .error e := by
  unfold wrapDr at h
  by_cases hx : x < 1
  · simp only [hx, if_true, pure, Except.pure] at h; cases h
  refine ⟨by omega, ?_⟩
  have hcast : ((x.toNat : Nat) : Int) = x := Int.toNat_of_nonneg (by omega)
  unfold drL2
  simp only [hx, if_false, bind, Except.bind, pure, Except.pure, throw_eq, if_true, hcast] at h ⊢
  cases hl : castI128 fo.maxX with
  | error e' => simp only [hl] at h ⊢; cases h; rfl
  | ok limit =>
    simp only [hl] at h ⊢
    by_cases hxl : x > limit
    · simp only [hxl, if_true] at h ⊢; cases h; rfl
    · simp only [hxl, if_false] at h ⊢
      cases h13 : narrowI64 (irootN 3 x.toNat) with
      | error e' => simp only [h13] at h ⊢; cases h; rfl
      | ok x13 =>
        simp only [h13] at h ⊢
        cases hv : castI64 fo.v with
        | error e' => simp only [hv] at h ⊢; cases h; rfl
        | ok y =>
          simp only [hv] at h ⊢
          cases usesZ with
          | false => simp only [Bool.false_eq_true, if_false] at h; cases h
          | true =>
            simp only [if_true] at h
            by_cases hy : y = 0
            · simp only [hy, if_true] at h ⊢; cases h; rfl
            · simp only [hy, if_false] at h ⊢
              cases hz : narrowI64 (Int.tdiv x y) with
              | error e' => simp only [hz] at h ⊢; cases h; rfl
              | ok z => simp only [hz] at h; cases h

/-- the formula options of main's switch are exactly the ten wrappers -/
theorem formula_cases_are_wrappers : ∀ e ∈ mainSwitch, e.2.formula = (wrapKindOf e.2.fn).isSome := by decide

end Pc.Cli

namespace Pc.Cli
open Pc

theorem castI64_val {t a : Int} (h : castI64 t = .ok a) : a = t := by
  unfold castI64 at h; split at h <;> cases h; rfl

theorem narrowI64_val {t a : Int} (h : narrowI64 t = .ok a) : a = t := by
  unfold narrowI64 at h; split at h <;> cases h; rfl

/-- the unchecked clamp formulas of PcModel/Cli.lean (`wrapGourdonYZ`, `wrapDrYZ`) give the library's `(y, z)` -/
theorem wrapGourdonYZ_eq (x : Nat) (t : Int) (fo : GFloats) (g : GOut) (h : gourdonL2 true x t fo = .ok g) :
    wrapGourdonYZ (irootN 3 x) (isqrtN x) fo.v fo.w = (g.y, g.z) := by
  obtain ⟨_, _, _, h3, h4, h5, h6, h7, h8, _⟩ := gourdonL2_prefix x t fo g h
  have e3 := narrowI64_val h3
  have e4 := narrowI64_val h4
  have e5 := castI64_val h5
  have e7 := castI64_val h7
  have hy : g.y = max (min (max fo.v ((irootN 3 x : Int) + 1)) ((isqrtN x : Int) - 1)) 1 := by rw [h6, e3, e4, e5]
  have hz : g.z = max (min (max (fo.w g.y) g.y) ((isqrtN x : Int) - 1)) 1 := by rw [h8, e7, e4]
  unfold wrapGourdonYZ
  rw [hz]
  simp only [← hy]

theorem wrapDrYZ_eq (x : Nat) (t : Int) (fo : DFloats) (d : DOut) (h : drL2 true x t fo = .ok d) :
    wrapDrYZ x fo.v = (d.y, d.z) := by
  obtain ⟨_, _, _, _, h4, _, h6, _⟩ := drL2_prefix x t fo d h
  have e4 := castI64_val h4
  have e6 := narrowI64_val h6
  unfold wrapDrYZ
  rw [e6, e4]

/-! stand-ins for the examples of PcProps/C08CliWrap.lean -/
def gfDemo : GFloats := ⟨10 ^ 30, 150, fun y => 2 * y, fun _ => 4⟩
def dfDemo : DFloats := ⟨10 ^ 30, 250, fun _ => 4⟩

end Pc.Cli
