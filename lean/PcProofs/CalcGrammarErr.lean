/-
C13 — the tree-building run of the shift/reduce loop fails only with the syntax error; hence `calcTree` and the reference
parser agree as functions (not only up to "which error").
-/
import PcProofs.CalcGrammar

namespace Pc.Calc

/-- a result that is a value, the syntax error, or the model artefact `internal` -/
def OnlySyn {α : Type} (x : Except Err α) : Prop := ∀ e, x = .error e → e = .syntax ∨ e = .internal

theorem ge_parseNum_tree (base : Nat) : ∀ (t : Bytes) (acc : Nat), ∃ p, parseNum tree base acc t = .ok p := by
  intro t
  induction t with
  | nil => intro acc; exact ⟨_, rfl⟩
  | cons c cs ih =>
    intro acc
    simp only [parseNum]
    split
    · have : tree.litOk (acc * base + digitVal c) = true := rfl
      rw [if_pos this]
      exact ih _
    · exact ⟨_, rfl⟩

theorem ge_litParse_tree (c : Nat) (rest : Bytes) : ∃ p, litParse tree c rest = .ok p := by
  unfold litParse
  split
  · exact ge_parseNum_tree 16 _ 0
  · exact ge_parseNum_tree 10 _ 0

theorem ge_parseOp_err {s : Bytes} {e : Err} (h : parseOp s = .error e) : e = .syntax := by
  rw [parseOp_lex] at h
  cases hl : lexOp (eatSpaces s) <;> rw [hl] at h <;> simp only at h <;> cases h
  rfl

theorem ge_reduce_tree (op : Oper) : ∀ (st : Stack Expr) (v : Expr), OnlySyn (reduce tree op v st) := by
  intro st
  induction st with
  | nil => intro v e h; simp only [reduce] at h; cases h; exact Or.inr rfl
  | cons top st ih =>
    intro v e h
    obtain ⟨topo, tv⟩ := top
    simp only [reduce] at h
    split at h
    · cases hto : topo.op with
      | none => rw [hto] at h; cases h
      | some o =>
        rw [hto] at h
        exact ih _ e h
    · cases h

theorem ge_parse_tree : ∀ fuel : Nat,
    (∀ (st : Stack Expr) (s : Bytes), OnlySyn (parseValue tree fuel st s)) ∧
    (∀ (st : Stack Expr) (s : Bytes), OnlySyn (parseExpr tree fuel st s)) ∧
    (∀ (v : Expr) (st : Stack Expr) (s : Bytes), OnlySyn (exprLoop tree fuel v st s)) := by
  intro fuel
  induction fuel with
  | zero =>
    refine ⟨?_, ?_, ?_⟩
    · intro st s e h; simp only [parseValue] at h; cases h; exact Or.inr rfl
    · intro st s e h; simp only [parseExpr] at h; cases h; exact Or.inr rfl
    · intro v st s e h; simp only [exprLoop] at h; cases h; exact Or.inr rfl
  | succ f ih =>
    obtain ⟨ihV, ihE, ihL⟩ := ih
    refine ⟨?_, ?_, ?_⟩
    · intro st s e h
      cases hs : eatSpaces s with
      | nil => rw [gl_pv_nil tree f st hs] at h; cases h; exact Or.inl rfl
      | cons c rest =>
        by_cases hc : isDigit c = true
        · rw [gl_pv_digit tree f st hs hc] at h
          obtain ⟨p, hp⟩ := ge_litParse_tree c rest
          rw [hp] at h
          cases h
        · have hc' : isDigit c = false := by simpa using hc
          by_cases h40 : c = 40
          · subst h40
            rw [gl_pv_paren tree f st hs] at h
            cases he : parseExpr tree f st rest with
            | error x => rw [he] at h; cases h; exact ihE st rest _ he
            | ok p =>
              obtain ⟨v1, st1, r1⟩ := p
              rw [he] at h
              simp only at h
              split at h
              · cases h
              · cases h; exact Or.inl rfl
          · by_cases h126 : c = 126
            · subst h126
              rw [gl_pv_not tree f st hs] at h
              cases he : parseValue tree f st rest with
              | error x => rw [he] at h; cases h; exact ihV st rest _ he
              | ok p => rw [he] at h; cases h
            · by_cases h43 : c = 43
              · subst h43
                rw [gl_pv_pos tree f st hs] at h
                exact ihV st rest e h
              · by_cases h45 : c = 45
                · subst h45
                  rw [gl_pv_neg tree f st hs] at h
                  cases he : parseValue tree f st rest with
                  | error x => rw [he] at h; cases h; exact ihV st rest _ he
                  | ok p => rw [he] at h; cases h
                · rw [gl_pv_other tree f st hs hc' h40 h126 h43 h45] at h
                  cases h; exact Or.inl rfl
    · intro st s e h
      rw [parseExpr] at h
      cases hv : parseValue tree f ((Oper.null, tree.lit 0) :: st) s with
      | error x => rw [hv] at h; cases h; exact ihV _ s _ hv
      | ok p =>
        obtain ⟨v1, st1, r1⟩ := p
        rw [hv] at h
        exact ihL v1 st1 r1 e h
    · intro v st s e h
      rw [exprLoop] at h
      split at h
      · cases h
      · cases hop : parseOp s with
        | error x => rw [hop] at h; cases h; exact Or.inl (ge_parseOp_err hop)
        | ok p =>
          obtain ⟨op, r⟩ := p
          rw [hop] at h
          simp only at h
          cases hred : reduce tree op v st with
          | error x => rw [hred] at h; cases h; exact ge_reduce_tree op st v _ hred
          | ok red =>
            rw [hred] at h
            cases red with
            | done v' st' => cases h
            | cont v' st' =>
              simp only at h
              cases hv : parseValue tree f ((op, v') :: st') r with
              | error x => rw [hv] at h; cases h; exact ihV _ r _ hv
              | ok q =>
                obtain ⟨v2, st2, r2⟩ := q
                rw [hv] at h
                exact ihL v2 st2 r2 e h

/-- the tree-building run fails only with the syntax error -/
theorem calcTree_error_syntax {s : Bytes} {e : Err} (h : calcTree s = .error e) : e = .syntax := by
  have hni := calcTree_not_internal s
  have : e = .syntax ∨ e = .internal := by
    unfold calcTree calcWith at h
    cases hp : parseExpr tree (2 * s.length + 2) [] s with
    | error x => rw [hp] at h; cases h; exact (ge_parse_tree _).2.1 [] s _ hp
    | ok p =>
      obtain ⟨v, st, r⟩ := p
      rw [hp] at h
      simp only at h
      split at h
      · cases h
      · cases h; exact Or.inl rfl
  rcases this with h1 | h1
  · exact h1
  · subst h1; exact absurd h hni

/-- `calcTree` and the reference parser agree as functions: the documented tree, or the syntax error -/
theorem calcTree_eq_refTree_exact (s : Bytes) :
    calcTree s = match refTree s with
      | some e => .ok e
      | none => .error .syntax := by
  have h := calcTree_eq_refTree s
  cases hc : calcTree s with
  | ok e =>
    rw [hc] at h
    rw [← h]; rfl
  | error x =>
    rw [hc] at h
    rw [← h, calcTree_error_syntax hc]; rfl

end Pc.Calc
