/-
WP hard: the concrete bit-exact model of `class Sieve` (PcModel/Sieve.lean) satisfies the abstract counting contract
`SieveSpec` the hard-leaf engines are proved against (PcProofs/HardSieve.lean).

Every field is one application of C17's `step_correct` (PcProofs/Sieve/Run.lean): the invariants `Ready` / `Seg` say that
the object is linked (`RunInv`) to a state of the specification machine whose ghost data are the ones the engine
discipline produces (slots `4 … lvl` hold `p 4 … p lvl`; new slots are created only in the first segment; in later
segments only slots crossed off in the previous segment are used), and the naive count `specCount` is turned into
`cnt` by PcProofs/HardSieveCnt.lean.

STATEMENT of `SieveSpec` (PcProofs/HardSieve.lean): unchanged.
`segOK low seg := 30 ∣ low ∧ 240 ∣ seg ∧ 0 < seg ∧ seg / 30 * 8 < 2 ^ 32` (`concreteSieve_spec_segOK`).
-/
import PcProofs.HardSieveCnt

namespace Pc.Hard
open Pc.Sieve (Ghost SpecState Op)

/-! ### the availability bookkeeping of the specification machine, for the two ways the engines use slots -/

/-- creating new slots at the end of the slot list (first segment) -/
theorem avail_new : ∀ (l : List ℕ) (ws st : ℕ) (G : Ghost), G.k = G.qs.length → ws = 4 + G.qs.length → G.L = st →
    (∀ q ∈ l, Nat.gcd q 30 = 1 ∧ q < Sieve.M32) →
    Sieve.AvailAll ws st G l ∧ G.crossedAll l = ⟨G.L, G.n, G.qs ++ l, G.k + l.length⟩ ∧
      Sieve.wsAfter ws G l = ws + l.length
  | [], ws, st, G, _, _, _, _ => by
    refine ⟨trivial, ?_, rfl⟩
    simp only [Ghost.crossedAll, List.append_nil, List.length_nil, Nat.add_zero]
  | q :: rest, ws, st, G, hk, hws, hL, hq => by
    have hnot : ¬ G.k < G.qs.length := by omega
    have hcr : G.crossed q = ⟨G.L, G.n, G.qs ++ [q], G.k + 1⟩ := by
      unfold Ghost.crossed; rw [if_neg hnot]
    obtain ⟨i1, i2, i3⟩ := avail_new rest (ws + 1) st (G.crossed q)
      (by rw [hcr]; simp only [List.length_append, List.length_singleton]; omega)
      (by rw [hcr]; simp only [List.length_append, List.length_singleton]; omega)
      (by rw [hcr]; exact hL) (fun q' h => hq q' (List.mem_cons_of_mem _ h))
    refine ⟨?_, ?_, ?_⟩
    · unfold Sieve.AvailAll
      rw [if_neg hnot]
      exact ⟨Or.inr ⟨hk, hws, hL, hq q List.mem_cons_self⟩, i1⟩
    · show (G.crossed q).crossedAll rest = _
      rw [i2, hcr]
      simp only [List.append_assoc, List.singleton_append, List.length_cons, Ghost.mk.injEq, true_and]
      omega
    · show Sieve.wsAfter (if G.k < G.qs.length then ws else ws + 1) (G.crossed q) rest = _
      rw [if_neg hnot, i3, List.length_cons]; omega

/-- using existing slots in their order -/
theorem avail_old : ∀ (l : List ℕ) (ws st : ℕ) (G : Ghost), G.k + l.length ≤ G.qs.length →
    (∀ j, j < l.length → G.qs.getD (G.k + j) 0 = l.getD j 0) →
    Sieve.AvailAll ws st G l ∧ G.crossedAll l = ⟨G.L, G.n, G.qs, G.k + l.length⟩ ∧ Sieve.wsAfter ws G l = ws
  | [], ws, st, G, _, _ => by
    refine ⟨trivial, ?_, rfl⟩
    simp only [Ghost.crossedAll, List.length_nil, Nat.add_zero]
  | q :: rest, ws, st, G, hk, hq => by
    rw [List.length_cons] at hk
    have hlt : G.k < G.qs.length := by omega
    have hcr : G.crossed q = ⟨G.L, G.n, G.qs, G.k + 1⟩ := by
      unfold Ghost.crossed; rw [if_pos hlt]
    obtain ⟨i1, i2, i3⟩ := avail_old rest ws st (G.crossed q)
      (by rw [hcr]; show G.k + 1 + rest.length ≤ G.qs.length; omega)
      (by
        intro j hj
        rw [hcr]
        show G.qs.getD (G.k + 1 + j) 0 = rest.getD j 0
        have := hq (j + 1) (by rw [List.length_cons]; omega)
        rw [List.getD_cons_succ] at this
        rw [← this]; congr 1; omega)
    refine ⟨?_, ?_, ?_⟩
    · unfold Sieve.AvailAll
      rw [if_pos hlt]
      refine ⟨Or.inl ⟨hlt, ?_⟩, i1⟩
      have := hq 0 (by rw [List.length_cons]; omega)
      rwa [Nat.add_zero, List.getD_cons_zero] at this
    · show (G.crossed q).crossedAll rest = _
      rw [i2, hcr]
      simp only [List.length_cons, Ghost.mk.injEq, true_and]
      omega
    · show Sieve.wsAfter (if G.k < G.qs.length then ws else ws + 1) (G.crossed q) rest = _
      rw [if_pos hlt, i3]

/-! ### one accepted call, in the shape the contract needs -/

theorem alignSegmentSize_of_dvd {seg : ℕ} (h : 240 ∣ seg) (hpos : 0 < seg) : Sieve.alignSegmentSize seg = seg := by
  obtain ⟨k, rfl⟩ := h
  unfold Sieve.alignSegmentSize
  simp only [bne_iff_ne, ne_eq, ite_not]
  have : max (240 * k) 240 = 240 * k := by omega
  rw [this, if_pos (by omega)]

theorem le_alignSegmentSize (n : ℕ) : n ≤ Sieve.alignSegmentSize n := by
  unfold Sieve.alignSegmentSize
  simp only [bne_iff_ne, ne_eq, ite_not]
  split <;> omega

/-- the constructor establishes the link with `specInit` -/
theorem runInv_create (cfg : Sieve.Cfg) (low seg : ℕ) (hlow : 30 ∣ low)
    (hsmall : Sieve.alignSegmentSize seg / 30 * 8 < Sieve.M32) :
    Sieve.RunInv (Sieve.create cfg low seg) (Sieve.specInit low seg) := by
  obtain ⟨e, he, hbytes⟩ := Sieve.counterBytes_pow2 low cfg.bci (by cases cfg <;> decide)
  unfold Sieve.create
  rw [hbytes]
  have hal : Sieve.alignSegmentSize seg % 240 = 0 := by
    unfold Sieve.alignSegmentSize
    simp only [bne_iff_ne, ne_eq, ite_not]
    split <;> omega
  refine ⟨rfl, ?_, ?_, ?_, ?_⟩
  · show (Array.replicate 4 (⟨0, 0⟩ : Sieve.Wheel)).size = 4
    rw [Array.size_replicate]
  · show (Array.replicate (Sieve.alignSegmentSize seg / 30) 0).size * 30 = Sieve.alignSegmentSize seg
    rw [Array.size_replicate]; omega
  · intro _
    exact ⟨Sieve.ready_new low seg e hlow he hsmall, rfl, rfl⟩
  · intro hh; exact absurd hh (by simp [Sieve.specInit])

/-- `pre_sieve(primes, c, L, L + n)` -/
theorem pre_step (cfg : Sieve.Cfg) (primes : Array ℕ) (σ : Sieve.State) (sp : SpecState) (c L n : ℕ)
    (hinv : Sieve.RunInv σ sp) (hn : 1 ≤ n) (hle : n ≤ sp.segSize)
    (hL : (if sp.inited = true then sp.G.L + sp.segSize else sp.G.L) = L)
    (hav : Sieve.AvailAll sp.ws sp.st ⟨L, n, sp.G.qs.take sp.G.k, 0⟩ (Sieve.preList primes c)) :
    Sieve.RunInv (Sieve.preSieve cfg σ primes c (L + n - L))
      { sp with G := (⟨L, n, sp.G.qs.take sp.G.k, 0⟩ : Ghost).crossedAll (Sieve.preList primes c),
                segSize := if n < sp.segSize then Sieve.alignSegmentSize n else sp.segSize,
                ws := Sieve.wsAfter sp.ws ⟨L, n, sp.G.qs.take sp.G.k, 0⟩ (Sieve.preList primes c),
                prevStop := 0, inited := true } := by
  subst hL
  have hspec : Sieve.specOp primes sp (.pre c (if sp.inited = true then sp.G.L + sp.segSize else sp.G.L)
      ((if sp.inited = true then sp.G.L + sp.segSize else sp.G.L) + n)) = some
      ({ sp with
          G := (⟨if sp.inited = true then sp.G.L + sp.segSize else sp.G.L, n, sp.G.qs.take sp.G.k, 0⟩ : Ghost).crossedAll
            (Sieve.preList primes c),
          segSize := if n < sp.segSize then Sieve.alignSegmentSize n else sp.segSize,
          ws := Sieve.wsAfter sp.ws ⟨if sp.inited = true then sp.G.L + sp.segSize else sp.G.L, n, sp.G.qs.take sp.G.k, 0⟩
            (Sieve.preList primes c),
          prevStop := 0, inited := true }, none) := by
    unfold Sieve.specOp
    simp only [Nat.add_sub_cancel_left]
    rw [if_pos ⟨by omega, hle, trivial, hav⟩]
  have := (Sieve.step_correct cfg primes σ sp _ _ _ hinv hspec).2
  exact this

/-- `cross_off_count(q, 4 + k)` -/
theorem cross_step (σ : Sieve.State) (sp : SpecState) (q : ℕ)
    (hinv : Sieve.RunInv σ sp) (hin : sp.inited = true) (hav : Sieve.AvailP sp.ws sp.st sp.G q) :
    Sieve.RunInv (Sieve.crossOffCount σ q (4 + sp.G.k))
      { sp with G := sp.G.crossed q, ws := if sp.G.k < sp.G.qs.length then sp.ws else sp.ws + 1, prevStop := 0 } := by
  have hspec : Sieve.specOp #[] sp (.crossCount q (4 + sp.G.k)) = some
      ({ sp with G := sp.G.crossed q, ws := if sp.G.k < sp.G.qs.length then sp.ws else sp.ws + 1, prevStop := 0 },
        none) := by
    unfold Sieve.specOp
    simp only []
    rw [if_pos ⟨hin, trivial, hav⟩]
  exact (Sieve.step_correct .popcnt #[] σ sp _ _ _ hinv hspec).2

/-- `count(stop)` -/
theorem count_step (f : Sieve.StopFn) (σ : Sieve.State) (sp : SpecState) (stop : ℕ)
    (hinv : Sieve.RunInv σ sp) (hin : sp.inited = true) (h1 : sp.prevStop ≤ stop) (h2 : stop < sp.segSize) :
    (Sieve.countStop f σ stop).2 = Sieve.specCount sp.G.L sp.G.n (sp.G.qs.take sp.G.k) 0 stop ∧
    Sieve.RunInv (Sieve.countStop f σ stop).1 { sp with prevStop := stop } := by
  have hspec : Sieve.specOp #[] sp (.count f stop) = some
      ({ sp with prevStop := stop }, some (Sieve.specCount sp.G.L sp.G.n (sp.G.qs.take sp.G.k) 0 stop)) := by
    unfold Sieve.specOp
    simp only []
    rw [if_pos ⟨hin, h1, h2⟩]
  obtain ⟨a, b⟩ := Sieve.step_correct .popcnt #[] σ sp _ _ _ hinv hspec
  exact ⟨Option.some.inj a, b⟩

/-- `get_total_count()` -/
theorem total_step (σ : Sieve.State) (sp : SpecState) (hinv : Sieve.RunInv σ sp) (hin : sp.inited = true) :
    σ.totalCount = Sieve.specCount sp.G.L sp.G.n (sp.G.qs.take sp.G.k) 0 (sp.segSize - 1) := by
  have hspec : Sieve.specOp #[] sp .total = some
      (sp, some (Sieve.specCount sp.G.L sp.G.n (sp.G.qs.take sp.G.k) 0 (sp.segSize - 1))) := by
    unfold Sieve.specOp
    simp only []
    rw [if_pos hin]
  exact Option.some.inj (Sieve.step_correct .popcnt #[] σ sp _ _ _ hinv hspec).1

/-! ### the invariants -/

/-- ghost data of the segment `[L, L + n)` under the engine discipline: the slots `4 … lvl` hold `p 4 … p lvl` and are
    crossed off; either the object is in its first segment and has no further slot (a new one may be created), or its
    slot list is exactly `p 4 … p K` -/
structure SegInv (Kmax : ℕ) (sp : SpecState) (L n lvl K prev seg : ℕ) : Prop where
  inited : sp.inited = true
  hL : sp.G.L = L
  hn : sp.G.n = n
  hprev : sp.prevStop = prev
  n1 : 1 ≤ n
  nle : n ≤ sp.segSize
  full : n = seg → sp.segSize = seg
  lvlK : lvl ≤ K
  KK : K ≤ Kmax
  hk : sp.G.k + 3 = lvl
  hqs : sp.G.qs.take sp.G.k = plist lvl
  slots : (sp.G.k = sp.G.qs.length ∧ sp.ws = 4 + sp.G.qs.length ∧ sp.G.L = sp.st) ∨ sp.G.qs = plist K

/-- `Seg` of the concrete sieve -/
def SegC (Kmax : ℕ) (s : Sieve.State) (L n lvl K prev seg : ℕ) : Prop :=
  ∃ sp, Sieve.RunInv s sp ∧ SegInv Kmax sp L n lvl K prev seg

/-- `Ready` of the concrete sieve: fresh object (any slot `≤ Kmax` can be created in the first segment), or the
    segment before `L` is finished with the levels `4 … K` crossed off -/
def ReadyC (Kmax : ℕ) (s : Sieve.State) (L K seg : ℕ) : Prop :=
  K ≤ Kmax ∧ ∃ sp, Sieve.RunInv s sp ∧ sp.segSize = seg ∧
    ((sp.inited = false ∧ sp.G.L = L ∧ sp.st = L ∧ sp.ws = 4) ∨
     (sp.inited = true ∧ sp.G.L + seg = L ∧ sp.G.k + 3 = K ∧ sp.G.qs.take sp.G.k = plist K))

/-- admissible constructor arguments (every LoadBalancerS2 work item: `low` a multiple of 240, `segment_size` a positive
    multiple of 240; the array has fewer than 2^29 bytes) -/
def SegOKC (low seg : ℕ) : Prop := 30 ∣ low ∧ 240 ∣ seg ∧ 0 < seg ∧ seg / 30 * 8 < 2 ^ 32

section
variable (primes : Array ℕ) (Kmax : ℕ) (hp : ∀ i, 4 ≤ i → i ≤ Kmax → primes.getD i 0 = Spec.p i)
  (h32 : Spec.p Kmax < 2 ^ 32)
include hp

theorem preList_eq {c : ℕ} (hc : c ≤ Kmax) : Sieve.preList primes c = plist c := by
  unfold Sieve.preList plist
  have e : c + 1 - 4 = c - 3 := by omega
  rw [e]
  apply List.map_congr_left
  intro j hj
  rw [List.mem_range] at hj
  exact hp (4 + j) (by omega) (by omega)

omit hp
include h32

theorem p_ok {i : ℕ} (h4 : 4 ≤ i) (hi : i ≤ Kmax) : Nat.gcd (Spec.p i) 30 = 1 ∧ Spec.p i < Sieve.M32 := by
  refine ⟨p_coprime30 h4, ?_⟩
  have := Spec.p_le_p hi
  show _ < 2 ^ 32
  omega

theorem plist_ok {c : ℕ} (hc : c ≤ Kmax) : ∀ q ∈ plist c, Nat.gcd q 30 = 1 ∧ q < Sieve.M32 := by
  intro q hq
  obtain ⟨i, h1, h2, rfl⟩ := mem_plist.mp hq
  exact p_ok Kmax h32 h1 (by omega)

end

theorem create_ready_c (cfg : Sieve.Cfg) (Kmax low seg : ℕ) (h : SegOKC low seg) :
    ReadyC Kmax (Sieve.create cfg low seg) low Kmax seg := by
  obtain ⟨h1, h2, h3, h4⟩ := h
  have hal := alignSegmentSize_of_dvd h2 h3
  refine ⟨le_rfl, Sieve.specInit low seg, runInv_create cfg low seg h1 (by rw [hal]; exact h4), hal,
    Or.inl ⟨rfl, rfl, rfl, rfl⟩⟩

theorem pre_seg_c (cfg : Sieve.Cfg) (primes : Array ℕ) (Kmax : ℕ)
    (hp : ∀ i, 4 ≤ i → i ≤ Kmax → primes.getD i 0 = Spec.p i) (h32 : Spec.p Kmax < 2 ^ 32)
    (s : Sieve.State) (L K seg c n : ℕ) (hr : ReadyC Kmax s L K seg) (hc3 : 3 ≤ c) (hcK : c ≤ K) (hn1 : 1 ≤ n)
    (hns : n ≤ seg) : SegC Kmax (Sieve.preSieve cfg s primes c (L + n - L)) L n c K 0 seg := by
  obtain ⟨hK, sp, hinv, hseg, hcase⟩ := hr
  have hpl : Sieve.preList primes c = plist c := preList_eq primes Kmax hp (by omega)
  have hsegle : n ≤ (if n < sp.segSize then Sieve.alignSegmentSize n else sp.segSize) := by
    split
    · exact le_alignSegmentSize n
    · omega
  have hfull : n = seg → (if n < sp.segSize then Sieve.alignSegmentSize n else sp.segSize) = seg := by
    intro e; rw [if_neg (by omega)]; exact hseg
  rcases hcase with ⟨hin, hL, hst, hws⟩ | ⟨hin, hL, hk, hqs⟩
  · obtain ⟨_, hk0, hqs0⟩ := hinv.pre hin
    have htake : sp.G.qs.take sp.G.k = [] := by rw [hqs0]; exact List.take_nil
    obtain ⟨a1, a2, a3⟩ := avail_new (plist c) 4 L ⟨L, n, [], 0⟩ rfl rfl rfl (plist_ok Kmax h32 (by omega))
    have a2' : (⟨L, n, [], 0⟩ : Ghost).crossedAll (plist c) = ⟨L, n, plist c, c - 3⟩ := by
      rw [a2]; simp only [List.nil_append, Nat.zero_add, plist_length]
    have hrun := pre_step cfg primes s sp c L n hinv hn1 (by omega) (by rw [hin]; exact hL)
      (by rw [htake, hws, hst, hpl]; exact a1)
    rw [htake, hpl, a2', hws, a3] at hrun
    refine ⟨_, hrun, ?_⟩
    exact
      { inited := rfl, hL := rfl, hn := rfl, hprev := rfl, n1 := hn1, nle := hsegle, full := hfull, lvlK := hcK,
        KK := hK, hk := by show c - 3 + 3 = c; omega
        hqs := by
          show List.take (c - 3) (plist c) = plist c
          exact List.take_of_length_le (by rw [plist_length])
        slots := Or.inl ⟨by show c - 3 = (plist c).length; rw [plist_length],
          by show 4 + (plist c).length = 4 + (plist c).length; rfl, hst.symm⟩ }
  · obtain ⟨a1, a2, a3⟩ := avail_old (plist c) sp.ws sp.st ⟨L, n, plist K, 0⟩
      (by show 0 + (plist c).length ≤ (plist K).length; rw [plist_length, plist_length]; omega)
      (by
        intro j hj
        rw [plist_length] at hj
        show (plist K).getD (0 + j) 0 = _
        rw [Nat.zero_add, plist_getD (by omega), plist_getD hj])
    have a2' : (⟨L, n, plist K, 0⟩ : Ghost).crossedAll (plist c) = ⟨L, n, plist K, c - 3⟩ := by
      rw [a2]; simp only [Nat.zero_add, plist_length]
    have hrun := pre_step cfg primes s sp c L n hinv hn1 (by omega)
      (by rw [hin, if_pos rfl, hseg]; exact hL) (by rw [hqs, hpl]; exact a1)
    rw [hqs, hpl, a2', a3] at hrun
    refine ⟨_, hrun, ?_⟩
    exact
      { inited := rfl, hL := rfl, hn := rfl, hprev := rfl, n1 := hn1, nle := hsegle, full := hfull, lvlK := hcK,
        KK := hK, hk := by show c - 3 + 3 = c; omega
        hqs := by
          show List.take (c - 3) (plist K) = plist c
          exact plist_take hcK
        slots := Or.inr rfl }

theorem count_c (Kmax : ℕ) (f : Sieve.StopFn) (s : Sieve.State) (L n lvl K prev seg stop : ℕ)
    (h : SegC Kmax s L n lvl K prev seg) (h1 : prev ≤ stop) (h2 : stop < n) :
    (Sieve.countStop f s stop).2 = cnt L lvl stop ∧ SegC Kmax (Sieve.countStop f s stop).1 L n lvl K stop seg := by
  obtain ⟨sp, hinv, hs⟩ := h
  obtain ⟨c1, c2⟩ := count_step f s sp stop hinv hs.inited (by rw [hs.hprev]; exact h1)
    (lt_of_lt_of_le h2 hs.nle)
  constructor
  · rw [c1, hs.hL, hs.hn, hs.hqs]
    exact specCount_eq_cnt (by have := hs.hk; omega) L n stop h2
  · exact ⟨_, c2, { hs with hprev := rfl }⟩

theorem total_c (Kmax : ℕ) (s : Sieve.State) (L n lvl K prev seg : ℕ) (h : SegC Kmax s L n lvl K prev seg) :
    s.totalCount = cnt L lvl (n - 1) := by
  obtain ⟨sp, hinv, hs⟩ := h
  rw [total_step s sp hinv hs.inited, hs.hL, hs.hn, hs.hqs]
  exact specCount_total (by have := hs.hk; omega) L n sp.segSize hs.n1 hs.nle

theorem cross_seg_c (Kmax : ℕ) (h32 : Spec.p Kmax < 2 ^ 32) (s : Sieve.State) (L n lvl K prev seg : ℕ)
    (h : SegC Kmax s L n lvl K prev seg) (hlK : lvl + 1 ≤ K) :
    SegC Kmax (Sieve.crossOffCount s (Spec.p (lvl + 1)) (lvl + 1)) L n (lvl + 1) K 0 seg := by
  obtain ⟨sp, hinv, hs⟩ := h
  have hk := hs.hk
  have hKK := hs.KK
  have e : 4 + sp.G.k = lvl + 1 := by omega
  rcases hs.slots with ⟨s1, s2, s3⟩ | hB
  · have hnot : ¬ sp.G.k < sp.G.qs.length := by omega
    have hav : Sieve.AvailP sp.ws sp.st sp.G (Spec.p (lvl + 1)) :=
      Or.inr ⟨s1, s2, s3, p_ok Kmax h32 (by omega) (by omega)⟩
    have hrun := cross_step s sp (Spec.p (lvl + 1)) hinv hs.inited hav
    have hcr : sp.G.crossed (Spec.p (lvl + 1)) = ⟨sp.G.L, sp.G.n, plist (lvl + 1), sp.G.k + 1⟩ := by
      unfold Ghost.crossed
      rw [if_neg hnot, plist_succ (by omega), ← hs.hqs, List.take_of_length_le (by omega)]
    rw [hcr, if_neg hnot, e] at hrun
    refine ⟨_, hrun, ?_⟩
    exact
      { inited := hs.inited, hL := hs.hL, hn := hs.hn, hprev := rfl, n1 := hs.n1, nle := hs.nle, full := hs.full,
        lvlK := hlK, KK := hs.KK, hk := by show sp.G.k + 1 + 3 = lvl + 1; omega
        hqs := by
          show List.take (sp.G.k + 1) (plist (lvl + 1)) = plist (lvl + 1)
          exact List.take_of_length_le (by rw [plist_length]; omega)
        slots := Or.inl ⟨by show sp.G.k + 1 = (plist (lvl + 1)).length; rw [plist_length]; omega,
          by show sp.ws + 1 = 4 + (plist (lvl + 1)).length; rw [plist_length]; omega, s3⟩ }
  · have hlen : sp.G.qs.length = K - 3 := by rw [hB, plist_length]
    have hlt : sp.G.k < sp.G.qs.length := by omega
    have hav : Sieve.AvailP sp.ws sp.st sp.G (Spec.p (lvl + 1)) := by
      refine Or.inl ⟨hlt, ?_⟩
      rw [hB, plist_getD (by omega), e]
    have hrun := cross_step s sp (Spec.p (lvl + 1)) hinv hs.inited hav
    have hcr : sp.G.crossed (Spec.p (lvl + 1)) = ⟨sp.G.L, sp.G.n, plist K, sp.G.k + 1⟩ := by
      unfold Ghost.crossed
      rw [if_pos hlt, hB]
    rw [hcr, if_pos hlt, e] at hrun
    refine ⟨_, hrun, ?_⟩
    exact
      { inited := hs.inited, hL := hs.hL, hn := hs.hn, hprev := rfl, n1 := hs.n1, nle := hs.nle, full := hs.full,
        lvlK := hlK, KK := hs.KK, hk := by show sp.G.k + 1 + 3 = lvl + 1; omega
        hqs := by
          show List.take (sp.G.k + 1) (plist K) = plist (lvl + 1)
          have : sp.G.k + 1 = lvl + 1 - 3 := by omega
          rw [this]; exact plist_take hlK
        slots := Or.inr rfl }

theorem next_ready_c (Kmax : ℕ) (s : Sieve.State) (L lvl K prev seg : ℕ) (h : SegC Kmax s L seg lvl K prev seg) :
    ReadyC Kmax s (L + seg) lvl seg := by
  obtain ⟨sp, hinv, hs⟩ := h
  exact ⟨le_trans hs.lvlK hs.KK, sp, hinv, hs.full rfl, Or.inr ⟨hs.inited, by rw [hs.hL], hs.hk, hs.hqs⟩⟩

/-- **The bit-exact model of `class Sieve` satisfies the counting contract of the hard-leaf engines**, for every CPU
    configuration `cfg`, every inline `count(stop)` body `f`, and every `primes` array that holds the primes
    `p 4 … p Kmax` (all `< 2^32`, the `uint32_t` entries of `wheel_`). -/
noncomputable def concreteSieve_spec (cfg : Sieve.Cfg) (f : Sieve.StopFn) (primes : Array ℕ) (Kmax : ℕ)
    (hp : ∀ i, 4 ≤ i → i ≤ Kmax → primes.getD i 0 = Spec.p i) (h32 : Spec.p Kmax < 2 ^ 32) :
    SieveSpec (concreteSieve cfg f primes) Kmax where
  segOK := SegOKC
  Ready := ReadyC Kmax
  Seg := SegC Kmax
  create_ready := fun low seg _ h => create_ready_c cfg Kmax low seg h
  pre_seg := fun s L K seg c n hr h3 hcK h1 hn => pre_seg_c cfg primes Kmax hp h32 s L K seg c n hr h3 hcK h1 hn
  count_val := fun s L n lvl K prev seg stop h h1 h2 => (count_c Kmax f s L n lvl K prev seg stop h h1 h2).1
  count_seg := fun s L n lvl K prev seg stop h h1 h2 => (count_c Kmax f s L n lvl K prev seg stop h h1 h2).2
  total_val := fun s L n lvl K prev seg h => total_c Kmax s L n lvl K prev seg h
  cross_seg := fun s L n lvl K prev seg h hl => cross_seg_c Kmax h32 s L n lvl K prev seg h hl
  next_ready := fun s L lvl K prev seg h => next_ready_c Kmax s L lvl K prev seg h

theorem concreteSieve_spec_segOK (cfg : Sieve.Cfg) (f : Sieve.StopFn) (primes : Array ℕ) (Kmax : ℕ)
    (hp : ∀ i, 4 ≤ i → i ≤ Kmax → primes.getD i 0 = Spec.p i) (h32 : Spec.p Kmax < 2 ^ 32) (low seg : ℕ) :
    (concreteSieve_spec cfg f primes Kmax hp h32).segOK low seg ↔
      30 ∣ low ∧ 240 ∣ seg ∧ 0 < seg ∧ seg / 30 * 8 < 2 ^ 32 := Iff.rfl

/-! ### the hypotheses are satisfiable, and the contract composes -/

theorem p_nine : Spec.p 9 = 23 := Spec.p_eq_of_count (by norm_num) (by decide)

/-- `primes[0..9]` as `generate_primes` returns it -/
def exPrimes : Array ℕ := #[0, 2, 3, 5, 7, 11, 13, 17, 19, 23]

theorem exPrimes_ok : ∀ i, 4 ≤ i → i ≤ 9 → exPrimes.getD i 0 = Spec.p i := by
  intro i h4 h9
  have : i = 4 ∨ i = 5 ∨ i = 6 ∨ i = 7 ∨ i = 8 ∨ i = 9 := by omega
  rcases this with rfl | rfl | rfl | rfl | rfl | rfl
  · rw [Spec.p_four]; rfl
  · rw [Spec.p_five]; rfl
  · rw [Spec.p_six]; rfl
  · rw [Spec.p_seven]; rfl
  · rw [Spec.p_eight]; rfl
  · rw [p_nine]; rfl

/-- the hypotheses of `concreteSieve_spec` hold for a real `primes` vector -/
noncomputable example : SieveSpec (concreteSieve .avx512 .avx512 exPrimes) 9 :=
  concreteSieve_spec .avx512 .avx512 exPrimes 9 exPrimes_ok (by rw [p_nine]; norm_num)

/-- the fields compose on a concrete history: construct at `low = 480` with `segment_size = 240`, `pre_sieve(c = 4)`,
    `count(100)`, cross off level 5, `count(7)`, `get_total_count()`, next segment, `pre_sieve(c = 3)`, cross off
    levels 4 and 5, `count(239)`: every returned value is the `φ`-difference `cnt` -/
example (cfg : Sieve.Cfg) (f : Sieve.StopFn) :
    let S := concreteSieve cfg f exPrimes
    let s0 := S.create 480 240 0
    let s1 := S.pre s0 4 480 (480 + 240)
    let s2 := (S.count s1 100).1
    let s3 := S.cross s2 (Spec.p 5) 5
    let s4 := (S.count s3 7).1
    let s5 := S.pre s4 3 (480 + 240) (480 + 240 + 240)
    let s6 := S.cross (S.cross s5 (Spec.p 4) 4) (Spec.p 5) 5
    (S.count s1 100).2 = cnt 480 4 100 ∧ (S.count s3 7).2 = cnt 480 5 7 ∧ S.total s4 = cnt 480 5 239 ∧
      (S.count s6 239).2 = cnt 720 5 239 := by
  intro S s0 s1 s2 s3 s4 s5 s6
  obtain ⟨H, hOK⟩ : ∃ H : SieveSpec (concreteSieve cfg f exPrimes) 9,
      ∀ low seg, H.segOK low seg ↔ 30 ∣ low ∧ 240 ∣ seg ∧ 0 < seg ∧ seg / 30 * 8 < 2 ^ 32 :=
    ⟨concreteSieve_spec cfg f exPrimes 9 exPrimes_ok (by rw [p_nine]; norm_num), fun _ _ => Iff.rfl⟩
  have r0 : H.Ready s0 480 9 240 := H.create_ready 480 240 0
    ((hOK 480 240).mpr ⟨by decide, by decide, by decide, by decide⟩)
  have g1 : H.Seg s1 480 240 4 9 0 240 := H.pre_seg s0 480 9 240 4 240 r0 (by omega) (by omega) (by omega) le_rfl
  have g2 : H.Seg s2 480 240 4 9 100 240 := H.count_seg s1 480 240 4 9 0 240 100 g1 (by omega) (by omega)
  have g3 : H.Seg s3 480 240 5 9 0 240 := H.cross_seg s2 480 240 4 9 100 240 g2 (by omega)
  have g4 : H.Seg s4 480 240 5 9 7 240 := H.count_seg s3 480 240 5 9 0 240 7 g3 (by omega) (by omega)
  have r4 : H.Ready s4 (480 + 240) 5 240 := H.next_ready s4 480 5 9 7 240 g4
  have g5 : H.Seg s5 (480 + 240) 240 3 5 0 240 :=
    H.pre_seg s4 (480 + 240) 5 240 3 240 r4 le_rfl (by omega) (by omega) le_rfl
  have g6 : H.Seg s6 (480 + 240) 240 5 5 0 240 :=
    H.cross_seg _ _ _ 4 _ _ _ (H.cross_seg s5 _ _ 3 _ _ _ g5 (by omega)) (by omega)
  exact ⟨H.count_val s1 480 240 4 9 0 240 100 g1 (by omega) (by omega),
    H.count_val s3 480 240 5 9 0 240 7 g3 (by omega) (by omega),
    H.total_val s4 480 240 5 9 7 240 g4,
    H.count_val s6 (480 + 240) 240 5 5 0 240 239 g6 (by omega) (by omega)⟩

end Pc.Hard

#print axioms Pc.Hard.concreteSieve_spec
#print axioms Pc.Hard.specCount_eq_cnt
