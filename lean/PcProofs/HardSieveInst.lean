/-
WP hard: the concrete bit-exact model of `class Sieve` (PcModel/Sieve.lean) satisfies the abstract counting contract
`SieveSpec` the hard-leaf engines are proved against (PcProofs/HardSieve.lean).

Every field is one application of C17's `step_correct` (PcProofs/Sieve/Run.lean): the invariants `Ready` / `Seg` say that
the object is linked (`RunInv`) to a state of the specification machine whose ghost data are the ones the engine
discipline produces (slots `4 … lvl` hold `p 4 … p lvl`; new slots are created only in the first segment; in later
segments only slots crossed off in the previous segment are used), and the naive count `specCount` is turned into
`cnt` by PcProofs/HardSieveCnt.lean.

STATEMENT of `SieveSpec` (PcProofs/HardSieve.lean): unchanged.
`segOK low seg := 30 ∣ low ∧ 240 ∣ seg ∧ 0 < seg ∧ seg / 30 * 8 < 2 ^ 32` (`concreteSieve_spec_segOK`).
-/
import PcProofs.HardSieveCnt

namespace Pc.Hard
open Pc.Sieve (Ghost SpecState Op)

/-! ### the availability bookkeeping of the specification machine, for the two ways the engines use slots -/

/-- creating new slots at the end of the slot list (first segment) -/
theorem avail_new : ∀ (l : List ℕ) (ws st : ℕ) (G : Ghost), G.k = G.qs.length → ws = 4 + G.qs.length → G.L = st →
    (∀ q ∈ l, Nat.gcd q 30 = 1 ∧ q < Sieve.M32) →
    Sieve.AvailAll ws st G l ∧ G.crossedAll l = ⟨G.L, G.n, G.qs ++ l, G.k + l.length⟩ ∧
      Sieve.wsAfter ws G l = ws + l.length
  | [], ws, st, G, _, _, _, _ => by
    refine ⟨trivial, ?_, rfl⟩
    simp only [Ghost.crossedAll, List.append_nil, List.length_nil, Nat.add_zero]
  | q :: rest, ws, st, G, hk, hws, hL, hq => by
    have hnot : ¬ G.k < G.qs.length := by omega
    have hcr : G.crossed q = ⟨G.L, G.n, G.qs ++ [q], G.k + 1⟩ := by
      unfold Ghost.crossed; rw [if_neg hnot]
    obtain ⟨i1, i2, i3⟩ := avail_new rest (ws + 1) st (G.crossed q)
      (by rw [hcr]; simp only [List.length_append, List.length_singleton]; omega)
      (by rw [hcr]; simp only [List.length_append, List.length_singleton]; omega)
      (by rw [hcr]; exact hL) (fun q' h => hq q' (List.mem_cons_of_mem _ h))
    refine ⟨?_, ?_, ?_⟩
    · unfold Sieve.AvailAll
      rw [if_neg hnot]
      exact ⟨Or.inr ⟨hk, hws, hL, hq q List.mem_cons_self⟩, i1⟩
    · show (G.crossed q).crossedAll rest = _
      rw [i2, hcr]
      simp only [List.append_assoc, List.singleton_append, List.length_cons, Ghost.mk.injEq, true_and]
      omega
    · show Sieve.wsAfter (if G.k < G.qs.length then ws else ws + 1) (G.crossed q) rest = _
      rw [if_neg hnot, i3, List.length_cons]; omega

/-- using existing slots in their order -/
theorem avail_old : ∀ (l : List ℕ) (ws st : ℕ) (G : Ghost), G.k + l.length ≤ G.qs.length →
    (∀ j, j < l.length → G.qs.getD (G.k + j) 0 = l.getD j 0) →
    Sieve.AvailAll ws st G l ∧ G.crossedAll l = ⟨G.L, G.n, G.qs, G.k + l.length⟩ ∧ Sieve.wsAfter ws G l = ws
  | [], ws, st, G, _, _ => by
    refine ⟨trivial, ?_, rfl⟩
    simp only [Ghost.crossedAll, List.length_nil, Nat.add_zero]
  | q :: rest, ws, st, G, hk, hq => by
    rw [List.length_cons] at hk
    have hlt : G.k < G.qs.length := by omega
    have hcr : G.crossed q = ⟨G.L, G.n, G.qs, G.k + 1⟩ := by
      unfold Ghost.crossed; rw [if_pos hlt]
    obtain ⟨i1, i2, i3⟩ := avail_old rest ws st (G.crossed q)
      (by rw [hcr]; show G.k + 1 + rest.length ≤ G.qs.length; omega)
      (by
        intro j hj
        rw [hcr]
        show G.qs.getD (G.k + 1 + j) 0 = rest.getD j 0
        have := hq (j + 1) (by rw [List.length_cons]; omega)
        rw [List.getD_cons_succ] at this
        rw [← this]; congr 1; omega)
    refine ⟨?_, ?_, ?_⟩
    · unfold Sieve.AvailAll
      rw [if_pos hlt]
      refine ⟨Or.inl ⟨hlt, ?_⟩, i1⟩
      have := hq 0 (by rw [List.length_cons]; omega)
      rwa [Nat.add_zero, List.getD_cons_zero] at this
    · show (G.crossed q).crossedAll rest = _
      rw [i2, hcr]
      simp only [List.length_cons, Ghost.mk.injEq, true_and]
      omega
    · show Sieve.wsAfter (if G.k < G.qs.length then ws else ws + 1) (G.crossed q) rest = _
      rw [if_pos hlt, i3]

/-! ### one accepted call, in the shape the contract needs -/

theorem alignSegmentSize_of_dvd {seg : ℕ} (h : 240 ∣ seg) (hpos : 0 < seg) : Sieve.alignSegmentSize seg = seg := by
  obtain ⟨k, rfl⟩ := h
  unfold Sieve.alignSegmentSize
  simp only [bne_iff_ne, ne_eq, ite_not]
  have : max (240 * k) 240 = 240 * k := by omega
  rw [this, if_pos (by omega)]

theorem le_alignSegmentSize (n : ℕ) : n ≤ Sieve.alignSegmentSize n := by
  unfold Sieve.alignSegmentSize
  simp only [bne_iff_ne, ne_eq, ite_not]
  split <;> omega

/-- the constructor establishes the link with `specInit` -/
theorem runInv_create (cfg : Sieve.Cfg) (low seg : ℕ) (hlow : 30 ∣ low)
    (hsmall : Sieve.alignSegmentSize seg / 30 * 8 < Sieve.M32) :
    Sieve.RunInv (Sieve.create cfg low seg) (Sieve.specInit low seg) := by
  obtain ⟨e, he, hbytes⟩ := Sieve.counterBytes_pow2 low cfg.bci (by cases cfg <;> decide)
  unfold Sieve.create
  rw [hbytes]
  have hal : Sieve.alignSegmentSize seg % 240 = 0 := by
    unfold Sieve.alignSegmentSize
    simp only [bne_iff_ne, ne_eq, ite_not]
    split <;> omega
  refine ⟨rfl, ?_, ?_, ?_, ?_⟩
  · show (Array.replicate 4 (⟨0, 0⟩ : Sieve.Wheel)).size = 4
    rw [Array.size_replicate]
  · show (Array.replicate (Sieve.alignSegmentSize seg / 30) 0).size * 30 = Sieve.alignSegmentSize seg
    rw [Array.size_replicate]; omega
  · intro _
    exact ⟨Sieve.ready_new low seg e hlow he hsmall, rfl, rfl⟩
  · intro hh; exact absurd hh (by simp [Sieve.specInit])

/-- `pre_sieve(primes, c, L, L + n)` -/
theorem pre_step (cfg : Sieve.Cfg) (primes : Array ℕ) (σ : Sieve.State) (sp : SpecState) (c L n : ℕ)
    (hinv : Sieve.RunInv σ sp) (hn : 1 ≤ n) (hle : n ≤ sp.segSize)
    (hL : (if sp.inited = true then sp.G.L + sp.segSize else sp.G.L) = L)
    (hav : Sieve.AvailAll sp.ws sp.st ⟨L, n, sp.G.qs.take sp.G.k, 0⟩ (Sieve.preList primes c)) :
    Sieve.RunInv (Sieve.preSieve cfg σ primes c (L + n - L))
      { sp with G := (⟨L, n, sp.G.qs.take sp.G.k, 0⟩ : Ghost).crossedAll (Sieve.preList primes c),
                segSize := if n < sp.segSize then Sieve.alignSegmentSize n else sp.segSize,
                ws := Sieve.wsAfter sp.ws ⟨L, n, sp.G.qs.take sp.G.k, 0⟩ (Sieve.preList primes c),
                prevStop := 0, inited := true } := by
  subst hL
  have hspec : Sieve.specOp primes sp (.pre c (if sp.inited = true then sp.G.L + sp.segSize else sp.G.L)
      ((if sp.inited = true then sp.G.L + sp.segSize else sp.G.L) + n)) = some
      ({ sp with
          G := (⟨if sp.inited = true then sp.G.L + sp.segSize else sp.G.L, n, sp.G.qs.take sp.G.k, 0⟩ : Ghost).crossedAll
            (Sieve.preList primes c),
          segSize := if n < sp.segSize then Sieve.alignSegmentSize n else sp.segSize,
          ws := Sieve.wsAfter sp.ws ⟨if sp.inited = true then sp.G.L + sp.segSize else sp.G.L, n, sp.G.qs.take sp.G.k, 0⟩
            (Sieve.preList primes c),
          prevStop := 0, inited := true }, none) := by
    unfold Sieve.specOp
    simp only [Nat.add_sub_cancel_left]
    rw [if_pos ⟨by omega, hle, trivial, hav⟩]
  have := (Sieve.step_correct cfg primes σ sp _ _ _ hinv hspec).2
  exact this

/-- `cross_off_count(q, 4 + k)` -/
theorem cross_step (σ : Sieve.State) (sp : SpecState) (q : ℕ)
    (hinv : Sieve.RunInv σ sp) (hin : sp.inited = true) (hav : Sieve.AvailP sp.ws sp.st sp.G q) :
    Sieve.RunInv (Sieve.crossOffCount σ q (4 + sp.G.k))
      { sp with G := sp.G.crossed q, ws := if sp.G.k < sp.G.qs.length then sp.ws else sp.ws + 1, prevStop := 0 } := by
  have hspec : Sieve.specOp #[] sp (.crossCount q (4 + sp.G.k)) = some
      ({ sp with G := sp.G.crossed q, ws := if sp.G.k < sp.G.qs.length then sp.ws else sp.ws + 1, prevStop := 0 },
        none) := by
    unfold Sieve.specOp
    simp only []
    rw [if_pos ⟨hin, trivial, hav⟩]
  exact (Sieve.step_correct .popcnt #[] σ sp _ _ _ hinv hspec).2

/-- `count(stop)` -/
theorem count_step (f : Sieve.StopFn) (σ : Sieve.State) (sp : SpecState) (stop : ℕ)
    (hinv : Sieve.RunInv σ sp) (hin : sp.inited = true) (h1 : sp.prevStop ≤ stop) (h2 : stop < sp.segSize) :
    (Sieve.countStop f σ stop).2 = Sieve.specCount sp.G.L sp.G.n (sp.G.qs.take sp.G.k) 0 stop ∧
    Sieve.RunInv (Sieve.countStop f σ stop).1 { sp with prevStop := stop } := by
  have hspec : Sieve.specOp #[] sp (.count f stop) = some
      ({ sp with prevStop := stop }, some (Sieve.specCount sp.G.L sp.G.n (sp.G.qs.take sp.G.k) 0 stop)) := by
    unfold Sieve.specOp
    simp only []
    rw [if_pos ⟨hin, h1, h2⟩]
  obtain ⟨a, b⟩ := Sieve.step_correct .popcnt #[] σ sp _ _ _ hinv hspec
  exact ⟨Option.some.inj a, b⟩

/-- `get_total_count()` -/
theorem total_step (σ : Sieve.State) (sp : SpecState) (hinv : Sieve.RunInv σ sp) (hin : sp.inited = true) :
    σ.totalCount = Sieve.specCount sp.G.L sp.G.n (sp.G.qs.take sp.G.k) 0 (sp.segSize - 1) := by
  have hspec : Sieve.specOp #[] sp .total = some
      (sp, some (Sieve.specCount sp.G.L sp.G.n (sp.G.qs.take sp.G.k) 0 (sp.segSize - 1))) := by
    unfold Sieve.specOp
    simp only []
    rw [if_pos hin]
  exact Option.some.inj (Sieve.step_correct .popcnt #[] σ sp _ _ _ hinv hspec).1

end Pc.Hard
