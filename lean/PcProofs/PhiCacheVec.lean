/-
C07/C17 (WP phicache) — `phi_vector` with its real `PhiCache` (`phiVectorS`, PcModel/PhiCache.lean) equals the
L1 model `PhiVec.phiVector` with the pure inner function `−φ`, for which C17Sieve proves `phi[i] = φ(x, i − 1)`.
-/
import PcProofs.PhiCacheRec
import PcModel.PhiVector

namespace Pc.PhiCacheProofs
open Nat Pc Pc.PhiCacheL2 Pc.Spec Pc.PhiAlgProofs Classical
open scoped Nat.Prime

theorem vecLoop1S_eq {E : PhiEnv} {A : ℕ} (hE : BaseOK E A) (sqrtX x a : ℕ) (hsq : sqrtX ≤ x) (haA : a ≤ A) :
    ∀ fuel i (acc : List ℤ) (st : State), Inv st → 2 ≤ i →
      (vecLoop1S E sqrtX x a fuel i acc st).1
        = PhiVec.loop1 E.prime sqrtX (fun y b => -(phi y b : ℤ)) x a fuel i acc := by
  intro fuel
  induction fuel with
  | zero => intro i acc st _ _; rfl
  | succ fuel ih =>
    intro i acc st hinv hi
    simp only [vecLoop1S, PhiVec.loop1]
    by_cases hc : i ≤ a ∧ E.prime (i - 1) ≤ sqrtX
    · rw [if_pos hc, if_pos hc]
      have hpi : E.prime (i - 1) = p (i - 1) := hE.prime (i - 1) (by omega) (by omega)
      have hpos : 0 < p (i - 1) := by have := Spec.two_le_p (i - 1); omega
      have hy : 1 ≤ x / E.prime (i - 1) := by
        rw [hpi]; exact (Nat.one_le_div_iff hpos).2 (by rw [← hpi]; omega)
      obtain ⟨r1, r2, _, _⟩ := phiRecS_correct hE i (-1) (x / E.prime (i - 1)) (i - 2) st hinv (by omega)
        (by omega) hy
      rw [ih (i + 1) _ _ r2 (by omega), r1]
      simp
    · rw [if_neg hc, if_neg hc]

/-- `phi_vector` on the real cache = the L1 model with inner function `−φ` -/
theorem phiVectorS_eq {E : PhiEnv} {A : ℕ} (hE : BaseOK E A) (piX x a : ℕ) (haA : a ≤ A) (hpiA : piX ≤ A) :
    phiVectorS E piX (Nat.sqrt x) x a
      = PhiVec.phiVector E.prime piX (Nat.sqrt x) (fun y b => -(phi y b : ℤ)) x a := by
  unfold phiVectorS PhiVec.phiVector
  by_cases h : a + 1 > 1
  · rw [if_pos h, if_pos h]
    dsimp only
    rw [vecLoop1S_eq hE (Nat.sqrt x) x _ (Nat.sqrt_le_self x) (by split <;> omega) (a + 1) 2 _ _ (new_inv _ _) le_rfl]
  · rw [if_neg h, if_neg h]

end Pc.PhiCacheProofs
