/-
C12 (magnitude half), part 3: the checked derivation evaluates to the unchecked one when the side conditions hold
(`gourdonL2_ok`, `drL2_ok`), and `xStarL2` is the `x⋆` of the spec library.
-/
import PcProofs.ParamsL2Range
import PcProofs.Spec.GourdonXstar

namespace Pc

theorem castI64_ok {t : ℤ} (h1 : i64Min ≤ t) (h2 : t ≤ i64Max) : castI64 t = .ok t := by
  unfold castI64; rw [if_pos ⟨h1, h2⟩]
theorem narrowI64_ok {t : ℤ} (h1 : i64Min ≤ t) (h2 : t ≤ i64Max) : narrowI64 t = .ok t := by
  unfold narrowI64; rw [if_pos ⟨h1, h2⟩]
theorem castI128_ok {t : ℤ} (h1 : i128Min ≤ t) (h2 : t ≤ i128Max) : castI128 t = .ok t := by
  unfold castI128; rw [if_pos ⟨h1, h2⟩]
theorem chkI128_ok {t : ℤ} (h1 : i128Min ≤ t) (h2 : t ≤ i128Max) : chkI128 t = .ok t := by
  unfold chkI128; rw [if_pos ⟨h1, h2⟩]
theorem castInt_ok {t : ℤ} (h1 : intMin ≤ t) (h2 : t ≤ intMax) : castInt t = .ok t := by
  unfold castInt; rw [if_pos ⟨h1, h2⟩]

theorem i64Min_neg : i64Min ≤ 0 := by unfold i64Min; norm_num
theorem i64Max_eq : i64Max = 2 ^ 63 - 1 := rfl

/-- `get_x_star_gourdon(x, y)` in checked arithmetic is the `x⋆` of the spec library whenever `1 ≤ y < 2^63`,
    `x < 2^125` and `⌈x / y²⌉` fits (x < 64 or x < y³) -/
theorem xStarL2_ok {x n : ℕ} (hn1 : 1 ≤ n) (hn : (n : ℤ) ≤ i64Max) (hx : x < 2 ^ 125) (hxy : x < 64 ∨ x < n ^ 3) :
    xStarL2 x (n : ℤ) = .ok ((Spec.xstar x n (irootN 4 x) : ℕ) : ℤ) := by
  have hn63 : n < 2 ^ 63 := by unfold i64Max at hn; omega
  have hnn : n * n < 2 ^ 126 := by
    calc n * n < 2 ^ 63 * 2 ^ 63 := Nat.mul_lt_mul'' hn63 hn63
      _ = 2 ^ 126 := by norm_num
  have hnn1 : 1 ≤ n * n := Nat.mul_pos hn1 hn1
  have hmax : max (n : ℤ) 1 = (n : ℤ) := max_eq_left (by exact_mod_cast hn1)
  have hyy : chkI128 ((n : ℤ) * (n : ℤ)) = .ok ((n * n : ℕ) : ℤ) := by
    rw [chkI128_ok]
    · push_cast; rfl
    · have : (0 : ℤ) ≤ (n : ℤ) * (n : ℤ) := by positivity
      unfold i128Min; omega
    · unfold i128Max; have : ((n * n : ℕ) : ℤ) < 2 ^ 126 := by exact_mod_cast hnn
      push_cast at this; omega
  have hnum : chkI128 ((x : ℤ) + ((n * n : ℕ) : ℤ) - 1) = .ok ((x + n * n - 1 : ℕ) : ℤ) := by
    have e : (x : ℤ) + ((n * n : ℕ) : ℤ) - 1 = ((x + n * n - 1 : ℕ) : ℤ) := by
      rw [Nat.cast_sub (by omega)]; push_cast; ring
    rw [e, chkI128_ok]
    · have : (0 : ℤ) ≤ ((x + n * n - 1 : ℕ) : ℤ) := by positivity
      unfold i128Min; omega
    · unfold i128Max
      have : x + n * n - 1 < 2 ^ 127 := by omega
      have : ((x + n * n - 1 : ℕ) : ℤ) < 2 ^ 127 := by exact_mod_cast this
      omega
  -- ⌈x / n²⌉ ≤ max 63 n
  have hceil : (x + n * n - 1) / (n * n) ≤ max 63 n := by
    rcases hxy with h | h
    · apply le_trans _ (le_max_left _ _)
      rw [Nat.div_le_iff_le_mul_add_pred hnn1]
      generalize n * n = m at hnn1 ⊢
      omega
    · apply le_trans _ (le_max_right _ _)
      rw [Nat.div_le_iff_le_mul_add_pred hnn1]
      have h3 : n ^ 3 = n * n * n := by ring
      rw [h3] at h
      generalize hm : n * n = m at hnn1 h ⊢
      generalize m * n = t at h ⊢
      omega
  have hr4 : irootN 4 x < 2 ^ 32 :=
    iroot_lt_of_lt (by norm_num) (lt_trans hx (by norm_num))
  have hxs : narrowI64 (max ((irootN 4 x : ℕ) : ℤ) (((x + n * n - 1 : ℕ) : ℤ) / ((n * n : ℕ) : ℤ))) =
      .ok ((max (irootN 4 x) ((x + n * n - 1) / (n * n)) : ℕ) : ℤ) := by
    have e : max ((irootN 4 x : ℕ) : ℤ) (((x + n * n - 1 : ℕ) : ℤ) / ((n * n : ℕ) : ℤ)) =
        ((max (irootN 4 x) ((x + n * n - 1) / (n * n)) : ℕ) : ℤ) := by
      rw [Nat.cast_max, Int.natCast_ediv]
    rw [e, narrowI64_ok]
    · exact le_trans i64Min_neg (by positivity)
    · have : max (irootN 4 x) ((x + n * n - 1) / (n * n)) < 2 ^ 63 := by
        apply max_lt (lt_trans hr4 (by norm_num))
        exact lt_of_le_of_lt hceil (max_lt (by norm_num) hn63)
      have : ((max (irootN 4 x) ((x + n * n - 1) / (n * n)) : ℕ) : ℤ) < 2 ^ 63 := by exact_mod_cast this
      unfold i64Max; omega
  have hsq : narrowI64 ((isqrtN (x / (n : ℤ).toNat) : ℕ) : ℤ) = .ok ((Nat.sqrt (x / n) : ℕ) : ℤ) := by
    rw [Int.toNat_natCast, isqrtN_eq, narrowI64_ok]
    · exact le_trans i64Min_neg (by positivity)
    · have h1 : Nat.sqrt (x / n) ≤ x / n := Nat.sqrt_le_self _
      have h2 : x / n ≤ x := Nat.div_le_self _ _
      have h3 : Nat.sqrt (x / n) < 2 ^ 63 := by
        apply Nat.sqrt_lt.2
        calc x / n ≤ x := h2
          _ < 2 ^ 125 := hx
          _ < 2 ^ 63 * 2 ^ 63 := by norm_num
      have : ((Nat.sqrt (x / n) : ℕ) : ℤ) < 2 ^ 63 := by exact_mod_cast h3
      unfold i64Max; omega
  unfold xStarL2
  simp only [hmax, hyy, hnum, hxs, hsq, bind, Except.bind, pure, Except.pure]
  unfold Spec.xstar
  push_cast
  rfl

/-! ### evaluation of the checked derivations -/

/-- the record `gourdonL2` returns when no check fails -/
def gOutPure (wide : Bool) (x : ℕ) (threads : ℤ) (fo : GFloats) : GOut :=
  let y := gY x fo.v
  let w := fo.w y
  let z := gZ x y w
  let xs : ℤ := ((Spec.xstar x y.toNat (irootN 4 x) : ℕ) : ℤ)
  let xz := (x : ℤ) / z
  let map : ℤ := ((isqrtN (x / xs.toNat) : ℕ) : ℤ)
  let mt := fo.mt xz
  { x13 := irootN 3 x, sqrtx := isqrtN x, v := fo.v, y := y, k := getK x, w := w, z := z, xStar := xs,
    xy := (x : ℤ) / y, xz := xz, sqrtz := isqrtN z.toNat, sqrtxy := isqrtN (x / y.toNat), maxAPrime := map,
    ft16 := if wide then decide (z ≤ (factorTableMax 16 : ℤ)) else true,
    prim32 := if wide then decide (max map y ≤ 2 ^ 32 - 1) else true,
    maxThreads := mt, thrD := idealNumThreads xz (min threads mt) (2 ^ 20),
    thrAC := idealNumThreads (irootN 3 x) (min threads mt) 1000 }

theorem gourdonL2_ok (wide : Bool) (x : ℕ) (threads : ℤ) (fo : GFloats)
    (hlim : wide = true → i128Min ≤ fo.maxX ∧ fo.maxX ≤ i128Max ∧ (x : ℤ) ≤ fo.maxX)
    (hc : ((irootN 3 x : ℕ) : ℤ) ≤ i64Max) (hs : ((isqrtN x : ℕ) : ℤ) ≤ i64Max)
    (hv : i64Min ≤ fo.v ∧ fo.v ≤ i64Max)
    (hw : i64Min ≤ fo.w (gY x fo.v) ∧ fo.w (gY x fo.v) ≤ i64Max)
    (hxs : xStarL2 x (gY x fo.v) = .ok (((Spec.xstar x (gY x fo.v).toNat (irootN 4 x) : ℕ)) : ℤ))
    (hxy : i64Min ≤ (x : ℤ) / gY x fo.v ∧ (x : ℤ) / gY x fo.v ≤ i64Max)
    (hxz : i64Min ≤ (x : ℤ) / gZ x (gY x fo.v) (fo.w (gY x fo.v)) ∧ (x : ℤ) / gZ x (gY x fo.v) (fo.w (gY x fo.v)) ≤ i64Max)
    (hmap : ((isqrtN (x / (Spec.xstar x (gY x fo.v).toNat (irootN 4 x))) : ℕ) : ℤ) ≤ i64Max)
    (hft16 : wide = false → gZ x (gY x fo.v) (fo.w (gY x fo.v)) ≤ (factorTableMax 16 : ℤ))
    (hft32 : gZ x (gY x fo.v) (fo.w (gY x fo.v)) ≤ (factorTableMax 32 : ℤ))
    (hmt : intMin ≤ fo.mt ((x : ℤ) / gZ x (gY x fo.v) (fo.w (gY x fo.v))) ∧
           fo.mt ((x : ℤ) / gZ x (gY x fo.v) (fo.w (gY x fo.v))) ≤ intMax) :
    gourdonL2 wide x threads fo = .ok (gOutPure wide x threads fo) := by
  have h0 : ∀ n : ℕ, i64Min ≤ (n : ℤ) := fun n => le_trans i64Min_neg (by positivity)
  have hy' : gY x fo.v = max (min (max fo.v ((irootN 3 x : ℤ) + 1)) ((isqrtN x : ℤ) - 1)) 1 := rfl
  have hz' : ∀ y w : ℤ, gZ x y w = max (min (max w y) ((isqrtN x : ℤ) - 1)) 1 := fun _ _ => rfl
  unfold gOutPure gourdonL2
  simp only [hy', hz'] at hw hxs hxy hxz hmap hft16 hft32 hmt ⊢
  cases wide
  · have hz := hft16 rfl
    simp only [Bool.false_eq_true, if_false, narrowI64_ok (h0 _) hc, narrowI64_ok (h0 _) hs, castI64_ok hv.1 hv.2,
      castI64_ok hw.1 hw.2, hxs, narrowI64_ok hxy.1 hxy.2, narrowI64_ok hxz.1 hxz.2, Int.toNat_natCast,
      narrowI64_ok (h0 _) hmap, castInt_ok hmt.1 hmt.2,
      bind, Except.bind, pure, Except.pure]
    rw [if_neg (by intro h; exact absurd hz (not_le.2 h.2)), if_neg (not_lt.2 hft32)]
  · obtain ⟨l1, l2, l3⟩ := hlim rfl
    simp only [if_true, castI128_ok l1 l2, narrowI64_ok (h0 _) hc, narrowI64_ok (h0 _) hs, castI64_ok hv.1 hv.2,
      castI64_ok hw.1 hw.2, hxs, narrowI64_ok hxy.1 hxy.2, narrowI64_ok hxz.1 hxz.2, Int.toNat_natCast,
      narrowI64_ok (h0 _) hmap, castInt_ok hmt.1 hmt.2,
      bind, Except.bind, pure, Except.pure]
    rw [if_neg (not_lt.2 l3)]
    simp only [Bool.not_true, Bool.false_eq_true, not_true_eq_false, false_and, if_false]
    rw [if_neg (not_lt.2 hft32)]

end Pc
