/-
WP top (item 3): the chunk theorems of the two S2 functions with `class Sieve`.

* `lmoF x y c (lo, hi)` : ALL special leaves of the levels `(c, π y]` located in `[lo, hi)` (`= hardF` at the cut `y * y`);
  additive; `lmoF_full : lmoF x y c (0, x / y) = Spec.S2 x y c`; `lmoF_clip`: no leaf sits at `x / y` or beyond, so the
  `z + 1` of pi_lmo_parallel.cpp:65 and the dispenser's `z` give the same value;
* `lmoParThread_eq` : `S2_thread` on EVERY work item returns `lmoF` of its window — `min_b` / `max_b` lose no leaf
  (`lmo_pruned`: `y - 1` instead of `y` is sound because level `π(y)` has no leaf, `WS2_top_zero`);
* `s2Lmo5_eq` : the file-local `S2` of pi_lmo5.cpp returns `lmoF x y c (0, x / y)`, for EVERY segment size its caller computes.
-/
import PcProofs.TopLmoLeaves
import PcProofs.HardS2Total

namespace Pc.TopLmo
open Nat Finset
open Pc.Hard
open scoped Nat.Prime ArithmeticFunction.Moebius

local notation "p" => Spec.p
local notation "φ" => Spec.phi

variable {σ : Type} {S : SieveOps σ}

/-- all special leaves of the levels `(c, π y]` located in the window `[lo, hi)` -/
noncomputable def lmoF (x y c : ℕ) (w : LB.Chunk) : ℤ := hardF x y (y * y) c w

theorem lmoF_additive (x y c : ℕ) : LB.Additive (lmoF x y c) := hardF_additive x y (y * y) c

/-- level `b > π√y`, whole window: all two-prime leaves -/
theorem W2_full_nocut {x y b : ℕ} (hy : 1 ≤ y) (hyx : y * y ≤ x) (hb1 : 1 ≤ b) (hbs : π (Nat.sqrt y) < b) :
    W2 x y (y * y) b 0 (x / y) = ∑ j ∈ Ioc b (π y), (φ (x / (p b * p j)) (b - 1) : ℤ) := by
  have hqs : Nat.sqrt y < p b := (Spec.lt_p_iff hb1).2 hbs
  have hsq : y < p b * p b := Nat.sqrt_lt.1 hqs
  unfold W2
  rw [Finset.sum_filter]
  apply Finset.sum_congr rfl
  intro j hj
  rw [mem_Ioc] at hj
  have hj1 : 1 ≤ j := by omega
  have hlt : p b < p j := Spec.p_lt_p hb1 hj.1
  have hpjy : p j ≤ y := (Spec.p_le_iff hj1).2 hj.2
  have hgt : y < p b * p j := lt_of_lt_of_le hsq (Nat.mul_le_mul_left _ hlt.le)
  rw [if_pos (Nat.mul_le_mul (by omega) hpjy),
    if_pos ⟨Nat.zero_le _, Pc.SimpleAlgs.leaf_pos_lt_limit hy hyx hgt⟩]

/-- **the window `[0, x / y)` holds every special leaf** -/
theorem lmoF_full {x y c : ℕ} (hy : 1 ≤ y) (hyx : y * y ≤ x) : lmoF x y c (0, x / y) = Spec.S2 x y c := by
  unfold lmoF hardF Spec.S2 Spec.spec
  rw [← Finset.sum_neg_distrib]
  apply Finset.sum_congr rfl
  intro b hb
  rw [mem_Ioc] at hb
  have hb1 : 1 ≤ b := by omega
  unfold WS2
  by_cases hbs : b ≤ π (Nat.sqrt y)
  · rw [if_pos hbs]
    exact W1_full hy hyx hb1 hbs
  · rw [if_neg hbs, W2_full_nocut hy hyx hb1 (by omega), Spec.specTerm_beyond_sqrt (by omega) hb.2, neg_neg]

/-- no leaf sits at `x / y` or beyond -/
theorem WS2_clip {x y zz b lo a : ℕ} (hy : 1 ≤ y) (hyx : y * y ≤ x) (hb1 : 1 ≤ b) :
    WS2 x y zz b lo (min a (x / y + 1)) = WS2 x y zz b lo (min a (x / y)) := by
  have hq0 := Spec.p_pos b
  have key : ∀ v, v < x / y → ∀ r : ℤ,
      (if lo ≤ v ∧ v < min a (x / y + 1) then r else 0) = (if lo ≤ v ∧ v < min a (x / y) then r else 0) := by
    intro v hv r
    have : (lo ≤ v ∧ v < min a (x / y + 1)) ↔ (lo ≤ v ∧ v < min a (x / y)) := by omega
    rw [if_congr this rfl rfl]
  unfold WS2
  split_ifs with hs
  · unfold W1
    congr 1
    apply Finset.sum_congr rfl
    intro m hm
    rw [mem_filter, mem_Ioc] at hm
    have hgt : y < p b * m := by
      have := (Nat.div_lt_iff_lt_mul hq0).1 hm.1.1
      rw [Nat.mul_comm]; exact this
    exact key _ (Pc.SimpleAlgs.leaf_pos_lt_limit hy hyx hgt) _
  · unfold W2
    apply Finset.sum_congr rfl
    intro j hj
    rw [mem_filter, mem_Ioc] at hj
    have hqs : Nat.sqrt y < p b := (Spec.lt_p_iff hb1).2 (by omega)
    have hsq : y < p b * p b := Nat.sqrt_lt.1 hqs
    have hlt : p b < p j := Spec.p_lt_p hb1 hj.1.1
    have hgt : y < p b * p j := lt_of_lt_of_le hsq (Nat.mul_le_mul_left _ hlt.le)
    exact key _ (Pc.SimpleAlgs.leaf_pos_lt_limit hy hyx hgt) _

theorem lmoF_clip {x y c lo a : ℕ} (hy : 1 ≤ y) (hyx : y * y ≤ x) :
    lmoF x y c (lo, min a (x / y + 1)) = lmoF x y c (lo, min a (x / y)) := by
  unfold lmoF hardF
  apply Finset.sum_congr rfl
  intro b hb
  rw [mem_Ioc] at hb
  exact WS2_clip hy hyx (by omega)

/-- level `π(y)` has no special leaf: a leaf needs a prime factor in `(p_b, y]` -/
theorem WS2_top_zero {x y zz lo hi : ℕ} (h1 : 1 ≤ π y) : WS2 x y zz (π y) lo hi = 0 := by
  unfold WS2
  split_ifs with hs
  · unfold W1
    rw [Finset.sum_eq_zero, neg_zero]
    intro m hm
    exfalso
    rw [mem_filter, mem_Ioc] at hm
    obtain ⟨⟨_, hmy⟩, hg⟩ := hm
    have hm0 := good_pos hg
    have hm1 : m ≠ 1 := by
      intro h; subst h
      have := hg.2; rw [Nat.minFac_one] at this
      have := Spec.two_le_p (π y); omega
    have hmf := Nat.minFac_prime hm1
    have h2 : π y < π m.minFac := (Spec.lt_pi_iff_p_lt h1 hmf).2 hg.2
    have h3 : π m.minFac ≤ π y := Spec.pi_mono (le_trans (Nat.minFac_le hm0) hmy)
    omega
  · unfold W2
    rw [Finset.Ioc_self, Finset.filter_empty, Finset.sum_empty]

/-- **`min_b` / `max_b` of pi_lmo_parallel.cpp lose no leaf** -/
theorem lmo_pruned {x y b low limit a2 : ℕ} (hy : 1 ≤ y) (hyx : y * y ≤ x)
    (hb1 : 1 ≤ b) (hby : b ≤ π y) (hlim : 1 ≤ limit) (ha2 : a2 ≤ x / y / limit)
    (hout : π (min (Nat.sqrt (x / max low 1)) (y - 1)) < b ∨ b ≤ π a2) : WS2 x y (y * y) b low limit = 0 := by
  have hq0 := Spec.p_pos b
  have hqy : p b ≤ y := (Spec.p_le_iff hb1).2 hby
  apply WS2_zero_of_no_leaf hb1
  intro m hm0 hmy hqm _ hw
  have hpm0 : 0 < p b * m := Nat.mul_pos hq0 hm0
  have hpos : 1 ≤ x / (p b * m) := pos_of_leaf hyx hqy hmy hq0 hm0
  rcases hout with hgt | hle
  · have hlt : min (Nat.sqrt (x / max low 1)) (y - 1) < p b := (Spec.lt_p_iff hb1).2 hgt
    have h1 : Nat.sqrt (x / max low 1) < p b := by
      by_contra hc
      have : y - 1 < p b := by omega
      omega
    -- p_b² · low1 > x: every leaf of the level lies below low
    have h2 : x / max low 1 < p b * p b := Nat.sqrt_lt.1 h1
    have h3 : x < p b * p b * max low 1 := (Nat.div_lt_iff_lt_mul (by omega)).1 h2
    have h4 : p b * p b * max low 1 ≤ p b * m * max low 1 :=
      Nat.mul_le_mul_right _ (Nat.mul_le_mul_left _ hqm.le)
    have h5 : x / (p b * m) < max low 1 := by
      rw [Nat.div_lt_iff_lt_mul hpm0, Nat.mul_comm]; omega
    omega
  · -- p_b ≤ z / limit: every leaf lies at or beyond limit
    have h1 : p b ≤ a2 := (Spec.p_le_iff hb1).2 hle
    have h2 : p b * limit ≤ x / y := (Nat.le_div_iff_mul_le (by omega : 0 < limit)).1 (le_trans h1 ha2)
    have : limit ≤ x / (p b * m) := by
      rw [Nat.le_div_iff_mul_le hpm0]
      calc limit * (p b * m) = p b * limit * m := by ring
        _ ≤ x / y * y := Nat.mul_le_mul h2 hmy
        _ ≤ x := Nat.div_mul_le_self x y
    omega

/-- **the chunk theorem of `S2_thread`** (pi_lmo_parallel.cpp:49-146).  For EVERY work item `(low, segments, segment_size)` with
    `low ≤ z = x / y`, `low` even, sizes `≥ 1` and a sieve that accepts `(low, segment_size)`, every `1 ≤ y`, `y² ≤ x`, `3 ≤ c`
    (or no level at all: `π y ≤ c`), with the tables of `pi_lmo_parallel`: the model returns — without any out-of-bounds read —
    the special leaves of the levels `(c, π y]` whose position lies in `[low, min(low + segment_size·segments, z + 1))`. -/
theorem lmoParThread_eq {L : LmoEnv} {x y c low segments segSize : ℕ}
    (hS : ∀ K, K ≤ π y → ∃ H : SieveSpec S K, H.segOK low segSize)
    (hL : LmoOK L y) (hy : 1 ≤ y) (hyx : y * y ≤ x) (hc : 3 ≤ c ∨ π y ≤ c) (heven : 2 ∣ low)
    (hsz : 1 ≤ segSize) (hsegs : 1 ≤ segments) (hlow : low ≤ x / y) :
    lmoParThread S L x y (x / y) c low segments segSize =
      .ok (lmoF x y c (low, lmoLimit low segments segSize (x / y))) := by
  have hE := hL.env
  unfold lmoParThread lmoF hardF
  simp only []
  set limit := lmoLimit low segments segSize (x / y) with hlimit
  have hlim1 : low < limit := by
    rw [hlimit]; unfold lmoLimit; rw [lt_min_iff]
    have : segSize * 1 ≤ segSize * segments := Nat.mul_le_mul_left _ hsegs
    omega
  have hsy : Nat.sqrt y ≤ y := Nat.sqrt_le_self y
  rw [hE.piMax, isqrtN_eq y, isqrtN_eq (x / max low 1), if_neg (by omega), if_neg (by omega)]
  set maxArg := min (Nat.sqrt (x / max low 1)) (y - 1) with hmaxArg
  have hmaxArgY : maxArg ≤ y := le_trans (min_le_right _ _) (by omega)
  rw [if_neg (by omega), hE.pi_eq maxArg hmaxArgY, hE.pi_eq _ hsy, if_neg (by omega)]
  have hmaxBy : π maxArg ≤ π y := Spec.pi_mono hmaxArgY
  rw [hE.primesSize, if_neg (by omega)]
  have hprimeY : L.e.primes (π maxArg) ≤ y := by
    rcases Nat.eq_zero_or_pos (π maxArg) with h0 | h0
    · rw [h0, hE.primes_zero]; exact Nat.zero_le _
    · rw [hE.primes_eq _ h0 hmaxBy]; exact le_trans (Spec.p_pi_le h0) hmaxArgY
  set a2 := min (x / y / limit) (L.e.primes (π maxArg)) with ha2
  have ha2Y : a2 ≤ y := le_trans (min_le_right _ _) hprimeY
  rw [if_neg (by omega), hE.pi_eq a2 ha2Y]
  -- the levels outside [min_b, max_b] have no leaf in the window
  have hprune : ∀ b ∈ Ioc c (π y), b ∉ Icc (max c (π a2) + 1) (π maxArg) → WS2 x y (y * y) b low limit = 0 := by
    intro b hb hnot
    rw [mem_Ioc] at hb
    rw [mem_Icc] at hnot
    have hb1 : 1 ≤ b := by omega
    have hl1 : 1 ≤ limit := by omega
    have ha2le : a2 ≤ x / y / limit := by rw [ha2]; exact min_le_left _ _
    refine lmo_pruned (a2 := a2) hy hyx hb1 hb.2 hl1 ha2le ?_
    by_cases h1 : b ≤ π maxArg
    · right
      have : ¬ (max c (π a2) + 1 ≤ b) := fun h => hnot ⟨h, h1⟩
      have := le_max_right c (π a2)
      omega
    · left; show π maxArg < b; omega
  have hsub : Icc (max c (π a2) + 1) (π maxArg) ⊆ Ioc c (π y) := by
    intro b hb
    rw [mem_Icc] at hb
    rw [mem_Ioc]
    omega
  show _ = Except.ok (∑ b ∈ Ioc c (π y), WS2 x y (y * y) b low limit)
  rw [← Finset.sum_subset hsub hprune]
  by_cases hempty : max c (π a2) + 1 > π maxArg
  · rw [if_pos hempty, Finset.Icc_eq_empty (by omega), Finset.sum_empty]
  · rw [if_neg hempty]
    have hc3 : 3 ≤ c := by
      rcases hc with h | h
      · exact h
      · omega
    obtain ⟨H, hOK⟩ := hS (π maxArg) hmaxBy
    have hLv := lmo_lvspec (x := x) (sel := min (π (Nat.sqrt y)) (π maxArg)) (minB := max c (π a2) + 1)
      (maxB := π maxArg) (low0 := low) (limit := limit) hL hyx (by omega) hmaxBy
      (fun b _ hb => by rw [le_min_iff]; exact ⟨fun h => h.1, fun h => ⟨h, hb⟩⟩)
    have hprime : ∀ b, max c (π a2) + 1 ≤ b → b ≤ π maxArg → L.e.primes b = p b :=
      fun b h1 h2 => hE.primes_eq b (by omega) (le_trans h2 hmaxBy)
    have hrun := segLoop_spec H hLv hprime (by omega) hsz limit low (π maxArg + 1) (S.create low segSize (π maxArg))
      (L.e.phiVec low (π maxArg)) 0 (by omega) le_rfl (by omega) le_rfl
      (by rw [Nat.add_sub_cancel]; exact H.create_ready low segSize _ hOK)
      (hE.phiVec_size _ _)
      (fun b h1 h2 => by
        rw [hE.phiVec_eq low (π maxArg) b hmaxBy (by omega) (by omega), phi_even heven (by omega)])
      (fun b h1 h2 => by omega)
    rw [hrun, zero_add, Nat.max_eq_right hlim1.le]

/-! ### pi_lmo5.cpp -/

/-- no level: the segment loop only advances -/
theorem segLoop_no_level {lv : ℕ → ℕ → ℕ → Except Err (Option (List (ℕ × ℤ)))} {prime : ℕ → ℕ}
    {minB maxB limit segSize : ℕ} (hlv : maxB < minB) (hseg : 1 ≤ segSize) :
    ∀ (fuel lo : ℕ) (s : σ) (phi : Array ℤ) (sum : ℤ), limit ≤ lo + fuel →
      segLoop S lv prime minB maxB limit segSize fuel lo s phi sum = .ok sum := by
  intro fuel
  induction fuel with
  | zero => intro lo s phi sum h; exact segLoop_done (by omega) 0 s phi sum
  | succ fuel ih =>
    intro lo s phi sum h
    by_cases hlt : lo < limit
    · have h0 : maxB + 1 - minB = 0 := by omega
      rw [segLoop, if_pos hlt, h0, levelLoop]
      exact ih _ _ _ _ (by omega)
    · exact segLoop_done (by omega) _ s phi sum

theorem alignSegmentSize_pos (n : ℕ) : 1 ≤ Sieve.alignSegmentSize n := by
  unfold Sieve.alignSegmentSize
  simp only []
  split_ifs <;> omega

/-- **the file-local `S2` of pi_lmo5.cpp** (lines 43-145) returns — without any out-of-bounds read — all special leaves of the
    levels `(c, π y]` (`1 ≤ y`, `y² ≤ x`, `3 ≤ c` or no level at all), for a sieve that accepts
    `(0, align_segment_size(isqrt(x / y)))` -/
theorem s2Lmo5_eq {L : LmoEnv} {x y c : ℕ}
    (hS : ∀ K, K ≤ π y → ∃ H : SieveSpec S K, H.segOK 0 (Sieve.alignSegmentSize (isqrtN (x / y))))
    (hL : LmoOK L y) (hy : 1 ≤ y) (hyx : y * y ≤ x) (hc : 3 ≤ c ∨ π y ≤ c) :
    s2Lmo5 S L x y c = .ok (lmoF x y c (0, x / y)) := by
  have hE := hL.env
  unfold s2Lmo5 lmoF hardF
  simp only []
  have hsy : Nat.sqrt y ≤ y := Nat.sqrt_le_self y
  rw [if_neg (by omega), hE.piMax, isqrtN_eq y, if_neg (by omega), hE.pi_eq _ hsy, hE.pi_eq y le_rfl]
  set segSize := Sieve.alignSegmentSize (isqrtN (x / y)) with hseg
  have hseg1 : 1 ≤ segSize := alignSegmentSize_pos _
  set maxB := max (π (Nat.sqrt y)) (π y - 1) with hmaxB
  have hmaxBy : maxB ≤ π y := by
    have := Spec.pi_mono hsy
    omega
  -- the levels beyond max_b: only `π y`, which has no leaf
  have hzero : ∀ b ∈ Ioc c (π y), b ∉ Icc (c + 1) maxB → WS2 x y (y * y) b 0 (x / y) = 0 := by
    intro b hb hnot
    rw [mem_Ioc] at hb
    rw [mem_Icc] at hnot
    have : b = π y := by omega
    subst this
    exact WS2_top_zero (by omega)
  have hsub : Icc (c + 1) maxB ⊆ Ioc c (π y) := by
    intro b hb
    rw [mem_Icc] at hb
    rw [mem_Ioc]
    omega
  show _ = Except.ok (∑ b ∈ Ioc c (π y), WS2 x y (y * y) b 0 (x / y))
  rw [← Finset.sum_subset hsub hzero]
  by_cases hempty : maxB < c + 1
  · rw [segLoop_no_level hempty hseg1 _ _ _ _ _ (by omega), Finset.Icc_eq_empty (by omega), Finset.sum_empty]
  · have hc3 : 3 ≤ c := by
      rcases hc with h | h
      · exact h
      · omega
    obtain ⟨H, hOK⟩ := hS maxB hmaxBy
    have hLv := lmo_lvspec (x := x) (sel := π (Nat.sqrt y)) (minB := c + 1) (maxB := maxB) (low0 := 0) (limit := x / y)
      hL hyx (by omega) hmaxBy (fun b _ _ => Iff.rfl)
    have hprime : ∀ b, c + 1 ≤ b → b ≤ maxB → L.e.primes b = p b :=
      fun b h1 h2 => hE.primes_eq b (by omega) (le_trans h2 hmaxBy)
    have hrun := segLoop_spec_ge H hLv hprime (by omega) hseg1 (x / y) 0 (maxB + 1) (S.create 0 segSize L.e.primesSize)
      (Array.replicate L.e.primesSize 0) 0 (by omega) le_rfl (by omega) le_rfl
      (by rw [Nat.add_sub_cancel]; exact H.create_ready 0 segSize _ hOK)
      (by rw [Array.size_replicate, hE.primesSize]; omega)
      (fun b h1 h2 => by
        rw [Nat.zero_sub, Spec.phi_zero_left]
        simp only [Array.getD_eq_getD_getElem?, Array.getElem?_replicate]
        split_ifs <;> rfl)
      (fun b h1 h2 => by omega)
    rw [hrun, zero_add, Nat.max_eq_right (Nat.zero_le _)]

end Pc.TopLmo
