/-
C08 (wp-ac2), A + C part 6: one segment of `AC_OpenMP` (AC.cpp:279-316, model `Pc.Easy.acSegment`) with its level pruning.

* `ACBounds`        what the tables / operand types must hold (all implied by the sizes `AC_OpenMP` itself chooses);
* `acPre_eq`        the values derived before the parallel region (`pi[y]`, `pi[isqrt(z)]`, `pi[iroot<3>(x / y)]`, …) are read in bounds;
* `sumRange_eq`     `for (b = lo; b <= hi; b++) sum += f(b)`;
* `acSegment_eq`    for EVERY segment `[low, high)`, `low < high ≤ ⌊√x⌋`: the C2 loop `min_c2 … max_c2` returns the sum of `c2Seg` over
                    ALL levels `max(k, π√z) < b ≤ π x⋆` and the A loop `min_a … max_a` the sum of `aSeg` over ALL levels
                    `π x⋆ < b ≤ π ⌊x^(1/3)⌋`: the pruned levels have no leaf in the segment.
-/
import PcProofs.EasyAC5

namespace Pc.Easy
open Nat Finset Classical
open scoped Nat.Prime

variable {t : NT}

/-- table / operand-type sizes under which `AC_OpenMP` runs without a trap -/
structure ACBounds (t : NT) (w : ITy) (x y z xs maxAPrime : ℕ) : Prop where
  hv : t.Valid
  hx127 : x < 2 ^ 127
  hxw : x ≤ w.maxVal
  hxy63 : x / y ≤ ITy.i64.maxVal
  hmaxA : Nat.sqrt (x / xs) ≤ maxAPrime
  hM63 : max z maxAPrime ≤ ITy.i64.maxVal
  hMb : max z maxAPrime ≤ t.bound
  hsb : Nat.sqrt x ≤ t.bound + 1

/-- the record `AC_OpenMP` computes before the parallel region -/
noncomputable def acPreVal (x y z maxAPrime : ℕ) : ACPre :=
  { x13 := irootN 3 x, sqrtx := isqrtN x, maxPi := max z maxAPrime, size := π (max maxAPrime y) + 1, piY := π y,
    piSqrtz := π (Nat.sqrt z), piRoot3xy := π (irootN 3 (x / y)), piRoot3xz := π (irootN 3 (x / z)) }

theorem iroot3_lt {n y : ℕ} (h : n < y ^ 3) : irootN 3 n < y := by
  by_contra hc
  push Not at hc
  have h1 := (irootN_spec 3 n (by omega)).1
  have h2 := Nat.pow_le_pow_left hc 3
  omega

theorem acPre_eq {w : ITy} {x y z k xs maxAPrime : ℕ} (g : Spec.GParams x y z k xs (irootN 3 x))
    (hb : ACBounds t w x y z xs maxAPrime) : acPre t x y z maxAPrime = .ok (acPreVal x y z maxAPrime) := by
  have hy1 := g.y_pos
  have hz1 : 1 ≤ z := le_trans hy1 g.hyz
  have hzM : z ≤ max z maxAPrime := le_max_left _ _
  have hyM : y ≤ max z maxAPrime := le_trans g.hyz hzM
  have hxyy : x / y < y ^ 3 := lt_of_le_of_lt (Nat.div_le_self _ _) g.hy3
  have hxzy : x / z < y ^ 3 := lt_of_le_of_lt (Nat.div_le_self _ _) g.hy3
  have hxz63 : x / z ≤ ITy.i64.maxVal := le_trans (Nat.div_le_div_left g.hyz hy1) hb.hxy63
  have hsize : max maxAPrime y ≤ t.bound := le_trans (max_le (le_max_right _ _) hyM) hb.hMb
  have r1 : Nat.sqrt z ≤ max z maxAPrime := le_trans (Nat.sqrt_le_self z) hzM
  have r2 : irootN 3 (x / y) ≤ max z maxAPrime := le_trans (iroot3_lt hxyy).le hyM
  have r3 : irootN 3 (x / z) ≤ max z maxAPrime := le_trans (iroot3_lt hxzy).le hyM
  unfold acPre
  rw [divE_ok (by omega), EM_bind_ok, narrowE_ok hb.hxy63, EM_bind_ok, divE_ok (by omega), EM_bind_ok, narrowE_ok hxz63,
    EM_bind_ok]
  simp only []
  rw [hb.hv.piOf_eq _ hsize, piGet_ok hb.hv hyM (le_trans hyM hb.hMb), EM_bind_ok, isqrtN_eq,
    piGet_ok hb.hv r1 (le_trans r1 hb.hMb), EM_bind_ok, piGet_ok hb.hv r2 (le_trans r2 hb.hMb), EM_bind_ok,
    piGet_ok hb.hv r3 (le_trans r3 hb.hMb), EM_bind_ok]
  unfold acPreVal
  rw [isqrtN_eq]
  rfl

/-- `for (b = lo; b <= hi; b++) sum += f(b)` -/
theorem sumRange_eq {f : ℕ → EM ℤ} {v : ℕ → ℤ} {lo hi : ℕ} (hlo : 1 ≤ lo) (h : ∀ b, lo ≤ b → b ≤ hi → f b = .ok (v b)) :
    sumRange f lo hi = .ok (∑ b ∈ Ioc (lo - 1) hi, v b) := by
  obtain ⟨c, rfl⟩ : ∃ c, lo = c + 1 := ⟨lo - 1, by omega⟩
  unfold sumRange
  have := foldlM_add_eq (body := fun b s => do let r ← f b; pure (s + r)) (v := v)
    (List.range' (c + 1) (hi + 1 - (c + 1))) 0 ?_
  · rw [sum_range'_eq, zero_add] at this
    rw [Nat.add_sub_cancel]
    exact this
  · intro b hb s
    rw [List.mem_range'_1] at hb
    try simp only []
    rw [h b (by omega) (by omega)]
    rfl

/-- facts about the parameters used all over -/
theorem gparams_facts {x y z k xs : ℕ} (g : Spec.GParams x y z k xs (irootN 3 x)) :
    1 ≤ y ∧ 1 ≤ x ∧ 1 ≤ xs ∧ xs ≤ irootN 3 x ∧ irootN 3 x < y ∧ xs * xs ≤ x / y ∧ xs * xs ≤ x := by
  have hy1 := g.y_pos
  have hx1 : 1 ≤ x := le_trans (Nat.mul_pos hy1 hy1) g.hy2
  have hxs1 : 1 ≤ xs := by
    rcases Nat.eq_zero_or_pos xs with h | h
    · have := g.hw4; rw [h] at this; simp at this; omega
    · exact h
  have h1 : xs * xs ≤ x / y := Nat.le_sqrt.1 g.hws
  exact ⟨hy1, hx1, hxs1, le_trans g.hws g.s_le_c3, g.c3_lt_y, h1, le_trans h1 (Nat.div_le_self _ _)⟩

theorem sqrt_lt_two64 {x : ℕ} (hx : x < 2 ^ 127) : Nat.sqrt x < 2 ^ 64 :=
  Nat.sqrt_lt.2 (lt_of_lt_of_le hx (by norm_num))

/-- **one C2 call of a segment**, any level `1 ≤ b ≤ π x⋆`, any kernel -/
theorem c2Call_eq (kk : Kern) {w : ITy} {x y z k xs maxAPrime : ℕ} (g : Spec.GParams x y z k xs (irootN 3 x))
    (hb : ACBounds t w x y z xs maxAPrime) {low high b : ℕ} (hlh : low < high) (hhs : high ≤ Nat.sqrt x)
    (hb1 : 1 ≤ b) (hbx : b ≤ π xs) :
    ∃ sc ss : ℤ, acC2Kernel kk t (π (max maxAPrime y) + 1) (max z maxAPrime) low high (x / max low 1) (x / high)
        (x / Spec.p b) y b (Spec.p b) = .ok (sc, ss) ∧ sc + ss = c2Seg x y b low high := by
  obtain ⟨hy1, hx1, hxs1, hxc, hcy, hxxy, hxx⟩ := gparams_facts g
  have hpb : Spec.p b ≤ xs := (Spec.p_le_iff hb1).2 hbx
  have hyM : y ≤ max z maxAPrime := le_trans g.hyz (le_max_left _ _)
  have hm64 : max z maxAPrime < 2 ^ 64 := lt_of_le_of_lt hb.hM63 (by decide)
  have hpp : Spec.p b * Spec.p b ≤ ITy.u64.maxVal :=
    le_trans (Nat.mul_le_mul hpb hpb) (le_trans hxxy (le_trans hb.hxy63 (by decide)))
  have hs64 : Nat.sqrt (x / Spec.p b) ≤ ITy.u64.maxVal := by
    have := sqrt_lt_two64 hb.hx127
    have h2 : Nat.sqrt (x / Spec.p b) ≤ Nat.sqrt x := Nat.sqrt_le_sqrt (Nat.div_le_self _ _)
    have h3 : ITy.u64.maxVal = 2 ^ 64 - 1 := by decide
    omega
  have h64 := sqrt_lt_two64 hb.hx127
  obtain ⟨sc, ss, e1, e2⟩ := acC2Kernel_eq kk hb.hv (low := low) (high := high) (x := x) (y := y) hb1 (by omega) hyM hb.hMb hm64
    (Nat.lt_succ_of_le (Spec.pi_mono (le_max_right _ _))) hpp hs64 (le_trans hhs hb.hsb) (by omega)
  refine ⟨sc, ss, e1, ?_⟩
  rw [e2, c2_interval_eq hb1 (by omega)]
  rfl

/-- **one A call of a segment**, any level `π x⋆ < b ≤ π ⌊x^(1/3)⌋`, any kernel -/
theorem aCall_eq (kk : Kern) {w : ITy} {x y z k xs maxAPrime : ℕ} (g : Spec.GParams x y z k xs (irootN 3 x))
    (hb : ACBounds t w x y z xs maxAPrime) {low high b : ℕ} (hlh : low < high) (hhs : high ≤ Nat.sqrt x)
    (hbx : π xs < b) (hbc : b ≤ π (irootN 3 x)) :
    acAKernel kk t (π (max maxAPrime y) + 1) (max z maxAPrime) low high (x / max low 1) (x / high) (x / Spec.p b) y (Spec.p b)
      = .ok (aSeg x y b low high) := by
  obtain ⟨hy1, hx1, hxs1, hxc, hcy, hxxy, hxx⟩ := gparams_facts g
  have hb1 : 1 ≤ b := by omega
  have hp0 := Spec.p_pos b
  have hcube := cube_le_of_le_iroot3 hb1 hbc
  have hps : Spec.p b ≤ Nat.sqrt (x / Spec.p b) := Nat.le_sqrt.2 ((Nat.le_div_iff_mul_le hp0).2 hcube)
  have hxp : xs < Spec.p b := (Spec.lt_p_iff hb1).2 hbx
  have hsm' : Nat.sqrt (x / Spec.p b) ≤ maxAPrime :=
    le_trans (Nat.sqrt_le_sqrt (Nat.div_le_div_left hxp.le hxs1)) hb.hmaxA
  have hm64 : max z maxAPrime ≤ ITy.u64.maxVal := le_trans hb.hM63 (by decide)
  have h64 := sqrt_lt_two64 hb.hx127
  exact acAKernel_eq kk hb.hv hb1 hy1 (by omega) hps (le_trans hsm' (le_max_right _ _)) hb.hMb hm64
    (Nat.lt_succ_of_le (Spec.pi_mono (le_trans hsm' (le_max_left _ _)))) (le_trans hhs hb.hsb) (by omega)

/-- `isqrt(low) ≤ x⋆` for every segment start below `⌊√x⌋` -/
theorem sqrt_low_le_xs {x y z k xs low : ℕ} (g : Spec.GParams x y z k xs (irootN 3 x)) (hl : low ≤ Nat.sqrt x) :
    Nat.sqrt low ≤ xs := by
  by_contra hc
  push Not at hc
  have h1 : (xs + 1) * (xs + 1) ≤ low := Nat.le_sqrt.1 hc
  have h2 : low * low ≤ x := le_trans (Nat.mul_le_mul hl hl) (Nat.sqrt_le x)
  have h3 : (xs + 1) ^ 4 ≤ x := by
    calc (xs + 1) ^ 4 = (xs + 1) * (xs + 1) * ((xs + 1) * (xs + 1)) := by ring
      _ ≤ low * low := Nat.mul_le_mul h1 h1
      _ ≤ x := h2
  have := g.hw4
  omega

/-- **one segment of `AC_OpenMP`** (AC.cpp:279-316): `(Σ C2, Σ A)` over ALL levels — the pruned ones have no leaf in `[low, high)` -/
theorem acSegment_eq (f : ACFile) {w : ITy} {x y z k xs maxAPrime : ℕ} (g : Spec.GParams x y z k xs (irootN 3 x))
    (hb : ACBounds t w x y z xs maxAPrime) {low high : ℕ} (hlh : low < high) (hhs : high ≤ Nat.sqrt x) :
    acSegment f t w (acPreVal x y z maxAPrime) x y k xs low high
      = .ok (∑ b ∈ Ioc (max k (π (Nat.sqrt z))) (π xs), c2Seg x y b low high,
             ∑ b ∈ Ioc (π xs) (π (irootN 3 x)), aSeg x y b low high) := by
  obtain ⟨hy1, hx1, hxs1, hxc, hcy, hxxy, hxx⟩ := gparams_facts g
  have hv := hb.hv
  have hxsM : xs ≤ max z maxAPrime := le_trans (le_trans hxc hcy.le) (le_trans g.hyz (le_max_left _ _))
  have hcM : irootN 3 x ≤ max z maxAPrime := le_trans hcy.le (le_trans g.hyz (le_max_left _ _))
  have rd : ∀ {n}, n ≤ irootN 3 x → piGet t (max z maxAPrime) n = .ok (π n) :=
    fun h => piGet_ok hv (le_trans h hcM) (le_trans (le_trans h hcM) hb.hMb)
  have r1 : Nat.sqrt low ≤ irootN 3 x := le_trans (sqrt_low_le_xs g (by omega)) hxc
  have r2 : min (x / high / y) xs ≤ irootN 3 x := le_trans (min_le_right _ _) hxc
  have r3 : max xs (min (x / high / high) (irootN 3 x)) ≤ irootN 3 x := max_le hxc (min_le_right _ _)
  have r4 : min (Nat.sqrt (x / max low 1)) xs ≤ irootN 3 x := le_trans (min_le_right _ _) hxc
  have r5 : min (Nat.sqrt (x / max low 1)) (irootN 3 x) ≤ irootN 3 x := min_le_right _ _
  have hsizeB : π (max maxAPrime y) ≤ π t.bound :=
    Spec.pi_mono (le_trans (max_le (le_max_right _ _) (le_trans g.hyz (le_max_left _ _))) hb.hMb)
  have hcsize : π (irootN 3 x) ≤ π (max maxAPrime y) := Spec.pi_mono (le_trans hcy.le (le_max_right _ _))
  have hm1 : max low 1 ≠ 0 := by have := le_max_right low 1; omega
  unfold acSegment
  simp only [acPreVal]
  rw [divE_ok hm1, EM_bind_ok, divE_ok (by omega), EM_bind_ok, isqrtN_eq, rd r1, EM_bind_ok, divE_ok (by omega),
    EM_bind_ok, rd r2, EM_bind_ok]
  try simp only []
  rw [divE_ok (by omega), EM_bind_ok, rd r3, EM_bind_ok]
  try simp only []
  rw [isqrtN_eq, rd r4, EM_bind_ok, rd r5, EM_bind_ok]
  rw [sumRange_eq (v := fun b => c2Seg x y b low high) (by omega) ?hc2, EM_bind_ok,
    sumRange_eq (v := fun b => aSeg x y b low high) (by omega) ?hA, EM_bind_ok]
  case hc2 =>
    intro b h1 h2
    have hb1 : 1 ≤ b := by omega
    have hbx : b ≤ π xs := le_trans h2 (Spec.pi_mono (min_le_right _ _))
    obtain ⟨sc, ss, e1, e2⟩ := c2Call_eq (f.kern w (x / Spec.p b)) g hb hlh hhs hb1 hbx
    rw [primesGet_ok hv hb1 (by have := Spec.pi_mono hxc; omega) (by have := Spec.pi_mono hxc; omega), EM_bind_ok,
      divE_ok (Spec.p_pos b).ne', EM_bind_ok, e1, EM_bind_ok]
    simp only [EM_pure]
    rw [e2]
  case hA =>
    intro b h1 h2
    have hbc : b ≤ π (irootN 3 x) := le_trans h2 (Spec.pi_mono (min_le_right _ _))
    have hbx : π xs < b :=
      lt_of_le_of_lt (Spec.pi_mono (le_max_left xs (min (x / high / high) (irootN 3 x)))) (by omega)
    have hb1 : 1 ≤ b := by omega
    rw [primesGet_ok hv hb1 (by omega) (by omega), EM_bind_ok, divE_ok (Spec.p_pos b).ne', EM_bind_ok,
      aCall_eq (f.kern w (x / Spec.p b)) g hb hlh hhs hbx hbc]
  simp only [EM_pure, Nat.add_sub_cancel]
  congr 2
  · -- C2: the pruned levels are empty
    apply Finset.sum_subset
    · intro b hbm
      rw [mem_Ioc] at hbm ⊢
      refine ⟨lt_of_le_of_lt ?_ hbm.1, le_trans hbm.2 (Spec.pi_mono (min_le_right _ _))⟩
      exact max_le (le_trans (le_max_left _ _) (le_trans (le_max_left _ _) (le_trans (le_max_left _ _) (le_max_left _ _))))
        (le_trans (le_max_right _ _) (le_trans (le_max_left _ _) (le_max_left _ _)))
    · intro b hbm hnot
      rw [mem_Ioc] at hbm hnot
      have hb1 : 1 ≤ b := by omega
      have hpb : Spec.p b ≤ xs := (Spec.p_le_iff hb1).2 hbm.2
      have hpx : Spec.p b * Spec.p b ≤ x := le_trans (Nat.mul_le_mul hpb hpb) hxx
      by_cases hup : b ≤ π (min (Nat.sqrt (x / max low 1)) xs)
      · have hlow : b ≤ max (max (max (max k (π (irootN 3 (x / y)))) (π (Nat.sqrt z))) (π (Nat.sqrt low)))
            (π (min (x / high / y) xs)) := by
          by_contra hc; push Not at hc; exact hnot ⟨hc, hup⟩
        have hk := max_lt_iff.1 hbm.1
        rcases le_max_iff.1 hlow with h | h
        · rcases le_max_iff.1 h with h | h
          · rcases le_max_iff.1 h with h | h
            · rcases le_max_iff.1 h with h | h
              · omega
              · -- b ≤ π ∛(x / y)
                unfold c2Seg
                rw [c2Set_empty_low hy1 (irootN_spec 3 (x / y) (by omega)).1 ((Spec.p_le_iff hb1).2 h)]
                simp
            · omega
          · exact c2Seg_zero_of_sq_le_low (Nat.le_sqrt.1 ((Spec.p_le_iff hb1).2 h))
        · have h3 := (le_min_iff.1 ((Spec.p_le_iff hb1).2 h)).1
          rw [Nat.le_div_iff_mul_le hy1, Nat.le_div_iff_mul_le (by omega)] at h3
          exact c2Seg_zero_of_high (by omega) h3
      · have h3 : Nat.sqrt (x / max low 1) < Spec.p b := by
          by_contra hc
          push Not at hc
          exact hup ((Spec.p_le_iff hb1).1 (le_min hc hpb))
        exact c2Seg_zero_of_sqrt_xlow hb1 hpx h3
  · -- A: the pruned levels are empty
    apply Finset.sum_subset
    · intro b hbm
      rw [mem_Ioc] at hbm ⊢
      exact ⟨lt_of_le_of_lt (Spec.pi_mono (le_max_left _ _)) hbm.1, le_trans hbm.2 (Spec.pi_mono (min_le_right _ _))⟩
    · intro b hbm hnot
      rw [mem_Ioc] at hbm hnot
      have hb1 : 1 ≤ b := by omega
      have hpc : Spec.p b ≤ irootN 3 x := (Spec.p_le_iff hb1).2 hbm.2
      have hxp : xs < Spec.p b := (Spec.lt_p_iff hb1).2 hbm.1
      have hcube := cube_le_of_le_iroot3 hb1 hbm.2
      have hpx : Spec.p b * Spec.p b ≤ x := le_trans (Nat.le_mul_of_pos_right _ (Spec.p_pos b)) hcube
      by_cases hup : b ≤ π (min (Nat.sqrt (x / max low 1)) (irootN 3 x))
      · have hlow : b ≤ π (max xs (min (x / high / high) (irootN 3 x))) := by
          by_contra hc; push Not at hc; exact hnot ⟨hc, hup⟩
        have h2 := (Spec.p_le_iff hb1).2 hlow
        have h3 : Spec.p b ≤ x / high / high := by
          rcases le_max_iff.1 h2 with h | h
          · omega
          · exact (le_min_iff.1 h).1
        rw [Nat.le_div_iff_mul_le (by omega), Nat.le_div_iff_mul_le (by omega)] at h3
        exact aSeg_zero_of_high h3
      · have h3 : Nat.sqrt (x / max low 1) < Spec.p b := by
          by_contra hc
          push Not at hc
          exact hup ((Spec.p_le_iff hb1).1 (le_min hc hpc))
        exact aSeg_zero_of_sqrt_xlow hb1 hpx h3

end Pc.Easy
