/-
C18 core, EratBig: the `while (buckets_[0])` loop (`bigLoop`) — one iteration in the vocabulary `BigOk` / `BigHas`, and the
loop by induction on the fuel with a growing lower bound for the `multipleIndex` of the entries of list 0.
-/
import PcProofs.PsCore2BigPass

namespace Pc.PsCore
open Pc.PsWheelSpec
open Pc.Sieve (Bytes clearBit bitAt bitAt_clear)

/-! ### small facts -/

theorem mem_getD_lt {b : Buckets} {k : ℕ} {y : SPrime} (h : y ∈ (b.getD k #[]).toList) : k < b.size := by
  by_contra hk
  rw [Array.getD_eq_getD_getElem?, Array.getElem?_eq_none (by omega)] at h
  simp at h

theorem getD_set0 (b : Buckets) (k : ℕ) : (b.set! 0 #[]).getD k #[] = if k = 0 then #[] else b.getD k #[] := by
  rw [Array.set!_eq_setIfInBounds, Array.getD_eq_getD_getElem?, Array.getD_eq_getD_getElem?, Array.getElem?_setIfInBounds]
  by_cases h : k = 0
  · subst h
    by_cases h0 : 0 < b.size <;> simp [h0]
  · have : ¬ 0 = k := fun e => h e.symm
    simp [h, this]

theorem seg0 (L log2 : ℕ) : L + 30 * (2 ^ log2 * 0) = L := by simp

theorem segdvd {L : ℕ} (hL : 30 ∣ L) (x : ℕ) : 30 ∣ L + 30 * x := by omega

/-- a packed state determines the prime and the pending cofactor -/
theorem stored_unique {Lk log2 : ℕ} (hLk : 30 ∣ Lk) {p : SPrime} {q u q0 u0 : ℕ} (h : BStored Lk log2 p (q, u))
    (h0 : BStored Lk log2 p (q0, u0)) : q = q0 ∧ u = u0 := by
  have r := stored_range hLk h
  have r0 := stored_range hLk h0
  obtain ⟨hq, _, hsp, _, g, j, U, hg, hj, hqe, _, hidx, _⟩ := h
  obtain ⟨hq0, _, hsp0, _, g0, j0, U0, hg0, hj0, hqe0, _, hidx0, _⟩ := h0
  simp only at hq hsp hqe hidx hq0 hsp0 hqe0 hidx0
  have hgg : g = g0 := by omega
  subst hgg
  have hqq : q = q0 := by omega
  subst hqq
  refine ⟨rfl, ?_⟩
  rcases Nat.lt_trichotomy u u0 with hlt | heq | hgt
  · have := Nat.mul_le_mul_left q (show u + 1 ≤ u0 from hlt)
    rw [Nat.mul_succ] at this
    omega
  · exact heq
  · have := Nat.mul_le_mul_left q (show u0 + 1 ≤ u from hgt)
    rw [Nat.mul_succ] at this
    omega

theorem stored_mi_lt {Lk log2 : ℕ} (hLk : 30 ∣ Lk) {p p' : SPrime} {q u u' : ℕ} (h : BStored Lk log2 p (q, u))
    (h' : BStored Lk log2 p' (q, u')) (hu : u < u') : p.mi < p'.mi := by
  have r := stored_range hLk h
  have r' := stored_range hLk h'
  have hq : 30 ≤ q := h.q_ge
  have := Nat.mul_le_mul_left q (show u + 1 ≤ u' from hu)
  rw [Nat.mul_succ] at this
  omega

/-- the multiples of a stored prime whose pending multiple is beyond the array are not bits of the array -/
theorem stored_far {L log2 k : ℕ} (hL : 30 ∣ L) {p : SPrime} {q u : ℕ} (h : BStored (L + 30 * (2 ^ log2 * k)) log2 p (q, u))
    (s : Bytes) (hfar : s.size ≤ 2 ^ log2 * k + p.mi) (t : ℕ) (ht : u ≤ t) (pb : ℕ) (hbit : bitAt s pb = true) :
    q * t ≠ numOf L pb := by
  have hpb : pb < 8 * s.size := by
    by_contra hge
    rw [Pc.Sieve.bitAt_false_of_ge s pb (by omega)] at hbit
    exact Bool.false_ne_true hbit
  have r := stored_range (segdvd hL _) h
  have hle := Nat.mul_le_mul_left q ht
  have hv := (bitVals_range (pb % 8) (Nat.mod_lt _ (by decide))).2
  unfold numOf
  generalize 2 ^ log2 * k = X at *
  omega

theorem adv_trans {M q L n u u' u'' : ℕ} (h1 : Adv M q L n u u') (h2 : Adv M q L n u' u'') : Adv M q L n u u'' := by
  refine ⟨le_trans h1.1 h2.1, fun t ht1 ht2 hc => ?_⟩
  by_cases h : t < u'
  · exact h1.2 t ht1 h hc
  · exact h2.2 t (by omega) ht2 hc

/-! ### one iteration -/

theorem bigPass_iter (L log2 : ℕ) (hL : 30 ∣ L) (hlog : log2 ≤ 23) (b : Buckets) (s : Bytes) (hok : BigOk L log2 b)
    (hne : 0 < b.size) :
    (bigPass log2 (b.getD 0 #[]) (b.set! 0 #[]) s).1.size = b.size ∧
    (bigPass log2 (b.getD 0 #[]) (b.set! 0 #[]) s).2.size = s.size ∧
    BigOk L log2 (bigPass log2 (b.getD 0 #[]) (b.set! 0 #[]) s).1 ∧
    (∀ lo, (∀ p ∈ (b.getD 0 #[]).toList, lo ≤ p.mi) →
      ∀ p ∈ ((bigPass log2 (b.getD 0 #[]) (b.set! 0 #[]) s).1.getD 0 #[]).toList, lo + 1 ≤ p.mi) ∧
    (∀ pb, bitAt (bigPass log2 (b.getD 0 #[]) (b.set! 0 #[]) s).2 pb = true ↔
      (bitAt s pb = true ∧ ∀ p ∈ (b.getD 0 #[]).toList, ∀ q u, BStored L log2 p (q, u) → q * u ≠ numOf L pb)) ∧
    (∀ q u, BigHas L log2 b q u → BigHas L log2 (bigPass log2 (b.getD 0 #[]) (b.set! 0 #[]) s).1 q u ∨
      ∃ u', BigHas L log2 (bigPass log2 (b.getD 0 #[]) (b.set! 0 #[]) s).1 q u' ∧ u < u' ∧
        (∀ t, u < t → t < u' → ¬ Nat.Coprime t 210) ∧ ∃ p ∈ (b.getD 0 #[]).toList, BStored L log2 p (q, u)) ∧
    (∀ q u', BigHas L log2 (bigPass log2 (b.getD 0 #[]) (b.set! 0 #[]) s).1 q u' → ∃ u, BigHas L log2 b q u ∧ u ≤ u') := by
  rw [bigPass_eq]
  simp only
  set l := (b.getD 0 #[]).toList with hl
  -- the entries of list 0
  have hl0 : ∀ p ∈ l, (∃ q u, BStored L log2 p (q, u)) ∧ ((2 ^ log2 - 1 + (p.sp * 10 + 10)) >>> log2) < b.size := by
    intro p hp
    have := hok 0 hne p hp
    rw [seg0] at this
    exact this
  have hsz' : (b.set! 0 #[]).size = b.size := by rw [Array.set!_eq_setIfInBounds, Array.size_setIfInBounds]
  have hseg : ∀ p ∈ l, bigSeg log2 p < (b.set! 0 #[]).size := by
    intro p hp
    obtain ⟨⟨q, u, hst⟩, hb⟩ := hl0 p hp
    obtain ⟨_, _, _, _, _, hle⟩ := big_step_stored L log2 hL hlog p q u hst
    omega
  have hmem := mem_bigPassB log2 l (b.set! 0 #[]) hseg
  have hsize : (bigPassB log2 l (b.set! 0 #[])).size = b.size := by rw [size_bigPassB, hsz']
  -- membership, simplified
  have hmem' : ∀ k y, y ∈ ((bigPassB log2 l (b.set! 0 #[])).getD k #[]).toList ↔
      ((k ≠ 0 ∧ y ∈ (b.getD k #[]).toList) ∨ ∃ p ∈ l, bigSeg log2 p = k ∧ y = bigNew log2 p) := by
    intro k y
    rw [hmem k y, getD_set0]
    by_cases hk : k = 0 <;> simp [hk]
  refine ⟨hsize, size_bigPassS l s, ?_, ?_, ?_, ?_, ?_⟩
  · -- BigOk
    intro k hk y hy
    rw [hsize] at hk ⊢
    rcases (hmem' k y).mp hy with ⟨_, hy'⟩ | ⟨p, hp, hpk, rfl⟩
    · exact hok k hk y hy'
    · obtain ⟨⟨q, u, hst⟩, hb⟩ := hl0 p hp
      obtain ⟨kk, _, hst', _, hsp, _⟩ := big_step_stored L log2 hL hlog p q u hst
      rw [hpk] at hst'
      exact ⟨⟨q, u + kk, hst'⟩, by rw [hsp]; exact hb⟩
  · -- lower bound of list 0
    intro lo hlo y hy
    rcases (hmem' 0 y).mp hy with ⟨h0, _⟩ | ⟨p, hp, hpk, rfl⟩
    · exact absurd rfl h0
    · obtain ⟨⟨q, u, hst⟩, _⟩ := hl0 p hp
      obtain ⟨kk, hkk, hst', _, _, _⟩ := big_step_stored L log2 hL hlog p q u hst
      rw [hpk, seg0] at hst'
      have := stored_mi_lt hL hst hst' (by omega)
      have := hlo p hp
      omega
  · -- bits
    exact bigPassS_bits L log2 hL hlog l s (fun p hp => (hl0 p hp).1)
  · -- forward
    rintro q u ⟨k, p, hk, hp, hst⟩
    by_cases hk0 : k = 0
    · subst hk0
      rw [seg0] at hst
      right
      obtain ⟨kk, hkk, hst', hgap, _, hle⟩ := big_step_stored L log2 hL hlog p q u hst
      have hb := (hl0 p hp).2
      refine ⟨u + kk, ⟨bigSeg log2 p, bigNew log2 p, by rw [hsize]; omega, ?_, hst'⟩, by omega, hgap, p, hp, hst⟩
      exact (hmem' _ _).mpr (Or.inr ⟨p, hp, rfl, rfl⟩)
    · left
      exact ⟨k, p, by rw [hsize]; exact hk, (hmem' _ _).mpr (Or.inl ⟨hk0, hp⟩), hst⟩
  · -- backward
    rintro q u' ⟨k, y, hk, hy, hst⟩
    rw [hsize] at hk
    rcases (hmem' k y).mp hy with ⟨_, hy'⟩ | ⟨p, hp, hpk, rfl⟩
    · exact ⟨u', ⟨k, y, hk, hy', hst⟩, le_refl _⟩
    · obtain ⟨⟨q0, u0, hst0⟩, _⟩ := hl0 p hp
      obtain ⟨kk, hkk, hst', _, _, _⟩ := big_step_stored L log2 hL hlog p q0 u0 hst0
      rw [hpk] at hst'
      obtain ⟨rfl, rfl⟩ := stored_unique (segdvd hL _) hst hst'
      refine ⟨u0, ⟨0, p, hne, hp, ?_⟩, by omega⟩
      rw [seg0]; exact hst0

/-! ### the loop -/

theorem bigLoop_succ (log2 fuel : ℕ) (b : Buckets) (s : Bytes) :
    bigLoop log2 (fuel + 1) b s = if (b.getD 0 #[]).isEmpty then (b, s) else
      bigLoop log2 fuel (bigPass log2 (b.getD 0 #[]) (b.set! 0 #[]) s).1 (bigPass log2 (b.getD 0 #[]) (b.set! 0 #[]) s).2 := rfl

/-- the state in which the loop stops: nothing pending inside the array -/
theorem bigLoop_stop (L log2 : ℕ) (hL : 30 ∣ L) (b : Buckets) (s : Bytes) (hok : BigOk L log2 b) (hs : s.size ≤ 2 ^ log2)
    (h0 : ∀ p ∈ (b.getD 0 #[]).toList, s.size ≤ p.mi) :
    (∀ pb, bitAt s pb = true ↔
      (bitAt s pb = true ∧ ¬ ∃ q u t, BigHas L log2 b q u ∧ u ≤ t ∧ Nat.Coprime t 210 ∧ q * t = numOf L pb)) ∧
    (∀ q u, BigHas L log2 b q u → ∃ u', BigHas L log2 b q u' ∧ Adv 210 q L (2 ^ log2) u u') ∧
    (∀ q u', BigHas L log2 b q u' → ∃ u, BigHas L log2 b q u ∧ u ≤ u') ∧
    (s.size = 2 ^ log2 → ∀ p ∈ (b.getD 0 #[]).toList, False) := by
  refine ⟨?_, ?_, ?_, ?_⟩
  · intro pb
    constructor
    · intro hbit
      refine ⟨hbit, ?_⟩
      rintro ⟨q, u, t, ⟨k, p, hk, hp, hst⟩, hut, _, heq⟩
      refine stored_far hL hst s ?_ t hut pb hbit heq
      by_cases hk0 : k = 0
      · subst hk0
        have := h0 p hp
        omega
      · have : 2 ^ log2 * 1 ≤ 2 ^ log2 * k := Nat.mul_le_mul_left _ (by omega)
        omega
    · exact fun h => h.1
  · intro q u h
    exact ⟨u, h, le_refl _, fun t h1 h2 _ => by omega⟩
  · intro q u h
    exact ⟨u, h, le_refl _⟩
  · intro hsz p hp
    have hne := mem_getD_lt hp
    obtain ⟨⟨q, u, hst⟩, _⟩ := hok 0 hne p hp
    have := hst.mi_lt
    have := h0 p hp
    omega

theorem bigLoop_spec (L log2 : ℕ) (hL : 30 ∣ L) (hlog : log2 ≤ 23) : ∀ (fuel lo : ℕ) (b : Buckets) (s : Bytes),
    BigOk L log2 b → s.size ≤ 2 ^ log2 → (∀ p ∈ (b.getD 0 #[]).toList, lo ≤ p.mi) → s.size < lo + fuel →
    (bigLoop log2 fuel b s).1.size = b.size ∧ (bigLoop log2 fuel b s).2.size = s.size ∧
    BigOk L log2 (bigLoop log2 fuel b s).1 ∧
    (∀ pb, bitAt (bigLoop log2 fuel b s).2 pb = true ↔
      (bitAt s pb = true ∧ ¬ ∃ q u t, BigHas L log2 b q u ∧ u ≤ t ∧ Nat.Coprime t 210 ∧ q * t = numOf L pb)) ∧
    (∀ q u, BigHas L log2 b q u → ∃ u', BigHas L log2 (bigLoop log2 fuel b s).1 q u' ∧ Adv 210 q L (2 ^ log2) u u') ∧
    (∀ q u', BigHas L log2 (bigLoop log2 fuel b s).1 q u' → ∃ u, BigHas L log2 b q u ∧ u ≤ u') ∧
    (s.size = 2 ^ log2 → ∀ p ∈ ((bigLoop log2 fuel b s).1.getD 0 #[]).toList, False) := by
  intro fuel
  induction fuel with
  | zero =>
    intro lo b s hok hs hlo hfuel
    obtain ⟨h1, h2, h3, h4⟩ := bigLoop_stop L log2 hL b s hok hs (fun p hp => by have := hlo p hp; omega)
    exact ⟨rfl, rfl, hok, h1, h2, h3, h4⟩
  | succ fuel ih =>
    intro lo b s hok hs hlo hfuel
    rw [bigLoop_succ]
    by_cases hemp : (b.getD 0 #[]).isEmpty
    · rw [if_pos hemp]
      have hnil : (b.getD 0 #[]).toList = [] := by
        rw [Array.isEmpty_iff] at hemp
        rw [hemp]
      obtain ⟨h1, h2, h3, h4⟩ := bigLoop_stop L log2 hL b s hok hs (fun p hp => by rw [hnil] at hp; simp at hp)
      exact ⟨rfl, rfl, hok, h1, h2, h3, h4⟩
    · rw [if_neg hemp]
      have hne : 0 < b.size := by
        by_contra h0
        apply hemp
        rw [Array.getD_eq_getD_getElem?, Array.getElem?_eq_none (by omega)]
        rfl
      obtain ⟨i1, i2, i3, i4, i5, i6, i7⟩ := bigPass_iter L log2 hL hlog b s hok hne
      set R := bigPass log2 (b.getD 0 #[]) (b.set! 0 #[]) s with hR
      obtain ⟨j1, j2, j3, j4, j5, j6, j7⟩ := ih (lo + 1) R.1 R.2 i3 (by rw [i2]; exact hs) (i4 lo hlo)
        (by rw [i2]; omega)
      refine ⟨by rw [j1, i1], by rw [j2, i2], j3, ?_, ?_, ?_, ?_⟩
      · -- bits
        intro pb
        rw [j4 pb, i5 pb]
        constructor
        · rintro ⟨⟨hs1, hnl⟩, hno⟩
          refine ⟨hs1, ?_⟩
          rintro ⟨q, u, t, hb, hut, hc, heq⟩
          rcases i6 q u hb with hb' | ⟨u', hb', huu', hgap, p, hp, hst⟩
          · exact hno ⟨q, u, t, hb', hut, hc, heq⟩
          · by_cases htu : t = u
            · subst htu
              exact hnl p hp q t hst heq
            · have : u' ≤ t := by
                by_contra hlt
                exact hgap t (by omega) (by omega) hc
              exact hno ⟨q, u', t, hb', this, hc, heq⟩
        · rintro ⟨hs1, hno⟩
          refine ⟨⟨hs1, ?_⟩, ?_⟩
          · intro p hp q u hst heq
            refine hno ⟨q, u, u, ⟨0, p, hne, hp, ?_⟩, le_refl _, stored_coprime hst, heq⟩
            rw [seg0]; exact hst
          · rintro ⟨q, u', t, hb', hut, hc, heq⟩
            obtain ⟨u, hb, huu'⟩ := i7 q u' hb'
            exact hno ⟨q, u, t, hb, by omega, hc, heq⟩
      · -- forward
        intro q u hb
        rcases i6 q u hb with hb' | ⟨u', hb', huu', hgap, p, hp, hst⟩
        · exact j5 q u hb'
        · obtain ⟨u'', hb'', hadv⟩ := j5 q u' hb'
          refine ⟨u'', hb'', adv_trans ⟨by omega, fun t h1 h2 hc => ?_⟩ hadv⟩
          have htu : t = u := by
            by_contra hne'
            exact hgap t (by omega) h2 hc
          subst htu
          have r := stored_range hL hst
          have := hst.mi_lt
          omega
      · -- backward
        intro q u'' hb''
        obtain ⟨u', hb', h1⟩ := j6 q u'' hb''
        obtain ⟨u, hb, h2⟩ := i7 q u' hb'
        exact ⟨u, hb, by omega⟩
      · intro hsz
        exact j7 (by rw [i2]; exact hsz)

/-- every byte stays below 256 -/
theorem bigLoop_bytes (log2 : ℕ) : ∀ (fuel : ℕ) (b : Buckets) (s : Bytes), (∀ k, s.getD k 0 < 256) →
    ∀ k, (bigLoop log2 fuel b s).2.getD k 0 < 256
  | 0, _, _, hs => hs
  | fuel + 1, b, s, hs => by
    rw [bigLoop_succ]
    by_cases hemp : (b.getD 0 #[]).isEmpty
    · rw [if_pos hemp]; exact hs
    · rw [if_neg hemp]
      apply bigLoop_bytes log2 fuel
      rw [bigPass_eq]
      exact bigPassS_bytes _ s hs

end Pc.PsCore
