/-
FactorTable constructor (C17): fill, per-thread sieve, thread split; `factorTable_correct`.
-/
import PcProofs.FactorTable
namespace Pc
open Nat

attribute [local irreducible] ftToNumber ftToIndex

/-! ### one thread of the FactorTable constructor -/

theorem ftFill_get (a : FtArr) (lowIdx size tmax I : ℕ) :
    (ftFill a lowIdx size tmax)[I]?
      = if lowIdx ≤ I ∧ I < lowIdx + size ∧ I < a.size then some (some tmax) else a[I]? := by
  unfold ftFill
  exact fillLoop_get lowIdx (some tmax) size a I

theorem ftFill_size (a : FtArr) (lowIdx size tmax : ℕ) : (ftFill a lowIdx size tmax).size = a.size :=
  fillLoop_size lowIdx (some tmax) size a

/-- a number coprime to 2310 below 13² is 1 or a prime -/
theorem c2310_lt_169_prime {m : ℕ} (hm : C2310 m) (h2 : 2 ≤ m) (hlt : m < 169) : m.Prime := by
  by_contra hnp
  have hp := Nat.minFac_prime (n := m) (by omega)
  have h13 := c2310_prime_factor_ge hm hp (Nat.minFac_dvd m)
  have hsq := Nat.minFac_sq_le_self (n := m) (by omega) hnp
  rw [Nat.pow_two] at hsq
  have := Nat.mul_le_mul h13 h13
  omega

theorem ftSpec_prime {tmax m : ℕ} (hm : m.Prime) : ftSpec tmax m = tmax := by
  unfold ftSpec
  rw [if_neg hm.one_lt.ne', if_pos hm]

theorem ftThreadStep_size (gen : PrimeGen) (hg : PrimeGenSpec gen) (tmax y td sqrty : ℕ) (a : FtArr) (t : ℕ) :
    (ftThreadStep gen tmax y td sqrty a t).size = a.size := by
  unfold ftThreadStep
  simp only
  split
  · split
    · unfold ftSieveThread
      rw [(ftSieveThread_get tmax _ _ sqrty (by unfold ftThreadRange; simp only; rw [ftFirstCoprime_eq]; omega) 0 _ _
        (fun p hp => by
          have := ((hg _ _).2 p).1 hp
          rw [ftFirstCoprime_eq] at this
          exact ⟨this.1, this.2.2⟩)).1, ftFill_size]
    · exact ftFill_size _ _ _ _
  · rfl

/-- thread `t` leaves every entry whose number is outside `[low_t, high_t]` alone -/
theorem ftThreadStep_outside (gen : PrimeGen) (hg : PrimeGenSpec gen) (tmax y td sqrty : ℕ) (a : FtArr) (t I : ℕ)
    (hlowc : C2310 (ftThreadRange y td t).1)
    (hout : ¬ ((ftThreadRange y td t).1 ≤ ftToNumber I ∧ ftToNumber I ≤ (ftThreadRange y td t).2)) :
    (ftThreadStep gen tmax y td sqrty a t)[I]? = a[I]? := by
  have hlow13 : 13 ≤ (ftThreadRange y td t).1 := by
    unfold ftThreadRange; simp only; rw [ftFirstCoprime_eq]; omega
  unfold ftThreadStep
  simp only
  split
  · rename_i hle
    have hfill : (ftFill a (ftToIndex (ftThreadRange y td t).1).toNat
        ((ftToIndex (ftThreadRange y td t).2).toNat + 1 - (ftToIndex (ftThreadRange y td t).1).toNat) tmax)[I]? = a[I]? := by
      rw [ftFill_get, if_neg]
      rintro ⟨h1, h2, _⟩
      apply hout
      refine ⟨(ftToIndex_le_iff _ hlowc I).1 h1, (le_ftToIndex_iff _ (by omega) I).1 (by omega)⟩
    split
    · unfold ftSieveThread
      rw [((ftSieveThread_get tmax _ _ sqrty (by omega) I _ _
        (fun p hp => by
          have := ((hg _ _).2 p).1 hp
          rw [ftFirstCoprime_eq] at this
          exact ⟨this.1, this.2.2⟩)).2.1 hout), hfill]
    · exact hfill
  · rfl

/-- thread `t` computes the documented value of every entry whose number lies in `[low_t, high_t]` -/
theorem ftThreadStep_inside (gen : PrimeGen) (hg : PrimeGenSpec gen) (tmax y td : ℕ) (hy : y ≤ ftMax tmax)
    (htm : 2 ≤ tmax) (a : FtArr) (t I : ℕ)
    (hlowc : C2310 (ftThreadRange y td t).1)
    (hin : (ftThreadRange y td t).1 ≤ ftToNumber I ∧ ftToNumber I ≤ (ftThreadRange y td t).2)
    (hsz : I < a.size) :
    (ftThreadStep gen tmax y td (Nat.sqrt y) a t)[I]? = some (some (ftSpec tmax (ftToNumber I))) := by
  have hlow13 : 13 ≤ (ftThreadRange y td t).1 := by
    unfold ftThreadRange; simp only; rw [ftFirstCoprime_eq]; omega
  have hhy : (ftThreadRange y td t).2 ≤ y := by
    unfold ftThreadRange; simp only; exact min_le_right _ _
  have hmc : C2310 (ftToNumber I) := (ftToNumber_spec I).1
  unfold ftThreadStep
  simp only
  rw [if_pos (by omega)]
  have hfill : (ftFill a (ftToIndex (ftThreadRange y td t).1).toNat
      ((ftToIndex (ftThreadRange y td t).2).toNat + 1 - (ftToIndex (ftThreadRange y td t).1).toNat) tmax)[I]?
        = some (some tmax) := by
    rw [ftFill_get, if_pos]
    have h1 := (ftToIndex_le_iff _ hlowc I).2 hin.1
    have h2 := (le_ftToIndex_iff _ (by omega) I).2 hin.2
    exact ⟨h1, by omega, hsz⟩
  split
  · rename_i h169
    rw [ftFirstCoprime_eq] at h169
    unfold ftSieveThread
    rw [(ftSieveThread_get tmax _ _ (Nat.sqrt y) (by omega) I _ _
        (fun p hp => by
          have := ((hg _ _).2 p).1 hp
          rw [ftFirstCoprime_eq] at this
          exact ⟨this.1, this.2.2⟩)).2.2 hin tmax hfill]
    rw [ftFirstCoprime_eq, ftVal_spec gen hg tmax y _ _ hmc (by omega) hin.2 hhy hy htm]
  · rename_i h169
    rw [ftFirstCoprime_eq] at h169
    rw [hfill, ftSpec_prime (c2310_lt_169_prime hmc (by omega) (by omega))]


/-! ### thread split and the constructor -/

theorem c2310_add_mul (q m : ℕ) : C2310 (2310 * q + m) ↔ C2310 m := by
  induction q with
  | zero => simp
  | succ q ih =>
    have e : 2310 * (q + 1) + m = 2310 + (2310 * q + m) := by ring
    rw [e, c2310_periodic, ih]

theorem ftThreadParams_spec (y : ℕ) (threads : ℤ) :
    1 ≤ (ftThreadParams y threads).1 ∧ 2310 ∣ (ftThreadParams y threads).2 ∧
      y ≤ (ftThreadParams y threads).2 * (ftThreadParams y threads).1 ∧ 0 < (ftThreadParams y threads).2 := by
  unfold ftThreadParams
  simp only
  rw [PcGen.Obl.coprimeIndexes_size]
  have h1 : 1 ≤ (idealNumThreads (y : ℤ) threads 10000000).toNat := by
    have := idealNumThreads_pos (y : ℤ) threads 10000000
    omega
  generalize (idealNumThreads (y : ℤ) threads 10000000).toNat = thr at *
  have hc : y ≤ ceilDiv y thr * thr := by
    unfold ceilDiv
    have := Nat.lt_mul_div_succ (y + thr - 1) (show 0 < thr by omega)
    rw [Nat.mul_comm]
    have h2 : thr * ((y + thr - 1) / thr + 1) = thr * ((y + thr - 1) / thr) + thr := by ring
    omega
  generalize ceilDiv y thr = td0 at *
  refine ⟨h1, ?_, ?_, by omega⟩
  · exact Nat.dvd_of_mod_eq_zero (by omega)
  · have : td0 * thr ≤ (td0 + (2310 - td0 % 2310)) * thr := Nat.mul_le_mul_right _ (by omega)
    omega

theorem ftThreadRange_low_coprime (y td t : ℕ) (h : 2310 ∣ td) : C2310 (ftThreadRange y td t).1 := by
  unfold ftThreadRange
  simp only
  rw [ftFirstCoprime_eq]
  obtain ⟨c, rfl⟩ := h
  rcases Nat.eq_zero_or_pos (c * t) with h0 | h0
  · have : 2310 * c * t = 0 := by rw [Nat.mul_assoc, h0]
    rw [this]; decide
  · have : max 13 (2310 * c * t + 1) = 2310 * (c * t) + 1 := by
      rw [Nat.mul_assoc]; omega
    rw [this, c2310_add_mul]; exact c2310_one

theorem ftSpec_one (tmax : ℕ) : ftSpec tmax 1 = tmax - 1 := by unfold ftSpec; rw [if_pos rfl]

theorem ftToIndex_one : (ftToIndex 1).toNat = 0 := by
  have := ftToIndex_toNumber_nat 0
  rwa [ftToNumber_zero] at this

/-- **C17 (FactorTable, after the F3 repair)**: for every `y ≤ max()`, every thread count and every
    `n ≤ y` coprime to 2·3·5·7·11 the entry `factor_[to_index(n)]` has been written and holds the
    documented encoding of (μ(n), lpf(n)); given that the prime generator lists the primes (C18). -/
theorem factorTable_correct (gen : PrimeGen) (hg : PrimeGenSpec gen) (tmax : ℕ) (htm : 3 ≤ tmax) (hodd : tmax % 2 = 1)
    (y threads : ℤ) (hy : y ≤ ftMax tmax) :
    ∃ a, factorTableNew gen tmax y threads = some a ∧
      a.size = (ftToIndex (max 1 y).toNat).toNat + 1 ∧
      ∀ n, C2310 n → n ≤ (max 1 y).toNat → a[(ftToIndex n).toNat]? = some (some (ftSpec tmax n)) := by
  unfold factorTableNew
  rw [if_neg (by omega)]
  simp only
  have hmaxpos : 3 ≤ ftMax tmax := by
    unfold ftMax
    have : 2 ≤ tmax - 1 := by omega
    have := Nat.mul_le_mul this this
    omega
  have hY1 : 1 ≤ (max 1 y).toNat := by have := le_max_left (1 : ℤ) y; omega
  have hYmax : (max 1 y).toNat ≤ ftMax tmax := by
    rcases max_cases (1 : ℤ) y with ⟨h, _⟩ | ⟨h, _⟩ <;> rw [h] <;> omega
  generalize (max 1 y).toNat = Y at *
  obtain ⟨hthr, h2310, hcov, htd⟩ := ftThreadParams_spec Y threads
  generalize (ftThreadParams Y threads).1 = thr at *
  generalize (ftThreadParams Y threads).2 = td at *
  set a0 : FtArr := (Array.replicate ((ftToIndex Y).toNat + 1) none).setIfInBounds 0 (some (tmax ^^^ 1)) with ha0
  have hsz0 : a0.size = (ftToIndex Y).toNat + 1 := by simp [ha0]
  have hsize : ∀ n, ((List.range n).foldl (ftThreadStep gen tmax Y td (Nat.sqrt Y)) a0).size = a0.size := by
    intro n
    induction n with
    | zero => rfl
    | succ n ih => rw [List.range_succ, List.foldl_append, List.foldl_cons, List.foldl_nil, ftThreadStep_size gen hg, ih]
  refine ⟨_, rfl, by rw [hsize, hsz0], ?_⟩
  intro n hn hnY
  have hlowc := fun t => ftThreadRange_low_coprime Y td t h2310
  have hn1 : 1 ≤ n := by
    rcases Nat.eq_zero_or_pos n with h | h
    · rw [h] at hn; exact absurd hn (by decide)
    · exact h
  have hI : ftToNumber (ftToIndex n).toNat = n := ftToNumber_toIndex n hn
  have hIsz : (ftToIndex n).toNat < a0.size := by
    rw [hsz0]
    have := (le_ftToIndex_iff Y hY1 (ftToIndex n).toNat).2 (by rw [hI]; exact hnY)
    omega
  by_cases h1 : n = 1
  · -- the entry of 1 is written before the parallel loop and never touched
    subst h1
    have hout : ∀ k, ((List.range k).foldl (ftThreadStep gen tmax Y td (Nat.sqrt Y)) a0)[(ftToIndex 1).toNat]?
        = a0[(ftToIndex 1).toNat]? := by
      intro k
      induction k with
      | zero => rfl
      | succ k ih =>
        rw [List.range_succ, List.foldl_append, List.foldl_cons, List.foldl_nil,
          ftThreadStep_outside gen hg tmax Y td _ _ k _ (hlowc k), ih]
        rw [hI]
        unfold ftThreadRange
        simp only
        rw [ftFirstCoprime_eq]
        omega
    rw [hout, ftToIndex_one, ha0, Array.getElem?_setIfInBounds, if_pos rfl, if_pos (by simp), ftSpec_one,
      Nat.xor_one_of_odd (Nat.odd_iff.2 hodd)]
  · -- n ≥ 13 is handled by exactly one thread
    have h13 : 13 ≤ n := c2310_ge_13 (by omega) (fun p hp hd => c2310_prime_factor_ge hn hp hd)
    set I := (ftToIndex n).toNat with hIdef
    set t := (n - 1) / td with htdef
    have ht1 : td * t ≤ n - 1 := Nat.mul_div_le _ _
    have ht2 : n - 1 < td * (t + 1) := Nat.lt_mul_div_succ _ htd
    rw [Nat.mul_add, Nat.mul_one] at ht2
    have htthr : t < thr := by
      have : td * t < td * thr := by omega
      exact Nat.lt_of_mul_lt_mul_left this
    have hin : (ftThreadRange Y td t).1 ≤ ftToNumber I ∧ ftToNumber I ≤ (ftThreadRange Y td t).2 := by
      rw [hI]
      unfold ftThreadRange
      simp only
      rw [ftFirstCoprime_eq]
      omega
    have hframe : ∀ (s : FtArr) t', t' ≠ t →
        (fun s : FtArr => (s.size, s[I]?)) (ftThreadStep gen tmax Y td (Nat.sqrt Y) s t')
          = (fun s : FtArr => (s.size, s[I]?)) s := by
      intro s t' hne
      simp only
      rw [ftThreadStep_size gen hg, ftThreadStep_outside gen hg tmax Y td _ s t' I (hlowc t')]
      rw [hI]
      unfold ftThreadRange
      simp only
      rw [ftFirstCoprime_eq]
      intro hc
      apply hne
      have e1 : td * t' ≤ n - 1 := by omega
      have e2 : n - 1 < td * t' + td := by omega
      have e3 : t' * td = td * t' := Nat.mul_comm _ _
      rw [htdef]
      symm
      apply Nat.div_eq_of_lt_le
      · omega
      · rw [Nat.add_mul, Nat.one_mul]; omega
    have hfin := foldl_range_frame (ftThreadStep gen tmax Y td (Nat.sqrt Y)) (fun s : FtArr => (s.size, s[I]?)) t hframe thr a0
    rw [if_pos htthr] at hfin
    have hpre := foldl_range_frame (ftThreadStep gen tmax Y td (Nat.sqrt Y)) (fun s : FtArr => (s.size, s[I]?)) t hframe t a0
    rw [if_neg (Nat.lt_irrefl t)] at hpre
    have hszpre : I < ((List.range t).foldl (ftThreadStep gen tmax Y td (Nat.sqrt Y)) a0).size := by
      have := congrArg Prod.fst hpre
      simp only at this
      rw [this]; exact hIsz
    have := congrArg Prod.snd hfin
    simp only at this
    rw [this, ftThreadStep_inside gen hg tmax Y td hYmax (by omega) _ t I (hlowc t) hin hszpre, hI]

end Pc
