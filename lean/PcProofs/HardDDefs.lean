/-
WP hard: `dF` — the D-leaves of the levels `(k, π x⋆]` located in a window; additive over adjacent windows.
-/
import PcProofs.HardDChunk
import PcProofs.HardOmp

namespace Pc.Hard
open Nat Finset
open scoped Nat.Prime

/-- the D-leaves of the levels `(k, π x⋆]` located in the window `[lo, hi)` -/
noncomputable def dF (x y z k xs : ℕ) (w : LB.Chunk) : ℤ := ∑ b ∈ Ioc k (π xs), WSD x y z b w.1 w.2

theorem dF_additive (x y z k xs : ℕ) : LB.Additive (dF x y z k xs) := by
  intro a b d h1 h2
  unfold dF
  rw [← Finset.sum_add_distrib]
  exact Finset.sum_congr rfl (fun i _ => (WSD_add x y z i a b d h1 h2).symm)

end Pc.Hard
