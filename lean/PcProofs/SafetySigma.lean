/-
C16 / C12 (WP safety2): the closed forms `Sigma0 … Sigma3` of Sigma.cpp never leave `T` — ONE lemma per form, for
abstract naturals `a, b, c, d, ps` and an abstract maximum `tMax`, under hypotheses that the parameter ordering of Gourdon's
algorithm provides (`sigma_closed_hyps`): `d ≤ c ≤ b ≤ a ≤ ps`, `ps² ≤ tMax`, `a (b + 1) ≤ tMax`, `a c² ≤ tMax`, `2 b³ ≤ tMax`.
-/
import PcProofs.LeafSigma
import PcModel.SafetySigma
import PcProofs.SafetyP2Region

namespace Pc.Safety
open Pc Pc.P2L Pc.LB

theorem inS_iff (M : ℕ) (v : ℤ) : inS M v = true ↔ -(M : ℤ) - 1 ≤ v ∧ v ≤ (M : ℤ) := by
  simp [inS]

theorem ckS_ok {M : ℕ} (e : WErr) {v : ℤ} (h1 : -(M : ℤ) - 1 ≤ v) (h2 : v ≤ (M : ℤ)) : ckS M e v = .ok v := by
  unfold ckS; rw [if_pos ((inS_iff M v).2 ⟨h1, h2⟩)]

@[simp] theorem WM_bind_ok {α β : Type} (a : α) (f : α → WM β) : (Except.ok a >>= f) = f a := rfl
@[simp] theorem WM_pure {α : Type} (a : α) : (pure a : WM α) = .ok a := rfl
@[simp] theorem liftL_ok {α : Type} (a : α) : liftL (.ok a : LM α) = .ok a := rfl

/-- `n ≤ n²` -/
theorem le_sq (n : ℕ) : (n : ℤ) ≤ (n : ℤ) * n := by
  rcases Nat.eq_zero_or_pos n with h | h
  · subst h; simp
  · have : (1 : ℤ) ≤ n := by exact_mod_cast h
    nlinarith

/-! ### Σ0 -/

/-- **`Sigma0` never leaves `T`**: `0 ≤ a ≤ pi_sqrtx`, `pi_sqrtx² ≤ tMax` (Sigma.cpp:30-35; `pi_sqrtx = π(√x)`, so
    `pi_sqrtx² ≤ x`) -/
theorem sigma0C_ok (M ps a : ℕ) (hap : a ≤ ps) (hM : ps * ps ≤ M) :
    sigma0C M ps a = .ok (sigma0P ps a) := by
  have hQ : (ps : ℤ) * ps ≤ M := by exact_mod_cast hM
  have hap' : (a : ℤ) ≤ ps := by exact_mod_cast hap
  have h1 := le_sq ps
  have hA0 : 0 ≤ (a : ℤ) * ((a : ℤ) - 1) := by
    have := tri_nonneg a
    omega
  have hAP := pronic_mono hap
  have hP : (ps : ℤ) * ((ps : ℤ) - 1) = (ps : ℤ) * ps - ps := by ring
  have ha0 := Int.natCast_nonneg a
  unfold sigma0C
  rw [if_pos]
  unfold sigma0Vals
  simp only [List.all_cons, List.all_nil, Bool.and_true, Bool.and_eq_true, inS_iff, tdiv_tri]
  generalize (ps : ℤ) * ((ps : ℤ) - 1) = P at *
  generalize (a : ℤ) * ((a : ℤ) - 1) = A at *
  generalize (ps : ℤ) * ps = Q at *
  refine ⟨⟨?_, ?_⟩, ⟨?_, ?_⟩, ⟨?_, ?_⟩, ⟨?_, ?_⟩, ⟨?_, ?_⟩, ⟨?_, ?_⟩, ⟨?_, ?_⟩, ?_, ?_⟩ <;> omega

/-! ### Σ1 -/

/-- **`Sigma1` never leaves `T`**: `b ≤ a`, `a² ≤ tMax` (Sigma.cpp:37-41) -/
theorem sigma1C_ok (M a b : ℕ) (hba : b ≤ a) (hM : a * a ≤ M) :
    sigma1C M a b = .ok (sigma1 a b) := by
  obtain ⟨n, rfl⟩ : ∃ n, a = b + n := ⟨a - b, by omega⟩
  have e : (((b + n : ℕ) : ℤ) - (b : ℤ)) = (n : ℤ) := by push_cast; ring
  have hQ : ((b + n : ℕ) : ℤ) * ((b + n : ℕ) : ℤ) ≤ M := by exact_mod_cast hM
  have hn : (n : ℤ) * n ≤ ((b + n : ℕ) : ℤ) * ((b + n : ℕ) : ℤ) := by
    have : n * n ≤ (b + n) * (b + n) := Nat.mul_le_mul (by omega) (by omega)
    exact_mod_cast this
  have h1 := le_sq n
  have hP0 : 0 ≤ (n : ℤ) * ((n : ℤ) - 1) := by
    have := tri_nonneg n
    omega
  have hP : (n : ℤ) * ((n : ℤ) - 1) = (n : ℤ) * n - n := by ring
  have hn0 := Int.natCast_nonneg n
  unfold sigma1C
  rw [if_pos]
  unfold sigma1Vals
  rw [e]
  simp only [List.all_cons, List.all_nil, Bool.and_true, Bool.and_eq_true, inS_iff, tdiv_tri]
  generalize (n : ℤ) * ((n : ℤ) - 1) = P at *
  generalize (n : ℤ) * n = Q at *
  generalize ((b + n : ℕ) : ℤ) * ((b + n : ℕ) : ℤ) = R at *
  refine ⟨⟨?_, ?_⟩, ⟨?_, ?_⟩, ⟨?_, ?_⟩, ?_, ?_⟩ <;> omega

/-! ### Σ2 -/

/-- `n (n - 3) ≥ -2` -/
theorem g_lb (n : ℕ) : -2 ≤ (n : ℤ) * ((n : ℤ) - 3) := by
  rcases n with _ | _ | n
  · norm_num
  · norm_num
  · have : 0 ≤ ((n : ℤ) + 1) * (n : ℤ) := mul_nonneg (by omega) (by omega)
    push_cast
    nlinarith

/-- `d ≤ c → d (d - 3) ≤ c (c - 3) + 2` (`n (n - 3)` is monotone from `n = 2` on, and `≤ 0` below) -/
theorem g_mono_weak {d c : ℕ} (h : d ≤ c) : (d : ℤ) * ((d : ℤ) - 3) ≤ (c : ℤ) * ((c : ℤ) - 3) + 2 := by
  have hc := g_lb c
  by_cases hd : 2 ≤ d
  · have h1 : (0 : ℤ) ≤ ((c : ℤ) - d) * ((c : ℤ) + d - 3) := mul_nonneg (by omega) (by omega)
    nlinarith
  · have : d = 0 ∨ d = 1 := by omega
    rcases this with rfl | rfl
    · norm_num; omega
    · norm_num; omega

/-- `n (n - 3)` is even -/
theorem g_exact (n : ℕ) : 2 * ((n : ℤ) * ((n : ℤ) - 3) / 2) = (n : ℤ) * ((n : ℤ) - 3) := by
  apply Int.mul_ediv_cancel'
  have h1 : (2 : ℤ) ∣ (n : ℤ) * ((n : ℤ) - 1) := (Int.even_mul_pred_self (n : ℤ)).two_dvd
  have : (n : ℤ) * ((n : ℤ) - 3) = (n : ℤ) * ((n : ℤ) - 1) - 2 * n := by ring
  rw [this]
  exact dvd_sub h1 (dvd_mul_right 2 _)

/-- **`Sigma2` never leaves `T`**: `d ≤ c ≤ b`, `a (b + 1) ≤ tMax`, `a c² ≤ tMax`, `c² ≤ tMax`, `b ≤ tMax`
    (Sigma.cpp:43-47; in `Sigma()`: `a = π(y)`, `b = π(x^(1/3))`, `c = π(√(x/y))`, `d = π(x⋆)`, and `a (b + 1) ≤ y² ≤ x`,
    `a c² ≤ y (x / y) ≤ x`) -/
theorem sigma2C_ok (M a b c d : ℕ) (hM2 : 2 ≤ M) (hdc : d ≤ c) (hcb : c ≤ b) (hab : a * (b + 1) ≤ M)
    (hac : a * (c * c) ≤ M) (hcc : c * c ≤ M) (hbM : b ≤ M) :
    sigma2C M a b c d = .ok (sigma2 a b c d) := by
  have hM2' : (2 : ℤ) ≤ M := by exact_mod_cast hM2
  have hdc' : (d : ℤ) ≤ c := by exact_mod_cast hdc
  have hcb' : (c : ℤ) ≤ b := by exact_mod_cast hcb
  have hbM' : (b : ℤ) ≤ M := by exact_mod_cast hbM
  have hQc : (c : ℤ) * c ≤ M := by exact_mod_cast hcc
  have hQd : (d : ℤ) * d ≤ (c : ℤ) * c := by
    have : d * d ≤ c * c := Nat.mul_le_mul hdc hdc
    exact_mod_cast this
  have hS : (a : ℤ) * ((b : ℤ) + 1) ≤ M := by exact_mod_cast hab
  have hR : (a : ℤ) * ((c : ℤ) * c) ≤ M := by exact_mod_cast hac
  have hc1 := le_sq c
  have hd1 := le_sq d
  have hgc := g_lb c
  have hgd := g_lb d
  have hmono := g_mono_weak hdc
  have hec := g_exact c
  have hed := g_exact d
  have hC3 : (c : ℤ) * ((c : ℤ) - 3) = (c : ℤ) * c - 3 * c := by ring
  have hD3 : (d : ℤ) * ((d : ℤ) - 3) = (d : ℤ) * d - 3 * d := by ring
  have ha0 := Int.natCast_nonneg a
  have hc0 := Int.natCast_nonneg c
  have hd0 := Int.natCast_nonneg d
  -- the inner sum `I` and its bounds
  have hI1 : (b : ℤ) - c - (c : ℤ) * ((c : ℤ) - 3) / 2 + (d : ℤ) * ((d : ℤ) - 3) / 2 ≤ (b : ℤ) + 1 := by omega
  have hI2 : -((c : ℤ) * c) - 2 ≤ 2 * ((b : ℤ) - c - (c : ℤ) * ((c : ℤ) - 3) / 2 + (d : ℤ) * ((d : ℤ) - 3) / 2) := by omega
  have hF1 := mul_le_mul_of_nonneg_left hI1 ha0
  have hF2 := mul_le_mul_of_nonneg_left hI2 ha0
  have h2a : 2 * (a : ℤ) ≤ M ∨ b = 0 := by
    by_cases hb : b = 0
    · exact Or.inr hb
    · left
      have : (2 : ℤ) ≤ (b : ℤ) + 1 := by
        have : 1 ≤ b := Nat.pos_of_ne_zero hb
        omega
      have := mul_le_mul_of_nonneg_left this ha0
      linarith
  unfold sigma2C
  rw [if_pos]
  unfold sigma2Vals
  simp only [List.all_cons, List.all_nil, Bool.and_true, Bool.and_eq_true, inS_iff, tdiv_g]
  rcases h2a with h2a | hb0
  · have hF2' : -((a : ℤ) * ((c : ℤ) * c)) - 2 * a ≤
        2 * ((a : ℤ) * ((b : ℤ) - c - (c : ℤ) * ((c : ℤ) - 3) / 2 + (d : ℤ) * ((d : ℤ) - 3) / 2)) := by
      linarith
    generalize (a : ℤ) * ((b : ℤ) - c - (c : ℤ) * ((c : ℤ) - 3) / 2 + (d : ℤ) * ((d : ℤ) - 3) / 2) = F at *
    generalize (a : ℤ) * ((c : ℤ) * c) = R at *
    generalize (a : ℤ) * ((b : ℤ) + 1) = S at *
    generalize (c : ℤ) * ((c : ℤ) - 3) = C3 at *
    generalize (d : ℤ) * ((d : ℤ) - 3) = D3 at *
    generalize (c : ℤ) * c = Qc at *
    generalize (d : ℤ) * d = Qd at *
    refine ⟨⟨?_, ?_⟩, ⟨?_, ?_⟩, ⟨?_, ?_⟩, ⟨?_, ?_⟩, ⟨?_, ?_⟩, ⟨?_, ?_⟩, ⟨?_, ?_⟩, ⟨?_, ?_⟩, ⟨?_, ?_⟩, ?_, ?_⟩ <;> omega
  · subst hb0
    have hc : c = 0 := by omega
    subst hc
    have hd : d = 0 := by omega
    subst hd
    norm_num
    omega

/-! ### Σ3 -/

/-- `F n = n (n - 1) (2 n - 1) = 6 · Σ_{i<n} i²` -/
theorem F_nonneg (n : ℕ) : 0 ≤ (n : ℤ) * ((n : ℤ) - 1) * (2 * (n : ℤ) - 1) := by
  rcases Nat.eq_zero_or_pos n with h | h
  · subst h; simp
  · have : (1 : ℤ) ≤ n := by exact_mod_cast h
    exact mul_nonneg (mul_nonneg (by omega) (by omega)) (by omega)

theorem F_succ (n : ℕ) : ((n + 1 : ℕ) : ℤ) * (((n + 1 : ℕ) : ℤ) - 1) * (2 * ((n + 1 : ℕ) : ℤ) - 1)
    = (n : ℤ) * ((n : ℤ) - 1) * (2 * (n : ℤ) - 1) + 6 * ((n : ℤ) * n) := by
  push_cast; ring

theorem F_mono {d b : ℕ} (h : d ≤ b) :
    (d : ℤ) * ((d : ℤ) - 1) * (2 * (d : ℤ) - 1) ≤ (b : ℤ) * ((b : ℤ) - 1) * (2 * (b : ℤ) - 1) := by
  induction b, h using Nat.le_induction with
  | base => exact le_refl _
  | succ n _ ih =>
    rw [F_succ]
    have : 0 ≤ (n : ℤ) * n := mul_nonneg (Int.natCast_nonneg n) (Int.natCast_nonneg n)
    omega

theorem F_le (n : ℕ) : (n : ℤ) * ((n : ℤ) - 1) * (2 * (n : ℤ) - 1) ≤ (n : ℤ) * n * (2 * n) := by
  rcases Nat.eq_zero_or_pos n with h | h
  · subst h; simp
  · have h1 : (1 : ℤ) ≤ n := by exact_mod_cast h
    exact mul_le_mul (mul_le_mul_of_nonneg_left (by omega) (by omega)) (by omega) (by omega)
      (mul_nonneg (by omega) (by omega))

/-- from `2 n³ ≤ M`: `n² ≤ M` and `2 n ≤ M` -/
theorem sq_le_of_cube {M n : ℕ} (h : n * n * (2 * n) ≤ M) : (n : ℤ) * n ≤ M ∧ 2 * (n : ℤ) ≤ M := by
  rcases Nat.eq_zero_or_pos n with h0 | h0
  · subst h0; simp
  · have h1 : n * n ≤ n * n * (2 * n) := Nat.le_mul_of_pos_right _ (by omega)
    have h2 : 2 * n ≤ n * n * (2 * n) := Nat.le_mul_of_pos_left _ (Nat.mul_pos h0 h0)
    constructor
    · exact_mod_cast le_trans h1 h
    · exact_mod_cast le_trans h2 h

/-- one half of `Sigma3`: the six values of `(n * (n - 1) * (2 * n - 1)) / 6` lie in `T` when `2 n³ ≤ tMax` -/
theorem sigma3Half_ok {M n : ℕ} (hM1 : 1 ≤ M) (h : n * n * (2 * n) ≤ M) : (sigma3Half n).all (inS M) = true := by
  obtain ⟨h1, h2⟩ := sq_le_of_cube h
  have hM1' : (1 : ℤ) ≤ M := by exact_mod_cast hM1
  have hF0 := F_nonneg n
  have hF1 := F_le n
  have hC : (n : ℤ) * n * (2 * n) ≤ M := by exact_mod_cast h
  have hP0 : 0 ≤ (n : ℤ) * ((n : ℤ) - 1) := by
    have := tri_nonneg n
    omega
  have hP : (n : ℤ) * ((n : ℤ) - 1) = (n : ℤ) * n - n := by ring
  have hn0 := Int.natCast_nonneg n
  unfold sigma3Half
  simp only [List.all_cons, List.all_nil, Bool.and_true, Bool.and_eq_true, inS_iff, tdiv_h]
  generalize (n : ℤ) * ((n : ℤ) - 1) * (2 * (n : ℤ) - 1) = F at *
  generalize (n : ℤ) * ((n : ℤ) - 1) = P at *
  generalize (n : ℤ) * n * (2 * n) = C at *
  generalize (n : ℤ) * n = Q at *
  refine ⟨⟨?_, ?_⟩, ⟨?_, ?_⟩, ⟨?_, ?_⟩, ⟨?_, ?_⟩, ⟨?_, ?_⟩, ?_, ?_⟩ <;> omega

/-- **`Sigma3` never leaves `T`**: `d ≤ b`, `2 b³ ≤ tMax` (Sigma.cpp:49-53; `b = π(x^(1/3)) ≤ (x^(1/3) + 1) / 2`) -/
theorem sigma3C_ok (M b d : ℕ) (hM1 : 1 ≤ M) (hdb : d ≤ b) (hb : b * b * (2 * b) ≤ M) :
    sigma3C M b d = .ok (sigma3 b d) := by
  have hd : d * d * (2 * d) ≤ M :=
    le_trans (Nat.mul_le_mul (Nat.mul_le_mul hdb hdb) (Nat.mul_le_mul_left 2 hdb)) hb
  have hb' := sigma3Half_ok hM1 hb
  have hd' := sigma3Half_ok hM1 hd
  have hdb' : (d : ℤ) ≤ b := by exact_mod_cast hdb
  have hFb0 := F_nonneg b
  have hFd0 := F_nonneg d
  have hmono := F_mono hdb
  have hFb := F_le b
  have hC : (b : ℤ) * b * (2 * b) ≤ M := by exact_mod_cast hb
  have hb0 := Int.natCast_nonneg b
  have hd0 := Int.natCast_nonneg d
  obtain ⟨hb2, hb3⟩ := sq_le_of_cube hb
  unfold sigma3C
  rw [if_pos]
  unfold sigma3Vals
  rw [List.all_append, List.all_append, List.all_append, hb', hd']
  simp only [List.all_cons, List.all_nil, Bool.and_true, Bool.true_and, Bool.and_eq_true, inS_iff, tdiv_h]
  generalize (b : ℤ) * ((b : ℤ) - 1) * (2 * (b : ℤ) - 1) = Fb at *
  generalize (d : ℤ) * ((d : ℤ) - 1) * (2 * (d : ℤ) - 1) = Fd at *
  generalize (b : ℤ) * b * (2 * b) = C at *
  refine ⟨⟨?_, ?_⟩, ⟨?_, ?_⟩, ?_, ?_⟩ <;> omega

end Pc.Safety
