/-
WP p2b, second half — chunks partition the primes of `(y, √x]`, the dispenser loop + reduction of `P2_OpenMP` /
`B_OpenMP` give `Spec.P2` / `Spec.B` for EVERY run, and the glue of `pi_legendre` / `pi_meissel`.

* `visited_iff`      : the index lemma. For `0 < low < high` and every `q > 0`:
                       `start < q ≤ stop  ↔  y < q ≤ √x ∧ low ≤ x / q < high`   (no boundary case is left over).
* `chunkN`, `chunkF` : the additive chunk function `[low, high) ↦ Σ_{q prime, y<q≤√x, low ≤ x/q < high} π(x/q)`.
* `p2Thread_eq_chunk`: `P2_thread(x, y, low, high) = chunkN x y (low, high)`.
* `div_prime_range`  : for a prime `y < q ≤ √x`: `√x ≤ x / q < x / max(y, 1)` — every prime lies in the range the
                       dispenser hands out (`⌊x/q⌋ < ⌊x/y⌋` needs `q² ≤ x`).
* `p2_chunks_total`  : every chain of chunks from `min(√x, x/y)` to `x/y` sums to `Spec.B x y`.
* `region_total`     : the parallel region (any valid `Run`) adds `Spec.B x y` to the initial value.
* `p2OpenMP_eq`, `bOpenMP_eq`, `piLegendre_eq`, `piMeissel_eq`.
-/
import PcProofs.P2Loop
import PcProofs.Dispenser2

namespace Pc.P2L
open Nat Finset Pc.LB
open scoped Nat.Prime

/-! ### the index lemma -/

/-- which `q` a chunk visits: exactly those with `low ≤ ⌊x/q⌋ < high` among `y < q ≤ √x` -/
theorem visited_iff {x y low high q : ℕ} (hlow : 0 < low) (hlh : low < high) (hq : 0 < q) :
    (thrStart x y high < q ∧ q ≤ thrStop x low) ↔
      (y < q ∧ q ≤ Nat.sqrt x ∧ low ≤ x / q ∧ x / q < high) := by
  unfold thrStart thrStop
  rw [isqrtN_eq]
  have hhigh : 0 < high := by omega
  have e1 : x / high < q ↔ x / q < high := by
    rw [Nat.div_lt_iff_lt_mul hhigh, Nat.div_lt_iff_lt_mul hq, Nat.mul_comm]
  have e2 : q ≤ x / low ↔ low ≤ x / q := by
    rw [Nat.le_div_iff_mul_le hlow, Nat.le_div_iff_mul_le hq, Nat.mul_comm]
  constructor
  · rintro ⟨h1, h2⟩
    have h3 : q ≤ x / low := le_trans h2 (Nat.min_le_left _ _)
    have h4 : q ≤ Nat.sqrt x := le_trans h2 (Nat.min_le_right _ _)
    have h5 : y < q := lt_of_le_of_lt (Nat.le_max_left _ _) h1
    have h6 : min (x / high) (Nat.sqrt x) < q := lt_of_le_of_lt (Nat.le_max_right _ _) h1
    have h7 : x / high < q := by
      rcases Nat.le_total (x / high) (Nat.sqrt x) with h | h
      · rwa [Nat.min_eq_left h] at h6
      · rw [Nat.min_eq_right h] at h6; omega
    exact ⟨h5, h4, e2.1 h3, e1.1 h7⟩
  · rintro ⟨h1, h2, h3, h4⟩
    have h5 := e1.2 h4
    have h6 := e2.2 h3
    refine ⟨?_, Nat.le_min.2 ⟨h6, h2⟩⟩
    have : min (x / high) (Nat.sqrt x) ≤ x / high := Nat.min_le_left _ _
    exact Nat.max_lt.2 ⟨h1, by omega⟩

/-- the narrowing `xp = (uint64_t)(x / prime)` is exact: every quotient a chunk computes is below `high` (an
    `int64_t`) -/
theorem visited_div_lt_high {x y low high q : ℕ} (hlow : 0 < low) (hlh : low < high) (hq : 0 < q)
    (h1 : thrStart x y high < q) (h2 : q ≤ thrStop x low) : x / q < high :=
  ((visited_iff hlow hlh hq).1 ⟨h1, h2⟩).2.2.2

/-- the primes of `(y, √x]` whose quotient lies in the chunk -/
noncomputable def chunkSet (x y : ℕ) (c : Chunk) : Finset ℕ :=
  ((Ioc y (Nat.sqrt x)).filter Nat.Prime).filter (fun q => c.1 ≤ x / q ∧ x / q < c.2)

/-- the chunk function the code must compute -/
noncomputable def chunkN (x y : ℕ) (c : Chunk) : ℕ := ∑ q ∈ chunkSet x y c, π (x / q)

noncomputable def chunkF (x y : ℕ) (c : Chunk) : ℤ := (chunkN x y c : ℤ)

theorem chunkSet_eq {x y low high : ℕ} (hlow : 0 < low) (hlh : low < high) :
    (Ioc (thrStart x y high) (thrStop x low)).filter Nat.Prime = chunkSet x y (low, high) := by
  ext q
  simp only [chunkSet, mem_filter, mem_Ioc]
  constructor
  · rintro ⟨h, hq⟩
    have := (visited_iff (y := y) hlow hlh hq.pos).1 h
    exact ⟨⟨⟨this.1, this.2.1⟩, hq⟩, this.2.2⟩
  · rintro ⟨⟨⟨h1, h2⟩, hq⟩, h3⟩
    exact ⟨(visited_iff hlow hlh hq.pos).2 ⟨h1, h2, h3⟩, hq⟩

/-- **`chunk_additive` as refinement of the code's loop bounds**: `P2_thread` computes the additive chunk function -/
theorem p2Thread_eq_chunk {it : Iter} (hit : IterSpec it) {pi : ℕ → ℕ} {x : ℕ} (hpi : ∀ n, n < x → pi n = π n)
    (y : ℕ) {low high : ℕ} (hlow : 0 < low) (hlh : low < high) :
    p2Thread it pi x y low high = .ok (chunkN x y (low, high)) := by
  rw [p2Thread_eq hit hpi y hlow hlh, chunkSet_eq hlow hlh]; rfl

theorem chunkF_additive (x y : ℕ) : Additive (chunkF x y) := by
  intro a b c hab hbc
  unfold chunkF chunkN chunkSet
  rw [← Nat.cast_add]
  congr 1
  have key : ∀ S : Finset ℕ, ∑ q ∈ S.filter (fun q => a ≤ x / q ∧ x / q < c), π (x / q) =
      ∑ q ∈ S.filter (fun q => a ≤ x / q ∧ x / q < b), π (x / q) +
        ∑ q ∈ S.filter (fun q => b ≤ x / q ∧ x / q < c), π (x / q) := by
    intro S
    rw [Finset.sum_filter, Finset.sum_filter, Finset.sum_filter, ← Finset.sum_add_distrib]
    apply Finset.sum_congr rfl
    intro q _
    by_cases h1 : x / q < b
    · have n2 : ¬ (b ≤ x / q ∧ x / q < c) := by omega
      by_cases h3 : a ≤ x / q
      · rw [if_pos ⟨h3, by omega⟩, if_pos ⟨h3, h1⟩, if_neg n2, Nat.add_zero]
      · rw [if_neg (by omega), if_neg (by omega), if_neg n2, Nat.add_zero]
    · have n1 : ¬ (a ≤ x / q ∧ x / q < b) := by omega
      by_cases h3 : x / q < c
      · rw [if_pos ⟨by omega, h3⟩, if_neg n1, if_pos ⟨by omega, h3⟩, Nat.zero_add]
      · rw [if_neg (by omega), if_neg n1, if_neg (by omega), Nat.add_zero]
  exact key _

/-- for a prime `q` with `y < q ≤ √x` the quotient `⌊x/q⌋` lies in `[√x, ⌊x / max(y,1)⌋)`: the range
    `LoadBalancerP2` hands out. (The upper bound is strict because `q ≤ ⌊x/q⌋`, i.e. `q² ≤ x`.) -/
theorem div_prime_range {x y q : ℕ} (hq : q.Prime) (h1 : y < q) (h2 : q ≤ Nat.sqrt x) :
    Nat.sqrt x ≤ x / q ∧ x / q < x / max y 1 := by
  have hqpos := hq.pos
  have hsq : Nat.sqrt x * Nat.sqrt x ≤ x := Nat.sqrt_le x
  have hqq : q * q ≤ x := le_trans (Nat.mul_le_mul h2 h2) hsq
  constructor
  · rw [Nat.le_div_iff_mul_le hqpos]
    exact le_trans (Nat.mul_le_mul_left _ h2) hsq
  · have hY1 : 1 ≤ max y 1 := Nat.le_max_right _ _
    have hYq : max y 1 + 1 ≤ q := by
      have := hq.two_le
      rcases Nat.le_total y 1 with h | h
      · rw [Nat.max_eq_right h]; omega
      · rw [Nat.max_eq_left h]; omega
    have hk : q ≤ x / q := (Nat.le_div_iff_mul_le hqpos).2 hqq
    have hkq : x / q * q ≤ x := Nat.div_mul_le_self x q
    rw [Nat.lt_iff_add_one_le, Nat.le_div_iff_mul_le (by omega)]
    calc (x / q + 1) * max y 1 = x / q * max y 1 + max y 1 := by ring
      _ ≤ x / q * max y 1 + x / q := by omega
      _ = x / q * (max y 1 + 1) := by ring
      _ ≤ x / q * q := Nat.mul_le_mul_left _ hYq
      _ ≤ x := hkq

/-- over the whole range handed out by the dispenser the chunk function is Gourdon's `B(x, y)` -/
theorem chunkF_whole (x y : ℕ) :
    chunkF x y (min (Nat.sqrt x) (x / max y 1), x / max y 1) = Spec.B x y := by
  unfold chunkF chunkN Spec.B
  rw [Nat.cast_sum]
  apply Finset.sum_congr _ (fun _ _ => rfl)
  unfold chunkSet
  apply Finset.filter_true_of_mem
  intro q hq
  rw [mem_filter, mem_Ioc] at hq
  obtain ⟨h1, h2⟩ := div_prime_range hq.2 hq.1.1 hq.1.2
  exact ⟨le_trans (Nat.min_le_left _ _) h1, h2⟩

/-! ### chains of chunks -/

theorem Chain.mem_bounds {a b : ℕ} {cs : List Chunk} (h : Chain a b cs) :
    ∀ c ∈ cs, a ≤ c.1 ∧ c.1 < c.2 ∧ c.2 ≤ b := by
  induction cs generalizing a with
  | nil => intro c hc; simp at hc
  | cons d cs ih =>
    obtain ⟨l, hh⟩ := d
    simp only [Chain] at h
    obtain ⟨rfl, hlt, hc⟩ := h
    intro c hcm
    rcases List.mem_cons.1 hcm with rfl | hcm
    · exact ⟨Nat.le_refl _, hlt, Chain.le hc⟩
    · have := ih hc c hcm
      exact ⟨by omega, this.2.1, this.2.2⟩

theorem sumF_congr {f g : Chunk → ℤ} {cs : List Chunk} (h : ∀ c ∈ cs, f c = g c) : sumF f cs = sumF g cs := by
  induction cs with
  | nil => rfl
  | cons c cs ih =>
    simp only [sumF]
    rw [h c List.mem_cons_self, ih (fun d hd => h d (List.mem_cons_of_mem _ hd))]

/-- the start of the dispenser is positive whenever it hands out anything (`x ≥ 4`) -/
theorem chain_low_pos {x y : ℕ} (hx : 4 ≤ x) {cs : List Chunk}
    (h : Chain (min (Nat.sqrt x) (x / max y 1)) (x / max y 1) cs) : ∀ c ∈ cs, 0 < c.1 ∧ c.1 < c.2 := by
  intro c hc
  obtain ⟨h1, h2, h3⟩ := Chain.mem_bounds h c hc
  have hs : 2 ≤ Nat.sqrt x := Nat.le_sqrt.2 (by omega)
  refine ⟨?_, h2⟩
  rcases Nat.le_total (Nat.sqrt x) (x / max y 1) with h | h
  · rw [Nat.min_eq_left h] at h1; omega
  · rw [Nat.min_eq_right h] at h1; omega

/-- **`p2_chunks_total`**: for EVERY chain of chunks from `min(√x, x/y)` (where `LoadBalancerP2` starts: `low_ =
    min(isqrt(x), sieve_limit)`) to `x / max(y,1)`: each chunk evaluates without fault to the chunk function, and
    the values add up to `Σ_{q prime, y < q ≤ √x} π(x / q)`. -/
theorem p2_chunks_total {it : Iter} (hit : IterSpec it) {pi : ℕ → ℕ} {x : ℕ} (hpi : ∀ n, n < x → pi n = π n)
    (y : ℕ) (hx : 4 ≤ x) {cs : List Chunk}
    (h : Chain (min (Nat.sqrt x) (x / max y 1)) (x / max y 1) cs) :
    (∀ c ∈ cs, p2Thread it pi x y c.1 c.2 = .ok (chunkN x y c)) ∧
      sumF (chunkF x y) cs = Spec.B x y := by
  constructor
  · intro c hc
    obtain ⟨h1, h2⟩ := chain_low_pos hx h c hc
    exact p2Thread_eq_chunk hit hpi y h1 h2
  · have := Chain.sum_additive (chunkF_additive x y) h
    rw [(chunkF_additive x y).empty, chunkF_whole] at this
    omega

/-! ### the parallel region: private sums and the reduction -/

/-- private sum of thread `w` for a fault-free chunk function `g` -/
def privN (g : Chunk → ℕ) (w : ℕ) : List P2.Ev → ℕ
  | [] => 0
  | e :: es => (if e.work && e.w == w then g (e.low, e.high) else 0) + privN g w es

/-- sum of the chunk values of a history -/
def totalN (g : Chunk → ℕ) : List P2.Ev → ℕ
  | [] => 0
  | e :: es => (if e.work then g (e.low, e.high) else 0) + totalN g es

theorem privSum_ok {f : ℕ → ℕ → Except Err ℕ} {g : Chunk → ℕ} (w : ℕ) :
    ∀ es : List P2.Ev, (∀ e ∈ es, e.work = true → f e.low e.high = .ok (g (e.low, e.high))) →
      privSum f w es = .ok (privN g w es) := by
  intro es
  induction es with
  | nil => intro _; rfl
  | cons e es ih =>
    intro h
    have ih' := ih (fun d hd => h d (List.mem_cons_of_mem _ hd))
    simp only [privSum, privN]
    by_cases hc : (e.work && e.w == w) = true
    · have hw : e.work = true := by
        simp only [Bool.and_eq_true] at hc; exact hc.1
      rw [if_pos hc, if_pos hc, h e List.mem_cons_self hw, ih']
    · rw [if_neg hc, if_neg hc, ih', Nat.zero_add]

theorem reduce_ok {f : ℕ → ℕ → Except Err ℕ} {g : Chunk → ℕ} (es : List P2.Ev)
    (h : ∀ e ∈ es, e.work = true → f e.low e.high = .ok (g (e.low, e.high))) :
    ∀ (ws : List ℕ) (init : ℤ),
      reduce f es init ws = .ok (init + ((ws.map (fun w => privN g w es)).sum : ℕ)) := by
  intro ws
  induction ws with
  | nil => intro init; simp [reduce]
  | cons w ws ih =>
    intro init
    simp only [reduce, privSum_ok w es h, ih, List.map_cons, List.sum_cons]
    congr 1
    push_cast
    ring

theorem sum_map_ite_eq {ws : List ℕ} (hnd : ws.Nodup) {a : ℕ} (ha : a ∈ ws) (v : ℕ) :
    (ws.map (fun w => if a = w then v else 0)).sum = v := by
  induction ws with
  | nil => simp at ha
  | cons w ws ih =>
    rw [List.nodup_cons] at hnd
    simp only [List.map_cons, List.sum_cons]
    rcases List.mem_cons.1 ha with rfl | ha'
    · have : (ws.map (fun w => if a = w then v else 0)).sum = 0 := by
        apply List.sum_eq_zero
        intro t ht
        obtain ⟨u, hu, rfl⟩ := List.mem_map.1 ht
        rw [if_neg]; rintro rfl; exact hnd.1 hu
      rw [if_pos rfl, this, Nat.add_zero]
    · have hne : a ≠ w := by rintro rfl; exact hnd.1 ha'
      rw [if_neg hne, ih hnd.2 ha', Nat.zero_add]

/-- every chunk is counted by exactly one thread of the reduction -/
theorem sum_privN {g : Chunk → ℕ} {ws : List ℕ} (hnd : ws.Nodup) :
    ∀ es : List P2.Ev, (∀ e ∈ es, e.work = true → e.w ∈ ws) →
      (ws.map (fun w => privN g w es)).sum = totalN g es := by
  intro es
  induction es with
  | nil => intro _; simp [privN, totalN]
  | cons e es ih =>
    intro h
    have ih' := ih (fun d hd => h d (List.mem_cons_of_mem _ hd))
    simp only [privN, totalN]
    rw [List.sum_map_add, ih']
    congr 1
    by_cases hw : e.work = true
    · have hmem := h e List.mem_cons_self hw
      have : (fun w => if (e.work && e.w == w) = true then g (e.low, e.high) else 0) =
          (fun w => if e.w = w then g (e.low, e.high) else 0) := by
        funext w; simp [hw]
      rw [this, sum_map_ite_eq hnd hmem, if_pos hw]
    · have : (fun w => if (e.work && e.w == w) = true then g (e.low, e.high) else 0) = fun _ => 0 := by
        funext w; simp [hw]
      rw [this, if_neg hw]; simp

theorem totalN_eq_sumF (g : Chunk → ℕ) (cfg : P2.Config) (es : List P2.Ev) :
    ((totalN g es : ℕ) : ℤ) = sumF (fun c => (g c : ℤ)) ((P2.sys cfg).chunks es) := by
  induction es with
  | nil => rfl
  | cons e es ih =>
    simp only [totalN, Sys.chunks]
    have hc : (P2.sys cfg).chunk e = P2.chunkOf e := rfl
    rw [hc]
    unfold P2.chunkOf
    by_cases hw : e.work = true
    · simp only [hw, if_true, sumF]; push_cast; rw [ih]
    · simp only [hw]; push_cast; rw [ih]; simp

theorem work_mem_chunks (cfg : P2.Config) (es : List P2.Ev) :
    ∀ e ∈ es, e.work = true → (e.low, e.high) ∈ (P2.sys cfg).chunks es := by
  induction es with
  | nil => intro e he; simp at he
  | cons d es ih =>
    intro e he hw
    have hc : (P2.sys cfg).chunk d = P2.chunkOf d := rfl
    simp only [Sys.chunks, hc]
    unfold P2.chunkOf
    rcases List.mem_cons.1 he with rfl | he'
    · simp [hw]
    · have := ih e he' hw
      split
      · exact List.mem_cons_of_mem _ this
      · exact this

theorem valid_parts {c : Consts} {x limit : ℕ} {r : Run} (h : r.valid c x limit = true) :
    (P2.sys ⟨limit, r.team, r.print⟩).accepts (P2.init c x limit r.team) r.es = true ∧
    limit ≤ ((P2.sys ⟨limit, r.team, r.print⟩).final (P2.init c x limit r.team) r.es).low ∧
    r.order.Nodup ∧ ∀ e ∈ r.es, e.work = true → e.w ∈ r.order := by
  simp only [Run.valid, Bool.and_eq_true, decide_eq_true_eq, List.all_eq_true, Bool.or_eq_true,
    Bool.not_eq_true', List.contains_iff_mem] at h
  refine ⟨h.1.1.1, h.1.1.2, h.1.2, ?_⟩
  intro e he hw
  rcases h.2 e he with h' | h'
  · rw [hw] at h'; cases h'
  · exact h'

/-- **the parallel region**: whatever the team, the order of the `get_work` calls, the clock and the order of
    the reduction — the region adds `B(x, y) = Σ_{q prime, y < q ≤ √x} π(x/q)` to the initial value of `sum` -/
theorem region_total {it : Iter} (hit : IterSpec it) {pi : ℕ → ℕ} {x : ℕ} (hpi : ∀ n, n < x → pi n = π n)
    (y : ℕ) (hx : 4 ≤ x) (c : Consts) (hc : c.WF) (r : Run) (hv : r.valid c x (x / max y 1) = true) (init : ℤ) :
    reduce (p2Thread it pi x y) r.es init r.order = .ok (init + Spec.B x y) := by
  obtain ⟨hacc, hdone, hnd, hmem⟩ := valid_parts hv
  set limit := x / max y 1 with hlimit
  set cfg : P2.Config := ⟨limit, r.team, r.print⟩
  have hch := Sys.covers (P2.law cfg) _ r.es (P2.init_inv c hc cfg x limit r.team) hacc
    (P2.init_low_le c x limit r.team) hdone
  have hpos : (P2.sys cfg).pos (P2.init c x limit r.team) = min (Nat.sqrt x) limit := by
    show min (ctSqrt x) limit = _
    rw [ctSqrt_eq_sqrt]
  have hlim : (P2.sys cfg).limit = limit := rfl
  rw [hpos, hlim] at hch
  obtain ⟨hok, hsum⟩ := p2_chunks_total hit hpi y hx hch
  have hev : ∀ e ∈ r.es, e.work = true → p2Thread it pi x y e.low e.high = .ok (chunkN x y (e.low, e.high)) :=
    fun e he hw => hok _ (work_mem_chunks cfg r.es e he hw)
  rw [reduce_ok r.es hev, sum_privN hnd r.es hmem, totalN_eq_sumF (chunkN x y) cfg]
  have : sumF (fun c => ((chunkN x y c : ℕ) : ℤ)) ((P2.sys cfg).chunks r.es) = Spec.B x y := hsum
  rw [this]

/-! ### `P2_OpenMP`, `B_OpenMP` -/

theorem tdiv_closed (a : ℕ) :
    Int.tdiv (((a : ℤ) - 2) * ((a : ℤ) + 1)) 2 = ((a : ℤ) * ((a : ℤ) - 1)) / 2 - 1 := by
  obtain ⟨k, hk⟩ := Int.even_mul_succ_self ((a : ℤ) - 1)
  have e1 : (a : ℤ) * ((a : ℤ) - 1) = 2 * k := by
    have : ((a : ℤ) - 1) * ((a : ℤ) - 1 + 1) = (a : ℤ) * ((a : ℤ) - 1) := by ring
    rw [← this, hk]; ring
  have e2 : ((a : ℤ) - 2) * ((a : ℤ) + 1) = 2 * (k - 1) := by
    have : ((a : ℤ) - 2) * ((a : ℤ) + 1) = (a : ℤ) * ((a : ℤ) - 1) - 2 := by ring
    rw [this, e1]; ring
  rw [e1, e2, Int.mul_tdiv_cancel_left _ (by norm_num), Int.mul_ediv_cancel_left _ (by norm_num)]

/-- the closed form of P2.cpp:109 is `Σ_{a < i ≤ b} -(i - 1)` -/
theorem p2Init_eq (a b : ℕ) :
    p2Init a b = ((a : ℤ) * ((a : ℤ) - 1)) / 2 - ((b : ℤ) * ((b : ℤ) - 1)) / 2 := by
  unfold p2Init
  rw [tdiv_closed, tdiv_closed]; ring

theorem P2_eq_zero_of_pi_sqrt_le {x a : ℕ} (h : π (Nat.sqrt x) ≤ a) : Spec.P2 x a = 0 := by
  rw [Spec.P2_sum]
  apply Finset.sum_eq_zero
  intro q hq
  rw [Spec.mem_primesGt] at hq
  have := Spec.pi_mono hq.2.2
  omega

theorem P2_eq_B_sub {x y : ℕ} (h : y ≤ Nat.sqrt x) :
    (Spec.P2 x (π y) : ℤ) = Spec.B x y + (((π y : ℤ) * ((π y : ℤ) - 1)) / 2 -
      ((π (Nat.sqrt x) : ℤ) * ((π (Nat.sqrt x) : ℤ) - 1)) / 2) := by
  have := Spec.gourdon_B_sigma0_of_le x y h
  unfold Spec.Sigma0 at this
  omega

/-- **`P2_OpenMP(x, y, a, …) = P2(x, a)`** for every run of the parallel region -/
theorem p2OpenMP_eq {it : Iter} (hit : IterSpec it) {pi : ℕ → ℕ} {x y a : ℕ} (hpi : ∀ n, n < x → pi n = π n)
    (ha : a = π y) (hya : pi y = a) (c : Consts) (hc : c.WF) (hxy : x / max y 1 < two63) (r : Run)
    (hv : 4 ≤ x → y < Nat.sqrt x → r.valid c x (x / max y 1) = true) :
    p2OpenMP c it pi x y a r = .ok (Spec.P2 x a : ℤ) := by
  unfold p2OpenMP
  rw [if_neg (by rw [hya]; exact fun h => h rfl)]
  by_cases hx : x < 4
  · rw [if_pos hx]
    have hs : Nat.sqrt x ≤ 1 := by
      by_contra hcon
      have : 2 ≤ Nat.sqrt x := by omega
      have := Nat.le_sqrt.1 this
      omega
    have : π (Nat.sqrt x) ≤ a := by
      have h1 := Spec.pi_mono hs
      have h2 : π 1 = 0 := by decide
      omega
    rw [P2_eq_zero_of_pi_sqrt_le this]; rfl
  · rw [if_neg hx]
    simp only
    rw [isqrtN_eq]
    by_cases hy : Nat.sqrt x ≤ y
    · rw [if_pos hy]
      have : π (Nat.sqrt x) ≤ a := by rw [ha]; exact Spec.pi_mono hy
      rw [P2_eq_zero_of_pi_sqrt_le this]; rfl
    · rw [if_neg hy, if_neg (by omega)]
      have hv' := hv (by omega) (by omega)
      rw [hv']
      simp only [Bool.not_true, Bool.false_eq_true, if_false]
      rw [region_total hit hpi y (by omega) c hc r hv']
      have hs : Nat.sqrt x < x := Nat.sqrt_lt_self (by omega)
      rw [hpi _ hs, p2Init_eq, ha, P2_eq_B_sub (by omega)]
      congr 1; ring

/-- **`B_OpenMP(x, y, …) = B(x, y)`** for every run of the parallel region -/
theorem bOpenMP_eq {it : Iter} (hit : IterSpec it) {pi : ℕ → ℕ} {x : ℕ} (hpi : ∀ n, n < x → pi n = π n)
    (y : ℕ) (c : Consts) (hc : c.WF) (hxy : x / max y 1 < two63) (r : Run)
    (hv : 4 ≤ x → r.valid c x (x / max y 1) = true) :
    bOpenMP c it pi x y r = .ok (Spec.B x y) := by
  unfold bOpenMP
  by_cases hx : x < 4
  · rw [if_pos hx]
    have hs : Nat.sqrt x ≤ 1 := by
      by_contra hcon
      have : 2 ≤ Nat.sqrt x := by omega
      have := Nat.le_sqrt.1 this
      omega
    have : Spec.B x y = 0 := by
      unfold Spec.B
      apply Finset.sum_eq_zero
      intro q hq
      rw [mem_filter, mem_Ioc] at hq
      have := hq.2.two_le
      omega
    rw [this]
  · rw [if_neg hx]
    simp only
    rw [if_neg (by omega)]
    have hv' := hv (by omega)
    rw [hv']
    simp only [Bool.not_true, Bool.false_eq_true, if_false]
    unfold bThread
    rw [region_total hit hpi y (by omega) c hc r hv', Int.zero_add]

/-! ### glue -/

/-- `pi_legendre(x) = π(x)` given `phi` -/
theorem piLegendre_eq {phi : ℕ → ℕ → ℕ} {pi : ℕ → ℕ} {x : ℕ} (hpi : ∀ n, n < x → pi n = π n)
    (hphi : phi x (π (Nat.sqrt x)) = Spec.phi x (π (Nat.sqrt x))) :
    piLegendre phi pi x = (π x : ℤ) := by
  unfold piLegendre
  by_cases hx : x < 2
  · rw [if_pos hx]
    have : π x = 0 := by
      interval_cases x <;> decide
    rw [this]; rfl
  · rw [if_neg hx]
    simp only
    rw [isqrtN_eq, hpi _ (Nat.sqrt_lt_self (by omega)), hphi]
    have := Spec.legendre_add (x := x) rfl (by omega)
    omega

/-- `pi_meissel(x) = π(x)` given `phi`, for every run of `P2`'s parallel region -/
theorem piMeissel_eq {it : Iter} (hit : IterSpec it) {phi : ℕ → ℕ → ℕ} {pi : ℕ → ℕ} {x : ℕ}
    (hpi : ∀ n, n < x → pi n = π n)
    (hphi : phi x (π (irootN 3 x)) = Spec.phi x (π (irootN 3 x)))
    (c : Consts) (hc : c.WF) (hxy : x / max (irootN 3 x) 1 < two63) (r : Run)
    (hv : 4 ≤ x → irootN 3 x < Nat.sqrt x → r.valid c x (x / max (irootN 3 x) 1) = true) :
    piMeissel c it phi pi x r = .ok (π x : ℤ) := by
  unfold piMeissel
  by_cases hx : x < 2
  · rw [if_pos hx]
    have : π x = 0 := by
      interval_cases x <;> decide
    rw [this]; rfl
  · rw [if_neg hx]
    simp only
    obtain ⟨h1, h2⟩ := irootN_spec 3 x (by omega)
    have hyx : irootN 3 x < x := by
      by_contra hcon
      have h3 : x ≤ irootN 3 x := by omega
      have hr : 2 ≤ irootN 3 x := by omega
      have h1' : irootN 3 x * irootN 3 x * irootN 3 x ≤ x := by
        have : irootN 3 x ^ 3 = irootN 3 x * irootN 3 x * irootN 3 x := by ring
        omega
      have h4 : 4 ≤ irootN 3 x * irootN 3 x := Nat.mul_le_mul hr hr
      have h5 : 4 * irootN 3 x ≤ irootN 3 x * irootN 3 x * irootN 3 x := Nat.mul_le_mul_right _ h4
      omega
    have hpy := hpi _ hyx
    rw [hpy, p2OpenMP_eq hit hpi rfl hpy c hc hxy r hv]
    simp only
    rw [hphi]
    have := Spec.meissel_pi_add (x := x) (y := irootN 3 x) (by omega) (by omega) h2
    congr 1
    omega

end Pc.P2L
