/-
C18 core, second half: `Erat::crossOff()` as a whole (see PsCore2Cross.lean for the three stages).
-/
import PcProofs.PsCore2Cross

namespace Pc.PsCore
open Pc.PsWheelSpec
open Pc.Sieve (Bytes bitAt)

/-- the cofactor of the least prime factor of a composite `x` coprime to 30 whose least prime factor is `> 163` -/
theorem cofactor_coprime (x : ℕ) (hx : 2 ≤ x) (hnp : ¬ Nat.Prime x) (hq : 163 < x.minFac) :
    x.minFac ≤ x / x.minFac ∧ Nat.Coprime (x / x.minFac) 210 ∧ Nat.Coprime (x / x.minFac) 30 ∧ x.minFac * (x / x.minFac) = x ∧
    x.minFac * x.minFac ≤ x ∧ Nat.Prime x.minFac := by
  obtain ⟨h1, h2, h3, h4, _, h6⟩ := cofactor_facts x hx hnp
  have hc : Nat.Coprime (x / x.minFac) 210 :=
    coprime_210_of_factors _ (by omega) (fun r hr hrd => by have := h6 r hr hrd; omega)
  exact ⟨h3, hc, Nat.Coprime.coprime_dvd_right (by norm_num) hc, h2, h4, h1⟩

structure CrossRes (e e2 : Erat) (stop H : ℕ) (P : ℕ → Prop) : Prop where
  size_eq : e2.sieve.size = e.sieve.size
  bytes : (∀ k, e.sieve.getD k 0 < 256) → ∀ k, e2.sieve.getD k 0 < 256
  mono : ∀ p, bitAt e2.sieve p = true → bitAt e.sieve p = true
  sound : ∀ p, bitAt e.sieve p = true → Nat.Prime (numOf e.segmentLow p) → bitAt e2.sieve p = true
  complete : ∀ p, p < 8 * e.sieve.size → numOf e.segmentLow p ≤ H → numOf e.segmentLow p ≤ stop →
    ¬ Nat.Prime (numOf e.segmentLow p) → 163 < (numOf e.segmentLow p).minFac → bitAt e2.sieve p = false
  next : (e.big = #[] ∨ e.sieve.size = 2 ^ e.log2) →
    BigOk (e.segmentLow + 30 * e.sieve.size) e.log2 e2.big ∧
    (∀ q u, BigHas (e.segmentLow + 30 * e.sieve.size) e.log2 e2.big q u → q ≤ u) ∧
    ∃ gsS' gsM', ListInv (e.segmentLow + 30 * e.sieve.size) e2.small gsS' ∧
      ListInv (e.segmentLow + 30 * e.sieve.size) e2.medium gsM' ∧
      Cover (e.segmentLow + 30 * e.sieve.size) e.log2 stop e2.big gsS' gsM' P

/-- **`Erat::crossOff()`** on an array `e.sieve` (the pre-sieved segment, possibly shortened in the last segment) -/
theorem crossOff_spec (e : Erat) (hL : 30 ∣ e.segmentLow) (hl1 : 0 < e.l1) (hsz : e.sieve.size ≤ 2 ^ 23) (hlog : e.log2 ≤ 23)
    (hbsz : e.big = #[] ∨ e.sieve.size ≤ 2 ^ e.log2) (gsS gsM : List (ℕ × ℕ))
    (hS : ListInv e.segmentLow e.small gsS) (hM : ListInv e.segmentLow e.medium gsM)
    (hok : BigOk e.segmentLow e.log2 e.big) (hsound : ∀ q u, BigHas e.segmentLow e.log2 e.big q u → q ≤ u)
    (stop H : ℕ) (P : ℕ → Prop) (hcov : Cover e.segmentLow e.log2 stop e.big gsS gsM P)
    (hP : ∀ q, Nat.Prime q → 163 < q → q * q ≤ H → P q) :
    CrossRes e e.crossOff stop H P := by
  rw [crossOff_eq]
  obtain ⟨gsS', s1, s2, s3, s4, s5⟩ := stageS_spec e hL hl1 hsz gsS hS
  set e1 := stageS e with he1
  have hM1 : ListInv e1.segmentLow e1.medium gsM := by rw [he1]; simpa using hM
  obtain ⟨gsM', m1, m2, m3, m4, m5⟩ := stageM_spec e1 (by rw [he1]; simpa using hL) (by rw [s4]; exact hsz) gsM hM1
  set e2 := stageM e1 with he2
  have hL2 : 30 ∣ e2.segmentLow := by rw [he2, he1]; simpa using hL
  have hsz2 : e2.sieve.size = e.sieve.size := by rw [m4, s4]
  have hbig2 : e2.big = e.big := by rw [he2, he1]; simp
  have hlow2 : e2.segmentLow = e.segmentLow := by rw [he2, he1]; simp
  have hlog2 : e2.log2 = e.log2 := by rw [he2, he1]; simp
  obtain ⟨b1, b2, b3, b4⟩ := stageB_spec e2 hL2 (by rw [hlog2]; exact hlog)
    (by rw [hbig2, hsz2, hlog2]; exact hbsz) (by rw [hbig2, hlow2, hlog2]; exact hok)
  set e3 := stageB e2 with he3
  have hlow1 : e1.segmentLow = e.segmentLow := by rw [he1]; simp
  rw [hlow1] at m1 m2 m3
  rw [s4] at m1 m2
  rw [hlow2, hlog2, hbig2] at b3 b4
  rw [hsz2] at b4
  refine ⟨by rw [b1, hsz2], fun hb => b2 (m5 (s5 hb)), ?_, ?_, ?_, ?_⟩
  · intro p hp
    exact ((s3 p).mp ((m3 p).mp ((b3 p).mp hp).1).1).1
  · intro p hp hpr
    rw [b3 p, m3 p, s3 p]
    refine ⟨⟨⟨hp, list_sound hS p hpr⟩, list_sound hM p hpr⟩, ?_⟩
    rintro ⟨q, u, t, hh, hut, _, hqt⟩
    have hqu := hsound q u hh
    have hq30 : 30 ≤ q := by
      obtain ⟨k, sp, _, _, hst⟩ := hh
      exact hst.q_ge
    rw [← hqt] at hpr
    exact Nat.not_prime_mul (by omega) (by omega) hpr
  · intro p hp hH hstop hnp hmf
    set x := numOf e.segmentLow p with hx
    have hx2 : 2 ≤ x := by have := numOf_bounds e.segmentLow p; omega
    obtain ⟨c1, c2, c3, c4, c5, c6⟩ := cofactor_coprime x hx2 hnp hmf
    have hPq : P x.minFac := hP _ c6 hmf (le_trans c5 hH)
    by_contra hbit
    have hbit : bitAt e3.sieve p = true := by simpa using hbit
    have hb3 := (b3 p).mp hbit
    have hm3 := (m3 p).mp hb3.1
    have hs3 := (s3 p).mp hm3.1
    rcases hcov _ hPq with ⟨g, hg, e⟩ | ⟨g, hg, e⟩ | ⟨u, hu, hpend⟩ | hn
    · obtain ⟨i, hi, hhit⟩ := list_complete hL hS s1 s2 g hg (x / x.minFac) p (by rw [e]; exact c1) c3 (by rw [e]; exact c4) hp
      exact hs3.2 i hi hhit
    · obtain ⟨i, hi, hhit⟩ := list_complete hL hM m1 m2 g hg (x / x.minFac) p (by rw [e]; exact c1) c3 (by rw [e]; exact c4) hp
      exact hm3.2 i hi hhit
    · apply hb3.2
      have hlow : e.segmentLow + 6 < x.minFac * (x / x.minFac) := by
        rw [c4]; have := numOf_bounds e.segmentLow p; omega
      exact ⟨x.minFac, u, x / x.minFac, hu, hpend.2 _ c1 c2 hlow, c2, c4⟩
    · have hlow : e.segmentLow + 6 < x.minFac * (x / x.minFac) := by
        rw [c4]; have := numOf_bounds e.segmentLow p; omega
      have := hn _ c1 c2 hlow
      rw [c4] at this; omega
  · intro hfull
    obtain ⟨n1, n2, n3⟩ := b4 hfull
    have hsm : e3.small = e1.small := by rw [he3, he2]; simp
    have hme : e3.medium = e2.medium := by rw [he3]; simp
    refine ⟨n1, ?_, gsS', gsM', ?_, ?_, ?_⟩
    · intro q u' hh
      obtain ⟨u, hu, hle⟩ := n3 q u' hh
      have := hsound q u hu; omega
    · rw [hsm]; exact listInv_next hS s1 s2
    · rw [hme]; exact listInv_next hM m1 m2
    · intro q hq
      rcases hcov q hq with h1 | h1 | ⟨u, hu, hpend⟩ | hn
      · exact Or.inl (list_mem_next s1 q h1)
      · exact Or.inr (Or.inl (list_mem_next m1 q h1))
      · obtain ⟨u', hu', hadv⟩ := n2 q u hu
        exact Or.inr (Or.inr (Or.inl ⟨u', hu', pending_adv hpend hadv⟩))
      · exact Or.inr (Or.inr (Or.inr (noMult_mono hn (by omega))))

end Pc.PsCore
