/-
C16 / C12 (WP safety2): `S2_trivial` (S2_trivial.cpp:38-89), width-checked.  The loop accumulates non-negative terms
`pi_y - pi[xpp]` (`xpp ≤ y`), so every prefix is bounded by the value the unchecked loop returns; the method is generic:
whenever the UNCHECKED mirror returns `v` and `v ≤ tMax`, `y² ≤ tMax`, the checked mirror returns `v` too.
-/
import PcProofs.LeafTrivial
import PcProofs.SafetySigmaTop

namespace Pc.Safety
open Pc Pc.P2L Pc.LB

theorem LM_bind_error {α β : Type} (e : LErr) (f : α → LM β) : ((Except.error e : LM α) >>= f) = .error e := rfl

theorem in64_iff (v : ℤ) : in64 v = true ↔ -9223372036854775808 ≤ v ∧ v ≤ 9223372036854775807 := by
  unfold in64
  rw [inS_iff]
  have : ((two63 - 1 : ℕ) : ℤ) = 9223372036854775807 := rfl
  rw [this]
  constructor <;> intro h <;> constructor <;> omega

/-- **the `while` loop of S2_trivial, width-checked**: if `π` is monotone on the table (`pi[n] ≤ pi_y` for `n ≤ y`) and
    `0 ≤ pi_y < 2^63`, then whenever the unchecked loop returns `(r, brk)` from `sum ≥ 0`: `sum ≤ r`, the break prime is one of the
    iterator's primes, and if `r ≤ tMax` the checked loop (every `int64_t` difference, every `T sum`) returns `(r, brk)` too -/
theorem s2TrivLoopC_of {t : NT} {M : ℕ} {w : ITy} {x y : ℕ} {piY : ℤ} (hmono : ∀ n, n ≤ y → (t.piOf n : ℤ) ≤ piY)
    (hpiY : piY ≤ 9223372036854775807) :
    ∀ (qs : List ℕ) (sum r : ℤ) (brk : Option ℕ), s2TrivLoop t w x y piY qs sum = .ok (r, brk) →
      sum ≤ r ∧ (∀ p, brk = some p → p ∈ qs) ∧
      (0 ≤ sum → r ≤ M → s2TrivLoopC M t w x y piY qs sum = .ok (r, brk)) := by
  intro qs
  induction qs with
  | nil =>
    intro sum r brk h
    unfold s2TrivLoop at h
    injection h with h
    injection h with h1 h2
    subst h1; subst h2
    exact ⟨le_refl _, fun p hp => (by cases hp), fun _ _ => rfl⟩
  | cons prime qs ih =>
    intro sum r brk h
    unfold s2TrivLoop at h
    unfold s2TrivLoopC
    cases hm : mulT w prime prime with
    | error e => rw [hm, LM_bind_error] at h; cases h
    | ok pp =>
      rw [hm, LM_bind_ok] at h
      simp only [liftL_ok, WM_bind_ok]
      cases hd : divM x pp with
      | error e => rw [hd, LM_bind_error] at h; cases h
      | ok q =>
        rw [hd, LM_bind_ok] at h
        simp only [liftL_ok, WM_bind_ok]
        cases hn : narrowTo .i64 q with
        | error e => rw [hn, LM_bind_error] at h; cases h
        | ok xpp =>
          rw [hn, LM_bind_ok] at h
          simp only [liftL_ok, WM_bind_ok]
          by_cases hbrk : xpp ≤ prime
          · rw [if_pos hbrk] at h
            injection h with h
            injection h with h1 h2
            subst h1; subst h2
            refine ⟨le_refl _, fun p hp => ?_, fun _ _ => by rw [if_pos hbrk]; rfl⟩
            injection hp with hp; subst hp; exact List.mem_cons_self ..
          · rw [if_neg hbrk] at h
            cases hp : piGet t y xpp with
            | error e => rw [hp, LM_bind_error] at h; cases h
            | ok v =>
              rw [hp, LM_bind_ok] at h
              have hv : (v : ℤ) ≤ piY := by
                unfold piGet at hp
                split at hp
                · rename_i hle
                  injection hp with hp; subst hp; exact hmono _ hle
                · cases hp
              have hv0 : (0 : ℤ) ≤ v := Int.natCast_nonneg v
              obtain ⟨i1, i2, i3⟩ := ih _ _ _ h
              refine ⟨by omega, fun p hp => List.mem_cons_of_mem _ (i2 p hp), fun h0 hr => ?_⟩
              have h64 : in64 (piY - (v : ℤ)) = true := (in64_iff _).2 ⟨by omega, by omega⟩
              rw [if_neg hbrk]
              simp only [liftL_ok, WM_bind_ok, h64, if_true, WM_pure]
              rw [ckS_ok _ (by omega) (by omega), WM_bind_ok]
              exact i3 (by omega) hr

open scoped Nat.Prime

/-- `π(y) ≤ π(y - 1) + 1` -/
theorem pi_le_pred_succ {y : ℕ} (hy : 1 ≤ y) : π y ≤ π (y - 1) + 1 := by
  unfold Nat.primeCounting Nat.primeCounting'
  rw [show y - 1 + 1 = y by omega, Nat.count_succ]
  split_ifs <;> omega

/-- **`S2_trivial`, width-checked**: on a valid table reaching `y < 2^63`, with `y² ≤ tMax` (the same size condition as the checked
    product `(T) prime * prime`): whenever the unchecked mirror returns `v` with `v ≤ tMax`, every `int64_t` difference, every prefix of
    `T sum`, `n`, `a1`, `a2`, `a1 + a2`, `n * (a1 + a2)`, `/ 2` and the final `sum += …` lie in their types and the checked mirror
    returns `v` -/
theorem s2TrivialC_of {t : NT} (hv : t.Valid) {M : ℕ} {w : ITy} {x y z c : ℕ} (hyb : y ≤ t.bound)
    (hy63 : y ≤ 9223372036854775807) (hyM : y * y ≤ M) {v : ℤ}
    (h : s2Trivial t w x y z c = .ok v) (hvM : v ≤ M) : s2TrivialC M t w x y z c = .ok v := by
  rw [s2Trivial_unfold] at h
  unfold s2TrivialC
  by_cases h1 : y < 2
  · rw [if_pos h1] at h ⊢
    injection h with h; subst h; rfl
  · rw [if_neg h1] at h ⊢
    have hpy : piGet t y y = .ok (t.piOf y) := piGet_ok' t (le_refl y)
    rw [hpy, LM_bind_ok] at h
    simp only [hpy, liftL_ok, WM_bind_ok]
    by_cases hc : c < 1
    · rw [if_pos hc] at h; cases h
    · rw [if_neg hc] at h
      by_cases hs : max (t.p c) (isqrtN z) + 1 ≥ y
      · rw [if_pos hs] at h
        simp only [hc, hs, if_false, if_true]
        injection h with h; subst h; rfl
      · rw [if_neg hs] at h
        have hpiy : t.piOf y = π y := hv.piOf_eq _ hyb
        have hmono : ∀ n, n ≤ y → (t.piOf n : ℤ) ≤ ((t.piOf y : ℕ) : ℤ) := by
          intro n hn
          rw [hv.piOf_eq _ (le_trans hn hyb), hpiy]
          exact_mod_cast Spec.pi_mono hn
        have hpiY63 : ((t.piOf y : ℕ) : ℤ) ≤ 9223372036854775807 := by
          rw [hpiy]
          have := pi_le_self y
          omega
        cases hL : s2TrivLoop t w x y (t.piOf y) (t.primesIn (max (t.p c) (isqrtN z) + 1 - 1) (y - 1)) 0 with
        | error e => rw [hL, LM_bind_error] at h; cases h
        | ok rb =>
          obtain ⟨r, brk⟩ := rb
          rw [hL, LM_bind_ok] at h
          obtain ⟨i1, i2, i3⟩ := s2TrivLoopC_of (M := M) hmono hpiY63 _ _ _ _ hL
          unfold trivFinal at h
          simp only [hc, hs, if_false]
          cases brk with
          | none =>
            simp only [LM_pure] at h
            injection h with h; subst h
            rw [i3 (le_refl _) hvM]
            rfl
          | some prime =>
            simp only at h
            have hy1b : y - 1 ≤ t.bound := by omega
            obtain ⟨hpp, _, hpy1⟩ := (NT.mem_primesIn hv hy1b prime).1 (i2 prime rfl)
            have g1 : piGet t y (y - 1) = .ok (t.piOf (y - 1)) := piGet_ok' t (by omega)
            have g2 : piGet t y prime = .ok (t.piOf prime) := piGet_ok' t (by omega)
            rw [g1, LM_bind_ok, g2, LM_bind_ok, LM_pure] at h
            injection h with h
            -- the numbers
            have e1 : t.piOf (y - 1) = π (y - 1) := hv.piOf_eq _ hy1b
            have e2 : t.piOf prime = π prime := hv.piOf_eq _ (by omega)
            have m1 : π prime ≤ π (y - 1) := Spec.pi_mono hpy1
            have m2 : π (y - 1) ≤ π y := Spec.pi_mono (by omega)
            have m3 : π y ≤ π (y - 1) + 1 := pi_le_pred_succ (by omega)
            have m4 : 1 ≤ π prime := by
              have := Spec.pi_mono hpp.two_le
              have h2 : π 2 = 1 := by decide
              omega
            have m5 : π (y - 1) + 1 ≤ y := by
              have := pi_succ_le (y - 1)
              omega
            have m6 := pi_le_self y
            rw [e1, e2, hpiy] at h
            simp only [e1, e2, hpiy] at i3 ⊢
            set A : ℤ := (π (y - 1) : ℤ) - (π prime : ℤ) + 1 with hA
            set B : ℤ := ((π y : ℤ) - (π (y - 1) : ℤ)) + ((π y : ℤ) - (π prime : ℤ)) with hB
            have hA0 : 0 ≤ A := by omega
            have hB0 : 0 ≤ B := by omega
            have hAy : A ≤ y := by omega
            have hBy : B ≤ y := by omega
            have hAB : A * B ≤ M := by
              have : A * B ≤ (y : ℤ) * y := mul_le_mul hAy hBy hB0 (by omega)
              have hyM' : (y : ℤ) * y ≤ M := by exact_mod_cast hyM
              omega
            have hAB0 : 0 ≤ A * B := mul_nonneg hA0 hB0
            have hdiv : Int.tdiv (A * B) 2 = A * B / 2 := Int.tdiv_eq_ediv_of_nonneg hAB0
            have hrM : r ≤ M := by
              rw [hdiv] at h
              omega
            rw [i3 (le_refl _) hrM, WM_bind_ok]
            simp only [g1, g2, e1, e2, liftL_ok, WM_bind_ok]
            have c64 : (s2TrivTail64 (π y) (π (y - 1)) (π prime)).all in64 = true := by
              unfold s2TrivTail64
              simp only [List.all_cons, List.all_nil, Bool.and_true, Bool.and_eq_true, in64_iff]
              refine ⟨⟨?_, ?_⟩, ⟨?_, ?_⟩, ⟨?_, ?_⟩, ?_, ?_⟩ <;> omega
            have cT : (s2TrivTailT (π y) (π (y - 1)) (π prime)).all (inS M) = true := by
              unfold s2TrivTailT
              simp only [List.all_cons, List.all_nil, Bool.and_true, Bool.and_eq_true, inS_iff, ← hA, ← hB, hdiv]
              have hyM' : (y : ℤ) * y ≤ M := by exact_mod_cast hyM
              have hyy : (y : ℤ) ≤ (y : ℤ) * y := le_sq y
              generalize A * B = P at *
              refine ⟨⟨?_, ?_⟩, ⟨?_, ?_⟩, ?_, ?_⟩ <;> omega
            rw [c64, cT]
            simp only [Bool.and_true, Bool.not_true, Bool.false_eq_true, if_false]
            rw [← h]
            apply ckS_ok
            · rw [hdiv]; omega
            · rw [h]; exact hvM

/-- the value: at most `π(y)` levels, each term `≤ π(y)`: `S2_trivial ≤ y²` -/
theorem S2trivial_le {t : NT} (hv : t.Valid) {x y : ℕ} (z c : ℕ) (hyb : y ≤ t.bound) :
    t.S2trivial x y z c ≤ (y : ℤ) * y := by
  unfold NT.S2trivial
  rw [sumInt_sum]
  have hpiy : t.piOf y = π y := hv.piOf_eq _ hyb
  have hy := pi_le_self y
  refine le_trans (list_sum_le_length_mul (B := (y : ℤ)) ?_) ?_
  · intro q _
    simp only
    split_ifs
    · have : (0 : ℤ) ≤ t.piOf (max q (x / (q * q))) := Int.natCast_nonneg _
      rw [hpiy]
      have : (π y : ℤ) ≤ y := by exact_mod_cast hy
      omega
    · exact Int.natCast_nonneg y
  · have hlen : (t.primesIn (max (t.p c) (isqrtN z)) y).length ≤ y := by
      unfold NT.primesIn
      rw [List.length_map, List.length_range, hpiy]
      omega
    have : ((t.primesIn (max (t.p c) (isqrtN z)) y).length : ℤ) ≤ y := by exact_mod_cast hlen
    exact mul_le_mul_of_nonneg_right this (Int.natCast_nonneg y)

end Pc.Safety
