/-
C19 — soundness of the rational enclosures of ζ(k) evaluated by the generated obligations
(PcModel/Zeta.lean, PcGen/ZetaObl.lean): for `k ≥ 2`, `M ≥ 1` and any scale `S > 0`

    zetaEncLo S k M / S  ≤  ζ(k) = ∑' m, 1 / (m + 1)^k  ≤  zetaEncHi S k M / S        (real series)

by the telescoping (integral-test) bounds  (M+1)^(1-k)/(k-1) ≤ Σ_{m>M} m^-k ≤ M^(1-k)/(k-1), themselves
consequences of Bernoulli's inequality. Hence every literal of the zeta table is within
`10^-zetaGoodDigits[k] + 10^-39` of ζ(k) (`zetaLit_near_zeta`).
-/
import PcModel.Zeta
import PcGen.ZetaObl
import PcProofs.LiR
import Mathlib.Analysis.PSeries
import Mathlib.Analysis.SpecificLimits.Basic
import Mathlib.Tactic.Ring
import Mathlib.Tactic.Linarith
import Mathlib.Tactic.Positivity
import Mathlib.Tactic.FieldSimp
import Mathlib.Tactic.GCongr

namespace Pc

open Finset

/-- the partial sums `Σ_{m=1}^{N} m^-k` -/
noncomputable def zsum (k N : ℕ) : ℝ := ∑ m ∈ range N, 1 / ((m + 1 : ℕ) : ℝ) ^ k

/-- ζ(k) as the real series `Σ_{m≥1} m^-k` -/
noncomputable def zetaR (k : ℕ) : ℝ := ∑' m : ℕ, 1 / ((m + 1 : ℕ) : ℝ) ^ k

theorem zsum_succ (k N : ℕ) : zsum k (N + 1) = zsum k N + 1 / ((N + 1 : ℕ) : ℝ) ^ k := by
  unfold zsum; rw [sum_range_succ]

/-! ### explicit terms: floor / ceiling sums -/

theorem zetaSumLo_le (S k M : ℕ) : (zetaSumLo S k M : ℝ) ≤ S * zsum k M := by
  induction M with
  | zero => simp [zetaSumLo, zsum]
  | succ M ih =>
    rw [zetaSumLo, zsum_succ, Nat.cast_add, mul_add]
    have h : ((S / (M + 1) ^ k : ℕ) : ℝ) ≤ (S : ℝ) / (((M + 1) ^ k : ℕ) : ℝ) := Nat.cast_div_le
    have e : (S : ℝ) / (((M + 1) ^ k : ℕ) : ℝ) = S * (1 / ((M + 1 : ℕ) : ℝ) ^ k) := by
      push_cast; ring
    linarith

theorem le_zetaSumHi (S k M : ℕ) : S * zsum k M ≤ (zetaSumHi S k M : ℝ) := by
  induction M with
  | zero => simp [zetaSumHi, zsum]
  | succ M ih =>
    rw [zetaSumHi, zsum_succ, Nat.cast_add, mul_add]
    have hpos : 0 < (M + 1) ^ k := by positivity
    have h : (S : ℝ) / (((M + 1) ^ k : ℕ) : ℝ) < ((S / (M + 1) ^ k : ℕ) : ℝ) + 1 := by
      rw [div_lt_iff₀ (by exact_mod_cast hpos)]
      have := Nat.lt_div_mul_add hpos (a := S)
      have h2 : S < (S / (M + 1) ^ k + 1) * (M + 1) ^ k := by
        rw [add_mul, one_mul]; exact this
      exact_mod_cast h2
    have e : (S : ℝ) / (((M + 1) ^ k : ℕ) : ℝ) = S * (1 / ((M + 1 : ℕ) : ℝ) ^ k) := by
      push_cast; ring
    push_cast at h e ⊢
    linarith

/-! ### telescoping bounds of one term -/

/-- `1 / (m+1)^(j+1) ≤ (1 / m^j - 1 / (m+1)^j) / j` -/
theorem term_le_telescope (j m : ℕ) (hj : 1 ≤ j) (hm : 1 ≤ m) :
    1 / ((m + 1 : ℕ) : ℝ) ^ (j + 1) ≤ (1 / (m : ℝ) ^ j - 1 / ((m + 1 : ℕ) : ℝ) ^ j) / j := by
  have hmq : (0 : ℝ) < m := by exact_mod_cast hm
  have hjq : (0 : ℝ) < j := by exact_mod_cast hj
  have hm1 : (0 : ℝ) < ((m + 1 : ℕ) : ℝ) := by positivity
  -- Bernoulli: (1 + 1/m)^j ≥ 1 + j/m
  have hb : 1 + (j : ℝ) * (1 / (m : ℝ)) ≤ (1 + 1 / (m : ℝ)) ^ j :=
    one_add_mul_le_pow (by have : (0 : ℝ) ≤ 1 / (m : ℝ) := by positivity
                           linarith) j
  have e1 : (1 + 1 / (m : ℝ)) ^ j = ((m + 1 : ℕ) : ℝ) ^ j / (m : ℝ) ^ j := by
    rw [← div_pow]; congr 1; push_cast; field_simp
  rw [e1] at hb
  -- hence (m+1)^j ≥ m^j + j m^(j-1) ... used as: (m+1)^j / m^j - 1 ≥ j / m
  rw [le_div_iff₀ hjq]
  have hmj : (0 : ℝ) < (m : ℝ) ^ j := by positivity
  have hm1j : (0 : ℝ) < ((m + 1 : ℕ) : ℝ) ^ j := by positivity
  have e2 : 1 / (m : ℝ) ^ j - 1 / ((m + 1 : ℕ) : ℝ) ^ j =
      (((m + 1 : ℕ) : ℝ) ^ j / (m : ℝ) ^ j - 1) / ((m + 1 : ℕ) : ℝ) ^ j := by
    field_simp
  rw [e2, pow_succ, le_div_iff₀ hm1j]
  have e3 : 1 / (((m + 1 : ℕ) : ℝ) ^ j * ((m + 1 : ℕ) : ℝ)) * (j : ℝ) * ((m + 1 : ℕ) : ℝ) ^ j =
      (j : ℝ) / ((m + 1 : ℕ) : ℝ) := by
    field_simp
  rw [e3]
  have h4 : (j : ℝ) / ((m + 1 : ℕ) : ℝ) ≤ (j : ℝ) / (m : ℝ) := by
    apply div_le_div_of_nonneg_left hjq.le hmq; push_cast; linarith
  have h5 : (j : ℝ) * (1 / (m : ℝ)) = (j : ℝ) / (m : ℝ) := by ring
  linarith

/-- `(1 / m^j - 1 / (m+1)^j) / j ≤ 1 / m^(j+1)` -/
theorem telescope_le_term (j m : ℕ) (hj : 1 ≤ j) (hm : 1 ≤ m) :
    (1 / (m : ℝ) ^ j - 1 / ((m + 1 : ℕ) : ℝ) ^ j) / j ≤ 1 / (m : ℝ) ^ (j + 1) := by
  have hmq : (0 : ℝ) < m := by exact_mod_cast hm
  have hjq : (0 : ℝ) < j := by exact_mod_cast hj
  have hm1 : (0 : ℝ) < ((m + 1 : ℕ) : ℝ) := by positivity
  -- Bernoulli: (1 - 1/(m+1))^j ≥ 1 - j/(m+1)
  have hb : 1 + (j : ℝ) * (-(1 / ((m + 1 : ℕ) : ℝ))) ≤ (1 + -(1 / ((m + 1 : ℕ) : ℝ))) ^ j :=
    one_add_mul_le_pow (by
      have : 1 / ((m + 1 : ℕ) : ℝ) ≤ 1 := by
        rw [div_le_one hm1]; push_cast; linarith
      linarith) j
  have e1 : (1 + -(1 / ((m + 1 : ℕ) : ℝ))) ^ j = (m : ℝ) ^ j / ((m + 1 : ℕ) : ℝ) ^ j := by
    rw [← div_pow]; congr 1; push_cast; field_simp; ring
  rw [e1] at hb
  have hmj : (0 : ℝ) < (m : ℝ) ^ j := by positivity
  have hm1j : (0 : ℝ) < ((m + 1 : ℕ) : ℝ) ^ j := by positivity
  rw [div_le_iff₀ hjq]
  have e2 : 1 / (m : ℝ) ^ j - 1 / ((m + 1 : ℕ) : ℝ) ^ j =
      (1 - (m : ℝ) ^ j / ((m + 1 : ℕ) : ℝ) ^ j) / (m : ℝ) ^ j := by
    field_simp
  rw [e2, div_le_iff₀ hmj, pow_succ]
  have e3 : 1 / ((m : ℝ) ^ j * (m : ℝ)) * (j : ℝ) * (m : ℝ) ^ j = (j : ℝ) / (m : ℝ) := by
    field_simp
  rw [e3]
  have h4 : (j : ℝ) / ((m + 1 : ℕ) : ℝ) ≤ (j : ℝ) / (m : ℝ) := by
    apply div_le_div_of_nonneg_left hjq.le hmq; push_cast; linarith
  have h5 : (j : ℝ) * (-(1 / ((m + 1 : ℕ) : ℝ))) = -((j : ℝ) / ((m + 1 : ℕ) : ℝ)) := by ring
  linarith

/-! ### tails of the partial sums -/

/-- `Σ_{m=M+1}^{M+n} m^-(j+1) ≤ (1/M^j - 1/(M+n)^j) / j` -/
theorem zsum_tail_le (j M n : ℕ) (hj : 1 ≤ j) (hM : 1 ≤ M) :
    zsum (j + 1) (M + n) - zsum (j + 1) M ≤ (1 / (M : ℝ) ^ j - 1 / ((M + n : ℕ) : ℝ) ^ j) / j := by
  induction n with
  | zero => simp
  | succ n ih =>
    have h := term_le_telescope j (M + n) hj (by omega)
    rw [← Nat.add_assoc, zsum_succ]
    have e : ((M + n + 1 : ℕ) : ℝ) = ((M + n : ℕ) : ℝ) + 1 := by push_cast; ring
    have hjq : (0 : ℝ) < j := by exact_mod_cast hj
    have : (1 / (M : ℝ) ^ j - 1 / ((M + n + 1 : ℕ) : ℝ) ^ j) / j =
        (1 / (M : ℝ) ^ j - 1 / ((M + n : ℕ) : ℝ) ^ j) / j +
        (1 / ((M + n : ℕ) : ℝ) ^ j - 1 / ((M + n + 1 : ℕ) : ℝ) ^ j) / j := by ring
    rw [this]
    linarith

/-- `(1/(M+1)^j - 1/(M+n+1)^j) / j ≤ Σ_{m=M+1}^{M+n} m^-(j+1)` -/
theorem le_zsum_tail (j M n : ℕ) (hj : 1 ≤ j) :
    (1 / ((M + 1 : ℕ) : ℝ) ^ j - 1 / ((M + n + 1 : ℕ) : ℝ) ^ j) / j ≤ zsum (j + 1) (M + n) - zsum (j + 1) M := by
  induction n with
  | zero => simp
  | succ n ih =>
    have h := telescope_le_term j (M + n + 1) hj (by omega)
    rw [← Nat.add_assoc, zsum_succ]
    have : (1 / ((M + 1 : ℕ) : ℝ) ^ j - 1 / ((M + n + 1 + 1 : ℕ) : ℝ) ^ j) / j =
        (1 / ((M + 1 : ℕ) : ℝ) ^ j - 1 / ((M + n + 1 : ℕ) : ℝ) ^ j) / j +
        (1 / ((M + n + 1 : ℕ) : ℝ) ^ j - 1 / ((M + n + 1 + 1 : ℕ) : ℝ) ^ j) / j := by ring
    rw [this]
    linarith

/-! ### the series -/

theorem zeta_summable (k : ℕ) (hk : 2 ≤ k) : Summable (fun m : ℕ => 1 / ((m + 1 : ℕ) : ℝ) ^ k) := by
  have h : Summable (fun m : ℕ => 1 / (m : ℝ) ^ k) := Real.summable_one_div_nat_pow.mpr (by omega)
  exact (summable_nat_add_iff 1).mpr h

theorem zsum_le_zetaR (k N : ℕ) (hk : 2 ≤ k) : zsum k N ≤ zetaR k :=
  (zeta_summable k hk).sum_le_tsum (range N) (fun m _ => by positivity)

theorem zetaR_le_of_zsum_le (k : ℕ) (c : ℝ) (h : ∀ N, zsum k N ≤ c) : zetaR k ≤ c :=
  Real.tsum_le_of_sum_range_le (fun m => by positivity) h

/-- upper enclosure: every partial sum, hence ζ(k) -/
theorem zetaR_le_encHi (S k M : ℕ) (hS : 0 < S) (hk : 2 ≤ k) (hM : 1 ≤ M) :
    zetaR k ≤ (zetaEncHi S k M : ℝ) / S := by
  have hSq : (0 : ℝ) < S := by exact_mod_cast hS
  obtain ⟨j, rfl⟩ : ∃ j, k = j + 1 := ⟨k - 1, by omega⟩
  have hj : 1 ≤ j := by omega
  have hjq : (0 : ℝ) < j := by exact_mod_cast hj
  have hMq : (0 : ℝ) < M := by exact_mod_cast hM
  apply zetaR_le_of_zsum_le
  intro N
  rw [le_div_iff₀ hSq]
  -- all partial sums are ≤ zsum M + 1 / (j M^j)
  have hbound : zsum (j + 1) N ≤ zsum (j + 1) M + 1 / ((j : ℝ) * (M : ℝ) ^ j) := by
    by_cases hNM : N ≤ M
    · have hmono : zsum (j + 1) N ≤ zsum (j + 1) M := by
        unfold zsum
        exact sum_le_sum_of_subset_of_nonneg (range_mono hNM) (fun m _ _ => by positivity)
      have : (0 : ℝ) ≤ 1 / ((j : ℝ) * (M : ℝ) ^ j) := by positivity
      linarith
    · obtain ⟨n, rfl⟩ : ∃ n, N = M + n := ⟨N - M, by omega⟩
      have h := zsum_tail_le j M n hj hM
      have hpos : (0 : ℝ) ≤ 1 / ((M + n : ℕ) : ℝ) ^ j / j := by positivity
      have e : (1 / (M : ℝ) ^ j - 1 / ((M + n : ℕ) : ℝ) ^ j) / j =
          1 / ((j : ℝ) * (M : ℝ) ^ j) - 1 / ((M + n : ℕ) : ℝ) ^ j / j := by
        field_simp
      linarith
  have h1 := le_zetaSumHi S (j + 1) M
  -- the tail part: S / (j M^j) ≤ ⌊S / (j M^j)⌋ + 1
  have hpos : 0 < (j + 1 - 1) * M ^ (j + 1 - 1) := by
    simp only [Nat.add_sub_cancel]; positivity
  have h2 : (S : ℝ) / (((j + 1 - 1) * M ^ (j + 1 - 1) : ℕ) : ℝ) <
      ((S / ((j + 1 - 1) * M ^ (j + 1 - 1)) : ℕ) : ℝ) + 1 := by
    rw [div_lt_iff₀ (by exact_mod_cast hpos)]
    have := Nat.lt_div_mul_add hpos (a := S)
    have h2 : S < (S / ((j + 1 - 1) * M ^ (j + 1 - 1)) + 1) * ((j + 1 - 1) * M ^ (j + 1 - 1)) := by
      rw [add_mul, one_mul]; exact this
    exact_mod_cast h2
  have e2 : (S : ℝ) / (((j + 1 - 1) * M ^ (j + 1 - 1) : ℕ) : ℝ) = S * (1 / ((j : ℝ) * (M : ℝ) ^ j)) := by
    simp only [Nat.add_sub_cancel]; push_cast; ring
  unfold zetaEncHi
  push_cast at h2 e2 ⊢
  rw [e2] at h2
  have := mul_le_mul_of_nonneg_right hbound hSq.le
  nlinarith

/-- lower enclosure -/
theorem encLo_le_zetaR (S k M : ℕ) (hS : 0 < S) (hk : 2 ≤ k) :
    (zetaEncLo S k M : ℝ) / S ≤ zetaR k := by
  have hSq : (0 : ℝ) < S := by exact_mod_cast hS
  obtain ⟨j, rfl⟩ : ∃ j, k = j + 1 := ⟨k - 1, by omega⟩
  have hj : 1 ≤ j := by omega
  have hjq : (0 : ℝ) < j := by exact_mod_cast hj
  -- for every n: zsum M + (1/(M+1)^j - 1/(M+n+1)^j)/j ≤ ζ
  have hall : ∀ n : ℕ, zsum (j + 1) M + 1 / ((j : ℝ) * ((M + 1 : ℕ) : ℝ) ^ j) ≤
      zetaR (j + 1) + 1 / ((n : ℝ) + 1) := by
    intro n
    have h := le_zsum_tail j M n hj
    have h2 := zsum_le_zetaR (j + 1) (M + n) (by omega)
    have hn1 : (0 : ℝ) < ((M + n + 1 : ℕ) : ℝ) := by positivity
    have e : (1 / ((M + 1 : ℕ) : ℝ) ^ j - 1 / ((M + n + 1 : ℕ) : ℝ) ^ j) / j =
        1 / ((j : ℝ) * ((M + 1 : ℕ) : ℝ) ^ j) - 1 / ((M + n + 1 : ℕ) : ℝ) ^ j / j := by
      field_simp
    have h3 : 1 / ((M + n + 1 : ℕ) : ℝ) ^ j / j ≤ 1 / ((n : ℝ) + 1) := by
      have hle : (n : ℝ) + 1 ≤ ((M + n + 1 : ℕ) : ℝ) := by push_cast; linarith [Nat.cast_nonneg (α := ℝ) M]
      have hp : ((M + n + 1 : ℕ) : ℝ) ≤ ((M + n + 1 : ℕ) : ℝ) ^ j := by
        have h1 : (1 : ℝ) ≤ ((M + n + 1 : ℕ) : ℝ) := by
          push_cast; linarith [Nat.cast_nonneg (α := ℝ) M, Nat.cast_nonneg (α := ℝ) n]
        calc ((M + n + 1 : ℕ) : ℝ) = ((M + n + 1 : ℕ) : ℝ) ^ 1 := (pow_one _).symm
          _ ≤ ((M + n + 1 : ℕ) : ℝ) ^ j := pow_le_pow_right₀ h1 hj
      have hj1 : (1 : ℝ) ≤ j := by exact_mod_cast hj
      rw [div_div, div_le_div_iff₀ (by positivity) (by positivity)]
      have hn0 : (0 : ℝ) ≤ (n : ℝ) + 1 := by positivity
      nlinarith [mul_le_mul hp hj1 zero_le_one (by positivity : (0 : ℝ) ≤ ((M + n + 1 : ℕ) : ℝ) ^ j)]
    linarith
  have hlim : zsum (j + 1) M + 1 / ((j : ℝ) * ((M + 1 : ℕ) : ℝ) ^ j) ≤ zetaR (j + 1) := by
    apply le_of_forall_pos_le_add
    intro ε hε
    obtain ⟨n, hn⟩ := exists_nat_one_div_lt hε
    exact le_trans (hall n) (by linarith)
  rw [div_le_iff₀ hSq]
  have h1 := zetaSumLo_le S (j + 1) M
  have h2 : ((S / ((j + 1 - 1) * (M + 1) ^ (j + 1 - 1)) : ℕ) : ℝ) ≤
      (S : ℝ) / (((j + 1 - 1) * (M + 1) ^ (j + 1 - 1) : ℕ) : ℝ) := Nat.cast_div_le
  have e2 : (S : ℝ) / (((j + 1 - 1) * (M + 1) ^ (j + 1 - 1) : ℕ) : ℝ) =
      S * (1 / ((j : ℝ) * ((M + 1 : ℕ) : ℝ) ^ j)) := by
    simp only [Nat.add_sub_cancel]; push_cast; ring
  unfold zetaEncLo
  push_cast at h2 e2 ⊢
  rw [e2] at h2
  have := mul_le_mul_of_nonneg_right hlim hSq.le
  push_cast at this
  nlinarith

/-! ### the table -/

theorem lit_scale (n dn : ℕ) (hd : 0 < dn) :
    ((((n : ℚ) / (dn : ℚ) : ℚ)) : ℝ) * ((dn * 10 ^ 6 : ℕ) : ℝ) = (n : ℝ) * 10 ^ 6 := by
  have : (dn : ℝ) ≠ 0 := by exact_mod_cast hd.ne'
  push_cast; field_simp; norm_num

open Pc.LiR in
/-- Every literal `zeta[k]`, `2 ≤ k < 128`, of src/RiemannR.cpp is within `10^-d + 10^-39` of
    ζ(k) = Σ_{m ≥ 1} m^-k, where `d = zetaGoodDigits[k]` is the resolution of the kernel-checked enclosure
    (8, 12, 16, … digits for k = 2, 3, 4, …; ≥ 39 digits for k ≥ 10). -/
theorem zetaLit_near_zeta (k : ℕ) (h2 : 2 ≤ k) (h128 : k < 128) :
    |((zetaLit k : ℚ) : ℝ) - zetaR k| ≤ 1 / (10 : ℝ) ^ (Gen.zetaGoodDigits.getD k 0) + 1 / (10 : ℝ) ^ 39 := by
  have hobl := Gen.zeta_obl_all k h2 h128
  unfold Gen.zetaObl zetaEntryOk zetaEntryCheck at hobl
  simp only [Bool.and_eq_true, decide_eq_true_eq] at hobl
  obtain ⟨⟨⟨_, hM⟩, hex⟩, ⟨hlo, hhi⟩, hw⟩ := hobl
  set M := Gen.zetaTerms.getD k 0 with hMdef
  set d := Gen.zetaGoodDigits.getD k 0 with hd
  set S := Gen.zetaDen * 10 ^ 6 with hSdef
  have hS : 0 < S := Nat.mul_pos zetaDen_pos (by positivity)
  have hSq : (0 : ℝ) < (S : ℝ) := by exact_mod_cast hS
  have h1 := encLo_le_zetaR S k M hS h2
  have h2' := zetaR_le_encHi S k M hS h2 hM
  rw [div_le_iff₀ hSq] at h1
  rw [le_div_iff₀ hSq] at h2'
  -- the literal, scaled
  have hden : (0 : ℝ) < (Gen.zetaDen : ℝ) := by exact_mod_cast zetaDen_pos
  have hlit : ((zetaLit k : ℚ) : ℝ) * S = (Gen.zetaNum.getD k 0 : ℝ) * 10 ^ 6 := by
    unfold zetaLit
    rw [hSdef]; exact lit_scale _ _ zetaDen_pos
  have hlo' : (zetaEncLo S k M : ℝ) ≤ (Gen.zetaNum.getD k 0 : ℝ) * 10 ^ 6 + 10 ^ 6 := by exact_mod_cast hlo
  have hhi' : (Gen.zetaNum.getD k 0 : ℝ) * 10 ^ 6 ≤ (zetaEncHi S k M : ℝ) + 10 ^ 6 := by exact_mod_cast hhi
  have hlohi : (zetaEncLo S k M : ℝ) ≤ (zetaEncHi S k M : ℝ) := le_trans h1 h2'
  have hw' : ((zetaEncHi S k M : ℝ) - (zetaEncLo S k M : ℝ)) * 10 ^ d ≤ (S : ℝ) := by
    have hle : zetaEncLo S k M ≤ zetaEncHi S k M := by exact_mod_cast hlohi
    have : ((zetaEncHi S k M - zetaEncLo S k M : ℕ) : ℝ) * 10 ^ d ≤ (S : ℝ) := by exact_mod_cast hw
    rwa [Nat.cast_sub hle] at this
  have h10 : (0 : ℝ) < (10 : ℝ) ^ d := by positivity
  have hw'' : (zetaEncHi S k M : ℝ) - (zetaEncLo S k M : ℝ) ≤ (S : ℝ) / 10 ^ d := by
    rw [le_div_iff₀ h10]; exact hw'
  have hS39 : (S : ℝ) / 10 ^ 39 = 10 ^ 6 := by
    rw [hSdef]; unfold Gen.zetaDen; push_cast; norm_num
  -- |lit - ζ| · S ≤ (hi - lo) + 10^6
  have key : |((zetaLit k : ℚ) : ℝ) - zetaR k| * S ≤ (S : ℝ) / 10 ^ d + (S : ℝ) / 10 ^ 39 := by
    rw [hS39, ← abs_of_pos hSq, ← abs_mul, sub_mul, hlit, abs_of_pos hSq, abs_le]
    constructor <;> linarith
  have : |((zetaLit k : ℚ) : ℝ) - zetaR k| * S ≤ (1 / (10 : ℝ) ^ d + 1 / (10 : ℝ) ^ 39) * S := by
    have e : (1 / (10 : ℝ) ^ d + 1 / (10 : ℝ) ^ 39) * S = (S : ℝ) / 10 ^ d + (S : ℝ) / 10 ^ 39 := by ring
    rw [e]; exact key
  exact le_of_mul_le_mul_right this hSq

end Pc
