/-
WP close2, item 2 — NON-VACUITY of the `World2` theorems (PcProofs/Close2PhiWorld.lean): `exWorld2` = WP close's `exWorld` (sieving core below
2^50: no float assumption; 256 KiB; tables up to 3000) with a `PhiCache` constructor estimate 3000 (so the caches of the larger calls are ENABLED:
`max_x_size_ = 13 ≥ 8`) and the loop indices of every `phi_OpenMP` split over TWO threads.  `OK`, `PhiRunOK2` at every level, `NestedS2` at `x = 10^5`.
-/
import PcProofs.Close2PhiWorld
import PcProofs.CloseWorld3Ex

namespace Pc.Close
open Nat Pc.Hard Pc.PhiVec Pc.Top Pc.PsCore Pc.LB PcGen.ApiConst Pc.PhiAlgProofs Pc.ClosePhi
open scoped Nat.Prime

/-- a concrete world with the bit-level phi: two threads, the first takes the first half of `9..a` -/
noncomputable def exWorld2 : World2 :=
  { exWorld with
    est := fun _ _ => 3000
    works := fun _ a => [List.range' 9 ((a - 8) / 2), List.range' (9 + (a - 8) / 2) ((a - 8) - (a - 8) / 2)] }

theorem exWorld2_ok : exWorld2.toWorld.OK 100 := exWorld_ok

theorem exWorld2_works (n a : ℕ) : (exWorld2.works n a).flatten.Perm (List.range' 9 (a - 8)) := by
  show [List.range' 9 ((a - 8) / 2), List.range' (9 + (a - 8) / 2) ((a - 8) - (a - 8) / 2)].flatten.Perm _
  have h := List.range'_append (s := 9) (m := (a - 8) / 2) (n := (a - 8) - (a - 8) / 2) (step := 1)
  rw [Nat.one_mul, show (a - 8) / 2 + ((a - 8) - (a - 8) / 2) = a - 8 by omega] at h
  rw [← h]
  simp

theorem exWorld2_phiRunOK2 (n : ℕ) : exWorld2.PhiRunOK2 n where
  lit := fun _ _ => Or.inl (Nat.le_succ _)
  works := fun a => exWorld2_works n a

/-- the nested-call hypothesis over the world with the bit-exact sieve AND the bit-level phi, `x = 10^5`, `pi := π` -/
theorem exWorld2_nestedS2 (c : Sieve.Cfg) (f : Sieve.StopFn) : exWorld2.NestedS2 c f 100 Nat.primeCounting 100000 := by
  intro n hn h63
  have c1 : (maxCached : ℤ) = 30719 := rfl
  have c2 : (legendreMax : ℤ) = 100000 := rfl
  have l1 : legendreMax = 100000 := rfl
  have l2 : meisselMax = 100000000 := rfl
  have hn' : n < 100000 := by exact_mod_cast hn
  have hex : maxCached < n → ApiExecC (exWorld2.toWorld.tablesS c f false) 100 false n exApiRun :=
    fun _ => ⟨fun h _ => absurd h (by omega), fun h => absurd h (by omega)⟩
  refine ⟨1, exApiRun, hex, ?_⟩
  have hstep := piApi64_step_to (exWorld2.toWorld.tablesS c f false) (exWorld2.toWorld.tablesS_ok exWorld2_ok (by norm_num) c f false)
    (exWorld2.toWorld.it_specTo exWorld2_ok) World.maxPrime64_ge exWorld2.phiCpp Nat.primeCounting (n : ℤ)
    (by exact_mod_cast h63) 1 false exApiRun
    (by rw [Int.toNat_natCast]; exact exWorld2.phiContractIn exWorld2_ok n (fun _ _ => exWorld2_phiRunOK2 n)) (fun _ _ => rfl)
    (fun h => by rw [Int.toNat_natCast]; exact hex (by exact_mod_cast h))
  rw [Int.toNat_natCast] at hstep
  rcases hstep with h | h
  · exact h
  · exfalso
    unfold piApi64 at h
    split_ifs at h with h1 h2 h3
    all_goals omega

theorem exGExecC_world2S (c : Sieve.Cfg) (f : Sieve.StopFn) :
    GExecC (exWorld2.toWorld.tablesS c f false) 100 false 100000 (exGRun (exWorld2.toWorld.tablesS c f false).t) :=
  exGExecC_worldS c f

theorem exDrExec_world2S (c : Sieve.Cfg) (f : Sieve.StopFn) :
    DrExec (exWorld2.toWorld.tablesS c f false) 100 false 100000 exDrRun :=
  exDrExec_worldS c f

end Pc.Close
