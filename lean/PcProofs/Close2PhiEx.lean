/-
WP close2, item 2 — NON-VACUITY of the `World2` theorems (PcProofs/Close2PhiWorld.lean): `exWorld2` = WP close's `exWorld` (sieving core below
2^50: no float assumption; 256 KiB; tables up to 3000) with a `PhiCache` constructor estimate 3000 (so the caches of the larger calls are ENABLED:
`max_x_size_ = 13 ≥ 8`) and the loop indices of every `phi_OpenMP` split over TWO threads.  `OK`, `PhiRunOK2` at every level, `NestedS2` at `x = 10^5`.
-/
import PcProofs.Close2PhiWorld
import PcProofs.Close2PhiVec
import PcProofs.CloseWorld3Ex

namespace Pc.Close
open Nat Pc.Hard Pc.PhiVec Pc.Top Pc.PsCore Pc.LB PcGen.ApiConst Pc.PhiAlgProofs Pc.ClosePhi
open scoped Nat.Prime

/-- a concrete world with the bit-level phi: two threads, the first takes the first half of `9..a` -/
noncomputable def exWorld2 : World2 :=
  { exWorld with
    est := fun _ _ => 3000
    works := fun _ a => [List.range' 9 ((a - 8) / 2), List.range' (9 + (a - 8) / 2) ((a - 8) - (a - 8) / 2)] }

theorem exWorld2_ok : exWorld2.toWorld.OK 100 := exWorld_ok

theorem exWorld2_works (n a : ℕ) : (exWorld2.works n a).flatten.Perm (List.range' 9 (a - 8)) := by
  show [List.range' 9 ((a - 8) / 2), List.range' (9 + (a - 8) / 2) ((a - 8) - (a - 8) / 2)].flatten.Perm _
  have h := List.range'_append (s := 9) (m := (a - 8) / 2) (n := (a - 8) - (a - 8) / 2) (step := 1)
  rw [Nat.one_mul, show (a - 8) / 2 + ((a - 8) - (a - 8) / 2) = a - 8 by omega] at h
  rw [← h]
  simp

theorem exWorld2_phiRunOK2 (n : ℕ) : exWorld2.PhiRunOK2 n where
  lit := fun _ _ => Or.inl (Nat.le_succ _)
  works := fun a => exWorld2_works n a

/-- the nested-call hypothesis at `x = 10^5`, `pi := π`, for ANY world with `OK 100` and `PhiRunOK2` at every level -/
theorem World2.nestedS2_1e5 (W : World2) (hok : W.toWorld.OK 100) (hphi : ∀ n, W.PhiRunOK2 n) (c : Sieve.Cfg) (f : Sieve.StopFn) :
    W.NestedS2 c f 100 Nat.primeCounting 100000 := by
  intro n hn h63
  have c1 : (maxCached : ℤ) = 30719 := rfl
  have c2 : (legendreMax : ℤ) = 100000 := rfl
  have l1 : legendreMax = 100000 := rfl
  have l2 : meisselMax = 100000000 := rfl
  have hn' : n < 100000 := by exact_mod_cast hn
  have hex : maxCached < n → ApiExecC (W.toWorld.tablesS c f false) 100 false n exApiRun :=
    fun _ => ⟨fun h _ => absurd h (by omega), fun h => absurd h (by omega)⟩
  refine ⟨1, exApiRun, hex, ?_⟩
  have hstep := piApi64_step_to (W.toWorld.tablesS c f false) (W.toWorld.tablesS_ok hok (by norm_num) c f false)
    (W.toWorld.it_specTo hok) World.maxPrime64_ge W.phiCpp Nat.primeCounting (n : ℤ)
    (by exact_mod_cast h63) 1 false exApiRun
    (by rw [Int.toNat_natCast]; exact W.phiContractIn hok n (fun _ _ => hphi n)) (fun _ _ => rfl)
    (fun h => by rw [Int.toNat_natCast]; exact hex (by exact_mod_cast h))
  rw [Int.toNat_natCast] at hstep
  rcases hstep with h | h
  · exact h
  · exfalso
    unfold piApi64 at h
    split_ifs at h with h1 h2 h3
    all_goals omega

/-- the nested-call hypothesis over the world with the bit-exact sieve AND the bit-level phi, `x = 10^5`, `pi := π` -/
theorem exWorld2_nestedS2 (c : Sieve.Cfg) (f : Sieve.StopFn) : exWorld2.NestedS2 c f 100 Nat.primeCounting 100000 :=
  exWorld2.nestedS2_1e5 exWorld2_ok exWorld2_phiRunOK2 c f

theorem exGExecC_world2S (c : Sieve.Cfg) (f : Sieve.StopFn) :
    GExecC (exWorld2.toWorld.tablesS c f false) 100 false 100000 (exGRun (exWorld2.toWorld.tablesS c f false).t) :=
  exGExecC_worldS c f

theorem exDrExec_world2S (c : Sieve.Cfg) (f : Sieve.StopFn) :
    DrExec (exWorld2.toWorld.tablesS c f false) 100 false 100000 exDrRun :=
  exDrExec_worldS c f

/-! ### the same world with `phiNeg := phiNegIdeal` — the function the bit-level `phi_vector` cache computes (`World.phi_vector_is_cpp`): `OK` without `phiVec` -/

noncomputable def exWorld3 : World2 := { exWorld2 with phiNeg := phiNegIdeal }

theorem exWorld3_ok : exWorld3.toWorld.OK 100 :=
  World.ok_of_ideal _ 100 rfl (by show 16 ≤ 256; norm_num) (by show 256 ≤ 8192; norm_num) (by show 2 ^ 50 ≤ 2 ^ 64; norm_num)
    (fun a b hb => It.floatOk_window_below_2_50 32768 256 a b (by norm_num) (by norm_num) hb) (fun _ => Nat.zero_le _)
    (by show 100 ≤ 3000; norm_num)

theorem exWorld3_phiRunOK2 (n : ℕ) : exWorld3.PhiRunOK2 n where
  lit := fun _ _ => Or.inl (Nat.le_succ _)
  works := fun a => exWorld2_works n a

theorem exWorld3_nestedS2 (c : Sieve.Cfg) (f : Sieve.StopFn) : exWorld3.NestedS2 c f 100 Nat.primeCounting 100000 :=
  exWorld3.nestedS2_1e5 exWorld3_ok exWorld3_phiRunOK2 c f

theorem exGExecC_world3S (c : Sieve.Cfg) (f : Sieve.StopFn) :
    GExecC (exWorld3.toWorld.tablesS c f false) 100 false 100000 (exGRun (exWorld3.toWorld.tablesS c f false).t) :=
  exGExecC_of _ rfl (by show 2127 ≤ 3000; norm_num) (by show 3000 ≤ _; decide)

theorem exDrExec_world3S (c : Sieve.Cfg) (f : Sieve.StopFn) :
    DrExec (exWorld3.toWorld.tablesS c f false) 100 false 100000 exDrRun :=
  exDrExec_of _ rfl (by show 46 ≤ 3000; norm_num)

end Pc.Close
