/-
C18 core, second half: shared vocabulary of the segment-level proofs (EratSmall / EratMedium / EratBig / PreSieve) and of the
end-to-end assembly (`PsCore2Erat*.lean`).
-/
import PcProofs.PsCoreMedium
import Mathlib.Data.Nat.Prime.Basic

namespace Pc.PsCore
open Pc.PsWheelSpec
open Pc.Sieve (Bytes bitAt)

/-- a sieving prime advanced from cofactor `u` to `u'` while a segment `[L, L + 30 n)` was sieved: no cofactor coprime to `M`
    was skipped — every cofactor that was passed belongs to a multiple inside (or below) the segment -/
def Adv (M q L n u u' : ℕ) : Prop :=
  u ≤ u' ∧ ∀ t, u ≤ t → t < u' → Nat.Coprime t M → q * t < L + 30 * n + 7

/-- what the pre-sieve leaves: numbers that no prime `7 … 163` divides properly -/
def PreOk (x : ℕ) : Prop := ∀ q, Nat.Prime q → 7 ≤ q → q ≤ 163 → q ∣ x → q = x

/-- ghost description of one sieving prime stored in EratBig's bucket list of the segment with low `Lk`:
    prime `q = g.1`, pending cofactor `u = g.2` -/
structure BStored (Lk log2 : ℕ) (p : SPrime) (g : ℕ × ℕ) : Prop where
  q_ge : 30 ≤ g.1
  q_lt : g.1 < 2 ^ 32
  sp : p.sp = g.1 / 30
  mi_lt : p.mi < 2 ^ log2
  pos : Pos 210 48 (g.1 / 30) g.1 Lk p.mi p.wi g.2

/-- EratBig holds the prime `q` with pending cofactor `u` (in some bucket list `k`; list `k` belongs to the segment `k` positions
    ahead of the current one, whose low is `L`) -/
def BigHas (L log2 : ℕ) (b : Buckets) (q u : ℕ) : Prop :=
  ∃ k p, k < b.size ∧ p ∈ (b.getD k #[]).toList ∧ BStored (L + 30 * (2 ^ log2 * k)) log2 p (q, u)

/-- every entry of every bucket list is valid, and `buckets_` is long enough for the next push of every entry
    (`maxSegmentIndex` of `storeSievingPrime`) -/
def BigOk (L log2 : ℕ) (b : Buckets) : Prop :=
  ∀ k < b.size, ∀ p ∈ (b.getD k #[]).toList,
    (∃ q u, BStored (L + 30 * (2 ^ log2 * k)) log2 p (q, u)) ∧ ((2 ^ log2 - 1 + (p.sp * 10 + 10)) >>> log2) < b.size

end Pc.PsCore
