/-
WP close, item 4 (part 3): CLOSED instances of `EnvOK` / `FactorOK` / `FactorDOK` (the table contracts of `s2HardThread_eq`,
`dThread_eq`, `s2HardOpenMP_*`, `dOpenMP_*`) for the environments built from the C17 constructor MODELS, for ALL `y`, `z`.

* `mkEnv primes primesSize piOf phiNeg P arr`   an `Env` assembled from constructor outputs: `factor_[]` reads the constructor's array
      through the driver's accessor `hlFactorOf`, `phi_vector` is the C17 model `PhiVec.phiVector` over these very tables (this is the
      shape of the driver's `hlEnv`, PcModel/Drv/HardLoops.lean:141)
* `TabOK`, `mkEnv_ok`      the prime / π tables are right up to `N ≥ P` and `phi<-1>` is right ⇒ `EnvOK (mkEnv …) P`
* `genPrimes gen mx`       `generate_primes<T>(max)` = `{0} ++ primes ≤ max` (generate_primes.hpp) over the generator `gen`;
  `piTableGet`             `PiTable pi(max, threads); pi[n]` by C17's model `PiTable.new`;  `ctorTab_ok` : they meet `TabOK`
* `realHardEnv gen threads phiNeg wide y z`     what `S2_hard_default` + `S2_hard_OpenMP` allocate (S2_hard.cpp:205-206, 253-255, 309-320)
  `realDEnv gen threads phiNeg wide y z`        what `D_default` + `D_OpenMP` allocate (D.cpp:209, 256-257, 311-320)
  `realHardEnv_ok`, `realHardEnv_factor`, `realDEnv_ok`, `realDEnv_factor` : the contracts, for every `y`, `z`, every thread count.

Remaining named hypotheses: `PrimeGenSpec gen` (the primesieve generator behind generate_primes / PiTable / FactorTable: C18
`generator_contract_spec`) and `PhiNegSpec phiNeg (π P)` (the `PhiCache` inside phi_vector: C07 `phiRecAlg_correct`).
-/
import PcProofs.CloseTables
import PcProofs.CloseTablesPhi
import PcProofs.OraclePhi
import PcProofs.FormulasBase

namespace Pc.Close
open Nat Pc.Hard Pc.Drv Pc.PhiVec
open scoped Nat.Prime

local notation "p" => Spec.p
local notation "φ" => Spec.phi

/-- an environment assembled from constructor outputs -/
def mkEnv (primes : ℕ → ℕ) (primesSize : ℕ) (piOf : ℕ → ℕ) (phiNeg : ℕ → ℕ → ℤ) (P : ℕ) (arr : FtArr) : Env where
  primes := primes
  primesSize := primesSize
  pi := piOf
  piMax := P
  factor := hlFactorOf arr
  factorSize := arr.size
  phiVec := fun low a => (phiVector primes (piOf low) (isqrtN low) phiNeg low a).toArray

/-- the prime table and the π table are right up to `N` (and `primes[]` reads `0` beyond its end), `primes.size()` is that of
    `generate_primes(P)` -/
structure TabOK (primes : ℕ → ℕ) (primesSize : ℕ) (piOf : ℕ → ℕ) (P N : ℕ) : Prop where
  le : P ≤ N
  zero : primes 0 = 0
  size : primesSize = π P + 1
  prime : ∀ i, 1 ≤ i → i ≤ π N → primes i = p i
  out : ∀ i, π N < i → primes i = 0
  pi : ∀ n, n ≤ N → piOf n = π n

/-- the `pi[x]` that `phi_vector` reads (when `primes[a] > x`) is at most `a` -/
theorem TabOK.guard {primes : ℕ → ℕ} {primesSize : ℕ} {piOf : ℕ → ℕ} {P N : ℕ} (h : TabOK primes primesSize piOf P N)
    (a x : ℕ) (hgt : primes a > x) : piOf x ≤ a := by
  by_cases h0 : a = 0
  · rw [h0, h.zero] at hgt; omega
  by_cases hN : a ≤ π N
  · rw [h.prime a (by omega) hN] at hgt
    have h1 : p a ≤ N := (Spec.p_le_iff (by omega)).2 hN
    rw [h.pi x (by omega)]
    have := (Spec.lt_p_iff (by omega : 1 ≤ a)).1 hgt
    omega
  · rw [h.out a (by omega)] at hgt; omega

theorem mkEnv_ok {primes : ℕ → ℕ} {primesSize : ℕ} {piOf : ℕ → ℕ} {phiNeg : ℕ → ℕ → ℤ} {P N : ℕ}
    (h : TabOK primes primesSize piOf P N) (hphi : PhiNegSpec phiNeg (π P)) (arr : FtArr) :
    EnvOK (mkEnv primes primesSize piOf phiNeg P arr) P where
  primes_zero := h.zero
  primesSize := h.size
  primes_eq := fun i h1 h2 => h.prime i h1 (le_trans h2 (Nat.monotone_primeCounting h.le))
  piMax := rfl
  pi_eq := fun n hn => h.pi n (le_trans hn h.le)
  phiVec_size := fun low a => by
    show (phiVector primes (piOf low) (isqrtN low) phiNeg low a).toArray.size = a + 1
    rw [List.size_toArray]
    exact phiVector_length _ _ _ _ _ _ (h.guard a low)
  phiVec_eq := fun low a i ha h1 h2 => by
    show (phiVector primes (piOf low) (isqrtN low) phiNeg low a).toArray.getD i 0 = _
    rw [Array.getD_eq_getD_getElem?, List.getElem?_toArray, ← List.getD_eq_getElem?_getD, isqrtN_eq]
    exact phiVector_correct_bdd primes piOf phiNeg P
      (fun j hj1 hj2 => h.prime j hj1 (le_trans hj2 (Nat.monotone_primeCounting h.le)))
      (fun n hn => h.pi n (le_trans hn h.le)) hphi low a ha i h1 h2

/-! ### the tables the real constructors build -/

/-- `generate_primes<T>(max)`: `std::vector<T> primes = {0}; primesieve::generate_primes(max, &primes)` -/
def genPrimes (gen : PrimeGen) (mx : ℕ) : List ℕ := 0 :: gen 0 (mx + 1)

/-- `PiTable pi(max_x, threads); pi[n]` (the model returns `none` for the ASSERTed-away reads beyond `max_x`) -/
def piTableGet (gen : PrimeGen) (mx : ℕ) (threads : ℤ) : ℕ → ℕ :=
  let t := PiTable.new gen mx threads
  fun n => (t.get n).getD 0

theorem gen_eq_primesUpTo (gen : PrimeGen) (hg : PrimeGenSpec gen) (mx : ℕ) : gen 0 (mx + 1) = primesUpTo mx := by
  apply List.Pairwise.eq_of_mem_iff (r := (· < ·)) (hg 0 (mx + 1)).1 (primesUpTo_spec mx).1
  intro q
  rw [(hg 0 (mx + 1)).2 q, (primesUpTo_spec mx).2 q]
  constructor
  · rintro ⟨_, h2, h3⟩; exact ⟨by omega, h3⟩
  · rintro ⟨h2, h3⟩; exact ⟨Nat.zero_le _, by omega, h3⟩

/-- `generate_primes(max)[i]` is the prime table of the oracle `NT.build max` -/
theorem genPrimes_getD (gen : PrimeGen) (hg : PrimeGenSpec gen) (mx i : ℕ) :
    (genPrimes gen mx).getD i 0 = (NT.build mx).p i := by
  show (0 :: gen 0 (mx + 1)).getD i 0 = (#[0] ++ (primesUpTo mx).toArray).getD i 0
  have : (#[0] ++ (primesUpTo mx).toArray) = (0 :: primesUpTo mx).toArray := by simp
  rw [this, gen_eq_primesUpTo gen hg, Array.getD_eq_getD_getElem?, List.getElem?_toArray, List.getD_eq_getElem?_getD]

theorem genPrimes_length (gen : PrimeGen) (hg : PrimeGenSpec gen) (mx : ℕ) : (genPrimes gen mx).length = π mx + 1 := by
  show (0 :: gen 0 (mx + 1)).length = _
  rw [gen_eq_primesUpTo gen hg, List.length_cons, primesUpTo_length]

/-- the outputs of `generate_primes(P)` and `PiTable(P, threads)` are right up to `P` -/
theorem ctorTab_ok (gen : PrimeGen) (hg : PrimeGenSpec gen) (P : ℕ) (threads : ℤ) :
    TabOK (fun i => (genPrimes gen P).getD i 0) (genPrimes gen P).length (piTableGet gen P threads) P P where
  le := le_refl _
  zero := rfl
  size := genPrimes_length gen hg P
  prime := fun i h1 h2 => by
    show (genPrimes gen P).getD i 0 = _
    rw [genPrimes_getD gen hg]
    exact (NT.build_valid P).p_eq i h1 h2
  out := fun i hi => by
    show (genPrimes gen P).getD i 0 = 0
    rw [List.getD_eq_getElem?_getD, List.getElem?_eq_none (by rw [genPrimes_length gen hg]; omega)]
    rfl
  pi := fun n hn => by
    show ((PiTable.new gen P threads).get n).getD 0 = π n
    rw [piTable_correct gen hg P threads n hn]
    rfl

/-- **the tables of `S2_hard_default` + `S2_hard_OpenMP`** for `(y, z)`: `FactorTable<T> factor(y, threads)` (`T` by `realTmax`),
    `max_prime = min(y, z / isqrt(y))`, `primes = generate_primes(max_prime)`, `PiTable pi(max_prime, threads)`,
    `phi_vector(low, a, primes, pi)` with the inner `PhiCache` `phiNeg` -/
def realHardEnv (gen : PrimeGen) (threads : ℤ) (phiNeg : ℕ → ℕ → ℤ) (wide : Bool) (y z : ℕ) : Env :=
  let P := min y (z / Nat.sqrt y)
  let primes := genPrimes gen P
  mkEnv (fun i => primes.getD i 0) primes.length (piTableGet gen P threads) phiNeg P
    ((factorTableNew gen (realTmax wide y) (y : ℤ) threads).getD #[])

/-- **the tables of `D_default` + `D_OpenMP`** for `(y, z)`: `FactorTableD<T> factor(y, z, threads)` (`T` by `realTmax … z`),
    `primes = generate_primes(y)`, `PiTable pi(y, threads)`, `phi_vector` -/
def realDEnv (gen : PrimeGen) (threads : ℤ) (phiNeg : ℕ → ℕ → ℤ) (wide : Bool) (y z : ℕ) : Env :=
  let primes := genPrimes gen y
  mkEnv (fun i => primes.getD i 0) primes.length (piTableGet gen y threads) phiNeg y
    ((factorTableDNew gen (realTmax wide z) (y : ℤ) (z : ℤ) threads).getD #[])

variable (gen : PrimeGen) (threads : ℤ) (phiNeg : ℕ → ℕ → ℤ) (wide : Bool)

/-- **`EnvOK` for the real S2_hard tables**, every `y`, `z`, thread count -/
theorem realHardEnv_ok (hg : PrimeGenSpec gen) (y z : ℕ) (hphi : PhiNegSpec phiNeg (π (min y (z / Nat.sqrt y)))) :
    EnvOK (realHardEnv gen threads phiNeg wide y z) (min y (z / Nat.sqrt y)) :=
  mkEnv_ok (ctorTab_ok gen hg _ threads) hphi _

/-- **`FactorOK` for the real S2_hard tables**, every `y`, `z`, thread count; the witness is the entry type `realTmax wide y` -/
theorem realHardEnv_factor' (hg : PrimeGenSpec gen) (y z : ℕ) :
    FactorOK (realHardEnv gen threads phiNeg wide y z) (realTmax wide y) y := by
  obtain ⟨arr, h1, h2⟩ := factorOK_of_ctor gen hg (realTmax wide y) (realTmax_ge _ _) (realTmax_odd _ _) y threads
    (le_ftMax_realTmax _ _)
  apply h2
  · show hlFactorOf _ = _; rw [h1]; rfl
  · show Array.size _ = _; rw [h1]; rfl

theorem realHardEnv_factor (hg : PrimeGenSpec gen) (y z : ℕ) :
    ∃ tmax, FactorOK (realHardEnv gen threads phiNeg wide y z) tmax y :=
  ⟨_, realHardEnv_factor' gen threads phiNeg wide hg y z⟩

/-- **`EnvOK` for the real D tables** -/
theorem realDEnv_ok (hg : PrimeGenSpec gen) (y z : ℕ) (hphi : PhiNegSpec phiNeg (π y)) :
    EnvOK (realDEnv gen threads phiNeg wide y z) y :=
  mkEnv_ok (ctorTab_ok gen hg _ threads) hphi _

/-- **`FactorDOK` for the real D tables**, every `y`, `z`, thread count; the witness is the entry type `realTmax wide z` -/
theorem realDEnv_factor' (hg : PrimeGenSpec gen) (y z : ℕ) :
    FactorDOK (realDEnv gen threads phiNeg wide y z) (realTmax wide z) y z := by
  obtain ⟨arr, h1, h2⟩ := factorDOK_of_ctor gen hg (realTmax wide z) (realTmax_ge _ _) (realTmax_odd _ _) y z threads
    (le_ftMax_realTmax _ _)
  apply h2
  · show hlFactorOf _ = _; rw [h1]; rfl
  · show Array.size _ = _; rw [h1]; rfl

theorem realDEnv_factor (hg : PrimeGenSpec gen) (y z : ℕ) :
    ∃ tmax, FactorDOK (realDEnv gen threads phiNeg wide y z) tmax y z :=
  ⟨_, realDEnv_factor' gen threads phiNeg wide hg y z⟩

/-- on the domain of the real constructor the factor array of `realHardEnv` is its output (no `getD` fallback) and the entry type is the
    code's choice -/
theorem realHardEnv_ctor_some (hg : PrimeGenSpec gen) (y : ℕ) :
    ∃ arr, factorTableNew gen (realTmax wide y) (y : ℤ) threads = some arr := by
  obtain ⟨arr, h1, _⟩ := factorOK_of_ctor gen hg (realTmax wide y) (realTmax_ge _ _) (realTmax_odd _ _) y threads
    (le_ftMax_realTmax _ _)
  exact ⟨arr, h1⟩

theorem realDEnv_ctor_some (hg : PrimeGenSpec gen) (y z : ℕ) :
    ∃ arr, factorTableDNew gen (realTmax wide z) (y : ℤ) (z : ℤ) threads = some arr := by
  obtain ⟨arr, h1, _⟩ := factorDOK_of_ctor gen hg (realTmax wide z) (realTmax_ge _ _) (realTmax_odd _ _) y z threads
    (le_ftMax_realTmax _ _)
  exact ⟨arr, h1⟩

end Pc.Close
