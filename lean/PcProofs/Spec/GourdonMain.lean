/-
L0 spec library, Gourdon part 4: `gourdon_leaf_split`, `gourdon_A_sigma`, `gourdon_decomp` and
`pi_gourdon` of DESIGN.md 5.1, fully proved.

Hypotheses (`GParams`): `x^{1/3} < y ≤ √x` (as `x < y^3`, `y*y ≤ x`), `y ≤ z`, `z*z ≤ x`,
`c3 = ⌊x^{1/3}⌋`, and for the parameter `w` (= `x⋆`) only the three facts
`x < (w+1)^4`, `x < (w+1) * y^2`, `w ≤ ⌊√(x/y)⌋`, plus `k ≤ π w`.
(`get_x_star_gourdon` of `src/util.cpp` satisfies them on that domain: `xstar_spec`.)

Result: the special leaves with size cut-off `z` and stop level `k` are
`spec x z k (π y) = C + D + A + Σ1 + Σ2 + Σ3 + Σ4 + Σ5 + Σ6`, where `C + D` are the leaves `(p i, m)`
with `i ≤ π w` (all of them satisfy `m ≤ x / (p i)^2`: the class `T` of DESIGN 5.1 is empty), and the
leaves with `i > π w` (class `U`; there `m` is a prime) sum to `A + Σ1 + … + Σ6`.
-/
import PcProofs.Spec.GourdonPairs

namespace Pc.Spec

open Finset Nat Classical
open scoped Nat.Prime ArithmeticFunction.Moebius

/-- the parameter domain of the Gourdon identities -/
structure GParams (x y z k w c3 : ℕ) : Prop where
  hy3 : x < y ^ 3
  hy2 : y * y ≤ x
  hyz : y ≤ z
  hz : z * z ≤ x
  hc3 : c3 ^ 3 ≤ x
  hc3' : x < (c3 + 1) ^ 3
  hw4 : x < (w + 1) ^ 4
  hwy : x < (w + 1) * (y * y)
  hws : w ≤ Nat.sqrt (x / y)
  hk : k ≤ π w

namespace GParams

variable {x y z k w c3 : ℕ} (g : GParams x y z k w c3)
include g

lemma y_pos : 1 ≤ y := by
  rcases Nat.eq_zero_or_pos y with h | h
  · have := g.hy3; rw [h] at this; simp at this
  · exact h

lemma c3_lt_y : c3 < y := by
  by_contra h
  push Not at h
  have := Nat.pow_le_pow_left h 3
  have := g.hy3; have := g.hc3
  omega

lemma s_le_c3 : Nat.sqrt (x / y) ≤ c3 := by
  by_contra h
  push Not at h
  have h1 : (c3 + 1) * (c3 + 1) ≤ x / y := Nat.le_sqrt.1 h
  rw [Nat.le_div_iff_mul_le g.y_pos] at h1
  have h2 : c3 + 1 ≤ y := g.c3_lt_y
  have : (c3 + 1) ^ 3 ≤ x := by
    calc (c3 + 1) ^ 3 = (c3 + 1) * (c3 + 1) * (c3 + 1) := by ring
      _ ≤ (c3 + 1) * (c3 + 1) * y := Nat.mul_le_mul_left _ h2
      _ ≤ x := h1
  have := g.hc3'
  omega

lemma z_lt : z < (w + 1) * (w + 1) := by
  by_contra h
  push Not at h
  have : (w + 1) ^ 4 ≤ x := by
    calc (w + 1) ^ 4 = (w + 1) * (w + 1) * ((w + 1) * (w + 1)) := by ring
      _ ≤ z * z := Nat.mul_le_mul h h
      _ ≤ x := g.hz
  have := g.hw4
  omega

lemma d_le_c : π w ≤ π (Nat.sqrt (x / y)) := pi_mono g.hws
lemma c_le_b : π (Nat.sqrt (x / y)) ≤ π c3 := pi_mono g.s_le_c3
lemma b_le_a : π c3 ≤ π y := pi_mono g.c3_lt_y.le
lemma d_le_a : π w ≤ π y := le_trans g.d_le_c (le_trans g.c_le_b g.b_le_a)

omit g in
/-- a level above `π w`: `w < p i` -/
lemma w_lt_q {i : ℕ} (hi : π w < i) : w + 1 ≤ p i := (lt_p_iff (by omega)).2 hi

/-- levels `π w < i ≤ π c3` are `A`-levels -/
lemma aLevel {i : ℕ} (hi : i ∈ Ioc (π w) (π c3)) : ALevel x y i := by
  rw [mem_Ioc] at hi
  have hi1 : 1 ≤ i := by omega
  have hq := w_lt_q hi.1
  have hqc : p i ≤ c3 := (p_le_iff hi1).2 hi.2
  refine ⟨hi1, le_trans hi.2 g.b_le_a, g.hy2, ?_, ?_, ?_⟩
  · calc p i * p i * p i = p i ^ 3 := by ring
      _ ≤ c3 ^ 3 := Nat.pow_le_pow_left hqc 3
      _ ≤ x := g.hc3
  · calc x < (w + 1) ^ 4 := g.hw4
      _ ≤ p i ^ 4 := Nat.pow_le_pow_left hq 4
      _ = p i * p i * (p i * p i) := by ring
  · calc x < (w + 1) * (y * y) := g.hwy
      _ ≤ p i * (y * y) := Nat.mul_le_mul_right _ hq
      _ = y * y * p i := by ring

lemma low {i : ℕ} (hi : i ∈ Ioc (π w) (π (Nat.sqrt (x / y)))) : p i * p i * y ≤ x := by
  rw [mem_Ioc] at hi
  have h1 : p i ≤ Nat.sqrt (x / y) := (p_le_iff (by omega)).2 hi.2
  have := Nat.le_sqrt.1 h1
  exact (Nat.le_div_iff_mul_le g.y_pos).1 this

lemma high {i : ℕ} (hi : i ∈ Ioc (π (Nat.sqrt (x / y))) (π c3)) : x < p i * p i * y := by
  rw [mem_Ioc] at hi
  have h1 : Nat.sqrt (x / y) < p i := (lt_p_iff (by omega)).2 hi.1
  have := Nat.sqrt_lt.1 h1
  exact (Nat.div_lt_iff_lt_mul g.y_pos).1 this

/-- levels above `π c3`: every leaf `(p i, p j)` is worth `1` -/
lemma top_leaf {i j : ℕ} (hi : i ∈ Ioc (π c3) (π y)) (hj : j ∈ Ioc i (π y)) :
    phi (x / (p j * p i)) (i - 1) = 1 := by
  rw [mem_Ioc] at hi hj
  have hi1 : 1 ≤ i := by omega
  have hq : c3 + 1 ≤ p i := (lt_p_iff hi1).2 hi.1
  have hqr : p i < p j := p_lt_p hi1 hj.1
  have hry : p j ≤ y := (p_le_iff (by omega)).2 hj.2
  apply phi_leaf_trivial hi1
  · apply Nat.div_pos _ (Nat.mul_pos (p_pos j) (p_pos i))
    calc p j * p i ≤ y * y := Nat.mul_le_mul hry (le_trans hqr.le hry)
      _ ≤ x := g.hy2
  · rw [Nat.div_lt_iff_lt_mul (Nat.mul_pos (p_pos j) (p_pos i))]
    calc x < (c3 + 1) ^ 3 := g.hc3'
      _ ≤ p i ^ 3 := Nat.pow_le_pow_left hq 3
      _ = p i * (p i * p i) := by ring
      _ ≤ p i * (p j * p i) := Nat.mul_le_mul_left _ (Nat.mul_le_mul_right _ hqr.le)

end GParams

/-! ### the classes of special leaves -/

/-- the special leaves of level `i` with `m ≤ x / (p i)^2` (classes `C` and `D` together) -/
noncomputable def CDterm (x y z i : ℕ) : ℤ :=
  ∑ m ∈ (Ioc (z / p i) z).filter (fun m =>
      (∀ q, q.Prime → q ∣ m → i < π q ∧ π q ≤ π y) ∧ m ≤ x / (p i * p i)),
    μ m * (phi (x / (m * p i)) (i - 1) : ℤ)

/-- class `C` (easy leaves): `x / q³ < m ≤ x / q²`, value `μ m * (π (x / (m q)) - i + 2)` -/
noncomputable def Cterm (x y z i : ℕ) : ℤ :=
  ∑ m ∈ (Ioc (z / p i) z).filter (fun m =>
      (∀ q, q.Prime → q ∣ m → i < π q ∧ π q ≤ π y) ∧ m ≤ x / (p i * p i)
        ∧ x / (p i * p i * p i) < m),
    μ m * ((π (x / (m * p i)) : ℤ) - i + 2)

/-- class `D` (hard leaves): `m ≤ x / q³`, value `μ m * phi (x / (m q)) (i - 1)` -/
noncomputable def Dterm (x y z i : ℕ) : ℤ :=
  ∑ m ∈ (Ioc (z / p i) z).filter (fun m =>
      (∀ q, q.Prime → q ∣ m → i < π q ∧ π q ≤ π y) ∧ m ≤ x / (p i * p i * p i)),
    μ m * (phi (x / (m * p i)) (i - 1) : ℤ)

/-- Gourdon's `C(x, y, z, k)` in the `μ` presentation; levels `k < i ≤ π w` -/
noncomputable def C (x y z k w : ℕ) : ℤ := - ∑ i ∈ Ioc k (π w), Cterm x y z i

/-- Gourdon's `D(x, y, z, k)` in the `μ` presentation; levels `k < i ≤ π w` -/
noncomputable def D (x y z k w : ℕ) : ℤ := - ∑ i ∈ Ioc k (π w), Dterm x y z i

theorem CDterm_eq (x y z i : ℕ) (hi : 1 ≤ i) : CDterm x y z i = Cterm x y z i + Dterm x y z i := by
  unfold CDterm Cterm Dterm
  have hq := p_pos i
  rw [← Finset.sum_filter_add_sum_filter_not _ (fun m => x / (p i * p i * p i) < m)]
  congr 1
  · rw [Finset.filter_filter]
    apply Finset.sum_congr
    · apply Finset.filter_congr; intro m _; tauto
    · intro m hm
      rw [mem_filter, mem_Ioc] at hm
      obtain ⟨_, _, h2, h3⟩ := hm
      have hm0 : 0 < m := lt_of_le_of_lt (Nat.zero_le _) h3
      have hmq : 0 < m * p i := Nat.mul_pos hm0 hq
      have e1 : p i ≤ x / (m * p i) := by
        rw [Nat.le_div_iff_mul_le hmq]
        have := (Nat.le_div_iff_mul_le (Nat.mul_pos hq hq)).1 h2
        calc p i * (m * p i) = m * (p i * p i) := by ring
          _ ≤ x := this
      have e2 : x / (m * p i) < p i ^ 2 := by
        rw [Nat.div_lt_iff_lt_mul hmq]
        have := (Nat.div_lt_iff_lt_mul (Nat.mul_pos (Nat.mul_pos hq hq) hq)).1 h3
        calc x < m * (p i * p i * p i) := this
          _ = p i ^ 2 * (m * p i) := by ring
      rw [phi_leaf_easy' hi e1 e2]
  · rw [Finset.filter_filter]
    apply Finset.sum_congr _ (fun _ _ => rfl)
    ext m
    simp only [mem_filter, mem_Ioc, not_lt]
    constructor
    · rintro ⟨h1, ⟨h2, _⟩, h4⟩; exact ⟨h1, h2, h4⟩
    · rintro ⟨h1, h2, h4⟩
      refine ⟨h1, ⟨h2, le_trans h4 ?_⟩, h4⟩
      apply Nat.div_le_div_left _ (Nat.mul_pos hq hq)
      calc p i * p i = p i * p i * 1 := (mul_one _).symm
        _ ≤ p i * p i * p i := Nat.mul_le_mul_left _ hq

namespace GParams

variable {x y z k w c3 : ℕ} (g : GParams x y z k w c3)
include g

/-- **class `T` is empty**: on the levels `i ≤ π w` every special leaf has `m ≤ x / (p i)^2` -/
theorem specTerm_low {i : ℕ} (hi : i ∈ Ioc k (π w)) :
    specTerm x z i (π y) = CDterm x y z i := by
  rw [mem_Ioc] at hi
  have hi1 : 1 ≤ i := by omega
  have hq := p_pos i
  have hqw : p i ≤ w := (p_le_iff hi1).2 hi.2
  have hqs : p i ≤ Nat.sqrt (x / y) := le_trans hqw g.hws
  have hqqy : p i * p i * y ≤ x :=
    (Nat.le_div_iff_mul_le g.y_pos).1 (Nat.le_sqrt.1 hqs)
  rw [specTerm_eq_moebius]
  unfold CDterm
  apply Finset.sum_congr _ (fun _ _ => rfl)
  apply Finset.filter_congr
  intro m hm
  rw [mem_Ioc] at hm
  constructor
  · intro hc
    refine ⟨hc, ?_⟩
    by_contra hlt
    push Not at hlt
    rw [Nat.div_lt_iff_lt_mul (Nat.mul_pos hq hq)] at hlt
    -- m > y
    have hmy : y < m := by
      by_contra hle
      push Not at hle
      have : m * (p i * p i) ≤ y * (p i * p i) := Nat.mul_le_mul_right _ hle
      have : y * (p i * p i) = p i * p i * y := by ring
      omega
    have hm1 : m ≠ 1 := by have := g.y_pos; omega
    by_cases hmp : m.Prime
    · have := (hc m hmp dvd_rfl).2
      have := (prime_le_iff_pi_le' hmp).2 this
      omega
    · have hr := Nat.minFac_prime hm1
      have h1 := (hc _ hr (Nat.minFac_dvd m)).1
      have h2 : p i < m.minFac := (lt_pi_iff_p_lt hi1 hr).1 h1
      have h3 := Nat.minFac_sq_le_self (by omega : 0 < m) hmp
      have h4 : p i * p i < m := by
        calc p i * p i < m.minFac * m.minFac := Nat.mul_lt_mul'' h2 h2
          _ = m.minFac ^ 2 := (pow_two _).symm
          _ ≤ m := h3
      have h5 : m * (p i * p i) ≤ z * z :=
        Nat.mul_le_mul hm.2 (le_trans h4.le hm.2)
      have := g.hz
      omega
  · intro hc; exact hc.1

/-- **class `U`**: on the levels `i > π w` every `m` is a prime `p j`, `i < j ≤ π y` -/
theorem specTerm_high {i : ℕ} (hi : i ∈ Ioc (π w) (π y)) :
    specTerm x z i (π y) = - ∑ j ∈ Ioc i (π y), (phi (x / (p j * p i)) (i - 1) : ℤ) := by
  rw [mem_Ioc] at hi
  have hi1 : 1 ≤ i := by omega
  have hq := w_lt_q hi.1
  have hqy : p i ≤ y := (p_le_iff hi1).2 hi.2
  have hz1 : p i ≤ z := le_trans hqy g.hyz
  have hz2 : z < p (i + 1) ^ 2 := by
    have : w + 1 ≤ p (i + 1) := le_trans hq (p_le_p (by omega))
    calc z < (w + 1) * (w + 1) := g.z_lt
      _ ≤ p (i + 1) * p (i + 1) := Nat.mul_le_mul this this
      _ = p (i + 1) ^ 2 := (pow_two _).symm
  rw [specTerm_eq_sum_primes hz1 hz2]
  congr 1
  have : (primesGt i z).filter (fun r => π r ≤ π y ∧ z / p i < r) = primesGt i y := by
    ext r
    rw [mem_filter, mem_primesGt, mem_primesGt]
    constructor
    · rintro ⟨⟨hr, h1, _⟩, h3, _⟩
      exact ⟨hr, h1, (prime_le_iff_pi_le' hr).2 h3⟩
    · rintro ⟨hr, h1, h2⟩
      refine ⟨⟨hr, h1, le_trans h2 g.hyz⟩, pi_mono h2, ?_⟩
      have hqr : p i < r := (lt_pi_iff_p_lt hi1 hr).1 h1
      rw [Nat.div_lt_iff_lt_mul (p_pos i)]
      calc z < (w + 1) * (w + 1) := g.z_lt
        _ ≤ r * p i := Nat.mul_le_mul (le_trans hq hqr.le) hq
  rw [this, sum_primesGt]

/-- **`gourdon_leaf_split`**: `Special = C + D + U`, `U = Σ_{π w < i ≤ π y} Σ_{i < j ≤ π y} phi (x / (p j p i)) (i-1)` -/
theorem leaf_split :
    spec x z k (π y) = C x y z k w + D x y z k w
      + ∑ i ∈ Ioc (π w) (π y), ∑ j ∈ Ioc i (π y), (phi (x / (p j * p i)) (i - 1) : ℤ) := by
  unfold spec C D
  rw [← Finset.sum_Ioc_consecutive _ g.hk g.d_le_a]
  have e1 : ∑ i ∈ Ioc k (π w), specTerm x z i (π y)
      = ∑ i ∈ Ioc k (π w), Cterm x y z i + ∑ i ∈ Ioc k (π w), Dterm x y z i := by
    rw [← Finset.sum_add_distrib]
    apply Finset.sum_congr rfl
    intro i hi
    rw [g.specTerm_low hi, CDterm_eq]
    rw [mem_Ioc] at hi; omega
  have e2 : ∑ i ∈ Ioc (π w) (π y), specTerm x z i (π y)
      = - ∑ i ∈ Ioc (π w) (π y), ∑ j ∈ Ioc i (π y), (phi (x / (p j * p i)) (i - 1) : ℤ) := by
    rw [← Finset.sum_neg_distrib]
    apply Finset.sum_congr rfl
    intro i hi
    exact g.specTerm_high hi
  rw [e1, e2]; ring

/-- **`gourdon_A_sigma`**: the leaves of class `U` sum to `A + Σ1 + Σ2 + Σ3 + Σ4 + Σ5 + Σ6` -/
theorem A_sigma :
    ∑ i ∈ Ioc (π w) (π y), ∑ j ∈ Ioc i (π y), (phi (x / (p j * p i)) (i - 1) : ℤ)
      = A x y w c3 + Sigma1 (π y) (π c3)
        + Sigma2 (π y) (π c3) (π (Nat.sqrt (x / y))) (π w) + Sigma3 (π c3) (π w)
        + Sigma4 x y w + Sigma5 x y c3 + Sigma6 x w c3 := by
  set a := π y with ha
  set b := π c3 with hb
  set c := π (Nat.sqrt (x / y)) with hc
  set d := π w with hd
  have hdc : d ≤ c := g.d_le_c
  have hcb : c ≤ b := g.c_le_b
  have hba : b ≤ a := g.b_le_a
  have hdb : d ≤ b := le_trans hdc hcb
  -- split the levels
  rw [← Finset.sum_Ioc_consecutive _ hdb hba, ← Finset.sum_Ioc_consecutive _ hdc hcb]
  -- top levels
  have eTop : ∑ i ∈ Ioc b a, ∑ j ∈ Ioc i a, (phi (x / (p j * p i)) (i - 1) : ℤ) = Sigma1 a b := by
    rw [← sum_sub_eq_Sigma1 b a hba]
    apply Finset.sum_congr rfl
    intro i hi
    have hia : i ≤ a := (mem_Ioc.1 hi).2
    rw [← sum_Ioc_const_one i a hia]
    apply Finset.sum_congr rfl
    intro j hj
    rw [g.top_leaf hi hj]; simp
  -- low levels
  have eLow : ∑ i ∈ Ioc d c, ∑ j ∈ Ioc i a, (phi (x / (p j * p i)) (i - 1) : ℤ)
      = ∑ i ∈ Ioc d c, (Aidx x y i + (a : ℤ) * (π (x / (p i * y)) : ℤ)
          - (π (Nat.sqrt (x / p i)) : ℤ) ^ 2 + ((a : ℤ) - i) * (2 - (i : ℤ))) := by
    apply Finset.sum_congr rfl
    intro i hi
    have hi' : i ∈ Ioc d b := by rw [mem_Ioc] at hi ⊢; omega
    exact (g.aLevel hi').U_eval_low (g.low hi)
  -- high levels
  have eHigh : ∑ i ∈ Ioc c b, ∑ j ∈ Ioc i a, (phi (x / (p j * p i)) (i - 1) : ℤ)
      = ∑ i ∈ Ioc c b, (Aidx x y i + (π (x / (p i * p i)) : ℤ)
          - (π (Nat.sqrt (x / p i)) : ℤ) ^ 2 + ((i : ℤ) ^ 2 - 2 * i + (a : ℤ))) := by
    apply Finset.sum_congr rfl
    intro i hi
    have hi' : i ∈ Ioc d b := by rw [mem_Ioc] at hi ⊢; omega
    exact (g.aLevel hi').U_eval_high (g.high hi)
  rw [eTop, eLow, eHigh]
  -- the right-hand side in index form
  rw [A_eq_index, Sigma4_eq_index, Sigma5_eq_index, Sigma6_eq_index]
  rw [← hd, ← hb, ← hc, ← ha]
  rw [← Finset.sum_Ioc_consecutive (fun i => Aidx x y i) hdc hcb,
    ← Finset.sum_Ioc_consecutive (fun i => (π (Nat.sqrt (x / p i)) : ℤ) ^ 2) hdc hcb]
  -- polynomial part
  have ePoly : ∑ i ∈ Ioc d c, (((a : ℤ) - i) * (2 - (i : ℤ)))
      + ∑ i ∈ Ioc c b, ((i : ℤ) ^ 2 - 2 * i + (a : ℤ)) = Sigma2 a b c d + Sigma3 b d := by
    have q1 : ∑ i ∈ Ioc d c, (((a : ℤ) - i) * (2 - (i : ℤ)))
        = (a : ℤ) * ∑ i ∈ Ioc d c, (2 - (i : ℤ)) + ∑ i ∈ Ioc d c, ((i : ℤ) ^ 2 - 2 * i) := by
      rw [Finset.mul_sum, ← Finset.sum_add_distrib]
      apply Finset.sum_congr rfl; intro i _; ring
    have q2 : ∑ i ∈ Ioc c b, ((i : ℤ) ^ 2 - 2 * i + (a : ℤ))
        = ∑ i ∈ Ioc c b, ((i : ℤ) ^ 2 - 2 * i) + (a : ℤ) * ((b : ℤ) - c) := by
      rw [Finset.sum_add_distrib]
      simp only [Finset.sum_const, Nat.card_Ioc, nsmul_eq_mul, Nat.cast_sub hcb]
      ring
    have q3 := Finset.sum_Ioc_consecutive (fun i : ℕ => ((i : ℤ) ^ 2 - 2 * i)) hdc hcb
    rw [q1, q2, sum_two_sub d c hdc, ← sum_sq_sub d b hdb, ← q3]
    unfold Sigma2
    ring
  have L1 : ∑ i ∈ Ioc d c, (Aidx x y i + (a : ℤ) * (π (x / (p i * y)) : ℤ)
          - (π (Nat.sqrt (x / p i)) : ℤ) ^ 2 + ((a : ℤ) - i) * (2 - (i : ℤ)))
      = ∑ i ∈ Ioc d c, Aidx x y i + (a : ℤ) * ∑ i ∈ Ioc d c, (π (x / (p i * y)) : ℤ)
          - ∑ i ∈ Ioc d c, (π (Nat.sqrt (x / p i)) : ℤ) ^ 2
          + ∑ i ∈ Ioc d c, (((a : ℤ) - i) * (2 - (i : ℤ))) := by
    rw [Finset.sum_add_distrib, Finset.sum_sub_distrib, Finset.sum_add_distrib, Finset.mul_sum]
  have L2 : ∑ i ∈ Ioc c b, (Aidx x y i + (π (x / (p i * p i)) : ℤ)
          - (π (Nat.sqrt (x / p i)) : ℤ) ^ 2 + ((i : ℤ) ^ 2 - 2 * i + (a : ℤ)))
      = ∑ i ∈ Ioc c b, Aidx x y i + ∑ i ∈ Ioc c b, (π (x / (p i * p i)) : ℤ)
          - ∑ i ∈ Ioc c b, (π (Nat.sqrt (x / p i)) : ℤ) ^ 2
          + ∑ i ∈ Ioc c b, ((i : ℤ) ^ 2 - 2 * i + (a : ℤ)) := by
    rw [Finset.sum_add_distrib, Finset.sum_sub_distrib, Finset.sum_add_distrib]
  rw [L1, L2]
  linarith [ePoly]

/-- **`gourdon_decomp`**: `phi x (π y) = A + C + D + Φ0 + Σ1 + … + Σ6` -/
theorem decomp :
    (phi x (π y) : ℤ) = A x y w c3 + C x y z k w + D x y z k w + Phi0 x y z k
        + Sigma1 (π y) (π c3) + Sigma2 (π y) (π c3) (π (Nat.sqrt (x / y))) (π w)
        + Sigma3 (π c3) (π w) + Sigma4 x y w + Sigma5 x y c3 + Sigma6 x w c3 := by
  have hz : 1 ≤ z := le_trans g.y_pos g.hyz
  have h1 := gourdon_phi0_special x y z k hz (le_trans g.hk g.d_le_a)
  rw [h1, g.leaf_split, g.A_sigma]
  ring

/-- **π(x) by Gourdon's formula**: `π x = A - B + C + D + Φ0 + Σ`, `Σ = Σ0 + Σ1 + … + Σ6` -/
theorem pi_gourdon :
    (π x : ℤ) = A x y w c3 - B x y + C x y z k w + D x y z k w + Phi0 x y z k
        + (Sigma0 x (π y) + Sigma1 (π y) (π c3)
            + Sigma2 (π y) (π c3) (π (Nat.sqrt (x / y))) (π w)
            + Sigma3 (π c3) (π w) + Sigma4 x y w + Sigma5 x y c3 + Sigma6 x w c3) := by
  have hy := g.y_pos
  have hys : y ≤ Nat.sqrt x := Nat.le_sqrt.2 g.hy2
  have hyx : y ≤ x := le_trans hys (Nat.sqrt_le_self x)
  have hcube : x < (y + 1) ^ 3 :=
    lt_of_lt_of_le g.hy3 (Nat.pow_le_pow_left (Nat.le_succ y) 3)
  have h1 := meissel_pi_add (le_trans hy hyx) hyx hcube
  have h2 := g.decomp
  have h3 := gourdon_B_sigma0_of_le x y hys
  have h4 : ((π x + 1 + P2 x (π y) : ℕ) : ℤ) = ((phi x (π y) + π y : ℕ) : ℤ) := by rw [h1]
  push_cast at h4
  linarith

end GParams

end Pc.Spec
