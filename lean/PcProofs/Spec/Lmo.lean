/-
L0 spec library: the Lagarias-Miller-Odlyzko identity.  `S1` / `S2` are the ordinary / special leaves in
the subset-of-prime-indices formulation (instances `z = y`, `b = c`, `a = π y` of `ord` / `spec`),
`lmo : phi x (π y) = S1 + S2`, `pi_lmo : π x = S1 + S2 + π y - 1 - P2 x (π y)`, and the `μ` / `lpf`
presentation of `S1`, `S2` used by `src/S1.cpp` and `src/lmo/pi_lmo1.cpp`.  DESIGN.md 5.1.
-/
import PcProofs.Spec.Meissel
import PcProofs.Spec.Moebius

namespace Pc.Spec

open Finset Nat Classical
open scoped Nat.Prime ArithmeticFunction.Moebius

/-- ordinary leaves of LMO: subsets `S ⊆ (c, π y]` of prime indices with `∏ p i ≤ y` -/
noncomputable def S1 (x y c : ℕ) : ℤ := ord x y c (π y)

/-- special leaves of LMO -/
noncomputable def S2 (x y c : ℕ) : ℤ := spec x y c (π y)

/-- **LMO identity**: `phi x (π y) = S1 x y c + S2 x y c` for every `1 ≤ y` and `c ≤ π y` -/
theorem lmo (x y c : ℕ) (hy : 1 ≤ y) (hc : c ≤ π y) :
    (phi x (π y) : ℤ) = S1 x y c + S2 x y c :=
  lmo_general x y (π y) hy (π y - c) c (by omega)

/-- **π(x) by LMO**: for `1 ≤ y ≤ x < (y+1)^3` (in particular `x^{1/3} ≤ y ≤ √x`) and `c ≤ π y`,
`π x = S1 + S2 + π y - 1 - P2 x (π y)`. -/
theorem pi_lmo {x y c : ℕ} (hy : 1 ≤ y) (hyx : y ≤ x) (h : x < (y + 1) ^ 3) (hc : c ≤ π y) :
    (π x : ℤ) = S1 x y c + S2 x y c + π y - 1 - P2 x (π y) := by
  have h1 := meissel_pi_add (le_trans hy hyx) hyx h
  have h2 := lmo x y c hy hc
  have h3 : ((π x + 1 + P2 x (π y) : ℕ) : ℤ) = ((phi x (π y) + π y : ℕ) : ℤ) := by rw [h1]
  push_cast at h3
  linarith

/-! ### μ / lpf presentation -/

/-- general form: the ordinary leaves `ord x z b a` as a `μ`-sum (this is `S1` for `z = y, b = c, a = π y`
and Gourdon's `Φ0` for `b = k`, `a = π y`) -/
theorem ord_eq_moebius (x z b a : ℕ) :
    ord x z b a = ∑ n ∈ (Icc 1 z).filter (fun n => ∀ q, q.Prime → q ∣ n → b < π q ∧ π q ≤ a),
      μ n * (phi (x / n) b : ℤ) := by
  rw [← sum_subsets_eq_sum_moebius b a (Icc 1 z) (fun n => (phi (x / n) b : ℤ))]
  unfold ord
  apply Finset.sum_congr _ (fun _ _ => rfl)
  apply Finset.filter_congr
  intro S _
  rw [mem_Icc]
  have := prodP_pos S
  constructor
  · intro h; exact ⟨this, h⟩
  · intro h; exact h.2

/-- general form: the special leaves with first prime `p b'` as a `μ`-sum over
`m ∈ (z / p b', z]` with all prime factors `q` in `p b' < q ≤ p a` -/
theorem specTerm_eq_moebius (x z b' a : ℕ) :
    specTerm x z b' a
      = ∑ m ∈ (Ioc (z / p b') z).filter (fun n => ∀ q, q.Prime → q ∣ n → b' < π q ∧ π q ≤ a),
        μ m * (phi (x / (m * p b')) (b' - 1) : ℤ) := by
  rw [← sum_subsets_eq_sum_moebius b' a (Ioc (z / p b') z)
    (fun m => (phi (x / (m * p b')) (b' - 1) : ℤ))]
  unfold specTerm
  apply Finset.sum_congr _ (fun _ _ => rfl)
  apply Finset.filter_congr
  intro S _
  rw [mem_Ioc, Nat.div_lt_iff_lt_mul (p_pos b')]
  tauto

lemma filter_primeFactors_eq_phiSet (y b : ℕ) :
    (Icc 1 y).filter (fun n => ∀ q, q.Prime → q ∣ n → b < π q ∧ π q ≤ π y) = phiSet y b := by
  ext n
  rw [mem_filter, mem_Icc, mem_phiSet_iff]
  constructor
  · rintro ⟨⟨h1, h2⟩, h⟩
    exact ⟨h1, h2, fun q hq hd => (h q hq hd).1⟩
  · rintro ⟨h1, h2, h⟩
    refine ⟨⟨h1, h2⟩, fun q hq hd => ⟨h q hq hd, pi_mono ?_⟩⟩
    exact le_trans (Nat.le_of_dvd h1 hd) h2

/-- **S1 in the μ / lpf presentation** (`src/S1.cpp`, `pi_lmo1.cpp`):
`S1 x y c = Σ_{n ≤ y, all prime factors of n beyond the first c primes} μ(n) φ(x / n, c)`.
The index set is `phiSet y c`, i.e. `n = 1` or `p c < lpf n` (`mem_phiSet_iff_minFac`). -/
theorem S1_eq_moebius (x y c : ℕ) :
    S1 x y c = ∑ n ∈ phiSet y c, μ n * (phi (x / n) c : ℤ) := by
  unfold S1
  rw [ord_eq_moebius, filter_primeFactors_eq_phiSet]

/-- **S2 in the μ / lpf presentation** (`pi_lmo1.cpp`):
`S2 x y c = - Σ_{c < b ≤ π y} Σ_{y / p b < m ≤ y, lpf m > p b} μ(m) φ(x / (m p_b), b - 1)`. -/
theorem S2_eq_moebius (x y c : ℕ) :
    S2 x y c = - ∑ b ∈ Ioc c (π y), ∑ m ∈ (phiSet y b).filter (fun m => y / p b < m),
      μ m * (phi (x / (m * p b)) (b - 1) : ℤ) := by
  unfold S2 spec
  congr 1
  apply Finset.sum_congr rfl
  intro b _
  rw [specTerm_eq_moebius]
  apply Finset.sum_congr _ (fun _ _ => rfl)
  rw [← filter_primeFactors_eq_phiSet, Finset.filter_filter]
  ext m
  simp only [mem_filter, mem_Ioc, mem_Icc]
  constructor
  · rintro ⟨⟨h1, h2⟩, h3⟩
    exact ⟨⟨Nat.succ_le_of_lt (lt_of_le_of_lt (Nat.zero_le _) h1), h2⟩, h3, h1⟩
  · rintro ⟨⟨_, h2⟩, h3, h1⟩
    exact ⟨⟨h1, h2⟩, h3⟩

/-- the last special-leaf level `b = π y` is empty (so `pi_lmo1.cpp` may loop over `b < π y` only) -/
theorem specTerm_last (x y : ℕ) (h : 1 ≤ π y) : specTerm x y (π y) (π y) = 0 := by
  unfold specTerm
  apply Finset.sum_eq_zero
  intro S hS
  exfalso
  rw [Finset.Ioc_self, Finset.powerset_empty, mem_filter, mem_singleton] at hS
  obtain ⟨rfl, _, h2⟩ := hS
  have := p_pi_le h
  simp [prodP] at h2
  omega

/-- `S2` with the loop bounds of `pi_lmo1.cpp`: `c < b < π y` -/
theorem S2_eq_sum_Ioo (x y c : ℕ) :
    S2 x y c = - ∑ b ∈ Ioo c (π y), specTerm x y b (π y) := by
  unfold S2 spec
  congr 1
  rcases Nat.lt_or_ge c (π y) with h | h
  · have : Ioc c (π y) = insert (π y) (Ioo c (π y)) := by
      ext i; simp only [mem_Ioc, mem_insert, mem_Ioo]; omega
    rw [this, Finset.sum_insert (by simp), specTerm_last x y (by omega), zero_add]
  · rw [Finset.Ioc_eq_empty (by omega), Finset.Ioo_eq_empty (by omega)]

/-- membership in `phiSet` via the least prime factor (`Nat.minFac`): for `1 ≤ c`,
`n ∈ phiSet y c ↔ 1 ≤ n ≤ y ∧ (n = 1 ∨ p c < lpf n)`.  (primecount's `generate_lpf` sets
`lpf[1] = MAX`, which is the `n = 1` disjunct.) -/
theorem mem_phiSet_iff_minFac {y c n : ℕ} (hc : 1 ≤ c) :
    n ∈ phiSet y c ↔ 1 ≤ n ∧ n ≤ y ∧ (n = 1 ∨ p c < n.minFac) := by
  rw [mem_phiSet_iff]
  constructor
  · rintro ⟨h1, h2, h3⟩
    refine ⟨h1, h2, ?_⟩
    by_cases hn : n = 1
    · left; exact hn
    · right
      have hq := Nat.minFac_prime hn
      exact (lt_pi_iff_p_lt hc hq).1 (h3 _ hq (Nat.minFac_dvd n))
  · rintro ⟨h1, h2, h3⟩
    refine ⟨h1, h2, ?_⟩
    intro q hq hd
    rcases h3 with rfl | h3
    · exact absurd (Nat.dvd_one.1 hd) hq.ne_one
    · rw [lt_pi_iff_p_lt hc hq]
      exact lt_of_lt_of_le h3 (Nat.minFac_le_of_dvd hq.two_le hd)

end Pc.Spec
