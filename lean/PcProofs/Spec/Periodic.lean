/-
L0 spec library: periodicity of `phi x a` in `x` with period `pp a = p 1 * … * p a`
(`phi_periodic`), and the formula used by `PhiTiny::phi` (`include/PhiTiny.hpp`):
`phi x a = (x / pp a) * tot a + phi (x % pp a) a` with `tot a = (p 1 - 1) * … * (p a - 1)`.
Also the concrete values of `p`, `pp`, `tot` for `a ≤ 8`.  DESIGN.md 5.1 (`phi_periodic`).
-/
import PcProofs.Spec.Basic

namespace Pc.Spec

open Finset Nat Classical
open scoped Nat.Prime

/-- product of the first `a` primes (`PhiTiny::prime_products[a]`) -/
noncomputable def pp (a : ℕ) : ℕ := ∏ i ∈ Ioc 0 a, p i

/-- `∏_{i ≤ a} (p i - 1)` (`PhiTiny::totients[a]`) -/
noncomputable def tot (a : ℕ) : ℕ := ∏ i ∈ Ioc 0 a, (p i - 1)

lemma pp_eq_prodP (a : ℕ) : pp a = prodP (Ioc 0 a) := rfl

@[simp] lemma pp_zero : pp 0 = 1 := by simp [pp]

@[simp] lemma tot_zero : tot 0 = 1 := by simp [tot]

lemma pp_succ (a : ℕ) : pp (a + 1) = pp a * p (a + 1) := by
  unfold pp; rw [Finset.prod_Ioc_succ_top (Nat.zero_le a)]

lemma tot_succ (a : ℕ) : tot (a + 1) = tot a * (p (a + 1) - 1) := by
  unfold tot; rw [Finset.prod_Ioc_succ_top (Nat.zero_le a)]

lemma pp_pos (a : ℕ) : 0 < pp a := Finset.prod_pos (fun i _ => p_pos i)

/-- `phi (x + k * pp a) a = phi x a + k * tot a` -/
theorem phi_add_mul_pp (a : ℕ) : ∀ x k, phi (x + k * pp a) a = phi x a + k * tot a := by
  induction a with
  | zero => intro x k; simp [phi_zero_right]
  | succ a ih =>
    -- one period first
    have one : ∀ x, phi (x + pp (a + 1)) (a + 1) = phi x (a + 1) + tot (a + 1) := by
      intro x
      have hp := p_pos (a + 1)
      have r1 := phi_rec (x + pp (a + 1)) (a + 1) (by omega)
      have r2 := phi_rec x (a + 1) (by omega)
      simp only [Nat.add_sub_cancel] at r1 r2
      have e1 : (x + pp (a + 1)) / p (a + 1) = x / p (a + 1) + pp a := by
        rw [pp_succ, Nat.add_mul_div_right _ _ hp]
      have e2 : x + pp (a + 1) = x + p (a + 1) * pp a := by rw [pp_succ, mul_comm]
      have i1 := ih (x / p (a + 1)) 1
      rw [one_mul] at i1
      have i2 := ih x (p (a + 1))
      rw [e1, i1] at r1
      have h2 : phi (x + pp (a + 1)) a = phi x a + p (a + 1) * tot a := by rw [e2]; exact i2
      rw [h2] at r1
      rw [tot_succ]
      have h1 : 1 ≤ p (a + 1) := hp
      have e3 : p (a + 1) * tot a = tot a * (p (a + 1) - 1) + tot a := by
        obtain ⟨m, hm⟩ : ∃ m, p (a + 1) = m + 1 := ⟨p (a + 1) - 1, by omega⟩
        rw [hm, Nat.add_sub_cancel]; ring
      omega
    intro x k
    induction k with
    | zero => simp
    | succ k ihk =>
      have : x + (k + 1) * pp (a + 1) = (x + k * pp (a + 1)) + pp (a + 1) := by ring
      rw [this, one, ihk]; ring

/-- **`phi_periodic`**: `phi (x + pp a) a = phi x a + tot a` -/
theorem phi_periodic (x a : ℕ) : phi (x + pp a) a = phi x a + tot a := by
  have := phi_add_mul_pp a x 1
  simpa using this

/-- the formula evaluated by `PhiTiny::phi` : `phi x a = (x / pp a) * tot a + phi (x % pp a) a` -/
theorem phi_tiny_formula (x a : ℕ) : phi x a = (x / pp a) * tot a + phi (x % pp a) a := by
  have := phi_add_mul_pp a (x % pp a) (x / pp a)
  rw [mul_comm (x / pp a) (pp a), Nat.mod_add_div] at this
  omega

/-- `phi (pp a) a = tot a` -/
theorem phi_pp (a : ℕ) : phi (pp a) a = tot a := by
  have := phi_periodic 0 a
  simpa [phi_zero_left] using this

/-! ### concrete values -/

lemma p_eq_of_count {i q : ℕ} (hq : q.Prime) (h : Nat.count Nat.Prime q = i - 1) : p i = q := by
  unfold p; rw [← h]; exact Nat.nth_count hq

lemma p_three : p 3 = 5 := p_eq_of_count (by norm_num) (by decide)
lemma p_four : p 4 = 7 := p_eq_of_count (by norm_num) (by decide)
lemma p_five : p 5 = 11 := p_eq_of_count (by norm_num) (by decide)
lemma p_six : p 6 = 13 := p_eq_of_count (by norm_num) (by decide)
lemma p_seven : p 7 = 17 := p_eq_of_count (by norm_num) (by decide)
lemma p_eight : p 8 = 19 := p_eq_of_count (by norm_num) (by decide)

/-- `PhiTiny::prime_products` -/
theorem pp_values : [pp 0, pp 1, pp 2, pp 3, pp 4, pp 5, pp 6, pp 7, pp 8]
    = [1, 2, 6, 30, 210, 2310, 30030, 510510, 9699690] := by
  simp [pp_succ, p_one, p_two, p_three, p_four, p_five, p_six, p_seven, p_eight]

/-- `PhiTiny::totients` -/
theorem tot_values : [tot 0, tot 1, tot 2, tot 3, tot 4, tot 5, tot 6, tot 7, tot 8]
    = [1, 1, 2, 8, 48, 480, 5760, 92160, 1658880] := by
  simp [tot_succ, p_one, p_two, p_three, p_four, p_five, p_six, p_seven, p_eight]

end Pc.Spec
