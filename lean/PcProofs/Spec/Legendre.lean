/-
L0 spec library: `phi_eq_one`, `phi_eq_pi`, Legendre's formula.  DESIGN.md 5.1.
-/
import PcProofs.Spec.Basic

namespace Pc.Spec

open Finset Nat Classical
open scoped Nat.Prime

/-! ### primes `q ≤ x` beyond the first `a` primes -/

/-- the primes `q ≤ x` with `a < π q` (i.e. `p a < q` when `1 ≤ a`), as a finset -/
noncomputable def primesGt (a x : ℕ) : Finset ℕ :=
  (Icc 1 x).filter (fun q => q.Prime ∧ a < π q)

lemma mem_primesGt {a x q : ℕ} : q ∈ primesGt a x ↔ q.Prime ∧ a < π q ∧ q ≤ x := by
  simp only [primesGt, mem_filter, mem_Icc]
  constructor
  · rintro ⟨⟨_, h⟩, hq, ha⟩; exact ⟨hq, ha, h⟩
  · rintro ⟨hq, ha, h⟩; exact ⟨⟨hq.one_lt.le, h⟩, hq, ha⟩

/-- `primesGt a x` is the image of the index interval `(a, π x]` under `p` -/
lemma primesGt_eq_image (a x : ℕ) : primesGt a x = (Ioc a (π x)).image p := by
  ext q
  rw [mem_primesGt, mem_image]
  constructor
  · rintro ⟨hq, ha, hx⟩
    refine ⟨π q, ?_, p_pi_of_prime hq⟩
    rw [mem_Ioc]
    exact ⟨ha, pi_mono hx⟩
  · rintro ⟨i, hi, rfl⟩
    rw [mem_Ioc] at hi
    have h1 : 1 ≤ i := by omega
    refine ⟨p_prime h1, ?_, (p_le_iff h1).2 hi.2⟩
    rw [pi_p h1]; exact hi.1

lemma p_injOn_Ioc (a b : ℕ) : Set.InjOn p (↑(Ioc a b) : Set ℕ) := by
  intro i hi j hj h
  rw [Finset.coe_Ioc, Set.mem_Ioc] at hi hj
  exact p_inj (by omega) (by omega) h

/-- `#{q prime | a < π q, q ≤ x} = π x - a` -/
lemma card_primesGt (a x : ℕ) : (primesGt a x).card = π x - a := by
  rw [primesGt_eq_image, Finset.card_image_of_injOn (p_injOn_Ioc _ _)]
  simp

/-- sums over primes as sums over prime indices -/
lemma sum_primesGt {M : Type*} [AddCommMonoid M] (a x : ℕ) (f : ℕ → M) :
    ∑ q ∈ primesGt a x, f q = ∑ i ∈ Ioc a (π x), f (p i) := by
  rw [primesGt_eq_image, Finset.sum_image (p_injOn_Ioc _ _)]

/-! ### phi x a = 1 -/

/-- `phi x a = 1` when `1 ≤ x < p (a+1)`: every `n ∈ [2, x]` has a prime factor among the first
`a` primes. -/
theorem phi_eq_one {x a : ℕ} (hx : 1 ≤ x) (hlt : x < p (a + 1)) : phi x a = 1 := by
  have : phiSet x a = {1} := by
    ext n
    rw [mem_singleton]
    constructor
    · intro hn
      rw [mem_phiSet_iff] at hn
      obtain ⟨h1, h2, h3⟩ := hn
      by_contra hne
      have hq := Nat.minFac_prime hne
      have := lt_pi_iff_p_succ_le.1 (h3 _ hq (Nat.minFac_dvd n))
      have := Nat.minFac_le (n := n) (by omega)
      omega
    · rintro rfl; exact one_mem_phiSet a hx
  unfold phi; rw [this]; simp

/-- `phi x a = 1` when `1 ≤ x` and `π x ≤ a` (guard `a >= pix_upper(x)` in `phi.cpp`) -/
theorem phi_eq_one_of_pi_le {x a : ℕ} (hx : 1 ≤ x) (h : π x ≤ a) : phi x a = 1 :=
  phi_eq_one hx ((lt_p_iff (by omega)).2 (by omega))

/-- `phi x a = 1` when `1 ≤ x ≤ p a`, `1 ≤ a` (comment "phi(x, a) = 1 if prime[a] >= x") -/
theorem phi_eq_one_of_le_p {x a : ℕ} (hx : 1 ≤ x) (ha : 1 ≤ a) (h : x ≤ p a) : phi x a = 1 :=
  phi_eq_one hx (lt_of_le_of_lt h (p_lt_p ha (by omega)))

/-- `phi x a = 1` when `1 ≤ x` and `x / 2 < a`: exactly the guard `if (x > 0 && a > x / 2) return 1;`
of `phi_OpenMP` in `src/phi.cpp` (via `2 a - 1 ≤ p a`). -/
theorem phi_eq_one_of_half_lt {x a : ℕ} (hx : 1 ≤ x) (h : x / 2 < a) : phi x a = 1 := by
  have ha : 1 ≤ a := by omega
  have := two_mul_sub_one_le_p ha
  exact phi_eq_one_of_le_p hx ha (by omega)

/-! ### phi x a = π x - a + 1 -/

lemma phiSet_eq_of_lt_sq {x a : ℕ} (hx : 1 ≤ x) (hlt : x < p (a + 1) ^ 2) :
    phiSet x a = insert 1 (primesGt a x) := by
  ext n
  rw [mem_insert, mem_primesGt]
  constructor
  · intro hn
    rw [mem_phiSet_iff] at hn
    obtain ⟨h1, h2, h3⟩ := hn
    by_cases hne : n = 1
    · left; exact hne
    · right
      have hq := Nat.minFac_prime hne
      have hqa := h3 _ hq (Nat.minFac_dvd n)
      by_cases hn : n.Prime
      · exact ⟨hn, h3 n hn dvd_rfl, h2⟩
      · exfalso
        have := Nat.minFac_sq_le_self (by omega) hn
        have h4 := lt_pi_iff_p_succ_le.1 hqa
        have : p (a + 1) ^ 2 ≤ n.minFac ^ 2 := Nat.pow_le_pow_left h4 2
        omega
  · rintro (rfl | ⟨hq, ha, hle⟩)
    · exact one_mem_phiSet a hx
    · rw [mem_phiSet_iff]
      refine ⟨hq.one_lt.le, hle, ?_⟩
      intro q hq' hdvd
      rwa [(Nat.prime_dvd_prime_iff_eq hq' hq).1 hdvd]

/-- additive form of `phi_eq_pi`: for `a ≤ π x` and `x < p (a+1) ^ 2`, `phi x a + a = π x + 1` -/
theorem phi_add_eq_pi {x a : ℕ} (hx : 1 ≤ x) (ha : a ≤ π x) (hlt : x < p (a + 1) ^ 2) :
    phi x a + a = π x + 1 := by
  unfold phi
  rw [phiSet_eq_of_lt_sq hx hlt, Finset.card_insert_of_notMem, card_primesGt]
  · omega
  · rw [mem_primesGt]; exact fun h => Nat.not_prime_one h.1

/-- `phi x a = π x - a + 1` when `p a ≤ x < p (a+1) ^ 2`: the numbers `≤ x` coprime to the first `a`
primes are `1` and the primes in `(p a, x]`. -/
theorem phi_eq_pi {x a : ℕ} (ha : 1 ≤ a) (hle : p a ≤ x) (hlt : x < p (a + 1) ^ 2) :
    phi x a = π x - a + 1 := by
  have hx : 1 ≤ x := le_trans (p_pos a) hle
  have := phi_add_eq_pi hx ((p_le_iff ha).1 hle) hlt
  have := (p_le_iff ha).1 hle
  omega

/-- the `a = 0` instance needs no lower bound: `phi x 0 = π x + 1` for `1 ≤ x < 4` -/
theorem phi_eq_pi' {x a : ℕ} (hx : 1 ≤ x) (ha : a ≤ π x) (hlt : x < p (a + 1) ^ 2) :
    phi x a = π x - a + 1 := by
  have := phi_add_eq_pi hx ha hlt
  omega

lemma lt_p_succ_sq_of_pi_sqrt_le {x a : ℕ} (h : π (Nat.sqrt x) ≤ a) : x < p (a + 1) ^ 2 := by
  have h1 : Nat.sqrt x < p (a + 1) := (lt_p_iff (by omega)).2 (by omega)
  have h2 := Nat.lt_succ_sqrt' x
  have : (Nat.sqrt x + 1) ^ 2 ≤ p (a + 1) ^ 2 := Nat.pow_le_pow_left h1 2
  rw [Nat.succ_eq_add_one] at h2
  omega

/-- Specification of `phi_pix` of `src/phi.cpp` and of the guard `a > pi(sqrt(x))` that selects it:
for `π ⌊√x⌋ ≤ a` and `1 ≤ x`, `phi x a` is `π x - a + 1` if `a ≤ π x` and `1` otherwise. -/
theorem phi_pix {x a : ℕ} (hx : 1 ≤ x) (h : π (Nat.sqrt x) ≤ a) :
    phi x a = if a ≤ π x then π x - a + 1 else 1 := by
  split_ifs with hle
  · exact phi_eq_pi' hx hle (lt_p_succ_sq_of_pi_sqrt_le h)
  · exact phi_eq_one_of_pi_le hx (by omega)

/-! ### Legendre -/

/-- Legendre's formula, additive form (valid for all `x ≥ 1`) -/
theorem legendre_add {x a : ℕ} (ha : a = π (Nat.sqrt x)) (hx : 1 ≤ x) :
    π x + 1 = phi x a + a := by
  have h1 : a ≤ π x := by rw [ha]; exact pi_mono (Nat.sqrt_le_self x)
  exact (phi_add_eq_pi hx h1 (lt_p_succ_sq_of_pi_sqrt_le (by omega))).symm

/-- Legendre's formula: `π x = phi x a + a - 1` with `a = π ⌊√x⌋` -/
theorem legendre {x a : ℕ} (ha : a = π (Nat.sqrt x)) (hx : 2 ≤ x) :
    π x = phi x a + a - 1 := by
  have := legendre_add ha (by omega : 1 ≤ x)
  omega

end Pc.Spec
