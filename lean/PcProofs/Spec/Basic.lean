/-
L0 spec library, basic facts about the prime sequence `p`, the prime counting function `π`
(Mathlib's `Nat.primeCounting`) and the partial sieve function `phi`.  DESIGN.md 5.1.

Note on the index convention: `p i = Nat.nth Nat.Prime (i - 1)`, so `p 1 = 2`, `p 2 = 3`, ... and,
by truncated subtraction, `p 0 = 2` as well.  Statements that talk about "all prime factors are larger
than the first `a` primes" are therefore phrased as `a < π q` (equivalently `p (a+1) ≤ q`), which is
correct for `a = 0` too; for `1 ≤ a` this is the same as `p a < q` (`lt_pi_iff_p_lt`).
-/
import PcProofs.Spec.Phi

namespace Pc.Spec

open Finset Nat Classical
open scoped Nat.Prime

/-! ### the prime sequence and π -/

lemma p_one : p 1 = 2 := by simp [p, Nat.nth_prime_zero_eq_two]

lemma p_two : p 2 = 3 := by simp [p, Nat.nth_prime_one_eq_three]

lemma p_zero : p 0 = 2 := by simp [p, Nat.nth_prime_zero_eq_two]

lemma p_lt_p {i j : ℕ} (hi : 1 ≤ i) (hij : i < j) : p i < p j := by
  unfold p
  exact (Nat.nth_lt_nth Nat.infinite_setOfPred_prime).2 (by omega)

lemma p_le_p {i j : ℕ} (hij : i ≤ j) : p i ≤ p j := by
  unfold p
  exact (Nat.nth_le_nth Nat.infinite_setOfPred_prime).2 (by omega)

lemma p_lt_p_iff {i j : ℕ} (hi : 1 ≤ i) (hj : 1 ≤ j) : p i < p j ↔ i < j := by
  unfold p
  rw [Nat.nth_lt_nth Nat.infinite_setOfPred_prime]; omega

lemma p_le_p_iff {i j : ℕ} (hi : 1 ≤ i) (hj : 1 ≤ j) : p i ≤ p j ↔ i ≤ j := by
  unfold p
  rw [Nat.nth_le_nth Nat.infinite_setOfPred_prime]; omega

/-- `p` is strictly increasing on the indices `≥ 1` -/
theorem p_strictMono : StrictMonoOn p (Set.Ici 1) := by
  intro i hi j _ hij
  exact p_lt_p hi hij

lemma two_le_p (i : ℕ) : 2 ≤ p i := (Nat.prime_nth_prime _).two_le

/-- the Galois connection between `p` and `π`: `p i ≤ n ↔ i ≤ π n` for `1 ≤ i` -/
theorem p_le_iff {i n : ℕ} (hi : 1 ≤ i) : p i ≤ n ↔ i ≤ π n := by
  unfold p Nat.primeCounting Nat.primeCounting'
  have := Nat.lt_nth_iff_count_lt Nat.infinite_setOfPred_prime (p := Nat.Prime) (a := i - 1)
    (b := n + 1)
  constructor
  · intro h
    have h' := this.2 (by omega)
    omega
  · intro h
    have h' := this.1 (by omega)
    omega

lemma lt_p_iff {i n : ℕ} (hi : 1 ≤ i) : n < p i ↔ π n < i := by
  rw [← not_le, p_le_iff hi, not_le]

/-- `π (p i) = i` for `1 ≤ i` -/
theorem pi_p {i : ℕ} (hi : 1 ≤ i) : π (p i) = i := by
  apply le_antisymm
  · by_contra h
    push Not at h
    have := (p_le_iff (i := i + 1) (n := p i) (by omega)).2 (by omega)
    have := p_lt_p (i := i) (j := i + 1) hi (by omega)
    omega
  · exact (p_le_iff hi).1 le_rfl

lemma p_pi_of_prime {q : ℕ} (hq : q.Prime) : p (π q) = q := by
  unfold p Nat.primeCounting Nat.primeCounting'
  rw [Nat.count_succ, if_pos hq, Nat.add_sub_cancel]
  exact Nat.nth_count hq

lemma one_le_pi_of_prime {q : ℕ} (hq : q.Prime) : 1 ≤ π q := by
  have := Nat.monotone_primeCounting hq.two_le
  have h2 : π 2 = 1 := by decide
  omega

/-- every prime is `p i` for exactly one `i ≥ 1`, namely `i = π q` -/
lemma prime_iff_exists_p {q : ℕ} : q.Prime ↔ ∃ i, 1 ≤ i ∧ p i = q := by
  constructor
  · intro hq; exact ⟨π q, one_le_pi_of_prime hq, p_pi_of_prime hq⟩
  · rintro ⟨i, hi, rfl⟩; exact p_prime hi

lemma p_pi_le {n : ℕ} (h : 1 ≤ π n) : p (π n) ≤ n := (p_le_iff h).2 le_rfl

lemma lt_p_pi_succ (n : ℕ) : n < p (π n + 1) := (lt_p_iff (by omega)).2 (Nat.lt_succ_self _)

lemma pi_mono {m n : ℕ} (h : m ≤ n) : π m ≤ π n := Nat.monotone_primeCounting h

/-- for a prime `q` and `1 ≤ a`: `a < π q ↔ p a < q` -/
lemma lt_pi_iff_p_lt {a q : ℕ} (ha : 1 ≤ a) (hq : q.Prime) : a < π q ↔ p a < q := by
  have h1 := one_le_pi_of_prime hq
  rw [← p_lt_p_iff ha h1, p_pi_of_prime hq]

/-- for any `a`: `a < π q ↔ p (a+1) ≤ q` -/
lemma lt_pi_iff_p_succ_le {a q : ℕ} : a < π q ↔ p (a + 1) ≤ q := by
  rw [p_le_iff (by omega)]; omega

lemma pi_le_iff_le_p {a q : ℕ} (ha : 1 ≤ a) (hq : q.Prime) : π q ≤ a ↔ q ≤ p a := by
  have := lt_pi_iff_p_lt ha hq
  omega

lemma p_odd {i : ℕ} (hi : 2 ≤ i) : p i % 2 = 1 := by
  have hp := p_prime (i := i) (by omega)
  rcases hp.eq_two_or_odd with h | h
  · have := p_lt_p (i := 1) (j := i) le_rfl (by omega)
    rw [p_one] at this; omega
  · exact h

/-- `2 i - 1 ≤ p i` for `1 ≤ i` (justifies the guard `a > x / 2` in `phi.cpp`) -/
theorem two_mul_sub_one_le_p {i : ℕ} (hi : 1 ≤ i) : 2 * i - 1 ≤ p i := by
  induction i with
  | zero => omega
  | succ k ih =>
    rcases Nat.lt_or_ge k 1 with h | h
    · have : k = 0 := by omega
      subst this; simp [p_one]
    · have ih := ih h
      rcases Nat.lt_or_ge k 2 with h2 | h2
      · have : k = 1 := by omega
        subst this; simp [p_two]
      · have h1 := p_odd h2
        have h3 := p_odd (i := k + 1) (by omega)
        have h4 := p_lt_p (i := k) (j := k + 1) h (by omega)
        omega

/-! ### phi -/

lemma mem_phiSet {x a n : ℕ} :
    n ∈ phiSet x a ↔ (1 ≤ n ∧ n ≤ x) ∧ ∀ i, 1 ≤ i → i ≤ a → ¬ p i ∣ n := by
  simp [phiSet]

/-- membership in `phiSet` in terms of prime factors -/
lemma mem_phiSet_iff {x a n : ℕ} :
    n ∈ phiSet x a ↔ 1 ≤ n ∧ n ≤ x ∧ ∀ q, q.Prime → q ∣ n → a < π q := by
  rw [mem_phiSet]
  constructor
  · rintro ⟨⟨h1, h2⟩, h⟩
    refine ⟨h1, h2, ?_⟩
    intro q hq hqn
    by_contra hle
    push Not at hle
    have := h (π q) (one_le_pi_of_prime hq) hle
    rw [p_pi_of_prime hq] at this
    exact this hqn
  · rintro ⟨h1, h2, h⟩
    refine ⟨⟨h1, h2⟩, ?_⟩
    intro i hi hia hdvd
    have := h (p i) (p_prime hi) hdvd
    rw [pi_p hi] at this
    omega

/-- `phi x 0 = x` -/
theorem phi_zero_right (x : ℕ) : phi x 0 = x := by
  have : phiSet x 0 = Icc 1 x := by
    ext n
    rw [mem_phiSet, mem_Icc]
    constructor
    · exact fun h => h.1
    · exact fun h => ⟨h, fun i hi hi0 => by omega⟩
  unfold phi
  rw [this]; simp

/-- `phi 0 a = 0` -/
theorem phi_zero_left (a : ℕ) : phi 0 a = 0 := by
  unfold phi phiSet
  simp

/-- DESIGN 5.1 name for `phi_zero_right` -/
theorem phi_zero (x : ℕ) : phi x 0 = x := phi_zero_right x

/-- DESIGN 5.1: `phi x a = 0` for `x < 1` -/
theorem phi_of_x_lt_one {x : ℕ} (a : ℕ) (h : x < 1) : phi x a = 0 := by
  have : x = 0 := by omega
  rw [this, phi_zero_left]

lemma phiSet_subset_left {x y : ℕ} (a : ℕ) (h : x ≤ y) : phiSet x a ⊆ phiSet y a := by
  intro n hn
  rw [mem_phiSet] at hn ⊢
  exact ⟨⟨hn.1.1, hn.1.2.trans h⟩, hn.2⟩

lemma phiSet_subset_right (x : ℕ) {a b : ℕ} (h : a ≤ b) : phiSet x b ⊆ phiSet x a := by
  intro n hn
  rw [mem_phiSet] at hn ⊢
  exact ⟨hn.1, fun i hi hia => hn.2 i hi (hia.trans h)⟩

/-- `phi` is monotone in `x` -/
theorem phi_mono_left {x y : ℕ} (a : ℕ) (h : x ≤ y) : phi x a ≤ phi y a :=
  Finset.card_le_card (phiSet_subset_left a h)

/-- `phi` is antitone in `a` -/
theorem phi_anti_right (x : ℕ) {a b : ℕ} (h : a ≤ b) : phi x b ≤ phi x a :=
  Finset.card_le_card (phiSet_subset_right x h)

/-- `phi x a ≤ x` -/
theorem phi_le (x a : ℕ) : phi x a ≤ x := by
  have := phi_anti_right x (Nat.zero_le a)
  rwa [phi_zero_right] at this

lemma one_mem_phiSet {x : ℕ} (a : ℕ) (hx : 1 ≤ x) : 1 ∈ phiSet x a := by
  rw [mem_phiSet_iff]
  refine ⟨le_rfl, hx, ?_⟩
  intro q hq hq1
  exact absurd (Nat.dvd_one.1 hq1) hq.ne_one

/-- `1 ≤ phi x a` for `1 ≤ x` -/
theorem one_le_phi {x : ℕ} (a : ℕ) (hx : 1 ≤ x) : 1 ≤ phi x a :=
  Finset.card_pos.2 ⟨1, one_mem_phiSet a hx⟩

end Pc.Spec
