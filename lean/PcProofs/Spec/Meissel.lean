/-
L0 spec library: the second partial sieve function `P2`, its prime-sum formula `P2_sum`
and Meissel's formula in the generality needed by LMO / Deleglise-Rivat / Gourdon.  DESIGN.md 5.1.

Definition chosen for `P2 x a`: the number of `n ≤ x` of the form `n = q * r` with `q ≤ r` primes and
`a < π q` (for `1 ≤ a` this is `p a < q`, see `P2_eq_card_p_lt`; the `π` form is also right for `a = 0`,
where `p 0 = 2` by truncated subtraction would wrongly exclude `q = 2`).
-/
import PcProofs.Spec.Legendre

namespace Pc.Spec

open Finset Nat Classical
open scoped Nat.Prime

/-- the set counted by `P2 x a` -/
noncomputable def P2set (x a : ℕ) : Finset ℕ :=
  (Icc 1 x).filter (fun n => ∃ q r, q.Prime ∧ r.Prime ∧ a < π q ∧ q ≤ r ∧ n = q * r)

/-- `P2 x a` = number of `n ≤ x` with exactly two prime factors `q ≤ r`, both beyond the first `a` primes -/
noncomputable def P2 (x a : ℕ) : ℕ := (P2set x a).card

lemma mem_P2set {x a n : ℕ} :
    n ∈ P2set x a ↔ n ≤ x ∧ ∃ q r, q.Prime ∧ r.Prime ∧ a < π q ∧ q ≤ r ∧ n = q * r := by
  simp only [P2set, mem_filter, mem_Icc]
  constructor
  · rintro ⟨⟨_, h⟩, h'⟩; exact ⟨h, h'⟩
  · rintro ⟨h, q, r, hq, hr, ha, hqr, rfl⟩
    exact ⟨⟨Nat.mul_pos hq.pos hr.pos, h⟩, q, r, hq, hr, ha, hqr, rfl⟩

/-- for `1 ≤ a` the condition `a < π q` is `p a < q` -/
theorem P2_eq_card_p_lt {x a : ℕ} (ha : 1 ≤ a) :
    P2 x a = ((Icc 1 x).filter
      (fun n => ∃ q r, q.Prime ∧ r.Prime ∧ p a < q ∧ q ≤ r ∧ n = q * r)).card := by
  unfold P2 P2set
  congr 1
  apply Finset.filter_congr
  intro n _
  constructor
  · rintro ⟨q, r, hq, hr, h, hqr, rfl⟩
    exact ⟨q, r, hq, hr, (lt_pi_iff_p_lt ha hq).1 h, hqr, rfl⟩
  · rintro ⟨q, r, hq, hr, h, hqr, rfl⟩
    exact ⟨q, r, hq, hr, (lt_pi_iff_p_lt ha hq).2 h, hqr, rfl⟩

lemma prime_le_iff_pi_le {q r : ℕ} (hq : q.Prime) (hr : r.Prime) : q ≤ r ↔ π q ≤ π r := by
  constructor
  · exact fun h => pi_mono h
  · intro h
    have := p_le_p h
    rwa [p_pi_of_prime hq, p_pi_of_prime hr] at this

lemma minFac_mul_primes {q r : ℕ} (hq : q.Prime) (hr : r.Prime) (hqr : q ≤ r) :
    (q * r).minFac = q := by
  have hne : q * r ≠ 1 := by
    have := hq.two_le; have := hr.two_le; nlinarith
  have hm := Nat.minFac_prime hne
  have hle : (q * r).minFac ≤ q := Nat.minFac_le_of_dvd hq.two_le (Dvd.intro r rfl)
  rcases (Nat.Prime.dvd_mul hm).1 (Nat.minFac_dvd (q * r)) with h | h
  · exact (Nat.prime_dvd_prime_iff_eq hm hq).1 h
  · have := (Nat.prime_dvd_prime_iff_eq hm hr).1 h
    omega

/-- the second factors `r` for a given first factor `q`: primes `r` with `q ≤ r ≤ x / q` -/
lemma mem_primesGt_pred {q r m : ℕ} (hq : q.Prime) :
    r ∈ primesGt (π q - 1) m ↔ r.Prime ∧ q ≤ r ∧ r ≤ m := by
  rw [mem_primesGt]
  have h1 := one_le_pi_of_prime hq
  constructor
  · rintro ⟨hr, h, hm⟩
    exact ⟨hr, (prime_le_iff_pi_le hq hr).2 (by omega), hm⟩
  · rintro ⟨hr, h, hm⟩
    have := (prime_le_iff_pi_le hq hr).1 h
    exact ⟨hr, by omega, hm⟩

lemma P2set_eq_biUnion (x a : ℕ) :
    P2set x a = (primesGt a (Nat.sqrt x)).biUnion
      (fun q => (primesGt (π q - 1) (x / q)).image (fun r => q * r)) := by
  ext n
  rw [mem_P2set, mem_biUnion]
  constructor
  · rintro ⟨hx, q, r, hq, hr, ha, hqr, rfl⟩
    refine ⟨q, ?_, ?_⟩
    · rw [mem_primesGt]
      refine ⟨hq, ha, Nat.le_sqrt.2 ?_⟩
      exact le_trans (Nat.mul_le_mul_left q hqr) hx
    · rw [mem_image]
      refine ⟨r, ?_, rfl⟩
      rw [mem_primesGt_pred hq]
      refine ⟨hr, hqr, (Nat.le_div_iff_mul_le hq.pos).2 ?_⟩
      rwa [mul_comm]
  · rintro ⟨q, hq, hn⟩
    rw [mem_primesGt] at hq
    obtain ⟨hq, ha, _⟩ := hq
    rw [mem_image] at hn
    obtain ⟨r, hr, rfl⟩ := hn
    rw [mem_primesGt_pred hq] at hr
    obtain ⟨hr, hqr, hle⟩ := hr
    refine ⟨?_, q, r, hq, hr, ha, hqr, rfl⟩
    have := (Nat.le_div_iff_mul_le hq.pos).1 hle
    rwa [mul_comm]

/-- `P2 x a = Σ_{q prime, a < π q, q ≤ √x} (π (x / q) - π q + 1)` (no truncation occurs: `q ≤ x / q`) -/
theorem P2_sum (x a : ℕ) :
    P2 x a = ∑ q ∈ primesGt a (Nat.sqrt x), (π (x / q) - π q + 1) := by
  unfold P2
  rw [P2set_eq_biUnion, Finset.card_biUnion]
  · apply Finset.sum_congr rfl
    intro q hq
    rw [mem_primesGt] at hq
    rw [Finset.card_image_of_injective _ (fun r s h => Nat.eq_of_mul_eq_mul_left hq.1.pos h),
      card_primesGt]
    have h1 := one_le_pi_of_prime hq.1
    have h2 : π q ≤ π (x / q) := by
      apply pi_mono
      rw [Nat.le_div_iff_mul_le hq.1.pos]
      exact Nat.le_sqrt.1 hq.2.2
    omega
  · intro q hq q' hq' hne
    rw [Function.onFun, Finset.disjoint_left]
    intro n hn hn'
    rw [mem_coe, mem_primesGt] at hq hq'
    rw [mem_image] at hn hn'
    obtain ⟨r, hr, rfl⟩ := hn
    obtain ⟨r', hr', h⟩ := hn'
    rw [mem_primesGt_pred hq.1] at hr
    rw [mem_primesGt_pred hq'.1] at hr'
    have e1 := minFac_mul_primes hq.1 hr.1 hr.2.1
    have e2 := minFac_mul_primes hq'.1 hr'.1 hr'.2.1
    rw [h, e1] at e2
    exact hne e2

/-- `P2_sum` over prime indices: `P2 x a = Σ_{a < i ≤ π √x} (π (x / p i) - i + 1)`; this is the sum
computed by `src/P2.cpp` -/
theorem P2_sum_index (x a : ℕ) :
    P2 x a = ∑ i ∈ Ioc a (π (Nat.sqrt x)), (π (x / p i) - i + 1) := by
  rw [P2_sum, sum_primesGt]
  apply Finset.sum_congr rfl
  intro i hi
  rw [mem_Ioc] at hi
  rw [pi_p (by omega)]

/-- `P2_sum` with values in `ℤ` -/
theorem P2_sum_int (x a : ℕ) :
    (P2 x a : ℤ) = ∑ i ∈ Ioc a (π (Nat.sqrt x)), ((π (x / p i) : ℤ) - i + 1) := by
  rw [P2_sum_index]
  push_cast
  apply Finset.sum_congr rfl
  intro i hi
  rw [mem_Ioc] at hi
  have h1 : 1 ≤ i := by omega
  have h2 : i ≤ π (x / p i) := by
    rw [← p_le_iff h1, Nat.le_div_iff_mul_le (p_pos i)]
    exact Nat.le_sqrt.1 ((p_le_iff h1).2 hi.2)
  rw [Nat.cast_sub h2]

/-! ### Meissel -/

/-- numbers `< P^3` all of whose prime factors are `≥ P` are `1`, a prime, or a product of two primes -/
lemma one_or_prime_or_semiprime {n P : ℕ} (hn : 1 ≤ n) (hP : n < P ^ 3)
    (h : ∀ q, q.Prime → q ∣ n → P ≤ q) :
    n = 1 ∨ n.Prime ∨ ∃ q r, q.Prime ∧ r.Prime ∧ q ≤ r ∧ n = q * r := by
  by_cases h1 : n = 1
  · left; exact h1
  right
  have hq := Nat.minFac_prime h1
  obtain ⟨m, hm⟩ := Nat.minFac_dvd n
  by_cases hm1 : m = 1
  · left
    rw [hm1, mul_one] at hm
    rw [hm]; exact hq
  right
  have hr := Nat.minFac_prime hm1
  obtain ⟨k, hk⟩ := Nat.minFac_dvd m
  have hrn : m.minFac ∣ n := by rw [hm]; exact Dvd.dvd.mul_left (Nat.minFac_dvd m) _
  have hqr : n.minFac ≤ m.minFac := Nat.minFac_le_of_dvd hr.two_le hrn
  by_cases hk1 : k = 1
  · rw [hk1, mul_one] at hk
    exact ⟨n.minFac, m.minFac, hq, hr, hqr, by rw [← hk]; exact hm⟩
  exfalso
  have hk0 : k ≠ 0 := by
    rintro rfl
    rw [mul_zero] at hk; rw [hk, mul_zero] at hm; omega
  have hs := Nat.minFac_prime hk1
  have hsn : k.minFac ∣ n := by
    rw [hm, hk]
    exact Dvd.dvd.mul_left (Dvd.dvd.mul_left (Nat.minFac_dvd k) _) _
  have b1 := h _ hq (Nat.minFac_dvd n)
  have b2 := h _ hr hrn
  have b3 := le_trans (h _ hs hsn) (Nat.minFac_le (Nat.pos_of_ne_zero hk0))
  have : P ^ 3 ≤ n.minFac * (m.minFac * k) := by
    calc P ^ 3 = P * (P * P) := by ring
      _ ≤ n.minFac * (m.minFac * k) := Nat.mul_le_mul b1 (Nat.mul_le_mul b2 b3)
  rw [← hk, ← hm] at this
  omega

lemma phiSet_eq_of_lt_cube {x a : ℕ} (hx : 1 ≤ x) (hlt : x < p (a + 1) ^ 3) :
    phiSet x a = insert 1 (primesGt a x ∪ P2set x a) := by
  ext n
  rw [mem_insert, mem_union, mem_primesGt, mem_P2set, mem_phiSet_iff]
  constructor
  · rintro ⟨h1, h2, h3⟩
    have h3' : ∀ q, q.Prime → q ∣ n → p (a + 1) ≤ q :=
      fun q hq hd => lt_pi_iff_p_succ_le.1 (h3 q hq hd)
    rcases one_or_prime_or_semiprime h1 (lt_of_le_of_lt h2 hlt) h3' with h | h | ⟨q, r, hq, hr, hqr, rfl⟩
    · left; exact h
    · right; left; exact ⟨h, h3 n h dvd_rfl, h2⟩
    · right; right
      exact ⟨h2, q, r, hq, hr, h3 q hq (Dvd.intro r rfl), hqr, rfl⟩
  · rintro (rfl | ⟨hq, ha, hle⟩ | ⟨hle, q, r, hq, hr, ha, hqr, rfl⟩)
    · have := one_mem_phiSet a hx
      rwa [mem_phiSet_iff] at this
    · refine ⟨hq.one_lt.le, hle, ?_⟩
      intro q hq' hdvd
      rwa [(Nat.prime_dvd_prime_iff_eq hq' hq).1 hdvd]
    · refine ⟨Nat.mul_pos hq.pos hr.pos, hle, ?_⟩
      intro s hs hdvd
      rcases (Nat.Prime.dvd_mul hs).1 hdvd with h | h
      · rwa [(Nat.prime_dvd_prime_iff_eq hs hq).1 h]
      · rw [(Nat.prime_dvd_prime_iff_eq hs hr).1 h]
        exact lt_of_lt_of_le ha (pi_mono hqr)

/-- Meissel's formula without subtraction: for `1 ≤ x < p (a+1) ^ 3`,
`phi x a = 1 + (π x - a) + P2 x a` (the truncated `π x - a` is `0` when `π x < a`). -/
theorem phi_eq_of_lt_cube {x a : ℕ} (hx : 1 ≤ x) (hlt : x < p (a + 1) ^ 3) :
    phi x a = 1 + (π x - a) + P2 x a := by
  unfold phi P2
  rw [phiSet_eq_of_lt_cube hx hlt, Finset.card_insert_of_notMem, Finset.card_union_of_disjoint,
    card_primesGt]
  · ring
  · rw [Finset.disjoint_left]
    intro n hn hn'
    rw [mem_primesGt] at hn
    rw [mem_P2set] at hn'
    obtain ⟨_, q, r, hq, hr, _, _, rfl⟩ := hn'
    exact Nat.not_prime_mul hq.ne_one hr.ne_one hn.1
  · rw [mem_union, mem_primesGt, mem_P2set]
    rintro (h | ⟨_, q, r, hq, hr, _, _, h⟩)
    · exact Nat.not_prime_one h.1
    · have := hq.two_le; have := hr.two_le; nlinarith

/-- Meissel's formula, additive form: for `a ≤ π x` (i.e. `p a ≤ x`) and `1 ≤ x < p (a+1) ^ 3`,
`π x + 1 + P2 x a = phi x a + a`. -/
theorem meissel_add {x a : ℕ} (hx : 1 ≤ x) (ha : a ≤ π x) (hlt : x < p (a + 1) ^ 3) :
    π x + 1 + P2 x a = phi x a + a := by
  rw [phi_eq_of_lt_cube hx hlt]; omega

/-- **Meissel's formula**, general form of DESIGN 5.1: for any `a ≥ 1` with `p a ≤ x < p (a+1) ^ 3`
(in particular `a = π ⌊x^{1/3}⌋`, and any `a = π y` with `x^{1/3} ≤ y ≤ x`; the hypothesis `p a ≤ √x`
of DESIGN 5.1 is not needed, `p a ≤ x` suffices), `π x = phi x a + a - 1 - P2 x a`. -/
theorem meissel {x a : ℕ} (ha : 1 ≤ a) (hle : p a ≤ x) (hlt : x < p (a + 1) ^ 3) :
    π x = phi x a + a - 1 - P2 x a := by
  have hx : 1 ≤ x := le_trans (p_pos a) hle
  have := meissel_add hx ((p_le_iff ha).1 hle) hlt
  omega

lemma lt_p_succ_cube {x y : ℕ} (h : x < (y + 1) ^ 3) : x < p (π y + 1) ^ 3 := by
  have h1 : y + 1 ≤ p (π y + 1) := lt_p_pi_succ y
  exact lt_of_lt_of_le h (Nat.pow_le_pow_left h1 3)

/-- Meissel's formula with `a = π y` for any `y` with `⌊x^{1/3}⌋ ≤ y ≤ x` (stated as
`x < (y+1)^3`): `π x + 1 + P2 x (π y) = phi x (π y) + π y`. -/
theorem meissel_pi_add {x y : ℕ} (hx : 1 ≤ x) (hy : y ≤ x) (h : x < (y + 1) ^ 3) :
    π x + 1 + P2 x (π y) = phi x (π y) + π y :=
  meissel_add hx (pi_mono hy) (lt_p_succ_cube h)

/-- Meissel's formula with `a = π c`, `c = ⌊x^{1/3}⌋` characterised by `c^3 ≤ x < (c+1)^3` -/
theorem meissel_iroot3 {x c : ℕ} (hx : 1 ≤ x) (hc : c ^ 3 ≤ x) (hc' : x < (c + 1) ^ 3) :
    π x = phi x (π c) + π c - 1 - P2 x (π c) := by
  have hcx : c ≤ x := by
    rcases Nat.eq_zero_or_pos c with h | h
    · omega
    · calc c = c ^ 1 := (pow_one c).symm
        _ ≤ c ^ 3 := Nat.pow_le_pow_right h (by omega)
        _ ≤ x := hc
  have := meissel_pi_add hx hcx hc'
  omega

end Pc.Spec
