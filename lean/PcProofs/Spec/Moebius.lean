/-
L0 spec library: the bijection `S ↦ prodP S = ∏_{i ∈ S} p i` between subsets `S ⊆ (b, a]` of prime
indices and squarefree `n` all of whose prime factors `q` satisfy `b < π q ≤ a`, with
`μ (prodP S) = (-1)^|S|`.  This connects the subset formulation of `ord` / `specTerm` (Spec/Phi.lean)
with the `μ` / `lpf` presentation used by `src/S1.cpp`, `src/lmo/pi_lmo1.cpp` ... `pi_lmo5.cpp`.
DESIGN.md 5.1 (formulation note).
-/
import PcProofs.Spec.Legendre
import Mathlib.NumberTheory.ArithmeticFunction.Moebius
import Mathlib.Data.Nat.Squarefree

namespace Pc.Spec

open Finset Nat Classical
open scoped Nat.Prime ArithmeticFunction.Moebius

lemma prodP_pos (S : Finset ℕ) : 0 < prodP S := Finset.prod_pos (fun i _ => p_pos i)

lemma prodP_ne_zero (S : Finset ℕ) : prodP S ≠ 0 := (prodP_pos S).ne'

/-- the index set of a subset of `(b, a]` consists of indices `≥ 1` -/
lemma one_le_of_subset_Ioc {S : Finset ℕ} {b a : ℕ} (hS : S ⊆ Ioc b a) : ∀ j ∈ S, 1 ≤ j := by
  intro j hj
  have := mem_Ioc.1 (hS hj)
  omega

lemma p_dvd_prodP_iff {S : Finset ℕ} (hS : ∀ j ∈ S, 1 ≤ j) {i : ℕ} (hi : 1 ≤ i) :
    p i ∣ prodP S ↔ i ∈ S := by
  unfold prodP
  rw [Prime.dvd_finsetProd_iff (p_prime hi).prime]
  constructor
  · rintro ⟨j, hj, hd⟩
    have := (Nat.prime_dvd_prime_iff_eq (p_prime hi) (p_prime (hS j hj))).1 hd
    rwa [p_inj hi (hS j hj) this]
  · intro h; exact ⟨i, h, dvd_rfl⟩

lemma prime_dvd_prodP_iff {S : Finset ℕ} (hS : ∀ j ∈ S, 1 ≤ j) {q : ℕ} (hq : q.Prime) :
    q ∣ prodP S ↔ π q ∈ S := by
  rw [← p_dvd_prodP_iff hS (one_le_pi_of_prime hq), p_pi_of_prime hq]

/-- `μ (∏_{i ∈ S} p i) = (-1)^|S|` -/
theorem moebius_prodP {S : Finset ℕ} (hS : ∀ j ∈ S, 1 ≤ j) : μ (prodP S) = (-1 : ℤ) ^ S.card := by
  unfold prodP
  rw [ArithmeticFunction.IsMultiplicative.map_prod p ArithmeticFunction.isMultiplicative_moebius S]
  · rw [Finset.prod_congr rfl
      (fun i hi => ArithmeticFunction.moebius_apply_prime (p_prime (hS i hi)))]
    simp
  · intro i hi j hj hij
    rw [Function.onFun, Nat.coprime_primes (p_prime (hS i hi)) (p_prime (hS j hj))]
    exact fun h => hij (p_inj (hS i hi) (hS j hj) h)

lemma squarefree_prodP {S : Finset ℕ} (hS : ∀ j ∈ S, 1 ≤ j) : Squarefree (prodP S) := by
  rw [← ArithmeticFunction.moebius_ne_zero_iff_squarefree, moebius_prodP hS]
  exact pow_ne_zero _ (by norm_num)

/-- inverse direction of the bijection: the prime indices of a number -/
noncomputable def primeIdx (n : ℕ) : Finset ℕ := n.primeFactors.image (fun q => π q)

lemma mem_primeIdx {n i : ℕ} : i ∈ primeIdx n ↔ ∃ q, q.Prime ∧ q ∣ n ∧ n ≠ 0 ∧ π q = i := by
  simp only [primeIdx, mem_image, Nat.mem_primeFactors]
  constructor
  · rintro ⟨q, ⟨h1, h2, h3⟩, h4⟩; exact ⟨q, h1, h2, h3, h4⟩
  · rintro ⟨q, h1, h2, h3, h4⟩; exact ⟨q, ⟨h1, h2, h3⟩, h4⟩

theorem primeIdx_prodP {S : Finset ℕ} (hS : ∀ j ∈ S, 1 ≤ j) : primeIdx (prodP S) = S := by
  ext i
  rw [mem_primeIdx]
  constructor
  · rintro ⟨q, hq, hd, _, rfl⟩
    exact (prime_dvd_prodP_iff hS hq).1 hd
  · intro hi
    have h1 := hS i hi
    exact ⟨p i, p_prime h1, (p_dvd_prodP_iff hS h1).2 hi, prodP_ne_zero S, pi_p h1⟩

theorem prodP_primeIdx {n : ℕ} (hn : Squarefree n) : prodP (primeIdx n) = n := by
  unfold prodP primeIdx
  rw [Finset.prod_image]
  · rw [Finset.prod_congr rfl
      (fun q hq => p_pi_of_prime (Nat.prime_of_mem_primeFactors hq))]
    exact Nat.prod_primeFactors_of_squarefree hn
  · intro q hq r hr h
    have hq' := Nat.prime_of_mem_primeFactors hq
    have hr' := Nat.prime_of_mem_primeFactors hr
    have := congrArg p h
    rwa [p_pi_of_prime hq', p_pi_of_prime hr'] at this

/-- **subsets ↔ squarefree numbers.**  For any finite set `N` of naturals and any weight `g`, the signed
sum over subsets `S ⊆ (b, a]` of prime indices with `∏_{i∈S} p i ∈ N` equals the `μ`-weighted sum over
the `n ∈ N` all of whose prime factors `q` satisfy `b < π q ≤ a` (non-squarefree `n` contribute `0`). -/
theorem sum_subsets_eq_sum_moebius (b a : ℕ) (N : Finset ℕ) (g : ℕ → ℤ) :
    ∑ S ∈ (Ioc b a).powerset.filter (fun S => prodP S ∈ N), (-1 : ℤ) ^ S.card * g (prodP S)
      = ∑ n ∈ N.filter (fun n => ∀ q, q.Prime → q ∣ n → b < π q ∧ π q ≤ a), μ n * g n := by
  rw [← Finset.sum_filter_of_ne (s := N.filter _) (p := fun n => Squarefree n)]
  swap
  · intro n _ hne
    by_contra hsq
    exact hne (by rw [ArithmeticFunction.moebius_eq_zero_of_not_squarefree hsq, zero_mul])
  refine Finset.sum_nbij' (fun S => prodP S) primeIdx ?_ ?_ ?_ ?_ ?_
  · intro S hS
    rw [mem_filter, mem_powerset] at hS
    have h1 := one_le_of_subset_Ioc hS.1
    rw [mem_filter, mem_filter]
    refine ⟨⟨hS.2, ?_⟩, squarefree_prodP h1⟩
    intro q hq hd
    have := mem_Ioc.1 (hS.1 ((prime_dvd_prodP_iff h1 hq).1 hd))
    exact this
  · intro n hn
    rw [mem_filter, mem_filter] at hn
    obtain ⟨⟨hN, hc⟩, hsq⟩ := hn
    rw [mem_filter, mem_powerset, prodP_primeIdx hsq]
    refine ⟨?_, hN⟩
    intro i hi
    rw [mem_primeIdx] at hi
    obtain ⟨q, hq, hd, _, rfl⟩ := hi
    exact mem_Ioc.2 (hc q hq hd)
  · intro S hS
    rw [mem_filter, mem_powerset] at hS
    exact primeIdx_prodP (one_le_of_subset_Ioc hS.1)
  · intro n hn
    rw [mem_filter] at hn
    exact prodP_primeIdx hn.2
  · intro S hS
    rw [mem_filter, mem_powerset] at hS
    rw [moebius_prodP (one_le_of_subset_Ioc hS.1)]

/-- the bijection itself, as a statement about sets: `prodP` maps the subsets of `(b, a]` bijectively
onto the squarefree numbers whose prime factors `q` all satisfy `b < π q ≤ a`. -/
theorem prodP_bijOn (b a : ℕ) :
    Set.BijOn prodP {S | S ⊆ Ioc b a}
      {n | Squarefree n ∧ ∀ q, q.Prime → q ∣ n → b < π q ∧ π q ≤ a} := by
  refine ⟨?_, ?_, ?_⟩
  · intro S hS
    have h1 := one_le_of_subset_Ioc (show S ⊆ Ioc b a from hS)
    refine ⟨squarefree_prodP h1, ?_⟩
    intro q hq hd
    exact mem_Ioc.1 (hS ((prime_dvd_prodP_iff h1 hq).1 hd))
  · intro S hS T hT h
    have h1 := one_le_of_subset_Ioc (show S ⊆ Ioc b a from hS)
    have h2 := one_le_of_subset_Ioc (show T ⊆ Ioc b a from hT)
    rw [← primeIdx_prodP h1, ← primeIdx_prodP h2, h]
  · rintro n ⟨hsq, hc⟩
    refine ⟨primeIdx n, ?_, prodP_primeIdx hsq⟩
    intro i hi
    rw [mem_primeIdx] at hi
    obtain ⟨q, hq, hd, _, rfl⟩ := hi
    exact mem_Ioc.2 (hc q hq hd)

end Pc.Spec
