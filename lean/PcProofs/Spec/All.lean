/-
L0 number-theory spec library (DESIGN.md 5.1), umbrella module.  Importing this file gives, in namespace
`Pc.Spec` (π = `Nat.primeCounting`, `p i` = i-th prime with `p 1 = 2`):

* Spec/Phi.lean       `p`, `phiSet`, `phi`, `phi_rec`, `prodP`, `ord`, `specTerm`, `spec`, `lmo_step`,
                      `lmo_general`
* Spec/Basic.lean     `p_one`, `p_two`, `p_strictMono`, `p_lt_p_iff`, `p_le_p_iff`, `p_le_iff`
                      (`p i ≤ n ↔ i ≤ π n`), `lt_p_iff`, `pi_p`, `p_pi_of_prime`, `prime_iff_exists_p`,
                      `lt_p_pi_succ`, `two_mul_sub_one_le_p`, `mem_phiSet_iff`, `phi_zero_right`,
                      `phi_zero_left`, `phi_mono_left`, `phi_anti_right`, `phi_le`, `one_le_phi`
* Spec/Legendre.lean  `primesGt`, `card_primesGt`, `sum_primesGt`, `phi_eq_one`, `phi_eq_one_of_pi_le`,
                      `phi_eq_one_of_le_p`, `phi_eq_one_of_half_lt`, `phi_add_eq_pi`, `phi_eq_pi`,
                      `phi_eq_pi'`, `phi_pix`, `legendre_add`, `legendre`
* Spec/Meissel.lean   `P2`, `P2_eq_card_p_lt`, `P2_sum`, `P2_sum_index`, `P2_sum_int`,
                      `phi_eq_of_lt_cube`, `meissel_add`, `meissel`, `meissel_pi_add`, `meissel_iroot3`
* Spec/Moebius.lean   `moebius_prodP`, `primeIdx_prodP`, `prodP_primeIdx`, `sum_subsets_eq_sum_moebius`,
                      `prodP_bijOn`
* Spec/Lmo.lean       `S1`, `S2`, `lmo`, `pi_lmo`, `ord_eq_moebius`, `specTerm_eq_moebius`,
                      `S1_eq_moebius`, `S2_eq_moebius`, `specTerm_last`, `S2_eq_sum_Ioo`,
                      `mem_phiSet_iff_minFac`
* Spec/Gourdon.lean   `B`, `B_eq_sum_index`, `Sigma0`, `gourdon_B_sigma0`, `Phi0`, `Phi0_eq_moebius`,
                      `gourdon_phi0_special`, `pi_gourdon_partial`
* Spec/Periodic.lean  `pp`, `tot`, `phi_add_mul_pp`, `phi_periodic`, `phi_tiny_formula`, `phi_pp`,
                      `p_three` … `p_eight`, `pp_values`, `tot_values`
* Spec/Lehmer.lean    `Pk`, `P3`, `Pk_eq_zero`, `phi_eq_sum_Pk`, `Pk_zero`, `Pk_one`, `Pk_two`, `Pk_succ`,
                      `Pk_succ_index`, `phi_eq_of_lt_pow_four`, `lehmer_add`, `lehmer`, `lehmer_iroot4`,
                      `P3_eq_sum_P2`, `P3_sum`
* Spec/Leaves.lean    `phi_leaf_trivial`, `phi_leaf_easy`, `prime_of_mem_phiSet_of_lt_sq`,
                      `specTerm_eq_sum_primes`
* Spec/DR.lean        `S2_trivial`, `S2_easy`, `S2_hard`, `specTerm_beyond_sqrt`, `dr_split`, `pi_dr`,
                      `trivial_count`, `no_trivial_of_sq_le`, `all_trivial_of_lt_cube`
* Spec/GourdonSigma.lean  `Sigma1` … `Sigma6`, `A`, `Aidx`, index forms, closed forms of the polynomial sums
* Spec/GourdonPairs.lean  `swap_pairs`, `ALevel.U_eval_low`, `ALevel.U_eval_high`
* Spec/GourdonMain.lean   `GParams`, `C`, `D`, `CDterm_eq`, `GParams.specTerm_low` (class T is empty),
                      `GParams.specTerm_high`, `GParams.leaf_split` (gourdon_leaf_split),
                      `GParams.A_sigma` (gourdon_A_sigma), `GParams.decomp` (gourdon_decomp),
                      `GParams.pi_gourdon` (π x = A - B + C + D + Φ0 + Σ)
* Spec/GourdonXstar.lean  `xstar`, `xstar_spec`, `r4_le_xstar`, `GParams.of_xstar`
-/
import PcProofs.Spec.Phi
import PcProofs.Spec.Basic
import PcProofs.Spec.Legendre
import PcProofs.Spec.Meissel
import PcProofs.Spec.Moebius
import PcProofs.Spec.Lmo
import PcProofs.Spec.Gourdon
import PcProofs.Spec.Periodic
import PcProofs.Spec.Lehmer
import PcProofs.Spec.Leaves
import PcProofs.Spec.DR
import PcProofs.Spec.GourdonSigma
import PcProofs.Spec.GourdonPairs
import PcProofs.Spec.GourdonMain
import PcProofs.Spec.GourdonXstar
