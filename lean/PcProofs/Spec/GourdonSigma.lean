/-
L0 spec library, Gourdon part 2: definitions of `A`, `Σ1 … Σ6` (`src/gourdon/AC.cpp`,
`src/gourdon/Sigma.cpp`), their prime-index forms, and the closed forms of the polynomial sums that
`Σ1`, `Σ2`, `Σ3` stand for.  DESIGN.md 5.1.

Conventions: `a = π y`, `b = π c3` (`c3 = ⌊x^{1/3}⌋`), `c = π ⌊√(x / y)⌋`, `d = π w` (`w = x⋆`).
Integer divisions are `ℤ` floor divisions; all of them are exact, so they agree with C++ truncation.
-/
import PcProofs.Spec.Gourdon

namespace Pc.Spec

open Finset Nat Classical
open scoped Nat.Prime

/-! ### definitions (as in the C++ source) -/

/-- `Sigma1(a, b) = (a - b) * (a - b - 1) / 2` -/
def Sigma1 (a b : ℕ) : ℤ := (((a : ℤ) - b) * ((a : ℤ) - b - 1)) / 2

/-- `Sigma2(a, b, c, d) = a * (b - c - (c * (c - 3)) / 2 + (d * (d - 3)) / 2)` -/
def Sigma2 (a b c d : ℕ) : ℤ :=
  (a : ℤ) * ((b : ℤ) - c - ((c : ℤ) * ((c : ℤ) - 3)) / 2 + ((d : ℤ) * ((d : ℤ) - 3)) / 2)

/-- `Sigma3(b, d) = (b * (b - 1) * (2 * b - 1)) / 6 - b - (d * (d - 1) * (2 * d - 1)) / 6 + d` -/
def Sigma3 (b d : ℕ) : ℤ :=
  ((b : ℤ) * ((b : ℤ) - 1) * (2 * (b : ℤ) - 1)) / 6 - b
    - ((d : ℤ) * ((d : ℤ) - 1) * (2 * (d : ℤ) - 1)) / 6 + d

/-- `Σ4 = a * Σ_{q prime, w < q ≤ √(x/y)} π(x / (q * y))`, `a = π y` -/
noncomputable def Sigma4 (x y w : ℕ) : ℤ :=
  (π y : ℤ) * ∑ q ∈ (Ioc w (Nat.sqrt (x / y))).filter Nat.Prime, (π (x / (q * y)) : ℤ)

/-- `Σ5 = Σ_{q prime, √(x/y) < q ≤ c3} π(x / q²)` -/
noncomputable def Sigma5 (x y c3 : ℕ) : ℤ :=
  ∑ q ∈ (Ioc (Nat.sqrt (x / y)) c3).filter Nat.Prime, (π (x / (q * q)) : ℤ)

/-- `Σ6 = - Σ_{q prime, w < q ≤ c3} π(⌊√(x / q)⌋)²` -/
noncomputable def Sigma6 (x w c3 : ℕ) : ℤ :=
  - ∑ q ∈ (Ioc w c3).filter Nat.Prime, (π (Nat.sqrt (x / q)) : ℤ) ^ 2

/-- Gourdon's `A = Σ_{q prime, w < q ≤ c3} Σ_{r prime, q < r ≤ √(x/q)} χ · π(x / (q r))`,
`χ = 1` if `y ≤ x / (q r)` and `2` otherwise -/
noncomputable def A (x y w c3 : ℕ) : ℤ :=
  ∑ q ∈ (Ioc w c3).filter Nat.Prime, ∑ r ∈ (Ioc q (Nat.sqrt (x / q))).filter Nat.Prime,
    (if y ≤ x / (q * r) then (1 : ℤ) else 2) * (π (x / (q * r)) : ℤ)

/-! ### prime-index forms -/

/-- the inner sum of `A` for `q = p i` -/
noncomputable def Aidx (x y i : ℕ) : ℤ :=
  ∑ j ∈ Ioc i (π (Nat.sqrt (x / p i))),
    (if y ≤ x / p i / p j then (1 : ℤ) else 2) * (π (x / p i / p j) : ℤ)

lemma sum_filter_prime_Ioc {M : Type*} [AddCommMonoid M] (u v : ℕ) (f : ℕ → M) :
    ∑ q ∈ (Ioc u v).filter Nat.Prime, f q = ∑ i ∈ Ioc (π u) (π v), f (p i) := by
  rw [filter_prime_Ioc_eq, sum_primesGt]

theorem Sigma4_eq_index (x y w : ℕ) :
    Sigma4 x y w = (π y : ℤ) * ∑ i ∈ Ioc (π w) (π (Nat.sqrt (x / y))), (π (x / (p i * y)) : ℤ) := by
  unfold Sigma4; rw [sum_filter_prime_Ioc]

theorem Sigma5_eq_index (x y c3 : ℕ) :
    Sigma5 x y c3 = ∑ i ∈ Ioc (π (Nat.sqrt (x / y))) (π c3), (π (x / (p i * p i)) : ℤ) := by
  unfold Sigma5; rw [sum_filter_prime_Ioc]

theorem Sigma6_eq_index (x w c3 : ℕ) :
    Sigma6 x w c3 = - ∑ i ∈ Ioc (π w) (π c3), (π (Nat.sqrt (x / p i)) : ℤ) ^ 2 := by
  unfold Sigma6; rw [sum_filter_prime_Ioc]

theorem A_eq_index (x y w c3 : ℕ) : A x y w c3 = ∑ i ∈ Ioc (π w) (π c3), Aidx x y i := by
  unfold A
  rw [sum_filter_prime_Ioc]
  apply Finset.sum_congr rfl
  intro i hi
  rw [mem_Ioc] at hi
  have h1 : 1 ≤ i := by omega
  unfold Aidx
  rw [sum_filter_prime_Ioc, pi_p h1]
  apply Finset.sum_congr rfl
  intro j _
  rw [Nat.div_div_eq_div_mul]

/-! ### closed forms of the polynomial sums -/

lemma sum_Ioc_const_one (i a : ℕ) (h : i ≤ a) : ∑ _j ∈ Ioc i a, (1 : ℤ) = (a : ℤ) - i := by
  simp [Nat.cast_sub h]

lemma g_succ (n : ℕ) :
    (((n + 1 : ℕ) : ℤ) * (((n + 1 : ℕ) : ℤ) - 3)) / 2 = ((n : ℤ) * ((n : ℤ) - 3)) / 2 + ((n : ℤ) - 1) := by
  have : (((n + 1 : ℕ) : ℤ) * (((n + 1 : ℕ) : ℤ) - 3)) = (n : ℤ) * ((n : ℤ) - 3) + ((n : ℤ) - 1) * 2 := by
    push_cast; ring
  rw [this, Int.add_mul_ediv_right _ _ (by norm_num)]

lemma h_succ (n : ℕ) :
    (((n + 1 : ℕ) : ℤ) * (((n + 1 : ℕ) : ℤ) - 1) * (2 * ((n + 1 : ℕ) : ℤ) - 1)) / 6
      = ((n : ℤ) * ((n : ℤ) - 1) * (2 * (n : ℤ) - 1)) / 6 + (n : ℤ) ^ 2 := by
  have : (((n + 1 : ℕ) : ℤ) * (((n + 1 : ℕ) : ℤ) - 1) * (2 * ((n + 1 : ℕ) : ℤ) - 1))
      = (n : ℤ) * ((n : ℤ) - 1) * (2 * (n : ℤ) - 1) + (n : ℤ) ^ 2 * 6 := by
    push_cast; ring
  rw [this, Int.add_mul_ediv_right _ _ (by norm_num)]

/-- `Σ_{d < i ≤ c} (2 - i) = - c (c - 3) / 2 + d (d - 3) / 2` -/
lemma sum_two_sub (d c : ℕ) (h : d ≤ c) :
    ∑ i ∈ Ioc d c, (2 - (i : ℤ))
      = - (((c : ℤ) * ((c : ℤ) - 3)) / 2) + ((d : ℤ) * ((d : ℤ) - 3)) / 2 := by
  induction c, h using Nat.le_induction with
  | base => simp
  | succ c hc ih =>
    rw [Finset.sum_Ioc_succ_top hc, ih, g_succ]
    push_cast; ring

/-- `Σ_{d < i ≤ b} (i² - 2 i) = Sigma3 b d` -/
lemma sum_sq_sub (d b : ℕ) (h : d ≤ b) :
    ∑ i ∈ Ioc d b, ((i : ℤ) ^ 2 - 2 * i) = Sigma3 b d := by
  unfold Sigma3
  induction b, h using Nat.le_induction with
  | base => simp
  | succ b hb ih =>
    rw [Finset.sum_Ioc_succ_top hb, ih, h_succ]
    push_cast; ring

/-- `Σ_{b < i ≤ a} (a - i) = Sigma1 a b`: the number of pairs `b < i < j ≤ a` -/
lemma sum_sub_eq_Sigma1 (b a : ℕ) (h : b ≤ a) :
    ∑ i ∈ Ioc b a, ((a : ℤ) - i) = Sigma1 a b := by
  unfold Sigma1
  have h1 : ∑ i ∈ Ioc b a, ((a : ℤ) - i)
      = (a : ℤ) * ((a : ℤ) - b) - ∑ i ∈ Ioc b a, (((i : ℤ) - 1) + 1) := by
    rw [Finset.sum_sub_distrib]
    simp only [Finset.sum_const, Nat.card_Ioc, nsmul_eq_mul, Nat.cast_sub h, sub_add_cancel]
    ring
  rw [h1, Finset.sum_add_distrib, sum_Ioc_pred b a h, sum_Ioc_const_one b a h]
  -- a(a-b) - (a(a-1)/2 - b(b-1)/2 + (a-b)) = (a-b)(a-b-1)/2
  obtain ⟨A', hA⟩ : ∃ A' : ℤ, (a : ℤ) * ((a : ℤ) - 1) = 2 * A' := by
    have := Int.even_mul_pred_self (a : ℤ)
    obtain ⟨r, hr⟩ := this
    exact ⟨r, by rw [hr]; ring⟩
  obtain ⟨B', hB⟩ : ∃ B' : ℤ, (b : ℤ) * ((b : ℤ) - 1) = 2 * B' := by
    have := Int.even_mul_pred_self (b : ℤ)
    obtain ⟨r, hr⟩ := this
    exact ⟨r, by rw [hr]; ring⟩
  have hE : ((a : ℤ) - b) * ((a : ℤ) - b - 1)
      = 2 * ((a : ℤ) * ((a : ℤ) - b) - (A' - B' + ((a : ℤ) - b))) := by
    have : ((a : ℤ) - b) * ((a : ℤ) - b - 1)
      = 2 * ((a : ℤ) * ((a : ℤ) - b)) - (a : ℤ) * ((a : ℤ) - 1) + (b : ℤ) * ((b : ℤ) - 1)
        - 2 * ((a : ℤ) - b) := by ring
    rw [this, hA, hB]; ring
  rw [hA, hB, hE]
  simp only [Int.mul_ediv_cancel_left _ (by norm_num : (2 : ℤ) ≠ 0)]

end Pc.Spec
