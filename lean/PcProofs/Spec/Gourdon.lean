/-
L0 spec library, Gourdon part: `B`, `Σ0`, the identity `-B + Σ0 = π y - 1 - P2 x (π y)`
(`gourdon_B_sigma0`), and `Φ0` with its split `phi x (π y) = Φ0 + special leaves` (instance of
`lmo_general`).  DESIGN.md 5.1; `src/gourdon/B.cpp`, `src/gourdon/Sigma.cpp` (`Sigma0`),
`src/gourdon/Phi0.cpp`.
-/
import PcProofs.Spec.Lmo

namespace Pc.Spec

open Finset Nat Classical
open scoped Nat.Prime ArithmeticFunction.Moebius

/-- for a prime `q`: `y < q ↔ π y < π q` -/
lemma lt_prime_iff_pi_lt {y q : ℕ} (hq : q.Prime) : y < q ↔ π y < π q := by
  have := lt_p_iff (i := π q) (n := y) (one_le_pi_of_prime hq)
  rwa [p_pi_of_prime hq] at this

/-- for a prime `q`: `q ≤ y ↔ π q ≤ π y` -/
lemma prime_le_iff_pi_le' {y q : ℕ} (hq : q.Prime) : q ≤ y ↔ π q ≤ π y := by
  have := lt_prime_iff_pi_lt (y := y) hq
  omega

/-- the primes in `(y, s]` are `p i` for `i ∈ (π y, π s]` -/
lemma filter_prime_Ioc_eq (y s : ℕ) : (Ioc y s).filter Nat.Prime = primesGt (π y) s := by
  ext q
  rw [mem_filter, mem_Ioc, mem_primesGt]
  constructor
  · rintro ⟨⟨h1, h2⟩, hq⟩; exact ⟨hq, (lt_prime_iff_pi_lt hq).1 h1, h2⟩
  · rintro ⟨hq, h1, h2⟩; exact ⟨⟨(lt_prime_iff_pi_lt hq).2 h1, h2⟩, hq⟩

/-- Gourdon's `B(x, y) = Σ_{q prime, y < q ≤ √x} π(x / q)` (`src/gourdon/B.cpp`) -/
noncomputable def B (x y : ℕ) : ℤ := ∑ q ∈ (Ioc y (Nat.sqrt x)).filter Nat.Prime, (π (x / q) : ℤ)

/-- `B` as the sum over prime indices written in the header of `B.cpp`:
`Σ_{i = π(y)+1}^{π(√x)} π(x / p_i)` -/
theorem B_eq_sum_index (x y : ℕ) :
    B x y = ∑ i ∈ Ioc (π y) (π (Nat.sqrt x)), (π (x / p i) : ℤ) := by
  unfold B
  rw [filter_prime_Ioc_eq, sum_primesGt]

/-- `Sigma0` of `src/gourdon/Sigma.cpp`: `a - 1 + π√x (π√x - 1) / 2 - a (a - 1) / 2` (integer division) -/
noncomputable def Sigma0 (x a : ℕ) : ℤ :=
  (a : ℤ) - 1 + ((π (Nat.sqrt x) : ℤ) * ((π (Nat.sqrt x) : ℤ) - 1)) / 2 - ((a : ℤ) * ((a : ℤ) - 1)) / 2

lemma tri_succ (n : ℕ) :
    (((n + 1 : ℕ) : ℤ) * (((n + 1 : ℕ) : ℤ) - 1)) / 2 = ((n : ℤ) * ((n : ℤ) - 1)) / 2 + n := by
  have : (((n + 1 : ℕ) : ℤ) * (((n + 1 : ℕ) : ℤ) - 1)) = (n : ℤ) * ((n : ℤ) - 1) + n * 2 := by
    push_cast; ring
  rw [this, Int.add_mul_ediv_right _ _ (by norm_num)]

/-- `Σ_{a < i ≤ s} (i - 1) = s (s - 1) / 2 - a (a - 1) / 2` -/
lemma sum_Ioc_pred (a s : ℕ) (h : a ≤ s) :
    ∑ i ∈ Ioc a s, ((i : ℤ) - 1) = ((s : ℤ) * ((s : ℤ) - 1)) / 2 - ((a : ℤ) * ((a : ℤ) - 1)) / 2 := by
  induction s, h using Nat.le_induction with
  | base => simp
  | succ s hs ih =>
    rw [Finset.sum_Ioc_succ_top hs, ih, tri_succ]
    push_cast; ring

/-- **`-B + Σ0 = π y - 1 - P2 x (π y)`** whenever `π y ≤ π √x` (in particular for `y ≤ √x`) -/
theorem gourdon_B_sigma0 (x y : ℕ) (h : π y ≤ π (Nat.sqrt x)) :
    - B x y + Sigma0 x (π y) = (π y : ℤ) - 1 - P2 x (π y) := by
  rw [P2_sum_int, B_eq_sum_index]
  unfold Sigma0
  have h1 : ∑ i ∈ Ioc (π y) (π (Nat.sqrt x)), ((π (x / p i) : ℤ) - i + 1)
      = ∑ i ∈ Ioc (π y) (π (Nat.sqrt x)), (π (x / p i) : ℤ)
        - ∑ i ∈ Ioc (π y) (π (Nat.sqrt x)), ((i : ℤ) - 1) := by
    rw [← Finset.sum_sub_distrib]
    apply Finset.sum_congr rfl
    intro i _; ring
  rw [h1, sum_Ioc_pred _ _ h]
  ring

theorem gourdon_B_sigma0_of_le (x y : ℕ) (h : y ≤ Nat.sqrt x) :
    - B x y + Sigma0 x (π y) = (π y : ℤ) - 1 - P2 x (π y) :=
  gourdon_B_sigma0 x y (pi_mono h)

/-- Gourdon's `Φ0(x, y, z, k)`: ordinary leaves with size cut-off `z` and stop level `k`
(subset-of-prime-indices form, as enumerated by `Phi0_thread`) -/
noncomputable def Phi0 (x y z k : ℕ) : ℤ := ord x z k (π y)

/-- `Φ0` in the `μ` presentation of DESIGN 5.1: sum over `n ≤ z` (squarefree) with all prime factors `q`
in `(p k, y]`, i.e. `k < π q` and `q ≤ y`, of `μ n * phi (x / n) k` -/
theorem Phi0_eq_moebius (x y z k : ℕ) :
    Phi0 x y z k = ∑ n ∈ (Icc 1 z).filter (fun n => ∀ q, q.Prime → q ∣ n → k < π q ∧ q ≤ y),
      μ n * (phi (x / n) k : ℤ) := by
  unfold Phi0
  rw [ord_eq_moebius]
  apply Finset.sum_congr _ (fun _ _ => rfl)
  apply Finset.filter_congr
  intro n _
  constructor
  · intro h q hq hd
    exact ⟨(h q hq hd).1, (prime_le_iff_pi_le' hq).2 (h q hq hd).2⟩
  · intro h q hq hd
    exact ⟨(h q hq hd).1, (prime_le_iff_pi_le' hq).1 (h q hq hd).2⟩

/-- `phi x (π y) = Φ0 + (all special leaves for cut-off z and stop level k)`; the special leaves are
what Gourdon's `A + C + D + Σ1..Σ6` compute (`GParams.leaf_split`, `GParams.A_sigma` in
Spec/GourdonMain.lean). -/
theorem gourdon_phi0_special (x y z k : ℕ) (hz : 1 ≤ z) (hk : k ≤ π y) :
    (phi x (π y) : ℤ) = Phi0 x y z k + spec x z k (π y) :=
  lmo_general x z (π y) hz (π y - k) k (by omega)

/-- **π(x) in Gourdon's top-level shape** with the special leaves kept as one term (the full formula
`π x = A - B + C + D + Φ0 + Σ` is `GParams.pi_gourdon` in Spec/GourdonMain.lean):
`π x = Φ0 + Special - B + Σ0` for `1 ≤ y ≤ √x`, `x < (y+1)^3`, `1 ≤ z`, `k ≤ π y`, where
`Special = spec x z k (π y)` stands for `A + C + D + Σ1 + … + Σ6`. -/
theorem pi_gourdon_partial {x y z k : ℕ} (hy : 1 ≤ y) (hys : y ≤ Nat.sqrt x) (h : x < (y + 1) ^ 3)
    (hz : 1 ≤ z) (hk : k ≤ π y) :
    (π x : ℤ) = Phi0 x y z k + spec x z k (π y) - B x y + Sigma0 x (π y) := by
  have hyx : y ≤ x := le_trans hys (Nat.sqrt_le_self x)
  have h1 := meissel_pi_add (le_trans hy hyx) hyx h
  have h2 := gourdon_phi0_special x y z k hz hk
  have h3 := gourdon_B_sigma0_of_le x y hys
  have h4 : ((π x + 1 + P2 x (π y) : ℕ) : ℤ) = ((phi x (π y) + π y : ℕ) : ℤ) := by rw [h1]
  push_cast at h4
  linarith

end Pc.Spec
