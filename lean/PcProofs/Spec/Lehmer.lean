/-
L0 spec library: the k-th partial sieve functions `Pk k x a` in the Ω-based definition of DESIGN.md 5.1
(`Pk k x a = #{n ≤ x | Ω n = k, all prime factors of n beyond the first a primes}`), the decomposition
`phi x a = Σ_{j < k} Pk j x a` for `x < p (a+1) ^ k`, the recurrence
`Pk (k+1) x a = Σ_{q prime, a < π q, q ≤ x} Pk k (x / q) (π q - 1)`, `Pk 2 = P2`, Lehmer's formula and
the double sum computed by `src/P3.cpp`.
-/
import PcProofs.Spec.Meissel
import Mathlib.NumberTheory.ArithmeticFunction.Misc

namespace Pc.Spec

open Finset Nat Classical
open scoped Nat.Prime ArithmeticFunction.Omega

/-- numbers `n ≤ x` with exactly `k` prime factors (with multiplicity), all beyond the first `a` primes -/
noncomputable def PkSet (k x a : ℕ) : Finset ℕ := (phiSet x a).filter (fun n => Ω n = k)

/-- the `k`-th partial sieve function -/
noncomputable def Pk (k x a : ℕ) : ℕ := (PkSet k x a).card

/-- `P3(x, a)`: numbers `≤ x` with exactly 3 prime factors each exceeding the `a`-th prime -/
noncomputable def P3 (x a : ℕ) : ℕ := Pk 3 x a

lemma mem_PkSet {k x a n : ℕ} : n ∈ PkSet k x a ↔ n ∈ phiSet x a ∧ Ω n = k := by
  simp [PkSet]

/-- a number all of whose prime factors are `≥ P` is `≥ P ^ Ω n` -/
lemma pow_cardFactors_le {x a n : ℕ} (h : n ∈ phiSet x a) : p (a + 1) ^ Ω n ≤ n := by
  rw [mem_phiSet_iff] at h
  obtain ⟨h1, _, h3⟩ := h
  have hn : n ≠ 0 := by omega
  have := List.pow_card_le_prod n.primeFactorsList (p (a + 1)) (by
    intro q hq
    rw [Nat.mem_primeFactorsList hn] at hq
    exact lt_pi_iff_p_succ_le.1 (h3 q hq.1 hq.2))
  rwa [Nat.prod_primeFactorsList hn] at this

theorem Pk_eq_zero {k x a : ℕ} (h : x < p (a + 1) ^ k) {j : ℕ} (hj : k ≤ j) : Pk j x a = 0 := by
  unfold Pk
  rw [Finset.card_eq_zero, Finset.eq_empty_iff_forall_notMem]
  intro n hn
  rw [mem_PkSet] at hn
  have h1 := pow_cardFactors_le hn.1
  have h2 : n ≤ x := (mem_phiSet_iff.1 hn.1).2.1
  have h3 : p (a + 1) ^ k ≤ p (a + 1) ^ Ω n :=
    Nat.pow_le_pow_right (p_pos _) (by rw [hn.2]; exact hj)
  omega

/-- **`phi x a = Σ_{j < k} Pk j x a`** for `x < p (a+1) ^ k` -/
theorem phi_eq_sum_Pk {k x a : ℕ} (h : x < p (a + 1) ^ k) :
    phi x a = ∑ j ∈ range k, Pk j x a := by
  unfold phi
  rw [Finset.card_eq_sum_card_fiberwise (f := fun n => Ω n) (t := range k)]
  · rfl
  · intro n hn
    rw [mem_coe] at hn
    rw [mem_coe, mem_range]
    have h1 := pow_cardFactors_le hn
    have h2 : n ≤ x := (mem_phiSet_iff.1 hn).2.1
    by_contra hge
    push Not at hge
    have h3 : p (a + 1) ^ k ≤ p (a + 1) ^ Ω n := Nat.pow_le_pow_right (p_pos _) hge
    omega

theorem Pk_zero {x : ℕ} (a : ℕ) (hx : 1 ≤ x) : Pk 0 x a = 1 := by
  have : PkSet 0 x a = {1} := by
    ext n
    rw [mem_PkSet, mem_singleton, ArithmeticFunction.cardFactors_eq_zero_iff_eq_zero_or_one]
    constructor
    · rintro ⟨h1, h2 | h2⟩
      · have := (mem_phiSet_iff.1 h1).1; omega
      · exact h2
    · rintro rfl; exact ⟨one_mem_phiSet a hx, Or.inr rfl⟩
  unfold Pk; rw [this]; simp

theorem Pk_one (x a : ℕ) : Pk 1 x a = π x - a := by
  have : PkSet 1 x a = primesGt a x := by
    ext n
    rw [mem_PkSet, mem_primesGt, ArithmeticFunction.cardFactors_eq_one_iff_prime, mem_phiSet_iff]
    constructor
    · rintro ⟨⟨_, h2, h3⟩, hp⟩; exact ⟨hp, h3 n hp dvd_rfl, h2⟩
    · rintro ⟨hp, ha, hx⟩
      refine ⟨⟨hp.one_lt.le, hx, ?_⟩, hp⟩
      intro q hq hd
      rwa [(Nat.prime_dvd_prime_iff_eq hq hp).1 hd]
  unfold Pk; rw [this, card_primesGt]

/-- the Ω-based `P2` of DESIGN 5.1 is the `P2` of `Spec/Meissel.lean` -/
theorem Pk_two (x a : ℕ) : Pk 2 x a = P2 x a := by
  unfold Pk P2
  congr 1
  ext n
  rw [mem_PkSet, mem_P2set, mem_phiSet_iff]
  constructor
  · rintro ⟨⟨h1, h2, h3⟩, hΩ⟩
    refine ⟨h2, ?_⟩
    have hne : n ≠ 1 := by rintro rfl; simp at hΩ
    have hq := Nat.minFac_prime hne
    obtain ⟨m, hm⟩ := Nat.minFac_dvd n
    have hm0 : m ≠ 0 := by rintro rfl; omega
    have hΩ' : Ω n = Ω n.minFac + Ω m := by
      conv_lhs => rw [hm]
      exact ArithmeticFunction.cardFactors_mul hq.ne_zero hm0
    rw [ArithmeticFunction.cardFactors_apply_prime hq, hΩ] at hΩ'
    have hmp : m.Prime := ArithmeticFunction.cardFactors_eq_one_iff_prime.1 (by omega)
    refine ⟨n.minFac, m, hq, hmp, h3 _ hq (Nat.minFac_dvd n), ?_, hm⟩
    exact Nat.minFac_le_of_dvd hmp.two_le (Dvd.intro_left _ hm.symm)
  · rintro ⟨hle, q, r, hq, hr, ha, hqr, rfl⟩
    refine ⟨⟨Nat.mul_pos hq.pos hr.pos, hle, ?_⟩, ?_⟩
    · intro s hs hdvd
      rcases (Nat.Prime.dvd_mul hs).1 hdvd with h | h
      · rwa [(Nat.prime_dvd_prime_iff_eq hs hq).1 h]
      · rw [(Nat.prime_dvd_prime_iff_eq hs hr).1 h]
        exact lt_of_lt_of_le ha (pi_mono hqr)
    · rw [ArithmeticFunction.cardFactors_mul hq.ne_zero hr.ne_zero,
        ArithmeticFunction.cardFactors_apply_prime hq, ArithmeticFunction.cardFactors_apply_prime hr]

/-! ### the recurrence -/

lemma minFac_mul_of_mem_phiSet {q m y : ℕ} (hq : q.Prime) (hm : m ∈ phiSet y (π q - 1)) :
    (q * m).minFac = q := by
  rw [mem_phiSet_iff] at hm
  obtain ⟨h1, _, h3⟩ := hm
  have hne : q * m ≠ 1 := by
    have := hq.two_le; nlinarith
  have hmf := Nat.minFac_prime hne
  have hle : (q * m).minFac ≤ q := Nat.minFac_le_of_dvd hq.two_le (Dvd.intro m rfl)
  rcases (Nat.Prime.dvd_mul hmf).1 (Nat.minFac_dvd (q * m)) with h | h
  · exact (Nat.prime_dvd_prime_iff_eq hmf hq).1 h
  · have := h3 _ hmf h
    have h4 : π q ≤ π (q * m).minFac := by omega
    have := (prime_le_iff_pi_le hq hmf).2 h4
    omega

lemma PkSet_succ_eq_biUnion (k x a : ℕ) :
    PkSet (k + 1) x a = (primesGt a x).biUnion
      (fun q => (PkSet k (x / q) (π q - 1)).image (fun m => q * m)) := by
  ext n
  rw [mem_PkSet, mem_biUnion]
  constructor
  · rintro ⟨hn, hΩ⟩
    have hn' := mem_phiSet_iff.1 hn
    obtain ⟨h1, h2, h3⟩ := hn'
    have hne : n ≠ 1 := by rintro rfl; simp at hΩ
    have hq := Nat.minFac_prime hne
    obtain ⟨m, hm⟩ := Nat.minFac_dvd n
    have hm0 : m ≠ 0 := by rintro rfl; omega
    have hΩ' : Ω n = Ω n.minFac + Ω m := by
      conv_lhs => rw [hm]
      exact ArithmeticFunction.cardFactors_mul hq.ne_zero hm0
    rw [ArithmeticFunction.cardFactors_apply_prime hq, hΩ] at hΩ'
    refine ⟨n.minFac, ?_, ?_⟩
    · rw [mem_primesGt]
      exact ⟨hq, h3 _ hq (Nat.minFac_dvd n), le_trans (Nat.minFac_le h1) h2⟩
    · rw [mem_image]
      refine ⟨m, ?_, hm.symm⟩
      rw [mem_PkSet, mem_phiSet_iff]
      refine ⟨⟨Nat.pos_of_ne_zero hm0, ?_, ?_⟩, by omega⟩
      · rw [Nat.le_div_iff_mul_le hq.pos, mul_comm, ← hm]; exact h2
      · intro r hr hd
        have hrn : r ∣ n := by rw [hm]; exact Dvd.dvd.mul_left hd _
        have := pi_mono (Nat.minFac_le_of_dvd hr.two_le hrn)
        have := one_le_pi_of_prime hq
        omega
  · rintro ⟨q, hq, hn⟩
    rw [mem_primesGt] at hq
    obtain ⟨hq, ha, hqx⟩ := hq
    rw [mem_image] at hn
    obtain ⟨m, hm, rfl⟩ := hn
    rw [mem_PkSet, mem_phiSet_iff] at hm
    obtain ⟨⟨h1, h2, h3⟩, hΩ⟩ := hm
    have hm0 : m ≠ 0 := by omega
    refine ⟨?_, ?_⟩
    · rw [mem_phiSet_iff]
      refine ⟨Nat.mul_pos hq.pos h1, ?_, ?_⟩
      · have := (Nat.le_div_iff_mul_le hq.pos).1 h2
        rwa [mul_comm]
      · intro s hs hd
        rcases (Nat.Prime.dvd_mul hs).1 hd with h | h
        · rwa [(Nat.prime_dvd_prime_iff_eq hs hq).1 h]
        · have := h3 s hs h
          omega
    · rw [ArithmeticFunction.cardFactors_mul hq.ne_zero hm0,
        ArithmeticFunction.cardFactors_apply_prime hq, hΩ, add_comm]

/-- **recurrence**: `Pk (k+1) x a = Σ_{q prime, a < π q, q ≤ x} Pk k (x / q) (π q - 1)`
(split off the least prime factor) -/
theorem Pk_succ (k x a : ℕ) :
    Pk (k + 1) x a = ∑ q ∈ primesGt a x, Pk k (x / q) (π q - 1) := by
  unfold Pk
  rw [PkSet_succ_eq_biUnion, Finset.card_biUnion]
  · apply Finset.sum_congr rfl
    intro q hq
    rw [mem_primesGt] at hq
    rw [Finset.card_image_of_injective _ (fun r s h => Nat.eq_of_mul_eq_mul_left hq.1.pos h)]
  · intro q hq q' hq' hne
    rw [Function.onFun, Finset.disjoint_left]
    intro n hn hn'
    rw [mem_coe, mem_primesGt] at hq hq'
    rw [mem_image] at hn hn'
    obtain ⟨m, hm, rfl⟩ := hn
    obtain ⟨m', hm', h⟩ := hn'
    have e1 := minFac_mul_of_mem_phiSet hq.1 (mem_PkSet.1 hm).1
    have e2 := minFac_mul_of_mem_phiSet hq'.1 (mem_PkSet.1 hm').1
    rw [h, e1] at e2
    exact hne e2

/-- the recurrence over prime indices -/
theorem Pk_succ_index (k x a : ℕ) :
    Pk (k + 1) x a = ∑ i ∈ Ioc a (π x), Pk k (x / p i) (i - 1) := by
  rw [Pk_succ, sum_primesGt]
  apply Finset.sum_congr rfl
  intro i hi
  rw [mem_Ioc] at hi
  rw [pi_p (by omega)]

/-! ### Lehmer -/

/-- Lehmer's formula without subtraction: for `1 ≤ x < p (a+1) ^ 4`,
`phi x a = 1 + (π x - a) + P2 x a + P3 x a` -/
theorem phi_eq_of_lt_pow_four {x a : ℕ} (hx : 1 ≤ x) (hlt : x < p (a + 1) ^ 4) :
    phi x a = 1 + (π x - a) + P2 x a + P3 x a := by
  rw [phi_eq_sum_Pk hlt]
  simp only [Finset.sum_range_succ, Finset.sum_range_zero, zero_add]
  rw [Pk_zero a hx, Pk_one, Pk_two, P3]

/-- Lehmer's formula, additive form -/
theorem lehmer_add {x a : ℕ} (hx : 1 ≤ x) (ha : a ≤ π x) (hlt : x < p (a + 1) ^ 4) :
    π x + 1 + P2 x a + P3 x a = phi x a + a := by
  rw [phi_eq_of_lt_pow_four hx hlt]; omega

/-- **Lehmer's formula**: for `1 ≤ a`, `p a ≤ x < p (a+1) ^ 4`:
`π x = phi x a + a - 1 - P2 x a - P3 x a` -/
theorem lehmer {x a : ℕ} (ha : 1 ≤ a) (hle : p a ≤ x) (hlt : x < p (a + 1) ^ 4) :
    π x = phi x a + a - 1 - P2 x a - P3 x a := by
  have hx : 1 ≤ x := le_trans (p_pos a) hle
  have := lehmer_add hx ((p_le_iff ha).1 hle) hlt
  omega

/-- Lehmer's formula as used by `pi_lehmer.cpp`: `a = π y`, `y = ⌊x^{1/4}⌋` (`y^4 ≤ x < (y+1)^4`) -/
theorem lehmer_iroot4 {x y : ℕ} (hx : 1 ≤ x) (hy : y ^ 4 ≤ x) (hy' : x < (y + 1) ^ 4) :
    π x = phi x (π y) + π y - 1 - P2 x (π y) - P3 x (π y) := by
  have hyx : y ≤ x := by
    rcases Nat.eq_zero_or_pos y with h | h
    · omega
    · calc y = y ^ 1 := (pow_one y).symm
        _ ≤ y ^ 4 := Nat.pow_le_pow_right h (by omega)
        _ ≤ x := hy
  have h1 : y + 1 ≤ p (π y + 1) := lt_p_pi_succ y
  have := lehmer_add hx (pi_mono hyx) (lt_of_lt_of_le hy' (Nat.pow_le_pow_left h1 4))
  omega

/-! ### the double sum of `P3.cpp` -/

lemma P2_div_eq_zero {x i : ℕ} (hi : 1 ≤ i) (h : x < p i ^ 3) : P2 (x / p i) (i - 1) = 0 := by
  rw [P2_sum_index]
  apply Finset.sum_eq_zero
  intro j hj
  exfalso
  rw [mem_Ioc] at hj
  have h1 : Nat.sqrt (x / p i) < p i := by
    rw [Nat.sqrt_lt, Nat.div_lt_iff_lt_mul (p_pos i)]
    calc x < p i ^ 3 := h
      _ = p i * p i * p i := by ring
  have := (lt_p_iff hi).1 h1
  omega

/-- `P3 x a = Σ_{a < i ≤ M} P2 (x / p i) (i - 1)` for any `M` with `x < p (M+1) ^ 3` -/
theorem P3_eq_sum_P2 {x a M : ℕ} (hM : x < p (M + 1) ^ 3) :
    P3 x a = ∑ i ∈ Ioc a M, P2 (x / p i) (i - 1) := by
  unfold P3
  rw [Pk_succ_index]
  simp only [Pk_two]
  have hvan : ∀ i ∈ Ioc a (max M (π x)), x < p i ^ 3 ∨ i ∈ Ioc a M ∧ i ∈ Ioc a (π x) := by
    intro i hi
    rw [mem_Ioc] at hi
    by_cases h1 : i ≤ M
    · by_cases h2 : i ≤ π x
      · right; exact ⟨mem_Ioc.2 ⟨hi.1, h1⟩, mem_Ioc.2 ⟨hi.1, h2⟩⟩
      · left
        have : x < p i := (lt_p_iff (by omega)).2 (by omega)
        calc x < p i := this
          _ = p i ^ 1 := (pow_one _).symm
          _ ≤ p i ^ 3 := Nat.pow_le_pow_right (p_pos i) (by omega)
    · left
      exact lt_of_lt_of_le hM (Nat.pow_le_pow_left (p_le_p (by omega)) 3)
  have e1 : ∑ i ∈ Ioc a (π x), P2 (x / p i) (i - 1)
      = ∑ i ∈ Ioc a (max M (π x)), P2 (x / p i) (i - 1) := by
    apply Finset.sum_subset
    · intro i hi; rw [mem_Ioc] at hi ⊢; exact ⟨hi.1, le_trans hi.2 (le_max_right _ _)⟩
    · intro i hi hni
      rcases hvan i hi with h | h
      · exact P2_div_eq_zero (by rw [mem_Ioc] at hi; omega) h
      · exact absurd h.2 hni
  have e2 : ∑ i ∈ Ioc a M, P2 (x / p i) (i - 1)
      = ∑ i ∈ Ioc a (max M (π x)), P2 (x / p i) (i - 1) := by
    apply Finset.sum_subset
    · intro i hi; rw [mem_Ioc] at hi ⊢; exact ⟨hi.1, le_trans hi.2 (le_max_left _ _)⟩
    · intro i hi hni
      rcases hvan i hi with h | h
      · exact P2_div_eq_zero (by rw [mem_Ioc] at hi; omega) h
      · exact absurd h.1 hni
  rw [e1, e2]

/-- **the sum computed by `src/P3.cpp`**: with `c = ⌊x^{1/3}⌋` (only `x < (c+1)^3` is needed),
`P3 x a = Σ_{i = a+1}^{π c} Σ_{j = i}^{π ⌊√(x / p i)⌋} (π (x / p i / p j) - (j - 1))`. -/
theorem P3_sum {x a c : ℕ} (hc : x < (c + 1) ^ 3) :
    P3 x a = ∑ i ∈ Ioc a (π c), ∑ j ∈ Icc i (π (Nat.sqrt (x / p i))),
      (π (x / p i / p j) - (j - 1)) := by
  rw [P3_eq_sum_P2 (lt_p_succ_cube hc)]
  apply Finset.sum_congr rfl
  intro i hi
  rw [mem_Ioc] at hi
  rw [P2_sum_index]
  have : Ioc (i - 1) (π (Nat.sqrt (x / p i))) = Icc i (π (Nat.sqrt (x / p i))) := by
    ext j; rw [mem_Ioc, mem_Icc]; omega
  rw [this]
  apply Finset.sum_congr rfl
  intro j hj
  rw [mem_Icc] at hj
  have h1 : 1 ≤ j := by omega
  have h2 : j ≤ π (x / p i / p j) := by
    rw [← p_le_iff h1, Nat.le_div_iff_mul_le (p_pos j)]
    exact Nat.le_sqrt.1 ((p_le_iff h1).2 hj.2)
  omega

end Pc.Spec
