/-
L0 spec vocabulary shared by all properties: the prime sequence `p`, the partial sieve function `phi`
(Legendre sum), the Legendre recurrence `phi_rec` and the generalised LMO identity `lmo_general`
(ordinary + special leaves for any cut-off `z` and stop level `b`; leaves indexed by subsets of prime
indices, sign (-1)^|S|).  DESIGN.md 5.1 / Appendix A.4.
-/
import Mathlib.NumberTheory.PrimeCounting
import Mathlib.Tactic

namespace Pc.Spec

open Finset Nat Classical

noncomputable def p (i : ℕ) : ℕ := Nat.nth Nat.Prime (i - 1)

noncomputable def phiSet (x a : ℕ) : Finset ℕ :=
  (Icc 1 x).filter (fun n => ∀ i, 1 ≤ i → i ≤ a → ¬ p i ∣ n)

noncomputable def phi (x a : ℕ) : ℕ := (phiSet x a).card

lemma p_prime {i : ℕ} (_hi : 1 ≤ i) : (p i).Prime := Nat.prime_nth_prime _

lemma p_inj {i j : ℕ} (hi : 1 ≤ i) (hj : 1 ≤ j) (h : p i = p j) : i = j := by
  unfold p at h
  have := Nat.nth_injective Nat.infinite_setOfPred_prime h
  omega

theorem phi_rec (x a : ℕ) (ha : 1 ≤ a) :
    phi x a + phi (x / p a) (a - 1) = phi x (a - 1) := by
  have hp := p_prime ha
  unfold phi
  -- split phiSet x (a-1) by divisibility by p a
  have hsplit : phiSet x (a - 1) =
      phiSet x a ∪ (phiSet (x / p a) (a - 1)).image (fun m => p a * m) := by
    ext n
    simp only [phiSet, mem_union, mem_filter, mem_Icc, mem_image]
    constructor
    · rintro ⟨⟨h1, hx⟩, hnd⟩
      by_cases hdiv : p a ∣ n
      · right
        obtain ⟨m, rfl⟩ := hdiv
        refine ⟨m, ⟨⟨?_, ?_⟩, ?_⟩, rfl⟩
        · rcases Nat.eq_zero_or_pos m with h | h
          · simp [h] at h1
          · exact h
        · exact (Nat.le_div_iff_mul_le hp.pos).2 (by rwa [mul_comm] at hx)
        · intro i hi hia hdvd
          exact hnd i hi hia (Dvd.dvd.mul_left hdvd _)
      · left
        refine ⟨⟨h1, hx⟩, ?_⟩
        intro i hi hia
        rcases Nat.lt_or_ge i a with h | h
        · exact hnd i hi (by omega)
        · have : i = a := by omega
          subst this; exact hdiv
    · rintro (⟨⟨h1, hx⟩, hnd⟩ | ⟨m, ⟨⟨h1, hx⟩, hnd⟩, rfl⟩)
      · exact ⟨⟨h1, hx⟩, fun i hi hia => hnd i hi (by omega)⟩
      · refine ⟨⟨Nat.mul_pos hp.pos h1, ?_⟩, ?_⟩
        · have := (Nat.le_div_iff_mul_le hp.pos).1 hx
          rwa [mul_comm]
        · intro i hi hia hdvd
          have hpi := p_prime hi
          rcases (Nat.Prime.dvd_mul hpi).1 hdvd with h | h
          · have := (Nat.prime_dvd_prime_iff_eq hpi hp).1 h
            have := p_inj hi ha this
            omega
          · exact hnd i hi hia h
  have hdisj : Disjoint (phiSet x a) ((phiSet (x / p a) (a - 1)).image (fun m => p a * m)) := by
    rw [Finset.disjoint_left]
    intro n hn hn'
    simp only [phiSet, mem_filter, mem_image] at hn hn'
    obtain ⟨m, _, rfl⟩ := hn'
    exact hn.2 a ha le_rfl (Dvd.intro m rfl)
  rw [hsplit, card_union_of_disjoint hdisj, Finset.card_image_of_injective]
  intro m1 m2 h
  exact Nat.eq_of_mul_eq_mul_left hp.pos h

theorem phi_rec' (x a : ℕ) (ha : 1 ≤ a) : phi x a + phi (x / p a) (a - 1) = phi x (a - 1) := phi_rec x a ha

/-- product of the primes with indices in S -/
noncomputable def prodP (S : Finset ℕ) : ℕ := ∏ i ∈ S, p i

/-- ordinary leaves at level b: subsets of (b, a] with product ≤ z -/
noncomputable def ord (x z b a : ℕ) : ℤ :=
  ∑ S ∈ (Ioc b a).powerset.filter (fun S => prodP S ≤ z),
    (-1 : ℤ) ^ S.card * (phi (x / prodP S) b : ℤ)

/-- the special leaves whose first prime has index b' -/
noncomputable def specTerm (x z b' a : ℕ) : ℤ :=
  ∑ S ∈ (Ioc b' a).powerset.filter (fun S => prodP S ≤ z ∧ z < prodP S * p b'),
    (-1 : ℤ) ^ S.card * (phi (x / (prodP S * p b')) (b' - 1) : ℤ)

noncomputable def spec (x z b a : ℕ) : ℤ := - ∑ b' ∈ Ioc b a, specTerm x z b' a

lemma prodP_insert {S : Finset ℕ} {i : ℕ} (h : i ∉ S) : prodP (insert i S) = prodP S * p i := by
  unfold prodP; rw [Finset.prod_insert h, mul_comm]

lemma p_pos (i : ℕ) : 0 < p i := (Nat.prime_nth_prime _).pos

theorem lmo_step (x z b a : ℕ) (hz : 1 ≤ z) (hba : b < a) :
    ord x z (b+1) a + spec x z (b+1) a = ord x z b a + spec x z b a := by
  set T := Ioc (b+1) a with hT
  have hIoc : Ioc b a = insert (b+1) T := by
    ext i; simp [hT, mem_Ioc]; omega
  have hnot : (b+1) ∉ T := by simp [hT]
  -- spec b = spec (b+1) - specTerm (b+1)
  have hspec : spec x z b a = spec x z (b+1) a - specTerm x z (b+1) a := by
    unfold spec
    rw [hIoc, Finset.sum_insert hnot]; ring
  -- ord b splits over subsets not containing / containing b+1
  have hpow : (Ioc b a).powerset = T.powerset ∪ T.powerset.image (insert (b+1)) := by
    rw [hIoc, Finset.powerset_insert]
  have hdisj : Disjoint (T.powerset.filter (fun S => prodP S ≤ z))
      ((T.powerset.image (insert (b+1))).filter (fun S => prodP S ≤ z)) := by
    rw [Finset.disjoint_left]
    intro S hS hS'
    simp only [mem_filter, mem_powerset, mem_image] at hS hS'
    obtain ⟨⟨U, _, rfl⟩, _⟩ := hS'
    exact hnot (hS.1 (mem_insert_self _ _))
  have hord : ord x z b a =
      ∑ S ∈ T.powerset.filter (fun S => prodP S ≤ z), (-1 : ℤ) ^ S.card * (phi (x / prodP S) b : ℤ)
      + ∑ S ∈ T.powerset.filter (fun S => prodP S * p (b+1) ≤ z),
          (-1 : ℤ) ^ (S.card + 1) * (phi (x / (prodP S * p (b+1))) b : ℤ) := by
    unfold ord
    rw [hpow, Finset.filter_union, Finset.sum_union hdisj]
    congr 1
    rw [Finset.filter_image, Finset.sum_image]
    · apply Finset.sum_congr
      · ext S
        simp only [mem_filter, mem_powerset]
        constructor
        · rintro ⟨hS, h⟩
          have : (b+1) ∉ S := fun hh => hnot (hS hh)
          rw [prodP_insert this] at h
          exact ⟨hS, h⟩
        · rintro ⟨hS, h⟩
          have : (b+1) ∉ S := fun hh => hnot (hS hh)
          rw [prodP_insert this]
          exact ⟨hS, h⟩
      · intro S hS
        simp only [mem_filter, mem_powerset] at hS
        have : (b+1) ∉ S := fun hh => hnot (hS.1 hh)
        rw [prodP_insert this, Finset.card_insert_of_notMem this]
    · intro S hS U hU h
      simp only [mem_filter, mem_powerset, coe_filter, Set.mem_setOf_eq] at hS hU
      have h1 : (b+1) ∉ S := fun hh => hnot (hS.1 hh)
      have h2 : (b+1) ∉ U := fun hh => hnot (hU.1 hh)
      have := congrArg (fun V => V.erase (b+1)) h
      simpa [Finset.erase_insert h1, Finset.erase_insert h2] using this
  -- ord (b+1) via phi_rec
  have hord1 : ord x z (b+1) a =
      ∑ S ∈ T.powerset.filter (fun S => prodP S ≤ z), (-1 : ℤ) ^ S.card * (phi (x / prodP S) b : ℤ)
      - ∑ S ∈ T.powerset.filter (fun S => prodP S ≤ z),
          (-1 : ℤ) ^ S.card * (phi (x / (prodP S * p (b+1))) b : ℤ) := by
    unfold ord
    rw [← Finset.sum_sub_distrib]
    apply Finset.sum_congr rfl
    intro S _
    have := phi_rec' (x / prodP S) (b+1) (by omega)
    simp only [Nat.add_sub_cancel, Nat.div_div_eq_div_mul] at this
    have hc : (phi (x / prodP S) (b+1) : ℤ) = phi (x / prodP S) b - phi (x / (prodP S * p (b+1))) b := by
      have := congrArg (fun n : ℕ => (n : ℤ)) this
      push_cast at this; linarith
    rw [hc]; ring
  -- split the subtracted sum by  P*p ≤ z  or  z < P*p
  have hsplit : ∑ S ∈ T.powerset.filter (fun S => prodP S ≤ z),
          (-1 : ℤ) ^ S.card * (phi (x / (prodP S * p (b+1))) b : ℤ)
      = ∑ S ∈ T.powerset.filter (fun S => prodP S * p (b+1) ≤ z),
          (-1 : ℤ) ^ S.card * (phi (x / (prodP S * p (b+1))) b : ℤ)
        + specTerm x z (b+1) a := by
    unfold specTerm
    rw [← Finset.sum_filter_add_sum_filter_not (T.powerset.filter (fun S => prodP S ≤ z))
          (fun S => prodP S * p (b+1) ≤ z)]
    congr 1
    · apply Finset.sum_congr _ (fun _ _ => rfl)
      ext S
      simp only [mem_filter, mem_powerset]
      constructor
      · rintro ⟨⟨hS, _⟩, h⟩; exact ⟨hS, h⟩
      · rintro ⟨hS, h⟩
        refine ⟨⟨hS, ?_⟩, h⟩
        calc prodP S = prodP S * 1 := (mul_one _).symm
          _ ≤ prodP S * p (b+1) := Nat.mul_le_mul_left _ (p_pos _)
          _ ≤ z := h
    · apply Finset.sum_congr
      · ext S
        simp only [mem_filter, mem_powerset, not_le, hT]
        tauto
      · intro S _; simp
  rw [hord, hord1, hspec, hsplit]
  have : ∀ (f : Finset ℕ → ℤ) (s : Finset (Finset ℕ)),
      ∑ S ∈ s, (-1 : ℤ) ^ (S.card + 1) * f S = - ∑ S ∈ s, (-1 : ℤ) ^ S.card * f S := by
    intro f s
    rw [← Finset.sum_neg_distrib]
    apply Finset.sum_congr rfl; intro S _; ring
  rw [this]
  ring

theorem lmo_general (x z a : ℕ) (hz : 1 ≤ z) :
    ∀ d b, b + d = a → (phi x a : ℤ) = ord x z b a + spec x z b a := by
  intro d
  induction d with
  | zero =>
    intro b hb
    have : b = a := by omega
    subst this
    have hf : ({∅} : Finset (Finset ℕ)).filter (fun S => prodP S ≤ z) = {∅} := by
      apply Finset.filter_true_of_mem
      intro S hS
      rw [Finset.mem_singleton] at hS
      subst hS
      simpa [prodP] using hz
    unfold ord spec
    rw [Finset.Ioc_self, Finset.powerset_empty, hf]
    simp [prodP]
  | succ d ih =>
    intro b hb
    rw [← lmo_step x z b a hz (by omega)]
    exact ih (b+1) (by omega)

end Pc.Spec
