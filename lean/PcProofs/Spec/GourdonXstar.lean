/-
L0 spec library, Gourdon part 5: the `x⋆` of `get_x_star_gourdon` (`src/util.cpp`) satisfies the
hypotheses of `GParams` on the domain `x^{1/3} < y ≤ √x`; hence `pi_gourdon` holds for the parameters
the C++ code computes (for `x` large enough that the clamps of `pi_gourdon.cpp` yield
`x^{1/3} < y ≤ z < √x`, i.e. `x ≥ 16`).
-/
import PcProofs.Spec.GourdonMain

namespace Pc.Spec

open Finset Nat Classical
open scoped Nat.Prime

/-- `get_x_star_gourdon(x, y)` with `r4 = iroot<4>(x)`:
`max(min(min(max(r4, ceil_div(x, y*y)), y), isqrt(x / y)), 1)` -/
def xstar (x y r4 : ℕ) : ℕ :=
  max (min (min (max r4 ((x + y * y - 1) / (y * y))) y) (Nat.sqrt (x / y))) 1

section

variable {x y r4 : ℕ}

private lemma y_facts (hy3 : x < y ^ 3) (hy2 : y * y ≤ x) : 2 ≤ y := by
  by_contra h
  push Not at h
  interval_cases y <;> omega

lemma sqrt_div_lt (hy3 : x < y ^ 3) (hy2 : y * y ≤ x) : Nat.sqrt (x / y) < y := by
  have hy := y_facts hy3 hy2
  rw [Nat.sqrt_lt, Nat.div_lt_iff_lt_mul (by omega)]
  calc x < y ^ 3 := hy3
    _ = y * y * y := by ring

lemma one_le_sqrt_div (hy3 : x < y ^ 3) (hy2 : y * y ≤ x) : 1 ≤ Nat.sqrt (x / y) := by
  have hy := y_facts hy3 hy2
  rw [Nat.le_sqrt, Nat.le_div_iff_mul_le (by omega)]
  nlinarith

lemma lt_succ_sqrt_div_sq_mul (hy : 0 < y) :
    x < (Nat.sqrt (x / y) + 1) * (Nat.sqrt (x / y) + 1) * y := by
  have h1 := Nat.lt_succ_sqrt (x / y)
  have h2 : x / y + 1 ≤ (Nat.sqrt (x / y) + 1) * (Nat.sqrt (x / y) + 1) := h1
  have h3 : x < (x / y + 1) * y := by
    have := Nat.div_add_mod x y
    have := Nat.mod_lt x hy
    nlinarith
  calc x < (x / y + 1) * y := h3
    _ ≤ (Nat.sqrt (x / y) + 1) * (Nat.sqrt (x / y) + 1) * y := Nat.mul_le_mul_right _ h2

/-- the three facts about `x⋆` needed by `GParams` -/
theorem xstar_spec (hy3 : x < y ^ 3) (hy2 : y * y ≤ x) (hr4 : 1 ≤ r4) (hr4' : x < (r4 + 1) ^ 4) :
    x < (xstar x y r4 + 1) ^ 4 ∧ x < (xstar x y r4 + 1) * (y * y)
      ∧ xstar x y r4 ≤ Nat.sqrt (x / y) := by
  have hy := y_facts hy3 hy2
  have hs1 := one_le_sqrt_div hy3 hy2
  have hsy := sqrt_div_lt hy3 hy2
  set s := Nat.sqrt (x / y) with hs
  set M := max r4 ((x + y * y - 1) / (y * y)) with hM
  have hM1 : 1 ≤ M := le_trans hr4 (le_max_left _ _)
  have hmin1 : 1 ≤ min (min M y) s := le_min (le_min hM1 (by omega)) hs1
  have hw : xstar x y r4 = min (min M y) s := by
    unfold xstar; rw [max_eq_left hmin1]
  rw [hw]
  have hyy : 0 < y * y := Nat.mul_pos (by omega) (by omega)
  -- the two properties for each candidate
  have hss := lt_succ_sqrt_div_sq_mul (x := x) (y := y) (by omega)
  rw [← hs] at hss
  have hys : y ≤ (s + 1) * (s + 1) := by
    have h1 := Nat.lt_succ_sqrt (x / y)
    have h2 : y ≤ x / y := (Nat.le_div_iff_mul_le (by omega)).2 hy2
    rw [← hs] at h1
    exact le_trans h2 h1.le
  have Q_M : x < (M + 1) ^ 4 :=
    lt_of_lt_of_le hr4' (Nat.pow_le_pow_left (Nat.succ_le_succ (le_max_left _ _)) 4)
  have Q_y : x < (y + 1) ^ 4 := by
    calc x < y ^ 3 := hy3
      _ ≤ (y + 1) ^ 3 := Nat.pow_le_pow_left (Nat.le_succ y) 3
      _ ≤ (y + 1) ^ 4 := Nat.pow_le_pow_right (by omega) (by omega)
  have Q_s : x < (s + 1) ^ 4 := by
    calc x < (s + 1) * (s + 1) * y := hss
      _ ≤ (s + 1) * (s + 1) * ((s + 1) * (s + 1)) := Nat.mul_le_mul_left _ hys
      _ = (s + 1) ^ 4 := by ring
  have R_M : x < (M + 1) * (y * y) := by
    have h1 : x / (y * y) ≤ M := by
      apply le_trans _ (le_max_right _ _)
      apply Nat.div_le_div_right
      omega
    have h3 : x < (x / (y * y) + 1) * (y * y) := by
      have := Nat.div_add_mod x (y * y)
      have := Nat.mod_lt x hyy
      nlinarith
    calc x < (x / (y * y) + 1) * (y * y) := h3
      _ ≤ (M + 1) * (y * y) := Nat.mul_le_mul_right _ (Nat.succ_le_succ h1)
  have R_y : x < (y + 1) * (y * y) := by
    calc x < y ^ 3 := hy3
      _ = y * (y * y) := by ring
      _ ≤ (y + 1) * (y * y) := Nat.mul_le_mul_right _ (Nat.le_succ y)
  have R_s : x < (s + 1) * (y * y) := by
    calc x < (s + 1) * (s + 1) * y := hss
      _ = (s + 1) * ((s + 1) * y) := by ring
      _ ≤ (s + 1) * (y * y) := Nat.mul_le_mul_left _ (Nat.mul_le_mul_right _ hsy)
  refine ⟨?_, ?_, min_le_right _ _⟩
  · rcases min_choice (min M y) s with h | h
    · rw [h]
      rcases min_choice M y with h' | h' <;> rw [h']
      · exact Q_M
      · exact Q_y
    · rw [h]; exact Q_s
  · rcases min_choice (min M y) s with h | h
    · rw [h]
      rcases min_choice M y with h' | h' <;> rw [h']
      · exact R_M
      · exact R_y
    · rw [h]; exact R_s

/-- `iroot<4>(x) ≤ x⋆`, hence `k = get_k(x) = min(π(iroot<4>(x)), 8) ≤ π x⋆` -/
theorem r4_le_xstar (hy3 : x < y ^ 3) (hy2 : y * y ≤ x) (hr4 : r4 ^ 4 ≤ x) :
    r4 ≤ xstar x y r4 := by
  have hy := y_facts hy3 hy2
  unfold xstar
  apply le_trans _ (le_max_left _ _)
  refine le_min (le_min (le_max_left _ _) ?_) ?_
  · -- r4 ≤ y
    by_contra h
    push Not at h
    have h1 : y ^ 4 ≤ r4 ^ 4 := Nat.pow_le_pow_left h.le 4
    have h2 : y ^ 3 ≤ y ^ 4 := Nat.pow_le_pow_right (by omega) (by omega)
    omega
  · -- r4 ≤ √(x / y)
    rw [Nat.le_sqrt, Nat.le_div_iff_mul_le (by omega)]
    -- (r4² y)² ≤ r4⁴ y² ≤ x · x
    by_contra h
    push Not at h
    have h1 : x * x < (r4 * r4 * y) * (r4 * r4 * y) := Nat.mul_lt_mul'' h h
    have h2 : (r4 * r4 * y) * (r4 * r4 * y) = r4 ^ 4 * (y * y) := by ring
    have h3 : r4 ^ 4 * (y * y) ≤ x * x := Nat.mul_le_mul hr4 hy2
    omega

end

/-- `GParams` for the parameters computed by `pi_gourdon.cpp` / `get_x_star_gourdon`:
`c3 = iroot<3>(x)`, `r4 = iroot<4>(x)`, `c3 < y`, `y ≤ z`, `y*y ≤ x`, `z*z ≤ x`,
`w = x⋆ = xstar x y r4`, `k ≤ π r4`. -/
theorem GParams.of_xstar {x y z k c3 r4 : ℕ} (hc3 : c3 ^ 3 ≤ x) (hc3' : x < (c3 + 1) ^ 3)
    (hr4 : r4 ^ 4 ≤ x) (hr4' : x < (r4 + 1) ^ 4) (hy : c3 < y) (hy2 : y * y ≤ x)
    (hyz : y ≤ z) (hz : z * z ≤ x) (hk : k ≤ π r4) :
    GParams x y z k (xstar x y r4) c3 := by
  have hy3 : x < y ^ 3 := lt_of_lt_of_le hc3' (Nat.pow_le_pow_left hy 3)
  have hx : 1 ≤ x := by
    have : 2 ≤ y := y_facts hy3 hy2
    nlinarith
  have hr1 : 1 ≤ r4 := by
    rcases Nat.eq_zero_or_pos r4 with h | h
    · rw [h] at hr4'; simp at hr4'; omega
    · exact h
  obtain ⟨h1, h2, h3⟩ := xstar_spec hy3 hy2 hr1 hr4'
  exact ⟨hy3, hy2, hyz, hz, hc3, hc3', h1, h2, h3,
    le_trans hk (pi_mono (r4_le_xstar hy3 hy2 hr4))⟩

/-- non-vacuity: the hypotheses are satisfiable, e.g. `x = 1000`, `y = 12`, `z = 20` -/
example : GParams 1000 12 20 2 (xstar 1000 12 5) 10 :=
  GParams.of_xstar (by norm_num) (by norm_num) (by norm_num) (by norm_num) (by norm_num)
    (by norm_num) (by norm_num) (by norm_num) (by
      have : π 5 = 3 := by decide
      omega)

end Pc.Spec
