/-
L0 spec library, Deleglise-Rivat: `dr_split : S2 = S2_trivial + S2_easy + S2_hard` (DESIGN.md 5.1)
with the leaf classes of `src/deleglise-rivat/S2_trivial.cpp`, `S2_easy*.cpp`, `S2_hard.cpp`:

* levels `b ≤ π ⌊√y⌋` : all leaves are hard;
* levels `b > π ⌊√y⌋` : every `m` is a prime `r = p j`, `b < j ≤ π y`, and the leaf `(q, r)`, `q = p b`, is
  - trivial if `x < q² r`        (value `1`),
  - easy    if `q² r ≤ x` and `x / y < q r`   (value `π (x / (q r)) - b + 2`),
  - hard    if `q r ≤ x / y`     (value `phi (x / (q r)) (b - 1)`).

The easy/hard boundary is the one of the C++ code (`S2_easy.cpp`: `l > pi[z / prime]`, `S2_hard.cpp`:
`l ≤ pi[min(x / prime², z / prime)]`, `z = x / y`), i.e. `q r > z` is easy and `q r ≤ z` is hard.  (An earlier
version of this file used `x / (q r) ≤ y` for "easy", which differs from the code exactly on the leaves with
`x / (q r) = y`; both splits are valid, the executable reference `PcModel/Formulas.lean` and the code use this
one.)

Also the counting formula used by `S2_trivial.cpp` and the two facts that justify its/`S2_easy`'s loop
bounds (no trivial leaf with `q² ≤ x / y`, no easy leaf with `x < q³`).
-/
import PcProofs.Spec.Leaves

namespace Pc.Spec

open Finset Nat Classical
open scoped Nat.Prime

/-- number of trivial leaves -/
noncomputable def S2_trivial (x y c : ℕ) : ℤ :=
  ∑ b ∈ Ioc (max c (π (Nat.sqrt y))) (π y),
    (((Ioc b (π y)).filter (fun j => x < p b * p b * p j)).card : ℤ)

/-- contribution of the easy leaves -/
noncomputable def S2_easy (x y c : ℕ) : ℤ :=
  ∑ b ∈ Ioc (max c (π (Nat.sqrt y))) (π y),
    ∑ j ∈ (Ioc b (π y)).filter (fun j => p b * p b * p j ≤ x ∧ x / y < p b * p j),
      ((π (x / (p b * p j)) : ℤ) - b + 2)

/-- contribution of the hard leaves -/
noncomputable def S2_hard (x y c : ℕ) : ℤ :=
  - ∑ b ∈ Ioc c (max c (π (Nat.sqrt y))), specTerm x y b (π y)
  + ∑ b ∈ Ioc (max c (π (Nat.sqrt y))) (π y),
      ∑ j ∈ (Ioc b (π y)).filter (fun j => p b * p j ≤ x / y),
        (phi (x / (p b * p j)) (b - 1) : ℤ)

/-- levels beyond `π √y`: the special leaves are the pairs of primes `(p b, p j)`, `b < j ≤ π y` -/
theorem specTerm_beyond_sqrt {x y b : ℕ} (hb : π (Nat.sqrt y) < b) (hby : b ≤ π y) :
    specTerm x y b (π y) = - ∑ j ∈ Ioc b (π y), (phi (x / (p b * p j)) (b - 1) : ℤ) := by
  have hb1 : 1 ≤ b := by omega
  have hq : Nat.sqrt y < p b := (lt_p_iff hb1).2 hb
  have hqy : p b ≤ y := (p_le_iff hb1).2 hby
  have hsq : y < p b * p b := Nat.sqrt_lt.1 hq
  have hz2 : y < p (b + 1) ^ 2 := by
    have : p b ≤ p (b + 1) := p_le_p (by omega)
    calc y < p b * p b := hsq
      _ ≤ p (b + 1) * p (b + 1) := Nat.mul_le_mul this this
      _ = p (b + 1) ^ 2 := (pow_two _).symm
  rw [specTerm_eq_sum_primes hqy hz2]
  congr 1
  have : (primesGt b y).filter (fun r => π r ≤ π y ∧ y / p b < r) = primesGt b y := by
    apply Finset.filter_true_of_mem
    intro r hr
    rw [mem_primesGt] at hr
    refine ⟨pi_mono hr.2.2, ?_⟩
    have hqr : p b < r := (lt_pi_iff_p_lt hb1 hr.1).1 hr.2.1
    rw [Nat.div_lt_iff_lt_mul (p_pos b)]
    calc y < p b * p b := hsq
      _ ≤ r * p b := Nat.mul_le_mul_right _ hqr.le
  rw [this, sum_primesGt]
  apply Finset.sum_congr rfl
  intro j _
  rw [mul_comm]

/-- **`dr_split`**: `S2 = S2_trivial + S2_easy + S2_hard` for `y² ≤ x`, `c ≤ π y` -/
theorem dr_split {x y c : ℕ} (hy2 : y * y ≤ x) (hc : c ≤ π y) :
    S2 x y c = S2_trivial x y c + S2_easy x y c + S2_hard x y c := by
  unfold S2 spec S2_trivial S2_easy S2_hard
  set a := π y with ha
  set s := max c (π (Nat.sqrt y)) with hs
  have hcs : c ≤ s := le_max_left _ _
  have hsa : s ≤ a := max_le hc (pi_mono (Nat.sqrt_le_self y))
  rw [← Finset.sum_Ioc_consecutive _ hcs hsa]
  have key : ∀ b ∈ Ioc s a, - specTerm x y b a
      = (((Ioc b a).filter (fun j => x < p b * p b * p j)).card : ℤ)
        + ∑ j ∈ (Ioc b a).filter (fun j => p b * p b * p j ≤ x ∧ x / y < p b * p j),
            ((π (x / (p b * p j)) : ℤ) - b + 2)
        + ∑ j ∈ (Ioc b a).filter (fun j => p b * p j ≤ x / y),
            (phi (x / (p b * p j)) (b - 1) : ℤ) := by
    intro b hb
    rw [mem_Ioc] at hb
    have hsb : π (Nat.sqrt y) < b := lt_of_le_of_lt (le_max_right _ _) hb.1
    have hb1 : 1 ≤ b := by omega
    have hq : Nat.sqrt y < p b := (lt_p_iff hb1).2 hsb
    have hqy : p b ≤ y := (p_le_iff hb1).2 hb.2
    have hsq : y < p b * p b := Nat.sqrt_lt.1 hq
    rw [specTerm_beyond_sqrt hsb hb.2, neg_neg]
    -- split the j-range into the three classes
    rw [← Finset.sum_filter_add_sum_filter_not (Ioc b a) (fun j => x < p b * p b * p j)]
    rw [← Finset.sum_filter_add_sum_filter_not
      ((Ioc b a).filter (fun j => ¬ x < p b * p b * p j)) (fun j => x / y < p b * p j)]
    rw [Finset.filter_filter, Finset.filter_filter, ← add_assoc]
    congr 1
    congr 1
    · -- trivial
      rw [Finset.card_eq_sum_ones, Nat.cast_sum]
      apply Finset.sum_congr rfl
      intro j hj
      rw [mem_filter, mem_Ioc] at hj
      obtain ⟨⟨h1, h2⟩, h3⟩ := hj
      have hj1 : 1 ≤ j := by omega
      have hqr : p b < p j := p_lt_p hb1 h1
      have hry : p j ≤ y := (p_le_iff hj1).2 h2
      have hpos : 0 < p b * p j := Nat.mul_pos (p_pos b) (p_pos j)
      have e1 : 1 ≤ x / (p b * p j) := by
        apply Nat.div_pos _ hpos
        calc p b * p j ≤ y * y := Nat.mul_le_mul hqy hry
          _ ≤ x := hy2
      have e2 : x / (p b * p j) < p b := by
        rw [Nat.div_lt_iff_lt_mul hpos]
        calc x < p b * p b * p j := h3
          _ = p b * (p b * p j) := by ring
      rw [phi_leaf_trivial hb1 e1 e2]
    · -- easy
      apply Finset.sum_congr
      · apply Finset.filter_congr
        intro j _
        rw [not_lt]
      · intro j hj
        rw [mem_filter, mem_Ioc] at hj
        obtain ⟨⟨h1, h2⟩, h3, h4⟩ := hj
        have hpos : 0 < p b * p j := Nat.mul_pos (p_pos b) (p_pos j)
        apply phi_leaf_easy' hb1
        · rw [Nat.le_div_iff_mul_le hpos]
          calc p b * (p b * p j) = p b * p b * p j := by ring
            _ ≤ x := h3
        · have hy0 : 0 < y := lt_of_lt_of_le (p_pos b) hqy
          have h5 : x / (p b * p j) < y := by
            rw [Nat.div_lt_iff_lt_mul hpos, mul_comm]
            exact (Nat.div_lt_iff_lt_mul hy0).1 h4
          calc x / (p b * p j) ≤ y := h5.le
            _ < p b * p b := hsq
            _ = p b ^ 2 := (pow_two _).symm
    · -- hard
      apply Finset.sum_congr _ (fun _ _ => rfl)
      ext j
      simp only [mem_filter, mem_Ioc, not_lt]
      constructor
      · rintro ⟨h1, _, h3⟩; exact ⟨h1, h3⟩
      · rintro ⟨h1, h3⟩
        refine ⟨h1, ?_, h3⟩
        have hy0 : 0 < y := lt_of_lt_of_le (p_pos b) hqy
        have := (Nat.le_div_iff_mul_le hy0).1 h3
        calc p b * p b * p j = p b * p j * p b := by ring
          _ ≤ p b * p j * y := Nat.mul_le_mul_left _ hqy
          _ ≤ x := this
  have e : - ∑ b ∈ Ioc s a, specTerm x y b a = ∑ b ∈ Ioc s a, - specTerm x y b a := by
    rw [Finset.sum_neg_distrib]
  rw [neg_add, e, Finset.sum_congr rfl key, Finset.sum_add_distrib, Finset.sum_add_distrib]
  ring

/-- **π(x) by Deleglise-Rivat**: for `1 ≤ y`, `y² ≤ x < (y+1)³`, `c ≤ π y`,
`π x = S1 + S2_trivial + S2_easy + S2_hard + π y - 1 - P2 x (π y)` -/
theorem pi_dr {x y c : ℕ} (hy : 1 ≤ y) (hy2 : y * y ≤ x) (h : x < (y + 1) ^ 3) (hc : c ≤ π y) :
    (π x : ℤ) = S1 x y c + S2_trivial x y c + S2_easy x y c + S2_hard x y c
      + π y - 1 - P2 x (π y) := by
  have hyx : y ≤ x := le_trans (Nat.le_mul_self y) hy2
  have := pi_lmo hy hyx h hc
  rw [dr_split hy2 hc] at this
  linarith

/-! ### facts behind the loops of `S2_trivial.cpp` and `S2_easy.cpp` -/

/-- number of trivial leaves of level `b`: `π y - max b (π (x / q²))` (truncated at `0`) -/
theorem trivial_count {x y b : ℕ} (hb : 1 ≤ b) :
    ((Ioc b (π y)).filter (fun j => x < p b * p b * p j)).card
      = π y - max b (π (x / (p b * p b))) := by
  have hqq : 0 < p b * p b := Nat.mul_pos (p_pos b) (p_pos b)
  have : (Ioc b (π y)).filter (fun j => x < p b * p b * p j)
      = Ioc (max b (π (x / (p b * p b)))) (π y) := by
    ext j
    rw [mem_filter, mem_Ioc, mem_Ioc, max_lt_iff]
    constructor
    · rintro ⟨⟨h1, h2⟩, h3⟩
      refine ⟨⟨h1, ?_⟩, h2⟩
      rw [← lt_p_iff (by omega), Nat.div_lt_iff_lt_mul hqq, mul_comm]
      exact h3
    · rintro ⟨⟨h1, h3⟩, h2⟩
      refine ⟨⟨h1, h2⟩, ?_⟩
      rw [← lt_p_iff (by omega), Nat.div_lt_iff_lt_mul hqq, mul_comm] at h3
      exact h3
  rw [this]; simp

/-- no trivial leaf on a level with `q² ≤ x / y` (so `S2_trivial.cpp` may start at `√z`, `z = x / y`) -/
theorem no_trivial_of_sq_le {x y b j : ℕ} (hy : 0 < y) (hq : p b * p b ≤ x / y) (hj1 : 1 ≤ j)
    (hj : j ≤ π y) : ¬ x < p b * p b * p j := by
  have hry : p j ≤ y := (p_le_iff hj1).2 hj
  have := (Nat.le_div_iff_mul_le hy).1 hq
  have : p b * p b * p j ≤ p b * p b * y := Nat.mul_le_mul_left _ hry
  omega

/-- no easy (or hard) leaf of prime type on a level with `x < q³` (so `S2_easy` may stop at
`π ⌊x^{1/3}⌋`): all such leaves are trivial -/
theorem all_trivial_of_lt_cube {x b j : ℕ} (hb : 1 ≤ b) (hq : x < p b * p b * p b) (hj : b < j) :
    x < p b * p b * p j := by
  have := p_lt_p hb hj
  calc x < p b * p b * p b := hq
    _ ≤ p b * p b * p j := Nat.mul_le_mul_left _ this.le

end Pc.Spec
