/-
L0 spec library, Gourdon part 3: the double-counting core of `gourdon_A_sigma`.
For a prime `q = p i` with `q³ ≤ x < q⁴` and `x < q y²` we evaluate
`U_i = Σ_{i < j ≤ π y} phi (x / (p j * q)) (i - 1)` (the special leaves `(q, r)` with `r = p j` prime)
as `A_i + (Σ4 or Σ5 term) + (Σ6 term) + polynomial in i`.
-/
import PcProofs.Spec.GourdonSigma
import PcProofs.Spec.Leaves

namespace Pc.Spec

open Finset Nat Classical
open scoped Nat.Prime

/-! ### swapping the order of summation over pairs of primes -/

lemma card_pairs_above {n jr : ℕ} (h : π (Nat.sqrt n) < jr) :
    ((Ioc 0 (π (Nat.sqrt n))).filter (fun js => p js * p jr ≤ n)).card = π (n / p jr) := by
  have hlt : Nat.sqrt n < p jr := (lt_p_iff (by omega)).2 h
  have hle : n / p jr ≤ Nat.sqrt n := by
    have h1 : n / p jr < Nat.sqrt n + 1 := by
      rw [Nat.div_lt_iff_lt_mul (p_pos jr)]
      calc n < (Nat.sqrt n + 1) * (Nat.sqrt n + 1) := Nat.lt_succ_sqrt n
        _ ≤ (Nat.sqrt n + 1) * p jr := Nat.mul_le_mul_left _ hlt
    omega
  have : (Ioc 0 (π (Nat.sqrt n))).filter (fun js => p js * p jr ≤ n) = Ioc 0 (π (n / p jr)) := by
    ext js
    rw [mem_filter, mem_Ioc, mem_Ioc]
    constructor
    · rintro ⟨⟨h1, _⟩, h3⟩
      refine ⟨h1, ?_⟩
      rw [← p_le_iff h1, Nat.le_div_iff_mul_le (p_pos jr)]
      exact h3
    · rintro ⟨h1, h2⟩
      refine ⟨⟨h1, le_trans h2 (pi_mono hle)⟩, ?_⟩
      rw [← p_le_iff h1, Nat.le_div_iff_mul_le (p_pos jr)] at h2
      exact h2
  rw [this]; simp

lemma card_pairs_below {n T R' js : ℕ} :
    ((Ioc T R').filter (fun jr => p js * p jr ≤ n)).card = min R' (π (n / p js)) - T := by
  have : (Ioc T R').filter (fun jr => p js * p jr ≤ n) = Ioc T (min R' (π (n / p js))) := by
    ext jr
    rw [mem_filter, mem_Ioc, mem_Ioc, le_min_iff]
    constructor
    · rintro ⟨⟨h1, h2⟩, h3⟩
      refine ⟨h1, h2, ?_⟩
      rw [← p_le_iff (by omega), Nat.le_div_iff_mul_le (p_pos js), mul_comm]
      exact h3
    · rintro ⟨h1, h2, h3⟩
      refine ⟨⟨h1, h2⟩, ?_⟩
      rw [← p_le_iff (by omega), Nat.le_div_iff_mul_le (p_pos js), mul_comm] at h3
      exact h3
  rw [this]; simp

/-- **swap**: `Σ_{T < j ≤ R'} π(n / p j) = Σ_{0 < j ≤ T} (min R' (π(n / p j)) - T)`, `T = π ⌊√n⌋`:
both sides count the pairs of primes `(s, r)` with `s ≤ √n < r ≤ p R'`, `s r ≤ n`. -/
theorem swap_pairs (n R' : ℕ) :
    ∑ j ∈ Ioc (π (Nat.sqrt n)) R', π (n / p j)
      = ∑ j ∈ Ioc 0 (π (Nat.sqrt n)), (min R' (π (n / p j)) - π (Nat.sqrt n)) := by
  have e1 : ∑ j ∈ Ioc (π (Nat.sqrt n)) R', π (n / p j)
      = ∑ jr ∈ Ioc (π (Nat.sqrt n)) R', ∑ js ∈ Ioc 0 (π (Nat.sqrt n)),
          (if p js * p jr ≤ n then 1 else 0) := by
    apply Finset.sum_congr rfl
    intro jr hjr
    rw [mem_Ioc] at hjr
    rw [← Finset.card_filter, card_pairs_above hjr.1]
  have e2 : ∑ j ∈ Ioc 0 (π (Nat.sqrt n)), (min R' (π (n / p j)) - π (Nat.sqrt n))
      = ∑ js ∈ Ioc 0 (π (Nat.sqrt n)), ∑ jr ∈ Ioc (π (Nat.sqrt n)) R',
          (if p js * p jr ≤ n then 1 else 0) := by
    apply Finset.sum_congr rfl
    intro js _
    rw [← Finset.card_filter, card_pairs_below]
  rw [e1, e2, Finset.sum_comm]

/-! ### evaluation of the leaves `(q, r)`, `q = p i`, `r = p j` prime -/

/-- the arithmetic facts about a level `i` of the `A`-range (`x⋆ < p i ≤ x^{1/3}`) -/
structure ALevel (x y i : ℕ) : Prop where
  hi1 : 1 ≤ i
  hia : i ≤ π y
  hy2 : y * y ≤ x
  hq3 : p i * p i * p i ≤ x
  hq4 : x < p i * p i * (p i * p i)
  hqy : x < y * y * p i

namespace ALevel

variable {x y i : ℕ} (h : ALevel x y i)
include h

omit h in
lemma q_pos : 0 < p i := p_pos i

lemma q_le_t : p i ≤ Nat.sqrt (x / p i) := by
  rw [Nat.le_sqrt, Nat.le_div_iff_mul_le (p_pos i)]
  exact h.hq3

lemma i_le_T : i ≤ π (Nat.sqrt (x / p i)) := (p_le_iff h.hi1).1 h.q_le_t

lemma t_lt_y : Nat.sqrt (x / p i) < y := by
  have h1 : x / p i < y * y := by
    rw [Nat.div_lt_iff_lt_mul (p_pos i)]; exact h.hqy
  have h2 := Nat.sqrt_le (x / p i)
  by_contra hge
  push Not at hge
  have := Nat.mul_le_mul hge hge
  omega

lemma T_le_a : π (Nat.sqrt (x / p i)) ≤ π y := pi_mono h.t_lt_y.le

lemma t_le_div : Nat.sqrt (x / p i) ≤ x / p i / p i := by
  rw [Nat.le_div_iff_mul_le (p_pos i)]
  calc Nat.sqrt (x / p i) * p i ≤ Nat.sqrt (x / p i) * Nat.sqrt (x / p i) :=
        Nat.mul_le_mul_left _ h.q_le_t
    _ ≤ x / p i := Nat.sqrt_le _

lemma T_le_P : π (Nat.sqrt (x / p i)) ≤ π (x / p i / p i) := pi_mono h.t_le_div

lemma i_le_P : i ≤ π (x / p i / p i) := le_trans h.i_le_T h.T_le_P

/-- value of the leaf `(p i, p j)` -/
lemma leaf_value {j : ℕ} (hj : j ∈ Ioc i (π y)) :
    (phi (x / (p j * p i)) (i - 1) : ℤ)
      = if p j ≤ x / p i / p i then (π (x / p i / p j) : ℤ) - i + 2 else 1 := by
  rw [mem_Ioc] at hj
  have hi1 := h.hi1
  have hj1 : 1 ≤ j := by omega
  have hqr : p i < p j := p_lt_p hi1 hj.1
  have hry : p j ≤ y := (p_le_iff hj1).2 hj.2
  have hqy : p i ≤ y := le_trans hqr.le hry
  have hv : x / (p j * p i) = x / p i / p j := by
    rw [Nat.div_div_eq_div_mul, mul_comm]
  rw [hv]
  have hq := (p_pos i)
  have hr := p_pos j
  split_ifs with hc
  · -- easy leaf
    have h1 : p i ≤ x / p i / p j := by
      rw [Nat.le_div_iff_mul_le hr]
      rw [Nat.le_div_iff_mul_le hq] at hc
      rw [mul_comm]; exact hc
    have h2 : x / p i / p j < p i ^ 2 := by
      rw [Nat.div_div_eq_div_mul, Nat.div_lt_iff_lt_mul (Nat.mul_pos hq hr), pow_two]
      calc x < p i * p i * (p i * p i) := h.hq4
        _ ≤ p i * p i * (p i * p j) :=
          Nat.mul_le_mul_left _ (Nat.mul_le_mul_left _ hqr.le)
    exact phi_leaf_easy' hi1 h1 h2
  · -- trivial leaf
    push Not at hc
    have h1 : 1 ≤ x / p i / p j := by
      rw [Nat.div_div_eq_div_mul]
      apply Nat.div_pos _ (Nat.mul_pos hq hr)
      calc p i * p j ≤ y * y := Nat.mul_le_mul hqy hry
        _ ≤ x := h.hy2
    have h2 : x / p i / p j < p i := by
      rw [Nat.div_lt_iff_lt_mul hr]
      rw [Nat.div_lt_iff_lt_mul hq] at hc
      rw [mul_comm]; exact hc
    rw [phi_leaf_trivial hi1 h1 h2]; simp

/-- common part of the evaluation, `Ri = min (π y) (π (x / q / q))` -/
lemma U_common :
    ∑ j ∈ Ioc i (π y), (phi (x / (p j * p i)) (i - 1) : ℤ)
      = ∑ j ∈ Ioc i (π (Nat.sqrt (x / p i))),
          ((π (x / p i / p j) : ℤ) + (min (min (π y) (π (x / p i / p i))) (π (x / p i / p j)) : ℕ))
        + (i : ℤ) * (min (π y) (π (x / p i / p i)) : ℕ)
        - (π (Nat.sqrt (x / p i)) : ℤ) ^ 2
        - ((min (π y) (π (x / p i / p i)) : ℕ) - (i : ℤ)) * ((i : ℤ) - 2)
        + ((π y : ℤ) - (min (π y) (π (x / p i / p i)) : ℕ)) := by
  set a := π y with ha
  set n := x / p i with hn
  set T := π (Nat.sqrt n) with hT
  set P := π (n / p i) with hP
  set Ri := min a P with hRi
  have hiT : i ≤ T := h.i_le_T
  have hTa : T ≤ a := h.T_le_a
  have hTP : T ≤ P := h.T_le_P
  have hTR : T ≤ Ri := le_min hTa hTP
  have hiR : i ≤ Ri := le_trans hiT hTR
  have hRa : Ri ≤ a := min_le_left _ _
  -- (a),(b): rewrite the leaves and split at Ri
  have s1 : ∑ j ∈ Ioc i a, (phi (x / (p j * p i)) (i - 1) : ℤ)
      = ∑ j ∈ Ioc i Ri, ((π (n / p j) : ℤ) - i + 2) + ∑ _j ∈ Ioc Ri a, (1 : ℤ) := by
    rw [← Finset.sum_Ioc_consecutive _ hiR hRa]
    congr 1
    · apply Finset.sum_congr rfl
      intro j hj
      rw [mem_Ioc] at hj
      rw [h.leaf_value (mem_Ioc.2 ⟨hj.1, le_trans hj.2 hRa⟩), if_pos]
      have : j ≤ P := le_trans hj.2 (min_le_right _ _)
      exact (p_le_iff (by omega)).2 this
    · apply Finset.sum_congr rfl
      intro j hj
      rw [mem_Ioc] at hj
      rw [h.leaf_value (mem_Ioc.2 ⟨lt_of_le_of_lt hiR hj.1, hj.2⟩), if_neg]
      intro hc
      have : j ≤ P := (p_le_iff (by omega)).1 hc
      have : j ≤ Ri := le_min hj.2 this
      omega
  -- (c)
  have s2 : ∑ j ∈ Ioc i Ri, ((π (n / p j) : ℤ) - i + 2)
      = ∑ j ∈ Ioc i Ri, (π (n / p j) : ℤ) - ((Ri : ℤ) - i) * ((i : ℤ) - 2) := by
    have : ∀ j ∈ Ioc i Ri, ((π (n / p j) : ℤ) - i + 2) = (π (n / p j) : ℤ) - ((i : ℤ) - 2) := by
      intro j _; ring
    rw [Finset.sum_congr rfl this, Finset.sum_sub_distrib]
    simp only [Finset.sum_const, Nat.card_Ioc, nsmul_eq_mul, Nat.cast_sub hiR]
  -- (d)
  have s3 : ∑ j ∈ Ioc i Ri, (π (n / p j) : ℤ)
      = ∑ j ∈ Ioc i T, (π (n / p j) : ℤ) + ∑ j ∈ Ioc T Ri, (π (n / p j) : ℤ) :=
    (Finset.sum_Ioc_consecutive _ hiT hTR).symm
  -- (e) swap
  have s4 : ∑ j ∈ Ioc T Ri, (π (n / p j) : ℤ)
      = ∑ j ∈ Ioc 0 T, ((min Ri (π (n / p j)) : ℕ) : ℤ) - (T : ℤ) ^ 2 := by
    have := swap_pairs n Ri
    rw [← hT] at this
    have c1 : ∑ j ∈ Ioc T Ri, (π (n / p j) : ℤ) = ((∑ j ∈ Ioc T Ri, π (n / p j) : ℕ) : ℤ) := by
      rw [Nat.cast_sum]
    rw [c1, this, Nat.cast_sum]
    have : ∀ j ∈ Ioc 0 T, (((min Ri (π (n / p j)) - T : ℕ)) : ℤ)
        = ((min Ri (π (n / p j)) : ℕ) : ℤ) - T := by
      intro j hj
      rw [mem_Ioc] at hj
      have hpj : p j ≤ Nat.sqrt n := (p_le_iff (by omega)).2 hj.2
      have : T ≤ π (n / p j) := by
        apply pi_mono
        rw [Nat.le_div_iff_mul_le (p_pos j)]
        calc Nat.sqrt n * p j ≤ Nat.sqrt n * Nat.sqrt n := Nat.mul_le_mul_left _ hpj
          _ ≤ n := Nat.sqrt_le n
      have : T ≤ min Ri (π (n / p j)) := le_min hTR this
      rw [Nat.cast_sub this]
    rw [Finset.sum_congr rfl this, Finset.sum_sub_distrib]
    simp only [Finset.sum_const, Nat.card_Ioc, nsmul_eq_mul, Nat.sub_zero]
    ring
  -- (f)
  have s5 : ∑ j ∈ Ioc 0 T, ((min Ri (π (n / p j)) : ℕ) : ℤ)
      = (i : ℤ) * Ri + ∑ j ∈ Ioc i T, ((min Ri (π (n / p j)) : ℕ) : ℤ) := by
    rw [← Finset.sum_Ioc_consecutive _ (Nat.zero_le i) hiT]
    congr 1
    have : ∀ j ∈ Ioc 0 i, ((min Ri (π (n / p j)) : ℕ) : ℤ) = (Ri : ℤ) := by
      intro j hj
      rw [mem_Ioc] at hj
      have hpj : p j ≤ p i := p_le_p hj.2
      have : P ≤ π (n / p j) := pi_mono (Nat.div_le_div_left hpj (p_pos j))
      have : Ri ≤ π (n / p j) := le_trans (min_le_right _ _) this
      rw [min_eq_left this]
    rw [Finset.sum_congr rfl this]
    simp only [Finset.sum_const, Nat.card_Ioc, nsmul_eq_mul, Nat.sub_zero]
  rw [s1, s2, s3, s4, s5, sum_Ioc_const_one Ri a hRa, Finset.sum_add_distrib]
  ring

/-- **low levels** (`q ≤ √(x/y)`, i.e. `q² y ≤ x`): contribution to `A`, `Σ4`, `Σ6` and `Σ2`/`Σ3` -/
theorem U_eval_low (hlow : p i * p i * y ≤ x) :
    ∑ j ∈ Ioc i (π y), (phi (x / (p j * p i)) (i - 1) : ℤ)
      = Aidx x y i + (π y : ℤ) * (π (x / (p i * y)) : ℤ) - (π (Nat.sqrt (x / p i)) : ℤ) ^ 2
        + ((π y : ℤ) - i) * (2 - (i : ℤ)) := by
  rw [h.U_common]
  have hq := (p_pos i)
  set a := π y with ha
  set n := x / p i with hn
  set T := π (Nat.sqrt n) with hT
  have hyle : y ≤ n / p i := by
    rw [Nat.le_div_iff_mul_le hq, Nat.le_div_iff_mul_le hq]
    calc y * p i * p i = p i * p i * y := by ring
      _ ≤ x := hlow
  have haP : a ≤ π (n / p i) := pi_mono hyle
  rw [min_eq_left haP]
  have hy0 : 0 < y := lt_of_le_of_lt (Nat.zero_le _) h.t_lt_y
  -- π(n/y) between i and T
  have hny : n / y = x / (p i * y) := by rw [hn, Nat.div_div_eq_div_mul]
  have hV1 : i ≤ π (n / y) := by
    rw [← p_le_iff h.hi1, Nat.le_div_iff_mul_le hy0, Nat.le_div_iff_mul_le hq]
    calc p i * y * p i = p i * p i * y := by ring
      _ ≤ x := hlow
  have hV2 : π (n / y) ≤ T := by
    apply pi_mono
    have : n / y < Nat.sqrt n + 1 := by
      rw [Nat.div_lt_iff_lt_mul hy0]
      calc n < (Nat.sqrt n + 1) * (Nat.sqrt n + 1) := Nat.lt_succ_sqrt n
        _ ≤ (Nat.sqrt n + 1) * y := Nat.mul_le_mul_left _ h.t_lt_y
    omega
  -- termwise
  have t1 : ∀ j ∈ Ioc i T, ((π (n / p j) : ℤ) + ((min a (π (n / p j)) : ℕ) : ℤ))
      = (if y ≤ n / p j then (1 : ℤ) else 2) * (π (n / p j) : ℤ)
        + (if y ≤ n / p j then (a : ℤ) else 0) := by
    intro j _
    split_ifs with hc
    · have : a ≤ π (n / p j) := pi_mono hc
      rw [min_eq_left this]; ring
    · push Not at hc
      have : π (n / p j) ≤ a := pi_mono hc.le
      rw [min_eq_right this]; ring
  rw [Finset.sum_congr rfl t1, Finset.sum_add_distrib]
  have t2 : ∑ j ∈ Ioc i T, (if y ≤ n / p j then (a : ℤ) else 0)
      = (a : ℤ) * ((π (n / y) : ℤ) - i) := by
    rw [← Finset.sum_filter]
    have : (Ioc i T).filter (fun j => y ≤ n / p j) = Ioc i (π (n / y)) := by
      ext j
      rw [mem_filter, mem_Ioc, mem_Ioc]
      constructor
      · rintro ⟨⟨h1, _⟩, h3⟩
        refine ⟨h1, ?_⟩
        rw [← p_le_iff (by omega), Nat.le_div_iff_mul_le hy0, mul_comm]
        exact (Nat.le_div_iff_mul_le (p_pos j)).1 h3
      · rintro ⟨h1, h2⟩
        refine ⟨⟨h1, le_trans h2 hV2⟩, ?_⟩
        rw [← p_le_iff (by omega), Nat.le_div_iff_mul_le hy0, mul_comm] at h2
        exact (Nat.le_div_iff_mul_le (p_pos j)).2 h2
    rw [this]
    simp only [Finset.sum_const, Nat.card_Ioc, nsmul_eq_mul, Nat.cast_sub hV1]
    ring
  rw [t2, ← hny]
  unfold Aidx
  rw [← hn, ← hT]
  ring

/-- **high levels** (`√(x/y) < q`, i.e. `x < q² y`): contribution to `A`, `Σ5`, `Σ6` and `Σ2`/`Σ3` -/
theorem U_eval_high (hhigh : x < p i * p i * y) :
    ∑ j ∈ Ioc i (π y), (phi (x / (p j * p i)) (i - 1) : ℤ)
      = Aidx x y i + (π (x / (p i * p i)) : ℤ) - (π (Nat.sqrt (x / p i)) : ℤ) ^ 2
        + ((i : ℤ) ^ 2 - 2 * i + (π y : ℤ)) := by
  rw [h.U_common]
  have hq := (p_pos i)
  set a := π y with ha
  set n := x / p i with hn
  set T := π (Nat.sqrt n) with hT
  have hlt : n / p i < y := by
    rw [Nat.div_lt_iff_lt_mul hq, Nat.div_lt_iff_lt_mul hq]
    calc x < p i * p i * y := hhigh
      _ = y * p i * p i := by ring
  have hPa : π (n / p i) ≤ a := pi_mono hlt.le
  rw [min_eq_right hPa]
  have hnq : n / p i = x / (p i * p i) := by rw [hn, Nat.div_div_eq_div_mul]
  have t1 : ∀ j ∈ Ioc i T, ((π (n / p j) : ℤ) + ((min (π (n / p i)) (π (n / p j)) : ℕ) : ℤ))
      = (if y ≤ n / p j then (1 : ℤ) else 2) * (π (n / p j) : ℤ) := by
    intro j hj
    rw [mem_Ioc] at hj
    have hpj : p i ≤ p j := p_le_p hj.1.le
    have hle : n / p j ≤ n / p i := Nat.div_le_div_left hpj hq
    have : π (n / p j) ≤ π (n / p i) := pi_mono hle
    rw [min_eq_right this, if_neg (by omega)]
    ring
  rw [Finset.sum_congr rfl t1, ← hnq]
  unfold Aidx
  rw [← hn, ← hT]
  ring

end ALevel

end Pc.Spec
