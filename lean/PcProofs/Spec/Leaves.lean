/-
L0 spec library: leaf-level lemmas for the classification of special leaves used by
Deleglise-Rivat (`S2_trivial`, `S2_easy`, `S2_hard`) and Gourdon (`A`, `C`, `D`): value of a trivial
leaf, value of an easy leaf, and "beyond the square root every `m` is a prime" (the special leaves of
level `b` reduce to a sum over primes).  Building blocks for `dr_split` / `gourdon_leaf_split`
of DESIGN.md 5.1 (which are not proved here).
-/
import PcProofs.Spec.Lmo

namespace Pc.Spec

open Finset Nat Classical
open scoped Nat.Prime ArithmeticFunction.Moebius

/-- **trivial leaf**: `phi y (b-1) = 1` for `1 ≤ y < p b` -/
theorem phi_leaf_trivial {y b : ℕ} (hb : 1 ≤ b) (h1 : 1 ≤ y) (h : y < p b) : phi y (b - 1) = 1 := by
  apply phi_eq_one h1
  rwa [Nat.sub_add_cancel hb]

/-- **easy leaf**: `phi y (b-1) = π y - b + 2` for `b - 1 ≤ π y` (e.g. `p b ≤ y`) and `y < (p b)^2`;
stated in `ℤ` as in `S2_easy.cpp` / `AC.cpp` (`pi[xpq] - b + 2`). -/
theorem phi_leaf_easy {y b : ℕ} (hb : 1 ≤ b) (h1 : 1 ≤ y) (hle : b - 1 ≤ π y) (h : y < p b ^ 2) :
    (phi y (b - 1) : ℤ) = (π y : ℤ) - b + 2 := by
  have := phi_add_eq_pi (a := b - 1) h1 hle (by rwa [Nat.sub_add_cancel hb])
  have h2 : ((phi y (b - 1) + (b - 1) : ℕ) : ℤ) = ((π y + 1 : ℕ) : ℤ) := by rw [this]
  push_cast [Nat.cast_sub hb] at h2
  linarith

/-- easy leaf, hypothesis in the form `p b ≤ y` -/
theorem phi_leaf_easy' {y b : ℕ} (hb : 1 ≤ b) (hle : p b ≤ y) (h : y < p b ^ 2) :
    (phi y (b - 1) : ℤ) = (π y : ℤ) - b + 2 := by
  have h1 : 1 ≤ y := le_trans (p_pos b) hle
  have := (p_le_iff hb).1 hle
  exact phi_leaf_easy hb h1 (by omega) h

/-- beyond the square root every admissible `m ≠ 1` is a prime -/
theorem prime_of_mem_phiSet_of_lt_sq {y b m : ℕ} (h : y < p (b + 1) ^ 2) (hm : m ∈ phiSet y b)
    (hm1 : m ≠ 1) : m.Prime := by
  have h1 : 1 ≤ y := le_trans (mem_phiSet_iff.1 hm).1 (mem_phiSet_iff.1 hm).2.1
  rw [phiSet_eq_of_lt_sq h1 h, mem_insert, mem_primesGt] at hm
  rcases hm with h | h
  · exact absurd h hm1
  · exact h.1

/-- **special leaves of a level beyond the square root**: if `p b ≤ z < (p (b+1))^2`, the special
leaves with first prime `p b` are exactly the primes `r` with `b < π r ≤ a`, `z / p b < r ≤ z`, each
contributing `+ phi (x / (r * p b)) (b - 1)` to `spec` (i.e. `-` to `specTerm`). -/
theorem specTerm_eq_sum_primes {x z b a : ℕ} (hz : p b ≤ z) (h : z < p (b + 1) ^ 2) :
    specTerm x z b a = - ∑ r ∈ (primesGt b z).filter (fun r => π r ≤ a ∧ z / p b < r),
      (phi (x / (r * p b)) (b - 1) : ℤ) := by
  rw [specTerm_eq_moebius, ← Finset.sum_neg_distrib]
  apply Finset.sum_congr
  · ext m
    simp only [mem_filter, mem_Ioc, mem_primesGt]
    constructor
    · rintro ⟨⟨h1, h2⟩, h3⟩
      have hm1 : 1 ≤ m := Nat.succ_le_of_lt (lt_of_le_of_lt (Nat.zero_le _) h1)
      have hmem : m ∈ phiSet z b := mem_phiSet_iff.2 ⟨hm1, h2, fun q hq hd => (h3 q hq hd).1⟩
      have hne : m ≠ 1 := by
        rintro rfl
        rw [Nat.div_lt_iff_lt_mul (p_pos b)] at h1
        omega
      have hp := prime_of_mem_phiSet_of_lt_sq h hmem hne
      exact ⟨⟨hp, (h3 m hp dvd_rfl).1, h2⟩, (h3 m hp dvd_rfl).2, h1⟩
    · rintro ⟨⟨hp, h1, h2⟩, h3, h4⟩
      refine ⟨⟨h4, h2⟩, ?_⟩
      intro q hq hd
      rw [(Nat.prime_dvd_prime_iff_eq hq hp).1 hd]
      exact ⟨h1, h3⟩
  · intro r hr
    rw [mem_filter, mem_primesGt] at hr
    rw [ArithmeticFunction.moebius_apply_prime hr.1.1]
    ring

end Pc.Spec
