/-
WP top (item 3): the engine theorem of PcProofs/HardEngine.lean (`levelLoop_spec` / `segLoop_spec`) for a `phi` array that is
LONGER than `maxB + 1`.  pi_lmo5.cpp allocates `phi(primes.size())` (`π(y) + 1` entries) while its level loops end at
`max(pi_sqrty, pi_y - 1)`: the statements below are the ones of HardEngine.lean with `phi.size = maxB + 1` weakened to
`maxB + 1 ≤ phi.size` (the proofs are the same: the size is only used for the bounds check `b < phi.size()`).
-/
import PcProofs.HardEngine
import PcModel.TopLmo

namespace Pc.TopLmo
open Nat Finset
open Pc.Hard
open Pc.SimpleAlgs (getD_setIfInBounds)

variable {σ : Type} {S : SieveOps σ} {Kmax : ℕ}

/-- the level loops of ONE segment `[lo, hi)` -/
theorem levelLoop_spec_ge (hS : SieveSpec S Kmax) {lv : ℕ → ℕ → ℕ → Except Err (Option (List (ℕ × ℤ)))} {brk : ℕ → ℕ → Prop}
    {W : ℕ → ℕ → ℕ → ℤ} {minB maxB low0 limit : ℕ} (hL : LvSpec lv brk W minB maxB low0 limit) {prime : ℕ → ℕ}
    (hprime : ∀ b, minB ≤ b → b ≤ maxB → prime b = Spec.p b) (hminB : 1 ≤ minB)
    {lo hi seg E : ℕ} (h0 : low0 ≤ lo) (hlh : lo < hi) (hhl : hi ≤ limit) (hE : E ≤ maxB + 1) :
    ∀ (fuel b : ℕ) (s : σ) (phi : Array ℤ) (sum : ℤ), maxB + 1 ≤ b + fuel → minB ≤ b → b ≤ E →
      hS.Seg s lo (hi - lo) (b - 1) (E - 1) 0 seg → maxB + 1 ≤ phi.size →
      (∀ b', minB ≤ b' → b' < b → phi.getD b' 0 = (Spec.phi (hi - 1) (b' - 1) : ℤ)) →
      (∀ b', b ≤ b' → b' < E → phi.getD b' 0 = (Spec.phi (lo - 1) (b' - 1) : ℤ)) →
      (∀ b', minB ≤ b' → b' < b → ¬ brk b' lo) →
      (∀ b', E ≤ b' → b' ≤ maxB → Dead brk minB b' lo) →
      ∃ s' phi' E' prev', levelLoop S (fun b => lv b lo hi) prime lo (hi - lo) maxB fuel b s phi sum
          = .ok (s', phi', sum + ∑ b' ∈ Icc b maxB, W b' lo hi) ∧
        minB ≤ E' ∧ E' ≤ E ∧ hS.Seg s' lo (hi - lo) (E' - 1) (E - 1) prev' seg ∧ maxB + 1 ≤ phi'.size ∧
        (∀ b', minB ≤ b' → b' < E' → phi'.getD b' 0 = (Spec.phi (hi - 1) (b' - 1) : ℤ)) ∧
        (∀ b', E' ≤ b' → b' ≤ maxB → Dead brk minB b' lo) := by
  intro fuel
  induction fuel with
  | zero =>
    intro b s phi sum hf hb hbE hseg hsz hdone _ _ hdead
    refine ⟨s, phi, b, 0, ?_, hb, hbE, hseg, hsz, hdone, fun b' h1 h2 => by omega⟩
    rw [levelLoop, Finset.Icc_eq_empty (by omega)]; simp
  | succ fuel ih =>
    intro b s phi sum hf hb hbE hseg hsz hdone hpend hlive hdead
    by_cases hbm : b ≤ maxB
    swap
    · refine ⟨s, phi, b, 0, ?_, hb, hbE, hseg, hsz, hdone, fun b' h1 h2 => by omega⟩
      rw [levelLoop, if_neg hbm, Finset.Icc_eq_empty (by omega)]; simp
    rw [levelLoop, if_pos hbm]
    by_cases hbrk : brk b lo
    · -- goto next_segment
      rw [hL.brk_none b lo hi hb hbm h0 hlh hhl hbrk]
      refine ⟨s, phi, b, 0, ?_, hb, hbE, hseg, hsz, hdone, ?_⟩
      · simp only []
        rw [Finset.sum_eq_zero, add_zero]
        intro b' hb'
        rw [mem_Icc] at hb'
        exact hL.brk_zero b lo hb hbm hbrk b' lo hi hb'.1 hb'.2 le_rfl
      · intro b' h1 _
        exact ⟨b, hb, h1, hbrk⟩
    · -- the level is processed
      have hbE' : b < E := by
        by_contra hge
        obtain ⟨b0, g1, g2, g3⟩ := hdead b (by omega) hbm
        rcases Nat.lt_or_ge b0 b with hlt | hge'
        · exact hlive b0 g1 hlt g3
        · have : b0 = b := by omega
          subst this; exact hbrk g3
      obtain ⟨its, hlv, hok, hsum⟩ := hL.items b lo hi hb hbm h0 hlh hhl hbrk
      rw [hlv]
      simp only []
      rw [if_neg (by omega)]
      have hphib := hpend b le_rfl hbE'
      have hlvl : b - 1 + 1 = b := by omega
      have ehi : lo + (hi - lo) = hi := by omega
      obtain ⟨s1, prev1, hfold, hseg1⟩ := leafFold_spec hS (phi.getD b 0) hphib its s 0 sum hseg (by rw [ehi]; exact hok)
      rw [hlvl] at hfold
      rw [hfold]
      simp only []
      have htot := hS.total_val s1 lo (hi - lo) (b - 1) (E - 1) prev1 seg hseg1
      have hcross := hS.cross_seg s1 lo (hi - lo) (b - 1) (E - 1) prev1 seg hseg1 (by omega)
      rw [hlvl] at hcross
      rw [← hprime b hb hbm] at hcross
      have hnewphi : phi.getD b 0 + (S.total s1 : ℤ) = (Spec.phi (hi - 1) (b - 1) : ℤ) := by
        rw [hphib, htot]
        have := cnt_add lo (b - 1) (hi - lo - 1)
        have e : lo + (hi - lo - 1) = hi - 1 := by omega
        rw [e] at this; exact this
      rw [hnewphi]
      have hb1 : b + 1 - 1 = b := by omega
      obtain ⟨s', phi', E', prev', r1, r2, r3, r4, r5, r6, r7⟩ := ih (b + 1) (S.cross s1 (prime b) b)
        (phi.setIfInBounds b (Spec.phi (hi - 1) (b - 1) : ℤ)) (sum + itemSum b its) (by omega) (by omega) (by omega)
        (by rw [hb1]; exact hcross) (by rw [Array.size_setIfInBounds]; exact hsz)
        (fun b' h1 h2 => by
          rw [getD_setIfInBounds]
          by_cases hbb : b = b'
          · subst hbb; rw [if_pos ⟨rfl, by omega⟩]
          · rw [if_neg (fun h => hbb h.1)]; exact hdone b' h1 (by omega))
        (fun b' h1 h2 => by
          rw [getD_setIfInBounds, if_neg (by omega)]; exact hpend b' (by omega) h2)
        (fun b' h1 h2 => by
          rcases Nat.lt_or_ge b' b with hlt | hge
          · exact hlive b' h1 hlt
          · have : b' = b := by omega
            subst this; exact hbrk)
        hdead
      refine ⟨s', phi', E', prev', ?_, r2, r3, r4, r5, r6, r7⟩
      rw [r1]
      congr 2
      have hI : Icc b maxB = insert b (Icc (b + 1) maxB) := by
        ext i; rw [mem_insert, mem_Icc, mem_Icc]; omega
      rw [hI, Finset.sum_insert (by rw [mem_Icc]; omega), hsum]; ring

/-- the segment loop -/
theorem segLoop_spec_ge (hS : SieveSpec S Kmax) {lv : ℕ → ℕ → ℕ → Except Err (Option (List (ℕ × ℤ)))} {brk : ℕ → ℕ → Prop}
    {W : ℕ → ℕ → ℕ → ℤ} {minB maxB low0 limit : ℕ} (hL : LvSpec lv brk W minB maxB low0 limit) {prime : ℕ → ℕ}
    (hprime : ∀ b, minB ≤ b → b ≤ maxB → prime b = Spec.p b) (hminB : 4 ≤ minB) {segSize : ℕ} (hseg : 1 ≤ segSize) :
    ∀ (fuel lo E : ℕ) (s : σ) (phi : Array ℤ) (sum : ℤ), limit ≤ lo + fuel → low0 ≤ lo → minB ≤ E → E ≤ maxB + 1 →
      hS.Ready s lo (E - 1) segSize → maxB + 1 ≤ phi.size →
      (∀ b', minB ≤ b' → b' < E → phi.getD b' 0 = (Spec.phi (lo - 1) (b' - 1) : ℤ)) →
      (∀ b', E ≤ b' → b' ≤ maxB → Dead brk minB b' lo) →
      segLoop S lv prime minB maxB limit segSize fuel lo s phi sum = .ok (sum + ∑ b ∈ Icc minB maxB, W b lo (max lo limit)) := by
  intro fuel
  induction fuel with
  | zero =>
    intro lo E s phi sum hf _ _ _ _ _ _ _
    rw [segLoop_done (by omega), Finset.sum_eq_zero, add_zero]
    intro b _
    rw [Nat.max_eq_left (by omega)]; exact hL.W_empty b lo
  | succ fuel ih =>
    intro lo E s phi sum hf h0 hE1 hE2 hready hsz hphi hdead
    by_cases hlt : lo < limit
    swap
    · rw [segLoop_done (by omega), Finset.sum_eq_zero, add_zero]
      intro b _
      rw [Nat.max_eq_left (by omega)]; exact hL.W_empty b lo
    rw [segLoop, if_pos hlt]
    set hi := min (lo + segSize) limit with hhi
    have hlh : lo < hi := by rw [hhi, lt_min_iff]; omega
    have hhl : hi ≤ limit := min_le_right _ _
    have hn : hi - lo ≤ segSize := by have := min_le_left (lo + segSize) limit; omega
    have hpre := hS.pre_seg s lo (E - 1) segSize (minB - 1) (hi - lo) hready (by omega) (by omega) (by omega) hn
    have ehi : lo + (hi - lo) = hi := by omega
    rw [ehi] at hpre
    obtain ⟨s', phi', E', prev', r1, r2, r3, r4, r5, r6, r7⟩ := levelLoop_spec_ge hS hL hprime (by omega) h0 hlh hhl hE2
      (maxB + 1 - minB) minB (S.pre s (minB - 1) lo hi) phi sum (by omega) le_rfl hE1 hpre hsz
      (fun b' h1 h2 => by omega) hphi (fun b' h1 h2 => by omega) hdead
    rw [r1]
    simp only []
    rw [Nat.max_eq_right hlt.le]
    by_cases hmore : lo + segSize < limit
    · have hhs : hi = lo + segSize := by rw [hhi, min_eq_left hmore.le]
      have hnn : hi - lo = segSize := by omega
      rw [hnn] at r4
      have hrd := hS.next_ready s' lo (E' - 1) (E - 1) prev' segSize r4
      rw [ih (lo + segSize) E' s' phi' _ (by omega) (by omega) r2 (by omega) hrd r5
        (fun b' h1 h2 => by rw [← hhs]; exact r6 b' h1 h2)
        (fun b' h1 h2 => by
          obtain ⟨b0, g1, g2, g3⟩ := r7 b' h1 h2
          exact ⟨b0, g1, g2, hL.brk_mono b0 lo (lo + segSize) g1 (by omega) (by omega) g3⟩)]
      rw [Nat.max_eq_right (by omega), add_assoc, ← Finset.sum_add_distrib]
      have hW : ∀ b ∈ Icc minB maxB, W b lo hi + W b (lo + segSize) limit = W b lo limit := by
        intro b _
        rw [← hhs]
        exact hL.W_add b lo hi limit hlh.le hhl
      rw [Finset.sum_congr rfl hW]
    · have hhs : hi = limit := by rw [hhi, min_eq_right (by omega)]
      rw [segLoop_done (by omega), hhs]


end Pc.TopLmo
