/-
WP close3, item 2 (gourdon): the UNRESTRICTED Gourdon theorems — `piGourdon_total_closed` / `piGourdon_total_to` for EVERY `x` of the type
(no `hsmall`): `x < 2` and `16 ≤ x` by `piGourdon_total_closed_ge16` (Close2SmallTop.lean), `2 ≤ x < 16` by `piGourdon_tiny_lt16` (Close3YTwo.lean).
-/
import PcProofs.Close3YTwo

namespace Pc.Top
open Nat Finset Pc.LB Pc.Hard PcGen.ApiConst Pc.PhiAlgProofs Pc.ClosePhi
open scoped Nat.Prime

/-- **`piGourdon_total_closed` with NO domain restriction** -/
theorem piGourdon_total_closed_all {σ : Type} (T : Tables σ) {B : ℕ} (hT : TablesOK T B) (pi : ℕ → ℕ) (wide : Bool) (x : ℤ)
    (hx : InType wide x) (threads : ℤ) (isPrint : Bool) (r : GRun)
    (hpi : ∀ n : ℕ, (n : ℤ) < x → n < 2 ^ 63 → pi n = π n) (hex : 2 ≤ x → GExecC T B wide x.toNat r) :
    piGourdon T pi wide x threads isPrint r = .ok (π x.toNat : ℤ) ∨
      piGourdon T pi wide x threads isPrint r = .error (.hard .badRun) := by
  by_cases hold : x < 2 ∨ 16 ≤ x
  · exact piGourdon_total_closed_ge16 T hT pi wide x hx hold threads isPrint r hpi hex
  · obtain ⟨n, rfl⟩ := Int.eq_ofNat_of_zero_le (show 0 ≤ x by omega)
    have hex' := hex (by omega)
    rw [Int.toNat_natCast] at hex' ⊢
    exact piGourdon_tiny_lt16 T hT pi wide n (by omega) (by omega) threads isPrint r
      (fun m hm => hpi m (by exact_mod_cast hm) (by omega)) hex'

/-- **`piGourdon_total_to` with NO domain restriction** (iterator contract up to `N` only) -/
theorem piGourdon_total_to_all {σ : Type} (T : Tables σ) {B N : ℕ} (hT : TablesOK (T.withIt (P2L.patch T.it N)) B)
    (hit : P2L.IterSpecTo T.it N) (hN : 2 ^ 64 - 2 ^ 32 ≤ N) (pi : ℕ → ℕ) (wide : Bool) (x : ℤ)
    (hx : InType wide x) (threads : ℤ) (isPrint : Bool) (r : GRun)
    (hpi : ∀ n : ℕ, (n : ℤ) < x → n < 2 ^ 63 → pi n = π n) (hex : 2 ≤ x → GExecC T B wide x.toNat r) :
    piGourdon T pi wide x threads isPrint r = .ok (π x.toNat : ℤ) ∨
      piGourdon T pi wide x threads isPrint r = .error (.hard .badRun) := by
  have hx127 : x.toNat < 2 ^ 127 := by
    have : x < 2 ^ 127 := by
      unfold InType at hx
      cases wide
      · simp at hx; omega
      · simpa using hx
    omega
  have hb : ∀ y, P2L.bOpenMP T.lc T.it pi x.toNat y r.b = P2L.bOpenMP T.lc (P2L.patch T.it N) pi x.toNat y r.b :=
    fun y => P2L.bOpenMP_patch_all hit (two63_le_of hN) (isqrtN_le_of_lt hx127 hN)
      (fun n h1 h2 => hpi n (by omega) (by unfold two63 at h1; exact h1)) T.lc y r.b
  rw [piGourdon_withIt T (P2L.patch T.it N) pi wide x threads isPrint r hb]
  exact piGourdon_total_closed_all (T.withIt (P2L.patch T.it N)) hT pi wide x hx threads isPrint r hpi
    (fun h => (hex h).withIt _)

end Pc.Top

#print axioms Pc.Top.piGourdon_total_closed_all
#print axioms Pc.Top.piGourdon_total_to_all
