/-
WP lmo, part 3b: `pi_lmo4` (src/lmo/pi_lmo4.cpp) — the segmented sieve whose counts come from the binary indexed tree.

The tree keeps only the even sieve indices.  With an even segment size every `low` is odd, so the odd indices are the even
numbers, all crossed off by the first prime (`c ≥ 1`): `prefix_eq_phi` turns the tree's prefix sums into differences of φ.
`crossOff4_spec`: `cross_off` with `tree.update` does to the sieve what the plain cross-off loop does and keeps the tree
consistent.  `s2Seg4_eq`: the engine computes `Spec.S2` for every EVEN segment size (below 2^65, the model's word size);
`piLmo4_eq_pi` for every int64 `x`.
-/
import PcProofs.SimpleAlgsLmo3
import PcProofs.Fenwick

namespace Pc.SimpleAlgs
open Nat Finset Classical
open scoped Nat.Prime ArithmeticFunction.Moebius

variable {T : Tables} {x y c : ℕ}

/-! ### prefix sums of the tree = differences of φ -/

theorem not_unsieved_even {a n : ℕ} (ha : 1 ≤ a) (hn : n % 2 = 0) : ¬ Unsieved a n := by
  intro h
  have := h 1 le_rfl ha
  rw [Spec.p_one] at this
  exact this (Nat.dvd_of_mod_eq_zero hn)

/-- in a window with odd `low` at level `a ≥ 1`, the even sieve entries up to index `M` count the unsieved numbers of
    `[low, low + M]` -/
theorem prefix_eq_phi {sieve : Array Bool} {low len a : ℕ} (hOK : SieveOK sieve low len a) (ha : 1 ≤ a)
    (hlow : low % 2 = 1) : ∀ M, M < len →
      ∑ j ∈ Ico 0 (M / 2 + 1), evenFlags sieve j = (Spec.phi (low + M) a : ℤ) - Spec.phi (low - 1) a := by
  intro M
  induction M with
  | zero =>
    intro hM
    have hs := phi_succ (low - 1) a
    have e : low - 1 + 1 = low := by omega
    rw [e] at hs
    have hiff := hOK 0 hM (by omega)
    simp only [Nat.zero_div, zero_add, Nat.Ico_zero_eq_range, Finset.sum_range_one, Nat.add_zero]
    unfold evenFlags
    rw [hs]
    by_cases hu : Unsieved a low
    · rw [if_pos hu, if_pos (by simpa using hiff.2 hu)]; push_cast; ring
    · rw [if_neg hu, if_neg (fun hc => hu (hiff.1 (by simpa using hc)))]; push_cast; ring
  | succ M ih =>
    intro hM
    have ih' := ih (by omega)
    have hs := phi_succ (low + M) a
    rw [show low + (M + 1) = low + M + 1 from rfl, hs]
    rcases Nat.mod_two_eq_zero_or_one (M + 1) with hpar | hpar
    · -- index M + 1 is even: one more tree entry
      have e : (M + 1) / 2 + 1 = M / 2 + 1 + 1 := by omega
      rw [e, Finset.sum_Ico_succ_top (Nat.zero_le _), ih']
      have hidx : (M / 2 + 1) * 2 = M + 1 := by omega
      have hiff := hOK (M + 1) hM (by omega)
      unfold evenFlags
      rw [hidx]
      by_cases hu : Unsieved a (low + M + 1)
      · rw [if_pos hu, if_pos (hiff.2 hu)]; push_cast; ring
      · rw [if_neg hu, if_neg (fun hc => hu (hiff.1 hc))]; push_cast; ring
    · -- index M + 1 is odd: an even number, never unsieved
      have e : (M + 1) / 2 = M / 2 := by omega
      rw [e, ih', if_neg (not_unsieved_even ha (by omega))]
      push_cast; ring

/-! ### cross_off with tree updates -/

theorem setIfInBounds_false_eq_self {s : Array Bool} {i : ℕ} (h : s.getD i false = false) :
    s.setIfInBounds i false = s := by
  apply Array.ext_getElem?
  intro j
  rw [Array.getElem?_setIfInBounds]
  by_cases hij : i = j
  · subst hij
    rw [if_pos rfl]
    by_cases hlt : i < s.size
    · rw [if_pos hlt]
      rw [Array.getD_eq_getD_getElem?, Array.getElem?_eq_getElem hlt] at h
      rw [Array.getElem?_eq_getElem hlt]
      simp only [Option.getD_some] at h
      rw [h]
    · rw [if_neg hlt, Array.getElem?_eq_none (by omega)]
  · rw [if_neg hij]

theorem evenFlags_set {s : Array Bool} {pos : ℕ} (hpar : pos % 2 = 0) (hlt : pos < s.size)
    (htrue : s.getD pos false = true) :
    evenFlags (s.setIfInBounds pos false) = decAt (evenFlags s) (pos / 2) := by
  funext j
  simp only [evenFlags, decAt]
  rw [getD_setIfInBounds_false]
  by_cases hj : j = pos / 2
  · subst hj
    have e : pos / 2 * 2 = pos := by omega
    have h1 : s.getD (pos / 2 * 2) false = true := by rw [e]; exact htrue
    rw [if_pos rfl, h1]
    simp [e]
  · have : ¬ pos = j * 2 := by omega
    rw [if_neg hj]
    simp [this]

/-- `cross_off` of pi_lmo4.cpp = the plain cross-off loop on the sieve + a consistent tree -/
theorem crossOff4_spec (low high step : ℕ) (hlow : low % 2 = 1) (hstep : step % 2 = 0) :
    ∀ (fuel k : ℕ) (s : Array Bool) (t : Fenwick), low ≤ k → k % 2 = 1 → high - low ≤ s.size → s.size % 2 = 0 →
      t.size = s.size / 2 → FwOK t (evenFlags s) →
      ∃ t', crossOff4 low high step fuel k s t
          = some ((crossOff low high step fuel k s).1, (crossOff low high step fuel k s).2, t') ∧
        t'.size = t.size ∧ FwOK t' (evenFlags (crossOff low high step fuel k s).2) := by
  intro fuel
  induction fuel with
  | zero =>
    intro k s t _ _ _ _ _ hfw
    exact ⟨t, by rw [crossOff4, crossOff], rfl, by rw [crossOff]; exact hfw⟩
  | succ f ih =>
    intro k s t hk hodd hsz hev hts hfw
    rw [crossOff4, crossOff]
    by_cases hlt : k < high
    · rw [if_pos hlt, if_pos hlt]
      have hpar : (k - low) % 2 = 0 := by omega
      have hin : k - low < s.size := by omega
      by_cases hset : s.getD (k - low) false = true
      · rw [if_pos hset]
        obtain ⟨t1, hu, hsz1, hfw1⟩ := fwUpdate_spec hfw (pos := k - low) (by omega)
        rw [hu]
        simp only []
        obtain ⟨t', h1, h2, h3⟩ := ih (k + step) (s.setIfInBounds (k - low) false) t1 (by omega) (by omega)
          (by rw [Array.size_setIfInBounds]; exact hsz) (by rw [Array.size_setIfInBounds]; exact hev)
          (by rw [Array.size_setIfInBounds, hsz1]; exact hts)
          (by rw [evenFlags_set hpar hin hset]; exact hfw1)
        exact ⟨t', h1, by rw [h2, hsz1], h3⟩
      · have hfalse : s.getD (k - low) false = false := by
          cases hb : s.getD (k - low) false
          · rfl
          · exact absurd hb hset
        rw [if_neg hset, setIfInBounds_false_eq_self hfalse]
        exact ih (k + step) s t (by omega) (by omega) hsz hev hts hfw
    · rw [if_neg hlt, if_neg hlt]
      exact ⟨t, rfl, rfl, hfw⟩

/-! ### the leaf loop with tree counts -/

theorem leafLoop4_spec {T : Tables} {x prime low len a minM : ℕ} {sieve : Array Bool} {tree : Fenwick}
    (hOK : SieveOK sieve low len a) (ha : 1 ≤ a) (hlow : low % 2 = 1) (hlen : len ≤ sieve.size)
    (hev : sieve.size % 2 = 0) (hts : tree.size = sieve.size / 2) (hfw : FwOK tree (evenFlags sieve)) :
    ∀ (n : ℕ) (s2 : ℤ),
      (∀ m, m ∈ Ioc minM (minM + n) → low ≤ x / (prime * m) ∧ x / (prime * m) < low + len) →
      leafLoop4 T x prime low tree minM (Spec.phi (low - 1) a) n s2
        = some (s2 - ∑ m ∈ Ioc minM (minM + n), leafVal T x prime a m) := by
  intro n
  induction n with
  | zero => intro s2 _; rw [leafLoop4]; simp
  | succ n ih =>
    intro s2 hwin
    have hsum : ∑ m ∈ Ioc minM (minM + (n + 1)), leafVal T x prime a m
        = ∑ m ∈ Ioc minM (minM + n), leafVal T x prime a m + leafVal T x prime a (minM + n + 1) := by
      rw [show minM + (n + 1) = (minM + n) + 1 from rfl, Finset.sum_Ioc_succ_top (by omega)]
    have hwin' : ∀ m, m ∈ Ioc minM (minM + n) → low ≤ x / (prime * m) ∧ x / (prime * m) < low + len := by
      intro m hm
      rw [mem_Ioc] at hm
      exact hwin m (mem_Ioc.2 ⟨hm.1, by omega⟩)
    rw [leafLoop4]
    by_cases hleaf : T.muOf (minM + n + 1) ≠ 0 ∧ prime < T.lpfOf (minM + n + 1)
    · rw [if_pos hleaf]
      obtain ⟨h1, h2⟩ := hwin (minM + n + 1) (mem_Ioc.2 ⟨by omega, by omega⟩)
      set xpm := x / (prime * (minM + n + 1)) with hx
      rw [fwCount_spec hfw h1 (by omega), prefix_eq_phi hOK ha hlow (xpm - low) (by omega)]
      simp only []
      have e : low + (xpm - low) = xpm := by omega
      rw [e, ih _ hwin', hsum]
      unfold leafVal
      rw [if_pos hleaf, ← hx]
      congr 1; push_cast; ring
    · rw [if_neg hleaf, ih _ hwin', hsum]
      unfold leafVal
      rw [if_neg hleaf, add_zero]

/-! ### one segment -/

/-- the loop over the levels `b > c` of one segment of pi_lmo4.cpp -/
theorem bLoop4_spec (hT : T.Valid y) {low high : ℕ} (hlow : 1 ≤ low) (hlowodd : low % 2 = 1) (hlh : low < high) :
    ∀ (n b : ℕ) (sieve : Array Bool) (tree : Fenwick) (st : Seg), π y ≤ b + n → (1 ≤ n → 2 ≤ b) → 1 ≤ b →
      SieveOK sieve low (high - low) (b - 1) → high - low ≤ sieve.size → sieve.size % 2 = 0 →
      tree.size = sieve.size / 2 → FwOK tree (evenFlags sieve) →
      st.next.size = T.primes.size → st.phi.size = T.primes.size →
      (∀ b', b ≤ b' → b' < π y → Active x y b' low → EntryOK st b' low) →
      ∃ st', bLoop4 T x y low high (π y) n b sieve tree st = some st' ∧
        st'.s2 = st.s2 - ∑ b' ∈ Ico b (π y), levelSumW T x y b' low high ∧
        st'.next.size = T.primes.size ∧ st'.phi.size = T.primes.size ∧
        (∀ b', b ≤ b' → b' < π y → Active x y b' high → EntryOK st' b' high) ∧
        (∀ b', b' < b → st'.next.getD b' 0 = st.next.getD b' 0 ∧ st'.phi.getD b' 0 = st.phi.getD b' 0) := by
  intro n
  induction n with
  | zero =>
    intro b sieve tree st hbn _ _ _ _ _ _ _ hs1 hs2 _
    refine ⟨st, by rw [bLoop4], ?_, hs1, hs2, fun b' h1 h2 => by omega, fun _ _ => ⟨rfl, rfl⟩⟩
    rw [Finset.Ico_eq_empty (by omega)]; simp
  | succ n ih =>
    intro b sieve tree st hbn hb2' hb1 hOK hsz hev hts hfw hs1 hs2 hentry
    have hb2 : 2 ≤ b := hb2' (by omega)
    by_cases hblt : b < π y
    swap
    · rw [bLoop4, if_neg hblt]
      refine ⟨st, rfl, ?_, hs1, hs2, fun b' h1 h2 => by omega, fun _ _ => ⟨rfl, rfl⟩⟩
      rw [Finset.Ico_eq_empty (by omega)]; simp
    have hpb : T.p b = Spec.p b := hT.p_eq b hb1 (by omega)
    have hppos : 0 < Spec.p b := Spec.p_pos b
    have hpiY : T.primes.size - 1 = π y := hT.piY
    have hbsz : b < T.primes.size := by omega
    rw [bLoop4, if_pos hblt]
    simp only []
    rw [hpb]
    by_cases hact : Active x y b low
    · have hnb : ¬ Spec.p b ≥ min (x / (Spec.p b * low)) y := by unfold Active at hact; omega
      rw [if_neg hnb]
      obtain ⟨hphi, hnext⟩ := hentry b le_rfl hblt hact
      generalize hminM : max (x / (Spec.p b * high)) (y / Spec.p b) = minM
      generalize hmaxM : min (x / (Spec.p b * low)) y = maxM
      have hA : x / (Spec.p b * high) ≤ minM := by rw [← hminM]; exact le_max_left _ _
      have hC : maxM ≤ x / (Spec.p b * low) := by rw [← hmaxM]; exact min_le_left _ _
      -- every m of the loop has its leaf position inside the window
      have hwin : ∀ m, m ∈ Ioc minM (minM + (maxM - minM)) →
          low ≤ x / (Spec.p b * m) ∧ x / (Spec.p b * m) < low + (high - low) := by
        intro m hm
        rw [mem_Ioc] at hm
        have hmpos : 0 < m := by omega
        have hmle : m ≤ maxM := by omega
        refine ⟨?_, ?_⟩
        · rw [Nat.le_div_iff_mul_le (Nat.mul_pos hppos hmpos)]
          have h2 := (Nat.le_div_iff_mul_le (Nat.mul_pos hppos hlow)).1 (le_trans hmle hC)
          have e2 : low * (Spec.p b * m) = m * (Spec.p b * low) := by ring
          rw [e2]; exact h2
        · have e3 : low + (high - low) = high := by omega
          rw [e3, Nat.div_lt_iff_lt_mul (Nat.mul_pos hppos hmpos)]
          have h2 := (Nat.div_lt_iff_lt_mul (Nat.mul_pos hppos (by omega : 0 < high))).1
            (lt_of_le_of_lt hA hm.1)
          have e2 : high * (Spec.p b * m) = m * (Spec.p b * high) := by ring
          rw [e2]; exact h2
      rw [hphi, leafLoop4_spec (T := T) (x := x) (minM := minM) hOK (by omega) hlowodd hsz hev hts hfw
        (maxM - minM) st.s2 hwin]
      simp only []
      rw [fwCount_spec hfw (by omega : low ≤ high - 1) (by omega),
        prefix_eq_phi hOK (by omega) hlowodd (high - 1 - low) (by omega)]
      simp only []
      have e1 : low + (high - 1 - low) = high - 1 := by omega
      rw [e1]
      obtain ⟨t', hco, hcsz4, hfw'⟩ := crossOff4_spec low high (Spec.p b * 2) hlowodd (by omega) (high - low)
        (st.next.getD b 0) sieve tree hnext.ge
        (by have := hnext.hit.2 (by omega); exact this) hsz hev hts hfw
      rw [hco]
      simp only []
      have hlev := crossOff_level (s := sieve) (low := low) (high := high) (b := b) (step := Spec.p b * 2)
        (k := st.next.getD b 0) hb1 hOK (Or.inr ⟨Nat.mul_comm _ _, hb2⟩)
        (by rw [Nat.max_eq_left hlow]; exact hnext)
      have hcsz := (crossOff_spec low high (Spec.p b * 2) (by omega) (high - low) (st.next.getD b 0) sieve
        hnext.ge (by have := hnext.ge; omega)).1
      have hbb : b + 1 - 1 = b := by omega
      have ephi : (Spec.phi (low - 1) (b - 1) : ℤ) + ((Spec.phi (high - 1) (b - 1) : ℤ) - Spec.phi (low - 1) (b - 1))
          = Spec.phi (high - 1) (b - 1) := by ring
      rw [ephi]
      set st1 : Seg := { next := st.next.setIfInBounds b (crossOff low high (Spec.p b * 2) (high - low) (st.next.getD b 0) sieve).1,
                         phi := st.phi.setIfInBounds b (Spec.phi (high - 1) (b - 1) : ℤ),
                         s2 := st.s2 - ∑ m ∈ Ioc minM (minM + (maxM - minM)), leafVal T x (Spec.p b) (b - 1) m } with hst1
      have hent1 : ∀ b', b + 1 ≤ b' → b' < π y → Active x y b' low → EntryOK st1 b' low := by
        intro b' h1 h2 h3
        obtain ⟨e1, e2⟩ := hentry b' (by omega) h2 h3
        refine ⟨?_, ?_⟩
        · show (st.phi.setIfInBounds b _).getD b' 0 = _
          rw [getD_setIfInBounds, if_neg (by omega)]; exact e1
        · show IsNext _ _ _ ((st.next.setIfInBounds b _).getD b' 0)
          rw [getD_setIfInBounds, if_neg (by omega)]; exact e2
      obtain ⟨st', h1, h2, h3, h4, h5, h6⟩ := ih (b + 1) _ t' st1 (by omega) (fun _ => by omega) (by omega)
        (by rw [hbb]; exact hlev.1) (by rw [hcsz]; exact hsz) (by rw [hcsz]; exact hev)
        (by rw [hcsz4, hcsz]; exact hts) hfw'
        (by rw [hst1]; simp only [Array.size_setIfInBounds]; exact hs1)
        (by rw [hst1]; simp only [Array.size_setIfInBounds]; exact hs2) hent1
      refine ⟨st', h1, ?_, h3, h4, ?_, ?_⟩
      · rw [h2, Finset.sum_eq_sum_Ico_succ_bot hblt, ← window_sum_eq T x y b hlow (by omega), hminM, hmaxM]
        have hI : Ioc minM (minM + (maxM - minM)) = Ioc minM maxM := by
          ext m; rw [mem_Ioc, mem_Ioc]; omega
        show st.s2 - ∑ m ∈ Ioc minM (minM + (maxM - minM)), leafVal T x (Spec.p b) (b - 1) m - _ = _
        rw [hI]; ring
      · intro b' hb' hb'lt hact'
        rcases Nat.lt_or_ge b b' with hgt | hle
        · exact h5 b' (by omega) hb'lt hact'
        · have : b' = b := by omega
          subst this
          obtain ⟨f1, f2⟩ := h6 b' (by omega)
          refine ⟨?_, ?_⟩
          · rw [f2]
            show (st.phi.setIfInBounds b' _).getD b' 0 = _
            rw [getD_setIfInBounds, if_pos ⟨rfl, by omega⟩]
          · rw [f1]
            show IsNext _ _ _ ((st.next.setIfInBounds b' _).getD b' 0)
            rw [getD_setIfInBounds, if_pos ⟨rfl, by omega⟩]
            exact hlev.2 (by rw [Nat.max_eq_left hlow]; omega)
      · intro b' hb'
        obtain ⟨f1, f2⟩ := h6 b' (by omega)
        rw [f1, f2]
        refine ⟨?_, ?_⟩
        · show (st.next.setIfInBounds b _).getD b' 0 = _
          rw [getD_setIfInBounds, if_neg (by omega)]
        · show (st.phi.setIfInBounds b _).getD b' 0 = _
          rw [getD_setIfInBounds, if_neg (by omega)]
    · have hge : Spec.p b ≥ min (x / (Spec.p b * low)) y := by unfold Active at hact; omega
      rw [if_pos hge]
      refine ⟨st, rfl, ?_, hs1, hs2, ?_, fun _ _ => ⟨rfl, rfl⟩⟩
      · rw [Finset.sum_eq_zero, sub_zero]
        intro b' hb'
        rw [mem_Ico] at hb'
        exact levelSumW_inactive hT (by omega) (by omega) hlow
          (fun h => hact (h.mono_b hb'.1 hlow)) high
      · intro b' hb' _ hact'
        exact absurd ((hact'.mono_low (by omega) hlow).mono_b hb' hlow) hact

theorem segLoop4_done (T : Tables) (x y c piY limit segSize : ℕ) {low : ℕ} (h : limit ≤ low) (n : ℕ) (st : Seg) :
    segLoop4 T x y c piY limit segSize n low st = some st := by
  cases n with
  | zero => rfl
  | succ n => rw [segLoop4, if_neg (by omega)]

/-- the segment loop of pi_lmo4.cpp, for any EVEN segment size (every `low` is then odd) -/
theorem segLoop4_spec (hT : T.Valid y) (hc : c ≤ π y) (hc1 : 1 ≤ c) {segSize : ℕ} (hseg : 1 ≤ segSize)
    (heven : segSize % 2 = 0) (hword : segSize / 2 < 2 ^ 64) :
    ∀ (n low : ℕ) (st : Seg), 1 ≤ low → low % 2 = 1 → x / y ≤ low + n →
      st.next.size = T.primes.size → st.phi.size = T.primes.size →
      (∀ b, 1 ≤ b → b ≤ c → IsNext (Spec.p b) (Spec.p b) low (st.next.getD b 0)) →
      (∀ b, c + 1 ≤ b → b < π y → Active x y b low → EntryOK st b low) →
      ∃ st', segLoop4 T x y c (π y) (x / y) segSize n low st = some st' ∧
        st'.s2 = st.s2 - ∑ b ∈ Ico (c + 1) (π y), levelSumW T x y b low (x / y) := by
  intro n
  induction n with
  | zero =>
    intro low st _ _ hn _ _ _ _
    refine ⟨st, rfl, ?_⟩
    rw [Finset.sum_eq_zero, sub_zero]
    intro b _
    exact levelSumW_empty T x y b (by omega)
  | succ n ih =>
    intro low st hlow hlowodd hn hs1 hs2 hsmall hbig
    by_cases hlt : low < x / y
    · rw [segLoop4, if_pos hlt]
      simp only []
      set high := min (low + segSize) (x / y) with hhigh
      have hlh : low < high := by rw [hhigh, lt_min_iff]; omega
      have hhl : high ≤ x / y := min_le_right _ _
      have hwin : high - low ≤ segSize := by
        have := min_le_left (low + segSize) (x / y); omega
      obtain ⟨p1, p2, p3, p4, p5⟩ := preSieve_spec hT hlow hlh.le (segSize := segSize) hwin st.next c hc hsmall
      set ns := preSieve T low high c st.next (Array.replicate segSize true) with hns
      have hcc : c + 1 - 1 = c := by omega
      obtain ⟨q1, q2⟩ := fwInit_spec ns.2 (by rw [p2]; exact hword)
      obtain ⟨st', h1, h2, h3, h4, h5, h6⟩ := bLoop4_spec (x := x) hT hlow hlowodd hlh (π y - (c + 1)) (c + 1) ns.2
        (fwInit ns.2) { st with next := ns.1 } (by omega) (fun h => by omega) (by omega) (by rw [hcc]; exact p1)
        (by rw [p2]; exact hwin) (by rw [p2]; exact heven) q1 q2 (by show ns.1.size = _; rw [p3, hs1]) hs2
        (fun b hb hblt hact => by
          obtain ⟨e1, e2⟩ := hbig b hb hblt hact
          exact ⟨e1, by show IsNext _ _ _ (ns.1.getD b 0); rw [p5 b (by omega)]; exact e2⟩)
      rw [h1]
      simp only []
      by_cases hmore : low + segSize < x / y
      · have hhs : high = low + segSize := by rw [hhigh, min_eq_left hmore.le]
        obtain ⟨st'', g1, g2⟩ := ih (low + segSize) st' (by omega) (by omega) (by omega) h3 h4
          (fun b hb1 hbc => by
            rw [(h6 b (by omega)).1, ← hhs]
            exact p4 b hb1 hbc)
          (fun b hb hblt hact => by rw [← hhs] at hact ⊢; exact h5 b hb hblt hact)
        refine ⟨st'', g1, ?_⟩
        rw [g2, h2]
        show st.s2 - _ - _ = _
        rw [sub_sub, ← Finset.sum_add_distrib]
        congr 1
        apply Finset.sum_congr rfl
        intro b _
        rw [← hhs]
        exact levelSumW_add T x y b hlh.le hhl
      · have hhs : high = x / y := by rw [hhigh, min_eq_right (by omega)]
        rw [segLoop4_done T x y c (π y) (x / y) segSize (by omega) n st']
        refine ⟨st', rfl, ?_⟩
        rw [h2, hhs]
    · rw [segLoop4, if_neg hlt]
      refine ⟨st, rfl, ?_⟩
      rw [Finset.sum_eq_zero, sub_zero]
      intro b _
      exact levelSumW_empty T x y b (by omega)

/-- without any level `b > c` the segment loop never reads the tree -/
theorem segLoop4_nolevel (T : Tables) (x y c piY limit segSize : ℕ) (hno : piY ≤ c + 1) :
    ∀ (n low : ℕ) (st : Seg), ∃ st', segLoop4 T x y c piY limit segSize n low st = some st' ∧ st'.s2 = st.s2 := by
  intro n
  induction n with
  | zero => intro low st; exact ⟨st, rfl, rfl⟩
  | succ n ih =>
    intro low st
    rw [segLoop4]
    split_ifs with h
    · simp only []
      have h0 : piY - (c + 1) = 0 := by omega
      rw [h0, bLoop4]
      simp only []
      obtain ⟨st', g1, g2⟩ := ih (low + segSize) { st with next := (preSieve T low (min (low + segSize) limit) c st.next (Array.replicate segSize true)).1 }
      exact ⟨st', g1, g2⟩
    · exact ⟨st, rfl, rfl⟩

/-- **the Fenwick-tree engine of pi_lmo4.cpp computes the special leaves** for every even segment size (odd sizes only
    when there is no level at all, as in the code's `segment_size = 1` for `x / y ≤ 3`) -/
theorem s2Seg4_eq (hT : T.Valid y) (hy : 1 ≤ y) (hyx : y * y ≤ x) (hc : c ≤ π y) {segSize : ℕ} (hseg : 1 ≤ segSize)
    (hword : segSize / 2 < 2 ^ 64) (hlev : (1 ≤ c ∧ segSize % 2 = 0) ∨ π y ≤ c + 1) :
    s2Seg4 T x y c T.piY segSize = some (Spec.S2 x y c) := by
  unfold s2Seg4
  rw [if_neg (show ¬ y = 0 by omega), hT.piY]
  simp only []
  have hpiY : T.primes.size - 1 = π y := hT.piY
  rcases Nat.lt_or_ge (c + 1) (π y) with hlt | hge
  · obtain ⟨hc1, heven⟩ : 1 ≤ c ∧ segSize % 2 = 0 := by
      rcases hlev with h | h
      · exact h
      · omega
    obtain ⟨st', h1, h2⟩ := segLoop4_spec (x := x) hT hc hc1 hseg heven hword (x / y) 1
      { next := T.primes, phi := Array.replicate T.primes.size 0, s2 := 0 } le_rfl (by norm_num) (by omega) rfl
      (by simp)
      (fun b hb1 hbc => by
        show IsNext _ _ _ (T.p b)
        rw [hT.p_eq b hb1 (by omega)]
        exact isNext_init (Or.inl rfl))
      (fun b hb hblt _ => by
        refine ⟨?_, ?_⟩
        · show (Array.replicate T.primes.size (0 : ℤ)).getD b 0 = _
          rw [Array.getD_eq_getD_getElem?, Array.getElem?_replicate, if_pos (by omega), Nat.sub_self,
            Spec.phi_zero_left]; rfl
        · show IsNext _ _ _ (T.p b)
          rw [hT.p_eq b (by omega) (by omega)]
          exact isNext_init (Or.inr ⟨Nat.mul_comm _ _, by omega⟩))
    rw [h1, Option.map_some, h2, Spec.S2_eq_sum_Ioo]
    congr 1
    show (0 : ℤ) - _ = _
    rw [zero_sub]
    congr 1
    have hI : Ico (c + 1) (π y) = Ioo c (π y) := by
      ext b; rw [mem_Ico, mem_Ioo]; omega
    rw [hI]
    apply Finset.sum_congr rfl
    intro b hb
    rw [mem_Ioo] at hb
    rw [levelSumW_full hy hyx (by omega) (by omega), levelSum_eq_specTerm hT (by omega) (by omega)]
  · obtain ⟨st', g1, g2⟩ := segLoop4_nolevel T x y c (π y) (x / y) segSize hge (x / y) 1
      { next := T.primes, phi := Array.replicate T.primes.size 0, s2 := 0 }
    rw [g1, Option.map_some, g2, Spec.S2_eq_sum_Ioo]
    have hE : Ioo c (π y) = ∅ := by
      ext b; rw [mem_Ioo]; simp only [Finset.notMem_empty, iff_false]; omega
    rw [hE]; simp

/-! ### pi_lmo4 -/

theorem nextPow2_pos (n : ℕ) : 1 ≤ nextPow2 n := by
  unfold nextPow2
  split_ifs
  · exact le_rfl
  · exact Nat.one_le_two_pow

theorem nextPow2_even {n : ℕ} (hn : 2 ≤ n) : nextPow2 n % 2 = 0 := by
  unfold nextPow2
  rw [if_neg (by omega), pow_succ]
  omega

theorem nextPow2_le {n : ℕ} (hn : 2 ≤ n) : nextPow2 n ≤ 2 * (n - 1) := by
  unfold nextPow2
  rw [if_neg (by omega), pow_succ]
  have := Nat.log2_self_le (n := n - 1) (by omega)
  omega

/-- **S2 of pi_lmo4.cpp** (`segment_size = next_power_of_2(isqrt(limit))`), for `x / y < 2^64` -/
theorem s2Lmo4_eq (hT : T.Valid y) (hy : 1 ≤ y) (hyx : y * y ≤ x) (hc : c ≤ π y) (hc1 : 1 ≤ c ∨ π y ≤ c + 1)
    (hxw : x / y < 2 ^ 64) : s2Lmo4 T x y c T.piY = some (Spec.S2 x y c) := by
  unfold s2Lmo4
  have hlim : y ≤ x / y := (Nat.le_div_iff_mul_le (by omega)).2 hyx
  have hsq : isqrtN (x / y) ≤ x / y := by rw [isqrtN_eq]; exact Nat.sqrt_le_self _
  rcases Nat.lt_or_ge (isqrtN (x / y)) 2 with hsmall | hbig
  · -- x / y ≤ 3: then y ≤ 3 and there is at most one level
    have hlt4 : x / y < 4 := by
      rw [isqrtN_eq, Nat.sqrt_lt'] at hsmall
      norm_num at hsmall; exact hsmall
    have hy3 : y ≤ 3 := by omega
    have hpi : π y ≤ 2 := by
      calc π y ≤ π 3 := Spec.pi_mono hy3
        _ = 2 := by decide
    apply s2Seg4_eq hT hy hyx hc (nextPow2_pos _)
    · have : nextPow2 (isqrtN (x / y)) = 1 := by unfold nextPow2; rw [if_pos (by omega)]
      rw [this]; norm_num
    · right
      rcases hc1 with h | h
      · omega
      · exact h
  · apply s2Seg4_eq hT hy hyx hc (nextPow2_pos _)
    · have := nextPow2_le hbig
      omega
    · rcases hc1 with h | h
      · left; exact ⟨h, nextPow2_even hbig⟩
      · right; exact h

/-- **pi_lmo4** (control flow of src/lmo/pi_lmo4.cpp: segmented sieve + binary indexed tree) returns π(x) for every
    int64 `x` and EVERY value `y` the float product `(int64_t)(x13 * alpha)` may take -/
theorem piLmo4_eq_pi (x : ℤ) (hx64 : x < 2 ^ 63) (y : ℕ) (hy3 : irootN 3 x.toNat ≤ y) (hyx : y * y ≤ x.toNat) :
    piLmo4 y x = some (π x.toNat : ℤ) := by
  unfold piLmo4
  split_ifs with h
  · rw [pi_toNat_of_lt_two h]; rfl
  · have hx : 2 ≤ x.toNat := by omega
    have h3 := irootN_pos (n := 3) (by omega) (by omega : 1 ≤ x.toNat)
    have hy : 1 ≤ y := by omega
    have hxw : x.toNat / y < 2 ^ 64 := by
      have h1 : x.toNat / y ≤ x.toNat := Nat.div_le_self _ _
      have h2 : x.toNat < 2 ^ 63 := by omega
      have : (2 : ℕ) ^ 63 < 2 ^ 64 := by norm_num
      omega
    simp only []
    rw [s2Lmo4_eq (tablesFor_valid y) hy hyx (getC_le_pi y) (getC_level y hy) hxw]
    simp only []
    rw [lmo_total hx hy3 hyx]

end Pc.SimpleAlgs
