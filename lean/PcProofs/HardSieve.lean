/-
WP hard: the abstract counting-sieve contract `SieveSpec` the engines `S2_hard_thread` / `D_thread` rely on.

`cnt L lvl stop` = number of `n ∈ [L, L + stop]` divisible by none of the first `lvl` primes (`n = 0` never counts).
The contract is the client-side reading of C17's `sieve_correct` (PcProps/C17Sieve.lean): consecutive segments,
`pre_sieve(c)`, slots crossed off in increasing order, a slot may be used in a segment only if it was used in every
earlier segment (new slots only in the first), non-decreasing `count(stop)` queries between resets.
-/
import PcModel.HardLoops
import PcProofs.Spec.All
import PcProofs.SimpleAlgsSieve

namespace Pc.Hard
open Nat

/-- number of `n ∈ [L, L + stop]` (`n ≥ 1`) not divisible by any of the first `lvl` primes -/
noncomputable def cnt (L lvl stop : ℕ) : ℕ := Spec.phi (L + stop) lvl - Spec.phi (L - 1) lvl

/-- the contract of a counting sieve whose wheel may hold the sieving primes `p 4 … p Kmax` -/
structure SieveSpec {σ : Type} (S : SieveOps σ) (Kmax : ℕ) where
  /-- admissible `(low, segment_size)` of the constructor -/
  segOK : ℕ → ℕ → Prop
  /-- `Ready s L K seg`: `s` is about to start the segment at `L`; the slots of the levels `4 … K` may be used -/
  Ready : σ → ℕ → ℕ → ℕ → Prop
  /-- `Seg s L n lvl K prev seg`: `s` holds the segment `[L, L + n)`, the primes of the levels `≤ lvl` are crossed off,
      the slots of the levels `≤ K` may still be used in this segment, the last `count` query was at `prev` -/
  Seg : σ → ℕ → ℕ → ℕ → ℕ → ℕ → ℕ → Prop
  create_ready : ∀ low seg w, segOK low seg → Ready (S.create low seg w) low Kmax seg
  pre_seg : ∀ s L K seg c n, Ready s L K seg → 3 ≤ c → c ≤ K → 1 ≤ n → n ≤ seg →
    Seg (S.pre s c L (L + n)) L n c K 0 seg
  count_val : ∀ s L n lvl K prev seg stop, Seg s L n lvl K prev seg → prev ≤ stop → stop < n →
    (S.count s stop).2 = cnt L lvl stop
  count_seg : ∀ s L n lvl K prev seg stop, Seg s L n lvl K prev seg → prev ≤ stop → stop < n →
    Seg (S.count s stop).1 L n lvl K stop seg
  total_val : ∀ s L n lvl K prev seg, Seg s L n lvl K prev seg → S.total s = cnt L lvl (n - 1)
  cross_seg : ∀ s L n lvl K prev seg, Seg s L n lvl K prev seg → lvl + 1 ≤ K →
    Seg (S.cross s (Spec.p (lvl + 1)) (lvl + 1)) L n (lvl + 1) K 0 seg
  next_ready : ∀ s L lvl K prev seg, Seg s L seg lvl K prev seg → Ready s (L + seg) lvl seg

end Pc.Hard
