/-
Correctness of the executable oracles of PcModel/Oracle.lean: trial division, sieve of Eratosthenes,
counting loops. (Window sieve: PcProofs/OracleWindow.lean; phiNaive: PcProofs/OraclePhi.lean.)
-/
import PcModel.Oracle
import Mathlib.NumberTheory.PrimeCounting
import Mathlib.Tactic

namespace Pc
open Nat

/-! ## trial division -/

theorem noDivisorFrom_iff (n : ℕ) : ∀ fuel d, 1 ≤ d →
    (noDivisorFrom n fuel d = true ↔ ∀ k, d ≤ k → k < d + fuel → k * k ≤ n → ¬ k ∣ n) := by
  intro fuel
  induction fuel with
  | zero => intro d _; simp [noDivisorFrom]; intro k h1 h2; omega
  | succ f ih =>
    intro d hd
    unfold noDivisorFrom
    by_cases h1 : d * d > n
    · simp only [h1, if_true, true_iff]
      intro k hk _ hkk
      have : d * d ≤ k * k := Nat.mul_le_mul hk hk
      omega
    · simp only [h1, if_false]
      by_cases h2 : n % d = 0
      · simp only [h2, beq_self_eq_true, if_true, Bool.false_eq_true, false_iff]
        intro h
        exact h d le_rfl (by omega) (by omega) (Nat.dvd_of_mod_eq_zero h2)
      · have h2' : (n % d == 0) = false := by simpa using h2
        simp only [h2', Bool.false_eq_true, if_false]
        rw [ih (d + 1) (by omega)]
        constructor
        · intro h k hk1 hk2 hkk
          rcases Nat.eq_or_lt_of_le hk1 with h3 | h3
          · subst h3; intro hdv; exact h2 (Nat.mod_eq_zero_of_dvd hdv)
          · exact h k (by omega) (by omega) hkk
        · intro h k hk1 hk2 hkk
          exact h k (by omega) (by omega) hkk

theorem isPrimeTD_iff (n : ℕ) : isPrimeTD n = true ↔ Nat.Prime n := by
  unfold isPrimeTD
  rw [Bool.and_eq_true, decide_eq_true_iff, noDivisorFrom_iff n n 2 (by omega), Nat.prime_def_le_sqrt]
  constructor
  · rintro ⟨h2, h⟩
    refine ⟨h2, fun m hm1 hm2 => ?_⟩
    have hmm : m * m ≤ n := Nat.le_sqrt.mp hm2
    have : m ≤ m * m := Nat.le_mul_self m
    exact h m hm1 (by omega) hmm
  · rintro ⟨h2, h⟩
    exact ⟨h2, fun k hk1 _ hkk => h k hk1 (Nat.le_sqrt.mpr hkk)⟩

theorem isPrimeTD_eq_decide (n : ℕ) : isPrimeTD n = decide (Nat.Prime n) := by
  rw [Bool.eq_iff_iff, isPrimeTD_iff]; simp

/-- length of a filtered range is `Nat.count` -/
theorem Oracle.length_filter_range (f : ℕ → Bool) (n : ℕ) :
    ((List.range n).filter f).length = Nat.count (fun k => f k = true) n := by
  rw [Nat.count, ← List.countP_eq_length_filter]
  congr 1
  funext k; simp

theorem Oracle.count_congr {p q : ℕ → Prop} [DecidablePred p] [DecidablePred q] (n : ℕ)
    (h : ∀ k < n, p k ↔ q k) : Nat.count p n = Nat.count q n := by
  induction n with
  | zero => simp
  | succ m ih =>
    rw [Nat.count_succ, Nat.count_succ, ih (fun k hk => h k (by omega))]
    simp only [h m (by omega)]

theorem piTD_eq (n : ℕ) : piTD n = Nat.primeCounting n := by
  unfold piTD primesUpToTD
  rw [Oracle.length_filter_range]
  show _ = Nat.count Nat.Prime (n + 1)
  exact Oracle.count_congr _ (fun k _ => isPrimeTD_iff k)

theorem primesUpToTD_mem (n q : ℕ) : q ∈ primesUpToTD n ↔ q ≤ n ∧ Nat.Prime q := by
  unfold primesUpToTD
  rw [List.mem_filter, List.mem_range, isPrimeTD_iff, Nat.lt_succ_iff]

theorem primesUpToTD_sorted (n : ℕ) : (primesUpToTD n).Pairwise (· < ·) := by
  unfold primesUpToTD
  exact List.Pairwise.filter _ List.pairwise_lt_range

/-- `primesUpToTD n` is the strictly increasing list of exactly the primes `≤ n` -/
theorem primesUpToTD_spec (n : ℕ) :
    (primesUpToTD n).Pairwise (· < ·) ∧ ∀ q, q ∈ primesUpToTD n ↔ q ≤ n ∧ Nat.Prime q :=
  ⟨primesUpToTD_sorted n, primesUpToTD_mem n⟩

/-- number of primes in `(a, b]` as a difference of π -/
theorem Oracle.count_prime_window (a b : ℕ) (h : a ≤ b) :
    Nat.count (fun k => Nat.Prime (a + 1 + k)) (b - a) = Nat.primeCounting b - Nat.primeCounting a := by
  have : b + 1 = (a + 1) + (b - a) := by omega
  show _ = Nat.count Nat.Prime (b + 1) - Nat.count Nat.Prime (a + 1)
  rw [this, Nat.count_add]
  omega

theorem primesInTD_eq (a b : ℕ) (h : a ≤ b) :
    primesInTD a b = Nat.primeCounting b - Nat.primeCounting a := by
  unfold primesInTD
  rw [Oracle.length_filter_range, ← Oracle.count_prime_window a b h]
  exact Oracle.count_congr _ (fun k _ => isPrimeTD_iff _)

/-! ## arrays of flags -/

theorem Oracle.getD_set! (a : Array Bool) (j i : ℕ) (v : Bool) :
    (a.set! j v).getD i false = if j = i ∧ j < a.size then v else a.getD i false := by
  simp only [Array.set!_eq_setIfInBounds, Array.getD_eq_getD_getElem?, Array.getElem?_setIfInBounds]
  by_cases h1 : j = i
  · subst h1
    by_cases h2 : j < a.size
    · simp [h2]
    · simp [h2]
  · simp [h1]

theorem Oracle.lt_size_of_getD {a : Array Bool} {i : ℕ} (h : a.getD i false = true) : i < a.size := by
  by_contra hc
  simp [Array.getD, hc] at h

theorem Oracle.getD_replicate (m i : ℕ) : (Array.replicate m true).getD i false = decide (i < m) := by
  by_cases h : i < m <;> simp [Array.getD, h]

theorem crossOff_size (p : ℕ) : ∀ fuel j a, (crossOff p fuel j a).size = a.size := by
  intro fuel
  induction fuel with
  | zero => intro j a; rfl
  | succ f ih =>
    intro j a
    unfold crossOff
    split
    · rw [ih]; simp
    · rfl

/-- `crossOff p fuel j a` clears exactly the indices `j, j+p, j+2p, ...` (given enough fuel) -/
theorem crossOff_getD (p : ℕ) (hp : 1 ≤ p) : ∀ fuel j (a : Array Bool), a.size ≤ fuel * p + j → ∀ i,
    ((crossOff p fuel j a).getD i false = true ↔ a.getD i false = true ∧ ¬ (j ≤ i ∧ p ∣ i - j)) := by
  intro fuel
  induction fuel with
  | zero =>
    intro j a hsz i
    simp only [crossOff]
    constructor
    · intro h; exact ⟨h, fun hh => by have := Oracle.lt_size_of_getD h; omega⟩
    · intro h; exact h.1
  | succ f ih =>
    intro j a hsz i
    unfold crossOff
    by_cases hj : j < a.size
    · simp only [hj, if_true]
      rw [ih (j + p) (a.set! j false) (by simp; nlinarith) i, Oracle.getD_set!]
      constructor
      · rintro ⟨h1, h2⟩
        by_cases hji : j = i
        · subst hji; simp [hj] at h1
        · have h1' : a.getD i false = true := by simpa [hji] using h1
          refine ⟨h1', fun ⟨h3, h4⟩ => h2 ⟨?_, ?_⟩⟩
          · obtain ⟨c, hc⟩ := h4
            rcases Nat.eq_zero_or_pos c with h0 | h0
            · subst h0; omega
            · have : p ≤ p * c := Nat.le_mul_of_pos_right p h0
              omega
          · have : i - j = (i - (j + p)) + p := by
              obtain ⟨c, hc⟩ := h4
              rcases Nat.eq_zero_or_pos c with h0 | h0
              · subst h0; omega
              · have : p ≤ p * c := Nat.le_mul_of_pos_right p h0
                omega
            rw [this] at h4
            exact (Nat.dvd_add_self_right).mp h4
      · rintro ⟨h1, h2⟩
        have hji : j ≠ i := by
          intro h; subst h; exact h2 ⟨le_rfl, by simp⟩
        refine ⟨by simpa [hji] using h1, fun ⟨h3, h4⟩ => h2 ⟨by omega, ?_⟩⟩
        have : i - j = (i - (j + p)) + p := by omega
        rw [this]
        exact (Nat.dvd_add_self_right).mpr h4
    · simp only [hj, if_false]
      constructor
      · intro h; exact ⟨h, fun hh => by have := Oracle.lt_size_of_getD h; omega⟩
      · intro h; exact h.1

/-! ## sieve of Eratosthenes -/

/-- loop invariant: after all `d < p` have been handled, `i` is marked iff `i ≥ 2` and no `d` with
    `2 ≤ d < p`, `d * d ≤ i` divides `i` -/
def SieveInv (n p : ℕ) (a : Array Bool) : Prop :=
  a.size = n + 1 ∧ ∀ i, i ≤ n → (a.getD i false = true ↔ 2 ≤ i ∧ ∀ d, 2 ≤ d → d < p → d ∣ i → i < d * d)

theorem sieveInit_inv (n : ℕ) : SieveInv n 2 (sieveInit n) := by
  refine ⟨by simp [sieveInit], fun i hi => ?_⟩
  unfold sieveInit
  rw [Oracle.getD_set!, Oracle.getD_set!, Oracle.getD_replicate]
  constructor
  · intro h
    refine ⟨?_, fun d h1 h2 => by omega⟩
    by_contra hc
    have : i = 0 ∨ i = 1 := by omega
    rcases this with rfl | rfl
    · by_cases h1 : n = 0 <;> simp_all
    · simp_all
  · rintro ⟨h2, -⟩
    have h0 : ¬ (1 = i) := by omega
    have h1 : ¬ (0 = i) := by omega
    simp [h0, h1]; omega

theorem sieveInv_final {n p : ℕ} {a : Array Bool} (hp : n < p * p) (h : SieveInv n p a) :
    ∀ i, i ≤ n → (a.getD i false = true ↔ Nat.Prime i) := by
  intro i hi
  rw [h.2 i hi, Nat.prime_def_le_sqrt]
  constructor
  · rintro ⟨h2, hd⟩
    refine ⟨h2, fun m hm1 hm2 hdv => ?_⟩
    have hmm : m * m ≤ i := Nat.le_sqrt.mp hm2
    have hmp : m < p := by
      by_contra hc
      have : p * p ≤ m * m := Nat.mul_le_mul (by omega) (by omega)
      omega
    have := hd m hm1 hmp hdv
    omega
  · rintro ⟨h2, hd⟩
    refine ⟨h2, fun d hd1 _ hdv => ?_⟩
    by_contra hc
    exact hd d hd1 (Nat.le_sqrt.mpr (by omega)) hdv

theorem sieveInv_step_marked {n p : ℕ} {a : Array Bool} (hp2 : 2 ≤ p) (h : SieveInv n p a) :
    SieveInv n (p + 1) (crossOff p (n + 1) (p * p) a) := by
  refine ⟨by rw [crossOff_size]; exact h.1, fun i hi => ?_⟩
  rw [crossOff_getD p (by omega) (n + 1) (p * p) a (by rw [h.1]; nlinarith) i, h.2 i hi]
  have hdvd : p * p ≤ i → (p ∣ i - p * p ↔ p ∣ i) := by
    intro hle
    have : i = (i - p * p) + p * p := by omega
    constructor
    · intro hh; rw [this]; exact Dvd.dvd.add hh (Dvd.intro _ rfl)
    · intro hh; exact Nat.dvd_sub hh (Dvd.intro _ rfl)
  constructor
  · rintro ⟨⟨h2, hd⟩, hn⟩
    refine ⟨h2, fun d hd1 hd2 hdv => ?_⟩
    rcases Nat.lt_or_ge d p with hlt | hge
    · exact hd d hd1 hlt hdv
    · have : d = p := by omega
      subst this
      by_contra hc
      exact hn ⟨by omega, (hdvd (by omega)).mpr hdv⟩
  · rintro ⟨h2, hd⟩
    refine ⟨⟨h2, fun d hd1 hd2 hdv => hd d hd1 (by omega) hdv⟩, fun ⟨h3, h4⟩ => ?_⟩
    have := hd p hp2 (by omega) ((hdvd h3).mp h4)
    omega

theorem sieveInv_step_unmarked {n p : ℕ} {a : Array Bool} (hpn : p * p ≤ n)
    (hm : ¬ a.getD p false = true) (h : SieveInv n p a) : SieveInv n (p + 1) a := by
  refine ⟨h.1, fun i hi => ?_⟩
  rw [h.2 i hi]
  constructor
  · rintro ⟨h2, hd⟩
    refine ⟨h2, fun d hd1 hd2 hdv => ?_⟩
    rcases Nat.lt_or_ge d p with hlt | hge
    · exact hd d hd1 hlt hdv
    · have : d = p := by omega
      subst this
      have hple : d ≤ n := le_trans (Nat.le_mul_self d) hpn
      rw [h.2 d hple] at hm
      push Not at hm
      obtain ⟨e, he1, he2, he3, he4⟩ := hm hd1
      have h5 := hd e he1 he2 (dvd_trans he3 hdv)
      have : e * e ≤ d * d := Nat.mul_le_mul (by omega) (by omega)
      have : d ≤ d * d := Nat.le_mul_self d
      omega
  · rintro ⟨h2, hd⟩
    exact ⟨h2, fun d hd1 hd2 hdv => hd d hd1 (by omega) hdv⟩

theorem sieveLoop_spec (n : ℕ) : ∀ fuel p (a : Array Bool), 2 ≤ p → n + 3 ≤ fuel + p → SieveInv n p a →
    ∀ i, i ≤ n → ((sieveLoop n fuel p a).getD i false = true ↔ Nat.Prime i) := by
  intro fuel
  induction fuel with
  | zero =>
    intro p a _ hf h
    simp only [sieveLoop]
    exact sieveInv_final (by nlinarith) h
  | succ f ih =>
    intro p a hp2 hf h
    unfold sieveLoop
    by_cases h1 : p * p > n
    · simp only [h1, if_true]; exact sieveInv_final h1 h
    · simp only [h1, if_false]
      by_cases h2 : a.getD p false = true
      · simp only [h2, if_true]
        exact ih (p + 1) _ (by omega) (by omega) (sieveInv_step_marked hp2 h)
      · simp only [h2, Bool.false_eq_true, if_false]
        exact ih (p + 1) a (by omega) (by omega) (sieveInv_step_unmarked (by omega) h2 h)

/-- the sieve of Eratosthenes marks exactly the primes -/
theorem sieveArr_spec (n : ℕ) : ∀ i, i ≤ n → ((sieveArr n).getD i false = true ↔ Nat.Prime i) :=
  sieveLoop_spec n (n + 1) 2 (sieveInit n) le_rfl (by omega) (sieveInit_inv n)

/-! ## counting -/

theorem countFrom_eq (s : Array Bool) : ∀ fuel i acc,
    countFrom s fuel i acc = acc + Nat.count (fun k => s.getD (i + k) false = true) fuel := by
  intro fuel
  induction fuel with
  | zero => intro i acc; simp [countFrom]
  | succ f ih =>
    intro i acc
    unfold countFrom
    rw [ih, Nat.count_succ']
    have : ∀ k, i + 1 + k = i + (k + 1) := fun k => by omega
    simp only [this, Nat.add_zero]
    split_ifs <;> omega

theorem piSieve_eq (n : ℕ) : piSieve n = Nat.primeCounting n := by
  unfold piSieve
  rw [countFrom_eq]
  show _ = Nat.count Nat.Prime (n + 1)
  rw [Nat.zero_add]
  exact Oracle.count_congr _ (fun k hk => by rw [Nat.zero_add]; exact sieveArr_spec n k (by omega))

theorem primesUpTo_eq (n : ℕ) : primesUpTo n = primesUpToTD n := by
  unfold primesUpTo primesOfSieve primesUpToTD
  apply List.filter_congr
  intro i hi
  rw [List.mem_range] at hi
  rw [Bool.eq_iff_iff, sieveArr_spec n i (by omega), isPrimeTD_iff]

/-- `primesUpTo n` is the strictly increasing list of exactly the primes `≤ n` -/
theorem primesUpTo_spec (n : ℕ) :
    (primesUpTo n).Pairwise (· < ·) ∧ ∀ q, q ∈ primesUpTo n ↔ q ≤ n ∧ Nat.Prime q := by
  rw [primesUpTo_eq]; exact primesUpToTD_spec n

theorem primesUpTo_length (n : ℕ) : (primesUpTo n).length = Nat.primeCounting n := by
  rw [primesUpTo_eq]; exact piTD_eq n

theorem Oracle.getD_push (acc : Array ℕ) (c j : ℕ) :
    (acc.push c).getD j 0 = if j < acc.size then acc.getD j 0 else if j = acc.size then c else 0 := by
  simp only [Array.getD_eq_getD_getElem?, Array.getElem?_push]
  by_cases h1 : j = acc.size
  · simp [h1]
  · by_cases h2 : j < acc.size
    · simp [h1, h2]
    · simp [h1, h2]

theorem piTableLoop_spec (s : Array Bool) : ∀ fuel i c (acc : Array ℕ), acc.size = i →
    c = Nat.count (fun k => s.getD k false = true) i →
    (∀ j, j < i → acc.getD j 0 = Nat.count (fun k => s.getD k false = true) (j + 1)) →
    (piTableLoop s fuel i c acc).size = i + fuel ∧
    ∀ j, j < i + fuel → (piTableLoop s fuel i c acc).getD j 0 = Nat.count (fun k => s.getD k false = true) (j + 1) := by
  intro fuel
  induction fuel with
  | zero => intro i c acc h1 _ h3; exact ⟨h1, h3⟩
  | succ f ih =>
    intro i c acc h1 h2 h3
    unfold piTableLoop
    have hc : (if s.getD i false = true then c + 1 else c) = Nat.count (fun k => s.getD k false = true) (i + 1) := by
      rw [Nat.count_succ, h2]; split_ifs <;> rfl
    have := ih (i + 1) _ (acc.push (if s.getD i false = true then c + 1 else c)) (by simp [h1]) hc (by
      intro j hj
      rw [Oracle.getD_push, h1]
      by_cases hji : j < i
      · simp only [hji, if_true]; exact h3 j hji
      · have : j = i := by omega
        subst this; simp only [lt_irrefl, if_false, if_true]; exact hc)
    simp only
    refine ⟨by rw [this.1]; omega, fun j hj => this.2 j (by omega)⟩

/-- `piTableArr n` holds `π(0), …, π(n)` -/
theorem piTableArr_spec (n : ℕ) : (piTableArr n).size = n + 1 ∧
    ∀ i, i ≤ n → (piTableArr n).getD i 0 = Nat.primeCounting i := by
  have := piTableLoop_spec (sieveArr n) (n + 1) 0 0 (Array.mkEmpty (n + 1)) (by simp) (by simp)
    (fun j hj => by omega)
  refine ⟨by unfold piTableArr piTableOf; rw [this.1]; omega, fun i hi => ?_⟩
  unfold piTableArr piTableOf
  rw [this.2 i (by omega)]
  show _ = Nat.count Nat.Prime (i + 1)
  exact Oracle.count_congr _ (fun k hk => sieveArr_spec n k (by omega))

end Pc
