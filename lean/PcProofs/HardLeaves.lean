/-
WP hard: what the two leaf loops enumerate.

* `leafItems1` (`for (m = max_m; m > min_m; m--) if (prime < factor_[m]) …` over FactorTable INDICES): its value is the sum
  over the NUMBERS `m ∈ (minM, maxM]` coprime to 2·3·5·7·11 that pass the test, positions non-decreasing;
* `leafItems2` (`for (; primes[l] > min; l--)`): the primes `p i`, `π(min) < i ≤ l`.
-/
import PcProofs.HardEngine
import PcProofs.FactorTable

namespace Pc.Hard
open Nat Finset
open scoped Nat.Prime

attribute [local irreducible] ftToNumber ftToIndex

theorem toIndex_lt_iff (minM : ℕ) (h1 : 1 ≤ minM) (I : ℕ) : toIndex minM < I ↔ minM < ftToNumber I := by
  have := le_ftToIndex_iff minM h1 I
  unfold toIndex
  omega

theorem le_toIndex_iff (maxM : ℕ) (h1 : 1 ≤ maxM) (I : ℕ) : I ≤ toIndex maxM ↔ ftToNumber I ≤ maxM :=
  le_ftToIndex_iff maxM h1 I

/-- value of the first leaf loop, in index form -/
theorem leafItems1_sum_idx (e : Env) (p xp b minI : ℕ) : ∀ n,
    itemSum b (leafItems1 e p xp minI n) =
      ∑ I ∈ Ioc minI (minI + n), if p < e.factor I then - e.mu I * (Spec.phi (xp / ftToNumber I) (b - 1) : ℤ) else 0 := by
  intro n
  induction n with
  | zero => simp [leafItems1, itemSum]
  | succ n ih =>
    rw [leafItems1, ← Nat.add_assoc, Finset.sum_Ioc_succ_top (by omega)]
    split_ifs with h
    · simp only [itemSum]; rw [ih]; ring
    · rw [ih, add_zero]

/-- the positions of the first leaf loop are visited in non-decreasing order -/
theorem leafItems1_ok (e : Env) (p xp minI lo hi : ℕ) : ∀ n prev,
    (∀ I, minI < I → I ≤ minI + n → lo + prev ≤ xp / ftToNumber I ∧ xp / ftToNumber I < hi) →
    ItemsOK lo hi prev (leafItems1 e p xp minI n) := by
  intro n
  induction n with
  | zero => intro _ _; simp [leafItems1, ItemsOK]
  | succ n ih =>
    intro prev h
    rw [leafItems1]
    split_ifs with hc
    · obtain ⟨h1, h2⟩ := h (minI + n + 1) (by omega) (by omega)
      refine ⟨h1, h2, ih _ ?_⟩
      intro I hI1 hI2
      have hm : ftToNumber I < ftToNumber (minI + n + 1) := ftToNumber_strictMono (by omega)
      have hd : xp / ftToNumber (minI + n + 1) ≤ xp / ftToNumber I :=
        Nat.div_le_div_left hm.le (ftToNumber_pos I)
      exact ⟨by omega, (h I hI1 (by omega)).2⟩
    · exact ih prev (fun I hI1 hI2 => h I hI1 (by omega))

/-- value of the first leaf loop over the numbers `(minM, maxM]`: `good m` is the meaning of the test `prime < factor_[m]`,
    `mu'` that of `factor.mu` on the numbers that pass -/
theorem leafItems1_sum (e : Env) (p xp b minM maxM : ℕ) (h1 : 1 ≤ minM) (good : ℕ → Prop) [DecidablePred good]
    (mu' : ℕ → ℤ)
    (hf : ∀ m, C2310 m → minM < m → m ≤ maxM → ((p < e.factor (toIndex m)) ↔ good m) ∧ (good m → e.mu (toIndex m) = mu' m)) :
    itemSum b (leafItems1 e p xp (toIndex minM) (toIndex maxM - toIndex minM)) =
      - ∑ m ∈ (Ioc minM maxM).filter (fun m => C2310 m ∧ good m), mu' m * (Spec.phi (xp / m) (b - 1) : ℤ) := by
  rw [leafItems1_sum_idx]
  rcases Nat.lt_or_ge maxM minM with hlt | hle
  · -- empty range
    have hI : toIndex maxM ≤ toIndex minM := by
      rcases Nat.eq_zero_or_pos maxM with h0 | hpos
      · subst h0
        by_contra hc
        have h3 : toIndex minM < toIndex 0 := by omega
        have := (toIndex_lt_iff minM h1 _).1 h3
        have h4 : ftToNumber (toIndex 0) ≤ 1 := by
          have : toIndex 0 = 0 := by unfold toIndex; decide +kernel
          rw [this, ftToNumber_zero]
        omega
      · have := (le_toIndex_iff minM h1 (toIndex maxM)).2 (le_trans (ftToNumber_toIndex_le maxM hpos) hlt.le)
        exact this
    rw [Nat.sub_eq_zero_of_le hI, Nat.add_zero, Finset.Ioc_self, Finset.sum_empty,
      Finset.Ioc_eq_empty (by omega), Finset.filter_empty, Finset.sum_empty, neg_zero]
  · have hmax1 : 1 ≤ maxM := by omega
    have hIle : toIndex minM ≤ toIndex maxM :=
      (le_toIndex_iff maxM hmax1 _).2 (le_trans (ftToNumber_toIndex_le minM h1) hle)
    rw [Nat.add_sub_cancel' hIle, ← Finset.sum_neg_distrib, ← Finset.sum_filter]
    symm
    apply Finset.sum_nbij' (fun m => toIndex m) (fun I => ftToNumber I)
    · intro m hm
      rw [mem_filter, mem_Ioc] at hm
      obtain ⟨⟨h2, h3⟩, h4, h5⟩ := hm
      have e1 : ftToNumber (toIndex m) = m := ftToNumber_toIndex m h4
      rw [mem_filter, mem_Ioc]
      refine ⟨⟨(toIndex_lt_iff minM h1 _).2 (by rw [e1]; exact h2), (le_toIndex_iff maxM hmax1 _).2 (by rw [e1]; exact h3)⟩, ?_⟩
      exact ((hf m h4 h2 h3).1).2 h5
    · intro I hI
      rw [mem_filter, mem_Ioc] at hI
      obtain ⟨⟨h2, h3⟩, h4⟩ := hI
      have hc := (ftToNumber_spec I).1
      have e1 : toIndex (ftToNumber I) = I := ftToIndex_toNumber_nat I
      have g2 := (toIndex_lt_iff minM h1 I).1 h2
      have g3 := (le_toIndex_iff maxM hmax1 I).1 h3
      rw [mem_filter, mem_Ioc]
      refine ⟨⟨g2, g3⟩, hc, ?_⟩
      have := (hf (ftToNumber I) hc g2 g3).1
      rw [e1] at this
      exact this.1 h4
    · intro m hm
      rw [mem_filter] at hm
      exact ftToNumber_toIndex m hm.2.1
    · intro I _
      exact ftToIndex_toNumber_nat I
    · intro m hm
      rw [mem_filter, mem_Ioc] at hm
      obtain ⟨⟨h2, h3⟩, h4, h5⟩ := hm
      have e1 : ftToNumber (toIndex m) = m := ftToNumber_toIndex m h4
      rw [e1, (hf m h4 h2 h3).2 h5]; ring

/-! ### the second leaf loop -/

/-- value of the second leaf loop: the primes `p i`, `π(minHard) < i ≤ l` -/
theorem leafItems2_sum (e : Env) (xp b minHard : ℕ) : ∀ l, (∀ i, 1 ≤ i → i ≤ l → e.primes i = Spec.p i) →
    itemSum b (leafItems2 e xp minHard l) = ∑ i ∈ Ioc (π minHard) l, (Spec.phi (xp / Spec.p i) (b - 1) : ℤ) := by
  intro l
  induction l with
  | zero => intro _; simp [leafItems2, itemSum]
  | succ l ih =>
    intro hp
    rw [leafItems2, hp (l + 1) (by omega) le_rfl]
    by_cases hc : Spec.p (l + 1) > minHard
    · rw [if_pos hc]
      have hpi : π minHard < l + 1 := (Spec.lt_p_iff (by omega)).1 hc
      simp only [itemSum]
      rw [ih (fun i h1 h2 => hp i h1 (by omega)), Finset.sum_Ioc_succ_top (by omega)]; ring
    · rw [if_neg hc]
      have hpi : l + 1 ≤ π minHard := (Spec.p_le_iff (by omega)).1 (by omega)
      rw [Finset.Ioc_eq_empty (by omega)]; simp [itemSum]

theorem leafItems2_ok (e : Env) (xp minHard lo hi : ℕ) : ∀ l prev, (∀ i, 1 ≤ i → i ≤ l → e.primes i = Spec.p i) →
    (∀ i, π minHard < i → i ≤ l → lo + prev ≤ xp / Spec.p i ∧ xp / Spec.p i < hi) →
    ItemsOK lo hi prev (leafItems2 e xp minHard l) := by
  intro l
  induction l with
  | zero => intro _ _ _; simp [leafItems2, ItemsOK]
  | succ l ih =>
    intro prev hp h
    rw [leafItems2, hp (l + 1) (by omega) le_rfl]
    by_cases hc : Spec.p (l + 1) > minHard
    · rw [if_pos hc]
      have hpi : π minHard < l + 1 := (Spec.lt_p_iff (by omega)).1 hc
      obtain ⟨h1, h2⟩ := h (l + 1) hpi le_rfl
      refine ⟨h1, h2, ih _ (fun i g1 g2 => hp i g1 (by omega)) ?_⟩
      intro i hi1 hi2
      have hm : Spec.p i ≤ Spec.p (l + 1) := Spec.p_le_p (by omega)
      have hd : xp / Spec.p (l + 1) ≤ xp / Spec.p i := Nat.div_le_div_left hm (Spec.p_pos i)
      exact ⟨by omega, (h i hi1 (by omega)).2⟩
    · rw [if_neg hc]; trivial

end Pc.Hard
