/-
WP close, step 5 (fidelity of the table widths): `pi_gourdon_128` instantiates `D` / `AC` with `FactorTableD<uint32_t>` when `z` exceeds
`FactorTableD<uint16_t>::max()` (D.cpp:311), the 64-bit functions always use `uint16_t` (their range checks guarantee it fits).  In the world the
entry type is the `wide` argument of `W.tables` (`realTmax wide`, `realTmax_eq_code`).  So

  * `World.pi_gourdon`   — `pi_gourdon_64/128` over `W.tables wide` for the width of the FUNCTION, and
  * `World.pi_api_w`     — `pi(int128_t x)` over `W.tables (x > INT64_MAX)`: the tables of the route that is taken,

while the NESTED `pi_noprint` calls (always 64-bit) are computed over `W.tables false` (`World.Nested`).
-/
import PcProofs.CloseWorld

namespace Pc.Close
open Nat Pc.Hard Pc.PhiVec Pc.Top Pc.PsCore Pc.LB PcGen.ApiConst Pc.PhiAlgProofs Pc.ClosePhi
open scoped Nat.Prime

namespace World

/-- `pi_gourdon_64(x)` (`wide = false`) / `pi_gourdon_128(x)` (`wide = true`) over the tables of its own instantiation -/
theorem pi_gourdon (W : World) {B : ℕ} (h : W.OK B) (pi : ℕ → ℕ) (wide : Bool) (x : ℤ) (hx : InType wide x)
    (hsmall : x < 2 ∨ 2401 ≤ x) (threads : ℤ) (isPrint : Bool) (r : GRun)
    (hphi : ∀ n : ℕ, (n : ℤ) < x → maxCached < n → n ≤ meisselMax → W.PhiRunOK n)
    (hrec : W.Nested B pi x)
    (hex : 2 ≤ x → GExecC (W.tables wide) B wide x.toNat r) :
    piGourdon (W.tables wide) pi wide x threads isPrint r = .ok (π x.toNat : ℤ) ∨
      piGourdon (W.tables wide) pi wide x threads isPrint r = .error (.hard .badRun) :=
  piGourdon_total_to (W.tables wide) (W.tables_ok h wide) (W.it_specTo h) maxPrime64_ge pi wide x hx hsmall threads isPrint r
    (nested_pi_eq_world (W.tables false) (W.tables_ok h false) (W.it_specTo h) maxPrime64_ge W.P W.order W.sched pi x
      (fun n hn _ => W.phiExec h n (hphi n hn)) hrec) hex

/-- `pi(int128_t x)` over the tables of the route that is taken (`uint32_t` factor tables only inside `pi_gourdon_128`) -/
theorem pi_api_w (W : World) {B : ℕ} (h : W.OK B) (pi : ℕ → ℕ) (x : ℤ) (hx : x < 2 ^ 127) (threads : ℤ) (isPrint : Bool)
    (r : ApiRun)
    (hphi : ∀ n : ℕ, (n : ℤ) ≤ x → maxCached < n → n ≤ meisselMax → W.PhiRunOK n)
    (hrec : W.Nested B pi x)
    (hex : (maxCached : ℤ) < x →
      ApiExecC (W.tables (decide ((PiApi.int64Max : ℤ) < x))) B (decide ((PiApi.int64Max : ℤ) < x)) x.toNat r) :
    piApi128 (W.tables (decide ((PiApi.int64Max : ℤ) < x))) W.phi pi x threads isPrint r = .ok (π x.toNat : ℤ) ∨
      piApi128 (W.tables (decide ((PiApi.int64Max : ℤ) < x))) W.phi pi x threads isPrint r = .error (.hard .badRun) := by
  have c0 : (PiApi.int64Max : ℤ) = 2 ^ 63 - 1 := by unfold PiApi.int64Max; norm_num
  have c1 : (maxCached : ℤ) = 30719 := rfl
  have l2 : meisselMax = 100000000 := rfl
  by_cases hw : (PiApi.int64Max : ℤ) < x
  · rw [decide_eq_true hw] at hex ⊢
    have hex' := hex (by omega)
    unfold piApi128
    rw [if_neg (by omega), if_neg (by omega)]
    exact W.pi_gourdon h pi true x (by unfold InType; simpa using hx) (Or.inr (by omega)) threads isPrint r.gourdon
      (fun n hn => hphi n (by omega)) hrec (fun _ => hex'.gourdon (by omega))
  · rw [decide_eq_false hw] at hex ⊢
    have hd : decide ((PiApi.int64Max : ℤ) < x) = false := decide_eq_false hw
    exact W.pi_api h pi x hx threads isPrint r hphi hrec (by rw [hd]; exact hex)

/-- **the prime vectors of the tables ARE what `generate_primes<T>(max)` returns**: the C17 constructor models read their primes as
    `genPrimes gen max = 0 :: gen 0 (max + 1)` from the generator; the real `generate_primes` (generate_primes.cpp → StorePrimes.hpp
    `store_primes`: two loops over `primesieve::iterator`, the last 64-bit prime appended by hand) over the iterator model over the same sieving
    core returns exactly that list — for every `max` inside `uint64_t` and the vector's element type -/
theorem generate_primes_eq (W : World) {B : ℕ} (h : W.OK B) (vmax mx : ℕ) (hv : mx ≤ vmax) (hu : mx ≤ It.umax) :
    It.pcGeneratePrimes W.env vmax mx = .ok (genPrimes W.gen mx) := by
  obtain ⟨l, hl, hP⟩ := It.pcGeneratePrimes_correct W.env (W.env_spec h) vmax mx hv hu
  obtain ⟨hs, hm⟩ := W.gen_spec h 0 (mx + 1)
  have hG : It.PrimesIn (W.gen 0 (mx + 1)) 0 mx :=
    ⟨hs, fun q => by rw [hm q]; constructor
                     · rintro ⟨_, h2, h3⟩; exact ⟨h3, Nat.zero_le _, by omega⟩
                     · rintro ⟨h1, _, h3⟩; exact ⟨Nat.zero_le _, by omega, h1⟩⟩
  rw [hl, It.PrimesIn.unique hP hG]
  rfl

/-- the same for the vector `generate_n_primes<int32_t>(a)` of phi.cpp: it is `[0, p 1, …, p a]` whenever `p a` fits -/
theorem generate_n_primes_eq (W : World) {B : ℕ} (h : W.OK B) (x a N : ℕ) (ha : a ≤ π N) (hN : N ≤ 2 ^ 31 - 1) :
    W.prime x a 0 = 0 ∧ ∀ i, 1 ≤ i → i ≤ a → W.prime x a i = Spec.p i := by
  obtain ⟨_, g0, g1⟩ := It.genNPrimesFn_spec W.env (W.env_spec h) (2 ^ 31 - 1) a (W.nthHint x a) N ha
    (by unfold It.umax; omega) hN
  exact ⟨g0, g1⟩

end World
end Pc.Close
