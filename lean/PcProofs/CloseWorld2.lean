/-
WP close, step 5 (fidelity of the table widths): `pi_gourdon_128` instantiates `D` / `AC` with `FactorTableD<uint32_t>` when `z` exceeds
`FactorTableD<uint16_t>::max()` (D.cpp:311), the 64-bit functions always use `uint16_t` (their range checks guarantee it fits).  In the world the
entry type is the `wide` argument of `W.tables` (`realTmax wide`, `realTmax_eq_code`).  So

  * `World.pi_gourdon`   — `pi_gourdon_64/128` over `W.tables wide` for the width of the FUNCTION, and
  * `World.pi_api_w`     — `pi(int128_t x)` over `W.tables (x > INT64_MAX)`: the tables of the route that is taken,

while the NESTED `pi_noprint` calls (always 64-bit) are computed over `W.tables false` (`World.Nested`).
-/
import PcProofs.CloseWorld

namespace Pc.Close
open Nat Pc.Hard Pc.PhiVec Pc.Top Pc.PsCore Pc.LB PcGen.ApiConst Pc.PhiAlgProofs Pc.ClosePhi
open scoped Nat.Prime

namespace World

/-- `pi_gourdon_64(x)` (`wide = false`) / `pi_gourdon_128(x)` (`wide = true`) over the tables of its own instantiation -/
theorem pi_gourdon (W : World) {B : ℕ} (h : W.OK B) (pi : ℕ → ℕ) (wide : Bool) (x : ℤ) (hx : InType wide x)
    (hsmall : x < 2 ∨ 2401 ≤ x) (threads : ℤ) (isPrint : Bool) (r : GRun)
    (hphi : ∀ n : ℕ, (n : ℤ) < x → maxCached < n → n ≤ meisselMax → W.PhiRunOK n)
    (hrec : W.Nested B pi x)
    (hex : 2 ≤ x → GExecC (W.tables wide) B wide x.toNat r) :
    piGourdon (W.tables wide) pi wide x threads isPrint r = .ok (π x.toNat : ℤ) ∨
      piGourdon (W.tables wide) pi wide x threads isPrint r = .error (.hard .badRun) :=
  piGourdon_total_to (W.tables wide) (W.tables_ok h wide) (W.it_specTo h) maxPrime64_ge pi wide x hx hsmall threads isPrint r
    (nested_pi_eq_world (W.tables false) (W.tables_ok h false) (W.it_specTo h) maxPrime64_ge W.P W.order W.sched pi x
      (fun n hn _ => W.phiExec h n (hphi n hn)) hrec) hex

/-- `pi(int128_t x)` over the tables of the route that is taken (`uint32_t` factor tables only inside `pi_gourdon_128`) -/
theorem pi_api_w (W : World) {B : ℕ} (h : W.OK B) (pi : ℕ → ℕ) (x : ℤ) (hx : x < 2 ^ 127) (threads : ℤ) (isPrint : Bool)
    (r : ApiRun)
    (hphi : ∀ n : ℕ, (n : ℤ) ≤ x → maxCached < n → n ≤ meisselMax → W.PhiRunOK n)
    (hrec : W.Nested B pi x)
    (hex : (maxCached : ℤ) < x →
      ApiExecC (W.tables (decide ((PiApi.int64Max : ℤ) < x))) B (decide ((PiApi.int64Max : ℤ) < x)) x.toNat r) :
    piApi128 (W.tables (decide ((PiApi.int64Max : ℤ) < x))) W.phi pi x threads isPrint r = .ok (π x.toNat : ℤ) ∨
      piApi128 (W.tables (decide ((PiApi.int64Max : ℤ) < x))) W.phi pi x threads isPrint r = .error (.hard .badRun) := by
  have c0 : (PiApi.int64Max : ℤ) = 2 ^ 63 - 1 := by unfold PiApi.int64Max; norm_num
  have c1 : (maxCached : ℤ) = 30719 := rfl
  have l2 : meisselMax = 100000000 := rfl
  by_cases hw : (PiApi.int64Max : ℤ) < x
  · rw [decide_eq_true hw] at hex ⊢
    have hex' := hex (by omega)
    unfold piApi128
    rw [if_neg (by omega), if_neg (by omega)]
    exact W.pi_gourdon h pi true x (by unfold InType; simpa using hx) (Or.inr (by omega)) threads isPrint r.gourdon
      (fun n hn => hphi n (by omega)) hrec (fun _ => hex'.gourdon (by omega))
  · rw [decide_eq_false hw] at hex ⊢
    have hd : decide ((PiApi.int64Max : ℤ) < x) = false := decide_eq_false hw
    exact W.pi_api h pi x hx threads isPrint r hphi hrec (by rw [hd]; exact hex)

end World
end Pc.Close
