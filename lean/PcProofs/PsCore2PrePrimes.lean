/-
C18 core, PreSieve part 3a: number theory of the pre-sieve.  Trial division `isPrimeTD` is primality below 784; the prime sets of
the 16 buffers are together exactly the primes 7 … 163 (from the generated obligation `psPreTabs_primes_ok`); `PreOk` is
primality for numbers coprime to 30 below 289 and "no prime 7 … 163 divides" above 163.
-/
import PcProofs.PsCore2Defs
import PcGen.PsPreSieveObl

namespace Pc.PsCore
open Pc.PsWheelSpec

/-! ### trial division -/

theorem isPrimeTD_iff (n : ℕ) :
    isPrimeTD n = true ↔ 2 ≤ n ∧ ∀ d, d < 26 → n ≤ d + 2 ∨ n % (d + 2) ≠ 0 := by
  simp [isPrimeTD, List.all_eq_true]

theorem isPrimeTD_of_prime (n : ℕ) (h : Nat.Prime n) : isPrimeTD n = true := by
  rw [isPrimeTD_iff]
  refine ⟨h.two_le, fun d _ => ?_⟩
  by_cases hle : n ≤ d + 2
  · exact Or.inl hle
  · right
    intro hm
    have hd : d + 2 ∣ n := Nat.dvd_of_mod_eq_zero hm
    rcases (Nat.dvd_prime h).1 hd with e | e <;> omega

theorem prime_of_isPrimeTD (n : ℕ) (hn : n < 784) (h : isPrimeTD n = true) : Nat.Prime n := by
  rw [isPrimeTD_iff] at h
  obtain ⟨h2, hall⟩ := h
  by_contra hnp
  have hm : Nat.Prime (Nat.minFac n) := Nat.minFac_prime (by omega)
  have hsq : Nat.minFac n ^ 2 ≤ n := Nat.minFac_sq_le_self (by omega) hnp
  have hdvd : Nat.minFac n ∣ n := Nat.minFac_dvd n
  generalize Nat.minFac n = m at hm hsq hdvd
  have hm2 : 2 ≤ m := hm.two_le
  have hlt : m < 28 := by
    by_contra hc
    have : 28 ^ 2 ≤ m ^ 2 := Nat.pow_le_pow_left (by omega) 2
    omega
  have hmn : m < n := by
    have : m * 2 ≤ m * m := Nat.mul_le_mul_left m hm2
    rw [pow_two] at hsq
    omega
  rcases hall (m - 2) (by omega) with e | e
  · omega
  · rw [show m - 2 + 2 = m by omega] at e
    exact e (Nat.mod_eq_zero_of_dvd hdvd)

theorem isPrimeTD_eq_prime (n : ℕ) (hn : n < 784) : isPrimeTD n = true ↔ Nat.Prime n :=
  ⟨prime_of_isPrimeTD n hn, isPrimeTD_of_prime n⟩

/-! ### insertion sort keeps the elements -/

theorem mem_insertNat (x y : ℕ) : ∀ l : List ℕ, y ∈ insertNat x l ↔ y = x ∨ y ∈ l
  | [] => by simp [insertNat]
  | z :: zs => by
    rw [insertNat]
    split
    · simp
    · rw [List.mem_cons, mem_insertNat x y zs, List.mem_cons]
      tauto

theorem mem_isort (y : ℕ) : ∀ l : List ℕ, y ∈ isort l ↔ y ∈ l
  | [] => by simp [isort]
  | x :: xs => by rw [isort, mem_insertNat, mem_isort y xs, List.mem_cons]

/-! ### the primes of the buffers -/

/-- length of buffer `k` -/
def preLen (k : ℕ) : ℕ := ((Gen.psPreTabs ()).getD k (0, 0, [])).2.1

/-- primes of buffer `k` -/
def prePrimes (k : ℕ) : List ℕ := ((Gen.psPreTabs ()).getD k (0, 0, [])).2.2

theorem psPreTabs_length : (Gen.psPreTabs ()).length = 16 := rfl

theorem mem_flatMap_iff (q : ℕ) : q ∈ (Gen.psPreTabs ()).flatMap (·.2.2) ↔ ∃ k, k < 16 ∧ q ∈ prePrimes k := by
  rw [List.mem_flatMap]
  constructor
  · rintro ⟨t, ht, hq⟩
    obtain ⟨i, hi, rfl⟩ := List.mem_iff_getElem.1 ht
    refine ⟨i, by rw [← psPreTabs_length]; exact hi, ?_⟩
    unfold prePrimes
    rw [List.getD_eq_getElem?_getD, List.getElem?_eq_getElem hi]
    exact hq
  · rintro ⟨k, hk, hq⟩
    have hk' : k < (Gen.psPreTabs ()).length := by rw [psPreTabs_length]; exact hk
    refine ⟨(Gen.psPreTabs ())[k], List.getElem_mem hk', ?_⟩
    unfold prePrimes at hq
    rw [List.getD_eq_getElem?_getD, List.getElem?_eq_getElem hk'] at hq
    exact hq

/-- the prime sets of the 16 buffers are exactly the primes 7 … 163 -/
theorem prePrimes_iff (q : ℕ) : (∃ k, k < 16 ∧ q ∈ prePrimes k) ↔ (Nat.Prime q ∧ 7 ≤ q ∧ q ≤ 163) := by
  rw [← mem_flatMap_iff, ← mem_isort, Gen.psPreTabs_primes_ok]
  unfold expectedPreSievePrimes
  rw [List.mem_filter, List.mem_range, Bool.and_eq_true, decide_eq_true_eq]
  constructor
  · rintro ⟨h1, h2, h3⟩
    exact ⟨prime_of_isPrimeTD q (by omega) h3, h2, by omega⟩
  · rintro ⟨h1, h2, h3⟩
    exact ⟨by omega, h2, isPrimeTD_of_prime q h1⟩

/-! ### `PreOk` -/

theorem preOk_of_prime (n : ℕ) (h : Nat.Prime n) : PreOk n :=
  fun _ hq _ _ hd => (Nat.prime_dvd_prime_iff_eq hq h).1 hd

/-- below `17²` a number coprime to 30 that no prime `7 … 163` divides properly is prime -/
theorem prime_of_preOk (n : ℕ) (h2 : 2 ≤ n) (hn : n < 289) (c2 : n % 2 ≠ 0) (c3 : n % 3 ≠ 0) (c5 : n % 5 ≠ 0)
    (h : PreOk n) : Nat.Prime n := by
  by_contra hnp
  have hm : Nat.Prime (Nat.minFac n) := Nat.minFac_prime (by omega)
  have hsq : Nat.minFac n ^ 2 ≤ n := Nat.minFac_sq_le_self (by omega) hnp
  have hdvd : Nat.minFac n ∣ n := Nat.minFac_dvd n
  have hmin : Nat.minFac n = n → False := fun e => hnp (e ▸ hm)
  generalize Nat.minFac n = m at hm hsq hdvd hmin
  have hm2 : 2 ≤ m := hm.two_le
  have hlt : m < 17 := by
    by_contra hc
    have : 17 ^ 2 ≤ m ^ 2 := Nat.pow_le_pow_left (by omega) 2
    omega
  have hge : 7 ≤ m := by
    by_contra hc
    have hm' : m = 2 ∨ m = 3 ∨ m = 4 ∨ m = 5 ∨ m = 6 := by omega
    rcases hm' with e | e | e | e | e <;> subst e
    · exact c2 (Nat.mod_eq_zero_of_dvd hdvd)
    · exact c3 (Nat.mod_eq_zero_of_dvd hdvd)
    · exact c2 (Nat.mod_eq_zero_of_dvd (Nat.dvd_trans ⟨2, rfl⟩ hdvd))
    · exact c5 (Nat.mod_eq_zero_of_dvd hdvd)
    · exact c2 (Nat.mod_eq_zero_of_dvd (Nat.dvd_trans ⟨3, rfl⟩ hdvd))
  exact hmin (h m hm hge (by omega) hdvd)

theorem preOk_iff_prime (n : ℕ) (h2 : 2 ≤ n) (hn : n < 289) (c2 : n % 2 ≠ 0) (c3 : n % 3 ≠ 0) (c5 : n % 5 ≠ 0) :
    PreOk n ↔ Nat.Prime n :=
  ⟨prime_of_preOk n h2 hn c2 c3 c5, preOk_of_prime n⟩

/-- no prime of any buffer divides `n` -/
def Clean (n : ℕ) : Prop := ∀ k, k < 16 → ∀ p ∈ prePrimes k, n % p ≠ 0

theorem clean_iff_preOk (n : ℕ) (hn : 163 < n) : Clean n ↔ PreOk n := by
  unfold Clean PreOk
  constructor
  · intro h q hq h7 h163 hd
    obtain ⟨k, hk, hmem⟩ := (prePrimes_iff q).2 ⟨hq, h7, h163⟩
    exact absurd (Nat.mod_eq_zero_of_dvd hd) (h k hk q hmem)
  · intro h k hk p hp hm
    obtain ⟨hq, h7, h163⟩ := (prePrimes_iff p).1 ⟨k, hk, hp⟩
    have := h p hq h7 h163 (Nat.dvd_of_mod_eq_zero hm)
    omega

end Pc.PsCore
