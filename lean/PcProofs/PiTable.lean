/-
Proofs about the L2 models of PcModel/PiTable.lean (C17, lookup-table half): thread ranges of
`PiTable::init`, correctness of `PiTable`, `SegmentedPiTable`.
-/
import PcProofs.BitSieve240
import Mathlib.Tactic.Ring

namespace Pc
open Nat

theorem piCache_size : PcGen.piCache.size = 128 := by decide +kernel
theorem piCacheLimit_eq : piCacheLimit = 30720 := by unfold piCacheLimit; rw [piCache_size]

theorem inBetween_one_ge (x hi : ℤ) : 1 ≤ inBetween 1 x hi := by
  unfold inBetween
  split
  · exact le_refl _
  · rename_i h
    simp only [Bool.or_eq_true, decide_eq_true_eq, not_or, not_lt] at h
    split <;> omega

theorem idealNumThreads_pos (a b c : ℤ) : 1 ≤ idealNumThreads a b c := inBetween_one_ge _ _

/-- facts about `(threads, thread_dist)` of `PiTable::init` -/
theorem piThreadParams_spec (limit : ℕ) (threads : ℤ) (hl : 30720 < limit) :
    1 ≤ (piThreadParams limit threads).1 ∧ 240 ∣ (piThreadParams limit threads).2 ∧
    limit - 30720 < (piThreadParams limit threads).2 * (piThreadParams limit threads).1 := by
  unfold piThreadParams
  rw [piCacheLimit_eq]
  simp only
  set thr := (idealNumThreads ((limit - 30720 : ℕ) : ℤ) threads (piThreadThreshold : ℤ)).toNat with hthr
  have h1 : 1 ≤ thr := by
    have := idealNumThreads_pos ((limit - 30720 : ℕ) : ℤ) threads (piThreadThreshold : ℤ)
    omega
  set td0 := max piThreadThreshold ((limit - 30720) / thr) with htd0
  refine ⟨h1, ?_, ?_⟩
  · have : (td0 + (240 - td0 % 240)) % 240 = 0 := by omega
    exact Nat.dvd_of_mod_eq_zero this
  · have h2 : (limit - 30720) / thr ≤ td0 := le_max_right _ _
    have h3 : limit - 30720 < thr * ((limit - 30720) / thr + 1) := Nat.lt_mul_div_succ _ (by omega)
    have h4 : td0 + 1 ≤ td0 + (240 - td0 % 240) := by
      have := Nat.mod_lt td0 (by norm_num : 0 < 240); omega
    calc limit - 30720 < thr * ((limit - 30720) / thr + 1) := h3
      _ ≤ thr * (td0 + (240 - td0 % 240)) := Nat.mul_le_mul_left _ (by omega)
      _ = (td0 + (240 - td0 % 240)) * thr := Nat.mul_comm _ _


theorem range_partition (C limit td thr : ℕ) (htd : 0 < td) (hcov : limit - C < td * thr)
    (n : ℕ) (hC : C ≤ n) (hn : n < limit) :
    ∃! t, t < thr ∧ C + td * t ≤ n ∧ n < min (C + td * t + td) limit := by
  refine ⟨(n - C) / td, ⟨?_, ?_, ?_⟩, ?_⟩
  · have h1 : td * ((n - C) / td) ≤ n - C := Nat.mul_div_le _ _
    have h2 : td * ((n - C) / td) < td * thr := by omega
    exact Nat.lt_of_mul_lt_mul_left h2
  · have h1 : td * ((n - C) / td) ≤ n - C := Nat.mul_div_le _ _
    omega
  · have h1 : n - C < td * ((n - C) / td + 1) := Nat.lt_mul_div_succ _ htd
    rw [Nat.mul_add, Nat.mul_one] at h1
    exact lt_min (by omega) hn
  · rintro t ⟨_, h1, h2⟩
    have h3 := lt_of_lt_of_le h2 (min_le_left _ _)
    symm
    apply Nat.div_eq_of_lt_le
    · rw [Nat.mul_comm]; omega
    · rw [Nat.add_mul, Nat.one_mul, Nat.mul_comm]; omega

/-- **C17/C10**: for every table size and every requested thread count the per-thread number ranges of
    `PiTable::init` are pairwise disjoint and cover `[cache_limit, limit)`, and so do the per-thread ranges
    of word indices `[low / 240, ceil_div(high, 240))` that `init_bits` / `init_count` write. -/
theorem piTable_ranges_disjoint (limit : ℕ) (threads : ℤ) (hl : piCacheLimit < limit) :
    1 ≤ (piThreadParams limit threads).1 ∧ 240 ∣ (piThreadParams limit threads).2 ∧
    (∀ n, piCacheLimit ≤ n → n < limit → ∃! t, t < (piThreadParams limit threads).1 ∧
        (piThreadRange limit (piThreadParams limit threads).2 t).1 ≤ n ∧
        n < (piThreadRange limit (piThreadParams limit threads).2 t).2) ∧
    (∀ i, PcGen.piCache.size ≤ i → i < ceilDiv limit 240 → ∃! t, t < (piThreadParams limit threads).1 ∧
        (piThreadRange limit (piThreadParams limit threads).2 t).1 / 240 ≤ i ∧
        i < ceilDiv (piThreadRange limit (piThreadParams limit threads).2 t).2 240) := by
  rw [piCacheLimit_eq] at hl
  obtain ⟨h1, h240, hcov⟩ := piThreadParams_spec limit threads hl
  generalize (piThreadParams limit threads).1 = thr at *
  generalize (piThreadParams limit threads).2 = td at *
  have htd : 0 < td := by
    rcases Nat.eq_zero_or_pos td with h | h
    · rw [h] at hcov; simp at hcov
    · exact h
  refine ⟨h1, h240, ?_, ?_⟩
  · intro n hn1 hn2
    rw [piCacheLimit_eq] at hn1
    simpa [piThreadRange, piCacheLimit_eq] using range_partition 30720 limit td thr htd hcov n hn1 hn2
  · intro i hi1 hi2
    rw [piCache_size] at hi1
    unfold ceilDiv at hi2
    have hn2 : 240 * i < limit := by omega
    obtain ⟨t, ⟨ht, hlo, hhi⟩, huniq⟩ := range_partition 30720 limit td thr htd hcov (240 * i) (by omega) hn2
    obtain ⟨c, hc⟩ := h240
    have hlow240 : ∀ t', (30720 + td * t') % 240 = 0 := by
      intro t'; rw [hc, Nat.mul_assoc]; omega
    refine ⟨t, ⟨ht, ?_, ?_⟩, ?_⟩
    · simp only [piThreadRange, piCacheLimit_eq]
      have := hlow240 t; omega
    · simp only [piThreadRange, piCacheLimit_eq, ceilDiv]
      omega
    · rintro t' ⟨ht', h1', h2'⟩
      apply huniq t'
      simp only [piThreadRange, piCacheLimit_eq, ceilDiv] at h1' h2'
      have := hlow240 t'
      exact ⟨ht', by omega, by omega⟩

/-! ### elementary array steps -/

theorem fillLoop_get {α : Type} (a : ℕ) (v : α) : ∀ (n : ℕ) (ws : Array α) (i : ℕ),
    ((List.range n).foldl (fun w k => w.setIfInBounds (a + k) v) ws)[i]?
      = if a ≤ i ∧ i < a + n ∧ i < ws.size then some v else ws[i]? := by
  intro n
  induction n with
  | zero => intro ws i; simp; omega
  | succ n ih =>
    intro ws i
    rw [List.range_succ, List.foldl_append, List.foldl_cons, List.foldl_nil, Array.getElem?_setIfInBounds, ih]
    have hsz : ((List.range n).foldl (fun w k => w.setIfInBounds (a + k) v) ws).size = ws.size := by
      clear ih
      induction n with
      | zero => simp
      | succ n ih2 => rw [List.range_succ, List.foldl_append]; simp [ih2]
    rw [hsz]
    by_cases h1 : a + n = i
    · subst h1
      by_cases h2 : a + n < ws.size
      · simp [h2]
      · simp [h2, Array.getElem?_eq_none (Nat.le_of_not_lt h2)]
    · rw [if_neg h1]
      by_cases h3 : a ≤ i ∧ i < a + n ∧ i < ws.size
      · rw [if_pos h3, if_pos ⟨h3.1, by omega, h3.2.2⟩]
      · rw [if_neg h3, if_neg (by omega)]

theorem fillLoop_size {α : Type} (a : ℕ) (v : α) : ∀ (n : ℕ) (ws : Array α),
    ((List.range n).foldl (fun w k => w.setIfInBounds (a + k) v) ws).size = ws.size := by
  intro n
  induction n with
  | zero => intro ws; simp
  | succ n ih => intro ws; rw [List.range_succ, List.foldl_append]; simp [ih]

theorem fillWords_get (ws : PiWords) (a b i : ℕ) :
    (fillWords ws a b)[i]? = if a ≤ i ∧ i < b ∧ i < ws.size then some (some (0, 0)) else ws[i]? := by
  unfold fillWords
  rw [fillLoop_get]
  by_cases h : a ≤ i ∧ i < b ∧ i < ws.size
  · rw [if_pos h, if_pos ⟨h.1, by omega, h.2.2⟩]
  · rw [if_neg h, if_neg (by omega)]

theorem fillWords_size (ws : PiWords) (a b : ℕ) : (fillWords ws a b).size = ws.size := fillLoop_size _ _ _ _

/-- OR of the `set_bit_` masks of the primes of `ps` that fall into word `i` -/
def orAll : List ℕ → ℕ → ℕ
  | [], _ => 0
  | p :: ps, i => (if p / 240 = i then setBitTbl (p % 240) else 0) ||| orAll ps i

theorem orFold_get : ∀ (ps : List ℕ) (ws : PiWords) (i : ℕ),
    (ps.foldl (fun a p => orBits a (p / 240) (setBitTbl (p % 240))) ws)[i]?
      = (ws[i]?).map (Option.map fun w => (w.1, w.2 ||| orAll ps i)) := by
  intro ps
  induction ps with
  | nil =>
    intro ws i
    simp only [List.foldl_nil, orAll, Nat.or_zero]
    cases ws[i]? with
    | none => rfl
    | some w => cases w <;> rfl
  | cons p ps ih =>
    intro ws i
    rw [List.foldl_cons, ih]
    unfold orBits
    rw [Array.getElem?_modify]
    by_cases h : p / 240 = i
    · rw [if_pos h]
      cases ws[i]? with
      | none => rfl
      | some w =>
        cases w with
        | none => rfl
        | some w =>
          simp only [Option.map_some, orAll, if_pos h, Nat.or_assoc]
    · rw [if_neg h]
      simp only [orAll, if_neg h, Nat.zero_or]

theorem orFold_size : ∀ (ps : List ℕ) (ws : PiWords),
    (ps.foldl (fun a p => orBits a (p / 240) (setBitTbl (p % 240))) ws).size = ws.size := by
  intro ps
  induction ps with
  | nil => intro ws; rfl
  | cons p ps ih => intro ws; rw [List.foldl_cons, ih]; simp [orBits]

theorem testBit_orAll (ps : List ℕ) (i k : ℕ) :
    (orAll ps i).testBit k = ps.any (fun p => decide (p / 240 = i) && (setBitTbl (p % 240)).testBit k) := by
  induction ps with
  | nil => simp [orAll]
  | cons p ps ih =>
    simp only [orAll, Nat.testBit_or, ih, List.any_cons]
    by_cases h : p / 240 = i <;> simp [h]


/-! ### the prime generator hypothesis (discharged by C18) -/

/-- `gen lo hi` lists exactly the primes of `[lo, hi)`, in increasing order -/
def PrimeGenSpec (gen : PrimeGen) : Prop :=
  ∀ lo hi, (gen lo hi).Pairwise (· < ·) ∧ ∀ p, p ∈ gen lo hi ↔ (lo ≤ p ∧ p < hi ∧ p.Prime)

theorem gen_length (gen : PrimeGen) (hg : PrimeGenSpec gen) (lo hi : ℕ) (h : lo ≤ hi) :
    Nat.count Nat.Prime lo + (gen lo hi).length = Nat.count Nat.Prime hi := by
  obtain ⟨hsorted, hmem⟩ := hg lo hi
  have hnd : (gen lo hi).Nodup := hsorted.imp (fun h => Nat.ne_of_lt h)
  rw [Nat.count_eq_card_filter_range, Nat.count_eq_card_filter_range, ← List.toFinset_card_of_nodup hnd,
    ← Finset.card_union_of_disjoint]
  · congr 1
    ext p
    simp only [Finset.mem_union, Finset.mem_filter, Finset.mem_range, List.mem_toFinset, hmem]
    constructor
    · rintro (⟨h1, h2⟩ | ⟨h1, h2, h3⟩)
      · exact ⟨by omega, h2⟩
      · exact ⟨h2, h3⟩
    · rintro ⟨h1, h2⟩
      by_cases h3 : p < lo
      · left; exact ⟨h3, h2⟩
      · right; exact ⟨by omega, h1, h2⟩
  · rw [Finset.disjoint_left]
    intro p hp hq
    simp only [Finset.mem_filter, Finset.mem_range, List.mem_toFinset, hmem] at hp hq
    omega

theorem wheelNum_one_or_ge : ∀ k, k < 64 → wheelNum k = 1 ∨ 7 ≤ wheelNum k := by decide

theorem testBit_setBitSpec (r k : ℕ) (hk : k < 64) : (setBitSpec r).testBit k = decide (wheelNum k = r) := by
  unfold setBitSpec
  rw [testBit_maskOf]
  simp only [hk, decide_true, Bool.true_and]
  by_cases h : wheelNum k = r <;> simp [h]

/-- the word assembled by `init_bits` from the primes of `[max lo 7, hi)` holds exactly the primes of its block -/
theorem wordHolds_orAll (gen : PrimeGen) (hg : PrimeGenSpec gen) (lo hi i : ℕ) (hlo : lo ≤ 240 * i) :
    WordHolds i hi (orAll (gen (max lo 7) hi) i) := by
  intro k hk hlt
  rw [testBit_orAll, List.any_eq_true]
  have hw := wheelNum_lt hk
  constructor
  · rintro ⟨p, hp, hb⟩
    simp only [Bool.and_eq_true, decide_eq_true_eq] at hb
    obtain ⟨hpi, hbit⟩ := hb
    rw [setBitTbl_eq _ (Nat.mod_lt _ (by norm_num)), testBit_setBitSpec _ _ hk, decide_eq_true_eq] at hbit
    have : p = 240 * i + wheelNum k := by
      have := Nat.div_add_mod p 240; omega
    rw [← this]
    exact (((hg _ _).2 p).1 hp).2.2
  · intro hp
    refine ⟨240 * i + wheelNum k, ((hg _ _).2 _).2 ⟨?_, hlt, hp⟩, ?_⟩
    · rcases wheelNum_one_or_ge k hk with h1 | h7
      · rcases Nat.eq_zero_or_pos i with h0 | h0
        · subst h0; rw [h1] at hp; exact absurd hp (by simpa using Nat.not_prime_one)

        · omega
      · omega
    · simp only [Bool.and_eq_true, decide_eq_true_eq]
      refine ⟨by omega, ?_⟩
      have : (240 * i + wheelNum k) % 240 = wheelNum k := by omega
      rw [this, setBitTbl_eq _ hw, testBit_setBitSpec _ _ hk]
      simp

/-- outside the word range of `[lo, hi)` nothing is OR-ed -/
theorem orAll_outside (gen : PrimeGen) (hg : PrimeGenSpec gen) (lo hi i : ℕ)
    (hout : ∀ p, lo ≤ p → p < hi → p / 240 ≠ i) : orAll (gen lo hi) i = 0 := by
  have : ∀ ps : List ℕ, (∀ p ∈ ps, p / 240 ≠ i) → orAll ps i = 0 := by
    intro ps
    induction ps with
    | nil => intro _; rfl
    | cons p ps ih =>
      intro h
      simp only [orAll]
      rw [if_neg (h p (by simp)), ih (fun q hq => h q (by simp [hq]))]
      rfl
  exact this _ (fun p hp => let h := ((hg lo hi).2 p).1 hp; hout p h.1 h.2.1)

/-! ### init_count -/

/-- `count` after `j` words: `base` plus the popcounts of the first `j` words -/
def prefixPop (b : ℕ → ℕ) (base : ℕ) : ℕ → ℕ
  | 0 => base
  | j + 1 => prefixPop b base j + popcount64 (b j)

theorem prefixPop_shift (b : ℕ → ℕ) (base : ℕ) : ∀ j,
    prefixPop (fun j => b (j + 1)) (base + popcount64 (b 0)) j = prefixPop b base (j + 1) := by
  intro j
  induction j with
  | zero => rfl
  | succ j ih => simp only [prefixPop] at ih ⊢; rw [ih]

theorem countLoop_size : ∀ (n : ℕ) (ws : PiWords) (a base : ℕ), (countLoop ws a n base).size = ws.size := by
  intro n
  induction n with
  | zero => intro ws a base; rfl
  | succ n ih =>
    intro ws a base
    unfold countLoop
    split
    · rw [ih]; simp
    · rw [ih]

theorem countLoop_outside : ∀ (n : ℕ) (ws : PiWords) (a base i : ℕ), (i < a ∨ a + n ≤ i) →
    (countLoop ws a n base)[i]? = ws[i]? := by
  intro n
  induction n with
  | zero => intro ws a base i _; rfl
  | succ n ih =>
    intro ws a base i hi
    unfold countLoop
    split
    · rw [ih _ _ _ _ (by omega), Array.getElem?_setIfInBounds, if_neg (by omega)]
    · rw [ih _ _ _ _ (by omega)]

theorem countLoop_inside : ∀ (n : ℕ) (ws : PiWords) (a base : ℕ) (b : ℕ → ℕ),
    (∀ j, j < n → ∃ x, ws[a + j]? = some (some (x, b j))) →
    ∀ j, j < n → (countLoop ws a n base)[a + j]? = some (some (prefixPop b base j, b j)) := by
  intro n
  induction n with
  | zero => intro ws a base b _ j hj; omega
  | succ n ih =>
    intro ws a base b h j hj
    obtain ⟨x0, hx0⟩ := h 0 (by omega)
    rw [Nat.add_zero] at hx0
    have hget : ws.getD a none = some (x0, b 0) := by
      rw [Array.getD_eq_getD_getElem?, hx0]; rfl
    have hsz : a < ws.size := by
      by_contra hc
      rw [Array.getElem?_eq_none (Nat.le_of_not_lt hc)] at hx0
      exact absurd hx0 (by simp)
    unfold countLoop
    rw [hget]
    simp only
    rcases j with _ | j
    · rw [countLoop_outside _ _ _ _ _ (by omega), Array.getElem?_setIfInBounds, if_pos (by omega), if_pos hsz]
      rfl
    · have h' : ∀ j, j < n → ∃ x, (ws.setIfInBounds a (some (base, b 0)))[a + 1 + j]? = some (some (x, b (j + 1))) := by
        intro j hj
        obtain ⟨x, hx⟩ := h (j + 1) (by omega)
        refine ⟨x, ?_⟩
        rw [Array.getElem?_setIfInBounds, if_neg (by omega)]
        rw [← hx]; congr 1; omega
      have := ih (ws.setIfInBounds a (some (base, b 0))) (a + 1) (base + popcount64 (b 0)) (fun j => b (j + 1)) h' j (by omega)
      rw [prefixPop_shift] at this
      rw [← this]; congr 1; omega

/-- generic: a fold over thread indices observed through something only thread `t` changes -/
theorem foldl_range_frame {σ α : Type} (step : σ → ℕ → σ) (obs : σ → α) (t : ℕ)
    (hframe : ∀ s t', t' ≠ t → obs (step s t') = obs s) :
    ∀ n s0, obs ((List.range n).foldl step s0)
      = if t < n then obs (step ((List.range t).foldl step s0) t) else obs s0 := by
  intro n
  induction n with
  | zero => intro s0; simp
  | succ n ih =>
    intro s0
    rw [List.range_succ, List.foldl_append, List.foldl_cons, List.foldl_nil]
    by_cases h : n = t
    · subst h; simp
    · rw [hframe _ _ h, ih]
      by_cases h2 : t < n
      · rw [if_pos h2, if_pos (by omega)]
      · rw [if_neg h2, if_neg (by omega)]


/-! ### one thread of `PiTable::init` -/

theorem piInitBits_get (gen : PrimeGen) (ws : PiWords) (low high i : ℕ) :
    (piInitBits gen ws low high).1[i]?
      = if low / 240 ≤ i ∧ i < ceilDiv high 240 ∧ i < ws.size
        then some (some (0, orAll (gen (max low 7) high) i))
        else (ws[i]?).map (Option.map fun w => (w.1, w.2 ||| orAll (gen (max low 7) high) i)) := by
  unfold piInitBits
  simp only
  rw [orFold_get, fillWords_get]
  split
  · simp
  · rfl

theorem piInitBits_size (gen : PrimeGen) (ws : PiWords) (low high : ℕ) :
    (piInitBits gen ws low high).1.size = ws.size := by
  unfold piInitBits
  simp only
  rw [orFold_size, fillWords_size]

theorem map_or_zero (o : Option (Option (ℕ × ℕ))) :
    o.map (Option.map fun w => (w.1, w.2 ||| 0)) = o := by
  cases o with
  | none => rfl
  | some w => cases w <;> simp

/-- `init_bits(low, high)` writes only the words `[low / 240, ceil_div(high, 240))` -/
theorem piInitBits_frame (gen : PrimeGen) (hg : PrimeGenSpec gen) (ws : PiWords) (low high i : ℕ)
    (h : ¬ (low / 240 ≤ i ∧ i < ceilDiv high 240)) : (piInitBits gen ws low high).1[i]? = ws[i]? := by
  rw [piInitBits_get, if_neg (fun hc => h ⟨hc.1, hc.2.1⟩)]
  rw [orAll_outside gen hg _ _ i, map_or_zero]
  intro p hp1 hp2 hpi
  apply h
  unfold ceilDiv
  have : low ≤ p := le_trans (le_max_left _ _) hp1
  omega

section Threads
variable (gen : PrimeGen) (limit td : ℕ)

/-- word `i` belongs to thread `t` -/
def inW (t i : ℕ) : Prop :=
  (piThreadRange limit td t).1 / 240 ≤ i ∧ i < ceilDiv (piThreadRange limit td t).2 240

theorem inW_iff (h240 : 240 ∣ td) (t i : ℕ) :
    inW limit td t i ↔ 30720 + td * t ≤ 240 * i ∧ 240 * i < min (30720 + td * t + td) limit := by
  obtain ⟨c, hc⟩ := h240
  have hlow : (30720 + td * t) % 240 = 0 := by rw [hc, Nat.mul_assoc]; omega
  unfold inW
  simp only [piThreadRange, piCacheLimit_eq, ceilDiv]
  constructor
  · rintro ⟨h1, h2⟩; exact ⟨by omega, by omega⟩
  · rintro ⟨h1, h2⟩; exact ⟨by omega, by omega⟩

theorem inW_disjoint (h240 : 240 ∣ td) (htd : 0 < td) (t t' i : ℕ) (h : inW limit td t i) (h' : inW limit td t' i) :
    t = t' := by
  rw [inW_iff limit td h240] at h h'
  have key : ∀ s, 30720 + td * s ≤ 240 * i → 240 * i < min (30720 + td * s + td) limit →
      (240 * i - 30720) / td = s := by
    intro s h1 h2
    have h3 := lt_of_lt_of_le h2 (min_le_left _ _)
    have e : s * td = td * s := Nat.mul_comm _ _
    apply Nat.div_eq_of_lt_le
    · omega
    · rw [Nat.add_mul, Nat.one_mul]; omega
  rw [← key t h.1 h.2, ← key t' h'.1 h'.2]

theorem bitsStep_size (acc : PiWords × Array (Option ℕ)) (t : ℕ) :
    (piBitsStep gen limit td acc t).1.size = acc.1.size := by
  unfold piBitsStep
  simp only
  split
  · exact piInitBits_size _ _ _ _
  · rfl

theorem bitsStep_frame (hg : PrimeGenSpec gen) (acc : PiWords × Array (Option ℕ)) (t i : ℕ)
    (h : ¬ inW limit td t i) : (piBitsStep gen limit td acc t).1[i]? = acc.1[i]? := by
  unfold piBitsStep
  simp only
  split
  · exact piInitBits_frame gen hg _ _ _ _ h
  · rfl

theorem bitsStep_effect (acc : PiWords × Array (Option ℕ)) (t i : ℕ)
    (hact : (piThreadRange limit td t).1 < (piThreadRange limit td t).2)
    (h : inW limit td t i) (hsz : i < acc.1.size) :
    (piBitsStep gen limit td acc t).1[i]?
      = some (some (0, orAll (gen (max (piThreadRange limit td t).1 7) (piThreadRange limit td t).2) i)) := by
  unfold piBitsStep
  simp only
  rw [if_pos hact, piInitBits_get, if_pos ⟨h.1, h.2, hsz⟩]

theorem bitsStep_counts_size (acc : PiWords × Array (Option ℕ)) (t : ℕ) :
    (piBitsStep gen limit td acc t).2.size = acc.2.size := by
  unfold piBitsStep
  simp only
  split
  · simp
  · rfl

theorem bitsStep_counts_frame (acc : PiWords × Array (Option ℕ)) (t t' : ℕ) (h : t' ≠ t) :
    (piBitsStep gen limit td acc t).2[t']? = acc.2[t']? := by
  unfold piBitsStep
  simp only
  split
  · rw [Array.getElem?_setIfInBounds, if_neg (fun e => h e.symm)]
  · rfl

theorem bitsStep_counts_effect (acc : PiWords × Array (Option ℕ)) (t : ℕ)
    (hact : (piThreadRange limit td t).1 < (piThreadRange limit td t).2) (hsz : t < acc.2.size) :
    (piBitsStep gen limit td acc t).2[t]?
      = some (some (gen (max (piThreadRange limit td t).1 7) (piThreadRange limit td t).2).length) := by
  unfold piBitsStep
  simp only
  rw [if_pos hact, Array.getElem?_setIfInBounds, if_pos rfl, if_pos hsz]
  rfl


/-! #### first parallel loop (`init_bits` of all threads) -/

theorem phase1_size (s0 : PiWords × Array (Option ℕ)) : ∀ n,
    ((List.range n).foldl (piBitsStep gen limit td) s0).1.size = s0.1.size
      ∧ ((List.range n).foldl (piBitsStep gen limit td) s0).2.size = s0.2.size := by
  intro n
  induction n with
  | zero => simp
  | succ n ih =>
    rw [List.range_succ, List.foldl_append, List.foldl_cons, List.foldl_nil, bitsStep_size, bitsStep_counts_size]
    exact ih

theorem phase1_words (hg : PrimeGenSpec gen) (h240 : 240 ∣ td) (htd : 0 < td)
    (s0 : PiWords × Array (Option ℕ)) (thr t i : ℕ) (ht : t < thr)
    (hact : (piThreadRange limit td t).1 < (piThreadRange limit td t).2)
    (hin : inW limit td t i) (hsz : i < s0.1.size) :
    ((List.range thr).foldl (piBitsStep gen limit td) s0).1[i]?
      = some (some (0, orAll (gen (max (piThreadRange limit td t).1 7) (piThreadRange limit td t).2) i)) := by
  have h := foldl_range_frame (piBitsStep gen limit td) (fun s => s.1[i]?) t
    (fun s t' hne => bitsStep_frame gen limit td hg s t' i
      (fun hc => hne (inW_disjoint limit td h240 htd t' t i hc hin))) thr s0
  rw [h, if_pos ht]
  exact bitsStep_effect gen limit td _ t i hact hin (by rw [(phase1_size gen limit td s0 t).1]; exact hsz)

theorem phase1_other (hg : PrimeGenSpec gen) (s0 : PiWords × Array (Option ℕ)) (i : ℕ)
    (hout : ∀ t, ¬ inW limit td t i) : ∀ n,
    ((List.range n).foldl (piBitsStep gen limit td) s0).1[i]? = s0.1[i]? := by
  intro n
  induction n with
  | zero => simp
  | succ n ih =>
    rw [List.range_succ, List.foldl_append, List.foldl_cons, List.foldl_nil,
      bitsStep_frame gen limit td hg _ n i (hout n), ih]

theorem phase1_counts (s0 : PiWords × Array (Option ℕ)) (thr t : ℕ) (ht : t < thr)
    (hact : (piThreadRange limit td t).1 < (piThreadRange limit td t).2) (hsz : t < s0.2.size) :
    ((List.range thr).foldl (piBitsStep gen limit td) s0).2[t]?
      = some (some (gen (max (piThreadRange limit td t).1 7) (piThreadRange limit td t).2).length) := by
  have h := foldl_range_frame (piBitsStep gen limit td) (fun s => s.2[t]?) t
    (fun s t' hne => bitsStep_counts_frame gen limit td s t' t (fun e => hne e.symm)) thr s0
  rw [h, if_pos ht]
  exact bitsStep_counts_effect gen limit td _ t hact (by rw [(phase1_size gen limit td s0 t).2]; exact hsz)

/-! #### second parallel loop (`init_count` of all threads) -/

theorem countStep_size (counts : Array (Option ℕ)) (w : PiWords) (t : ℕ) :
    (piCountStep limit td counts w t).size = w.size := by
  unfold piCountStep piInitCount
  simp only
  split
  · split
    · exact countLoop_size _ _ _ _
    · rfl
  · rfl

theorem countStep_frame (counts : Array (Option ℕ)) (w : PiWords) (t i : ℕ) (h : ¬ inW limit td t i) :
    (piCountStep limit td counts w t)[i]? = w[i]? := by
  unfold piCountStep piInitCount
  simp only
  split
  · split
    · apply countLoop_outside
      unfold inW at h
      omega
    · rfl
  · rfl

theorem countStep_effect (counts : Array (Option ℕ)) (w : PiWords) (t base : ℕ) (b : ℕ → ℕ)
    (hact : (piThreadRange limit td t).1 < (piThreadRange limit td t).2)
    (hbase : piThreadBase counts t = some base)
    (hw : ∀ i, inW limit td t i → ∃ x, w[i]? = some (some (x, b (i - (piThreadRange limit td t).1 / 240))))
    (i : ℕ) (hin : inW limit td t i) :
    (piCountStep limit td counts w t)[i]?
      = some (some (prefixPop b base (i - (piThreadRange limit td t).1 / 240), b (i - (piThreadRange limit td t).1 / 240))) := by
  unfold piCountStep piInitCount
  simp only
  rw [if_pos hact, hbase]
  simp only
  have hi : i = (piThreadRange limit td t).1 / 240 + (i - (piThreadRange limit td t).1 / 240) := by
    have := hin.1; omega
  have := countLoop_inside (ceilDiv (piThreadRange limit td t).2 240 - (piThreadRange limit td t).1 / 240) w
    ((piThreadRange limit td t).1 / 240) base b
    (fun j hj => by
      obtain ⟨x, hx⟩ := hw ((piThreadRange limit td t).1 / 240 + j) ⟨by omega, by omega⟩
      refine ⟨x, ?_⟩
      rw [hx]; congr 4; omega)
    (i - (piThreadRange limit td t).1 / 240) (by have := hin.2; omega)
  rw [← hi] at this
  exact this

theorem phase2_size (counts : Array (Option ℕ)) (w0 : PiWords) : ∀ n,
    ((List.range n).foldl (piCountStep limit td counts) w0).size = w0.size := by
  intro n
  induction n with
  | zero => simp
  | succ n ih =>
    rw [List.range_succ, List.foldl_append, List.foldl_cons, List.foldl_nil, countStep_size]
    exact ih

theorem phase2_other (counts : Array (Option ℕ)) (w0 : PiWords) (i : ℕ)
    (hout : ∀ t, ¬ inW limit td t i) : ∀ n,
    ((List.range n).foldl (piCountStep limit td counts) w0)[i]? = w0[i]? := by
  intro n
  induction n with
  | zero => simp
  | succ n ih =>
    rw [List.range_succ, List.foldl_append, List.foldl_cons, List.foldl_nil,
      countStep_frame limit td counts _ n i (hout n), ih]

/-- words of the other threads are untouched by the steps before thread `t` -/
theorem phase2_prefix (h240 : 240 ∣ td) (htd : 0 < td) (counts : Array (Option ℕ)) (w0 : PiWords) (t i : ℕ)
    (hin : inW limit td t i) : ∀ n, n ≤ t →
    ((List.range n).foldl (piCountStep limit td counts) w0)[i]? = w0[i]? := by
  intro n
  induction n with
  | zero => simp
  | succ n ih =>
    intro hn
    rw [List.range_succ, List.foldl_append, List.foldl_cons, List.foldl_nil,
      countStep_frame limit td counts _ n i
        (fun hc => by have := inW_disjoint limit td h240 htd n t i hc hin; omega), ih (by omega)]

theorem phase2_words (h240 : 240 ∣ td) (htd : 0 < td) (counts : Array (Option ℕ)) (w0 : PiWords)
    (thr t base : ℕ) (b : ℕ → ℕ) (ht : t < thr)
    (hact : (piThreadRange limit td t).1 < (piThreadRange limit td t).2)
    (hbase : piThreadBase counts t = some base)
    (hw : ∀ i, inW limit td t i → ∃ x, w0[i]? = some (some (x, b (i - (piThreadRange limit td t).1 / 240))))
    (i : ℕ) (hin : inW limit td t i) :
    ((List.range thr).foldl (piCountStep limit td counts) w0)[i]?
      = some (some (prefixPop b base (i - (piThreadRange limit td t).1 / 240), b (i - (piThreadRange limit td t).1 / 240))) := by
  have h := foldl_range_frame (piCountStep limit td counts) (fun s => s[i]?) t
    (fun s t' hne => countStep_frame limit td counts s t' i
      (fun hc => hne (inW_disjoint limit td h240 htd t' t i hc hin))) thr w0
  rw [h, if_pos ht]
  apply countStep_effect limit td counts _ t base b hact hbase _ i hin
  intro i' hin'
  rw [phase2_prefix limit td h240 htd counts w0 t i' hin' t le_rfl]
  exact hw i' hin'

end Threads


/-! ### PrimePi[low - 1] of a thread -/

theorem popcount_and_full (b : ℕ) : popcount64 (b &&& unsetLargerSpec 239) = popcount64 b := by
  rw [popcount64_eq_card, popcount64_eq_card]
  congr 1
  apply Finset.filter_congr
  intro k hk
  have hk' : k < 64 := Finset.mem_range.1 hk
  have := wheelNum_lt hk'
  simp only [Nat.testBit_and, unsetLargerSpec, testBit_maskOf, hk', decide_true, Bool.true_and, Bool.and_eq_true,
    decide_eq_true_eq]
  constructor
  · rintro ⟨h, _⟩; exact h
  · intro h; exact ⟨h, by omega⟩

/-- `cache_last.count + popcnt64(cache_last.bits)` is π(30719) -/
theorem piCache_total :
    (PcGen.piCache.getD (PcGen.piCache.size - 1) (0, 0)).1
      + popcount64 (PcGen.piCache.getD (PcGen.piCache.size - 1) (0, 0)).2 = Nat.count Nat.Prime 30720 := by
  rw [piCache_size, piCache_getD 127 (by norm_num)]
  have h := piCache_correct 30719 (by norm_num)
  unfold piCacheLookup at h
  rw [PcGen.Obl.piTiny_size, if_neg (by norm_num)] at h
  have e1 : 30719 / 240 = 127 := by norm_num
  have e2 : 30719 % 240 = 239 := by norm_num
  rw [e1, piCache_getD 127 (by norm_num)] at h
  unfold wordLookup at h
  rw [e2, unsetLargerTbl_eq 239 (by norm_num), popcount_and_full] at h
  rw [h]; rfl

theorem piThreadBase_eq (counts : Array (Option ℕ)) (c : ℕ → ℕ) : ∀ t,
    (∀ s, s < t → counts[s]? = some (some (c s))) →
    piThreadBase counts t = some (Nat.count Nat.Prime 30720 + (Finset.range t).sum c) := by
  intro t
  unfold piThreadBase
  simp only
  rw [piCache_total]
  induction t with
  | zero => intro _; simp
  | succ t ih =>
    intro h
    rw [List.range_succ, List.foldl_append, List.foldl_cons, List.foldl_nil, ih (fun s hs => h s (by omega))]
    rw [Array.getD_eq_getD_getElem?, h t (by omega), Finset.sum_range_succ]
    simp [Nat.add_assoc]


theorem thread_base_pi (gen : PrimeGen) (hg : PrimeGenSpec gen) (limit td : ℕ) : ∀ t,
    30720 + td * t ≤ limit →
    Nat.count Nat.Prime 30720
      + (Finset.range t).sum (fun s => (gen (max (piThreadRange limit td s).1 7) (piThreadRange limit td s).2).length)
      = Nat.count Nat.Prime (30720 + td * t) := by
  intro t
  induction t with
  | zero => intro _; simp
  | succ t ih =>
    intro hle
    have e : td * (t + 1) = td * t + td := Nat.mul_succ _ _
    rw [Finset.sum_range_succ, ← Nat.add_assoc, ih (by omega)]
    have h1 : max (piThreadRange limit td t).1 7 = 30720 + td * t := by
      simp only [piThreadRange, piCacheLimit_eq]; omega
    have h2 : (piThreadRange limit td t).2 = 30720 + td * (t + 1) := by
      simp only [piThreadRange, piCacheLimit_eq]; omega
    rw [h1, h2]
    exact gen_length gen hg _ _ (by omega)

theorem PiTable.new_maxX (gen : PrimeGen) (maxX : ℕ) (threads : ℤ) : (PiTable.new gen maxX threads).maxX = maxX := by
  unfold PiTable.new
  simp only
  split <;> rfl

/-- the words of the constructed table: every word that a query `6 ≤ n ≤ max_x` reads has been written and
    answers π(n) -/
theorem piTable_word (gen : PrimeGen) (hg : PrimeGenSpec gen) (maxX : ℕ) (threads : ℤ) (n : ℕ)
    (h6 : 6 ≤ n) (hn : n ≤ maxX) :
    ∃ w, (PiTable.new gen maxX threads).words[n / 240]? = some (some w) ∧ wordLookup w n = Nat.primeCounting n := by
  have hisz : n / 240 < ceilDiv (maxX + 1) 240 := by unfold ceilDiv; omega
  -- the initial array: cache copy followed by unwritten words
  have hws0 : ∀ i, i < 128 → i < ceilDiv (maxX + 1) 240 →
      (Array.ofFn (n := ceilDiv (maxX + 1) 240) fun i : Fin (ceilDiv (maxX + 1) 240) =>
        if i.val < min PcGen.piCache.size (ceilDiv (maxX + 1) 240) then some (PcGen.piCache.getD i.val (0, 0)) else none)[i]?
        = some (some (PcGen.piCache.getD i (0, 0))) := by
    intro i hi1 hi2
    rw [Array.getElem?_ofFn, dif_pos hi2, piCache_size]
    simp only
    rw [if_pos (by omega)]
  have hcache : n < 30720 → wordLookup (PcGen.piCache.getD (n / 240) (0, 0)) n = Nat.primeCounting n := by
    intro hlt
    have := piCache_correct n hlt
    unfold piCacheLookup at this
    rwa [PcGen.Obl.piTiny_size, if_neg (by omega)] at this
  unfold PiTable.new
  simp only
  split
  · -- limit > cache_limit: threaded initialisation
    rename_i hlim
    rw [piCacheLimit_eq] at hlim
    unfold piInit
    simp only
    obtain ⟨hthr, h240, hcov⟩ := piThreadParams_spec (maxX + 1) threads hlim
    generalize (piThreadParams (maxX + 1) threads).1 = thr at *
    generalize (piThreadParams (maxX + 1) threads).2 = td at *
    have htd : 0 < td := by
      rcases Nat.eq_zero_or_pos td with h | h
      · rw [h] at hcov; simp at hcov
      · exact h
    set ws0 : PiWords := Array.ofFn (n := ceilDiv (maxX + 1) 240) fun i : Fin (ceilDiv (maxX + 1) 240) =>
        if i.val < min PcGen.piCache.size (ceilDiv (maxX + 1) 240) then some (PcGen.piCache.getD i.val (0, 0)) else none
      with hws0def
    have hsz0 : ws0.size = ceilDiv (maxX + 1) 240 := Array.size_ofFn
    set s1 := (List.range thr).foldl (piBitsStep gen (maxX + 1) td) (ws0, Array.replicate thr none) with hs1
    by_cases hlt : n < 30720
    · -- answered from the cache part, which no thread touches
      have hout : ∀ t, ¬ inW (maxX + 1) td t (n / 240) := by
        intro t hc
        rw [inW_iff _ _ h240] at hc
        omega
      refine ⟨PcGen.piCache.getD (n / 240) (0, 0), ?_, hcache hlt⟩
      rw [phase2_other _ _ _ _ _ hout, hs1, phase1_other gen _ _ hg _ _ hout]
      exact hws0 _ (by omega) hisz
    · -- answered from the range of exactly one thread
      obtain ⟨t, ⟨ht, hlo, hhi⟩, _⟩ := range_partition 30720 (maxX + 1) td thr htd hcov n (by omega) (by omega)
      have hr1 : (piThreadRange (maxX + 1) td t).1 = 30720 + td * t := by simp [piThreadRange, piCacheLimit_eq]
      have hr2 : (piThreadRange (maxX + 1) td t).2 = min (30720 + td * t + td) (maxX + 1) := by
        simp [piThreadRange, piCacheLimit_eq]
      have hact : (piThreadRange (maxX + 1) td t).1 < (piThreadRange (maxX + 1) td t).2 := by
        rw [hr1, hr2]; omega
      obtain ⟨c, hc⟩ := h240
      have hlow240 : (30720 + td * t) % 240 = 0 := by rw [hc, Nat.mul_assoc]; omega
      set lo := 30720 + td * t with hlodef
      set hi := min (lo + td) (maxX + 1) with hhidef
      have hin : inW (maxX + 1) td t (n / 240) := by
        rw [inW_iff _ _ ⟨c, hc⟩]
        constructor
        · omega
        · show 240 * (n / 240) < hi
          omega
      -- words after the first loop
      let b : ℕ → ℕ := fun j => orAll (gen (max lo 7) hi) (lo / 240 + j)
      have hw1 : ∀ i, inW (maxX + 1) td t i →
          ∃ x, s1.1[i]? = some (some (x, b (i - (piThreadRange (maxX + 1) td t).1 / 240))) := by
        intro i hi'
        refine ⟨0, ?_⟩
        have hisz' : i < ws0.size := by
          rw [hsz0]
          have h2 := hi'.2
          rw [hr2] at h2
          unfold ceilDiv at h2 ⊢
          omega
        rw [hs1, phase1_words gen _ _ hg ⟨c, hc⟩ htd _ thr t i ht hact hi' hisz', hr1, hr2]
        have : lo / 240 + (i - lo / 240) = i := by
          have h1 := hi'.1
          rw [hr1] at h1
          omega
        simp only [b]
        rw [this]
      -- counts_ after the first loop
      have hcounts : ∀ s, s < t → s1.2[s]? = some (some
          (gen (max (piThreadRange (maxX + 1) td s).1 7) (piThreadRange (maxX + 1) td s).2).length) := by
        intro s hs
        rw [hs1]
        apply phase1_counts gen _ _ _ thr s (by omega)
        · simp only [piThreadRange, piCacheLimit_eq]
          have : td * s + td ≤ td * t := by
            rw [← Nat.mul_succ]; exact Nat.mul_le_mul_left _ (by omega)
          omega
        · simp; omega
      have hbase := piThreadBase_eq s1.2 _ t hcounts
      rw [thread_base_pi gen hg (maxX + 1) td t (by omega)] at hbase
      have hfinal := phase2_words (maxX + 1) td ⟨c, hc⟩ htd s1.2 s1.1 thr t _ b ht hact hbase hw1 (n / 240) hin
      refine ⟨_, hfinal, ?_⟩
      rw [hr1]
      -- the thread's words form a prime table starting at block lo / 240
      unfold wordLookup
      simp only
      rw [unsetLargerTbl_eq _ (Nat.mod_lt _ (by norm_num))]
      have hi0 : 240 * (lo / 240) = lo := by omega
      apply bitPiTable_lookup (lo / 240) hi (n / 240 - lo / 240) (prefixPop b (Nat.count Nat.Prime lo)) b
      · rw [if_neg (by omega)]
        simp only [prefixPop, Nat.primeCounting, Nat.primeCounting']
        rw [hi0]
        have e : lo - 1 + 1 = lo := by omega
        rw [e]
      · intro j _; rfl
      · intro j _
        exact wordHolds_orAll gen hg lo hi (lo / 240 + j) (by omega)
      · exact h6
      · omega
      · exact hhi
      · exact le_rfl
  · -- the table is a copy of (a prefix of) the cache
    rename_i hlim
    rw [piCacheLimit_eq] at hlim
    refine ⟨PcGen.piCache.getD (n / 240) (0, 0), ?_, hcache (by omega)⟩
    exact hws0 _ (by omega) hisz

/-- **C17**: `PiTable(max_x, threads)[n] = π(n)` for every table size, thread count and `n ≤ max_x`,
    given that the prime generator yields exactly the primes (C18). -/
theorem piTable_correct (gen : PrimeGen) (hg : PrimeGenSpec gen) (maxX : ℕ) (threads : ℤ) (n : ℕ)
    (hn : n ≤ maxX) : (PiTable.new gen maxX threads).get n = some (Nat.primeCounting n) := by
  unfold PiTable.get
  rw [PiTable.new_maxX, if_neg (by omega), PcGen.Obl.piTiny_size]
  split
  · rename_i h6; rw [piTinyTbl_eq n h6]
  · rename_i h6
    obtain ⟨w, hw, hlook⟩ := piTable_word gen hg maxX threads n (by omega) hn
    rw [Array.getD_eq_getD_getElem?, hw]
    simp [hlook]

end Pc
