/-
C08 (wp-s1phi0), part 2: `Sigma(x, y)` (model `sigma` / `sigmaParts` / `sigma456` of PcModel/LeafLoops.lean).

* `tdiv_*`               the truncating divisions of `Sigma0 … Sigma3` are exact (C++ `/` = floor division here);
* `sigma456Step_eq`, `sigma456_fold`  the prime loop accumulates the three sums, every `pi[·]` read is inside the table
                         `PiTable pi(max_pix)` the function allocates, no product leaves the operand type;
* `sigma_eq_NT`          `sigma = NT.Sigma` (the executable defining sum);
* `NT.Sigma_eq_tight`    `NT.Sigma` = the `Pc.Spec` sums for a table that only reaches what the real code's table reaches;
* `sigma_eq`             `sigma` = `Σ0 + … + Σ6` of PcProofs/Spec.
-/
import PcProofs.LeafLoops
import PcProofs.FormulasPrime

namespace Pc
open Nat Finset Classical
open scoped Nat.Prime
variable {t : NT}

/-! ### the closed forms: truncation = floor -/

theorem tdiv_tri (n : ℕ) : Int.tdiv ((n : ℤ) * ((n : ℤ) - 1)) 2 = ((n : ℤ) * ((n : ℤ) - 1)) / 2 := by
  apply Int.tdiv_eq_ediv_of_nonneg
  rcases Nat.eq_zero_or_pos n with h | h
  · subst h; simp
  · have : (1 : ℤ) ≤ n := by exact_mod_cast h
    exact mul_nonneg (by omega) (by omega)

theorem tdiv_tri_sub {a b : ℕ} (h : b ≤ a) :
    Int.tdiv (((a : ℤ) - b) * ((a : ℤ) - b - 1)) 2 = (((a : ℤ) - b) * ((a : ℤ) - b - 1)) / 2 := by
  have := tdiv_tri (a - b)
  rwa [Nat.cast_sub h] at this

theorem tdiv_g (n : ℕ) : Int.tdiv ((n : ℤ) * ((n : ℤ) - 3)) 2 = ((n : ℤ) * ((n : ℤ) - 3)) / 2 := by
  apply Int.tdiv_eq_ediv_of_dvd
  have h1 : (2 : ℤ) ∣ (n : ℤ) * ((n : ℤ) - 1) := (Int.even_mul_pred_self (n : ℤ)).two_dvd
  have : (n : ℤ) * ((n : ℤ) - 3) = (n : ℤ) * ((n : ℤ) - 1) - 2 * n := by ring
  rw [this]
  exact dvd_sub h1 (dvd_mul_right 2 _)

theorem tdiv_h (n : ℕ) :
    Int.tdiv ((n : ℤ) * ((n : ℤ) - 1) * (2 * (n : ℤ) - 1)) 6 = ((n : ℤ) * ((n : ℤ) - 1) * (2 * (n : ℤ) - 1)) / 6 := by
  apply Int.tdiv_eq_ediv_of_nonneg
  rcases Nat.eq_zero_or_pos n with h | h
  · subst h; simp
  · have : (1 : ℤ) ≤ n := by exact_mod_cast h
    exact mul_nonneg (mul_nonneg (by omega) (by omega)) (by omega)

/-! ### the prime loop of `Sigma456` -/

theorem piGet_ok' (t : NT) {maxX n : ℕ} (h : n ≤ maxX) : piGet t maxX n = .ok (t.piOf n) := by
  unfold piGet; rw [if_pos h]

/-- the three per-prime summands -/
def sg4 (t : NT) (x y sxy q : ℕ) : ℤ := if q ≤ sxy then (t.piOf (x / (q * y)) : ℤ) else 0
def sg5 (t : NT) (x sxy q : ℕ) : ℤ := if q ≤ sxy then 0 else (t.piOf (x / (q * q)) : ℤ)
def sg6 (t : NT) (x q : ℕ) : ℤ := (t.piOf (isqrtN (x / q)) : ℤ) * (t.piOf (isqrtN (x / q)) : ℤ)

/-- what keeps one iteration of the prime loop inside the operand type and inside the table -/
structure SigmaLoopOK (w : ITy) (x y xs x13 maxX : ℕ) : Prop where
  hy1 : 1 ≤ y
  hxs1 : 1 ≤ xs
  hx13y : x13 ≤ y
  hw : y * y ≤ w.maxVal
  hm4 : x / (xs * y) ≤ maxX
  hm5 : y ≤ maxX
  hm6 : Nat.sqrt (x / xs) ≤ maxX

theorem sigma456Step_eq {w : ITy} {x y xs x13 maxX : ℕ} (H : SigmaLoopOK w x y xs x13 maxX) (acc : S456) {q : ℕ}
    (hq : xs < q) (hq13 : q ≤ x13) :
    sigma456Step t w x y maxX (Nat.sqrt (x / y)) acc q
      = .ok ⟨acc.s4 + sg4 t x y (Nat.sqrt (x / y)) q, acc.s5 + sg5 t x (Nat.sqrt (x / y)) q, acc.s6 + sg6 t x q⟩ := by
  obtain ⟨hy1, hxs1, hx13y, hw, hm4, hm5, hm6⟩ := H
  have hq1 : 1 ≤ q := by omega
  have hqy : q ≤ y := le_trans hq13 hx13y
  have h6 : isqrtN (x / q) ≤ maxX := by
    rw [isqrtN_eq]
    exact le_trans (Nat.sqrt_le_sqrt (Nat.div_le_div_left hq.le hxs1)) hm6
  unfold sigma456Step sg4 sg5 sg6
  by_cases hb : q ≤ Nat.sqrt (x / y)
  · have h4 : x / (q * y) ≤ maxX :=
      le_trans (Nat.div_le_div_left (Nat.mul_le_mul_right y hq.le) (Nat.mul_pos hxs1 hy1)) hm4
    have hd : divM x q = .ok (x / q) := divM_ok (by omega)
    rw [if_pos hb, if_pos hb, if_pos hb, mulT_ok (le_trans (Nat.mul_le_mul_right y hqy) hw), LM_bind_ok,
      divM_ok (Nat.mul_pos hq1 hy1).ne', LM_bind_ok, piGet_ok' t h4, hd]
    simp only [LM_bind_ok, LM_pure, piGet_ok' t h6, add_zero]
  · have hlt : Nat.sqrt (x / y) < q := not_le.1 hb
    have h2 := (Nat.div_lt_iff_lt_mul hy1).1 (Nat.sqrt_lt.1 hlt)
    have h3 : x / (q * q) < y :=
      (Nat.div_lt_iff_lt_mul (Nat.mul_pos hq1 hq1)).2 (by rw [mul_comm]; exact h2)
    have hd : divM x q = .ok (x / q) := divM_ok (by omega)
    rw [if_neg hb, if_neg hb, if_neg hb, mulT_ok (le_trans (Nat.mul_le_mul hqy hqy) hw), LM_bind_ok,
      divM_ok (Nat.mul_pos hq1 hq1).ne', LM_bind_ok, piGet_ok' t (le_trans h3.le hm5), hd]
    simp only [LM_bind_ok, LM_pure, piGet_ok' t h6, add_zero]

theorem sigma456_fold {w : ITy} {x y xs x13 maxX : ℕ} (H : SigmaLoopOK w x y xs x13 maxX) :
    ∀ (l : List ℕ) (acc : S456), (∀ q ∈ l, xs < q ∧ q ≤ x13) →
      l.foldlM (sigma456Step t w x y maxX (Nat.sqrt (x / y))) acc
        = .ok ⟨acc.s4 + (l.map (sg4 t x y (Nat.sqrt (x / y)))).sum, acc.s5 + (l.map (sg5 t x (Nat.sqrt (x / y)))).sum,
            acc.s6 + (l.map (sg6 t x)).sum⟩ := by
  intro l
  induction l with
  | nil => intro acc _; simp
  | cons q l ih =>
    intro acc h
    have hq := h q (List.mem_cons_self ..)
    rw [List.foldlM_cons, sigma456Step_eq H acc hq.1 hq.2, LM_bind_ok,
      ih _ (fun q' hq' => h q' (List.mem_cons_of_mem _ hq'))]
    simp only [List.map_cons, List.sum_cons]
    congr 2 <;> ring

/-! ### `Sigma(x, y)` = the executable defining sum -/

theorem one_le_xStar (x y : ℕ) : 1 ≤ xStar x y := by
  unfold xStar; exact le_max_right _ _

theorem list_sum_map_congr {l : List ℕ} {f g : ℕ → ℤ} (h : ∀ q ∈ l, f q = g q) : (l.map f).sum = (l.map g).sum := by
  rw [List.map_congr_left h]

/-- **`Sigma(x, y)` mirrors the defining sum** whenever `x^(1/3) ≤ y` (the real code reads `pi[iroot<3>(x)]` from a
    table that is only guaranteed to reach `y`), `y²` fits the operand type and the table size fits `int64_t`:
    no `pi[·]` read leaves the table `PiTable pi(max_pix)`, no product overflows, and the value is `NT.Sigma`. -/
theorem sigma_eq_NT (hv : t.Valid) {w : ITy} {x y : ℕ} (hy1 : 1 ≤ y) (hc3y : irootN 3 x ≤ y) (hyb : y ≤ t.bound)
    (hw : y * y ≤ w.maxVal) (h4 : x / (xStar x y * y) ≤ ITy.i64.maxVal)
    (h6 : Nat.sqrt (x / xStar x y) ≤ ITy.i64.maxVal) :
    sigma t w x y = .ok (t.Sigma x y) := by
  have hxs1 := one_le_xStar x y
  have hxsy : xStar x y ≤ y := xStar_le_y hy1
  have hc3b : irootN 3 x ≤ t.bound := le_trans hc3y hyb
  set xs := xStar x y with hxs
  set maxPix := max (x / (xs * y)) (max y (isqrtN (x / xs))) with hmp
  have hm5 : y ≤ maxPix := le_max_of_le_right (le_max_left _ _)
  have hm6 : Nat.sqrt (x / xs) ≤ maxPix := by
    rw [← isqrtN_eq]; exact le_max_of_le_right (le_max_right _ _)
  have hsxy : isqrtN (x / y) ≤ maxPix := by
    rw [isqrtN_eq]
    exact le_trans (Nat.sqrt_le_sqrt (Nat.div_le_div_left hxsy hxs1)) hm6
  have H : SigmaLoopOK w x y xs (irootN 3 x) maxPix :=
    ⟨hy1, hxs1, hc3y, hw, le_max_left _ _, hm5, hm6⟩
  have hmem : ∀ q ∈ t.primesIn xs (irootN 3 x), xs < q ∧ q ≤ irootN 3 x := by
    intro q hq
    exact ((NT.mem_primesIn hv hc3b q).1 hq).2
  have hba : t.piOf (irootN 3 x) ≤ t.piOf y := by
    rw [hv.piOf_eq _ hc3b, hv.piOf_eq _ hyb]; exact Spec.pi_mono hc3y
  have hdy : divM x y = .ok (x / y) := divM_ok (by omega)
  -- the model
  have hparts : sigmaParts t w x y = .ok (sigma0 t x (t.piOf y), sigma1 (t.piOf y) (t.piOf (irootN 3 x)),
      sigma2 (t.piOf y) (t.piOf (irootN 3 x)) (t.piOf (isqrtN (x / y))) (t.piOf xs),
      sigma3 (t.piOf (irootN 3 x)) (t.piOf xs),
      (0 + ((t.primesIn xs (irootN 3 x)).map (sg4 t x y (Nat.sqrt (x / y)))).sum) * (t.piOf y : ℤ)
        + (0 + ((t.primesIn xs (irootN 3 x)).map (sg5 t x (Nat.sqrt (x / y)))).sum)
        + -(0 + ((t.primesIn xs (irootN 3 x)).map (sg6 t x)).sum)) := by
    unfold sigmaParts sigma456
    dsimp only
    rw [← hxs, mulT_ok (le_trans (Nat.mul_le_mul_right y hxsy) hw), LM_bind_ok,
      divM_ok (Nat.mul_pos hxs1 hy1).ne', LM_bind_ok, narrowTo_ok h4, LM_bind_ok, divM_ok (by omega), LM_bind_ok,
      narrowTo_ok (by rw [isqrtN_eq]; exact h6), LM_bind_ok]
    simp only [← hmp]
    rw [piGet_ok' t hm5, LM_bind_ok, piGet_ok' t (le_trans hc3y hm5), LM_bind_ok, hdy]
    have hsxy' : Nat.sqrt (x / y) ≤ maxPix := by rw [← isqrtN_eq]; exact hsxy
    simp only [LM_bind_ok, piGet_ok' t hsxy', piGet_ok' t (le_trans hxsy hm5), isqrtN_eq (x / y),
      sigma456_fold H _ _ hmem, LM_pure]
  unfold sigma
  rw [hparts]
  simp only [LM_bind_ok, LM_pure]
  congr 1
  -- the value
  unfold NT.Sigma sigma0 sigma1 sigma2 sigma3
  simp only [← hxs, isqrtN_eq]
  rw [tdiv_tri, tdiv_tri, tdiv_tri_sub hba, tdiv_g, tdiv_g, tdiv_h, tdiv_h, sumInt_map_filter, sumInt_map_filter,
    sumInt_sum, sumInt_sum, sumInt_sum]
  have e4 : ((t.primesIn xs (irootN 3 x)).map (sg4 t x y (Nat.sqrt (x / y)))).sum
      = ((t.primesIn xs (irootN 3 x)).map fun q =>
          if (decide (q ≤ Nat.sqrt (x / y))) = true then (t.piOf (x / (q * y)) : ℤ) else 0).sum := by
    apply list_sum_map_congr; intro q _; unfold sg4; simp only [decide_eq_true_eq]
  have e5 : ((t.primesIn xs (irootN 3 x)).map (sg5 t x (Nat.sqrt (x / y)))).sum
      = ((t.primesIn xs (irootN 3 x)).map fun q =>
          if (decide (q > Nat.sqrt (x / y))) = true then (t.piOf (x / (q * q)) : ℤ) else 0).sum := by
    apply list_sum_map_congr; intro q _; unfold sg5; simp only [decide_eq_true_eq, gt_iff_lt]
    split_ifs <;> first | rfl | omega
  have e6 : ((t.primesIn xs (irootN 3 x)).map (sg6 t x)).sum
      = ((t.primesIn xs (irootN 3 x)).map fun q => ((t.piOf (Nat.sqrt (x / q)) : ℤ)) ^ 2).sum := by
    apply list_sum_map_congr; intro q _; unfold sg6; rw [isqrtN_eq]; ring
  rw [e4, e5, e6]
  ring

/-! ### … and the `Pc.Spec` sums -/

/-- `NT.Sigma_eq` (PcProofs/FormulasPrime.lean) for a table that reaches only what `Sigma()`'s own tables reach:
    `y`, `⌊√x⌋` (`pi_noprint`) and `x / (x⋆ y)` (`max_pix_sigma4`) instead of `x / y` -/
theorem NT.Sigma_eq_tight (hv : t.Valid) {x y : ℕ} (hy1 : 1 ≤ y) (hy : y ≤ t.bound)
    (hs : Nat.sqrt x ≤ t.bound) (hm4 : x / (xStar x y * y) ≤ t.bound) (hsc : Nat.sqrt (x / y) ≤ irootN 3 x) :
    t.Sigma x y = Spec.Sigma0 x (π y) + Spec.Sigma1 (π y) (π (irootN 3 x))
      + Spec.Sigma2 (π y) (π (irootN 3 x)) (π (Nat.sqrt (x / y))) (π (xStar x y))
      + Spec.Sigma3 (π (irootN 3 x)) (π (xStar x y)) + Spec.Sigma4 x y (xStar x y)
      + Spec.Sigma5 x y (irootN 3 x) + Spec.Sigma6 x (xStar x y) (irootN 3 x) := by
  have hc3 : irootN 3 x ≤ t.bound := le_trans (irootN3_le_sqrt x) hs
  have hsxy : Nat.sqrt (x / y) ≤ t.bound := le_trans hsc hc3
  have hxs1 := one_le_xStar x y
  have hxs : xStar x y ≤ t.bound := le_trans (xStar_le_y hy1) hy
  have hdc := pi_xStar_le (x := x) hy1
  have hcb : π (Nat.sqrt (x / y)) ≤ π (irootN 3 x) := Spec.pi_mono hsc
  unfold NT.Sigma
  simp only [isqrtN_eq]
  rw [hv.piOf_eq _ hy, hv.piOf_eq _ hc3, hv.piOf_eq _ hsxy, hv.piOf_eq _ hxs, hv.piOf_eq _ hs]
  rw [Spec.Sigma4_eq_index, Spec.Sigma5_eq_index, Spec.Sigma6_eq_index]
  rw [sumInt_map_filter, sumInt_map_filter, NT.sum_primesIn hv hc3, NT.sum_primesIn hv hc3,
    NT.sum_primesIn hv hc3]
  -- Σ4
  have e4 : ∑ i ∈ Ioc (π (xStar x y)) (π (irootN 3 x)),
        (if decide (Spec.p i ≤ Nat.sqrt (x / y)) = true then (t.piOf (x / (Spec.p i * y)) : ℤ) else 0)
      = ∑ i ∈ Ioc (π (xStar x y)) (π (Nat.sqrt (x / y))), (π (x / (Spec.p i * y)) : ℤ) := by
    rw [← sum_Ioc_ite_le _ _ _ hcb]
    apply Finset.sum_congr rfl
    intro i hi
    rw [mem_Ioc] at hi
    have hi1 : 1 ≤ i := by omega
    simp only [decide_eq_true_eq, Spec.p_le_iff hi1]
    split_ifs with h
    · have hq : xStar x y < Spec.p i := (Spec.lt_p_iff hi1).2 hi.1
      rw [hv.piOf_eq _ (le_trans (Nat.div_le_div_left (Nat.mul_le_mul_right y hq.le) (Nat.mul_pos hxs1 hy1)) hm4)]
    · rfl
  -- Σ5
  have e5 : ∑ i ∈ Ioc (π (xStar x y)) (π (irootN 3 x)),
        (if decide (Spec.p i > Nat.sqrt (x / y)) = true then (t.piOf (x / (Spec.p i * Spec.p i)) : ℤ) else 0)
      = ∑ i ∈ Ioc (π (Nat.sqrt (x / y))) (π (irootN 3 x)), (π (x / (Spec.p i * Spec.p i)) : ℤ) := by
    rw [← sum_Ioc_ite_gt _ _ _ hdc]
    apply Finset.sum_congr rfl
    intro i hi
    rw [mem_Ioc] at hi
    have hi1 : 1 ≤ i := by omega
    simp only [decide_eq_true_eq, gt_iff_lt, Spec.lt_p_iff hi1]
    split_ifs with h
    · have h1 : Nat.sqrt (x / y) < Spec.p i := (Spec.lt_p_iff hi1).2 h
      have h2 := (Nat.div_lt_iff_lt_mul hy1).1 (Nat.sqrt_lt.1 h1)
      have h3 : x / (Spec.p i * Spec.p i) < y :=
        (Nat.div_lt_iff_lt_mul (Nat.mul_pos (Spec.p_pos i) (Spec.p_pos i))).2 (by rw [mul_comm]; exact h2)
      rw [hv.piOf_eq _ (le_trans h3.le hy)]
    · rfl
  -- Σ6
  have e6 : ∑ i ∈ Ioc (π (xStar x y)) (π (irootN 3 x)), ((t.piOf (Nat.sqrt (x / Spec.p i)) : ℤ)) ^ 2
      = ∑ i ∈ Ioc (π (xStar x y)) (π (irootN 3 x)), ((π (Nat.sqrt (x / Spec.p i)) : ℤ)) ^ 2 := by
    apply Finset.sum_congr rfl
    intro i _
    rw [hv.piOf_eq _ (le_trans (Nat.sqrt_le_sqrt (Nat.div_le_self _ _)) hs)]
  rw [e4, e5, e6]
  unfold Spec.Sigma0 Spec.Sigma1 Spec.Sigma2 Spec.Sigma3
  ring

/-- **`Sigma(x, y)` is `Σ0 + Σ1 + … + Σ6`** for every `x` and every `y` with `x^(1/3) ≤ y`, `⌊√(x/y)⌋ ≤ x^(1/3)` (both hold
    for `x^(1/3) < y`, `GParams.s_le_c3`), a table that reaches `y`, `⌊√x⌋`, `x / (x⋆ y)`, an operand type that holds
    `y²` and a table size that fits `int64_t` -/
theorem sigma_eq (hv : t.Valid) {w : ITy} {x y : ℕ} (hy1 : 1 ≤ y) (hc3y : irootN 3 x ≤ y)
    (hsc : Nat.sqrt (x / y) ≤ irootN 3 x) (hyb : y ≤ t.bound) (hs : Nat.sqrt x ≤ t.bound)
    (hm4 : x / (xStar x y * y) ≤ t.bound) (hw : y * y ≤ w.maxVal) (h63 : t.bound ≤ ITy.i64.maxVal) :
    sigma t w x y = .ok (Spec.Sigma0 x (π y) + Spec.Sigma1 (π y) (π (irootN 3 x))
      + Spec.Sigma2 (π y) (π (irootN 3 x)) (π (Nat.sqrt (x / y))) (π (xStar x y))
      + Spec.Sigma3 (π (irootN 3 x)) (π (xStar x y)) + Spec.Sigma4 x y (xStar x y)
      + Spec.Sigma5 x y (irootN 3 x) + Spec.Sigma6 x (xStar x y) (irootN 3 x)) := by
  have h6 : Nat.sqrt (x / xStar x y) ≤ ITy.i64.maxVal :=
    le_trans (le_trans (Nat.sqrt_le_sqrt (Nat.div_le_self _ _)) hs) h63
  rw [sigma_eq_NT hv hy1 hc3y hyb hw (le_trans hm4 h63) h6, NT.Sigma_eq_tight hv hy1 hyb hs hm4 hsc]

end Pc
