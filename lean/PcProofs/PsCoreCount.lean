/-
C18 core: `CountPrintPrimes::countPrimes` (popcount over the 64-bit words of the sieve array, reading the zero padding
after the last byte) returns the number of set bits of the sieve array.
-/
import PcProofs.PsCoreCarry
import PcProofs.Sieve.Bits

namespace Pc.PsCore
open Pc.Sieve (Bytes bitAt word64 popCount64 cnt sumFrom popCount_word sumFrom_blocks)

theorem foldl_range_sum (f : ℕ → ℕ) : ∀ (n : ℕ), (List.range n).foldl (fun acc i => acc + f i) 0 = sumFrom f 0 n := by
  have key : ∀ (n a : ℕ), sumFrom f a (n + 1) = sumFrom f a n + f (a + n) := by
    intro n
    induction n with
    | zero => intro a; simp [sumFrom]
    | succ n ih =>
      intro a
      rw [show sumFrom f a (n + 1 + 1) = f a + sumFrom f (a + 1) (n + 1) from rfl, ih (a + 1),
        show sumFrom f a (n + 1) = f a + sumFrom f (a + 1) n from rfl]
      rw [show a + 1 + n = a + (n + 1) by omega]; omega
  intro n
  induction n with
  | zero => rfl
  | succ n ih =>
    rw [List.range_succ, List.foldl_append, ih]
    simp only [List.foldl_cons, List.foldl_nil]
    rw [key n 0, Nat.zero_add]

/-- **counting**: the popcount sum over `⌈size/8⌉` words = the number of set bits among the first `64·⌈size/8⌉` bit positions
    (all set bits: positions `≥ 8·size` read as 0) -/
theorem sieveCount_spec (s : Bytes) (hs : ∀ i, s.getD i 0 < 256) :
    sieveCount s = cnt (fun p => bitAt s p) 0 (64 * ((s.size + 7) / 8)) := by
  unfold sieveCount
  rw [foldl_range_sum (fun i => popCount64 (word64 s i))]
  have h1 : sumFrom (fun i => popCount64 (word64 s i)) 0 ((s.size + 7) / 8) =
      sumFrom (fun i => sumFrom (fun p => (bitAt s p).toNat) (64 * i) 64) 0 ((s.size + 7) / 8) := by
    apply Pc.Sieve.sumFrom_congr_range
    intro i _ _
    exact popCount_word s hs i
  rw [h1, sumFrom_blocks (fun p => (bitAt s p).toNat) 64 0 ((s.size + 7) / 8)]
  rfl

end Pc.PsCore
