/-
C16 / C12 (WP safety2): the prime loop of `Sigma456` (Sigma.cpp:75-90), width-checked, tied to `sigma456Step`.
The three accumulators are sums of non-negative terms: when the FINAL values fit `T`, every prefix does (`sigma456C_fold`).
The finals are bounded through the ordered-prime-triple bounds of PcProofs/SafetyBoundsNT.lean (`Σ4, Σ6 ≤ 6x`) and
`Σ5 ≤ π(x^(1/3)) · y ≤ x`.
-/
import PcProofs.SafetySigma

namespace Pc.Safety
open Pc Pc.P2L Pc.LB Finset
open scoped Nat.Prime
variable {t : NT}

theorem sg4_nonneg (x y sxy q : ℕ) : 0 ≤ sg4 t x y sxy q := by
  unfold sg4; split_ifs <;> omega
theorem sg5_nonneg (x sxy q : ℕ) : 0 ≤ sg5 t x sxy q := by
  unfold sg5; split_ifs <;> omega
theorem sg6_nonneg (x q : ℕ) : 0 ≤ sg6 t x q := by
  unfold sg6; exact mul_nonneg (Int.natCast_nonneg _) (Int.natCast_nonneg _)

theorem list_sum_nonneg {l : List ℕ} {f : ℕ → ℤ} (h : ∀ q, 0 ≤ f q) : 0 ≤ (l.map f).sum := by
  induction l with
  | nil => simp
  | cons q l ih => simp only [List.map_cons, List.sum_cons]; have := h q; omega

/-- one iteration, width-checked: when the three new accumulator values lie in `[0, tMax]` the checked step is the
    unchecked one (`sigma456Step_eq`) -/
theorem sigma456StepC_eq {M : ℕ} {w : ITy} {x y xs x13 maxX : ℕ} (H : SigmaLoopOK w x y xs x13 maxX) (acc : S456) {q : ℕ}
    (hq : xs < q) (hq13 : q ≤ x13) (h4 : 0 ≤ acc.s4) (h5 : 0 ≤ acc.s5) (h6 : 0 ≤ acc.s6)
    (b4 : acc.s4 + sg4 t x y (Nat.sqrt (x / y)) q ≤ M) (b5 : acc.s5 + sg5 t x (Nat.sqrt (x / y)) q ≤ M)
    (b6 : acc.s6 + sg6 t x q ≤ M) :
    sigma456StepC M t w x y maxX (Nat.sqrt (x / y)) acc q
      = .ok ⟨acc.s4 + sg4 t x y (Nat.sqrt (x / y)) q, acc.s5 + sg5 t x (Nat.sqrt (x / y)) q, acc.s6 + sg6 t x q⟩ := by
  obtain ⟨hy1, hxs1, hx13y, hw, hm4, hm5, hm6⟩ := H
  have hq1 : 1 ≤ q := by omega
  have hqy : q ≤ y := le_trans hq13 hx13y
  have h6' : isqrtN (x / q) ≤ maxX := by
    rw [isqrtN_eq]
    exact le_trans (Nat.sqrt_le_sqrt (Nat.div_le_div_left hq.le hxs1)) hm6
  have n4 := sg4_nonneg (t := t) x y (Nat.sqrt (x / y)) q
  have n5 := sg5_nonneg (t := t) x (Nat.sqrt (x / y)) q
  have n6 := sg6_nonneg (t := t) x q
  have hM0 : (0 : ℤ) ≤ M := Int.natCast_nonneg M
  have c6 : ckS M .ovfProd ((t.piOf (isqrtN (x / q)) : ℤ) * (t.piOf (isqrtN (x / q)) : ℤ))
      = .ok ((t.piOf (isqrtN (x / q)) : ℤ) * (t.piOf (isqrtN (x / q)) : ℤ)) := by
    apply ckS_ok
    · unfold sg6 at n6; omega
    · unfold sg6 at b6; omega
  unfold sigma456StepC
  unfold sg4 sg5 sg6 at *
  have k6 : ckS M .ovfAcc (acc.s6 + (t.piOf (isqrtN (x / q)) : ℤ) * (t.piOf (isqrtN (x / q)) : ℤ))
      = .ok (acc.s6 + (t.piOf (isqrtN (x / q)) : ℤ) * (t.piOf (isqrtN (x / q)) : ℤ)) := ckS_ok _ (by omega) b6
  by_cases hb : q ≤ Nat.sqrt (x / y)
  · have h4' : x / (q * y) ≤ maxX :=
      le_trans (Nat.div_le_div_left (Nat.mul_le_mul_right y hq.le) (Nat.mul_pos hxs1 hy1)) hm4
    have hd : divM x q = .ok (x / q) := divM_ok (by omega)
    rw [if_pos hb] at b4 b5 n4 n5
    rw [if_pos hb, if_pos hb, if_pos hb, mulT_ok (le_trans (Nat.mul_le_mul_right y hqy) hw), liftL_ok, WM_bind_ok,
      divM_ok (Nat.mul_pos hq1 hy1).ne', liftL_ok, WM_bind_ok, piGet_ok' t h4', liftL_ok, WM_bind_ok,
      ckS_ok _ (by omega) b4]
    simp only [WM_bind_ok, WM_pure, hd, liftL_ok, piGet_ok' t h6', c6, k6, add_zero]
  · have hlt : Nat.sqrt (x / y) < q := not_le.1 hb
    have h2 := (Nat.div_lt_iff_lt_mul hy1).1 (Nat.sqrt_lt.1 hlt)
    have h3 : x / (q * q) < y :=
      (Nat.div_lt_iff_lt_mul (Nat.mul_pos hq1 hq1)).2 (by rw [mul_comm]; exact h2)
    have hd : divM x q = .ok (x / q) := divM_ok (by omega)
    rw [if_neg hb] at b4 b5 n4 n5
    rw [if_neg hb, if_neg hb, if_neg hb, mulT_ok (le_trans (Nat.mul_le_mul hqy hqy) hw), liftL_ok, WM_bind_ok,
      divM_ok (Nat.mul_pos hq1 hq1).ne', liftL_ok, WM_bind_ok, piGet_ok' t (le_trans h3.le hm5), liftL_ok, WM_bind_ok,
      ckS_ok _ (by omega) b5]
    simp only [WM_bind_ok, WM_pure, hd, liftL_ok, piGet_ok' t h6', c6, k6, add_zero]

/-- **the prime loop, width-checked**: non-negative terms, so when the FINAL values of `sigma4`, `sigma5`, `sigma6` fit `T`
    no prefix (and no product `pi_sqrt_xp * (T) pi_sqrt_xp`) leaves `T`, and the loop computes what `sigma456_fold` says -/
theorem sigma456C_fold {M : ℕ} {w : ITy} {x y xs x13 maxX : ℕ} (H : SigmaLoopOK w x y xs x13 maxX) :
    ∀ (l : List ℕ) (acc : S456), (∀ q ∈ l, xs < q ∧ q ≤ x13) → 0 ≤ acc.s4 → 0 ≤ acc.s5 → 0 ≤ acc.s6 →
      acc.s4 + (l.map (sg4 t x y (Nat.sqrt (x / y)))).sum ≤ M →
      acc.s5 + (l.map (sg5 t x (Nat.sqrt (x / y)))).sum ≤ M →
      acc.s6 + (l.map (sg6 t x)).sum ≤ M →
      l.foldlM (sigma456StepC M t w x y maxX (Nat.sqrt (x / y))) acc
        = .ok ⟨acc.s4 + (l.map (sg4 t x y (Nat.sqrt (x / y)))).sum, acc.s5 + (l.map (sg5 t x (Nat.sqrt (x / y)))).sum,
            acc.s6 + (l.map (sg6 t x)).sum⟩ := by
  intro l
  induction l with
  | nil => intro acc _ _ _ _ _ _ _; simp
  | cons q l ih =>
    intro acc h h4 h5 h6 b4 b5 b6
    have hq := h q (List.mem_cons_self ..)
    simp only [List.map_cons, List.sum_cons] at b4 b5 b6
    have n4 := sg4_nonneg (t := t) x y (Nat.sqrt (x / y)) q
    have n5 := sg5_nonneg (t := t) x (Nat.sqrt (x / y)) q
    have n6 := sg6_nonneg (t := t) x q
    have r4 := list_sum_nonneg (l := l) (sg4_nonneg (t := t) x y (Nat.sqrt (x / y)))
    have r5 := list_sum_nonneg (l := l) (sg5_nonneg (t := t) x (Nat.sqrt (x / y)))
    have r6 := list_sum_nonneg (l := l) (sg6_nonneg (t := t) x)
    rw [List.foldlM_cons, sigma456StepC_eq H acc hq.1 hq.2 h4 h5 h6 (by omega) (by omega) (by omega), WM_bind_ok,
      ih _ (fun q' hq' => h q' (List.mem_cons_of_mem _ hq')) (by simp only; omega) (by simp only; omega)
        (by simp only; omega) (by simp only; omega) (by simp only; omega) (by simp only; omega)]
    simp only [List.map_cons, List.sum_cons]
    congr 2 <;> ring

/-! ### the final values -/

theorem list_sum_le_finset {l : List ℕ} (hl : l.Nodup) {f : ℕ → ℤ} {g : ℕ → ℕ} (h : ∀ q ∈ l, f q ≤ g q) :
    (l.map f).sum ≤ ((∑ q ∈ l.toFinset, g q : ℕ) : ℤ) := by
  induction l with
  | nil => simp
  | cons q l ih =>
    have hq : q ∉ l.toFinset := by
      rw [List.mem_toFinset]; exact (List.nodup_cons.1 hl).1
    rw [List.toFinset_cons, Finset.sum_insert hq, List.map_cons, List.sum_cons]
    have h1 := h q (List.mem_cons_self ..)
    have h2 := ih (List.nodup_cons.1 hl).2 (fun q' hq' => h q' (List.mem_cons_of_mem _ hq'))
    push_cast at h2 ⊢
    omega

theorem list_sum_le_length_mul {l : List ℕ} {f : ℕ → ℤ} {B : ℤ} (h : ∀ q ∈ l, f q ≤ B) :
    (l.map f).sum ≤ (l.length : ℤ) * B := by
  induction l with
  | nil => simp
  | cons q l ih =>
    have h1 := h q (List.mem_cons_self ..)
    have h2 := ih (fun q' hq' => h q' (List.mem_cons_of_mem _ hq'))
    simp only [List.map_cons, List.sum_cons, List.length_cons]
    push_cast
    nlinarith

/-- the hypotheses under which `Sigma()`'s tables reach what the loop reads (those of `sigma_eq`) -/
structure SigmaDom (t : NT) (x y : ℕ) : Prop where
  hv : t.Valid
  hy1 : 1 ≤ y
  hc3y : irootN 3 x ≤ y
  hyb : y ≤ t.bound
  hs : Nat.sqrt x ≤ t.bound
  hm4 : x / (xStar x y * y) ≤ t.bound

/-- `π(y) · Σ_{q} [q ≤ √(x/y)] π(x / (q y)) ≤ 6x` (the final `sigma4 *= a`) -/
theorem sigma4_final_le {x y : ℕ} (D : SigmaDom t x y) :
    (t.piOf y : ℤ) * ((t.primesIn (xStar x y) (irootN 3 x)).map (sg4 t x y (Nat.sqrt (x / y)))).sum ≤ 6 * (x : ℤ) := by
  obtain ⟨hv, hy1, hc3y, hyb, hs, hm4⟩ := D
  have hc3b : irootN 3 x ≤ t.bound := le_trans hc3y hyb
  have hxs1 := one_le_xStar x y
  set l := t.primesIn (xStar x y) (irootN 3 x) with hl
  have hnd : l.Nodup := (NT.primesIn_sorted hv hc3b).imp (fun h => Nat.ne_of_lt h)
  have hmem : ∀ q ∈ l, q.Prime ∧ xStar x y < q ∧ q ≤ irootN 3 x := fun q hq => (NT.mem_primesIn hv hc3b q).1 hq
  rw [← List.sum_map_mul_left]
  have hlib := sum_pi_mul_pi_le x y l.toFinset (fun q hq => (hmem q (List.mem_toFinset.1 hq)).1)
  refine le_trans (list_sum_le_finset hnd (g := fun q => π y * π (x / (q * y))) ?_) (by exact_mod_cast hlib)
  intro q hq
  obtain ⟨_, hq1, _⟩ := hmem q hq
  unfold sg4
  rw [hv.piOf_eq _ hyb]
  split_ifs with hb
  · rw [hv.piOf_eq _ (le_trans (Nat.div_le_div_left (Nat.mul_le_mul_right y hq1.le) (Nat.mul_pos hxs1 hy1)) hm4)]
    push_cast; exact le_refl _
  · simp only [mul_zero]; positivity

/-- `Σ_q π(√(x/q))² ≤ 6x` (the final `sigma6`) -/
theorem sigma6_final_le {x y : ℕ} (D : SigmaDom t x y) :
    ((t.primesIn (xStar x y) (irootN 3 x)).map (sg6 t x)).sum ≤ 6 * (x : ℤ) := by
  obtain ⟨hv, hy1, hc3y, hyb, hs, hm4⟩ := D
  have hc3b : irootN 3 x ≤ t.bound := le_trans hc3y hyb
  set l := t.primesIn (xStar x y) (irootN 3 x) with hl
  have hnd : l.Nodup := (NT.primesIn_sorted hv hc3b).imp (fun h => Nat.ne_of_lt h)
  have hmem : ∀ q ∈ l, q.Prime ∧ xStar x y < q ∧ q ≤ irootN 3 x := fun q hq => (NT.mem_primesIn hv hc3b q).1 hq
  have hlib := sum_pi_sqrt_sq_le x l.toFinset (fun q hq => (hmem q (List.mem_toFinset.1 hq)).1)
  refine le_trans (list_sum_le_finset hnd (g := fun q => (π (Nat.sqrt (x / q))) ^ 2) ?_) (by exact_mod_cast hlib)
  intro q _
  unfold sg6
  rw [isqrtN_eq, hv.piOf_eq _ (le_trans (Nat.sqrt_le_sqrt (Nat.div_le_self _ _)) hs)]
  push_cast; rw [sq]

/-- `Σ_{q > √(x/y)} π(x / q²) ≤ x^(1/3) · y` (each term is `π` of a number `< y`, at most `π(x^(1/3))` terms) -/
theorem sigma5_final_le {x y : ℕ} (D : SigmaDom t x y) :
    ((t.primesIn (xStar x y) (irootN 3 x)).map (sg5 t x (Nat.sqrt (x / y)))).sum ≤ (irootN 3 x : ℤ) * y := by
  obtain ⟨hv, hy1, hc3y, hyb, hs, hm4⟩ := D
  have hc3b : irootN 3 x ≤ t.bound := le_trans hc3y hyb
  set l := t.primesIn (xStar x y) (irootN 3 x) with hl
  have hmem : ∀ q ∈ l, q.Prime ∧ xStar x y < q ∧ q ≤ irootN 3 x := fun q hq => (NT.mem_primesIn hv hc3b q).1 hq
  have hlen : l.length ≤ irootN 3 x := by
    rw [hl]; unfold NT.primesIn
    rw [List.length_map, List.length_range, hv.piOf_eq _ hc3b]
    have := pi_le_self (irootN 3 x)
    omega
  have hterm : ∀ q ∈ l, sg5 t x (Nat.sqrt (x / y)) q ≤ (y : ℤ) := by
    intro q hq
    obtain ⟨hp, hq1, _⟩ := hmem q hq
    unfold sg5
    split_ifs with hb
    · positivity
    · have hlt : Nat.sqrt (x / y) < q := not_le.1 hb
      have h2 := (Nat.div_lt_iff_lt_mul hy1).1 (Nat.sqrt_lt.1 hlt)
      have hq0 : 1 ≤ q := hp.one_lt.le
      have h3 : x / (q * q) < y :=
        (Nat.div_lt_iff_lt_mul (Nat.mul_pos hq0 hq0)).2 (by rw [mul_comm]; exact h2)
      rw [hv.piOf_eq _ (le_trans h3.le hyb)]
      have := pi_le_self (x / (q * q))
      exact_mod_cast le_trans this h3.le
  refine le_trans (list_sum_le_length_mul hterm) ?_
  have : (l.length : ℤ) ≤ irootN 3 x := by exact_mod_cast hlen
  exact mul_le_mul_of_nonneg_right this (Int.natCast_nonneg y)

/-- if the loop has an iteration then `π(y) ≥ 1` -/
theorem one_le_piY_of_mem {x y q : ℕ} (D : SigmaDom t x y) (hq : q ∈ t.primesIn (xStar x y) (irootN 3 x)) :
    1 ≤ t.piOf y := by
  obtain ⟨hv, hy1, hc3y, hyb, hs, hm4⟩ := D
  obtain ⟨hp, _, hq3⟩ := (NT.mem_primesIn hv (le_trans hc3y hyb) q).1 hq
  rw [hv.piOf_eq _ hyb]
  have h2 : 2 ≤ y := le_trans hp.two_le (le_trans hq3 hc3y)
  have := Spec.pi_mono h2
  have h1 : π 2 = 1 := by decide
  omega

/-- the final `sigma4` BEFORE `*= a` also fits: `Σ ≤ π(y) · Σ ≤ 6x` (no iteration ⇒ 0) -/
theorem sigma4_sum_le {x y : ℕ} (D : SigmaDom t x y) :
    ((t.primesIn (xStar x y) (irootN 3 x)).map (sg4 t x y (Nat.sqrt (x / y)))).sum ≤ 6 * (x : ℤ) := by
  have h := sigma4_final_le D
  have h0 := list_sum_nonneg (l := t.primesIn (xStar x y) (irootN 3 x)) (sg4_nonneg (t := t) x y (Nat.sqrt (x / y)))
  rcases hl : t.primesIn (xStar x y) (irootN 3 x) with _ | ⟨q, l⟩
  · simp
  · have ha := one_le_piY_of_mem D (q := q) (by rw [hl]; exact List.mem_cons_self ..)
    rw [hl] at h h0
    have ha' : (1 : ℤ) ≤ t.piOf y := by exact_mod_cast ha
    nlinarith

end Pc.Safety
