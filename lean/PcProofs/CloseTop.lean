/-
WP close, step 5 (generic part): the three entry points with the recursion through `pi_noprint` CLOSED and the AC hook discharged,
still generic in the table bundle `T` (`TablesOK`) and in `phi` (`PhiContract`); PcProofs/CloseWorld.lean instantiates both with
the objects the real constructors build.

* `piApi128_closed`            `pi(int128_t x)`                — every int128 `x`
* `piGourdon64_closed`         `pi_gourdon_64(x)`              — int64 `x`, `x < 2 ∨ x ≥ 2401`
* `piDeleglieRivat64_closed`   `pi_deleglise_rivat_64(x)`      — every int64 `x`
In all three the nested `pi_noprint(n)` calls are no longer assumed correct: `hrec` says they are computed by the same dispatcher
(for every int64 `n` below `x` SOME execution of `pi_noprint(n)` whose own nested calls are answered by `pi` returns `pi n`), and
`pi_noprint_fixpoint_closed` turns that into `pi n = π n`.
-/
import PcProofs.CloseAC

namespace Pc.Top
open Nat Finset Pc.LB Pc.Hard PcGen.ApiConst
open scoped Nat.Prime

/-- "the nested calls are computed by the dispatcher": for every int64 `n` below `x` some execution of `pi_noprint(n)` (any thread
    count, any run meeting `ApiExecC`) whose nested calls are answered by `pi` again returns `pi n` -/
def NestedByDispatcher {σ : Type} (T : Tables σ) (B : ℕ) (phi : ℕ → ℕ → ℕ) (pi : ℕ → ℕ) (x : ℤ) : Prop :=
  ∀ n : ℕ, (n : ℤ) < x → n < 2 ^ 63 → ∃ (threads : ℤ) (r : ApiRun), (maxCached < n → ApiExecC T B false n r) ∧
    piApi64 T phi pi (n : ℤ) threads false r = .ok (pi n : ℤ)

theorem nested_pi_eq {σ : Type} (T : Tables σ) {B : ℕ} (hT : TablesOK T B) (phi : ℕ → ℕ → ℕ) (pi : ℕ → ℕ) (x : ℤ)
    (hphi : ∀ n : ℕ, (n : ℤ) < x → n < 2 ^ 63 → PhiContract phi n) (hrec : NestedByDispatcher T B phi pi x) :
    ∀ n : ℕ, (n : ℤ) < x → n < 2 ^ 63 → pi n = π n := by
  intro n hn h63
  exact pi_noprint_fixpoint_closed T hT phi pi (n + 1) (by omega) (fun m hm => hphi m (by omega) (by omega))
    (fun m hm => hrec m (by omega) (by omega)) n (by omega)

/-- `pi(int128_t x)` for EVERY int128 `x` -/
theorem piApi128_closed {σ : Type} (T : Tables σ) {B : ℕ} (hT : TablesOK T B) (phi : ℕ → ℕ → ℕ) (pi : ℕ → ℕ) (x : ℤ)
    (hx : x < 2 ^ 127) (threads : ℤ) (isPrint : Bool) (r : ApiRun)
    (hphi : ∀ n : ℕ, (n : ℤ) ≤ x → n < 2 ^ 63 → PhiContract phi n)
    (hrec : NestedByDispatcher T B phi pi x)
    (hex : (maxCached : ℤ) < x → ApiExecC T B (decide ((PiApi.int64Max : ℤ) < x)) x.toNat r) :
    piApi128 T phi pi x threads isPrint r = .ok (π x.toNat : ℤ) ∨
      piApi128 T phi pi x threads isPrint r = .error (.hard .badRun) := by
  have hpi := nested_pi_eq T hT phi pi x (fun n hn h63 => hphi n (by omega) h63) hrec
  have c0 : (PiApi.int64Max : ℤ) = 2 ^ 63 - 1 := by unfold PiApi.int64Max; norm_num
  by_cases h0 : 0 ≤ x
  · by_cases h63 : x < 2 ^ 63
    · exact piApi128_step_closed T hT phi pi x hx threads isPrint r (hphi x.toNat (by omega) (by omega)) hpi hex
    · -- above INT64_MAX the dispatcher calls `pi_gourdon_128` at once: `phi` is not consulted
      unfold piApi128
      rw [if_neg (by omega), if_neg (by omega)]
      have hd : decide ((PiApi.int64Max : ℤ) < x) = true := by simp; omega
      rw [hd] at hex
      have c1 : (maxCached : ℤ) = 30719 := rfl
      have l2 : meisselMax = 100000000 := rfl
      have hex' := hex (by omega)
      exact piGourdon_total_closed T hT pi true x (by unfold InType; simpa using hx) (Or.inr (by omega)) threads isPrint
        r.gourdon hpi (fun _ => hex'.gourdon (by omega))
  · left
    unfold piApi128
    rw [if_pos (by omega)]
    have : x.toNat = 0 := by omega
    rw [this]; rfl

/-- `pi_gourdon_64(x)`, int64 `x` with `x < 2 ∨ x ≥ 2401` -/
theorem piGourdon64_closed {σ : Type} (T : Tables σ) {B : ℕ} (hT : TablesOK T B) (phi : ℕ → ℕ → ℕ) (pi : ℕ → ℕ) (x : ℤ)
    (hx : x < 2 ^ 63) (hsmall : x < 2 ∨ 2401 ≤ x) (threads : ℤ) (isPrint : Bool) (r : GRun)
    (hphi : ∀ n : ℕ, (n : ℤ) < x → n < 2 ^ 63 → PhiContract phi n)
    (hrec : NestedByDispatcher T B phi pi x)
    (hex : 2 ≤ x → GExecC T B false x.toNat r) :
    piGourdon T pi false x threads isPrint r = .ok (π x.toNat : ℤ) ∨
      piGourdon T pi false x threads isPrint r = .error (.hard .badRun) :=
  piGourdon_total_closed T hT pi false x (by unfold InType; simpa using hx) hsmall threads isPrint r
    (nested_pi_eq T hT phi pi x hphi hrec) hex

/-- `pi_deleglise_rivat_64(x)`, EVERY int64 `x` -/
theorem piDeleglieRivat64_closed {σ : Type} (T : Tables σ) {B : ℕ} (hT : TablesOK T B) (phi : ℕ → ℕ → ℕ) (pi : ℕ → ℕ) (x : ℤ)
    (hx : x < 2 ^ 63) (threads : ℤ) (isPrint : Bool) (r : DrRun)
    (hphi : ∀ n : ℕ, (n : ℤ) < x → n < 2 ^ 63 → PhiContract phi n)
    (hrec : NestedByDispatcher T B phi pi x)
    (hex : 2 ≤ x → DrExec T B false x.toNat r) :
    piDeleglieRivat T pi false x threads isPrint r = .ok (π x.toNat : ℤ) ∨
      piDeleglieRivat T pi false x threads isPrint r = .error (.hard .badRun) :=
  piDeleglieRivat_total T hT pi false x (by unfold InType; simpa using hx) threads isPrint r
    (fun n hn => nested_pi_eq T hT phi pi x hphi hrec n hn (by
      have : (n : ℤ) < 2 ^ 63 := lt_trans hn hx
      exact_mod_cast this)) hex

end Pc.Top
