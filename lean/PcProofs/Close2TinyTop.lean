/-
WP close2, item 4 (second follow-up): `pi_gourdon_64/128(x)` for `2 ≤ x < 8` with NO model hypothesis, and the chain with
`hsmall : x < 8 ∨ 16 ≤ x`.  Still excluded: `8 ≤ x ≤ 15`.
-/
import PcProofs.Close2TinyAC

namespace Pc.Top
open Nat Finset Pc.LB Pc.Hard PcGen.ApiConst Pc.PhiAlgProofs Pc.ClosePhi
open scoped Nat.Prime

/-- **`pi_gourdon_64/128(x)` for `2 ≤ x < 8`** (degenerate clamps `y = z = 1`, `k = 0`): from `TablesOK` and the closed execution
    structure `GExecC` alone — Sigma, Phi0, AC, B, D each by the model of its real control flow — the result is π(x), or `badRun`
    for a recorded D history that is not a run of the dispenser -/
theorem piGourdon_tiny_lt8 {σ : Type} (T : Tables σ) {B : ℕ} (hT : TablesOK T B) (pi : ℕ → ℕ) (wide : Bool) (n : ℕ)
    (h2 : 2 ≤ n) (h8 : n < 8) (threads : ℤ) (isPrint : Bool) (r : GRun)
    (hpi : ∀ m : ℕ, m < n → pi m = π m) (hex : GExecC T B wide n r) :
    piGourdon T pi wide (n : ℤ) threads isPrint r = .ok (π n : ℤ) ∨
      piGourdon T pi wide (n : ℤ) threads isPrint r = .error (.hard .badRun) := by
  have hY : gY n r.fo.v = 1 := gY_tiny (by omega) (by omega) _
  have hK : getK n = 0 := getK_tiny (by omega) (by omega)
  have hZ : gZ n 1 (r.fo.w 1) = 1 := gZ_tiny (by omega) (by omega) _
  have h1n : (1 : ℤ).toNat = 1 := by decide
  have hB1 : 1 ≤ B := by have := hex.yB; rwa [hY, h1n] at this
  have hbound : 2 ≤ T.t.bound := by
    have := hex.reach.hm4
    rw [hY, h1n, xStar_one, Nat.mul_one, Nat.div_one] at this
    omega
  have hac := hex.adm.ac
  rw [hY, hZ, h1n, hK] at hac
  obtain ⟨l, hl, hlast, hsegs⟩ := hac.chain
  exact piGourdon_tiny_partial T hT pi wide n threads isPrint r h2 h8 hpi hex.adm.env hex.accept hex.adm.phi0 hex.adm.b hB1 hbound
    (Easy.acEntry_tiny .libdivide hT.valid hbound (widthTy wide) h2 h8 hac.sched l hl hlast hsegs)

/-- `piGourdon_total_closed` with `x < 8 ∨ 16 ≤ x` -/
theorem piGourdon_total_closed_wide {σ : Type} (T : Tables σ) {B : ℕ} (hT : TablesOK T B) (pi : ℕ → ℕ) (wide : Bool) (x : ℤ)
    (hx : InType wide x) (hsmall : x < 8 ∨ 16 ≤ x) (threads : ℤ) (isPrint : Bool) (r : GRun)
    (hpi : ∀ n : ℕ, (n : ℤ) < x → n < 2 ^ 63 → pi n = π n) (hex : 2 ≤ x → GExecC T B wide x.toNat r) :
    piGourdon T pi wide x threads isPrint r = .ok (π x.toNat : ℤ) ∨
      piGourdon T pi wide x threads isPrint r = .error (.hard .badRun) := by
  by_cases hold : x < 2 ∨ 16 ≤ x
  · exact piGourdon_total_closed_ge16 T hT pi wide x hx hold threads isPrint r hpi hex
  · obtain ⟨n, rfl⟩ := Int.eq_ofNat_of_zero_le (show 0 ≤ x by omega)
    have hex' := hex (by omega)
    rw [Int.toNat_natCast] at hex' ⊢
    exact piGourdon_tiny_lt8 T hT pi wide n (by omega) (by omega) threads isPrint r
      (fun m hm => hpi m (by exact_mod_cast hm) (by omega)) hex'

/-- **`piGourdon_total_to` with `x < 8 ∨ 16 ≤ x`** (iterator contract up to `N` only) -/
theorem piGourdon_total_to_wide {σ : Type} (T : Tables σ) {B N : ℕ} (hT : TablesOK (T.withIt (P2L.patch T.it N)) B)
    (hit : P2L.IterSpecTo T.it N) (hN : 2 ^ 64 - 2 ^ 32 ≤ N) (pi : ℕ → ℕ) (wide : Bool) (x : ℤ)
    (hx : InType wide x) (hsmall : x < 8 ∨ 16 ≤ x) (threads : ℤ) (isPrint : Bool) (r : GRun)
    (hpi : ∀ n : ℕ, (n : ℤ) < x → n < 2 ^ 63 → pi n = π n) (hex : 2 ≤ x → GExecC T B wide x.toNat r) :
    piGourdon T pi wide x threads isPrint r = .ok (π x.toNat : ℤ) ∨
      piGourdon T pi wide x threads isPrint r = .error (.hard .badRun) := by
  have hx127 : x.toNat < 2 ^ 127 := by
    have : x < 2 ^ 127 := by
      unfold InType at hx
      cases wide
      · simp at hx; omega
      · simpa using hx
    omega
  have hb : ∀ y, P2L.bOpenMP T.lc T.it pi x.toNat y r.b = P2L.bOpenMP T.lc (P2L.patch T.it N) pi x.toNat y r.b :=
    fun y => P2L.bOpenMP_patch_all hit (two63_le_of hN) (isqrtN_le_of_lt hx127 hN)
      (fun n h1 h2 => hpi n (by omega) (by unfold two63 at h1; exact h1)) T.lc y r.b
  rw [piGourdon_withIt T (P2L.patch T.it N) pi wide x threads isPrint r hb]
  exact piGourdon_total_closed_wide (T.withIt (P2L.patch T.it N)) hT pi wide x hx hsmall threads isPrint r hpi
    (fun h => (hex h).withIt _)

end Pc.Top

#print axioms Pc.Top.piGourdon_tiny_lt8
#print axioms Pc.Top.piGourdon_total_closed_wide
#print axioms Pc.Top.piGourdon_total_to_wide
