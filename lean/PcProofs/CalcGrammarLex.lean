/-
C13 — lexical facts about the documented operator table (`docTable`, `lexOp` of CalcGrammarSpec):
it is the GENERATED table of the `parseOp` switch (PcGen/CalcOpsData.lean), `lexOp` is the token function of both the
shift/reduce model (`parseOp`) and the reference parser (`refOp`), and the associativity is a function of the precedence.
-/
import PcProofs.CalcGrammarSpec
namespace Pc.Calc
open Pc.Gen

/-- the hand-transcribed header table and the table extracted from the `parseOp` switch of /repo have the same entries -/
theorem docTable_generated :
    (docTable.all (fun e => calcOpTable.contains e) && calcOpTable.all (fun e => docTable.contains e)) = true := by decide

/-- `lexOp` as an explicit case distinction (the shape of `parseOp`) -/
def lexOpX (t : Bytes) : Tok :=
  match t with
  | 124 :: r => .op .bor 4 true r
  | 38 :: r => .op .band 6 true r
  | 60 :: 60 :: r => .op .shl 9 true r
  | 60 :: _ => .bad
  | 62 :: 62 :: r => .op .shr 9 true r
  | 62 :: _ => .bad
  | 43 :: r => .op .add 10 true r
  | 45 :: r => .op .sub 10 true r
  | 47 :: r => .op .div 20 true r
  | 37 :: r => .op .mod 20 true r
  | 42 :: 42 :: r => .op .pow 30 false r
  | 42 :: r => .op .mul 20 true r
  | 94 :: r => .op .pow 30 false r
  | 101 :: r => .op .exp 40 false r
  | 69 :: r => .op .exp 40 false r
  | _ => .none

theorem nbeq {a k : Nat} (h : ¬ a = k) : (k == a) = false := by
  simp only [beq_eq_false_iff_ne, ne_eq]; exact fun e => h e.symm

theorem lexOp_eq (t : Bytes) : lexOp t = lexOpX t := by
  rcases t with _ | ⟨a, _ | ⟨b, r⟩⟩
  · rfl
  · by_cases h1 : a = 124; · subst h1; rfl
    by_cases h2 : a = 38; · subst h2; rfl
    by_cases h3 : a = 60; · subst h3; rfl
    by_cases h4 : a = 62; · subst h4; rfl
    by_cases h5 : a = 43; · subst h5; rfl
    by_cases h6 : a = 45; · subst h6; rfl
    by_cases h7 : a = 47; · subst h7; rfl
    by_cases h8 : a = 37; · subst h8; rfl
    by_cases h9 : a = 42; · subst h9; rfl
    by_cases h10 : a = 94; · subst h10; rfl
    by_cases h11 : a = 101; · subst h11; rfl
    by_cases h12 : a = 69; · subst h12; rfl
    have e1 : lexOpX [a] = .none := by
      unfold lexOpX; split <;> simp_all
    rw [e1]
    simp [lexOp, docLookup, docTable, List.find?, nbeq h1, nbeq h2, nbeq h3, nbeq h4, nbeq h5, nbeq h6, nbeq h7, nbeq h8, nbeq h9, nbeq h10, nbeq h11, nbeq h12]
  · by_cases h1 : a = 124; · subst h1; rfl
    by_cases h2 : a = 38; · subst h2; rfl
    by_cases h5 : a = 43; · subst h5; rfl
    by_cases h6 : a = 45; · subst h6; rfl
    by_cases h7 : a = 47; · subst h7; rfl
    by_cases h8 : a = 37; · subst h8; rfl
    by_cases h10 : a = 94; · subst h10; rfl
    by_cases h11 : a = 101; · subst h11; rfl
    by_cases h12 : a = 69; · subst h12; rfl
    by_cases h3 : a = 60
    · subst h3
      by_cases hb : b = 60; · subst hb; rfl
      have e1 : lexOpX (60 :: b :: r) = .bad := by
        unfold lexOpX; split <;> simp_all
      rw [e1]
      simp [lexOp, docLookup, docTable, List.find?, nbeq hb]
    by_cases h4 : a = 62
    · subst h4
      by_cases hb : b = 62; · subst hb; rfl
      have e1 : lexOpX (62 :: b :: r) = .bad := by
        unfold lexOpX; split <;> simp_all
      rw [e1]
      simp [lexOp, docLookup, docTable, List.find?, nbeq hb]
    by_cases h9 : a = 42
    · subst h9
      by_cases hb : b = 42; · subst hb; rfl
      have e1 : lexOpX (42 :: b :: r) = .op .mul 20 true (b :: r) := by
        unfold lexOpX; split <;> simp_all
      rw [e1]
      simp [lexOp, docLookup, docTable, List.find?, nbeq hb]
    have e1 : lexOpX (a :: b :: r) = .none := by
      unfold lexOpX; split <;> simp_all
    rw [e1]
    simp [lexOp, docLookup, docTable, List.find?, nbeq h1, nbeq h2, nbeq h3, nbeq h4, nbeq h5, nbeq h6, nbeq h7, nbeq h8, nbeq h9, nbeq h10, nbeq h11, nbeq h12]

/-- the shift/reduce model's `parseOp` is the documented token function (`<`/`>` alone: syntax error;
    no operator: `OPERATOR_NULL`, nothing but white space consumed) -/
theorem parseOp_lex (s : Bytes) : parseOp s =
    match lexOp (eatSpaces s) with
    | .op o p l r => .ok (⟨some o, p, l⟩, r)
    | .bad => .error .syntax
    | .none => .ok (Oper.null, eatSpaces s) := by
  rw [lexOp_eq]
  unfold parseOp lexOpX
  generalize eatSpaces s = t
  split <;> first | rfl | (split <;> simp_all)

/-- `refOp` result for a token -/
def tokRef : Tok → Option (Op × Nat × Bool × Bytes)
  | .op o p l r => some (o, p, l, r)
  | _ => none

theorem refOp_eqX (t : Bytes) : refOp t = tokRef (lexOpX t) := by
  rcases t with _ | ⟨a, _ | ⟨b, r⟩⟩
  · rfl
  · by_cases h1 : a = 124; · subst h1; rfl
    by_cases h2 : a = 38; · subst h2; rfl
    by_cases h3 : a = 60; · subst h3; rfl
    by_cases h4 : a = 62; · subst h4; rfl
    by_cases h5 : a = 43; · subst h5; rfl
    by_cases h6 : a = 45; · subst h6; rfl
    by_cases h7 : a = 47; · subst h7; rfl
    by_cases h8 : a = 37; · subst h8; rfl
    by_cases h9 : a = 42; · subst h9; rfl
    by_cases h10 : a = 94; · subst h10; rfl
    by_cases h11 : a = 101; · subst h11; rfl
    by_cases h12 : a = 69; · subst h12; rfl
    have e1 : lexOpX [a] = .none := by
      unfold lexOpX; split <;> simp_all
    have e2 : refOp [a] = none := by
      unfold refOp; split <;> simp_all
    rw [e1, e2]; rfl
  · by_cases h1 : a = 124; · subst h1; rfl
    by_cases h2 : a = 38; · subst h2; rfl
    by_cases h5 : a = 43; · subst h5; rfl
    by_cases h6 : a = 45; · subst h6; rfl
    by_cases h7 : a = 47; · subst h7; rfl
    by_cases h8 : a = 37; · subst h8; rfl
    by_cases h10 : a = 94; · subst h10; rfl
    by_cases h11 : a = 101; · subst h11; rfl
    by_cases h12 : a = 69; · subst h12; rfl
    by_cases h3 : a = 60
    · subst h3
      by_cases hb : b = 60; · subst hb; rfl
      have e1 : lexOpX (60 :: b :: r) = .bad := by
        unfold lexOpX; split <;> simp_all
      have e2 : refOp (60 :: b :: r) = none := by
        unfold refOp; split <;> simp_all
      rw [e1, e2]; rfl
    by_cases h4 : a = 62
    · subst h4
      by_cases hb : b = 62; · subst hb; rfl
      have e1 : lexOpX (62 :: b :: r) = .bad := by
        unfold lexOpX; split <;> simp_all
      have e2 : refOp (62 :: b :: r) = none := by
        unfold refOp; split <;> simp_all
      rw [e1, e2]; rfl
    by_cases h9 : a = 42
    · subst h9
      by_cases hb : b = 42; · subst hb; rfl
      have e1 : lexOpX (42 :: b :: r) = .op .mul 20 true (b :: r) := by
        unfold lexOpX; split <;> simp_all
      have e2 : refOp (42 :: b :: r) = some (.mul, 20, true, b :: r) := by
        unfold refOp; split <;> simp_all
      rw [e1, e2]; rfl
    have e1 : lexOpX (a :: b :: r) = .none := by
      unfold lexOpX; split <;> simp_all
    have e2 : refOp (a :: b :: r) = none := by
      unfold refOp
      split <;> first
        | rfl
        | (rename_i heq; simp only [List.cons.injEq] at heq; omega)
    rw [e1, e2]; rfl

/-- the reference parser's `refOp` is the documented token function -/
theorem refOp_lex (t : Bytes) : refOp t = tokRef (lexOp t) := by
  rw [lexOp_eq]; exact refOp_eqX t

/-- every operator token: precedence ≥ 4, associativity determined by the precedence (left iff below 30),
    at least one character consumed -/
theorem lexOp_op {t : Bytes} {o : Op} {p : Nat} {l : Bool} {r : Bytes} (h : lexOp t = .op o p l r) :
    4 ≤ p ∧ l = decide (p < 30) ∧ r.length < t.length := by
  rw [lexOp_eq] at h
  unfold lexOpX at h
  split at h <;> first
    | (cases h; done)
    | (cases h; exact ⟨by omega, rfl, by simp only [List.length_cons]; omega⟩)

end Pc.Calc
