/-
WP lmo, part 2c: what the segmented engines of pi_lmo3 / pi_lmo4 share.

* `levelSumW`  : the special leaves of level `b` located in a window `[lo, hi)`;  additivity, the window `[1, x / y)`
                 holds all of them, and the loop bounds `m ∈ (max(x/(p·high), y/p), min(x/(p·low), y)]` select exactly them
* `Active`     : level `b` can still have leaves at positions `≥ low` (negation = the `break` test `prime >= max_m`);
                 monotone in `b` and in `low`, and an inactive level has no leaf at all beyond `low`
* `EntryOK`    : `phi[b] = φ(low − 1, b − 1)` and `next[b]` = first odd multiple `≥ low`
* `preSieve_spec` : the loop over `b ≤ c` lifts a fresh segment to level `c` and advances `next[1..c]`
-/
import PcProofs.SimpleAlgsLmo2

namespace Pc.SimpleAlgs
open Nat Finset Classical
open scoped Nat.Prime ArithmeticFunction.Moebius

variable {T : Tables} {x y c : ℕ}

theorem getD_setIfInBounds {α : Type} (a : Array α) (i j : ℕ) (v d : α) :
    (a.setIfInBounds i v).getD j d = if i = j ∧ i < a.size then v else a.getD j d := by
  rw [Array.getD_eq_getD_getElem?, Array.getD_eq_getD_getElem?, Array.getElem?_setIfInBounds]
  by_cases hij : i = j
  · subst hij
    by_cases hlt : i < a.size
    · simp [hlt]
    · simp [hlt]
  · simp [hij]

/-! ### leaves in a window -/

/-- the special leaves of level `b` whose position `x / (p_b m)` lies in `[lo, hi)` -/
noncomputable def levelSumW (T : Tables) (x y b lo hi : ℕ) : ℤ :=
  ∑ m ∈ Ioc (y / Spec.p b) y,
    if lo ≤ x / (Spec.p b * m) ∧ x / (Spec.p b * m) < hi then leafVal T x (Spec.p b) (b - 1) m else 0

theorem levelSumW_add (T : Tables) (x y b : ℕ) {lo mid hi : ℕ} (h1 : lo ≤ mid) (h2 : mid ≤ hi) :
    levelSumW T x y b lo mid + levelSumW T x y b mid hi = levelSumW T x y b lo hi := by
  unfold levelSumW
  rw [← Finset.sum_add_distrib]
  apply Finset.sum_congr rfl
  intro m _
  by_cases ha : lo ≤ x / (Spec.p b * m) ∧ x / (Spec.p b * m) < mid
  · rw [if_pos ha, if_neg (by omega), if_pos ⟨ha.1, by omega⟩, add_zero]
  · by_cases hb : mid ≤ x / (Spec.p b * m) ∧ x / (Spec.p b * m) < hi
    · rw [if_neg ha, if_pos hb, if_pos ⟨by omega, hb.2⟩, zero_add]
    · rw [if_neg ha, if_neg hb, if_neg (by omega), add_zero]

theorem levelSumW_empty (T : Tables) (x y b : ℕ) {lo hi : ℕ} (h : hi ≤ lo) : levelSumW T x y b lo hi = 0 := by
  unfold levelSumW
  apply Finset.sum_eq_zero
  intro m _
  rw [if_neg (by omega)]

/-- every special leaf lies in `[1, x / y)` (for `y² ≤ x`) -/
theorem levelSumW_full (hy : 1 ≤ y) (hyx : y * y ≤ x) {b : ℕ} (hb1 : 1 ≤ b) (hb : b ≤ π y) :
    levelSumW T x y b 1 (x / y) = levelSum T x y b := by
  unfold levelSumW levelSum
  apply Finset.sum_congr rfl
  intro m hm
  rw [mem_Ioc] at hm
  have hppos : 0 < Spec.p b := Spec.p_pos b
  have hpy : Spec.p b ≤ y := (Spec.p_le_iff hb1).2 hb
  have hgt : y < Spec.p b * m := by
    have := (Nat.div_lt_iff_lt_mul hppos).1 hm.1
    rw [Nat.mul_comm]; exact this
  have hle : Spec.p b * m ≤ x := le_trans (Nat.mul_le_mul hpy hm.2) hyx
  have h1 : 1 ≤ x / (Spec.p b * m) := (Nat.le_div_iff_mul_le (by omega)).2 (by omega)
  rw [if_pos ⟨h1, leaf_pos_lt_limit hy hyx hgt⟩]

/-- the bounds `min_m = max(x / (prime·high), y / prime)`, `max_m = min(x / (prime·low), y)` of pi_lmo3..5 select exactly
    the leaves of the window `[low, high)` -/
theorem window_sum_eq (T : Tables) (x y b : ℕ) {low high : ℕ} (hlow : 1 ≤ low) (hhigh : 1 ≤ high) :
    ∑ m ∈ Ioc (max (x / (Spec.p b * high)) (y / Spec.p b)) (min (x / (Spec.p b * low)) y),
        leafVal T x (Spec.p b) (b - 1) m = levelSumW T x y b low high := by
  unfold levelSumW
  rw [← Finset.sum_filter]
  apply Finset.sum_congr _ (fun _ _ => rfl)
  have hppos : 0 < Spec.p b := Spec.p_pos b
  ext m
  rw [mem_Ioc, mem_filter, mem_Ioc, max_lt_iff, le_min_iff]
  by_cases hm : m = 0
  · subst hm
    constructor
    · rintro ⟨⟨_, h⟩, _⟩; exact absurd h (Nat.not_lt_zero _)
    · rintro ⟨⟨h, _⟩, _⟩; exact absurd h (Nat.not_lt_zero _)
  · have hmpos : 0 < m := Nat.pos_of_ne_zero hm
    have e1 : x / (Spec.p b * high) < m ↔ x / (Spec.p b * m) < high := by
      rw [Nat.div_lt_iff_lt_mul (Nat.mul_pos hppos hhigh), Nat.div_lt_iff_lt_mul (Nat.mul_pos hppos hmpos)]
      have : m * (Spec.p b * high) = high * (Spec.p b * m) := by ring
      rw [this]
    have e2 : m ≤ x / (Spec.p b * low) ↔ low ≤ x / (Spec.p b * m) := by
      rw [Nat.le_div_iff_mul_le (Nat.mul_pos hppos hlow), Nat.le_div_iff_mul_le (Nat.mul_pos hppos hmpos)]
      have : m * (Spec.p b * low) = low * (Spec.p b * m) := by ring
      rw [this]
    rw [e1, e2]
    tauto

/-! ### the `break` test -/

/-- level `b` can still have leaves at positions `≥ low`: the negation is the test `prime >= max_m` -/
def Active (x y b low : ℕ) : Prop := Spec.p b < min (x / (Spec.p b * low)) y

theorem Active.mono_b {b b' low : ℕ} (h : Active x y b' low) (hb : b ≤ b') (hlow : 1 ≤ low) : Active x y b low := by
  unfold Active at h ⊢
  have hp : Spec.p b ≤ Spec.p b' := Spec.p_le_p hb
  have hd : x / (Spec.p b' * low) ≤ x / (Spec.p b * low) :=
    Nat.div_le_div_left (Nat.mul_le_mul_right _ hp) (Nat.mul_pos (Spec.p_pos b) hlow)
  rw [lt_min_iff] at h ⊢
  omega

theorem Active.mono_low {b low low' : ℕ} (h : Active x y b low') (hl : low ≤ low') (hlow : 1 ≤ low) :
    Active x y b low := by
  unfold Active at h ⊢
  have hd : x / (Spec.p b * low') ≤ x / (Spec.p b * low) :=
    Nat.div_le_div_left (Nat.mul_le_mul_left _ hl) (Nat.mul_pos (Spec.p_pos b) hlow)
  rw [lt_min_iff] at h ⊢
  omega

/-- an inactive level has no leaf at a position `≥ low` -/
theorem levelSumW_inactive (hT : T.Valid y) {b low : ℕ} (hb1 : 1 ≤ b) (hb : b ≤ π y) (hlow : 1 ≤ low)
    (hna : ¬ Active x y b low) (hi : ℕ) : levelSumW T x y b low hi = 0 := by
  unfold levelSumW
  apply Finset.sum_eq_zero
  intro m hm
  rw [mem_Ioc] at hm
  have hppos : 0 < Spec.p b := Spec.p_pos b
  have hpy : Spec.p b ≤ y := (Spec.p_le_iff hb1).2 hb
  have hdiv : 1 ≤ y / Spec.p b := (Nat.one_le_div_iff hppos).2 hpy
  have hm2 : 2 ≤ m := by omega
  split_ifs with hw
  · unfold leafVal
    rw [if_neg]
    rintro ⟨_, hlpf⟩
    rw [hT.lpf_eq m hm2 hm.2] at hlpf
    apply hna
    unfold Active
    have hmf : m.minFac ≤ m := Nat.minFac_le (by omega)
    have h1 : m ≤ x / (Spec.p b * low) := by
      rw [Nat.le_div_iff_mul_le (Nat.mul_pos hppos hlow)]
      have := (Nat.le_div_iff_mul_le (Nat.mul_pos hppos (by omega : 0 < m))).1 hw.1
      have e : m * (Spec.p b * low) = low * (Spec.p b * m) := by ring
      omega
    rw [lt_min_iff]
    omega
  · rfl

/-! ### the carried arrays -/

/-- entry `b` of `phi[]` / `next[]` is ready for a window starting at `low` -/
def EntryOK (st : Seg) (b low : ℕ) : Prop :=
  st.phi.getD b 0 = (Spec.phi (low - 1) (b - 1) : ℤ) ∧
    IsNext (Spec.p b) (Spec.p b * 2) low (st.next.getD b 0)

/-- the loop over `b ≤ c` of one segment: the fresh window reaches level `c`, `next[1..c]` move on to `high` -/
theorem preSieve_spec (hT : T.Valid y) {low high segSize : ℕ} (hlow : 1 ≤ low) (hlh : low ≤ high)
    (hseg : high - low ≤ segSize) (next : Array ℕ) :
    ∀ j, j ≤ π y → (∀ b, 1 ≤ b → b ≤ j → IsNext (Spec.p b) (Spec.p b) low (next.getD b 0)) →
      SieveOK (preSieve T low high j next (Array.replicate segSize true)).2 low (high - low) j ∧
      (preSieve T low high j next (Array.replicate segSize true)).2.size = segSize ∧
      (preSieve T low high j next (Array.replicate segSize true)).1.size = next.size ∧
      (∀ b, 1 ≤ b → b ≤ j → IsNext (Spec.p b) (Spec.p b) high
        ((preSieve T low high j next (Array.replicate segSize true)).1.getD b 0)) ∧
      (∀ b, j < b → (preSieve T low high j next (Array.replicate segSize true)).1.getD b 0 = next.getD b 0) := by
  intro j
  induction j with
  | zero =>
    intro _ _
    refine ⟨?_, by simp [preSieve], rfl, fun b h1 h0 => by omega, fun b _ => rfl⟩
    intro i hi _
    simp only [preSieve, List.range_zero, List.foldl_nil]
    rw [Array.getD_eq_getD_getElem?, Array.getElem?_replicate, if_pos (by omega)]
    simp [unsieved_zero]
  | succ j ih =>
    intro hj hnext
    obtain ⟨h1, h2, h3, h4, h5⟩ := ih (by omega) (fun b hb1 hbj => hnext b hb1 (by omega))
    have hstep : preSieve T low high (j + 1) next (Array.replicate segSize true) =
        (let ns := preSieve T low high j next (Array.replicate segSize true)
         let r := crossOff low high (T.p (j + 1)) (high - low) (ns.1.getD (j + 1) 0) ns.2
         (ns.1.setIfInBounds (j + 1) r.1, r.2)) := by
      unfold preSieve
      rw [List.range_succ, List.foldl_append, List.foldl_cons, List.foldl_nil]
    rw [hstep]
    simp only []
    have hp : T.p (j + 1) = Spec.p (j + 1) := hT.p_eq (j + 1) (by omega) hj
    rw [hp, h5 (j + 1) (by omega)]
    have hk := hnext (j + 1) (by omega) le_rfl
    have hlev := crossOff_level (s := (preSieve T low high j next (Array.replicate segSize true)).2)
      (low := low) (high := high) (b := j + 1) (step := Spec.p (j + 1)) (k := next.getD (j + 1) 0) (by omega)
      (by rw [Nat.add_sub_cancel]; exact h1) (Or.inl rfl) (by rw [Nat.max_eq_left hlow]; exact hk)
    have hsz := (crossOff_spec low high (Spec.p (j + 1)) (Spec.p_pos _) (high - low) (next.getD (j + 1) 0)
      (preSieve T low high j next (Array.replicate segSize true)).2 hk.ge (by have := hk.ge; omega)).1
    refine ⟨hlev.1, by rw [hsz, h2], by rw [Array.size_setIfInBounds, h3], ?_, ?_⟩
    · intro b hb1 hbj
      rw [getD_setIfInBounds]
      by_cases hb : j + 1 = b
      · subst hb
        by_cases hin : j + 1 < (preSieve T low high j next (Array.replicate segSize true)).1.size
        · rw [if_pos ⟨rfl, hin⟩]
          exact hlev.2 (by rw [Nat.max_eq_left hlow]; exact hlh)
        · -- out of range: `getD` is the default 0 in both arrays, which cannot be a `next` value
          exfalso
          have h0 : next.getD (j + 1) 0 = 0 := by
            rw [Array.getD_eq_getD_getElem?, Array.getElem?_eq_none (by omega)]; rfl
          have := hk.ge
          omega
      · rw [if_neg (fun h => hb h.1)]
        exact h4 b hb1 (by omega)
    · intro b hb
      rw [getD_setIfInBounds, if_neg (by omega)]
      exact h5 b (by omega)

end Pc.SimpleAlgs
