/-
Proofs about the BitSieve240 tables (C17, C01): wheel positions, masks, popcount, the structurally
recursive primality test, the generic lookup lemma `bitPiTable_lookup`, and `piCache_correct` lifted from
the generated obligations of PcGen/TablesObl*.lean.
-/
import PcModel.PiTable
import PcGen.TablesObl
import Mathlib.NumberTheory.PrimeCounting
import Mathlib.Tactic.Linarith
import Mathlib.Tactic.NormNum
import Mathlib.Tactic.IntervalCases
import Mathlib.Data.Nat.Prime.Basic
import Mathlib.Data.Nat.Count
import Mathlib.Tactic.Ring

namespace Pc
open Nat

/-! ### wheel positions -/

theorem wheelNum_lt {k : ℕ} (h : k < 64) : wheelNum k < 240 := by
  revert k; decide

theorem wheelNum_inj : ∀ k, k < 64 → ∀ j, j < 64 → wheelNum k = wheelNum j → k = j := by decide

/-- the wheel positions are exactly the residues coprime to 30 -/
theorem coprime30_iff_wheel : ∀ r, r < 240 → (Nat.Coprime r 30 ↔ ∃ k, k < 64 ∧ wheelNum k = r) := by
  decide +kernel

/-! ### bit masks -/

theorem maskOf_lt (pred : ℕ → Bool) (n : ℕ) : maskOf pred n < 2 ^ n := by
  induction n with
  | zero => simp [maskOf]
  | succ n ih =>
    simp only [maskOf]
    split <;> omega

theorem testBit_maskOf (pred : ℕ → Bool) (n k : ℕ) :
    (maskOf pred n).testBit k = (decide (k < n) && pred (wheelNum k)) := by
  induction n with
  | zero => simp [maskOf]
  | succ n ih =>
    have hlt := maskOf_lt pred n
    simp only [maskOf]
    rcases Nat.lt_trichotomy k n with h | h | h
    · have e : (maskOf pred n + if pred (wheelNum n) = true then 2 ^ n else 0).testBit k = (maskOf pred n).testBit k := by
        split
        · rw [Nat.add_comm, Nat.testBit_two_pow_add_gt h]
        · simp
      rw [e, ih]; simp [h, Nat.lt_succ_of_lt h]
    · subst h
      have h0 : (maskOf pred k).testBit k = false := Nat.testBit_lt_two_pow hlt
      split
      · rename_i hp
        rw [Nat.add_comm, Nat.testBit_two_pow_add_eq, h0]; simp [hp]
      · rename_i hp
        simp [h0, hp]
    · have hk : ¬ k < n + 1 := by omega
      have : (maskOf pred n + if pred (wheelNum n) = true then 2 ^ n else 0) < 2 ^ k := by
        have : 2 ^ (n + 1) ≤ 2 ^ k := Nat.pow_le_pow_right (by norm_num) (by omega)
        have h2 : 2 ^ (n+1) = 2 * 2 ^ n := by rw [Nat.pow_succ]; omega
        split <;> omega
      rw [Nat.testBit_lt_two_pow this]; simp [hk]

/-! ### popcount -/

theorem popc_eq_card (n b : ℕ) : popc n b = ((Finset.range n).filter (fun k => b.testBit k = true)).card := by
  induction n generalizing b with
  | zero => simp [popc]
  | succ n ih =>
    simp only [popc]
    rw [ih (b / 2)]
    -- range (n+1) = {0} ∪ image succ (range n)
    have hr : Finset.range (n + 1) = insert 0 ((Finset.range n).image Nat.succ) := by
      ext x; simp only [Finset.mem_range, Finset.mem_insert, Finset.mem_image]
      constructor
      · intro hx; rcases x with _ | x
        · left; rfl
        · right; exact ⟨x, by omega, rfl⟩
      · rintro (rfl | ⟨y, hy, rfl⟩) <;> omega
    rw [hr, Finset.filter_insert]
    have himg : ((Finset.range n).image Nat.succ).filter (fun k => b.testBit k = true)
        = ((Finset.range n).filter (fun k => (b / 2).testBit k = true)).image Nat.succ := by
      ext x; simp only [Finset.mem_filter, Finset.mem_image, Finset.mem_range]
      constructor
      · rintro ⟨⟨y, hy, rfl⟩, hb⟩; exact ⟨y, ⟨hy, by rwa [Nat.testBit_succ] at hb⟩, rfl⟩
      · rintro ⟨y, ⟨hy, hb⟩, rfl⟩; exact ⟨⟨y, hy, rfl⟩, by rwa [Nat.testBit_succ]⟩
    have h0notin : (0 : ℕ) ∉ ((Finset.range n).filter (fun k => (b / 2).testBit k = true)).image Nat.succ := by
      simp
    rw [himg]
    by_cases hb0 : b.testBit 0 = true
    · rw [if_pos hb0, Finset.card_insert_of_notMem h0notin, Finset.card_image_of_injective _ Nat.succ_injective]
      have : b % 2 = 1 := by simpa [Nat.testBit_zero] using hb0
      omega
    · rw [if_neg hb0, Finset.card_image_of_injective _ Nat.succ_injective]
      have : b % 2 = 0 := by
        have : ¬ b % 2 = 1 := by simpa [Nat.testBit_zero] using hb0
        omega
      omega

theorem popcount64_eq_card (b : ℕ) :
    popcount64 b = ((Finset.range 64).filter (fun k => b.testBit k = true)).card := popc_eq_card 64 b

/-! ### trial division -/

theorem noDivFrom_sound (n : ℕ) : ∀ fuel d, noDivFromSR n fuel d = true →
    ∀ e, d ≤ e → e < d + 2 * fuel → e % 2 = d % 2 → e * e ≤ n → ¬ e ∣ n := by
  intro fuel
  induction fuel with
  | zero => intro d _ e h1 h2; omega
  | succ fuel ih =>
    intro d h e hde hlt hpar hsq
    unfold noDivFromSR at h
    split at h
    · rename_i hlt'
      have : d * d ≤ e * e := Nat.mul_le_mul hde hde
      omega
    · split at h
      · exact absurd h (by simp)
      · rename_i hmod
        rcases Nat.eq_or_lt_of_le hde with rfl | hgt
        · intro hdvd
          apply hmod
          simp [Nat.mod_eq_zero_of_dvd hdvd]
        · exact ih (d + 2) h e (by omega) (by omega) (by omega) hsq

theorem noDivFrom_complete (n : ℕ) : ∀ fuel d,
    (∀ e, d ≤ e → e % 2 = d % 2 → e * e ≤ n → ¬ e ∣ n) → noDivFromSR n fuel d = true := by
  intro fuel
  induction fuel with
  | zero => intro d _; rfl
  | succ fuel ih =>
    intro d h
    unfold noDivFromSR
    split
    · rfl
    · rename_i hsq
      split
      · rename_i hmod
        exfalso
        have : n % d = 0 := by simpa using hmod
        exact h d le_rfl rfl (by omega) (Nat.dvd_of_mod_eq_zero this)
      · exact ih (d + 2) (fun e he hp hs => h e (by omega) (by omega) hs)

theorem isPrimeSR_iff (n : ℕ) : isPrimeSR n = true ↔ n.Prime := by
  unfold isPrimeSR
  constructor
  · intro h
    simp only [Bool.and_eq_true, decide_eq_true_eq, Bool.or_eq_true, beq_iff_eq, bne_iff_ne, ne_eq] at h
    obtain ⟨h2, h⟩ := h
    rcases h with rfl | ⟨hodd, hnd⟩
    · exact Nat.prime_two
    · by_contra hnp
      have hp := Nat.minFac_prime (n := n) (by omega)
      have hdvd := Nat.minFac_dvd n
      have hsq := Nat.minFac_sq_le_self (n := n) (by omega) hnp
      have hp2 : n.minFac ≠ 2 := by
        intro h2'
        rw [h2'] at hdvd
        exact hodd (Nat.mod_eq_zero_of_dvd hdvd)
      have hpodd : n.minFac % 2 = 1 := by
        rcases hp.eq_two_or_odd with h | h
        · exact absurd h hp2
        · exact h
      have hge : 3 ≤ n.minFac := by
        have := hp.two_le
        omega
      have hle : n.minFac ≤ n := Nat.minFac_le (by omega)
      exact noDivFrom_sound n n 3 hnd n.minFac hge (by omega) (by omega) (by rw [← Nat.pow_two]; exact hsq) hdvd
  · intro hp
    simp only [Bool.and_eq_true, decide_eq_true_eq, Bool.or_eq_true, beq_iff_eq, bne_iff_ne, ne_eq]
    refine ⟨hp.two_le, ?_⟩
    rcases hp.eq_two_or_odd with h | h
    · left; exact h
    · right
      refine ⟨by omega, noDivFrom_complete n n 3 ?_⟩
      intro e he _ hsq hdvd
      rcases (Nat.dvd_prime hp).1 hdvd with h1 | h1
      · omega
      · subst h1
        have : 2 ≤ e := hp.two_le
        nlinarith


/-! ### one block of 240 numbers -/

/-- counting over the 64 wheel positions = counting over the residues coprime to 30 -/
theorem card_wheel (Q : ℕ → Prop) [DecidablePred Q] :
    ((Finset.range 64).filter (fun k => Q (wheelNum k))).card
      = ((Finset.range 240).filter (fun r => Nat.Coprime r 30 ∧ Q r)).card := by
  rw [← Finset.card_image_of_injOn (f := wheelNum)]
  · congr 1
    ext r
    simp only [Finset.mem_image, Finset.mem_filter, Finset.mem_range]
    constructor
    · rintro ⟨k, ⟨hk, hq⟩, rfl⟩
      exact ⟨wheelNum_lt hk, (coprime30_iff_wheel _ (wheelNum_lt hk)).2 ⟨k, hk, rfl⟩, hq⟩
    · rintro ⟨hr, hc, hq⟩
      obtain ⟨k, hk, rfl⟩ := (coprime30_iff_wheel r hr).1 hc
      exact ⟨k, ⟨hk, hq⟩, rfl⟩
  · intro a ha b hb hab
    simp only [Finset.coe_filter, Finset.mem_range, Set.mem_ofPred_eq] at ha hb
    exact wheelNum_inj a ha.1 b hb.1 hab

/-- `bits` holds exactly the primes of block `i` (numbers `240 i + r`), as far as they lie below `M` -/
def WordHolds (i M bits : ℕ) : Prop :=
  ∀ k, k < 64 → 240 * i + wheelNum k < M → (bits.testBit k = true ↔ (240 * i + wheelNum k).Prime)

theorem popcount_masked (i M bits m : ℕ) (h : WordHolds i M bits) (hm : m < 240) (hM : 240 * i + m < M) :
    popcount64 (bits &&& unsetLargerSpec m)
      = ((Finset.range (m + 1)).filter (fun r => (240 * i + r).Prime ∧ Nat.Coprime r 30)).card := by
  rw [popcount64_eq_card]
  have e1 : (Finset.range 64).filter (fun k => (bits &&& unsetLargerSpec m).testBit k = true)
      = (Finset.range 64).filter (fun k => (240 * i + wheelNum k).Prime ∧ wheelNum k ≤ m) := by
    apply Finset.filter_congr
    intro k hk
    have hk' : k < 64 := Finset.mem_range.1 hk
    simp only [Nat.testBit_and, unsetLargerSpec, testBit_maskOf, hk', decide_true, Bool.true_and,
      Bool.and_eq_true, decide_eq_true_eq]
    constructor
    · rintro ⟨hb, hle⟩; exact ⟨(h k hk' (by omega)).1 hb, hle⟩
    · rintro ⟨hp, hle⟩; exact ⟨(h k hk' (by omega)).2 hp, hle⟩
  rw [e1]
  refine (card_wheel (fun r => (240 * i + r).Prime ∧ r ≤ m)).trans ?_
  congr 1
  ext r
  simp only [Finset.mem_filter, Finset.mem_range]
  constructor
  · rintro ⟨_, hc, hp, hle⟩; exact ⟨by omega, hp, hc⟩
  · rintro ⟨hr, hp, hc⟩; exact ⟨by omega, hc, hp, by omega⟩

theorem popcount_full (i M bits : ℕ) (h : WordHolds i M bits) (hM : 240 * i + 240 ≤ M) :
    popcount64 bits
      = ((Finset.range 240).filter (fun r => (240 * i + r).Prime ∧ Nat.Coprime r 30)).card := by
  rw [popcount64_eq_card]
  have e1 : (Finset.range 64).filter (fun k => bits.testBit k = true)
      = (Finset.range 64).filter (fun k => (240 * i + wheelNum k).Prime) := by
    apply Finset.filter_congr
    intro k hk
    have hk' : k < 64 := Finset.mem_range.1 hk
    have := wheelNum_lt hk'
    exact h k hk' (by omega)
  rw [e1]
  refine (card_wheel (fun r => (240 * i + r).Prime)).trans ?_
  congr 1
  ext r
  simp only [Finset.mem_filter, Finset.mem_range, and_comm]

theorem not_coprime30 : ∀ r, r < 240 → ¬ Nat.Coprime r 30 → (2 ∣ r ∨ 3 ∣ r ∨ 5 ∣ r) := by
  decide +kernel

/-- primes of a block, split into those on wheel positions and the three small primes -/
theorem count_block (i m : ℕ) (hm : m ≤ 240) :
    Nat.count (fun r => (240 * i + r).Prime) m
      = ((Finset.range m).filter (fun r => (240 * i + r).Prime ∧ Nat.Coprime r 30)).card
        + (if i = 0 then ((Finset.range m).filter (fun r => r = 2 ∨ r = 3 ∨ r = 5)).card else 0) := by
  rw [Nat.count_eq_card_filter_range]
  rw [← Finset.card_filter_add_card_filter_not (s := (Finset.range m).filter (fun r => (240 * i + r).Prime))
    (p := fun r => Nat.Coprime r 30)]
  rw [Finset.filter_filter, Finset.filter_filter]
  congr 1
  by_cases hi : i = 0
  · subst hi
    rw [if_pos rfl]
    congr 1
    ext r
    simp only [Finset.mem_filter, Finset.mem_range, Nat.mul_zero, Nat.zero_add]
    constructor
    · rintro ⟨hr, hp, hnc⟩
      refine ⟨hr, ?_⟩
      rcases not_coprime30 r (by omega) hnc with h | h | h
      · left; exact ((Nat.prime_dvd_prime_iff_eq Nat.prime_two hp).1 h).symm
      · right; left; exact ((Nat.prime_dvd_prime_iff_eq Nat.prime_three hp).1 h).symm
      · right; right; exact ((Nat.prime_dvd_prime_iff_eq Nat.prime_five hp).1 h).symm
    · rintro ⟨hr, rfl | rfl | rfl⟩
      · exact ⟨hr, Nat.prime_two, by decide⟩
      · exact ⟨hr, Nat.prime_three, by decide⟩
      · exact ⟨hr, Nat.prime_five, by decide⟩
  · rw [if_neg hi]
    rw [Finset.card_eq_zero, Finset.filter_eq_empty_iff]
    rintro r hr ⟨hp, hnc⟩
    have hr' : r < 240 := by have := Finset.mem_range.1 hr; omega
    have key : ∀ q, q.Prime → q ≤ 5 → q ∣ 240 → q ∣ r → False := by
      intro q hq hq5 h240 hqr
      have hd : q ∣ 240 * i + r := Nat.dvd_add (Dvd.dvd.mul_right h240 i) hqr
      have := (Nat.prime_dvd_prime_iff_eq hq hp).1 hd
      have : 1 ≤ i := Nat.one_le_iff_ne_zero.2 hi
      omega
    rcases not_coprime30 r hr' hnc with h | h | h
    · exact key 2 Nat.prime_two (by norm_num) (by norm_num) h
    · exact key 3 Nat.prime_three (by norm_num) (by norm_num) h
    · exact key 5 Nat.prime_five (by norm_num) (by norm_num) h

theorem card_small_primes (m : ℕ) (hm : 6 ≤ m) :
    ((Finset.range m).filter (fun r => r = 2 ∨ r = 3 ∨ r = 5)).card = 3 := by
  have : (Finset.range m).filter (fun r => r = 2 ∨ r = 3 ∨ r = 5) = {2, 3, 5} := by
    ext r
    simp only [Finset.mem_filter, Finset.mem_range, Finset.mem_insert, Finset.mem_singleton]
    constructor
    · rintro ⟨_, h⟩; exact h
    · intro h; refine ⟨?_, h⟩; rcases h with rfl | rfl | rfl <;> omega
  rw [this]; rfl

/-! ### the generic lookup lemma -/

/-- Generic correctness of a `(count, bits)` prime table starting at block `i0`: if word `j` holds exactly
    the primes of block `i0 + j` (below the limit `M`), the first count is π of everything before the
    first block (3 = π(5) for block 0, whose word does not hold 2, 3, 5) and the counts are prefix sums of
    the popcounts, then `count + popcount (bits & unset_larger[n % 240])` is π(n) for every `6 ≤ n < M`
    covered by the table. -/
theorem bitPiTable_lookup (i0 M J : ℕ) (cnt bits : ℕ → ℕ)
    (hbase : cnt 0 = if i0 = 0 then 3 else Nat.primeCounting (240 * i0 - 1))
    (hcnt : ∀ j, j < J → cnt (j + 1) = cnt j + popcount64 (bits j))
    (hbits : ∀ j, j ≤ J → WordHolds (i0 + j) M (bits j))
    (n : ℕ) (h6 : 6 ≤ n) (hlo : 240 * i0 ≤ n) (hn : n < M) (hJ : n / 240 - i0 ≤ J) :
    cnt (n / 240 - i0) + popcount64 (bits (n / 240 - i0) &&& unsetLargerSpec (n % 240))
      = Nat.primeCounting n := by
  have hq : i0 ≤ n / 240 := by
    rw [Nat.le_div_iff_mul_le (by norm_num)]; omega
  -- counts are π of everything before the block
  have hinv : ∀ j, j ≤ n / 240 - i0 →
      cnt j = if i0 + j = 0 then 3 else Nat.count Nat.Prime (240 * (i0 + j)) := by
    intro j
    induction j with
    | zero =>
      intro _
      rw [hbase]
      by_cases h0 : i0 = 0
      · simp [h0]
      · have : 240 * i0 - 1 + 1 = 240 * i0 := by omega
        simp [h0, Nat.primeCounting, Nat.primeCounting', this]
    | succ j ih =>
      intro hj
      have hjJ : j < J := by omega
      rw [hcnt j hjJ, ih (by omega)]
      have hfull : 240 * (i0 + j) + 240 ≤ M := by
        have : (i0 + j + 1) * 240 ≤ n := by
          rw [← Nat.le_div_iff_mul_le (by norm_num)]; omega
        omega
      rw [popcount_full (i0 + j) M (bits j) (hbits j (by omega)) hfull]
      have hsplit := count_block (i0 + j) 240 (by norm_num)
      have hadd := Nat.count_add Nat.Prime (240 * (i0 + j)) 240
      have e : 240 * (i0 + (j + 1)) = 240 * (i0 + j) + 240 := by ring
      have hne : ¬ i0 + (j + 1) = 0 := by omega
      rw [if_neg hne, e, hadd, hsplit]
      by_cases h0 : i0 + j = 0
      · rw [if_pos h0, if_pos h0, card_small_primes 240 (by norm_num), h0]
        simp; omega
      · rw [if_neg h0, if_neg h0]; omega
  set q := n / 240 with hqdef
  set m := n % 240 with hmdef
  have hm : m < 240 := Nat.mod_lt _ (by norm_num)
  have hnqm : n = 240 * q + m := (Nat.div_add_mod n 240).symm
  have hiq : i0 + (q - i0) = q := by omega
  rw [hinv (q - i0) le_rfl, hiq]
  have hw := hbits (q - i0) hJ
  rw [hiq] at hw
  rw [popcount_masked q M _ m hw hm (by omega)]
  have hpi : Nat.primeCounting n = Nat.count Nat.Prime (240 * q) + Nat.count (fun r => (240 * q + r).Prime) (m + 1) := by
    rw [Nat.primeCounting, Nat.primeCounting', hnqm, Nat.add_assoc, Nat.count_add]
  rw [hpi, count_block q (m + 1) (by omega)]
  by_cases h0 : q = 0
  · have : 6 ≤ m + 1 := by omega
    rw [if_pos h0, if_pos h0, card_small_primes (m + 1) this, h0]
    simp; omega
  · rw [if_neg h0, if_neg h0]; omega


/-! ### lifting the generated obligations -/

theorem agreeFrom_getD (f : ℕ → ℕ) : ∀ (l : List ℕ) (i k : ℕ), agreeFrom f i l = true → k < l.length →
    l.getD k 0 = f (i + k) := by
  intro l
  induction l with
  | nil => intro i k _ hk; simp at hk
  | cons x xs ih =>
    intro i k h hk
    simp only [agreeFrom, Bool.and_eq_true, beq_iff_eq] at h
    rcases k with _ | k
    · simp [h.1]
    · have := ih (i + 1) k h.2 (by simpa using hk)
      simp only [List.getD_cons_succ]
      rw [this]; congr 1; omega

theorem array_getD_toList {α} (a : Array α) (i : ℕ) (d : α) : a.getD i d = a.toList.getD i d := by
  rw [Array.getD_eq_getD_getElem?, List.getD_eq_getElem?_getD, Array.getElem?_toList]

theorem unsetLargerTbl_eq (r : ℕ) (hr : r < 240) : unsetLargerTbl r = unsetLargerSpec r := by
  unfold unsetLargerTbl
  rw [array_getD_toList, agreeFrom_getD _ _ 0 r PcGen.Obl.unsetLarger_all (by
    rw [Array.length_toList, PcGen.Obl.unsetLarger_size]; exact hr)]
  simp

theorem setBitTbl_eq (r : ℕ) (hr : r < 240) : setBitTbl r = setBitSpec r := by
  unfold setBitTbl
  rw [array_getD_toList, agreeFrom_getD _ _ 0 r PcGen.Obl.setBit_all (by
    rw [Array.length_toList, PcGen.Obl.setBit_size]; exact hr)]
  simp

theorem piTinyTbl_eq : ∀ x, x < 6 → piTinyTbl x = Nat.primeCounting x := by
  unfold piTinyTbl; decide

theorem piCache_getD : ∀ i, i < 128 →
    PcGen.piCache.getD i (0, 0) = (PcGen.piCacheCount.getD i 0, PcGen.piCacheBits.getD i 0) := by
  decide +kernel

theorem wordHolds_primeWord (i M : ℕ) : WordHolds i M (primeWord i) := by
  intro k hk _
  unfold primeWord
  rw [testBit_maskOf]
  simp [hk, isPrimeSR_iff]

/-- **C01/C17**: the static 128-word cache answers π(x) for every x it covers -/
theorem piCache_correct (x : ℕ) (hx : x < 30720) : piCacheLookup PcGen.piCache x = Nat.primeCounting x := by
  unfold piCacheLookup
  rw [PcGen.Obl.piTiny_size]
  split
  · rename_i h6; exact piTinyTbl_eq x h6
  · rename_i h6
    have hq : x / 240 < 128 := by omega
    rw [piCache_getD _ hq]
    unfold wordLookup
    rw [unsetLargerTbl_eq _ (Nat.mod_lt _ (by norm_num))]
    have := bitPiTable_lookup 0 30720 127 (fun j => PcGen.piCacheCount.getD j 0) (fun j => PcGen.piCacheBits.getD j 0)
      (by rw [if_pos rfl]; exact PcGen.Obl.piCache_count_base)
      (fun j hj => PcGen.Obl.piCache_count_all j hj)
      (fun j hj => by
        rw [PcGen.Obl.piCache_word_all j (by omega), Nat.zero_add]
        exact wordHolds_primeWord j 30720)
      x (by omega) (by omega) hx (by omega)
    simpa using this

end Pc
