/-
Lemmas about the L2 model of the `pi(x)` entry points (PcModel/Api.lean): dispatcher, decimal
rendering / parsing, `to_maxint` on digit strings.
-/
import PcModel.Api
import PcProofs.Oracle

namespace Pc.PiApi
open Nat PcGen.ApiConst Pc.Oracle

/-- `f` returns π on `[lo, hi]` -/
def RouteCorrect (f : ℕ → ℕ) (lo hi : ℕ) : Prop := ∀ x, lo ≤ x → x ≤ hi → f x = Nat.primeCounting x

/-- the 128-bit route does not throw and returns π on `(INT64_MAX, hi]` -/
def Route128Correct (f : ℕ → Except ApiErr ℕ) (hi : ℕ) : Prop :=
  ∀ x, int64Max < x → x ≤ hi → f x = .ok (Nat.primeCounting x)

/-- the route the dispatcher takes for the single argument `n` returns π(n) -/
def RoutesAgreeAt (r : Routes) (n : ℕ) : Prop :=
  (cacheZeroBelow ≤ n → n ≤ maxCached → r.cache n = Nat.primeCounting n) ∧
  (maxCached < n → n ≤ legendreMax → r.legendre n = Nat.primeCounting n) ∧
  (legendreMax < n → n ≤ meisselMax → r.meissel n = Nat.primeCounting n) ∧
  (meisselMax < n → n ≤ int64Max → r.gourdon64 n = Nat.primeCounting n)

theorem primeCounting_lt_two {n : ℕ} (h : n < 2) : Nat.primeCounting n = 0 := by
  rw [Nat.primeCounting_eq_zero_iff]; omega

/-- the only fact about the generated constants that the dispatcher proof needs (a `decide` obligation
    over PcGen.ApiConst: it is re-checked whenever the translator regenerates the constants; the three
    thresholds themselves may change freely) -/
theorem cacheZeroBelow_le_two : cacheZeroBelow ≤ 2 := by decide

theorem piApi64_of_agree (r : Routes) (x : ℤ) (hx : x ≤ int64Max) (h : RoutesAgreeAt r x.toNat) :
    piApi64 r x = Nat.primeCounting x.toNat := by
  obtain ⟨h1, h2, h3, h4⟩ := h
  have hz := cacheZeroBelow_le_two
  unfold piApi64 piCacheApi
  split_ifs with c1 c2 c3 c4
  · have : x.toNat < 2 := by omega
    rw [primeCounting_lt_two this]; rfl
  · rw [h1 (by omega) (by omega)]
  · rw [h2 (by omega) (by omega)]
  · rw [h3 (by omega) (by omega)]
  · have hx' : x.toNat ≤ int64Max := by omega
    rw [h4 (by omega) hx']

theorem routesAgreeAt_of_correct {r : Routes} (hc : RouteCorrect r.cache cacheZeroBelow maxCached)
    (hl : RouteCorrect r.legendre (maxCached + 1) legendreMax)
    (hm : RouteCorrect r.meissel (legendreMax + 1) meisselMax)
    (hg : RouteCorrect r.gourdon64 (meisselMax + 1) int64Max) (n : ℕ) : RoutesAgreeAt r n :=
  ⟨fun a b => hc n a b, fun a b => hl n a b, fun a b => hm n a b, fun a b => hg n a b⟩

theorem piApi128_of_agree (r : Routes) (x : ℤ) (hx : x ≤ int64Max) (h : RoutesAgreeAt r x.toNat) :
    piApi128 r x = .ok (Nat.primeCounting x.toNat : ℤ) := by
  unfold piApi128
  split_ifs with c1
  · have : x.toNat = 0 := by omega
    rw [this]; rfl
  · rw [piApi64_of_agree r x hx h]

/-- the table routes of the driver (built from the proved `piTableArr`) agree with π up to the table size -/
theorem tableRoutes_agree (n m : ℕ) (h : m ≤ n) : RoutesAgreeAt (tableRoutes (piTableArr n)) m := by
  have := (piTableArr_spec n).2 m h
  exact ⟨fun _ _ => this, fun _ _ => this, fun _ _ => this, fun _ _ => this⟩

/-- what `pcdrv` prints for `pi_batch`: the dispatcher over the proved table is π -/
theorem piApi128_tableRoutes (n : ℕ) (x : ℤ) (hx : x ≤ n) (hn : n ≤ int64Max) :
    piApi128 (tableRoutes (piTableArr n)) x = .ok (Nat.primeCounting x.toNat : ℤ) :=
  piApi128_of_agree _ x (by omega) (tableRoutes_agree n x.toNat (by omega))

/-! ### decimal strings -/

/-- value of a little-endian digit list -/
def valRev : List Char → ℕ
  | [] => 0
  | c :: cs => (c.toNat - 48) + 10 * valRev cs

theorem digitChar_val (d : ℕ) (hd : d < 10) : (digitChar d).toNat - 48 = d := by
  interval_cases d <;> rfl

theorem digitChar_isDigit (d : ℕ) (hd : d < 10) : isDigit (digitChar d) = true := by
  interval_cases d <;> rfl

theorem parseDecL_append (l : List Char) (c : Char) : parseDecL (l ++ [c]) = parseDecL l * 10 + (c.toNat - 48) := by
  simp [parseDecL, List.foldl_append]

theorem parseDecL_reverse (l : List Char) : parseDecL l.reverse = valRev l := by
  induction l with
  | nil => rfl
  | cons c cs ih => rw [List.reverse_cons, parseDecL_append, ih, valRev]; omega

theorem valRev_digitsRev : ∀ fuel n, n < 10 ^ fuel → valRev (digitsRev fuel n) = n := by
  intro fuel
  induction fuel with
  | zero => intro n hn; simp at hn; subst hn; rfl
  | succ f ih =>
    intro n hn
    unfold digitsRev
    by_cases h0 : n = 0
    · simp [h0, valRev]
    · simp only [h0, if_false, valRev]
      rw [digitChar_val _ (Nat.mod_lt _ (by omega)), ih (n / 10) (by rw [pow_succ] at hn; omega)]
      omega

theorem digitsRev_eq_nil (fuel n : ℕ) (hf : 0 < fuel) : digitsRev fuel n = [] ↔ n = 0 := by
  obtain ⟨f, rfl⟩ : ∃ f, fuel = f + 1 := ⟨fuel - 1, by omega⟩
  unfold digitsRev
  by_cases h0 : n = 0 <;> simp [h0]

theorem parseDecL_toCharsU128 (n : ℕ) (hn : n < 2 ^ 128) : parseDecL (toCharsU128 n) = n := by
  unfold toCharsU128
  by_cases h : digitsRev 40 n = []
  · have := (digitsRev_eq_nil 40 n (by omega)).mp h
    have h' : (digitsRev 40 n).isEmpty = true := by simp [h]
    simp only [h', if_true]
    subst this; rfl
  · have h' : (digitsRev 40 n).isEmpty = false := by simpa using h
    simp only [h', Bool.false_eq_true, if_false]
    rw [parseDecL_reverse, valRev_digitsRev 40 n (lt_of_lt_of_le hn (by norm_num))]

theorem parseDec_toStringU128 (n : ℕ) (hn : n < 2 ^ 128) : parseDec (toStringU128 n) = n := by
  unfold parseDec toStringU128
  rw [String.toList_ofList]
  exact parseDecL_toCharsU128 n hn

/-! ### counting primes in an interval -/

theorem primeCounting_sub_eq_card (a b : ℕ) (h : a ≤ b) :
    Nat.primeCounting b - Nat.primeCounting a = ((Finset.Ioc a b).filter Nat.Prime).card := by
  have e : ∀ n, Nat.primeCounting n = ((Finset.range (n + 1)).filter Nat.Prime).card := fun n => by
    show Nat.count Nat.Prime (n + 1) = _
    rw [Nat.count_eq_card_filter_range]
  have hsub : (Finset.range (a + 1)).filter Nat.Prime ⊆ (Finset.range (b + 1)).filter Nat.Prime := by
    intro q; simp only [Finset.mem_filter, Finset.mem_range]; rintro ⟨h1, h2⟩; exact ⟨by omega, h2⟩
  rw [e, e, ← Finset.card_sdiff_of_subset hsub]
  congr 1
  ext q
  simp only [Finset.mem_sdiff, Finset.mem_filter, Finset.mem_range, Finset.mem_Ioc]
  constructor
  · rintro ⟨⟨h1, h2⟩, h3⟩
    exact ⟨⟨by by_contra hc; exact h3 ⟨by omega, h2⟩, by omega⟩, h2⟩
  · rintro ⟨⟨h1, h2⟩, h3⟩
    exact ⟨⟨by omega, h3⟩, fun hh => by omega⟩

end Pc.PiApi
