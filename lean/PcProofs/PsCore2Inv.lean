/-
C18 core, second half: the object invariant of `class Erat` between two segments (`EInv`) and its preservation by
`Erat::addSievingPrime` (dispatch by size class, `Wheel::addSievingPrime`, the three `storeSievingPrime`).
`P` = the set of sieving numbers that have been added so far.
-/
import PcProofs.PsCore2Add
import Mathlib.Data.List.Forall2

namespace Pc.PsCore
open Pc.PsWheelSpec
open Pc.Sieve (Bytes bitAt)

/-- EratSmall / EratMedium: the stored array `ps` with its ghost list `(q, u)` -/
def ListInv (L : ℕ) (ps : Array SPrime) (gs : List (ℕ × ℕ)) : Prop :=
  List.Forall₂ (Stored L) ps.toList gs ∧ ∀ g ∈ gs, Pending 30 g.1 L g.2

/-- every added sieving number is stored in one of the three objects (with a cofactor that is not beyond any multiple still to be
    crossed off), or has no multiple left in `(L + 6, stop]` -/
def Cover (L log2 stop : ℕ) (big : Buckets) (gsS gsM : List (ℕ × ℕ)) (P : ℕ → Prop) : Prop :=
  ∀ q, P q → (∃ g ∈ gsS, g.1 = q) ∨ (∃ g ∈ gsM, g.1 = q) ∨
    (∃ u, BigHas L log2 big q u ∧ Pending 210 q L u) ∨ NoMult q L stop

structure EInv (e : Erat) (P : ℕ → Prop) : Prop where
  low_dvd : 30 ∣ e.segmentLow
  start_ge : 7 ≤ e.start
  start_le : e.start ≤ e.stop
  stop_lt : e.stop < 2 ^ 64
  /-- in the first segment `segmentLow_ = start_ − byteRemainder(start_)`; later `start_ < segmentLow_` -/
  first : e.segmentLow ≤ e.start → e.start = e.segmentLow + byteRemainder e.start
  low_lt : e.segmentLow + 7 ≤ e.stop
  size_pos : 1 ≤ e.sieve.size
  size_le : e.sieve.size ≤ 2 ^ 23
  size_mod8 : e.sieve.size % 8 = 0
  high_le : e.segmentHigh ≤ e.stop
  high_nl : e.segmentHigh < e.stop → e.segmentHigh = e.segmentLow + e.sieve.size * 30 + 6
  high_ub : e.segmentHigh ≤ e.segmentLow + 30 * e.sieve.size + 6
  last_fits : e.stop ≤ e.segmentHigh → (e.stop - byteRemainder e.stop - e.segmentLow) / 30 + 1 ≤ e.sieve.size
  l1_pos : 0 < e.l1
  /-- the only fact about the `double` arithmetic of `Erat::initAlgorithms` that is needed (`maxEratMedium_ = sieveSize·3 ≤ 3·2^23`);
      it holds unconditionally for `stop < 2^50` because `maxEratMedium_ ≤ √stop` -/
  medium_lt : e.maxEratMedium < 2 ^ 25
  smallInit : 163 < Nat.sqrt e.stop → e.smallInit = true
  mediumInit : e.maxEratSmall < Nat.sqrt e.stop → e.mediumInit = true
  bigInit : e.maxEratMedium < Nat.sqrt e.stop → e.bigInit = true
  big_pow2 : e.bigInit = true → e.sieve.size = 2 ^ e.log2
  big_empty : e.bigInit = false → e.big = #[]
  log2_le : e.log2 ≤ 23
  big_ok : BigOk e.segmentLow e.log2 e.big
  big_sound : ∀ q u, BigHas e.segmentLow e.log2 e.big q u → q ≤ u
  lists : ∃ gsS gsM, ListInv e.segmentLow e.small gsS ∧ ListInv e.segmentLow e.medium gsM ∧
    Cover e.segmentLow e.log2 e.stop e.big gsS gsM P

/-- the content of a sieved segment with low `L`: bit `p` is set iff its number is a prime of `[start, stop]` -/
def SegOk (start stop L : ℕ) (s : Bytes) : Prop :=
  (∀ i, s.getD i 0 < 256) ∧
  ∀ p, bitAt s p = true ↔ (p < 8 * s.size ∧ Nat.Prime (numOf L p) ∧ start ≤ numOf L p ∧ numOf L p ≤ stop)

theorem init30_dist_le : ∀ r < 30, ((expectedInit 30).getD r (0, 0)).1 ≤ 6 := by decide +kernel

/-- a cofactor that is already coprime to the wheel modulus is its own first factor -/
theorem firstFactor_self {M size : ℕ} {init} (hi : InitOk M size init) (hM : 0 < M) (quot : ℕ) (hc : Nat.Coprime quot M) :
    firstFactor init M quot = quot := by
  obtain ⟨h1, _, h3⟩ := firstFactor_spec hi hM quot
  by_contra h
  exact h3 quot (le_refl _) (by omega) hc

/-- the `multipleIndex` stored for an EratSmall / EratMedium prime fits into 23 bits -/
theorem first_mi_bound30 (q L n mi wi : ℕ) (hq : 1 ≤ q) (hc : Nat.Coprime q 30) (hq25 : q < 2 ^ 25) (hL : 30 ∣ L) (hn : n ≤ 2 ^ 23)
    (hqq : q * q ≤ L + 30 * n + 6)
    (hpos : Pos 30 8 (q / 30) q L mi wi (firstFactor Gen.psWheel30Init 30 (max q ((L + 6) / q + 1)))) :
    mi < 2 ^ 23 := by
  by_cases hcase : q ≤ (L + 6) / q + 1
  · by_cases heq : q = (L + 6) / q + 1
    · -- same as the other branch
      have hm : max q ((L + 6) / q + 1) = q := by omega
      rw [hm, firstFactor_self initOk_30 (by norm_num) q hc] at hpos
      obtain ⟨g, j, U, _, _, _, _, _, hbyte⟩ := hpos
      obtain ⟨c, rfl⟩ := hL
      unfold byteP1 at hbyte
      rw [show 30 * c / 30 = c by omega] at hbyte
      omega
    · have hm : max q ((L + 6) / q + 1) = (L + 6) / q + 1 := by omega
      rw [hm] at hpos
      obtain ⟨g, j, U, _, _, _, _, _, hbyte⟩ := hpos
      have hd : (Gen.psWheel30Init.getD (((L + 6) / q + 1) % 30) (0, 0)).1 ≤ 6 := by
        rw [Gen.psWheel30Init_ok]; exact init30_dist_le _ (Nat.mod_lt _ (by norm_num))
      unfold firstFactor at hbyte
      set f := (Gen.psWheel30Init.getD (((L + 6) / q + 1) % 30) (0, 0)).1 with hf
      obtain ⟨c, rfl⟩ := hL
      unfold byteP1 at hbyte
      rw [show 30 * c / 30 = c by omega] at hbyte
      have h1 : q * ((30 * c + 6) / q + 1 + f) ≤ 30 * c + 6 + q + 6 * q := by
        have := Nat.mul_div_le (30 * c + 6) q
        have : q * f ≤ q * 6 := Nat.mul_le_mul_left q hd
        rw [Nat.mul_add, Nat.mul_add, Nat.mul_one]; omega
      omega
  · have hm : max q ((L + 6) / q + 1) = q := by omega
    rw [hm, firstFactor_self initOk_30 (by norm_num) q hc] at hpos
    obtain ⟨g, j, U, _, _, _, _, _, hbyte⟩ := hpos
    obtain ⟨c, rfl⟩ := hL
    unfold byteP1 at hbyte
    rw [show 30 * c / 30 = c by omega] at hbyte
    omega

theorem pos_idx_lt {M size P q Lb m idx u : ℕ} (h : Pos M size P q Lb m idx u) : idx < size * 8 := by
  obtain ⟨g, j, U, hg, hj, _, _, hi, _⟩ := h
  rw [hi]
  calc size * g + j < size * g + size := by omega
    _ = size * (g + 1) := by ring
    _ ≤ size * 8 := Nat.mul_le_mul_left size (by omega)

/-- the new entry pushed by `EratSmall/EratMedium::storeSievingPrime` -/
theorem listInv_push {L : ℕ} {ps : Array SPrime} {gs : List (ℕ × ℕ)} (h : ListInv L ps gs) (q mi wi u : ℕ)
    (hq30 : 30 ≤ q) (hq25 : q < 2 ^ 25) (hmi : mi < 2 ^ 23) (hpos : Pos 30 8 (q / 30) q L mi wi u) (hpend : Pending 30 q L u) :
    ListInv L (ps.push (SPrime.set (q / 30) mi wi)) (gs ++ [(q, u)]) := by
  have hwi : wi < 2 ^ 9 := by have := pos_idx_lt hpos; omega
  obtain ⟨e1, e2, e3⟩ := sprime_roundtrip (q / 30) mi wi (by omega) hmi hwi
  refine ⟨?_, ?_⟩
  · rw [Array.toList_push]
    refine List.rel_append h.1 (List.Forall₂.cons ⟨hq30, hq25, e1, ?_⟩ List.Forall₂.nil)
    rw [e2, e3]; exact hpos
  · intro g hg
    rcases List.mem_append.mp hg with hg | hg
    · exact h.2 g hg
    · simp only [List.mem_singleton] at hg
      subst hg; exact hpend

end Pc.PsCore
