/-
C16 / C12 (WP safety): the parallel regions of `P2_OpenMP` / `B_OpenMP` and the closed form of P2.cpp:109, width-checked.
Uses the number-theoretic bounds of `PcProofs/SafetyBoundsNT.lean` (`B x y ≤ x`, every sub-sum of `B` is `≤ B`).
-/
import PcProofs.SafetyP2
import PcProofs.SafetyBoundsNT

namespace Pc.Safety
open Pc.P2L Pc.LB Finset
open scoped Nat.Prime

/-- a chunk value is a sub-sum of `B(x, y)` -/
theorem chunkN_le_B (x y : ℕ) (c : Chunk) : (chunkN x y c : ℤ) ≤ Spec.B x y := by
  have := B_sub_le x y (chunkSet x y c) (by unfold chunkSet; exact Finset.filter_subset _ _)
  unfold chunkN
  push_cast
  exact this

theorem privN_le_totalN (g : Chunk → ℕ) (w : ℕ) : ∀ es : List P2.Ev, privN g w es ≤ totalN g es := by
  intro es
  induction es with
  | nil => simp [privN, totalN]
  | cons e es ih =>
    simp only [privN, totalN]
    by_cases hw : e.work = true
    · by_cases hc : (e.work && e.w == w) = true
      · rw [if_pos hc, if_pos hw]; omega
      · rw [if_neg hc, if_pos hw]; omega
    · have hc : ¬ (e.work && e.w == w) = true := by simp [hw]
      rw [if_neg hc, if_neg hw]; omega

/-- **the parallel region, width-checked**: for EVERY valid run (team, order of the `get_work` calls, clock, order of the
    reduction), if `tMin ≤ init`, `B(x, y) ≤ tMax` and `init + B(x, y) ≤ tMax`, then no `pi_xp`, no thread-local, no
    thread-private and no reduced `sum` leaves its type, and the region adds `B(x, y)` to `init` -/
theorem regionC_total {it : Iter} (hit : IterSpec it) {pi : ℕ → ℕ} {x : ℕ} (hpi : ∀ n, n < x → pi n = π n)
    (y : ℕ) (hx : 4 ≤ x) (c : Consts) (hc : c.WF) (r : Run) (hv : r.valid c x (x / max y 1) = true)
    (hxy : x / max y 1 < two63) (tMin : ℤ) (tMax : ℕ) (init : ℤ) (h1 : tMin ≤ init)
    (h2 : init + Spec.B x y ≤ tMax) (h3 : Spec.B x y ≤ tMax) :
    reduceC tMin tMax (p2ThreadC tMax it pi x y) r.es init r.order = .ok (init + Spec.B x y) := by
  obtain ⟨hacc, hdone, hnd, hmem⟩ := valid_parts hv
  set limit := x / max y 1 with hlimit
  set cfg : P2.Config := ⟨limit, r.team, r.print⟩
  have hch := Sys.covers (P2.law cfg) _ r.es (P2.init_inv c hc cfg x limit r.team) hacc
    (P2.init_low_le c x limit r.team) hdone
  have hpos : (P2.sys cfg).pos (P2.init c x limit r.team) = min (Nat.sqrt x) limit := by
    show min (ctSqrt x) limit = _
    rw [ctSqrt_eq_sqrt]
  have hlim : (P2.sys cfg).limit = limit := rfl
  rw [hpos, hlim] at hch
  obtain ⟨_, hsum⟩ := p2_chunks_total hit hpi y hx hch
  have hev : ∀ e ∈ r.es, e.work = true →
      p2ThreadC tMax it pi x y e.low e.high = .ok (chunkN x y (e.low, e.high)) := by
    intro e he hw
    have hm := work_mem_chunks cfg r.es e he hw
    obtain ⟨q1, q2⟩ := chain_low_pos hx hch _ hm
    obtain ⟨_, _, q3⟩ := Chain.mem_bounds hch _ hm
    have hb := chunkN_le_B x y (e.low, e.high)
    exact p2ThreadC_eq_chunk hit hpi tMax y q1 q2 (by simp only at q3; omega) (by omega)
  have htot : (((r.order.map (fun w => privN (chunkN x y) w r.es)).sum : ℕ) : ℤ) = Spec.B x y := by
    rw [sum_privN hnd r.es hmem, totalN_eq_sumF (chunkN x y) cfg]
    exact hsum
  rw [reduceC_ok tMin tMax r.es hev r.order init h1 (by rw [htot]; exact h2) (by omega), htot]

/-! ### the closed form of P2.cpp:109 -/

theorem tdiv_two_nonneg {v : ℤ} (h : 0 ≤ v) : Int.tdiv v 2 = v / 2 := Int.tdiv_eq_ediv_of_nonneg h

theorem inRange_iff (lo : ℤ) (hi : ℕ) (v : ℤ) : inRange lo hi v = true ↔ lo ≤ v ∧ v ≤ (hi : ℤ) := by
  simp [inRange]

theorem two63_cast : (two63 : ℤ) = 9223372036854775808 := rfl
theorem two63_pred_cast : ((two63 - 1 : ℕ) : ℤ) = 9223372036854775807 := rfl

/-- `t ↦ t (t - 1)` is monotone on the naturals -/
theorem pronic_mono {a b : ℕ} (hab : a ≤ b) : (a : ℤ) * ((a : ℤ) - 1) ≤ (b : ℤ) * ((b : ℤ) - 1) := by
  rcases Nat.eq_or_lt_of_le hab with rfl | hlt
  · exact le_refl _
  · have h2 : (0 : ℤ) ≤ ((b : ℤ) - a) * ((b : ℤ) + a - 1) := mul_nonneg (by omega) (by omega)
    nlinarith

/-- `p2InitC` (the repaired P2.cpp:111-112, everything in `T`) succeeds and is `p2Init` whenever `a ≤ b`,
    `b * b ≤ tMax` and `2 ≤ tMax` (for `b ≤ 1` the operand `b + 1` is 2): NO bound on `a` beyond `a ≤ b` (`(a-2)(a+1) ≤ (b-2)(b+1) ≤ b·b ≤ tMax`) -/
theorem p2InitC_ok (tMax a b : ℕ) (hT2 : 2 ≤ tMax) (hab : a ≤ b) (hb : b * b ≤ tMax) :
    p2InitC (-(tMax : ℤ) - 1) tMax a b = .ok (p2Init a b) := by
  have hpa0 : -2 ≤ ((a : ℤ) - 2) * ((a : ℤ) + 1) := by
    by_cases h2 : 2 ≤ a
    · have : 0 ≤ ((a : ℤ) - 2) * ((a : ℤ) + 1) := mul_nonneg (by omega) (by omega)
      omega
    · have : a = 0 ∨ a = 1 := by omega
      rcases this with rfl | rfl <;> norm_num
  have hpb1 : ((b : ℤ) - 2) * ((b : ℤ) + 1) ≤ (b : ℤ) * b := by nlinarith
  have hpb0 : -2 ≤ ((b : ℤ) - 2) * ((b : ℤ) + 1) := by
    by_cases h2 : 2 ≤ b
    · have : 0 ≤ ((b : ℤ) - 2) * ((b : ℤ) + 1) := mul_nonneg (by omega) (by omega)
      omega
    · have : b = 0 ∨ b = 1 := by omega
      rcases this with rfl | rfl <;> norm_num
  have hbT : (b : ℤ) * b ≤ tMax := by exact_mod_cast hb
  have hle : ((a : ℤ) - 2) * ((a : ℤ) + 1) ≤ ((b : ℤ) - 2) * ((b : ℤ) + 1) := by
    have := pronic_mono hab
    nlinarith
  -- `b + 1 ≤ tMax`: `b ≤ b * b` and, when `b * b = b` (b ≤ 1), `b + 1 ≤ 2`… needs `tMax ≥ b + 1`
  have hb1 : (b : ℤ) + 1 ≤ tMax ∨ b ≤ 1 := by
    by_cases h2 : 2 ≤ b
    · left
      have : (b : ℤ) + 1 ≤ (b : ℤ) * b := by nlinarith
      omega
    · right; omega
  have habz : (a : ℤ) ≤ b := by exact_mod_cast hab
  unfold p2InitC
  have hb1' : (b : ℤ) + 1 ≤ tMax ∨ (b : ℤ) + 1 ≤ 2 := by
    rcases hb1 with h | h
    · exact Or.inl h
    · right; omega
  have hT2' : (2 : ℤ) ≤ tMax := by exact_mod_cast hT2
  have r1 : (inRange (-(tMax : ℤ) - 1) tMax ((a : ℤ) - 2) && inRange (-(tMax : ℤ) - 1) tMax ((a : ℤ) + 1) &&
      inRange (-(tMax : ℤ) - 1) tMax (((a : ℤ) - 2) * ((a : ℤ) + 1))) = true := by
    rw [Bool.and_eq_true, Bool.and_eq_true, inRange_iff, inRange_iff, inRange_iff]
    refine ⟨⟨⟨by omega, by omega⟩, ⟨by omega, by omega⟩⟩, ⟨by omega, by omega⟩⟩
  have r2 : (inRange (-(tMax : ℤ) - 1) tMax ((b : ℤ) - 2) && inRange (-(tMax : ℤ) - 1) tMax ((b : ℤ) + 1) &&
      inRange (-(tMax : ℤ) - 1) tMax (((b : ℤ) - 2) * ((b : ℤ) + 1))) = true := by
    rw [Bool.and_eq_true, Bool.and_eq_true, inRange_iff, inRange_iff, inRange_iff]
    refine ⟨⟨⟨by omega, by omega⟩, ⟨by omega, by omega⟩⟩, ⟨by omega, by omega⟩⟩
  have hta : -1 ≤ Int.tdiv (((a : ℤ) - 2) * ((a : ℤ) + 1)) 2 := by
    rw [tdiv_closed]
    have := tri_nonneg a
    omega
  have htb : Int.tdiv (((b : ℤ) - 2) * ((b : ℤ) + 1)) 2 ≤ (b : ℤ) * b := by
    rw [tdiv_closed]
    have : ((b : ℤ) * ((b : ℤ) - 1)) / 2 ≤ (b : ℤ) * ((b : ℤ) - 1) :=
      Int.ediv_le_self _ (by nlinarith [Int.natCast_nonneg b, tri_nonneg b])
    nlinarith
  have hmono : Int.tdiv (((a : ℤ) - 2) * ((a : ℤ) + 1)) 2 ≤ Int.tdiv (((b : ℤ) - 2) * ((b : ℤ) + 1)) 2 := by
    rw [tdiv_closed, tdiv_closed]
    have := Int.ediv_le_ediv (by norm_num : (0 : ℤ) < 2) (pronic_mono hab)
    omega
  have r3 : inRange (-(tMax : ℤ) - 1) tMax
      (Int.tdiv (((a : ℤ) - 2) * ((a : ℤ) + 1)) 2 - Int.tdiv (((b : ℤ) - 2) * ((b : ℤ) + 1)) 2) = true := by
    rw [inRange_iff]
    constructor <;> omega
  simp only [r1, r2, r3, Bool.not_true, Bool.false_eq_true, if_false]
  rfl

/-- `p2InitCPreFix` (the line before /repo 8cccffb) succeeds when the `int64_t` product `(a - 2) * (a + 1)` fits, i.e.
    `a ≤ 3037000500`, and `a ≤ b`, `b * b ≤ tMax` -/
theorem p2InitCPreFix_threshold_ok :
    p2InitCPreFix (-(2 ^ 127 : ℤ)) (2 ^ 127 - 1) 3037000500 3037000500 = .ok 0 := by decide

/-- **the defect of the pre-8cccffb P2.cpp:109** (finding F9): for EVERY `a ≥ 3037000501` the `int64_t` product
    `(a - 2) * (a + 1)` exceeds `2^63 - 1` — signed overflow, whatever the width of `T` -/
theorem p2InitCPreFix_overflows (tMin : ℤ) (tMax a b : ℕ) (ha : 3037000501 ≤ a) :
    p2InitCPreFix tMin tMax a b = .error .ovfInitA := by
  have : (3037000499 : ℤ) * 3037000502 ≤ ((a : ℤ) - 2) * ((a : ℤ) + 1) :=
    mul_le_mul (by omega) (by omega) (by norm_num) (by omega)
  unfold p2InitCPreFix
  have r1 : inRange (-(two63 : ℤ)) (two63 - 1) (((a : ℤ) - 2) * ((a : ℤ) + 1)) = false := by
    rw [Bool.eq_false_iff, ne_eq, inRange_iff, two63_cast, two63_pred_cast]
    norm_num at this
    omega
  simp [r1]

/-! ### whole functions -/

/-- `P2_OpenMP<T>` (since /repo 8cccffb), width-checked, for a signed `T` with maximum `tMax ≥ x`: nothing overflows and
    the result is `P2(x, a)` — no bound on `a = π(y)` -/
theorem p2OpenMPC_eq {it : Iter} (hit : IterSpec it) {pi : ℕ → ℕ} {x y a : ℕ} (hpi : ∀ n, n < x → pi n = π n)
    (ha : a = π y) (hya : pi y = a) (c : Consts) (hc : c.WF) (hxy : x / max y 1 < two63) (r : Run)
    (hv : 4 ≤ x → y < Nat.sqrt x → r.valid c x (x / max y 1) = true)
    (tMax : ℕ) (hxT : x ≤ tMax) :
    p2OpenMPC tMax c it pi x y a r = .ok (Spec.P2 x a : ℤ) := by
  unfold p2OpenMPC
  rw [if_neg (by rw [hya]; exact fun h => h rfl)]
  by_cases hx : x < 4
  · rw [if_pos hx]
    have hs : Nat.sqrt x ≤ 1 := by
      by_contra hcon
      have : 2 ≤ Nat.sqrt x := by omega
      have := Nat.le_sqrt.1 this
      omega
    have : π (Nat.sqrt x) ≤ a := by
      have h1 := Spec.pi_mono hs
      have h2 : π 1 = 0 := by decide
      omega
    rw [P2_eq_zero_of_pi_sqrt_le this]; rfl
  · rw [if_neg hx]
    simp only
    rw [isqrtN_eq]
    by_cases hy : Nat.sqrt x ≤ y
    · rw [if_pos hy]
      have : π (Nat.sqrt x) ≤ a := by rw [ha]; exact Spec.pi_mono hy
      rw [P2_eq_zero_of_pi_sqrt_le this]; rfl
    · rw [if_neg hy]
      have hs : Nat.sqrt x < x := Nat.sqrt_lt_self (by omega)
      have hab : a ≤ π (Nat.sqrt x) := by rw [ha]; exact Spec.pi_mono (by omega)
      have hbb : π (Nat.sqrt x) * π (Nat.sqrt x) ≤ tMax := by
        have h1 := pi_le_self (Nat.sqrt x)
        have h2 : Nat.sqrt x * Nat.sqrt x ≤ x := Nat.sqrt_le x
        have := Nat.mul_le_mul h1 h1
        omega
      rw [hpi _ hs, p2InitC_ok tMax a _ (by omega) hab hbb]
      simp only
      rw [if_neg (by omega)]
      have hv' := hv (by omega) (by omega)
      rw [hv']
      simp only [Bool.not_true, Bool.false_eq_true, if_false]
      have hB := B_le x y
      have hB0 := B_nonneg x y
      have hP : (Spec.P2 x (π y) : ℤ) = Spec.B x y + p2Init a (π (Nat.sqrt x)) := by
        rw [p2Init_eq, ha, P2_eq_B_sub (by omega)]
      have hP0 : (0 : ℤ) ≤ (Spec.P2 x (π y) : ℤ) := Int.natCast_nonneg _
      have hinit0 : p2Init a (π (Nat.sqrt x)) ≤ 0 := by
        rw [p2Init_eq]
        have := Int.ediv_le_ediv (by norm_num : (0 : ℤ) < 2) (pronic_mono hab)
        omega
      have hxT' : (x : ℤ) ≤ tMax := by exact_mod_cast hxT
      rw [regionC_total hit hpi y (by omega) c hc r hv' hxy _ tMax _ (by omega) (by omega) (by omega)]
      rw [ha, hP, ← ha]
      congr 1; ring

/-- `B_OpenMP<T>`, width-checked, for an unsigned `T` with maximum `tMax ≥ x`: nothing overflows, result `B(x, y)` -/
theorem bOpenMPC_eq {it : Iter} (hit : IterSpec it) {pi : ℕ → ℕ} {x : ℕ} (hpi : ∀ n, n < x → pi n = π n)
    (y : ℕ) (c : Consts) (hc : c.WF) (hxy : x / max y 1 < two63) (r : Run)
    (hv : 4 ≤ x → r.valid c x (x / max y 1) = true) (tMax : ℕ) (hxT : x ≤ tMax) :
    bOpenMPC tMax c it pi x y r = .ok (Spec.B x y) := by
  unfold bOpenMPC
  by_cases hx : x < 4
  · rw [if_pos hx]
    have hs : Nat.sqrt x ≤ 1 := by
      by_contra hcon
      have : 2 ≤ Nat.sqrt x := by omega
      have := Nat.le_sqrt.1 this
      omega
    have : Spec.B x y = 0 := by
      unfold Spec.B
      apply Finset.sum_eq_zero
      intro q hq
      rw [mem_filter, mem_Ioc] at hq
      have := hq.2.two_le
      omega
    rw [this]
  · rw [if_neg hx]
    simp only
    rw [if_neg (by omega)]
    have hv' := hv (by omega)
    rw [hv']
    simp only [Bool.not_true, Bool.false_eq_true, if_false]
    have hB := B_le x y
    have hB0 := B_nonneg x y
    have hxT' : (x : ℤ) ≤ tMax := by exact_mod_cast hxT
    rw [regionC_total hit hpi y (by omega) c hc r hv' hxy 0 tMax 0 (le_refl _) (by omega) (by omega), Int.zero_add]

end Pc.Safety
