/-
C18 (WP iter2): instantiation of the hypothesis structure `IterSpec` / `IterSpecTo` of PcProofs/P2Loop.lean (what P2.cpp / B.cpp
assume about `primesieve::iterator`) by the L2 model of the real iterator (PcModel/Iter.lean).

P2.cpp uses two iterator objects per `P2_thread` call: `it1(stop, start)` only through `prev_prime()`, and `it2(xp + 1, high)`
only through `generate_next_primes()` + direct reads of `primes_[i_]` / writes of `i_`. `P2L.Iter` describes them by two
functions of the position: `prev n` (next value of `it1` when the primes still to come are those `≤ n`) and `next n` (next
buffer of `it2` when the primes still to come are those `≥ n`).

* `modelIter`                 : the model iterator freshly constructed at `n` (any stop hints), seen through these two uses.
* `iter_satisfies_IterSpec`   : it meets `IterSpecTo … N` for every `N` below which a 64-bit prime exists
                                (`iter_satisfies_IterSpec_two63`: `N = 2^63` by Bertrand), for every core meeting `GenSpec`,
                                every float outcome, batching and hints.
* `prev_run_is_Iter`          : the successive `prev_prime()` values of ONE iterator object are `it.prev stop`,
                                `it.prev (v₀ - 1)`, `it.prev (v₁ - 1)`, … exactly as `P2L.outer` / `p2Thread` use them.
* `next_run_is_Iter`          : the successive buffers of ONE iterator object (whatever `i_` is set to in between) satisfy
                                the `next_*` clauses of `IterSpec` at `n₀ = start`, `n_{k+1} = last_k + 1`, exactly as
                                `P2L.loop1` uses them (`it.next (last + 1)`), for ANY batch sizes (they need not be the sizes
                                a fresh iterator at `n` would deliver: the contract, not the function, is what transfers).
-/
import PcProofs.IterHist3

namespace Pc.It
open Nat

/-- the model iterator freshly constructed at `n`, seen through the two uses of P2.cpp / B.cpp -/
def modelIter (e : Env) (hintP hintN : ℕ → ℕ) : P2L.Iter where
  prev n := match prevPrime e (init n (hintP n)) with
    | .ok (p, _) => p
    | .error _ => 0
  next n := match genNext e bigFuel (init n (hintN n)) with
    | .ok s => s.buf
    | .error _ => []

theorem modelIter_prev (e : Env) (he : GenSpec e) (hintP hintN : ℕ → ℕ) (n : ℕ) (hn : n ≤ umax) :
    (modelIter e hintP hintN).prev n = Nat.findGreatest Nat.Prime n := by
  obtain ⟨s', hs'⟩ := prevPrime_init e he n (hintP n) hn
  show (match prevPrime e (init n (hintP n)) with
    | .ok (p, _) => p
    | .error _ => 0) = _
  rw [hs']

theorem modelIter_next (e : Env) (he : GenSpec e) (hintP hintN : ℕ → ℕ) (hH : ∀ n, hintN n ≤ umax) (n : ℕ) (hn : n ≤ umax)
    (hp : ∃ p, p.Prime ∧ n ≤ p ∧ p ≤ umax) :
    ∃ s L, genNext e bigFuel (init n (hintN n)) = .ok s ∧ (modelIter e hintP hintN).next n = s.buf ∧ Batch s n L := by
  obtain ⟨s', L', hs', _, hb⟩ := (Batch.first e he n (hintN n) hn (hH n)).1 hp
  refine ⟨s', L', hs', ?_, hb⟩
  show (match genNext e bigFuel (init n (hintN n)) with
    | .ok s => s.buf
    | .error _ => []) = _
  rw [hs']

/-- the `next_*` clauses of `IterSpec` for a buffer in `Batch` shape -/
theorem Batch.iterSpec {s : St} {n L : ℕ} (h : Batch s n L) :
    s.buf ≠ [] ∧ s.buf.Pairwise (· < ·) ∧ ∀ L', s.buf.getLast? = some L' → ∀ q, q ∈ s.buf ↔ q.Prime ∧ n ≤ q ∧ q ≤ L' := by
  refine ⟨fun hnil => ?_, h.primes.1, fun L' hL' q => ?_⟩
  · have := h.last; rw [hnil] at this; simp at this
  · have : L' = L := by
      have := h.last; rw [hL'] at this; exact Option.some.inj this
    subst this
    exact h.primes.2 q

/-- **the real iterator meets the contract P2.cpp / B.cpp rely on**, for all positions `≤ N` below a 64-bit prime -/
theorem iter_satisfies_IterSpec (e : Env) (he : GenSpec e) (hintP hintN : ℕ → ℕ) (hH : ∀ n, hintN n ≤ umax) (N : ℕ)
    (hN : ∃ p, p.Prime ∧ N ≤ p ∧ p ≤ umax) : P2L.IterSpecTo (modelIter e hintP hintN) N := by
  obtain ⟨p, hp, hNp, hpu⟩ := hN
  have hpr : ∀ n, n ≤ N → (modelIter e hintP hintN).prev n = Nat.findGreatest Nat.Prime n :=
    fun n hn => modelIter_prev e he hintP hintN n (by omega)
  have hnx : ∀ n, n ≤ N → ∃ s L, (modelIter e hintP hintN).next n = s.buf ∧ Batch s n L := by
    intro n hn
    obtain ⟨s, L, _, h2, h3⟩ := modelIter_next e he hintP hintN hH n (by omega) ⟨p, hp, by omega, hpu⟩
    exact ⟨s, L, h2, h3⟩
  refine ⟨?_, ?_, ?_, ?_, ?_, ?_⟩
  · intro n hn; rw [hpr n hn]; exact Nat.findGreatest_le n
  · intro n hn h; rw [hpr n hn] at h ⊢; exact Nat.findGreatest_of_ne_zero rfl h
  · intro n hn q hq hle; rw [hpr n hn]; exact Nat.le_findGreatest hle hq
  · intro n hn; obtain ⟨s, L, h1, h2⟩ := hnx n hn; rw [h1]; exact h2.iterSpec.1
  · intro n hn; obtain ⟨s, L, h1, h2⟩ := hnx n hn; rw [h1]; exact h2.iterSpec.2.1
  · intro n hn L' hL' q; obtain ⟨s, L, h1, h2⟩ := hnx n hn; rw [h1] at hL' ⊢; exact h2.iterSpec.2.2 L' hL' q

/-- a prime in `(2^63, 2^64 - 2]` exists (Bertrand), so the contract holds for all positions up to `2^63` -/
theorem iter_satisfies_IterSpec_two63 (e : Env) (he : GenSpec e) (hintP hintN : ℕ → ℕ) (hH : ∀ n, hintN n ≤ umax) :
    P2L.IterSpecTo (modelIter e hintP hintN) (2 ^ 63) := by
  apply iter_satisfies_IterSpec e he hintP hintN hH
  obtain ⟨p, hp, h1, h2⟩ := Nat.exists_prime_lt_and_le_two_mul (2 ^ 63) (by norm_num)
  refine ⟨p, hp, by omega, ?_⟩
  have : p ≠ 2 * 2 ^ 63 := by
    rintro rfl
    exact Nat.not_prime_mul (by norm_num) (by norm_num) hp
  unfold umax; omega

/-- successive `prev_prime()` values of ONE iterator object, in the shape `P2L.outer` uses them -/
def prevRun (it : P2L.Iter) : ℕ → ℕ → List ℕ
  | _, 0 => []
  | n, k + 1 => it.prev n :: prevRun it (it.prev n - 1) k

theorem prevRun_eq (e : Env) (he : GenSpec e) (hintP hintN : ℕ → ℕ) (k : ℕ) : ∀ n, n ≤ umax →
    prevRun (modelIter e hintP hintN) n k = prevSeq (Nat.findGreatest Nat.Prime n) k := by
  induction k with
  | zero => intro n _; rfl
  | succ k ih =>
    intro n hn
    have h1 := modelIter_prev e he hintP hintN n hn
    have hle : Nat.findGreatest Nat.Prime n ≤ n := Nat.findGreatest_le n
    rw [prevRun, prevSeq, h1, ih _ (by omega)]

/-- **`it1`**: the `k` successive `prev_prime()` values of the iterator object `iterator(stop, hint)` are `it.prev stop`,
    `it.prev (v₀ - 1)`, `it.prev (v₁ - 1)`, … for `it = modelIter` -/
theorem prev_run_is_Iter (e : Env) (he : GenSpec e) (hintP hintN : ℕ → ℕ) (stop hint : ℕ) (hs : stop ≤ umax) (hh : hint ≤ umax)
    (k : ℕ) : run e (init stop hint) (List.replicate k .prev) = (prevRun (modelIter e hintP hintN) stop k, none) := by
  have hv : ∀ op ∈ List.replicate k Op.prev, op.valid := by
    intro op hop; rw [List.eq_of_mem_replicate hop]; trivial
  rw [run_eq_absRun e he _ _ _ (inv_init stop hint hs hh) hv, absRun_prev, prevRun_eq e he hintP hintN k stop hs]
  rfl

/-- `k + 1` successive `generate_next_primes()` calls on one iterator object whose client sets `i_` to `js t` before call `t` -/
def genRun (e : Env) (start hint : ℕ) (js : ℕ → ℕ) : ℕ → Except Err St
  | 0 => genNext e bigFuel (init start hint)
  | k + 1 => match genRun e start hint js k with
    | .error err => .error err
    | .ok s => genNext e bigFuel { s with i := js k }

/-- **`it2`**: every buffer of ONE iterator object `iterator(start, hint)` driven only by `generate_next_primes()` satisfies
    the `next_*` clauses of `IterSpec` at the position where `P2L.loop1` asks for it: `n₀ = start`, `n_{k+1} = last_k + 1`
    (no prime skipped or repeated between buffers, for any batching and any `i_` the client wrote) -/
theorem next_run_is_Iter (e : Env) (he : GenSpec e) (start hint : ℕ) (hs : start ≤ umax) (hh : hint ≤ umax) (js : ℕ → ℕ) (k : ℕ) :
    ∀ s, genRun e start hint js k = .ok s →
      ∃ n L, Batch s n L ∧ s.i = 0 ∧
        (k = 0 → n = start) ∧
        (∀ k' s0, k = k' + 1 → genRun e start hint js k' = .ok s0 → ∃ L0, s0.buf.getLast? = some L0 ∧ n = L0 + 1) := by
  induction k with
  | zero =>
    intro s hs'
    have hf := Batch.first e he start hint hs hh
    by_cases hp : ∃ p, p.Prime ∧ start ≤ p ∧ p ≤ umax
    · obtain ⟨s', L', h1, h2, h3⟩ := hf.1 hp
      have : s' = s := by
        have : genRun e start hint js 0 = .ok s' := h1
        rw [hs'] at this; exact (Except.ok.inj this).symm
      subst this
      exact ⟨start, L', h3, h2, fun _ => rfl, fun k' _ hk => by omega⟩
    · have := hf.2 (fun p h1 h2 h3 => hp ⟨p, h1, h2, h3⟩)
      have h0 : genRun e start hint js 0 = .error .ps := this
      rw [hs'] at h0; exact absurd h0 (by simp)
  | succ k ih =>
    intro s hs'
    rw [genRun] at hs'
    rcases hk : genRun e start hint js k with err | s0
    · rw [hk] at hs'; exact absurd hs' (by simp)
    · rw [hk] at hs'
      simp only [] at hs'
      obtain ⟨n0, L0, hb, _, _, _⟩ := ih s0 hk
      have hn := (hb.set_i (js k)).next e he
      by_cases hp : ∃ p, p.Prime ∧ L0 + 1 ≤ p ∧ p ≤ umax
      · obtain ⟨s', L', h1, h2, h3⟩ := hn.1 hp
        have : s' = s := by rw [hs'] at h1; exact (Except.ok.inj h1).symm
        subst this
        refine ⟨L0 + 1, L', h3, h2, fun h => by omega, fun k' s0' hk' hs0' => ?_⟩
        have : k' = k := by omega
        subst this
        rw [hk] at hs0'
        have : s0 = s0' := Except.ok.inj hs0'
        subst this
        exact ⟨L0, hb.last, rfl⟩
      · have h0 := hn.2 (fun p h1 h2 h3 => hp ⟨p, h1, h2, h3⟩)
        rw [hs'] at h0; exact absurd h0 (by simp)

end Pc.It
