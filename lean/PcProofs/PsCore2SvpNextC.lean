/-
C18 core, second half: `SievingPrimes::fill()` and `SievingPrimes::next()` — the `k`-th call of `next` delivers the `k`-th
prime of `(163, √stop]`, then `~0ull` forever.
-/
import PcProofs.PsCore2SvpNextB

namespace Pc.PsCore
open Pc.PsWheelSpec
open Pc.Sieve (Bytes bitAt word64)

/-- the reading part of `fill()` -/
def svpGo (v : SvP) : SvP :=
  { v with buf := (svpFillLoop v.e.sieve (v.e.sieve.size / 8 + 1) #[] v.low v.sieveIdx).1, i := 0,
           low := (svpFillLoop v.e.sieve (v.e.sieve.size / 8 + 1) #[] v.low v.sieveIdx).2.1,
           sieveIdx := (svpFillLoop v.e.sieve (v.e.sieve.size / 8 + 1) #[] v.low v.sieveIdx).2.2 }

theorem fill_eq (T : Array Bytes) (v : SvP) :
    v.fill T = if v.sieveIdx ≥ v.e.sieve.size then
      (if (v.sieveSegment T).2 then svpGo (v.sieveSegment T).1 else (v.sieveSegment T).1) else svpGo v := rfl

/-- everything has been sieved and read -/
def SvpEnd (v : SvP) : Prop := ¬ v.e.segmentLow < v.e.stop ∧ v.e.sieve.size ≤ v.sieveIdx

/-- the state `v` of a `SievingPrimes` object over `(163, N]` will deliver exactly the list `T`, then `~0ull` forever -/
def SInv (N : ℕ) (v : SvP) (T : List ℕ) : Prop :=
  (SvpEnd v ∧ ∃ m, v.buf.toList.drop v.i = T ++ List.replicate m u64Max) ∨
  (T = v.buf.toList.drop v.i ++ prFrom N (v.low + 7) ∧ (SvpReading N v ∨ SvpBetween N v))

/-- **the reading part of `fill()`** on a sieved segment -/
theorem svpGo_reading {N : ℕ} {v : SvP} (h : SvpReading N v) :
    (svpGo v).i = 0 ∧ svpPhi (svpGo v) + 1 ≤ svpPhi v ∧ SInv N (svpGo v) (prFrom N (v.low + 7)) ∧
    (v.e.sieve.size ≤ (svpGo v).sieveIdx ∨ 64 < (svpGo v).buf.size) := by
  obtain ⟨L, w, hL, hs, hidx, hw, hlow, hd⟩ := h
  have hcov : v.e.sieve.size % 8 = 0 ∨ N ≤ L + 30 * v.e.sieve.size + 6 := by
    rcases hd with hd | hd
    · exact Or.inl hd.1.einv.size_mod8
    · exact Or.inr hd.2
  obtain ⟨w', l, h1, h2, h3, h4, h5⟩ := svpFillLoop_spec N L v.e.sieve hL hs hcov (v.e.sieve.size / 8) #[] w hw
  have hbuf : (#[] ++ l.toArray : Array ℕ).toList = l := by simp
  unfold svpGo
  rw [hlow, hidx, h1]
  refine ⟨rfl, ?_, ?_, ?_⟩
  · unfold svpPhi
    show (if v.e.segmentLow < v.e.stop then (v.e.stop - v.e.segmentLow) / 240 + 1 else 0) +
        (v.e.sieve.size - 8 * w' + 7) / 8 + 1 ≤
      (if v.e.segmentLow < v.e.stop then (v.e.stop - v.e.segmentLow) / 240 + 1 else 0) + (v.e.sieve.size - v.sieveIdx + 7) / 8
    rw [hidx]; omega
  · by_cases hin : 8 * w' < v.e.sieve.size
    · right
      refine ⟨?_, Or.inl ⟨L, w', hL, hs, rfl, hin, rfl, hd⟩⟩
      show _ = (#[] ++ l.toArray : Array ℕ).toList.drop 0 ++ prFrom N (L + 240 * w' + 7)
      rw [hbuf, List.drop_zero, h4]
    · rcases hd with hd | hd
      · right
        have := hd.1.einv.size_mod8
        refine ⟨?_, Or.inr ⟨hd.1, ?_, ?_⟩⟩
        · show _ = (#[] ++ l.toArray : Array ℕ).toList.drop 0 ++ prFrom N (L + 240 * w' + 7)
          rw [hbuf, List.drop_zero, h4]
        · show v.e.sieve.size ≤ 8 * w'
          omega
        · show L + 240 * w' = v.e.segmentLow
          rw [hd.2]; omega
      · left
        refine ⟨⟨hd.1, ?_⟩, 0, ?_⟩
        · show v.e.sieve.size ≤ 8 * w'
          omega
        · show (#[] ++ l.toArray : Array ℕ).toList.drop 0 = _
          rw [hbuf, List.drop_zero, h4, prFrom_eq_nil (by omega)]
          simp
  · exact h5 (by omega)

theorem drop_nil_of_le {v : SvP} (hi : v.buf.size ≤ v.i) : v.buf.toList.drop v.i = [] :=
  List.drop_eq_nil_of_le (by simpa using hi)

/-- **one `fill()`** (called by `next` only when the buffer is exhausted) -/
theorem svp_fill_inv {N : ℕ} {v : SvP} {T : List ℕ} (h : SInv N v T) (hi : v.buf.size ≤ v.i) :
    SInv N (v.fill (preTabsDecoded ())) T ∧
    (svpPhi (v.fill (preTabsDecoded ())) + 1 ≤ svpPhi v ∨ (v.fill (preTabsDecoded ())).i < (v.fill (preTabsDecoded ())).buf.size) := by
  have hdrop := drop_nil_of_le hi
  rw [fill_eq]
  rcases h with ⟨⟨he1, he2⟩, m, hm⟩ | ⟨hT, hr | hb⟩
  · rw [hdrop] at hm
    have hT : T = [] := by
      cases T with
      | nil => rfl
      | cons a T => simp at hm
    have hn : v.e.hasNextSegment = false := by unfold Erat.hasNextSegment; exact decide_eq_false he1
    have hseg : v.sieveSegment (preTabsDecoded ()) = ({ v with i := 0, buf := #[u64Max] }, false) := by
      unfold SvP.sieveSegment; rw [hn]; rfl
    rw [if_pos he2, hseg]
    simp only [Bool.false_eq_true, if_false]
    refine ⟨Or.inl ⟨⟨he1, he2⟩, 1, ?_⟩, Or.inr ?_⟩
    · rw [hT]; rfl
    · show 0 < (#[u64Max] : Array ℕ).size
      simp
  · rw [hdrop, List.nil_append] at hT
    obtain ⟨L, w, _, _, hidx, hw, _⟩ := id hr
    rw [if_neg (by omega)]
    obtain ⟨g1, g2, g3, _⟩ := svpGo_reading hr
    rw [hT]
    exact ⟨g3, Or.inl g2⟩
  · rw [hdrop, List.nil_append] at hT
    rw [if_pos hb.2.1]
    obtain ⟨k1, k2, k3, k4, k5, k6⟩ := svp_sieveSegment_between hb
    rw [if_pos k1]
    obtain ⟨g1, g2, g3, _⟩ := svpGo_reading k2
    rw [k3] at g3
    rw [hT]
    exact ⟨g3, Or.inl (by omega)⟩

theorem getD_eq_of_drop {b : Array ℕ} {i a : ℕ} {l : List ℕ} (h : b.toList.drop i = a :: l) :
    b.getD i 0 = a ∧ b.toList.drop (i + 1) = l := by
  have hi : i < b.toList.length := by
    by_contra hge
    rw [List.drop_eq_nil_of_le (by omega)] at h
    simp at h
  rw [List.drop_eq_getElem_cons hi] at h
  injection h with h1 h2
  refine ⟨?_, h2⟩
  rw [← h1]
  simp only [Array.length_toList] at hi
  simp [Array.getD, hi]

/-- **`next()`** with enough fuel -/
theorem svp_next_inv (N : ℕ) : ∀ (fuel : ℕ) (v : SvP) (T : List ℕ), SInv N v T →
    (svpPhi v + 2 ≤ fuel ∨ (v.i < v.buf.size ∧ 1 ≤ fuel)) →
    (SvP.next (preTabsDecoded ()) fuel v).1 = T.headD u64Max ∧ SInv N (SvP.next (preTabsDecoded ()) fuel v).2 T.tail
  | 0, v, T, _, hf => by omega
  | fuel + 1, v, T, h, hf => by
    unfold SvP.next
    by_cases hi : v.i ≥ v.buf.size
    · rw [if_pos hi]
      obtain ⟨h1, h2⟩ := svp_fill_inv h hi
      apply svp_next_inv N fuel _ T h1
      rcases h2 with h2 | h2
      · left; omega
      · right; exact ⟨h2, by omega⟩
    · rw [if_neg hi]
      have hlt : v.i < v.buf.toList.length := by simpa using hi
      have hcons := List.drop_eq_getElem_cons hlt
      obtain ⟨g1, g2⟩ := getD_eq_of_drop hcons
      show v.buf.getD v.i 0 = T.headD u64Max ∧ SInv N { v with i := v.i + 1 } T.tail
      rcases h with ⟨he, m, hm⟩ | ⟨hT, hs⟩
      · rw [hcons] at hm
        cases T with
        | nil =>
          cases m with
          | zero => simp at hm
          | succ m =>
            rw [List.nil_append, List.replicate_succ] at hm
            injection hm with hm1 hm2
            refine ⟨by rw [g1, hm1]; rfl, Or.inl ⟨he, m, ?_⟩⟩
            show v.buf.toList.drop (v.i + 1) = _
            rw [g2, hm2]; rfl
        | cons a T =>
          rw [List.cons_append] at hm
          injection hm with hm1 hm2
          refine ⟨by rw [g1, hm1]; rfl, Or.inl ⟨he, m, ?_⟩⟩
          show v.buf.toList.drop (v.i + 1) = _
          rw [g2, hm2]; rfl
      · rw [hcons, List.cons_append] at hT
        subst hT
        refine ⟨by rw [g1]; rfl, Or.inr ⟨?_, hs⟩⟩
        show _ = v.buf.toList.drop (v.i + 1) ++ _
        rw [g2]; rfl

theorem svpPhi_le_fuel (v : SvP) : svpPhi v + 2 ≤ v.nextFuel := by
  unfold svpPhi SvP.nextFuel
  split <;> omega

/-- `v` is the state of a `SievingPrimes` object over `(163, √eratStop]` that has delivered its first `k` primes -/
def SvpAt (eratStop : ℕ) (v : SvP) (k : ℕ) : Prop :=
  SInv (Nat.sqrt eratStop) v ((svPrimes (Nat.sqrt eratStop)).drop k)

theorem svp_next_at (eratStop : ℕ) (v : SvP) (k : ℕ) (h : SvpAt eratStop v k) :
    (SvP.next (preTabsDecoded ()) v.nextFuel v).1 = (svPrimes (Nat.sqrt eratStop)).getD k u64Max ∧
    SvpAt eratStop (SvP.next (preTabsDecoded ()) v.nextFuel v).2 (k + 1) := by
  obtain ⟨h1, h2⟩ := svp_next_inv _ v.nextFuel v _ h (Or.inl (svpPhi_le_fuel v))
  refine ⟨?_, ?_⟩
  · rw [h1]; simp [List.headD_eq_head?_getD, List.head?_drop, List.getD_eq_getElem?_getD]
  · unfold SvpAt
    rw [List.tail_drop] at h2
    exact h2

theorem svp_init_at (l1raw eratStop kib : ℕ) (hs : eratStop < 2 ^ 64) (hk : 16 ≤ kib) (hk2 : kib ≤ 8192) :
    SvpAt eratStop (svpInit l1raw eratStop kib) 0 := by
  unfold SvpAt
  rw [List.drop_zero]
  have hN32 : Nat.sqrt eratStop < 2 ^ 32 := Nat.sqrt_lt'.2 (by rw [← pow_mul]; exact hs)
  by_cases hN : Nat.sqrt eratStop < 165
  · left
    have he := svpInit_e_empty l1raw eratStop kib hN
    refine ⟨⟨?_, ?_⟩, 0, ?_⟩
    · rw [he]; show ¬ u64Max < 0; omega
    · rw [he]; show (#[] : Bytes).size ≤ _; simp
    · rw [svPrimes_small hN, (svpInit_buf l1raw eratStop kib).1]; rfl
  · right
    have hN' : 165 ≤ Nat.sqrt eratStop := by omega
    have hf := svpInit_facts l1raw eratStop kib hN' (by omega) hk hk2
    have hlow := svpInit_segmentLow l1raw eratStop kib hN' (by omega) hk hk2
    refine ⟨?_, Or.inr ⟨⟨hf.start_eq, hf.stop_eq, svpInit_tiny l1raw eratStop kib (by omega) hk hk2,
      by rw [svpInit_tinyIdx], by rw [svpInit_tinyIdx], ?_, ?_⟩, ?_, rfl⟩⟩
    · rw [(svpInit_buf l1raw eratStop kib).1, svpInit_low, hlow]
      exact svPrimes_eq_prFrom _ 157 (by omega)
    · rw [svpInit_e]
      have hmed := eratInit_medium_lt l1raw 165 (Nat.sqrt eratStop) kib (by omega) hN' (by omega) (by omega) hk hk2 (by omega)
      refine (einv_init l1raw 165 (Nat.sqrt eratStop) kib (by omega) hN' (by omega) (by omega) hk hk2 hmed).congr ?_
      intro x; unfold PAdded
      constructor
      · exact False.elim
      · rintro ⟨_, a, b⟩
        have : (svpInit l1raw eratStop kib).tinyIdx = 165 := rfl
        omega
    · rw [hlow, hf.stop_eq]; omega
    · have := hf.size_le
      rw [svpInit_sieveIdx]
      unfold u64Max
      omega

end Pc.PsCore
